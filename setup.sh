#!/bin/sh
# MANIFEST.setup_cmd — build the framework from files on disk only (offline).
set -e
cd "$(dirname "$0")"
export GOFLAGS=-mod=mod GOPROXY=off GOSUMDB=off GOTOOLCHAIN=local CGO_ENABLED=0
mkdir -p .bin evidence replays
(cd tools/extract && go build -o ../../.bin/extract .)
ASM=$(cd /repo && go list -m -f '{{.Dir}}' github.com/segmentio/asm 2>/dev/null || true)
[ -d "$ASM" ] || ASM=/root/go/pkg/mod/github.com/segmentio/asm@v1.1.3
(cd tools/asmconsts && go build -o ../../.bin/asmconsts .)
.bin/extract /repo "$ASM/ascii" lean/Enc/Gen/Consts.lean .bin/anchors.json lean/Enc/Gen/Pools.lean
.bin/asmconsts "$ASM/ascii" > lean/Enc/Gen/AsmConsts.lean
(cd lean && lake build Enc encdriver)
cp /repo/go.sum harness/go.sum
(cd harness && go build -tags verif -o ../.bin/vh-default . && go build -tags "verif purego" -o ../.bin/vh-purego . &&
  CGO_ENABLED=1 go build -race -tags verif -o ../.bin/vh-race .)
echo setup-ok
