import Enc.Lemmas.ThriftUnionDec
/-!
Thrift unions, part 3: the struct loop of the decoder with unions (`decodeStructU`) over records that the target declares.
`zo` = `some dec.zero` for a union type (every accepted member first resets the struct), `none` for a plain struct.

  * `decodeStructU_stop`       the stop field ends the loop
  * `decodeStructU_declared`   one declared record: reset (union), store, remember the position (`lastField`)
  * `decodeStructU_loop`       any number of declared records with ascending ids, on a UNION: the result is the zero value
                               with the LAST record's member set — the last member on the wire wins
-/
namespace Enc.Lemmas.ThriftUnion
open Enc Enc.Model.Thrift Enc.Lemmas.ThriftPrim Enc.Lemmas.ThriftSkip Enc.Lemmas.ThriftRoundTrip

/-- decoding the value part of a field with `decodeU` (cf. `ThriftRoundTrip.ValStep`) -/
def ValStepU (p : Proto) (strict : Bool) (d : Nat) (fd : FieldDesc) (body : Bytes) (B : Nat) (z w : Val) : Prop :=
  (∀ k, fd.enum = true → baseOf fd.ty = .int k →
    ∃ i, (∀ rest, rI32 p (body ++ rest) = .ok (i, rest)) ∧ wrapPtr fd.ty (.int (wrapTo k.bits i)) = w) ∧
  (¬ (fd.enum = true ∧ ∃ k, baseOf fd.ty = .int k) →
    ∀ fuel rest, body.length + B ≤ fuel → decodeU p strict d fuel fd.ty (body ++ rest) z = .ok (w, rest))

/-- one emitted record that the target declares: id in 1 … 32767, the declared wire type, and the value step from the
initial value `Z[pos]` to `w` -/
def DecRecU (p : Proto) (strict : Bool) (d : Nat) (descs : List FieldDesc) (Z : Vals) (B : Nat) (f : FieldRec) (w : Val) : Prop :=
  1 ≤ f.id ∧ f.id ≤ 32767 ∧ isReal f.t = true ∧ f.t ≠ .true_ ∧
  ∃ fd, findById descs f.id = some fd ∧ typeOf fd.ty = f.t ∧
    (f.t = .bool → wrapPtr fd.ty (.bool f.isTrue) = w) ∧
    ValStepU p strict d fd f.body B (Vals.get Z fd.pos) w

theorem decodeStructU_stop (p : Proto) (strict : Bool) (d fuel : Nat) (descs : List FieldDesc) (zo : Option Vals)
    (rest : Bytes) (vs : Vals) (last : Int) (num : Nat) (seen : List Int) (lastF : Option Nat) (hf : 1 ≤ fuel) :
    decodeStructU p strict d fuel descs zo (wStopField p ++ rest) vs last num seen lastF = .ok ((vs, seen, lastF), rest) := by
  obtain ⟨f, rfl⟩ : ∃ f, fuel = f + 1 := ⟨fuel - 1, by omega⟩
  cases p with
  | compact =>
    have : wStopField .compact = wField .compact .stop 0 false := rfl
    rw [decodeStructU, this, rField_wField_compact_stop]
    simp
  | binary s =>
    rw [decodeStructU, wStopField_binary s false, rField_wField_binary s .stop 0 false (Or.inr rfl) (by decide)]
    simp

/-- evaluates the value part of one declared field inside an unfolded `decodeStructU` -/
local macro "val_stepU" d:ident hval:ident hf:ident : tactic => `(tactic|
  (obtain ⟨hv1, hv2⟩ := $hval
   by_cases he : FieldDesc.enum $d = true
   · simp only [he, if_true]
     split
     · rename_i k hk
       obtain ⟨i, hi, hw⟩ := hv1 k he hk
       rw [hi]; simp only [Res.bind, dontExpectEOF_ok, hw]
     · rename_i hk
       rw [hv2 (fun ⟨_, k, hk'⟩ => hk k hk') _ _ $hf]; simp only [dontExpectEOF_ok, Res.bind]
   · simp only [he, Bool.false_eq_true, if_false]
     rw [hv2 (fun ⟨h, _⟩ => he h) _ _ $hf]; simp only [dontExpectEOF_ok, Res.bind]))

/-- one declared record, any protocol: the loop resets the struct (union), stores the decoded value, remembers the
position and continues after the record -/
theorem decodeStructU_declared (p : Proto) (strict : Bool) (d : Nat) (descs : List FieldDesc) (zo : Option Vals)
    (vs : Vals) (B : Nat) (f : FieldRec) (w : Val) (r : List FieldRec)
    (hd : DecRecU p strict d descs (resetTo zo vs) B f w)
    (last : Int) (hl : 0 ≤ last) (hlt : last < f.id) (fuel : Nat)
    (hf' : ¬ (p.coalesce = true ∧ f.t = .bool) → f.body.length + B ≤ fuel)
    (num : Nat) (seen : List Int) (lastF : Option Nat) (rest : Bytes) :
    decodeStructU p strict d (fuel + 1) descs zo (emitFields p (f :: r) last ++ rest) vs last num seen lastF
      = decodeStructU p strict d fuel descs zo (emitFields p r f.id ++ rest)
          (Vals.set (resetTo zo vs) (posOf descs f.id) w) f.id (num + 1) (f.id :: seen) (some (posOf descs f.id)) := by
  obtain ⟨h1, h2, hr, hnt, fd, hfind, hty, hbool, hval⟩ := hd
  have hpos : posOf descs f.id = fd.pos := by simp [posOf, hfind]
  rw [hpos]
  cases p with
  | binary s =>
    have hf := hf' (by simp [Proto.coalesce])
    simp only [emitFields, Proto.delta, Proto.coalesce, Bool.false_and, Bool.false_eq_true, if_false,
      List.append_assoc]
    rw [decodeStructU, rField_wField_binary s f.t f.id _ (Or.inl hr) (by omega)]
    simp only [ne_stop_of_real f.t hr, Bool.false_eq_true, if_false, Proto.coalesce, Bool.false_and,
      wrap16_id f.id ⟨h1, h2⟩, hfind, hty, bne_self_eq_false, Bool.false_and]
    val_stepU fd hval hf
  | compact =>
    simp only [emitFields, Proto.delta, Proto.coalesce, Bool.true_and, decide_eq_true_eq, List.append_assoc]
    by_cases hb : f.t = .bool
    · simp only [hb, beq_self_eq_true, Bool.true_and, if_true, List.nil_append]
      have hreal : isReal (if f.isTrue = true then TType.true_ else TType.bool) = true := by
        split <;> rfl
      obtain ⟨h, hrd, hty', hid⟩ := rField_compact_emit _ f.id last hreal hl hlt h2
        (emitFields .compact r f.id ++ rest)
      rw [decodeStructU, hrd]
      have hbw := hbool hb
      cases hT : f.isTrue
      · rw [hT] at hty' hbw
        simp only [Bool.false_eq_true, if_false] at hty'
        have e : (TType.bool == TType.true_) = false := rfl
        simp [hty', hid, wrap16_id f.id ⟨h1, h2⟩, hfind, hty, hb, Proto.coalesce, e, hbw]
      · rw [hT] at hty' hbw
        simp only [if_true] at hty'
        simp [hty', hid, wrap16_id f.id ⟨h1, h2⟩, hfind, hty, hb, Proto.coalesce, hbw]
    · have hb' : (f.t == TType.bool) = false := by simpa using hb
      have hf := hf' (fun h => hb h.2)
      simp only [hb', Bool.false_eq_true, if_false, Bool.false_and]
      obtain ⟨h, hrd, hty', hid⟩ := rField_compact_emit f.t f.id last hr hl hlt h2
        (f.body ++ (emitFields .compact r f.id ++ rest))
      rw [decodeStructU, hrd]
      have hco : (f.t == TType.true_ || f.t == TType.bool) = false := by
        have : (f.t == TType.true_) = false := by simpa using hnt
        simp [this, hb']
      simp only [hty', ne_stop_of_real f.t hr, Bool.false_eq_true, if_false, hid, wrap16_id f.id ⟨h1, h2⟩, hfind,
        hty, bne_self_eq_false, Bool.false_and, Proto.coalesce, Bool.true_and, hco]
      val_stepU fd hval hf

/-- **the struct loop of a UNION over declared records** (ids ascending, as an encoder writes them): every record resets
the struct to `Z` and stores its member, so what is left at the stop field is `Z` with the member of the LAST record; the
ids of all records have been seen; `lastField` is the last record's member. `W f` = the value record `f` decodes to. -/
theorem decodeStructU_loop (p : Proto) (strict : Bool) (d : Nat) (descs : List FieldDesc) (Z : Vals) (B : Nat)
    (W : FieldRec → Val) :
    ∀ (l : List FieldRec) (last : Int) (num fuel : Nat) (cur : Vals) (seen : List Int) (lastF : Option Nat) (rest : Bytes),
      0 ≤ last → (∀ f ∈ l, last < f.id) → l.Pairwise (fun a b => a.id < b.id) →
      (∀ f ∈ l, DecRecU p strict d descs Z B f (W f)) →
      (emitFields p l last).length + 1 + B ≤ fuel →
      decodeStructU p strict d fuel descs (some Z) (emitFields p l last ++ (wStopField p ++ rest)) cur last num seen lastF
        = .ok (((match l.getLast? with | some f => Vals.set Z (posOf descs f.id) (W f) | none => cur),
                (l.map (·.id)).reverse ++ seen,
                (match l.getLast? with | some f => some (posOf descs f.id) | none => lastF)), rest) := by
  intro l
  induction l with
  | nil =>
    intro last num fuel cur seen lastF rest _ _ _ _ hf
    simp only [emitFields, List.nil_append, List.map_nil, List.reverse_nil, List.getLast?_nil]
    rw [decodeStructU_stop p strict d fuel descs (some Z) rest cur last num seen lastF (by omega)]
  | cons f r ih =>
    intro last num fuel cur seen lastF rest hl hlast hpw hd hf
    have hdf := hd f (List.mem_cons_self ..)
    have hlt := hlast f (List.mem_cons_self ..)
    rw [List.pairwise_cons] at hpw
    obtain ⟨fu, rfl⟩ : ∃ fu, fuel = fu + 1 := ⟨fuel - 1, by omega⟩
    obtain ⟨hl1, hl2⟩ := emitFields_cons_length p f r last
    have hfu : ¬ (p.coalesce = true ∧ f.t = .bool) → f.body.length + B ≤ fu := by
      intro hco; have := hl2 hco; omega
    rw [decodeStructU_declared p strict d descs (some Z) cur B f (W f) r hdf last hl hlt fu hfu]
    rw [ih f.id (num + 1) fu _ (f.id :: seen) _ rest (by omega) hpw.1 hpw.2
      (fun g hg => hd g (List.mem_cons_of_mem _ hg)) (by omega)]
    cases r with
    | nil => simp [resetTo]
    | cons g r' =>
      cases hgl : (g :: r').getLast? with
      | none => simp at hgl
      | some x => simp [List.getLast?_cons_cons, hgl]

end Enc.Lemmas.ThriftUnion
