import Enc.Lemmas.ProtoTemplateFold
/-!
# Value level of message rewriting, part 2: a table of input-independent entries, record level → value level

`T` is the specification's table (`SRw.message T`). An entry for field `n` is *input independent* (`EntSem`) when it
always emits the same records `a` (whatever the old value of the field was), `n` is a declared field at position `i`,
and decoding `a` sets position `i` to a fixed value (`eff = some x`) or — `a` empty — leaves it alone (`eff = none`).
Then decoding the rewritten message (`specMsg`: first occurrence replaced, later ones dropped, absent ones appended,
everything else kept in order) gives the decoded input with position `i` replaced by `x` (or by the INITIAL value of the
position when the entry emits nothing: the field is deleted), for every entry, and nothing else changed
(`specMsg_fold`). All fields of the message are scalars here (`flat`), so the decoder is the fold `foldS`.
-/
namespace Enc.Lemmas.ProtoTemplate
open Enc Enc.Spec.Protobuf

def EntSem (fs : Fields) (n : Nat) (e : SRw) (i : Nat) (eff : Option Val) : Prop :=
  ∃ (a : List (Nat × WireVal)) (o : FieldOpt) (t : Ty),
    (∀ k p, specRw (k + 2) e p = some a) ∧ findField fs n = some (i, o, t) ∧
    (∀ vs, foldS fs a vs = some (match eff with | some x => valsSet vs i x | none => vs))

structure TabSem (fs : Fields) (T : List (Nat × SRw)) (I : Nat → Nat) (E : Nat → Option Val) : Prop where
  nodup : (T.map Prod.fst).Nodup
  ent : ∀ n e, (n, e) ∈ T → EntSem fs n e (I n) (E n)

/-- position `j` is not the position of a templated field -/
def Untouched (T : List (Nat × SRw)) (I : Nat → Nat) (j : Nat) : Prop := ∀ n e, (n, e) ∈ T → I n ≠ j

structure Rel (fs : Fields) (T : List (Nat × SRw)) (I : Nat → Nat) (E : Nat → Option Val) (init : Vals)
    (seen : List Nat) (vs vs' : Vals) : Prop where
  len : vs'.length = fs.length
  len0 : vs.length = fs.length
  same : ∀ j, Untouched T I j → valsGet vs' j = valsGet vs j
  templ : ∀ n e, (n, e) ∈ T →
    valsGet vs' (I n) = if seen.contains n then (E n).getD (valsGet init (I n)) else valsGet init (I n)

theorem lookupRw_mem (T : List (Nat × SRw)) (n : Nat) (e : SRw) (h : lookupRw T n = some e) : (n, e) ∈ T := by
  simp only [lookupRw, Option.map_eq_some_iff] at h
  obtain ⟨p, hp, rfl⟩ := h
  have h1 := List.mem_of_find?_eq_some hp
  have h2 := List.find?_some hp
  simp only [beq_iff_eq] at h2
  obtain ⟨a, b⟩ := p
  simp only at h2; subst h2
  exact h1

theorem lookupRw_none (T : List (Nat × SRw)) (n : Nat) (h : lookupRw T n = none) : ∀ e, (n, e) ∉ T := by
  intro e he
  simp only [lookupRw, Option.map_eq_none_iff, List.find?_eq_none] at h
  have := h (n, e) he
  simp at this

/-- the unseen entries appended at the end -/
theorem absent_fold (fs : Fields) (T : List (Nat × SRw)) (I : Nat → Nat) (E : Nat → Option Val) (init : Vals)
    (hT : TabSem fs T I E) :
    ∀ (L : List (Nat × SRw)) (s : Nat) (vs' : Vals), L.length + 3 ≤ s → (∀ p, p ∈ L → p ∈ T) → (L.map Prod.fst).Nodup →
      vs'.length = fs.length → (∀ p, p ∈ L → valsGet vs' (I p.1) = valsGet init (I p.1)) →
      ∃ out res', specAbsent s L = some out ∧ foldS fs out vs' = some res' ∧ res'.length = fs.length ∧
        (∀ j, (∀ p, p ∈ L → I p.1 ≠ j) → valsGet res' j = valsGet vs' j) ∧
        (∀ p, p ∈ L → valsGet res' (I p.1) = (E p.1).getD (valsGet init (I p.1)))
  | [], s, vs', hs, _, _, hl, _ => by
    obtain ⟨k, rfl⟩ : ∃ k, s = k + 1 := ⟨s - 1, by simp at hs; omega⟩
    exact ⟨[], vs', by simp [specAbsent], by simp [foldS], hl, fun _ _ => rfl, fun p hp => by simp at hp⟩
  | (n, e) :: L, s, vs', hs, hsub, hnd, hl, hinit => by
    simp only [List.length_cons] at hs
    obtain ⟨k, rfl⟩ : ∃ k, s = k + 3 := ⟨s - 3, by omega⟩
    obtain ⟨a, o, t, hspec, hfind, hfold⟩ := hT.ent n e (hsub (n, e) (by simp))
    obtain ⟨hi, _, _⟩ := findField_spec fs n (I n) o t hfind
    simp only [List.map_cons, List.nodup_cons] at hnd
    -- state after the records of this entry
    let vs1 : Vals := match E n with | some x => valsSet vs' (I n) x | none => vs'
    have hvs1len : vs1.length = fs.length := by
      simp only [vs1]; split
      · rw [valsSet_length]; exact hl
      · exact hl
    have hother : ∀ (m : Nat) (e' : SRw), (m, e') ∈ L → I m ≠ I n := by
      intro m e' hm heq
      obtain ⟨_, o', t', _, hfind', _⟩ := hT.ent m e' (hsub (m, e') (by simp [hm]))
      rw [heq] at hfind'
      have := findField_inj fs m n (I n) o' o t' t hfind' hfind
      subst this
      exact hnd.1 (List.mem_map.mpr ⟨(m, e'), hm, rfl⟩)
    have hget1 : ∀ j, j ≠ I n → valsGet vs1 j = valsGet vs' j := by
      intro j hj; simp only [vs1]; split
      · exact valsGet_set_ne _ _ _ _ (fun h => hj h.symm)
      · rfl
    obtain ⟨out, res', h1, h2, h3, h4, h5⟩ := absent_fold fs T I E init hT L (k + 2) vs1 (by omega)
      (fun p hp => hsub p (by simp [hp])) hnd.2 hvs1len (fun p hp => by
        rw [hget1 _ (hother p.1 p.2 hp)]; exact hinit p (by simp [hp]))
    refine ⟨a ++ out, res', ?_, ?_, h3, ?_, ?_⟩
    · simp only [specAbsent, hspec k [], h1, Option.bind_eq_bind, Option.bind_some, Option.pure_def]
    · rw [foldS_append, hfold vs']; simpa using h2
    · intro j hj
      have hjn : I n ≠ j := hj (n, e) (by simp)
      rw [h4 j (fun p hp => hj p (by simp [hp])), hget1 j (fun h => hjn h.symm)]
    · intro p hp
      simp only [List.mem_cons] at hp
      rcases hp with rfl | hp
      · simp only
        rw [h4 (I n) (fun p hp => hother p.1 p.2 hp)]
        simp only [vs1]
        cases hE : E n with
        | none => simp only [Option.getD_none]; exact hinit (n, e) (by simp)
        | some x => simp only [Option.getD_some]; exact valsGet_set_eq _ _ _ (by omega)
      · exact h5 p hp

theorem contains_cons_ne' (seen : List Nat) (n m : Nat) (h : m ≠ n) : (n :: seen).contains m = seen.contains m := by
  simp only [List.contains_cons]
  have : (m == n) = false := by simpa using h
  rw [this, Bool.false_or]

/-- **record level → value level** for a table of input-independent entries -/
theorem specMsg_fold (fs : Fields) (T : List (Nat × SRw)) (I : Nat → Nat) (E : Nat → Option Val) (init : Vals)
    (hT : TabSem fs T I E) :
    ∀ (recs : List (Nat × WireVal)) (sf : Nat) (seen : List Nat) (vs vs' res : Vals),
      recs.length + T.length + 4 ≤ sf → foldS fs recs vs = some res → Rel fs T I E init seen vs vs' →
      ∃ out res', specMsg sf T recs seen = some out ∧ foldS fs out vs' = some res' ∧ res'.length = fs.length ∧
        (∀ j, Untouched T I j → valsGet res' j = valsGet res j) ∧
        (∀ n e, (n, e) ∈ T → valsGet res' (I n) = (E n).getD (valsGet init (I n)))
  | [], sf, seen, vs, vs', res, hs, hfold, hrel => by
    simp only [List.length_nil, Nat.zero_add] at hs
    obtain ⟨k, rfl⟩ : ∃ k, sf = k + 1 := ⟨sf - 1, by omega⟩
    simp only [foldS, Option.some.injEq] at hfold
    subst hfold
    have hLsub : ∀ p, p ∈ T.filter (fun p => !seen.contains p.1) → p ∈ T := fun p hp => (List.mem_filter.mp hp).1
    have hLlen : (T.filter (fun p => !seen.contains p.1)).length ≤ T.length := List.length_filter_le _ _
    have hLnd : ((T.filter (fun p => !seen.contains p.1)).map Prod.fst).Nodup :=
      (List.filter_sublist.map Prod.fst).nodup hT.nodup
    obtain ⟨out, res', h1, h2, h3, h4, h5⟩ := absent_fold fs T I E init hT (T.filter (fun p => !seen.contains p.1)) k vs'
      (by omega) hLsub hLnd hrel.len (fun p hp => by
        have hm := List.mem_filter.mp hp
        have := hrel.templ p.1 p.2 hm.1
        simp only [Bool.not_eq_true'] at hm
        rw [this, hm.2]; simp)
    refine ⟨out, res', by simp only [specMsg, h1], h2, h3, ?_, ?_⟩
    · intro j hj
      rw [h4 j (fun p hp => hj p.1 p.2 (hLsub p hp)), hrel.same j hj]
    · intro n e hne
      by_cases hseen : seen.contains n = true
      · -- already rewritten: not in the filtered list, value untouched by the tail
        have hnot : ∀ p, p ∈ T.filter (fun p => !seen.contains p.1) → I p.1 ≠ I n := by
          intro p hp heq
          have hm := List.mem_filter.mp hp
          obtain ⟨_, o', t', _, hfind', _⟩ := hT.ent p.1 p.2 hm.1
          obtain ⟨_, o, t, _, hfind, _⟩ := hT.ent n e hne
          rw [heq] at hfind'
          have := findField_inj fs p.1 n (I n) o' o t' t hfind' hfind
          simp only [Bool.not_eq_true'] at hm
          rw [this, hseen] at hm
          exact absurd hm.2 (by simp)
        rw [h4 (I n) hnot, hrel.templ n e hne, hseen]; simp
      · have hmem : (n, e) ∈ T.filter (fun p => !seen.contains p.1) := by
          apply List.mem_filter.mpr
          exact ⟨hne, by simpa using hseen⟩
        exact h5 (n, e) hmem
  | (n, w) :: rest, sf, seen, vs, vs', res, hs, hfold, hrel => by
    simp only [List.length_cons] at hs
    obtain ⟨k, rfl⟩ : ∃ k, sf = k + 3 := ⟨sf - 3, by omega⟩
    simp only [foldS] at hfold
    cases hstep : stepS fs (n, w) vs with
    | none => simp [hstep] at hfold
    | some vs1 =>
      simp only [hstep, Option.bind_some] at hfold
      cases hl : lookupRw T n with
      | none =>
        -- untemplated record: copied
        have hnotin := lookupRw_none T n hl
        -- the same step on the output side
        have hstep' : ∃ vs1', stepS fs (n, w) vs' = some vs1' ∧ Rel fs T I E init seen vs1 vs1' := by
          simp only [stepS] at hstep ⊢
          cases hf : findField fs n with
          | none =>
            simp only [hf, Option.some.injEq] at hstep
            subst hstep
            exact ⟨vs', rfl, hrel⟩
          | some p =>
            obtain ⟨i, o, t⟩ := p
            simp only [hf] at hstep ⊢
            cases hd : sdec t o w with
            | none => simp [hd] at hstep
            | some x =>
              simp only [hd, Option.map_some, Option.some.injEq] at hstep
              subst hstep
              have hunt : Untouched T I i := by
                intro m e hm heq
                obtain ⟨_, o', t', _, hfind', _⟩ := hT.ent m e hm
                rw [heq] at hfind'
                have := findField_inj fs m n i o' o t' t hfind' hf
                subst this
                exact hnotin e hm
              refine ⟨valsSet vs' i x, rfl, ⟨by rw [valsSet_length]; exact hrel.len, by rw [valsSet_length]; exact hrel.len0, ?_, ?_⟩⟩
              · intro j hj
                by_cases hij : i = j
                · subst hij
                  obtain ⟨hi, _, _⟩ := findField_spec fs n i o t hf
                  have hsame := hrel.same i hj
                  rw [valsGet_set_eq _ _ _ (by rw [hrel.len]; exact hi), valsGet_set_eq _ _ _ (by rw [hrel.len0]; exact hi)]
                · rw [valsGet_set_ne _ _ _ _ hij, valsGet_set_ne _ _ _ _ hij]; exact hrel.same j hj
              · intro m e hm
                rw [valsGet_set_ne _ _ _ _ (fun h => hunt m e hm h.symm)]
                exact hrel.templ m e hm
        obtain ⟨vs1', hs1, hrel1⟩ := hstep'
        obtain ⟨out, res', h1, h2, h3, h4, h5⟩ := specMsg_fold fs T I E init hT rest (k + 2) seen vs1 vs1' res (by omega) hfold hrel1
        refine ⟨(n, w) :: out, res', ?_, ?_, h3, h4, h5⟩
        · simp only [specMsg, hl, h1, Option.bind_eq_bind, Option.bind_some, Option.pure_def]
        · simp only [foldS, hs1, Option.bind_some, h2]
      | some e =>
        have hne := lookupRw_mem T n e hl
        obtain ⟨a, o, t, hspec, hfind, hfoldA⟩ := hT.ent n e hne
        obtain ⟨hi, _, _⟩ := findField_spec fs n (I n) o t hfind
        -- the input-side step writes position I n only
        have hvs1 : ∃ x, vs1 = valsSet vs (I n) x := by
          simp only [stepS, hfind] at hstep
          cases hd : sdec t o w with
          | none => simp [hd] at hstep
          | some x => simp only [hd, Option.map_some, Option.some.injEq] at hstep; exact ⟨x, hstep.symm⟩
        obtain ⟨x0, rfl⟩ := hvs1
        have hinj : ∀ m e', (m, e') ∈ T → m ≠ n → I m ≠ I n := by
          intro m e' hm hmn heq
          obtain ⟨_, o', t', _, hfind', _⟩ := hT.ent m e' hm
          rw [heq] at hfind'
          exact hmn (findField_inj fs m n (I n) o' o t' t hfind' hfind)
        by_cases hseen : seen.contains n = true
        · -- later occurrence: dropped
          have hrel1 : Rel fs T I E init seen (valsSet vs (I n) x0) vs' :=
            ⟨hrel.len, by rw [valsSet_length]; exact hrel.len0, fun j hj => by
              rw [valsGet_set_ne _ _ _ _ (hj n e hne)]; exact hrel.same j hj, hrel.templ⟩
          obtain ⟨out, res', h1, h2, h3, h4, h5⟩ := specMsg_fold fs T I E init hT rest (k + 2) seen _ vs' res (by omega) hfold hrel1
          exact ⟨out, res', by simp only [specMsg, hl, hseen, if_true, h1], h2, h3, h4, h5⟩
        · -- first occurrence: replaced by the entry's records
          let vs1' : Vals := match E n with | some x => valsSet vs' (I n) x | none => vs'
          have hrel1 : Rel fs T I E init (n :: seen) (valsSet vs (I n) x0) vs1' := by
            refine ⟨?_, by rw [valsSet_length]; exact hrel.len0, ?_, ?_⟩
            · simp only [vs1']; split
              · rw [valsSet_length]; exact hrel.len
              · exact hrel.len
            · intro j hj
              have hjn : I n ≠ j := hj n e hne
              rw [valsGet_set_ne _ _ _ _ hjn]
              simp only [vs1']; split
              · rw [valsGet_set_ne _ _ _ _ hjn]; exact hrel.same j hj
              · exact hrel.same j hj
            · intro m e' hm
              by_cases hmn : m = n
              · subst hmn
                simp only [List.contains_cons, beq_self_eq_true, Bool.true_or, if_true, vs1']
                cases hE : E m with
                | none =>
                  simp only [Option.getD_none]
                  simp only [Bool.not_eq_true] at hseen
                  rw [hrel.templ m e' hm, hseen]; simp
                | some x => simp only [Option.getD_some]; exact valsGet_set_eq _ _ _ (by rw [hrel.len]; exact hi)
              · rw [contains_cons_ne' seen n m hmn]
                have hne' : I n ≠ I m := fun h => hinj m e' hm hmn h.symm
                simp only [vs1']; split
                · rw [valsGet_set_ne _ _ _ _ hne']; exact hrel.templ m e' hm
                · exact hrel.templ m e' hm
          obtain ⟨out, res', h1, h2, h3, h4, h5⟩ := specMsg_fold fs T I E init hT rest (k + 2) (n :: seen) _ vs1' res (by omega) hfold hrel1
          refine ⟨a ++ out, res', ?_, ?_, h3, h4, h5⟩
          · simp only [Bool.not_eq_true] at hseen
            simp only [specMsg, hl, hseen, Bool.false_eq_true, if_false, hspec, h1, Option.bind_eq_bind, Option.bind_some, Option.pure_def]
          · rw [foldS_append, hfoldA vs']; simpa using h2

end Enc.Lemmas.ProtoTemplate
