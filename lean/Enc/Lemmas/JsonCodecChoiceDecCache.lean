import Enc.Model.Json.CodecChoiceDec
/-!
# The shared codec cache does not influence which DECODER a call compiles (C09 for json/codec.go, decode half)
-/
namespace Enc.Lemmas.JsonCodecChoiceDecCache
open Enc.Model.Json.CodecChoice

/-- every entry is what `constructCachedCodec` builds for its key when it runs alone (with an empty cache) -/
def GoodCacheD (env : Env) (cache : DCache) : Prop :=
  ∀ t c, cache.lookup t = some c → c = constructDec env t

/-- the caches that sequences of calls (any types, any order) can leave behind -/
inductive ReachableD (env : Env) : DCache → Prop
  | empty : ReachableD env []
  | step (cache : DCache) (t : TD) : ReachableD env cache → ReachableD env (constructCachedCodecDec env t cache).2

theorem goodCache_nil (env : Env) : GoodCacheD env [] := by
  intro t c h; simp at h

theorem lookup_cons (t k : TD) (c : DChoice) (cache : DCache) :
    List.lookup t ((k, c) :: cache) = if t = k then some c else cache.lookup t := by
  simp only [List.lookup]
  by_cases h : t = k
  · subst h; simp
  · have : (t == k) = false := by simpa using h
    simp [this, h]

theorem cached_empty (env : Env) (t : TD) : (constructCachedCodecDec env t []).1 = constructDec env t := by
  simp [constructCachedCodecDec]

theorem cache_history_independent (env : Env) (t : TD) (cache : DCache) (h : GoodCacheD env cache) :
    (constructCachedCodecDec env t cache).1 = (constructCachedCodecDec env t []).1 ∧
    GoodCacheD env (constructCachedCodecDec env t cache).2 := by
  rw [cached_empty]
  unfold constructCachedCodecDec
  cases hl : cache.lookup t with
  | some c => exact ⟨h t c hl, h⟩
  | none =>
    refine ⟨rfl, ?_⟩
    intro k c hk
    rw [lookup_cons] at hk
    by_cases hkt : k = t
    · subst hkt; simp at hk; exact hk.symm
    · simp [hkt] at hk; exact h k c hk

theorem reachable_good (env : Env) (cache : DCache) (h : ReachableD env cache) : GoodCacheD env cache := by
  induction h with
  | empty => exact goodCache_nil env
  | step cache t _ ih => exact (cache_history_independent env t cache ih).2

/-! ## the entry with both halves -/

def GoodCache2 (env : Env) (cache : Cache2) : Prop :=
  ∀ t c, cache.lookup t = some c → c = construct2 env t

theorem lookup_cons2 (t k : TD) (c : Codec2) (cache : Cache2) :
    List.lookup t ((k, c) :: cache) = if t = k then some c else cache.lookup t := by
  simp only [List.lookup]
  by_cases h : t = k
  · subst h; simp
  · have : (t == k) = false := by simpa using h
    simp [this, h]

theorem cache2_step (env : Env) (t : TD) (cache : Cache2) (h : GoodCache2 env cache) :
    (constructCachedCodec2 env t cache).1 = construct2 env t ∧ GoodCache2 env (constructCachedCodec2 env t cache).2 := by
  unfold constructCachedCodec2
  cases hl : cache.lookup t with
  | some c => exact ⟨h t c hl, h⟩
  | none =>
    refine ⟨rfl, ?_⟩
    intro k c hk
    rw [lookup_cons2] at hk
    by_cases hkt : k = t
    · subst hkt; simp at hk; exact hk.symm
    · simp [hkt] at hk; exact h k c hk

theorem runCalls2_good (env : Env) : ∀ (ts : List TD) (cache : Cache2), GoodCache2 env cache →
    GoodCache2 env (runCalls2 env ts cache)
  | [], _, h => h
  | t :: ts, cache, h => runCalls2_good env ts _ (cache2_step env t cache h).2

/-- whatever calls of Marshal and Unmarshal came before, a call obtains the codec — encoder AND decoder — it obtains
with a cold cache -/
theorem calls_history_independent2 (env : Env) (ts : List TD) (t : TD) :
    (constructCachedCodec2 env t (runCalls2 env ts [])).1 = (constructCachedCodec2 env t []).1 := by
  have hnil : GoodCache2 env [] := by intro k c h; simp at h
  rw [(cache2_step env t _ (runCalls2_good env ts [] hnil)).1, (cache2_step env t [] hnil).1]

end Enc.Lemmas.JsonCodecChoiceDecCache
