import Enc.Lemmas.ProtoTemplateLeaf
import Enc.Spec.ProtoTemplate
/-!
# Value level of templates: the leaf values of the template theorems (`leafVal`) against the independent value-level
specification `Spec.ProtoTemplate.tmplVal`, and the comparison form `Spec.ProtoTemplate.norm`.
-/
namespace Enc.Lemmas.ProtoTemplate
open Enc Enc.Spec.Protobuf
open Enc.Model.Proto (PKind gvInt gvBool gvString gvFloat floatIsZero PF)
open Enc.Model.Json (GV ITy)
open Enc.Spec.ProtoTemplate (tmplVal intOf intRange norm normPresence normPresenceVals isDefault)

/-! ### the specification's `tmplVal` on scalar types, in terms of the `gv*` readers -/

theorem tmplVal_bool (pf : PF) (f : Nat) (j : GV) (cur : Val) :
    tmplVal pf (f + 1) .bool j none cur = (gvBool j).map .bool := by
  cases j <;> rfl

theorem tmplVal_int (pf : PF) (f : Nat) (k : IntKind) (j : GV) (cur : Val) :
    tmplVal pf (f + 1) (.int k) j none cur = (intOf k j).map .int := by
  rfl

theorem tmplVal_f32 (pf : PF) (f : Nat) (j : GV) (cur : Val) :
    tmplVal pf (f + 1) .f32 j none cur = (gvFloat pf 32 j).map .float := by
  cases j <;> rfl

theorem tmplVal_f64 (pf : PF) (f : Nat) (j : GV) (cur : Val) :
    tmplVal pf (f + 1) .f64 j none cur = (gvFloat pf 64 j).map .float := by
  cases j <;> rfl

theorem tmplVal_str (pf : PF) (f : Nat) (j : GV) (cur : Val) :
    tmplVal pf (f + 1) .str j none cur = (gvString j).map .str := by
  cases j <;> rfl

theorem tmplVal_bytes (pf : PF) (f : Nat) (j : GV) (cur : Val) :
    tmplVal pf (f + 1) .bytes j none cur = (gvString j).map .str := by
  cases j <;> rfl

/-- the model's json integer reader is the specification's, for matching (Go type, proto kind) pairs -/
theorem gvInt_eq_intOf (T : ITy) (k : IntKind) (hs : T.signed = k.signed) (hlo : JsonDecInt.lo T = (intRange k).1)
    (hhi : JsonDecInt.hi T = (intRange k).2) (j : GV) : gvInt T j = intOf k j := by
  cases j with
  | num lit d => simp only [gvInt, intOf]; rw [JsonDecInt.unmarshalInt_eq, hs, hlo, hhi]
  | null | bool | str | arr | obj => simp [gvInt, intOf]

theorem gvInt_i32 (j : GV) : gvInt .i32 j = intOf .i32 j := gvInt_eq_intOf _ _ rfl (by decide) (by decide) j
theorem gvInt_i64 (j : GV) : gvInt .i64 j = intOf .i64 j := gvInt_eq_intOf _ _ rfl (by decide) (by decide) j
theorem gvInt_int (j : GV) : gvInt .i64 j = intOf .int j := gvInt_eq_intOf _ _ rfl (by decide) (by decide) j
theorem gvInt_u32 (j : GV) : gvInt .u32 j = intOf .u32 j := gvInt_eq_intOf _ _ rfl (by decide) (by decide) j
theorem gvInt_u64 (j : GV) : gvInt .u64 j = intOf .u64 j := gvInt_eq_intOf _ _ rfl (by decide) (by decide) j
theorem gvInt_uint (j : GV) : gvInt .u64 j = intOf .uint j := gvInt_eq_intOf _ _ rfl (by decide) (by decide) j

/-- relation between the leaf value `x` of the template theorems and the value `y` of the specification: equality, except
(a) `[]byte`: the empty string reads back as `nil`; (b) floats: a `-0` literal is elided and reads back as `+0`. -/
def LeafEq (t : Ty) (x y : Val) : Prop :=
  match t with
  | .bytes => ∃ s, y = .str s ∧ x = (if s.isEmpty then .nil else .str s)
  | .f32 => ∃ b, y = .float b ∧ x = .float (floatRead b 32)
  | .f64 => ∃ b, y = .float b ∧ x = .float (floatRead b 64)
  | _ => x = y

theorem leaf_spec_int (pf : PF) (T : ITy) (k : IntKind) (hb : ∀ j, gvInt T j = intOf k j) (jv : GV) (f : Nat) (cur : Val) :
    match (gvInt T jv).map Val.int with
    | none => tmplVal pf (f + 1) (.int k) jv none cur = none
    | some x => ∃ y, tmplVal pf (f + 1) (.int k) jv none cur = some y ∧ LeafEq (.int k) x y := by
  rw [tmplVal_int, hb]
  cases intOf k jv <;> simp [LeafEq]

/-- **leaf values against the specification** (all 15 kinds). `cur` is arbitrary, so this also covers the elements of a
repeated field (`tmplElems` calls `tmplVal … et j rule .nil`). -/
theorem leaf_spec (pf : PF) (t : Ty) (o : FieldOpt) (kind : PKind) (hk : kindOf t o = some kind) (jv : GV) (f : Nat)
    (cur : Val) :
    match leafVal pf kind jv with
    | none => tmplVal pf (f + 1) t jv none cur = none
    | some x => ∃ y, tmplVal pf (f + 1) t jv none cur = some y ∧ LeafEq t x y := by
  unfold kindOf at hk
  split at hk
  · -- bool
    split at hk <;> cases hk
    simp only [leafVal, tmplVal_bool]
    cases gvBool jv <;> simp [LeafEq]
  · -- i32
    have := leaf_spec_int pf .i32 .i32 gvInt_i32 jv f cur
    (repeat' split at hk) <;> cases hk <;> simpa only [leafVal] using this
  · have := leaf_spec_int pf .i64 .i64 gvInt_i64 jv f cur
    (repeat' split at hk) <;> cases hk <;> simpa only [leafVal] using this
  · have := leaf_spec_int pf .i64 .int gvInt_int jv f cur
    (repeat' split at hk) <;> cases hk <;> simpa only [leafVal] using this
  · have := leaf_spec_int pf .u32 .u32 gvInt_u32 jv f cur
    (repeat' split at hk) <;> cases hk <;> simpa only [leafVal] using this
  · have := leaf_spec_int pf .u64 .u64 gvInt_u64 jv f cur
    (repeat' split at hk) <;> cases hk <;> simpa only [leafVal] using this
  · have := leaf_spec_int pf .u64 .uint gvInt_uint jv f cur
    (repeat' split at hk) <;> cases hk <;> simpa only [leafVal] using this
  · -- f32
    split at hk <;> cases hk
    simp only [leafVal, tmplVal_f32]
    cases gvFloat pf 32 jv <;> simp [LeafEq]
  · split at hk <;> cases hk
    simp only [leafVal, tmplVal_f64]
    cases gvFloat pf 64 jv <;> simp [LeafEq]
  · split at hk <;> cases hk
    simp only [leafVal, tmplVal_str]
    cases gvString jv <;> simp [LeafEq]
  · split at hk <;> cases hk
    simp only [leafVal, tmplVal_bytes]
    cases gvString jv <;> simp [LeafEq]
  · cases hk

example : kindOf (.int .i32) { number := 3, zigzag := true } = some .sint32 := by decide
example : leafVal (fun _ _ => none) .bytes (.str []) = some .nil := rfl
example : tmplVal (fun _ _ => none) 1 .bytes (.str []) none .nil = some (.str []) := rfl

/-! ### comparison forms -/

theorem floatRead_of_nz (b w : Nat) (h : floatIsZero b w = false ∨ b = 0) : floatRead b w = b := by
  unfold floatRead
  rcases h with h | h
  · simp [h]
  · subst h; simp

/-- leaf values related by `LeafEq` have the same comparison form, away from negative zero -/
theorem leafEq_norm (t : Ty) (x y : Val) (ht : scalarTy t = true) (h : LeafEq t x y)
    (hnz : ∀ b, y = .float b →
      (t = .f32 → floatIsZero b 32 = false ∨ b = 0) ∧ (t = .f64 → floatIsZero b 64 = false ∨ b = 0)) :
    norm t x = norm t y := by
  cases t <;> simp only [scalarTy] at ht <;> try (exact absurd ht (by decide))
  · simp only [LeafEq] at h; subst h; rfl
  · simp only [LeafEq] at h; subst h; rfl
  · obtain ⟨b, hy, hx⟩ := h
    subst hy hx
    rw [floatRead_of_nz b 32 ((hnz b rfl).1 rfl)]
  · obtain ⟨b, hy, hx⟩ := h
    subst hy hx
    rw [floatRead_of_nz b 64 ((hnz b rfl).2 rfl)]
  · simp only [LeafEq] at h; subst h; rfl
  · obtain ⟨s, hy, hx⟩ := h
    subst hy hx
    cases s <;> simp [norm, canonical, normPresence, canonTy, canon]

example : LeafEq .bytes .nil (.str []) := ⟨[], rfl, rfl⟩
example : norm .bytes .nil = norm .bytes (.str []) :=
  leafEq_norm .bytes _ _ rfl ⟨[], rfl, rfl⟩ (fun _ h => by cases h)

theorem norm_struct_eq (fs : Fields) (vs : Vals) :
    norm (.struct fs) (.struct vs) = .struct (canonVals (canonTyFields fs (normPresenceVals vs))) := by
  simp [norm, canonical, normPresence, canonTy, canon]

theorem normFields_cons (n tg : String) (e : Bool) (t : Ty) (fr : Fields) (v : Val) (vr : Vals) :
    canonVals (canonTyFields (.cons n tg e t fr) (normPresenceVals (.cons v vr)))
      = .cons (norm t v) (canonVals (canonTyFields fr (normPresenceVals vr))) := by
  simp [norm, canonical, normPresenceVals, canonTyFields, canonVals]

theorem normFields_congr : ∀ (fs : Fields) (vs ws : Vals), vs.length = fs.length → ws.length = fs.length →
    (∀ i tag t, fieldAt fs i = some (tag, t) → norm t (valsGet vs i) = norm t (valsGet ws i)) →
    canonVals (canonTyFields fs (normPresenceVals vs)) = canonVals (canonTyFields fs (normPresenceVals ws))
  | .nil, vs, ws, _, _, _ => by simp [canonTyFields, canonVals]
  | .cons n tg e t fr, .nil, _, hl, _, _ => by simp [Vals.length, Fields.length] at hl
  | .cons n tg e t fr, .cons _ _, .nil, _, hl', _ => by simp [Vals.length, Fields.length] at hl'
  | .cons n tg e t fr, .cons v vr, .cons w wr, hl, hl', h => by
    rw [normFields_cons, normFields_cons]
    have h0 := h 0 tg t rfl
    simp only [valsGet] at h0
    rw [h0, normFields_congr fr vr wr (by simpa [Vals.length, Fields.length] using hl)
      (by simpa [Vals.length, Fields.length] using hl')
      (fun i tag t' hf => by
        have := h (i + 1) tag t' (by simpa only [fieldAt] using hf)
        simpa only [valsGet] using this)]

/-- **messages compare positionwise** -/
theorem norm_struct (fs : Fields) (vs ws : Vals) (hl : vs.length = fs.length) (hl' : ws.length = fs.length)
    (h : ∀ i tag t, fieldAt fs i = some (tag, t) → norm t (valsGet vs i) = norm t (valsGet ws i)) :
    norm (.struct fs) (.struct vs) = norm (.struct fs) (.struct ws) := by
  rw [norm_struct_eq, norm_struct_eq, normFields_congr fs vs ws hl hl' h]

/-! ### repeated fields -/

/-- value of a repeated field with these elements (Go: a nil slice when there is none) -/
def listValS : List Val → Val
  | [] => .nil
  | xs => .list (Vals.ofList xs)

theorem canonTy_named_list (n : String) (t : Ty) (vs : Vals) (h : n ≠ "RawMessage") :
    canonTy (.named n t) (.list vs) = canonTy t (.list vs) := by
  rw [canonTy]
  all_goals (intros; exact absurd (by assumption) h)
theorem canonTy_named_nil (n : String) (t : Ty) (h : n ≠ "RawMessage") : canonTy (.named n t) .nil = canonTy t .nil := by
  rw [canonTy]
  all_goals (intros; exact absurd (by assumption) h)
theorem canonTy_slice_list (et : Ty) (vs : Vals) : canonTy (.slice et) (.list vs) = .list (canonTyList et vs) := by
  simp [canonTy]
theorem canonTy_slice_nil (et : Ty) : canonTy (.slice et) .nil = .nil := by simp [canonTy]

theorem canonTy_repeated : ∀ (t et : Ty), isRepeated t = some et →
    (∀ vs, canonTy t (.list vs) = .list (canonTyList et vs)) ∧ canonTy t .nil = .nil
  | .slice e, et, h => by
    have he : e = et := by
      simp only [isRepeated, unname] at h
      split at h <;> simp_all
    subst he
    exact ⟨fun vs => canonTy_slice_list _ _, canonTy_slice_nil _⟩
  | .named n t', et, h => by
    by_cases hn : n = "RawMessage"
    · subst hn; simp [isRepeated, unname] at h
    · have h' : isRepeated t' = some et := by
        simpa only [isRepeated, unname, hn] using h
      obtain ⟨a, b⟩ := canonTy_repeated t' et h'
      exact ⟨fun vs => by rw [canonTy_named_list _ _ _ hn, a], by rw [canonTy_named_nil _ _ hn, b]⟩
  | .bool, _, h | .int _, _, h | .f32, _, h | .f64, _, h | .str, _, h | .bytes, _, h | .any, _, h
  | .arr _ _, _, h | .ptr _, _, h | .map _ _, _, h | .struct _, _, h => by simp [isRepeated, unname] at h

/-- comparison form of the elements of a list -/
def normList (et : Ty) (vs : Vals) : Vals := canonVals (canonTyList et (normPresenceVals vs))

theorem normList_cons (et : Ty) (v : Val) (r : Vals) : normList et (.cons v r) = .cons (norm et v) (normList et r) := by
  simp [normList, norm, canonical, normPresenceVals, canonTyList, canonVals]

theorem norm_repeated_list (t et : Ty) (hr : isRepeated t = some et) (vs : Vals) :
    norm t (.list vs) = match normList et vs with | .nil => .nil | l => .list l := by
  have e : norm t (.list vs) = canon (canonTy t (.list (normPresenceVals vs))) := by
    simp [norm, canonical, normPresence]
  rw [e]
  rw [(canonTy_repeated t et hr).1]
  simp only [canon, normList]
  generalize canonVals (canonTyList et (normPresenceVals vs)) = l
  cases l <;> rfl

theorem norm_repeated_nil (t et : Ty) (hr : isRepeated t = some et) : norm t .nil = .nil := by
  have e : norm t .nil = canon (canonTy t .nil) := by
    simp [norm, canonical, normPresence]
  rw [e]
  rw [(canonTy_repeated t et hr).2]
  simp [canon]

theorem normList_congr (et : Ty) : ∀ (xs ys : List Val), xs.length = ys.length →
    (∀ i, norm et (xs.getD i .nil) = norm et (ys.getD i .nil)) →
    normList et (Vals.ofList xs) = normList et (Vals.ofList ys)
  | [], [], _, _ => rfl
  | [], _ :: _, hl, _ => by simp at hl
  | _ :: _, [], hl, _ => by simp at hl
  | x :: xs, y :: ys, hl, h => by
    simp only [Vals.ofList, normList_cons]
    have h0 := h 0
    simp only [List.getD_cons_zero] at h0
    rw [h0, normList_congr et xs ys (by simpa using hl) (fun i => by simpa using h (i + 1))]

/-- **repeated fields compare elementwise**; the empty list and nil have the same comparison form -/
theorem norm_list (t et : Ty) (hr : isRepeated t = some et) (xs ys : List Val) (hl : xs.length = ys.length)
    (h : ∀ i, norm et (xs.getD i .nil) = norm et (ys.getD i .nil)) :
    norm t (listValS xs) = norm t (.list (Vals.ofList ys)) := by
  rw [norm_repeated_list t et hr]
  cases xs with
  | nil =>
    cases ys with
    | nil => simp only [listValS]; rw [norm_repeated_nil t et hr]; simp [Vals.ofList, normList, normPresenceVals, canonTyList, canonVals]
    | cons => simp at hl
  | cons x xs =>
    simp only [listValS]
    rw [norm_repeated_list t et hr, normList_congr et (x :: xs) ys hl h]

example : norm (.slice .bytes) (listValS [.nil]) = norm (.slice .bytes) (.list (Vals.ofList [.str []])) :=
  norm_list _ .bytes rfl [.nil] [.str []] rfl (fun i => by
    cases i <;> simp [norm, canonical, normPresence, canonTy, canon])

#print axioms leaf_spec
#print axioms leafEq_norm
#print axioms norm_struct
#print axioms norm_list

end Enc.Lemmas.ProtoTemplate
