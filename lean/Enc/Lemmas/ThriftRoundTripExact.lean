import Enc.Lemmas.ThriftRoundTripMain
/-!
C04: values without nil / empty / zero ambiguity are their own normal form (`norm_exact`).
-/
namespace Enc.Lemmas.ThriftRoundTrip
open Enc Enc.Model.Thrift Enc.Lemmas.ThriftPrim Enc.Lemmas.ThriftSkip

mutual
/-- values that come back EXACTLY: no nil `[]byte` / slice / map / pointer where the encoder writes something (collection
elements, required fields, fields that are not elided), set members hold `struct{}{}`, maps hold whole pairs, and a field
that the struct encoder leaves out (untagged, nil pointer, non-required zero value) holds precisely the zero value of its
type (so: no `-0.0` there, no non-canonical zero struct) -/
def Exact : Ty → Val → Prop
  | .bytes, v => ∃ s, v = .str s
  | .slice t, v =>
    if isU8 t then ∃ s, v = .str s
    else ∃ vs, v = .list vs ∧ ∀ a ∈ vs.toList, Exact t a
  | .map k v, x =>
    ∃ kvs, x = .map kvs ∧ kvs = flat (pairsOf kvs.toList) ∧
      ∀ kv ∈ pairsOf kvs.toList, Exact k kv.1 ∧ (if isEmptyStruct v then kv.2 = .struct .nil else Exact v kv.2)
  | .struct fs, v => ∃ vs, v = .struct vs ∧ ExactFields fs vs
  | .ptr t, v => ∃ x, v = .ptr x ∧ Exact t x
  | .named _ t, v => Exact t v
  | .bool, _ | .int _, _ | .f32, _ | .f64, _ | .str, _ | .any, _ | .arr _ _, _ => True
def ExactFields : Fields → Vals → Prop
  | .nil, .nil => True
  | .cons _ tag _ t rest, .cons x vs =>
    (match emitted tag t x with
     | none => x = zeroOf t
     | some _ => Exact t x) ∧ ExactFields rest vs
  | _, _ => False
end

theorem map_eq_self {α} (f : α → α) : ∀ (l : List α), (∀ a ∈ l, f a = a) → l.map f = l := by
  intro l
  induction l with
  | nil => intro _; rfl
  | cons a l ih =>
    intro h
    rw [List.map_cons, h a (List.mem_cons_self ..), ih (fun b hb => h b (List.mem_cons_of_mem _ hb))]

theorem Exact_slice (t : Ty) (v : Val) : Exact (.slice t) v =
    if isU8 t then ∃ s, v = .str s
    else ∃ vs, v = .list vs ∧ ∀ a ∈ vs.toList, Exact t a := by
  cases t with
  | int k => cases k <;> rfl
  | _ => rfl

mutual
theorem norm_exact : (ty : Ty) → (v : Val) → Exact ty v → norm ty v = v
  | .bool, _, _ | .int _, _, _ | .f32, _, _ | .f64, _, _ | .str, _, _ | .any, _, _ | .arr _ _, _, _ => by
    simp only [norm]
  | .bytes, v, h => by
    simp only [Exact] at h
    obtain ⟨s, rfl⟩ := h
    simp only [norm]
  | .slice t, v, h => by
    rw [Exact_slice] at h
    rw [norm_slice]
    by_cases hu : isU8 t = true
    · simp only [hu, if_true] at h ⊢
      obtain ⟨s, rfl⟩ := h
      rfl
    · simp only [hu, Bool.false_eq_true, if_false] at h ⊢
      obtain ⟨vs, rfl, hall⟩ := h
      simp only
      rw [map_eq_self _ _ (fun a ha => norm_exact t a (hall a ha)), ofList_toList]
  | .map k v, x, h => by
    simp only [Exact] at h
    obtain ⟨kvs, rfl, hflat, hall⟩ := h
    rw [norm_map]
    simp only [pairsOfVal]
    by_cases he : isEmptyStruct v = true
    · simp only [he, if_true] at hall ⊢
      rw [map_eq_self _ _ (fun kv hkv => by
        obtain ⟨h1, h2⟩ := hall kv hkv
        rw [norm_exact k kv.1 h1, ← h2]), ← hflat]
    · simp only [he, Bool.false_eq_true, if_false] at hall ⊢
      rw [map_eq_self _ _ (fun kv hkv => by
        obtain ⟨h1, h2⟩ := hall kv hkv
        rw [norm_exact k kv.1 h1, norm_exact v kv.2 h2]), ← hflat]
  | .struct fs, v, h => by
    simp only [Exact] at h
    obtain ⟨vs, rfl, hf⟩ := h
    simp only [norm, normFields_exact fs vs hf]
  | .ptr t, v, h => by
    simp only [Exact] at h
    obtain ⟨x, rfl, hx⟩ := h
    simp only [norm, norm_exact t x hx]
  | .named _ t, v, h => by
    simp only [Exact] at h
    simp only [norm]
    exact norm_exact t v h
theorem normFields_exact : (fs : Fields) → (vs : Vals) → ExactFields fs vs → normFields fs vs = vs
  | .nil, .nil, _ => rfl
  | .nil, .cons _ _, h => by simp [ExactFields] at h
  | .cons _ _ _ _ _, .nil, h => by simp [ExactFields] at h
  | .cons n tag e t rest, .cons x vs, h => by
    simp only [ExactFields] at h
    obtain ⟨hx, hr⟩ := h
    rw [normFields_cons, normFields_exact rest vs hr]
    cases hem : emitted tag t x with
    | none => rw [hem] at hx; simp only at hx ⊢; rw [← hx]
    | some y => rw [hem] at hx; simp only at hx ⊢; rw [norm_exact t x hx]
end

end Enc.Lemmas.ThriftRoundTrip
