import Enc.Lemmas.ThriftSkip
import Enc.Lemmas.ThriftDecode
/-!
C08, thrift: a value whose wire type does not match the Go type (fix d1e2b54).

Non-strict decoding used to leave the bytes of such a value in the stream (the struct decoder then read the value's
bytes as the next field header); it now skips the value with the generic skipper (`skipField` for a struct field,
`skipValues` for the items of a list / set / map). Strict decoding reports a `TypeMismatch`.

  * `decodeStruct_mismatch`          a DECLARED field that arrives with another wire type, holding a well-formed value of
                                     that wire type (`GoodRec`, the same notion as for undeclared fields): the field values
                                     are unchanged and decoding continues right after the value. The id is recorded as seen
                                     (Go sets the `seen` bit before it compares the types), so for a required field the
                                     wrong-typed occurrence counts as present.
  * `decodeStruct_mismatch_strict`   strict mode: `err "typeMismatch"`
  * `decode_slice_mismatch`          a declared slice that meets a list of another element type: the items are skipped,
                                     the target keeps its current value; strict: `err "typeMismatch"`
  * `decode_set_mismatch`, `decode_map_mismatch`   likewise (the target becomes an empty map: Go allocates it before the test)
-/
namespace Enc.Lemmas.ThriftMismatch
open Enc Enc.Model.Thrift Enc.Lemmas.ThriftPrim Enc.Lemmas.ThriftSkip

/-- the mismatch test of `structDecoder.decode` for the header type that `emitFields` writes -/
theorem mismatch_cond (ht ft : TType) (h1 : ht ≠ ft) (h2 : ft ≠ .bool ∨ ht ≠ .true_) :
    (ht != ft && !(ht == .true_ && ft == .bool)) = true := by
  have e1 : (ht != ft) = true := by simpa using h1
  rcases h2 with h2 | h2
  · have : (ft == TType.bool) = false := by simpa using h2
    simp [e1, this]
  · have : (ht == TType.true_) = false := by simpa using h2
    simp [e1, this]

/-- one step of the struct decoder on a declared field with a mismatching wire type; `strict` left open -/
theorem decodeStruct_mismatch_step (p : Proto) (strict : Bool) (d : Nat) (B : Nat) (f : FieldRec) (r : List FieldRec)
    (hg : GoodRec p d B f) (last : Int) (hl : 0 ≤ last) (hlt : last < f.id)
    (descs : List FieldDesc) (fd : FieldDesc) (hsome : findById descs f.id = some fd) (hmis : f.t ≠ typeOf fd.ty)
    (fuel : Nat) (hf : B ≤ fuel) (vs : Vals) (num : Nat) (seen : List Int) (rest : Bytes) :
    decodeStruct p strict d (fuel + 1) descs (emitFields p (f :: r) last ++ rest) vs last num seen
      = if strict then .err "typeMismatch"
        else decodeStruct p strict d fuel descs (emitFields p r f.id ++ rest) vs f.id (num + 1) (f.id :: seen) := by
  obtain ⟨h1, h2, hr, hnt, hsk⟩ := hg
  have hft : typeOf fd.ty ≠ .true_ := typeOf_ne_true fd.ty
  cases p with
  | binary s =>
    simp only [emitFields, Proto.delta, Proto.coalesce, Bool.false_and, Bool.false_eq_true, if_false,
      List.append_assoc]
    rw [decodeStruct, rField_wField_binary s f.t f.id _ (Or.inl hr) (by omega)]
    have hc := mismatch_cond f.t (typeOf fd.ty) hmis (Or.inr hnt)
    simp only [ne_stop_of_real f.t hr, Bool.false_eq_true, if_false, Proto.coalesce, Bool.and_false,
      wrap16_id f.id ⟨h1, h2⟩, hsome, hc, if_true]
    rw [hsk fuel _ hf]
    simp only [dontExpectEOF_ok, Res.bind]
  | compact =>
    simp only [emitFields, Proto.delta, Proto.coalesce, Bool.true_and, decide_eq_true_eq, List.append_assoc]
    by_cases hb : f.t = .bool
    · simp only [hb, beq_self_eq_true, Bool.true_and, if_true, List.nil_append]
      have hreal : isReal (if f.isTrue = true then TType.true_ else TType.bool) = true := by
        split <;> rfl
      obtain ⟨h, hrd, hty, hid⟩ := rField_compact_emit _ f.id last hreal hl hlt h2
        (emitFields .compact r f.id ++ rest)
      rw [decodeStruct, hrd]
      have hst : (h.t == TType.stop) = false := by rw [hty]; split <;> rfl
      have hco : ((h.t == TType.true_ || h.t == TType.bool) && Proto.coalesce .compact) = true := by
        rw [hty]; split <;> rfl
      have hfb : typeOf fd.ty ≠ .bool := by rw [hb] at hmis; exact fun e => hmis e.symm
      have hc : (h.t != typeOf fd.ty && !(h.t == .true_ && typeOf fd.ty == .bool)) = true := by
        apply mismatch_cond _ _ _ (Or.inl hfb)
        rw [hty]; split
        · exact fun e => hft e.symm
        · exact fun e => hfb e.symm
      simp only [hst, Bool.false_eq_true, if_false, hid, wrap16_id f.id ⟨h1, h2⟩, hsome, hco, if_true, hc,
        dontExpectEOF_ok, Res.bind]
    · have hb' : (f.t == TType.bool) = false := by simpa using hb
      simp only [hb', Bool.false_eq_true, if_false, Bool.false_and]
      obtain ⟨h, hrd, hty, hid⟩ := rField_compact_emit f.t f.id last hr hl hlt h2
        (f.body ++ (emitFields .compact r f.id ++ rest))
      rw [decodeStruct, hrd]
      have hco : ((f.t == TType.true_ || f.t == TType.bool) && Proto.coalesce .compact) = false := by
        have : (f.t == TType.true_) = false := by simpa using hnt
        simp [this, hb']
      have hc := mismatch_cond f.t (typeOf fd.ty) hmis (Or.inr hnt)
      simp only [hty, ne_stop_of_real f.t hr, Bool.false_eq_true, if_false, hid, wrap16_id f.id ⟨h1, h2⟩, hsome, hco,
        hc, if_true]
      rw [hsk fuel _ hf]
      simp only [dontExpectEOF_ok, Res.bind]

/-- **non-strict**: the declared field with the wrong wire type has no effect on the field values; decoding goes on right
after its value, with its id recorded as seen -/
theorem decodeStruct_mismatch (p : Proto) (d : Nat) (B : Nat) (f : FieldRec) (r : List FieldRec)
    (hg : GoodRec p d B f) (last : Int) (hl : 0 ≤ last) (hlt : last < f.id)
    (descs : List FieldDesc) (fd : FieldDesc) (hsome : findById descs f.id = some fd) (hmis : f.t ≠ typeOf fd.ty)
    (fuel : Nat) (hf : B ≤ fuel) (vs : Vals) (num : Nat) (seen : List Int) (rest : Bytes) :
    decodeStruct p false d (fuel + 1) descs (emitFields p (f :: r) last ++ rest) vs last num seen
      = decodeStruct p false d fuel descs (emitFields p r f.id ++ rest) vs f.id (num + 1) (f.id :: seen) := by
  rw [decodeStruct_mismatch_step p false d B f r hg last hl hlt descs fd hsome hmis fuel hf]
  rfl

/-- **strict**: the same input is rejected -/
theorem decodeStruct_mismatch_strict (p : Proto) (d : Nat) (B : Nat) (f : FieldRec) (r : List FieldRec)
    (hg : GoodRec p d B f) (last : Int) (hl : 0 ≤ last) (hlt : last < f.id)
    (descs : List FieldDesc) (fd : FieldDesc) (hsome : findById descs f.id = some fd) (hmis : f.t ≠ typeOf fd.ty)
    (fuel : Nat) (hf : B ≤ fuel) (vs : Vals) (num : Nat) (seen : List Int) (rest : Bytes) :
    decodeStruct p true d (fuel + 1) descs (emitFields p (f :: r) last ++ rest) vs last num seen
      = .err "typeMismatch" := by
  rw [decodeStruct_mismatch_step p true d B f r hg last hl hlt descs fd hsome hmis fuel hf]
  rfl

/-! ## lists: a declared slice meets the encoding of a list with another element type -/

/-- the encoding of a well-formed list value `vs` of element type `wt` (wire side) decoded into a Go slice of element type
`et` with `typeOf et ≠ typeOf wt`: non-strict mode consumes exactly the list and leaves the target as it is; strict mode
fails. The elements are skipped at depth `d + 1` (`skipValues(r, l.Size, flags.depth(), l.Type)`), so a list of
containers needs room for them: `d + 1 + nest wt ≤ maxDepth`. -/
theorem decode_slice_mismatch (p : Proto) (strict : Bool) (d : Nat) (et wt : Ty) (vs : Vals)
    (hu : isU8 et = false) (hwu : isU8 wt = false) (hwf : WF (.slice wt) (.list vs) = true)
    (hmis : typeOf et ≠ typeOf wt) (hd : d + 1 + nest wt ≤ Gen.c_thrift_maxDepth)
    (fuel : Nat) (hf : fuelOf (.slice wt) (.list vs) ≤ fuel) (rest : Bytes) (cur : Val) :
    decode p strict d fuel (.slice et) (encode p (.slice wt) (.list vs) ++ rest) cur
      = if strict then .err "typeMismatch" else .ok (cur, rest) := by
  rw [WF_slice, hwu] at hwf
  rw [fuelOf_slice, hwu] at hf
  simp only [Bool.false_eq_true, if_false, Bool.and_eq_true, decide_eq_true_eq] at hwf hf
  obtain ⟨hreal, hlen, hall⟩ := hwf
  obtain ⟨f, rfl⟩ : ∃ f, fuel = f + 1 := ⟨fuel - 1, by omega⟩
  rw [decode_slice, hu, encode_slice, hwu]
  simp only [Bool.false_eq_true, if_false, List.append_assoc]
  rw [rList_wList p _ _ hreal hlen]
  have hnt : (typeOf wt == TType.true_) = false := by simpa using typeOf_ne_true wt
  have hne : (typeOf et != typeOf wt) = true := by simpa using hmis
  simp only [Res.bind, hnt, Bool.false_eq_true, if_false, hne, if_true]
  cases strict with
  | true => rfl
  | false =>
    simp only [Bool.false_eq_true, if_false]
    rw [length_toList vs,
      skipN_elems p (d + 1) (typeOf wt) (encode p wt) (fuelOf wt) vs.toList
        (fun a ha fuel rest hfa => skip_encode p wt a (all_toList _ _ hall a ha) (d + 1) fuel rest (by omega) hfa)
        f rest (by omega)]

/-! ## sets and maps -/

/-- a declared map (not a set) that meets the encoding of a non-empty map with another key or value type: the entries are
skipped (`skipValues(r, m.Size, flags.depth(), m.Key, m.Value)`) and the target is the empty map that Go allocated
before the test; strict mode rejects -/
theorem decode_map_mismatch (p : Proto) (strict : Bool) (d : Nat) (kt vt wk wv : Ty) (x : Val)
    (hvt : isEmptyStruct vt = false) (hwv : isEmptyStruct wv = false)
    (hwf : WF (.map wk wv) x = true) (hne : pairsOfVal x ≠ [])
    (hmis : typeOf kt ≠ typeOf wk ∨ typeOf vt ≠ typeOf wv)
    (hd : d + 1 + max (nest wk) (nest wv) ≤ Gen.c_thrift_maxDepth)
    (fuel : Nat) (hf : fuelOf (.map wk wv) x ≤ fuel) (rest : Bytes) (cur : Val) :
    decode p strict d fuel (.map kt vt) (encode p (.map wk wv) x ++ rest) cur
      = if strict then .err "typeMismatch" else .ok (.map .nil, rest) := by
  rw [WF_map] at hwf
  rw [fuelOf_map] at hf
  rw [encode_map]
  simp only [Bool.and_eq_true, decide_eq_true_eq] at hwf
  obtain ⟨⟨⟨hk, hv⟩, hlen⟩, hall⟩ := hwf
  have hall' := all_toList _ _ hall
  generalize pairsOfVal x = ps at *
  obtain ⟨f, rfl⟩ : ∃ f, fuel = f + 1 := ⟨fuel - 1, by omega⟩
  simp only [decode, hvt, hwv, Bool.false_eq_true, if_false, List.append_assoc]
  rw [rMap_wMap p _ _ _ hk hv hlen]
  have hn0 : ps.length ≠ 0 := by
    intro h0; exact hne (List.eq_nil_of_length_eq_zero h0)
  have hcn : ¬ (p = .compact ∧ ps.length = 0) := fun h => hn0 h.2
  have hnk : (typeOf wk == TType.true_) = false := by simpa using typeOf_ne_true wk
  have hnv : (typeOf wv == TType.true_) = false := by simpa using typeOf_ne_true wv
  have hz : (ps.length == 0) = false := by simpa using hn0
  simp only [hcn, if_false, Res.bind, hnk, hnv, Bool.false_eq_true, hz]
  have hskip : skipPairs p (d + 1) f (typeOf wk) (typeOf wv) ps.length
      ((ps.map fun kv => encode p wk kv.1 ++ encode p wv kv.2).flatten ++ rest) = .ok ((), rest) := by
    apply skipPairs_elems p (d + 1) (typeOf wk) (typeOf wv) (fun kv : Val × Val => encode p wk kv.1)
      (fun kv => encode p wv kv.2) (fun kv => fuelOf wk kv.1) (fun kv => fuelOf wv kv.2) ps
    · intro b hb
      have := hall' b hb
      simp only [Bool.and_eq_true, hwv, Bool.false_or] at this
      exact ⟨fun fuel rest hfa => skip_encode p wk b.1 this.1 (d + 1) fuel rest (by omega) hfa,
             fun fuel rest hfa => skip_encode p wv b.2 this.2 (d + 1) fuel rest (by omega) hfa⟩
    · omega
  by_cases hkm : typeOf kt = typeOf wk
  · have hvm : typeOf vt ≠ typeOf wv := by
      rcases hmis with h | h
      · exact absurd hkm h
      · exact h
    have e1 : (typeOf kt != typeOf wk) = false := by simpa using hkm
    have e2 : (typeOf vt != typeOf wv) = true := by simpa using hvm
    simp only [e1, e2, Bool.false_eq_true, if_false, if_true, hskip]
  · have e1 : (typeOf kt != typeOf wk) = true := by simpa using hkm
    simp only [e1, if_true, hskip]

/-- a declared set (`map[K]struct{}`) that meets a non-empty set of another element type -/
theorem decode_set_mismatch (p : Proto) (strict : Bool) (d : Nat) (kt wk : Ty) (x : Val)
    (hwf : WF (.map wk (.struct .nil)) x = true) (hne : pairsOfVal x ≠ [])
    (hmis : typeOf kt ≠ typeOf wk) (hd : d + 1 + nest wk ≤ Gen.c_thrift_maxDepth)
    (fuel : Nat) (hf : fuelOf (.map wk (.struct .nil)) x ≤ fuel) (rest : Bytes) (cur : Val) :
    decode p strict d fuel (.map kt (.struct .nil)) (encode p (.map wk (.struct .nil)) x ++ rest) cur
      = if strict then .err "typeMismatch" else .ok (.map .nil, rest) := by
  rw [WF_map] at hwf
  rw [fuelOf_map] at hf
  rw [encode_map]
  simp only [Bool.and_eq_true, decide_eq_true_eq] at hwf
  obtain ⟨⟨⟨hk, hv⟩, hlen⟩, hall⟩ := hwf
  have hall' := all_toList _ _ hall
  generalize pairsOfVal x = ps at *
  obtain ⟨f, rfl⟩ : ∃ f, fuel = f + 1 := ⟨fuel - 1, by omega⟩
  have hes : isEmptyStruct (.struct .nil) = true := rfl
  simp only [decode, hes, if_true, List.append_assoc]
  rw [rList_wList p _ _ hk hlen]
  have hn0 : ps.length ≠ 0 := by
    intro h0; exact hne (List.eq_nil_of_length_eq_zero h0)
  have hnk : (typeOf wk == TType.true_) = false := by simpa using typeOf_ne_true wk
  have hz : (ps.length == 0) = false := by simpa using hn0
  have e1 : (typeOf kt != typeOf wk) = true := by simpa using hmis
  simp only [Res.bind, hnk, Bool.false_eq_true, if_false, hz, e1, if_true]
  have hskip : skipN p (d + 1) f (typeOf wk) ps.length
      ((ps.map fun kv => encode p wk kv.1).flatten ++ rest) = .ok ((), rest) := by
    apply skipN_elems p (d + 1) (typeOf wk) (fun kv : Val × Val => encode p wk kv.1) (fun kv => fuelOf wk kv.1) ps
    · intro a ha fuel rest hfa
      have := hall' a ha
      simp only [Bool.and_eq_true] at this
      exact skip_encode p wk a.1 this.1 (d + 1) fuel rest (by omega) hfa
    · have := sum_le_sum (fun kv : Val × Val => 1 + fuelOf wk kv.1)
        (fun kv => 1 + fuelOf wk kv.1 + fuelOf (.struct .nil) kv.2) (fun a => by omega) ps
      omega
  rw [hskip]

/-- non-vacuity: a list of two i64 values offered to a `[]int32` -/
example : WF (.slice (.int .i64)) (.list (.cons (.int 5) (.cons (.int (-7)) .nil))) = true ∧
    typeOf (.int .i32) ≠ typeOf (.int .i64) ∧ 0 + 1 + nest (.int .i64) ≤ Gen.c_thrift_maxDepth := by
  decide +kernel

#print axioms decodeStruct_mismatch
#print axioms decodeStruct_mismatch_strict
#print axioms decode_slice_mismatch
#print axioms decode_map_mismatch
#print axioms decode_set_mismatch

end Enc.Lemmas.ThriftMismatch
