import Enc.Lemmas.JsonRtTypedInd
import Enc.Lemmas.JsonRtTypedGenInd
import Enc.Lemmas.JsonRtTypedB64
import Enc.Lemmas.JsonDecTypedAll
import Enc.Lemmas.JsonRTValue
/-!
# Typed round trip: whole documents, and the composition with `decodeTyped_eq_spec` / `encodeTyped_eq_spec`
-/
set_option linter.unusedSectionVars false
namespace Enc.Lemmas.JsonRtTyped
open Enc Enc.Model.Json Enc.Model.Json.Typed
open Enc.Spec.Json (valueS ws isWs number unquoteLit appendString encSpec genericText canon canonG norm normG wfT depthV
  depthG valueV b64DecodeStd)
open Enc.Lemmas.JsonDecAnyRtInt (noNumCont)
open Enc.Lemmas.JsonEncTyped (okE ScShape OrdPerm)
open Enc.Lemmas.JsonDecTyped (okU)
open Enc.Lemmas.JsonDecTypedPlain (noPP plain_zero)

/-- the base64 text in quotes is one string literal of the grammar -/
theorem quoted_b64_string (bs rest : Bytes) : Spec.Json.string (([0x22] ++ Buf.b64 bs ++ [0x22]) ++ rest) = some rest := by
  show Spec.Json.string (0x22 :: ((Buf.b64 bs ++ [0x22]) ++ rest)) = some rest
  rw [Enc.Lemmas.JsonString.string_cons]
  simp only [beq_self_eq_true, if_true, List.append_assoc]
  rw [Enc.Lemmas.JsonRTString.chars_plains (Buf.b64 bs) _ (Lemmas.JsonRTValue.b64_plain bs)]
  simp only [List.cons_append, List.nil_append]
  rw [Enc.Lemmas.JsonString.chars_cons]; rfl

/-- **specification level**: the specification of the decoder reads `norm v` from what the specification of the encoder
writes -/
theorem spec_round_trip (sc : Strconv) (c : TFlags) (html : Bool) (t : JT) (v : JV) (x : Bytes)
    (hc : canon sc c t v = true) (hwf : wfT t = true) (hd : depthV v ≤ 10000) (hx : encSpec sc html t v = some x) :
    Spec.Json.unmarshalTyped c t (zeroOf t) x = some (norm v) := by
  have hh := hd_spec sc c html v t x hc hx
  have hw : ws x = x := by have := hh.ws []; simpa using this
  have := rtv sc c html (rtg sc c html) quoted_b64_string b64_roundtrip v t x [] (Spec.Json.specFuel t (zeroOf t) x) 10000 hc hwf hx hd
    trivial (by simp only [Spec.Json.specFuel, List.length_nil]; omega)
  rw [List.append_nil] at this
  unfold Spec.Json.unmarshalTyped
  rw [hw, this]
  rfl

/-- **model level** (sorted keys): what the decoder model stores into a fresh zero target from the encoder model's output -/
theorem model_round_trip (sc : Strconv) (hsc : ScShape sc) (c : TFlags) (html : Bool)
    (ord : MapOrd) (hord : OrdPerm ord) (t : JT) (v : JV) (x : Bytes) (hpp : noPP t = true) (hwf : wfT t = true)
    (hc : canon sc c t v = true) (hd : depthV v ≤ 10000) (hx : encodeTyped sc html true ord t v = .ok x) :
    unmarshalTyped c t (zeroOf t) x = .ok (norm v) := by
  have he := Lemmas.JsonEncTyped.encodeTyped_eq_spec sc hsc html ord hord t v (canon_wt sc c v t hc)
  rw [hx] at he
  have hs := spec_round_trip sc c html t v x hc hwf hd he.symm
  have hm := Lemmas.JsonDecTypedAll.unmarshal_eq c t hpp (zeroOf t) (plain_zero t) x
  rw [hs] at hm
  cases hu : unmarshalTyped c t (zeroOf t) x with
  | ok w => rw [hu] at hm; simp only [okU, Option.some.injEq] at hm; rw [hm]
  | syn => rw [hu] at hm; simp [okU] at hm
  | ty => rw [hu] at hm; simp [okU] at hm
  | oth => rw [hu] at hm; simp [okU] at hm

/-! ### canonical values are encoded without error -/

theorem consOpt_ok {α : Type} {o1 : Option α} {o2 : Option (List α)} (h1 : ∃ a, o1 = some a) (h2 : ∃ l, o2 = some l) :
    ∃ l, Spec.Json.consOpt o1 o2 = some l := by
  obtain ⟨a, rfl⟩ := h1; obtain ⟨l, rfl⟩ := h2; exact ⟨a :: l, rfl⟩

theorem map_ok {α β : Type} {o : Option α} (f : α → β) (h : ∃ a, o = some a) : ∃ b, o.map f = some b := by
  obtain ⟨a, rfl⟩ := h; exact ⟨f a, rfl⟩

mutual
theorem specG_ok (sc : Strconv) (c : TFlags) (html : Bool) : (g : GV) → canonG sc c g = true →
    ∃ x, genericText sc html g = some x
  | .null, _ => ⟨_, rfl⟩
  | .bool _, _ => ⟨_, rfl⟩
  | .num l k, h => by
    cases k with
    | f64 =>
      simp only [canonG, Bool.and_eq_true] at h
      exact ⟨l, by simp only [genericText, (canonFloat_facts h.2).1]⟩
    | num =>
      simp only [canonG, Bool.and_eq_true, beq_iff_eq] at h
      have hne : l.isEmpty = false := by
        cases l with
        | nil => simp [Lemmas.JsonNumber.number_nil] at h
        | cons _ _ => rfl
      exact ⟨l, by simp only [genericText, Spec.Json.numberText, hne, Bool.false_eq_true, if_false, h.2, beq_self_eq_true,
        if_true]⟩
    | big => simp [canonG] at h
    | i64 => simp [canonG] at h
    | u64 => simp [canonG] at h
  | .str _, _ => ⟨_, rfl⟩
  | .arr vs, h => by
    simp only [canonG] at h; simp only [genericText]; exact map_ok _ (specGs_ok sc c html vs h)
  | .obj ms, h => by
    simp only [canonG] at h; simp only [genericText]; exact map_ok _ (specGm_ok sc c html ms h)
theorem specGs_ok (sc : Strconv) (c : TFlags) (html : Bool) : (vs : GVs) → Spec.Json.canonGs sc c vs = true →
    ∃ xs, Spec.Json.genericTexts sc html vs = some xs
  | .nil, _ => ⟨_, rfl⟩
  | .cons v r, h => by
    simp only [Spec.Json.canonGs, Bool.and_eq_true] at h
    simp only [Spec.Json.genericTexts]
    exact consOpt_ok (specG_ok sc c html v h.1) (specGs_ok sc c html r h.2)
theorem specGm_ok (sc : Strconv) (c : TFlags) (html : Bool) : (ms : GMs) → Spec.Json.canonGm sc c ms = true →
    ∃ l, Spec.Json.genericMembers sc html ms = some l
  | .nil, _ => ⟨_, rfl⟩
  | .cons k v r, h => by
    simp only [Spec.Json.canonGm, Bool.and_eq_true] at h
    simp only [Spec.Json.genericMembers]
    exact consOpt_ok (map_ok _ (specG_ok sc c html v h.1.2)) (specGm_ok sc c html r h.2)
end

mutual
theorem spec_ok (sc : Strconv) (c : TFlags) (html : Bool) : (v : JV) → (t : JT) → canon sc c t v = true →
    ∃ x, encSpec sc html t v = some x
  | .bool _, t, h => by cases t <;> simp only [canon, Bool.false_eq_true] at h; exact ⟨_, rfl⟩
  | .int _, t, h => by cases t <;> simp only [canon, Bool.false_eq_true] at h; exact ⟨_, rfl⟩
  | .float l, t, h => by
    cases t <;> simp only [canon, Bool.false_eq_true] at h
    exact ⟨l, by simp only [encSpec, (canonFloat_facts h).1]⟩
  | .str _, t, h => by cases t <;> simp only [canon, Bool.false_eq_true] at h; exact ⟨_, rfl⟩
  | .slice n vs st, t, h => by
    cases t <;> simp only [canon, Bool.false_eq_true, Bool.and_eq_true] at h
    simp only [encSpec]
    cases n with
    | true => exact ⟨_, rfl⟩
    | false =>
      simp only [Bool.false_eq_true, if_false]
      split
      · exact ⟨_, rfl⟩
      · exact map_ok _ (specs_ok sc c html vs _ h.2)
  | .array vs, t, h => by
    cases t <;> simp only [canon, Bool.false_eq_true, Bool.and_eq_true] at h
    simp only [encSpec]; exact map_ok _ (specs_ok sc c html vs _ h.2)
  | .map n ms, t, h => by
    cases t <;> simp only [canon, Bool.false_eq_true, Bool.and_eq_true] at h
    simp only [encSpec]
    cases n with
    | true => exact ⟨_, rfl⟩
    | false => simp only [Bool.false_eq_true, if_false]; exact map_ok _ (specMs_ok sc c html ms _ h.2)
  | .nilptr, t, h => by cases t <;> simp only [canon, Bool.false_eq_true] at h; exact ⟨_, rfl⟩
  | .ptr _ v, t, h => by
    cases t <;> simp only [canon, Bool.false_eq_true] at h
    simp only [encSpec]; exact spec_ok sc c html v _ h
  | .strct vs, t, h => by
    cases t <;> simp only [canon, Bool.false_eq_true] at h
    simp only [encSpec]; exact map_ok _ (specFs_ok sc c html vs _ h)
  | .anyv g, t, h => by
    cases t <;> simp only [canon, Bool.false_eq_true] at h
    simp only [encSpec]; exact specG_ok sc c html g h
  | .anyp _ _ _, t, h => by cases t <;> simp only [canon, Bool.false_eq_true] at h
theorem specs_ok (sc : Strconv) (c : TFlags) (html : Bool) : (vs : JVs) → (e : JT) → Spec.Json.canons sc c e vs = true →
    ∃ xs, Spec.Json.encSpecs sc html e vs = some xs
  | .nil, _, _ => ⟨_, rfl⟩
  | .cons v r, e, h => by
    simp only [Spec.Json.canons, Bool.and_eq_true] at h
    simp only [Spec.Json.encSpecs]
    exact consOpt_ok (spec_ok sc c html v e h.1) (specs_ok sc c html r e h.2)
theorem specMs_ok (sc : Strconv) (c : TFlags) (html : Bool) : (ms : JMs) → (e : JT) → Spec.Json.canonMs sc c e ms = true →
    ∃ l, Spec.Json.encSpecMs sc html e ms = some l
  | .nil, _, _ => ⟨_, rfl⟩
  | .cons k v r, e, h => by
    simp only [Spec.Json.canonMs, Bool.and_eq_true] at h
    simp only [Spec.Json.encSpecMs]
    exact consOpt_ok (map_ok _ (spec_ok sc c html v e h.1.2)) (specMs_ok sc c html r e h.2)
theorem specFs_ok (sc : Strconv) (c : TFlags) (html : Bool) : (vs : JVs) → (fs : JFs) → Spec.Json.canonFs sc c fs vs = true →
    ∃ l, Spec.Json.encSpecFs sc html fs vs = some l
  | .nil, fs, h => by cases fs <;> simp only [Spec.Json.canonFs, Bool.false_eq_true] at h; exact ⟨_, rfl⟩
  | .cons v r, fs, h => by
    cases fs <;> simp only [Spec.Json.canonFs, Bool.false_eq_true, Bool.and_eq_true] at h
    simp only [Spec.Json.encSpecFs]
    exact consOpt_ok (map_ok _ (spec_ok sc c html v _ h.1)) (specFs_ok sc c html r _ h.2)
end

/-- the encoder model succeeds on canonical values -/
theorem model_ok (sc : Strconv) (hsc : ScShape sc) (c : TFlags) (html : Bool) (ord : MapOrd) (hord : OrdPerm ord) (t : JT)
    (v : JV) (hc : canon sc c t v = true) : ∃ x, encodeTyped sc html true ord t v = .ok x := by
  have he := Lemmas.JsonEncTyped.encodeTyped_eq_spec sc hsc html ord hord t v (canon_wt sc c v t hc)
  obtain ⟨x, hx⟩ := spec_ok sc c html v t hc
  rw [hx] at he
  cases hr : encodeTyped sc html true ord t v with
  | ok y => exact ⟨y, rfl⟩
  | err e => rw [hr] at he; simp [okE] at he
  | panic e => rw [hr] at he; simp [okE] at he

#print axioms model_round_trip
#print axioms spec_round_trip

end Enc.Lemmas.JsonRtTyped
