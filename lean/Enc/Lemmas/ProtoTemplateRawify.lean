import Enc.Lemmas.ProtoTemplateSim
import Enc.Lemmas.ProtoRewriteSpec
/-!
# "rawify": on a fixed valid input, the entries of a message rewriter can be replaced by constant rewriters

For a FIXED valid input `b`, every table entry `(n, r)` of a `.message len ents` rewriter can be replaced by the constant
rewriter `.raw (A n)` that returns what `r` returns on the payload the loop hands it (`payloadOf`): the merged payload
of the first occurrence of field `n`, or `[]` when the field never occurs (`rewriteAbsentT`).
-/
namespace Enc.Lemmas.ProtoTemplate
open Enc Enc.Model.Proto Enc.Spec.Protobuf Enc.Lemmas.ProtoRewriteSpec

/-- the input the loop hands to the entry `r` of field `n` on the input `inp`: merged payload of the first occurrence,
`[]` if the field does not occur -/
def payloadOf : Nat → RwT → Nat → Bytes → Bytes
  | 0, _, _, _ => []
  | fuel + 1, r, n, inp =>
    if inp.isEmpty then [] else
    match parseField inp with
    | .ok (f, t, v, m) => if f == n then mergeInputT r f t v m else payloadOf fuel r n m
    | _ => []

def rawOf (A : Nat → Bytes) : List (Nat × RwT) → List (Nat × RwT)
  | [] => []
  | (n, _) :: rest => (n, .raw (A n)) :: rawOf A rest

/-! ## small facts -/

theorem isEmpty_false_of_ne {inp : Bytes} (hne : inp ≠ []) : inp.isEmpty = false := by
  cases inp with
  | nil => exact absurd rfl hne
  | cons => rfl

theorem payloadOf_nil (k : Nat) (r : RwT) (n : Nat) : payloadOf k r n [] = [] := by
  cases k <;> simp [payloadOf]

theorem payloadOf_step (k : Nat) (r : RwT) (n : Nat) (inp : Bytes) (f t : Nat) (v m : Bytes) (hne : inp ≠ [])
    (hp : parseField inp = .ok (f, t, v, m)) :
    payloadOf (k + 1) r n inp = if f == n then mergeInputT r f t v m else payloadOf k r n m := by
  simp only [payloadOf, isEmpty_false_of_ne hne, hp]
  rfl

/-- `payloadOf` does not depend on the fuel once it covers the input -/
theorem payloadOf_fuel (r : RwT) (n : Nat) : ∀ (k1 k2 : Nat) (inp : Bytes) (recs : List (Nat × WireVal)),
    Valid inp recs → inp.length ≤ k1 → inp.length ≤ k2 → payloadOf k1 r n inp = payloadOf k2 r n inp := by
  intro k1
  induction k1 with
  | zero =>
    intro k2 inp recs _ h1 _
    have : inp = [] := by
      cases inp with
      | nil => rfl
      | cons => simp at h1
    subst this
    rw [payloadOf_nil, payloadOf_nil]
  | succ k1 ih =>
    intro k2 inp recs hv h1 h2
    by_cases hne : inp = []
    · subst hne; rw [payloadOf_nil, payloadOf_nil]
    · obtain ⟨f, w, tl, t, v, m, pre, _, _, hp, _, _, hm, hlen, _⟩ := parseField_spec hv hne
      cases k2 with
      | zero => omega
      | succ k2 =>
        rw [payloadOf_step k1 r n inp f t v m hne hp, payloadOf_step k2 r n inp f t v m hne hp]
        rw [ih k2 m tl hm (by omega) (by omega)]

theorem getRwT_cons (p : Nat × RwT) (rs : List (Nat × RwT)) (f : Nat) :
    getRwT (p :: rs) f = if p.1 == f then some p.2 else getRwT rs f := by
  by_cases h : (p.1 == f) = true
  · simp [getRwT, List.find?, h]
  · have h' : (p.1 == f) = false := by simpa using h
    simp [getRwT, List.find?, h']

theorem getRwT_rawOf (A : Nat → Bytes) : ∀ (ents : List (Nat × RwT)) (f : Nat),
    getRwT (rawOf A ents) f = (getRwT ents f).map fun _ => .raw (A f)
  | [], f => by simp [rawOf, getRwT]
  | (n, r) :: rest, f => by
    rw [rawOf, getRwT_cons, getRwT_cons, getRwT_rawOf A rest f]
    by_cases h : (n == f) = true
    · have : n = f := by simpa using h
      subst this; simp
    · have h' : (n == f) = false := by simpa using h
      simp [h']

theorem getRwT_mem : ∀ (ents : List (Nat × RwT)) (f : Nat) (r : RwT), getRwT ents f = some r → (f, r) ∈ ents
  | [], f, r, h => by simp [getRwT] at h
  | (n, r0) :: rest, f, r, h => by
    rw [getRwT_cons] at h
    by_cases hh : (n == f) = true
    · have : n = f := by simpa using hh
      subst this
      simp only [beq_self_eq_true, if_true, Option.some.injEq] at h
      subst h; exact List.mem_cons_self
    · have h' : (n == f) = false := by simpa using hh
      simp only [h'] at h
      exact List.mem_cons_of_mem _ (getRwT_mem rest f r (by simpa using h))

theorem getRwT_ne_none : ∀ (ents : List (Nat × RwT)) (f : Nat) (r : RwT), (f, r) ∈ ents → getRwT ents f ≠ none
  | [], f, r, h => by simp at h
  | (n, r0) :: rest, f, r, h => by
    rw [getRwT_cons]
    by_cases hh : (n == f) = true
    · simp [hh]
    · have h' : (n == f) = false := by simpa using hh
      simp only [h']
      rcases List.mem_cons.1 h with h1 | h1
      · have : n = f := by injection h1 with a _; exact a.symm
        subst this; simp at hh
      · simpa using getRwT_ne_none rest f r h1

theorem loopT_step (fuel len : Nat) (rs : List (Nat × RwT)) (inp : Bytes) (seen : List Nat) (f t : Nat) (v m : Bytes)
    (hne : inp ≠ []) (hp : parseField inp = .ok (f, t, v, m)) :
    rewriteLoopT (fuel + 1) len rs inp seen =
      match (if f < len then getRwT rs f else none) with
      | some r =>
        if seen.contains f then rewriteLoopT fuel len rs m seen
        else (rewriteT fuel r (mergeInputT r f t v m)).bind fun a =>
          (rewriteLoopT fuel len rs m (f :: seen)).bind fun (b, s) => .ok (a ++ b, s)
      | none => (rewriteLoopT fuel len rs m seen).bind fun (b, s) => .ok (appendField f t v ++ b, s) := by
  simp only [rewriteLoopT, isEmpty_false_of_ne hne, hp, Res.bind]
  rfl

/-! ## the loop -/

theorem loop_rawify (len : Nat) (ents : List (Nat × RwT)) (b : Bytes) (A : Nat → Bytes) (G0 : Nat)
    (hlt : ∀ p, p ∈ ents → p.1 < len)
    (hA : ∀ n r, (n, r) ∈ ents → ∀ G, G0 ≤ G → rewriteT G r (payloadOf b.length r n b) = .ok (A n)) :
    ∀ (fuel : Nat) (inp : Bytes) (recs : List (Nat × WireVal)) (seen : List Nat), Valid inp recs →
      inp.length + G0 + 1 ≤ fuel →
      (∀ n r, (n, r) ∈ ents → n ∉ seen → payloadOf inp.length r n inp = payloadOf b.length r n b) →
      rewriteLoopT fuel len ents inp seen = rewriteLoopT fuel len (rawOf A ents) inp seen ∧
      ∀ out s, rewriteLoopT fuel len ents inp seen = .ok (out, s) →
        ∀ n r, (n, r) ∈ ents → n ∉ s → payloadOf b.length r n b = [] := by
  intro fuel
  induction fuel with
  | zero => intro inp recs seen _ h; omega
  | succ fuel ih =>
    intro inp recs seen hv hfuel hinv
    by_cases hne : inp = []
    · subst hne
      simp only [rewriteLoopT, List.isEmpty_nil, if_true, true_and]
      intro out s h n r hm hs
      injection h with h
      injection h with _ h2
      subst h2
      rw [← hinv n r hm hs, payloadOf_nil]
    · obtain ⟨f, w, tl, t, v, m, pre, _, _, hp, _, _, hm, hlen, _⟩ := parseField_spec hv hne
      obtain ⟨k, hk⟩ : ∃ k, inp.length = k + 1 := ⟨inp.length - 1, by omega⟩
      have hstep : ∀ n r, payloadOf inp.length r n inp =
          if f == n then mergeInputT r f t v m else payloadOf m.length r n m := by
        intro n r
        rw [hk, payloadOf_step k r n inp f t v m hne hp, payloadOf_fuel r n k m.length m tl hm (by omega) (Nat.le_refl _)]
      have hinv' : ∀ n r, (n, r) ∈ ents → n ∉ seen → f ≠ n →
          payloadOf m.length r n m = payloadOf b.length r n b := by
        intro n r hmem hs hfn
        rw [← hinv n r hmem hs, hstep n r]
        have : (f == n) = false := by simpa using hfn
        simp [this]
      rw [loopT_step fuel len ents inp seen f t v m hne hp, loopT_step fuel len (rawOf A ents) inp seen f t v m hne hp,
        getRwT_rawOf]
      by_cases hf : f < len
      · simp only [hf, if_true]
        cases hg : getRwT ents f with
        | some r =>
          have hmem := getRwT_mem ents f r hg
          simp only [Option.map_some]
          by_cases hs : seen.contains f = true
          · simp only [hs, if_true]
            have hs' : f ∈ seen := by simpa using hs
            exact ih m tl seen hm (by omega) (fun n r hmem hns => hinv' n r hmem hns (by
              intro e; subst e; exact hns hs'))
          · have hs' : f ∉ seen := by simpa using hs
            have hs'' : seen.contains f = false := by simpa using hs
            simp only [hs'']
            have hpay : mergeInputT r f t v m = payloadOf b.length r f b := by
              rw [← hinv f r hmem hs', hstep f r]; simp
            have hraw : rewriteT fuel (.raw (A f)) (mergeInputT (.raw (A f)) f t v m) = .ok (A f) := by
              obtain ⟨j, hj⟩ : ∃ j, fuel = j + 1 := ⟨fuel - 1, by omega⟩
              rw [hj]; simp [rewriteT]
            rw [hpay, hA f r hmem fuel (by omega)]
            simp only [Bool.false_eq_true, if_false, hraw]
            obtain ⟨ih1, ih2⟩ := ih m tl (f :: seen) hm (by omega) (fun n r hmem hns => by
              have h1 : n ≠ f := fun e => hns (by rw [e]; exact List.mem_cons_self)
              have h2 : n ∉ seen := fun e => hns (List.mem_cons_of_mem _ e)
              exact hinv' n r hmem h2 (fun e => h1 e.symm))
            rw [← ih1]
            refine ⟨rfl, ?_⟩
            intro out s h
            cases hl : rewriteLoopT fuel len ents m (f :: seen) with
            | ok q =>
              obtain ⟨o2, s2⟩ := q
              rw [hl] at h
              simp only [Res.bind] at h
              injection h with h
              injection h with _ h2
              subst h2
              exact ih2 o2 s2 hl
            | err e => rw [hl] at h; simp [Res.bind] at h
            | panic e => rw [hl] at h; simp [Res.bind] at h
        | none =>
          simp only [Option.map_none]
          obtain ⟨ih1, ih2⟩ := ih m tl seen hm (by omega) (fun n r hmem hns => hinv' n r hmem hns (by
            intro e; subst e; exact getRwT_ne_none ents f r hmem hg))
          rw [← ih1]
          refine ⟨rfl, ?_⟩
          intro out s h
          cases hl : rewriteLoopT fuel len ents m seen with
          | ok q =>
            obtain ⟨o2, s2⟩ := q
            rw [hl] at h
            simp only [Res.bind] at h
            injection h with h
            injection h with _ h2
            subst h2
            exact ih2 o2 s2 hl
          | err e => rw [hl] at h; simp [Res.bind] at h
          | panic e => rw [hl] at h; simp [Res.bind] at h
      · simp only [hf, if_false]
        obtain ⟨ih1, ih2⟩ := ih m tl seen hm (by omega) (fun n r hmem hns => hinv' n r hmem hns (by
          intro e; subst e; exact hf (hlt _ hmem)))
        rw [← ih1]
        refine ⟨rfl, ?_⟩
        intro out s h
        cases hl : rewriteLoopT fuel len ents m seen with
        | ok q =>
          obtain ⟨o2, s2⟩ := q
          rw [hl] at h
          simp only [Res.bind] at h
          injection h with h
          injection h with _ h2
          subst h2
          exact ih2 o2 s2 hl
        | err e => rw [hl] at h; simp [Res.bind] at h
        | panic e => rw [hl] at h; simp [Res.bind] at h

/-! ## the absent fields -/

theorem absent_rawify (ents : List (Nat × RwT)) (b : Bytes) (A : Nat → Bytes) (G0 : Nat) (s : List Nat)
    (hA : ∀ n r, (n, r) ∈ ents → ∀ G, G0 ≤ G → rewriteT G r (payloadOf b.length r n b) = .ok (A n))
    (hE : ∀ n r, (n, r) ∈ ents → n ∉ s → payloadOf b.length r n b = []) :
    ∀ (es : List (Nat × RwT)) (fuel : Nat), (∀ p, p ∈ es → p ∈ ents) → es.length + G0 + 1 ≤ fuel →
      rewriteAbsentT fuel es s = rewriteAbsentT fuel (rawOf A es) s
  | [], fuel, _, _ => by rw [rawOf]
  | (i, r) :: rest, fuel, hsub, hfuel => by
    obtain ⟨j, hj⟩ : ∃ j, fuel = j + 1 := ⟨fuel - 1, by omega⟩
    subst hj
    simp only [List.length_cons] at hfuel
    have hrec := absent_rawify ents b A G0 s hA hE rest j (fun p hp => hsub p (List.mem_cons_of_mem _ hp)) (by omega)
    simp only [rawOf, rewriteAbsentT]
    by_cases hs : s.contains i = true
    · simp only [hs, if_true]; exact hrec
    · have hs' : i ∉ s := by simpa using hs
      have hs'' : s.contains i = false := by simpa using hs
      have hmem : (i, r) ∈ ents := hsub _ List.mem_cons_self
      have h1 : rewriteT j r [] = .ok (A i) := by
        have := hA i r hmem j (by omega)
        rw [hE i r hmem hs'] at this; exact this
      have h2 : rewriteT j (.raw (A i)) [] = .ok (A i) := by
        obtain ⟨j', hj'⟩ : ∃ j', j = j' + 1 := ⟨j - 1, by omega⟩
        rw [hj']; simp [rewriteT]
      simp only [hs'', Bool.false_eq_true, if_false, h1, h2, hrec]

/-! ## main theorem -/

/-- **rawify**: on the fixed valid input `b`, replacing every entry `(n, r)` of the table by the constant `.raw (A n)`,
where `A n` is what `r` returns on the payload the loop hands it, does not change the output -/
theorem rawify (len : Nat) (ents : List (Nat × RwT)) (b : Bytes) (recs0 : List (Nat × WireVal)) (hv : Valid b recs0)
    (A : Nat → Bytes) (G0 : Nat) (hlt : ∀ p, p ∈ ents → p.1 < len) (_hnd : (ents.map Prod.fst).Nodup)
    (hA : ∀ n r, (n, r) ∈ ents → ∀ G, G0 ≤ G → rewriteT G r (payloadOf b.length r n b) = .ok (A n)) :
    ∀ F, b.length + G0 + ents.length + 3 ≤ F →
      rewriteT F (.message len ents) b = rewriteT F (.message len (rawOf A ents)) b := by
  intro F hF
  obtain ⟨j, hj⟩ : ∃ j, F = j + 1 := ⟨F - 1, by omega⟩
  subst hj
  simp only [rewriteT]
  split
  · rfl
  · obtain ⟨h1, h2⟩ := loop_rawify len ents b A G0 hlt hA j b recs0 [] hv (by omega) (fun _ _ _ _ => rfl)
    rw [← h1]
    cases hl : rewriteLoopT j len ents b [] with
    | ok q =>
      obtain ⟨out, s⟩ := q
      simp only [Res.bind]
      rw [absent_rawify ents b A G0 s hA (h2 out s hl) ents j (fun _ h => h) (by omega)]
    | err e => rfl
    | panic e => rfl

/-! ## the payload handed to an `embeddedMerge` entry -/

theorem payloadOf_merge_aux (n number len : Nat) (es : List (Nat × RwT)) :
    ∀ (k : Nat) (inp : Bytes) (recs : List (Nat × WireVal)), Valid inp recs → inp.length ≤ k →
      (∀ w, (n, w) ∈ recs → ∃ v, w = .len v) →
      payloadOf k (.embeddedMerge number len es) n inp = laterPieces n recs := by
  intro k
  induction k with
  | zero =>
    intro inp recs hv hk _
    have : inp = [] := by
      cases inp with
      | nil => rfl
      | cons => simp at hk
    subst this
    rw [hv.nil_inv, payloadOf_nil, laterPieces_nil]
  | succ k ih =>
    intro inp recs hv hk hall
    by_cases hne : inp = []
    · subst hne; rw [hv.nil_inv, payloadOf_nil, laterPieces_nil]
    · obtain ⟨f, w, tl, t, v, m, pre, e2, _, hp, ht, hpay, hm, hlen, _⟩ := parseField_spec hv hne
      subst e2
      rw [payloadOf_step k _ n inp f t v m hne hp]
      by_cases hfn : (f == n) = true
      · have : f = n := by simpa using hfn
        subst this
        obtain ⟨v', hw⟩ := hall w List.mem_cons_self
        subst hw
        simp only [wireNum] at ht
        simp only [PayBytes] at hpay
        subst ht hpay
        simp only [beq_self_eq_true, if_true, mergeInputT]
        rw [mergeOccurrences_valid f m.length m tl v hm (Nat.le_refl _), laterPieces_cons_len]
        simp
      · have hfn' : (f == n) = false := by simpa using hfn
        simp only [hfn', Bool.false_eq_true, if_false]
        rw [ih m tl hm (by omega) (fun w hw => hall w (List.mem_cons_of_mem _ hw))]
        cases w with
        | len x => rw [laterPieces_cons_len]; simp [hfn']
        | varint x => rw [laterPieces_cons_other n f _ tl (by simp [wireNum])]
        | i64 x => rw [laterPieces_cons_other n f _ tl (by simp [wireNum])]
        | i32 x => rw [laterPieces_cons_other n f _ tl (by simp [wireNum])]

/-- the payload handed to an `embeddedMerge` entry of field `n` (all occurrences length-delimited): the concatenation
of all the occurrences' payloads -/
theorem payloadOf_merge (n number len : Nat) (es : List (Nat × RwT)) (b : Bytes) (recs0 : List (Nat × WireVal))
    (hv : Valid b recs0) (hall : ∀ w, (n, w) ∈ recs0 → ∃ v, w = .len v) :
    payloadOf b.length (.embeddedMerge number len es) n b = laterPieces n recs0 :=
  payloadOf_merge_aux n number len es b.length b recs0 hv (Nat.le_refl _) hall

/-- non-vacuity: the hypotheses of `rawify` hold on a concrete table (one `raw` entry for field 1, `len = 2`) and the
valid input `08 01` (field 1 = varint 1) -/
example : ∀ F, 2 + 1 + 1 + 3 ≤ F →
    rewriteT F (.message 2 [(1, .raw [0x10, 0x02])]) [0x08, 0x01] =
      rewriteT F (.message 2 (rawOf (fun _ => [0x10, 0x02]) [(1, .raw [0x10, 0x02])])) [0x08, 0x01] :=
  rawify 2 [(1, .raw [0x10, 0x02])] [0x08, 0x01] [(1, .varint 1)] (by unfold Valid; rfl) (fun _ => [0x10, 0x02]) 1
    (by intro p hp; simp at hp; subst hp; decide) (by simp)
    (by
      intro n r h G hG
      simp at h
      obtain ⟨rfl, rfl⟩ := h
      obtain ⟨j, rfl⟩ : ∃ j, G = j + 1 := ⟨G - 1, by omega⟩
      simp [rewriteT])

#print axioms rawify
#print axioms payloadOf_merge

end Enc.Lemmas.ProtoTemplate
