import Enc.Model.Json.EncFloat
import Enc.Spec.Json.StdEncFloat
/-!
Proofs for C01's float layer: the index-based clean-up of `encodeFloat` on the whole buffer `dst ++ digits` is the
stdlib rule on `digits` alone as soon as `digits` has four bytes (every 'e' output of strconv has at least five).
-/
namespace Enc.Lemmas.JsonEncFloat
open Enc Enc.Model.Json

/-- the last four bytes of a list of length ≥ 4 -/
theorem split_last4 (b : Bytes) (h : 4 ≤ b.length) :
    ∃ p x y z w, b = p ++ [x, y, z, w] := by
  refine ⟨b.take (b.length - 4), b.getD (b.length - 4) 0, b.getD (b.length - 3) 0, b.getD (b.length - 2) 0,
    b.getD (b.length - 1) 0, ?_⟩
  apply List.ext_getElem
  · simp; omega
  · intro i h1 h2
    simp only [List.getElem_append, List.length_take]
    split
    · simp
    · rename_i hi
      have hi' : b.length - 4 ≤ i := by omega
      have : i - min (b.length - 4) b.length < 4 := by simp at h2; omega
      have hm : min (b.length - 4) b.length = b.length - 4 := by omega
      rcases Nat.lt_or_ge i (b.length - 3) with h3 | h3
      · have : i = b.length - 4 := by omega
        subst this; simp [hm, List.getD_eq_getElem?_getD, List.getElem?_eq_getElem h1]
      rcases Nat.lt_or_ge i (b.length - 2) with h4 | h4
      · have : i = b.length - 3 := by omega
        subst this
        have : b.length - 3 - (b.length - 4) = 1 := by omega
        simp [hm, this, List.getD_eq_getElem?_getD, List.getElem?_eq_getElem h1]
      rcases Nat.lt_or_ge i (b.length - 1) with h5 | h5
      · have : i = b.length - 2 := by omega
        subst this
        have : b.length - 2 - (b.length - 4) = 2 := by omega
        simp [hm, this, List.getD_eq_getElem?_getD, List.getElem?_eq_getElem h1]
      · have : i = b.length - 1 := by omega
        subst this
        have : b.length - 1 - (b.length - 4) = 3 := by omega
        simp [hm, this, List.getD_eq_getElem?_getD, List.getElem?_eq_getElem h1]

/-- the clean-up, computed on a buffer whose last four bytes are known -/
theorem cleanupExp_last4 (p : Bytes) (x y z w : UInt8) :
    cleanupExp (p ++ [x, y, z, w]) =
      if x == 0x65 && y == 0x2d && z == 0x30 then p ++ [x, y, w] else p ++ [x, y, z, w] := by
  have hl : (p ++ [x, y, z, w]).length = p.length + 4 := by simp
  have g4 : (p ++ [x, y, z, w]).getD (p.length + 4 - 4) 0 = x := by
    simp [List.getD_eq_getElem?_getD]
  have g3 : (p ++ [x, y, z, w]).getD (p.length + 4 - 3) 0 = y := by
    have : p.length + 4 - 3 = p.length + 1 := by omega
    simp [List.getD_eq_getElem?_getD, this]
  have g2 : (p ++ [x, y, z, w]).getD (p.length + 4 - 2) 0 = z := by
    have : p.length + 4 - 2 = p.length + 2 := by omega
    simp [List.getD_eq_getElem?_getD, this]
  have g1 : (p ++ [x, y, z, w]).getD (p.length + 4 - 1) 0 = w := by
    have : p.length + 4 - 1 = p.length + 3 := by omega
    simp [List.getD_eq_getElem?_getD, this]
  unfold cleanupExp
  simp only [hl, g4, g3, g2, g1]
  have hge : (p.length + 4 ≥ 4) = True := by simp
  simp only [hge, decide_true, Bool.true_and]
  split
  · have e2 : p.length + 4 - 2 = p.length + 2 := by omega
    have e1 : p.length + 4 - 1 = p.length + 3 := by omega
    rw [e2, e1, List.set_append_right _ _ (by omega)]
    have : p.length + 2 - p.length = 2 := by omega
    rw [this]
    simp [List.take_append, List.take_of_length_le]
  · rfl

/-- the stdlib rule, computed on a digit string whose last four bytes are known -/
theorem dropExpZero_last4 (p : Bytes) (x y z w : UInt8) :
    Spec.Json.dropExpZero (p ++ [x, y, z, w]) =
      if x == 0x65 && y == 0x2d && z == 0x30 then p ++ [x, y, w] else p ++ [x, y, z, w] := by
  unfold Spec.Json.dropExpZero
  have hr : (p ++ [x, y, z, w]).reverse = w :: z :: y :: x :: p.reverse := by simp
  rw [hr]
  by_cases hx : x = 0x65 <;> by_cases hy : y = 0x2d <;> by_cases hz : z = 0x30
  · subst hx hy hz; simp
  all_goals
    split
    · rename_i heq
      simp only [List.cons.injEq] at heq
      obtain ⟨_, h1, h2, h3, _⟩ := heq
      simp_all
    · simp [hx, hy, hz]

/-- KEY: on a buffer whose appended part has at least four bytes, the index-based clean-up never looks at the prefix -/
theorem cleanup_append (dst digits : Bytes) (h : 4 ≤ digits.length) :
    cleanupExp (dst ++ digits) = dst ++ Spec.Json.dropExpZero digits := by
  obtain ⟨p, x, y, z, w, rfl⟩ := split_last4 digits h
  rw [← List.append_assoc, cleanupExp_last4, dropExpZero_last4]
  split <;> simp

theorem hasAtLeast_le {α} (l : List α) (n : Nat) (h : hasAtLeast l n = true) : n ≤ l.length := by
  induction l generalizing n with
  | nil => cases n <;> simp_all [hasAtLeast]
  | cons a r ih => cases n with
    | zero => simp
    | succ k => simp only [hasAtLeast] at h; have := ih k h; simp; omega

theorem shapeExp_len (b : Bytes) (h : shapeExp b = true) : 4 ≤ b.length := by
  unfold shapeExp at h
  split at h
  · rename_i s ex
    simp only [Bool.and_eq_true] at h
    have := hasAtLeast_le ex 2 h.2
    simp; omega
  · cases h

theorem length_dropWhile_le {α} (p : α → Bool) (l : List α) : (l.dropWhile p).length ≤ l.length := by
  induction l with
  | nil => simp
  | cons a r ih => simp only [List.dropWhile]; split <;> simp <;> omega

/-- every 'e' output of strconv has at least four (in fact five) bytes -/
theorem shapeE_len (b : Bytes) (h : shapeE b = true) : 4 ≤ b.length := by
  have hs : (stripMinus b).length ≤ b.length := by
    unfold stripMinus; split <;> simp
  suffices 4 ≤ (stripMinus b).length by omega
  unfold shapeE at h
  split at h
  · rename_i d r heq
    simp only [Bool.and_eq_true] at h
    have := shapeExp_len _ h.2
    have := length_dropWhile_le isDigitB r
    rw [heq]; simp; omega
  · rename_i d r _ heq
    simp only [Bool.and_eq_true] at h
    have := shapeExp_len _ h.2
    rw [heq]; simp; omega
  · cases h

theorem encodeFloatFmt_eq_std_of_len (dst digits : Bytes) (fmt : FFmt) (h : fmt = .e → 4 ≤ digits.length) :
    encodeFloatFmt dst fmt digits = dst ++ Spec.Json.stdFloat (decide (fmt = .e)) digits := by
  unfold encodeFloatFmt Spec.Json.stdFloat
  cases fmt
  · simp
  · simp [cleanup_append dst digits (h rfl)]

theorem encodeFloatFmt_eq_std (dst digits : Bytes) (fmt : FFmt) (h : StrconvShape fmt digits) :
    encodeFloatFmt dst fmt digits = dst ++ Spec.Json.stdFloat (decide (fmt = .e)) digits := by
  apply encodeFloatFmt_eq_std_of_len
  intro he; subst he
  exact shapeE_len digits h

theorem encodeFloatFmt_oblivious (dst digits : Bytes) (fmt : FFmt) (h : StrconvShape fmt digits) :
    (encodeFloatFmt dst fmt digits).take dst.length = dst ∧
    (encodeFloatFmt dst fmt digits).drop dst.length = encodeFloatFmt [] fmt digits := by
  rw [encodeFloatFmt_eq_std dst digits fmt h, encodeFloatFmt_eq_std [] digits fmt h]
  simp

/-- decision table of the format choice -/
theorem format_choice (bits : Nat) (c : FloatCmp) :
    (chooseFmt bits c = .e) ↔
      (bits = 64 ∧ Spec.Json.es6Exponential c.nonZero c.lt64 c.ge64 = true) ∨
      (bits = 32 ∧ Spec.Json.es6Exponential c.nonZero c.lt32 c.ge32 = true) := by
  unfold chooseFmt Spec.Json.es6Exponential
  by_cases h64 : bits = 64
  · subst h64; cases c.nonZero <;> cases c.lt64 <;> cases c.ge64 <;> simp
  · by_cases h32 : bits = 32
    · subst h32; cases c.nonZero <;> cases c.lt32 <;> cases c.ge32 <;> simp
    · cases c.nonZero <;> simp [h64, h32]

/-- whole function against the whole stdlib rule -/
theorem encodeFloat_eq_std (dst : Bytes) (bits : Nat) (hb : bits = 32 ∨ bits = 64) (c : FloatCmp) (dF dE : Bytes)
    (hF : StrconvShape .f dF) (hE : StrconvShape .e dE) :
    encodeFloat dst bits c dF dE =
      match Spec.Json.stdEncodeFloat c.isNaN c.isInf c.nonZero
          (if bits = 64 then c.lt64 else c.lt32) (if bits = 64 then c.ge64 else c.ge32) dF dE with
      | none => .err (if c.isNaN then "unsupported:NaN" else "unsupported:inf")
      | some x => .ok (dst ++ x) := by
  unfold encodeFloat Spec.Json.stdEncodeFloat
  by_cases hn : c.isNaN = true
  · simp [hn]
  by_cases hi : c.isInf = true
  · simp [hn, hi]
  simp only [hn, hi, Bool.false_eq_true, ↓reduceIte, Bool.or_self]
  have hfc := format_choice bits c
  rcases hb with rfl | rfl
  · simp only [show (32 : Nat) ≠ 64 by decide, false_and, false_or, true_and, ↓reduceIte] at hfc ⊢
    cases hch : chooseFmt 32 c
    · have : Spec.Json.es6Exponential c.nonZero c.lt32 c.ge32 = false := by
        cases h : Spec.Json.es6Exponential c.nonZero c.lt32 c.ge32
        · rfl
        · rw [hfc.2 h] at hch; cases hch
      simp [this, encodeFloatFmt_eq_std dst dF .f hF]
    · simp [hfc.1 hch, encodeFloatFmt_eq_std dst dE .e hE]
  · simp only [show (64 : Nat) ≠ 32 by decide, false_and, or_false, true_and, ↓reduceIte] at hfc ⊢
    cases hch : chooseFmt 64 c
    · have : Spec.Json.es6Exponential c.nonZero c.lt64 c.ge64 = false := by
        cases h : Spec.Json.es6Exponential c.nonZero c.lt64 c.ge64
        · rfl
        · rw [hfc.2 h] at hch; cases hch
      simp [this, encodeFloatFmt_eq_std dst dF .f hF]
    · simp [hfc.1 hch, encodeFloatFmt_eq_std dst dE .e hE]

theorem nan_inf_error (dst : Bytes) (bits : Nat) (c : FloatCmp) (dF dE : Bytes) (h : c.isNaN = true ∨ c.isInf = true) :
    (∃ cls, encodeFloat dst bits c dF dE = .err cls) ∧
    ∀ nz lt ge, Spec.Json.stdEncodeFloat c.isNaN c.isInf nz lt ge dF dE = none := by
  unfold encodeFloat Spec.Json.stdEncodeFloat
  rcases h with h | h <;> cases hn : c.isNaN <;> simp_all

#print axioms encodeFloat_eq_std
#print axioms encodeFloatFmt_oblivious
#print axioms format_choice

end Enc.Lemmas.JsonEncFloat
