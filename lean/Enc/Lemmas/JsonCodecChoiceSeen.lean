import Enc.Model.Json.CodecChoice
/-!
# Facts about the `seen` map of a codec construction
-/
namespace Enc.Lemmas.JsonCodecChoiceSeen
open Enc.Model.Json.CodecChoice

theorem find_set (s : Seen) (k k' : Key) (e : Entry) :
    (s.set k e).find k' = if k' = k then some e else s.find k' := by
  simp only [Seen.set, Seen.find, List.lookup]
  by_cases h : k' = k
  · subst h; simp
  · have : (k' == k) = false := by simpa using h
    simp [this, h]

theorem find_set_self (s : Seen) (k : Key) (e : Entry) : (s.set k e).find k = some e := by
  simp [find_set]

theorem find_set_ne (s : Seen) (k k' : Key) (e : Entry) (h : k' ≠ k) : (s.set k e).find k' = s.find k' := by
  simp [find_set, h]

theorem find_erase (s : Seen) (k k' : Key) :
    (s.erase k).find k' = if k' = k then none else s.find k' := by
  induction s with
  | nil => simp [Seen.erase, Seen.find]
  | cons p r ih =>
    obtain ⟨pk, pe⟩ := p
    simp only [Seen.erase, Seen.find] at ih ⊢
    by_cases hp : pk = k
    · subst hp
      simp only [List.filter, beq_self_eq_true, Bool.not_true]
      rw [ih]
      by_cases h : k' = pk
      · simp [h]
      · have : (k' == pk) = false := by simpa using h
        simp [List.lookup, this, h]
    · have hpk : (pk == k) = false := by simpa using hp
      simp only [List.filter, hpk, Bool.not_false]
      by_cases h : k' = pk
      · subst h
        simp [List.lookup, hp]
      · have : (k' == pk) = false := by simpa using h
        simp only [List.lookup, this]
        exact ih

/-- what `seen` knows only grows (entries are completed, never removed) -/
def Mono (s s' : Seen) : Prop := ∀ k, (s.find k).isSome → (s'.find k).isSome

theorem Mono.refl (s : Seen) : Mono s s := fun _ h => h
theorem Mono.trans {a b c : Seen} (h1 : Mono a b) (h2 : Mono b c) : Mono a c := fun k h => h2 k (h1 k h)

theorem mono_set (s : Seen) (k : Key) (e : Entry) : Mono s (s.set k e) := by
  intro k' h
  rw [find_set]
  by_cases hk : k' = k
  · simp [hk]
  · simpa [hk] using h

/-- registering a named type on the way in and deleting it on the way out leaves everything else in place -/
theorem mono_erase_of_absent (s s' : Seen) (k : Key) (e : Entry) (habs : s.find k = none)
    (h : Mono (s.set k e) s') : Mono s (s'.erase k) := by
  intro k' hk'
  rw [find_erase]
  by_cases hk : k' = k
  · subst hk; rw [habs] at hk'; cases hk'
  · simp only [hk, if_false]
    apply h
    rw [find_set_ne _ _ _ _ hk]
    exact hk'

theorem filter_length_le {α : Type} (p q : α → Bool) (l : List α) (h : ∀ x, x ∈ l → q x = true → p x = true) :
    (l.filter q).length ≤ (l.filter p).length := by
  induction l with
  | nil => simp
  | cons a r ih =>
    have ih' := ih (fun x hx => h x (List.mem_cons_of_mem _ hx))
    by_cases hq : q a = true
    · have hp := h a (List.mem_cons_self) hq
      simp [List.filter, hq, hp]; omega
    · have hq' : q a = false := by simpa using hq
      by_cases hp : p a = true
      · simp [List.filter, hq', hp]; omega
      · have hp' : p a = false := by simpa using hp
        simp [List.filter, hq', hp']; omega

theorem filter_length_lt {α : Type} (p q : α → Bool) (l : List α) (h : ∀ x, x ∈ l → q x = true → p x = true)
    (a : α) (ha : a ∈ l) (hpa : p a = true) (hqa : q a = false) :
    (l.filter q).length < (l.filter p).length := by
  induction l with
  | nil => cases ha
  | cons b r ih =>
    have hr := fun x hx => h x (List.mem_cons_of_mem _ hx)
    rcases List.mem_cons.mp ha with rfl | har
    · have := filter_length_le p q r hr
      simp [List.filter, hpa, hqa]; omega
    · have ih' := ih hr har
      by_cases hq : q b = true
      · have hp := h b (List.mem_cons_self) hq
        simp [List.filter, hq, hp]; omega
      · have hq' : q b = false := by simpa using hq
        by_cases hp : p b = true
        · simp [List.filter, hq', hp]; omega
        · have hp' : p b = false := by simpa using hp
          simp [List.filter, hq', hp']; omega

theorem unseen_mono (env : Env) (s s' : Seen) (h : Mono s s') : unseen env s' ≤ unseen env s := by
  unfold unseen
  apply filter_length_le
  intro k _ hk
  cases hs : s.find k with
  | none => rfl
  | some e =>
    have := h k (by simp [hs])
    cases hs' : s'.find k with
    | none => simp [hs'] at this
    | some e' => simp [hs'] at hk

theorem unseen_set_lt (env : Env) (s : Seen) (k : Key) (e : Entry) (hk : k ∈ allKeys env) (habs : s.find k = none) :
    unseen env (s.set k e) < unseen env s := by
  unfold unseen
  apply filter_length_lt _ _ _ _ k hk
  · simp [habs]
  · simp [find_set_self]
  · intro x _ hx
    have := mono_set s k e x
    cases hs : s.find x with
    | none => rfl
    | some e' =>
      have h2 := this (by simp [hs])
      cases hs' : (s.set k e).find x with
      | none => simp [hs'] at h2
      | some _ => simp [hs'] at hx

theorem mem_allKeys (env : Env) (id : Nat) (d : Def) (b : Bool) (h : env.lookup id = some d) :
    (TD.ref id, b) ∈ allKeys env := by
  induction env with
  | nil => simp at h
  | cons p r ih =>
    obtain ⟨i, d'⟩ := p
    simp only [List.lookup] at h
    simp only [allKeys]
    by_cases hi : id = i
    · subst hi; cases b <;> simp
    · have : (id == i) = false := by simpa using hi
      simp only [this] at h
      have := ih h
      simp [this]

theorem size_pos (t : TD) : 1 ≤ t.size := by
  cases t <;> simp [TD.size] <;> omega

theorem lookup_size_le (env : Env) (id : Nat) (d : Def) (h : env.lookup id = some d) : d.under.size ≤ maxDef env := by
  induction env with
  | nil => simp at h
  | cons p r ih =>
    obtain ⟨i, d'⟩ := p
    simp only [List.lookup] at h
    simp only [maxDef]
    by_cases hi : id = i
    · subst hi; simp at h; subst h; omega
    · have : (id == i) = false := by simpa using hi
      simp only [this] at h
      have := ih h
      omega

end Enc.Lemmas.JsonCodecChoiceSeen
