import Enc.Model.Json.CodecChoice
/-!
# Facts about the `seen` map of a codec construction
-/
namespace Enc.Lemmas.JsonCodecChoiceSeen
open Enc.Model.Json.CodecChoice

theorem find_set (s : Seen) (k k' : Key) (e : Entry) :
    (s.set k e).find k' = if k' = k then some e else s.find k' := by
  simp only [Seen.set, Seen.find, List.lookup]
  by_cases h : k' = k
  · subst h; simp
  · have : (k' == k) = false := by simpa using h
    simp [this, h]

theorem find_set_self (s : Seen) (k : Key) (e : Entry) : (s.set k e).find k = some e := by
  simp [find_set]

theorem find_set_ne (s : Seen) (k k' : Key) (e : Entry) (h : k' ≠ k) : (s.set k e).find k' = s.find k' := by
  simp [find_set, h]

theorem find_erase (s : Seen) (k k' : Key) :
    (s.erase k).find k' = if k' = k then none else s.find k' := by
  induction s with
  | nil => simp [Seen.erase, Seen.find]
  | cons p r ih =>
    obtain ⟨pk, pe⟩ := p
    simp only [Seen.erase, Seen.find] at ih ⊢
    by_cases hp : pk = k
    · subst hp
      simp only [List.filter, beq_self_eq_true, Bool.not_true]
      rw [ih]
      by_cases h : k' = pk
      · simp [h]
      · have : (k' == pk) = false := by simpa using h
        simp [List.lookup, this, h]
    · have hpk : (pk == k) = false := by simpa using hp
      simp only [List.filter, hpk, Bool.not_false]
      by_cases h : k' = pk
      · subst h
        simp [List.lookup, hp]
      · have : (k' == pk) = false := by simpa using h
        simp only [List.lookup, this]
        exact ih

/-- what `seen` knows only grows (entries are completed, never removed) -/
def Mono (s s' : Seen) : Prop := ∀ k, (s.find k).isSome → (s'.find k).isSome

theorem Mono.refl (s : Seen) : Mono s s := fun _ h => h
theorem Mono.trans {a b c : Seen} (h1 : Mono a b) (h2 : Mono b c) : Mono a c := fun k h => h2 k (h1 k h)

theorem mono_set (s : Seen) (k : Key) (e : Entry) : Mono s (s.set k e) := by
  intro k' h
  rw [find_set]
  by_cases hk : k' = k
  · simp [hk]
  · simpa [hk] using h

/-- registering a named type on the way in and deleting it on the way out leaves everything else in place -/
theorem mono_erase_of_absent (s s' : Seen) (k : Key) (e : Entry) (habs : s.find k = none)
    (h : Mono (s.set k e) s') : Mono s (s'.erase k) := by
  intro k' hk'
  rw [find_erase]
  by_cases hk : k' = k
  · subst hk; rw [habs] at hk'; cases hk'
  · simp only [hk, if_false]
    apply h
    rw [find_set_ne _ _ _ _ hk]
    exact hk'

theorem filter_length_le {α : Type} (p q : α → Bool) (l : List α) (h : ∀ x, x ∈ l → q x = true → p x = true) :
    (l.filter q).length ≤ (l.filter p).length := by
  induction l with
  | nil => simp
  | cons a r ih =>
    have ih' := ih (fun x hx => h x (List.mem_cons_of_mem _ hx))
    by_cases hq : q a = true
    · have hp := h a (List.mem_cons_self) hq
      simp [List.filter, hq, hp]; omega
    · have hq' : q a = false := by simpa using hq
      by_cases hp : p a = true
      · simp [List.filter, hq', hp]; omega
      · have hp' : p a = false := by simpa using hp
        simp [List.filter, hq', hp']; omega

theorem filter_length_lt {α : Type} (p q : α → Bool) (l : List α) (h : ∀ x, x ∈ l → q x = true → p x = true)
    (a : α) (ha : a ∈ l) (hpa : p a = true) (hqa : q a = false) :
    (l.filter q).length < (l.filter p).length := by
  induction l with
  | nil => cases ha
  | cons b r ih =>
    have hr := fun x hx => h x (List.mem_cons_of_mem _ hx)
    rcases List.mem_cons.mp ha with rfl | har
    · have := filter_length_le p q r hr
      simp [List.filter, hpa, hqa]; omega
    · have ih' := ih hr har
      by_cases hq : q b = true
      · have hp := h b (List.mem_cons_self) hq
        simp [List.filter, hq, hp]; omega
      · have hq' : q b = false := by simpa using hq
        by_cases hp : p b = true
        · simp [List.filter, hq', hp]; omega
        · have hp' : p b = false := by simpa using hp
          simp [List.filter, hq', hp']; omega

theorem unseen_mono (env : Env) (s s' : Seen) (h : Mono s s') : unseen env s' ≤ unseen env s := by
  unfold unseen
  apply filter_length_le
  intro k _ hk
  cases hs : s.find k with
  | none => rfl
  | some e =>
    have := h k (by simp [hs])
    cases hs' : s'.find k with
    | none => simp [hs'] at this
    | some e' => simp [hs'] at hk

theorem unseen_set_lt (env : Env) (s : Seen) (k : Key) (e : Entry) (hk : k ∈ allKeys env) (habs : s.find k = none) :
    unseen env (s.set k e) < unseen env s := by
  unfold unseen
  apply filter_length_lt _ _ _ _ k hk
  · simp [habs]
  · simp [find_set_self]
  · intro x _ hx
    have := mono_set s k e x
    cases hs : s.find x with
    | none => rfl
    | some e' =>
      have h2 := this (by simp [hs])
      cases hs' : (s.set k e).find x with
      | none => simp [hs'] at h2
      | some _ => simp [hs'] at hx

theorem mem_allKeys (env : Env) (id : Nat) (d : Def) (b : Bool) (h : env.lookup id = some d) :
    (TD.ref id, b) ∈ allKeys env := by
  induction env with
  | nil => simp at h
  | cons p r ih =>
    obtain ⟨i, d'⟩ := p
    simp only [List.lookup] at h
    simp only [allKeys]
    by_cases hi : id = i
    · subst hi; cases b <;> simp
    · have : (id == i) = false := by simpa using hi
      simp only [this] at h
      have := ih h
      simp [this]

theorem size_pos (t : TD) : 1 ≤ t.size := by
  cases t <;> simp [TD.size] <;> omega

theorem lookup_size_le (env : Env) (id : Nat) (d : Def) (h : env.lookup id = some d) : d.under.size ≤ maxDef env := by
  induction env with
  | nil => simp at h
  | cons p r ih =>
    obtain ⟨i, d'⟩ := p
    simp only [List.lookup] at h
    simp only [maxDef]
    by_cases hi : id = i
    · subst hi; simp at h; subst h; omega
    · have : (id == i) = false := by simpa using hi
      simp only [this] at h
      have := ih h
      omega

/-! ## How `seen` evolves: a call never changes or removes a finished struct type, and leaves exactly the entries
"under construction" (with their roots) it found -/

def Evo (s s' : Seen) : Prop :=
  (∀ k fs, s.find k = some (.done fs) → s'.find k = some (.done fs)) ∧
  (∀ k r, s'.find k = some (.building r) ↔ s.find k = some (.building r))

theorem Evo.refl (s : Seen) : Evo s s := ⟨fun _ _ h => h, fun _ _ => Iff.rfl⟩

theorem Evo.trans {a b c : Seen} (h1 : Evo a b) (h2 : Evo b c) : Evo a c :=
  ⟨fun k fs h => h2.1 k fs (h1.1 k fs h), fun k r => (h2.2 k r).trans (h1.2 k r)⟩

theorem Evo.mono {s s' : Seen} (h : Evo s s') : Mono s s' := by
  intro k hk
  cases hf : s.find k with
  | none => simp [hf] at hk
  | some e =>
    cases e with
    | building r => rw [(h.2 k r).mpr hf]; rfl
    | done fs => rw [h.1 k fs hf]; rfl

/-- a named composite type: registered on the way in, deleted on the way out -/
theorem evo_named (s s1 : Seen) (k r0 : Key) (habs : s.find k = none) (h : Evo (s.set k (.building r0)) s1) :
    Evo s (s1.erase k) := by
  constructor
  · intro k' fs hk'
    have hne : k' ≠ k := by intro e; subst e; rw [habs] at hk'; cases hk'
    rw [find_erase]; simp only [hne, if_false]
    apply h.1
    rw [find_set_ne _ _ _ _ hne]; exact hk'
  · intro k' r
    rw [find_erase]
    by_cases hk : k' = k
    · subst hk; simp [habs]
    · simp only [hk, if_false]
      rw [h.2 k' r, find_set_ne _ _ _ _ hk]

/-- a struct type: registered, then finished -/
theorem evo_struct (s s2 : Seen) (k r0 : Key) (fs : CL) (habs : s.find k = none) (h : Evo (s.set k (.building r0)) s2) :
    Evo s (s2.set k (.done fs)) := by
  constructor
  · intro k' fs' hk'
    have hne : k' ≠ k := by intro e; subst e; rw [habs] at hk'; cases hk'
    rw [find_set_ne _ _ _ _ hne]
    apply h.1
    rw [find_set_ne _ _ _ _ hne]; exact hk'
  · intro k' r
    by_cases hk : k' = k
    · subst hk; simp [find_set_self, habs]
    · rw [find_set_ne _ _ _ _ hk, h.2 k' r, find_set_ne _ _ _ _ hk]

/-- the second listing: the marker is set to the root and restored -/
theorem evo_relist (s s2 : Seen) (k r R : Key) (hk : s.find k = some (.building r))
    (h : Evo (s.set k (.building R)) s2) : Evo s (s2.set k (.building r)) := by
  constructor
  · intro k' fs hk'
    have hne : k' ≠ k := by intro e; subst e; rw [hk] at hk'; cases hk'
    rw [find_set_ne _ _ _ _ hne]
    apply h.1
    rw [find_set_ne _ _ _ _ hne]; exact hk'
  · intro k' r'
    by_cases hke : k' = k
    · subst hke
      rw [find_set_self, hk]
    · rw [find_set_ne _ _ _ _ hke, h.2 k' r', find_set_ne _ _ _ _ hke]

/-! ## The potential -/

theorem absent_evo (U : List Key) (s s' : Seen) (h : Evo s s') : absent U s' ≤ absent U s := by
  unfold absent
  apply filter_length_le
  intro k _ hk
  cases hs : s.find k with
  | none => rfl
  | some e =>
    have := h.mono k (by simp [hs])
    cases hs' : s'.find k with
    | none => simp [hs'] at this
    | some e' => simp [hs'] at hk

theorem absent_set_lt (U : List Key) (s : Seen) (k : Key) (e : Entry) (hk : k ∈ U) (habs : s.find k = none) :
    absent U (s.set k e) < absent U s := by
  unfold absent
  apply filter_length_lt _ _ _ _ k hk
  · simp [habs]
  · simp [find_set_self]
  · intro x _ hx
    have := mono_set s k e x
    cases hs : s.find x with
    | none => rfl
    | some e' =>
      have h2 := this (by simp [hs])
      cases hs' : (s.set k e).find x with
      | none => simp [hs'] at h2
      | some _ => simp [hs'] at hx

theorem absent_set_le (U : List Key) (s : Seen) (k : Key) (e : Entry) : absent U (s.set k e) ≤ absent U s := by
  unfold absent
  apply filter_length_le
  intro x _ hx
  have := mono_set s k e x
  cases hs : s.find x with
  | none => rfl
  | some e' =>
    have h2 := this (by simp [hs])
    cases hs' : (s.set k e).find x with
    | none => simp [hs'] at h2
    | some _ => simp [hs'] at hx

theorem absent_le (U : List Key) (s : Seen) : absent U s ≤ U.length := List.length_filter_le _ _

theorem foreign_le (U : List Key) (s : Seen) (R : Key) : foreign U s R ≤ U.length := List.length_filter_le _ _

theorem isForeign_evo (s s' : Seen) (R k : Key) (h : Evo s s') : isForeign s' R k = isForeign s R k := by
  unfold isForeign
  cases hs : s.find k with
  | none =>
    cases hs' : s'.find k with
    | none => rfl
    | some e =>
      cases e with
      | building r => have := (h.2 k r).mp hs'; rw [hs] at this; cases this
      | done fs => rfl
  | some e =>
    cases e with
    | building r => rw [(h.2 k r).mpr hs]
    | done fs => rw [h.1 k fs hs]

theorem foreign_evo (U : List Key) (s s' : Seen) (R : Key) (h : Evo s s') : foreign U s' R = foreign U s R := by
  unfold foreign
  have : isForeign s' R = isForeign s R := funext fun k => isForeign_evo s s' R k h
  rw [this]

/-- the second listing marks one more struct type under construction with the current root -/
theorem foreign_mark_lt (U : List Key) (s : Seen) (k r R : Key) (hk : k ∈ U) (hf : s.find k = some (.building r))
    (hne : (r == R) = false) : foreign U (s.set k (.building R)) R < foreign U s R := by
  unfold foreign
  apply filter_length_lt _ _ _ _ k hk
  · have : r ≠ R := by simpa using hne
    simp [isForeign, hf, this]
  · simp [isForeign, find_set_self]
  · intro x _ hx
    by_cases hxk : x = k
    · subst hxk; simp [isForeign, find_set_self] at hx
    · simpa [isForeign, find_set_ne _ _ _ _ hxk] using hx

end Enc.Lemmas.JsonCodecChoiceSeen
