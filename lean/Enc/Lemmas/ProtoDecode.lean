import Enc.Lemmas.ProtoUnlimited
import Enc.Model.Proto
import Enc.Lemmas.Base
import Enc.Lemmas.Proto
import Enc.Lemmas.ProtoVarint
/-!
# Lemmas for C07 — proto decoding is total and ignores unknown fields
-/
namespace Enc.Lemmas.ProtoDecode
open Enc Enc.Model.Proto

/-! ## the codec tree contains no `unsupported` -/
mutual
def Codec.Supported : Codec → Bool
  | .unsupported => false
  | .ptr c => Codec.Supported c
  | .struct fs => CFields.Supported fs
  | .slice e _ _ _ => Codec.Supported e
  | .map _ k v _ _ entry => Codec.Supported k && Codec.Supported v && Codec.Supported entry
  | _ => true
def CFields.Supported : CFields → Bool
  | .nil => true
  | .cons _ _ _ _ c rest => Codec.Supported c && CFields.Supported rest
end

/-! ## wire primitives -/

theorem varintLoop_ne_panic (b : Bytes) (x : BitVec 64) (s i : Nat) (e : String) :
    decodeVarintLoop b x s i ≠ .panic e := by
  induction b generalizing x s i with
  | nil => simp [decodeVarintLoop]
  | cons c cs ih =>
    unfold decodeVarintLoop
    split
    · split <;> simp
    · exact ih _ _ _

theorem decodeVarint_ne_panic (b : Bytes) (e : String) : decodeVarint b ≠ .panic e :=
  varintLoop_ne_panic b _ _ _ e

theorem varintLoop_consumes (b : Bytes) (x : BitVec 64) (s i : Nat) (v : BitVec 64) (n : Nat)
    (h : decodeVarintLoop b x s i = .ok (v, n)) : i < n ∧ n ≤ i + b.length := by
  induction b generalizing x s i with
  | nil => simp [decodeVarintLoop] at h
  | cons c cs ih =>
    unfold decodeVarintLoop at h
    split at h
    · split at h
      · simp at h
      · simp only [Res.ok.injEq, Prod.mk.injEq] at h
        simp only [List.length_cons]; omega
    · have := ih _ _ _ h
      simp only [List.length_cons]; omega

theorem decodeVarint_consumes (b : Bytes) (v : BitVec 64) (n : Nat)
    (h : decodeVarint b = .ok (v, n)) : 0 < n ∧ n ≤ b.length := by
  have := varintLoop_consumes b _ _ _ v n h
  omega

theorem varintLoop_err (b : Bytes) (x : BitVec 64) (s i : Nat) (e : String)
    (h : decodeVarintLoop b x s i = .err e) : e = "unexpectedEof" ∨ e = "varintOverflow" := by
  induction b generalizing x s i with
  | nil => simp [decodeVarintLoop] at h; exact Or.inl h.symm
  | cons c cs ih =>
    unfold decodeVarintLoop at h
    split at h
    · split at h
      · simp at h; exact Or.inr h.symm
      · simp at h
    · exact ih _ _ _ h

theorem decodeVarint_ne_fuel (b : Bytes) : decodeVarint b ≠ .err "fuel" := by
  intro h
  rcases varintLoop_err b _ _ _ _ h with h | h <;> simp at h

/-- the varint reader only looks at the bytes it consumes -/
theorem varintLoop_append (b rest : Bytes) (x : BitVec 64) (s i : Nat) (v : BitVec 64) (n : Nat)
    (h : decodeVarintLoop b x s i = .ok (v, n)) : decodeVarintLoop (b ++ rest) x s i = .ok (v, n) := by
  induction b generalizing x s i with
  | nil => simp [decodeVarintLoop] at h
  | cons c cs ih =>
    rw [List.cons_append]
    unfold decodeVarintLoop at h ⊢
    split
    · rename_i hc; simp only [hc, if_true] at h; exact h
    · rename_i hc; simp only [hc, if_false] at h; exact ih _ _ _ h

theorem decodeVarint_append (b rest : Bytes) (v : BitVec 64) (n : Nat)
    (h : decodeVarint b = .ok (v, n)) : decodeVarint (b ++ rest) = .ok (v, n) :=
  varintLoop_append b rest _ _ _ v n h

theorem decodeVarlen_ne_panic (b : Bytes) (e : String) : decodeVarlen b ≠ .panic e := by
  unfold decodeVarlen
  split
  · split <;> simp
  · simp
  · rename_i e' h; exact absurd h (decodeVarint_ne_panic b e')

theorem decodeVarlen_bound (b v : Bytes) (n : Nat) (h : decodeVarlen b = .ok (v, n)) : n ≤ b.length := by
  unfold decodeVarlen at h
  split at h
  · rename_i u k hk
    have := decodeVarint_consumes b u k hk
    split at h
    · simp at h
    · rename_i hh
      simp only [hasAtLeast_iff, List.length_drop, Bool.not_eq_true', decide_eq_false_iff_not, Nat.not_le] at hh
      simp only [Res.ok.injEq, Prod.mk.injEq] at h
      omega
  · simp at h
  · simp at h

theorem decodeVarlen_ne_fuel (b : Bytes) : decodeVarlen b ≠ .err "fuel" := by
  unfold decodeVarlen
  split
  · split <;> simp
  · rename_i e h; intro h'; simp only [Res.err.injEq] at h'; subst h'; exact decodeVarint_ne_fuel b h
  · simp

theorem bind_ne_panic {α β : Type} (r : Res α) (f : α → Res β) (e : String)
    (hr : ∀ e, r ≠ .panic e) (hf : ∀ a e, f a ≠ .panic e) : r.bind f ≠ .panic e := by
  cases r with
  | ok a => exact hf a e
  | err e' => simp [Res.bind]
  | panic e' => exact absurd rfl (hr e')

theorem skipUnknown_ne_panic (w : Nat) (b : Bytes) (lenB : Nat) (e : String) :
    skipUnknown w b lenB ≠ .panic e := by
  unfold skipUnknown
  apply bind_ne_panic
  · intro e
    split
    · exact bind_ne_panic _ _ _ (decodeVarint_ne_panic b) (by intro a e; simp)
    · split
      · refine bind_ne_panic _ _ _ (decodeVarint_ne_panic b) ?_
        intro a e; split; split <;> simp
      · repeat' split
        all_goals simp
  · intro a e; split <;> simp

/-! ## field lookup -/
def CFields.All (P : Codec → Prop) : CFields → Prop
  | .nil => True
  | .cons _ _ _ _ c rest => P c ∧ CFields.All P rest

theorem lookupField_go_all (P : Codec → Prop) (number : Nat) (fs : CFields) (i : Nat)
    (acc : Option (Nat × Bool × Bool × Codec)) (hfs : CFields.All P fs)
    (hacc : ∀ r, acc = some r → P r.2.2.2) :
    ∀ r, lookupField.go number fs i acc = some r → P r.2.2.2 := by
  match fs with
  | .nil => simpa [lookupField.go] using hacc
  | .cons n emb rep zz c rest =>
    intro r hr
    unfold lookupField.go at hr
    refine lookupField_go_all P number rest (i + 1) _ hfs.2 ?_ r hr
    intro r' hr'
    split at hr'
    · simp only [Option.some.injEq] at hr'; subst hr'; exact hfs.1
    · exact hacc r' hr'

theorem lookupField_all (P : Codec → Prop) (fs : CFields) (number : Nat) (hfs : CFields.All P fs)
    (i : Nat) (emb zz : Bool) (c : Codec) (h : lookupField fs number = some (i, emb, zz, c)) : P c :=
  lookupField_go_all P number fs 0 none hfs (by simp) _ h

theorem supported_all (fs : CFields) (h : CFields.Supported fs = true) :
    CFields.All (fun c => Codec.Supported c = true) fs := by
  match fs with
  | .nil => trivial
  | .cons n emb rep zz c rest =>
    simp only [CFields.Supported, Bool.and_eq_true] at h
    exact ⟨h.1, supported_all rest h.2⟩

/-! ## (A) totality -/
theorem decode_total_aux (fuel : Nat) :
    (∀ c b cur fl e, Codec.Supported c = true → decodeU fuel c b cur fl ≠ .panic e) ∧
    (∀ fs b lenB vs fl off e, CFields.Supported fs = true →
      decodeStructU fuel fs b lenB vs fl off ≠ .panic e) := by
  induction fuel with
  | zero => simp [decodeU, decodeStructU]
  | succ fuel ih =>
    obtain ⟨ihd, ihs⟩ := ih
    constructor
    · intro c b cur fl e hc
      cases c <;> simp only [decodeU]
      all_goals first
        | (refine bind_ne_panic _ _ _ (decodeVarint_ne_panic b) ?_; intro ⟨u, n⟩ e; simp; done)
        | (refine bind_ne_panic _ _ _ (decodeVarint_ne_panic b) ?_; intro ⟨u, n⟩ e; split <;> simp; done)
        | (refine bind_ne_panic _ _ _ (decodeVarlen_ne_panic b) ?_; intro ⟨u, n⟩ e; simp; done)
        | (refine bind_ne_panic _ _ _ (decodeVarlen_ne_panic b) ?_; intro ⟨u, n⟩ e; split <;> simp; done)
        | (split <;> simp; done)
        | skip
      case int32 =>
        split
        · split <;> simp
        · simp
        · rename_i e' h; exact absurd h (decodeVarint_ne_panic b e')
      case message =>
        split
        · simp
        · refine bind_ne_panic _ _ _ (decodeVarlen_ne_panic b) ?_; intro a e; simp
      case ptr c' =>
        refine bind_ne_panic _ _ _ (fun e => ihd c' b _ fl e (by simpa [Codec.Supported] using hc)) ?_
        intro a e; simp
      case struct fs =>
        split
        · refine bind_ne_panic _ _ _ (fun e => ihs fs b _ _ _ _ e (by simpa [Codec.Supported] using hc)) ?_
          intro a e; simp
        · simp
      case slice elem number wire emb =>
        split
        · simp
        · simp
        · rename_i e' h
          exact absurd h (ihd elem b _ _ e' (by simpa [Codec.Supported] using hc))
      case map number k v kEmb vEmb entry =>
        split
        · simp
        · split
          · simp
          · simp
          · simp
          · rename_i e' h
            simp only [Codec.Supported, Bool.and_eq_true] at hc
            exact absurd h (ihd entry b _ _ e' hc.2)
      case unsupported => simp [Codec.Supported] at hc
    · intro fs b lenB vs fl off e hfs
      simp only [decodeStructU]
      split
      · simp
      · split
        · simp
        · rename_i e' h; exact absurd h (decodeVarint_ne_panic b e')
        · rename_i tag n htag
          split
          · refine bind_ne_panic _ _ _ (skipUnknown_ne_panic _ _ _) ?_
            intro skip e; exact ihs _ _ _ _ _ _ e hfs
          · rename_i i emb zz c hlk
            have hcs : Codec.Supported c = true :=
              lookupField_all (fun c => Codec.Supported c = true) fs _ (supported_all fs hfs) i emb zz c hlk
            split
            · simp
            · refine bind_ne_panic _ _ _ ?_ ?_
              · intro e
                split
                · refine bind_ne_panic _ _ _ (decodeVarint_ne_panic _) ?_; intro a e; simp
                · split
                  · refine bind_ne_panic _ _ _ (decodeVarint_ne_panic _) ?_
                    intro a e; split
                    · simp
                    · split <;> simp
                  · repeat' split
                    all_goals simp
              · intro ⟨data, pre⟩ e
                refine bind_ne_panic _ _ _ (fun e => ihd c _ _ _ e hcs) ?_
                intro ⟨v, m⟩ e
                exact ihs _ _ _ _ _ _ e hfs

/-- **(A)** a codec tree without `unsupported` never panics, whatever the fuel, bytes, target value and flags -/
theorem decode_ne_panic (fuel : Nat) (c : Codec) (b : Bytes) (cur : Val) (fl : Flags) (e : String)
    (hc : Codec.Supported c = true) : decodeU fuel c b cur fl ≠ .panic e :=
  (decode_total_aux fuel).1 c b cur fl e hc

theorem decodeStruct_ne_panic (fuel : Nat) (fs : CFields) (b : Bytes) (lenB : Nat) (vs : Vals) (fl : Flags)
    (off : Nat) (e : String) (hfs : CFields.Supported fs = true) :
    decodeStructU fuel fs b lenB vs fl off ≠ .panic e :=
  (decode_total_aux fuel).2 fs b lenB vs fl off e hfs

/-! ## (B) consumption bound -/
theorem bind_ok {α β : Type} (r : Res α) (f : α → Res β) (x : β) (h : r.bind f = .ok x) :
    ∃ a, r = .ok a ∧ f a = .ok x := by
  cases r with
  | ok a => exact ⟨a, rfl, h⟩
  | err e => simp [Res.bind] at h
  | panic e => simp [Res.bind] at h

theorem unLE32_length (b : Bytes) (v : BitVec 32) (h : unLE32 b = some v) : 4 ≤ b.length := by
  match b with
  | [] | [_] | [_, _] | [_, _, _] => simp [unLE32] at h
  | _ :: _ :: _ :: _ :: _ => simp only [List.length_cons]; omega

theorem unLE64_length (b : Bytes) (v : BitVec 64) (h : unLE64 b = some v) : 8 ≤ b.length := by
  match b with
  | [] | [_] | [_, _] | [_, _, _] | [_, _, _, _] | [_, _, _, _, _] | [_, _, _, _, _, _]
  | [_, _, _, _, _, _, _] => simp [unLE64] at h
  | _ :: _ :: _ :: _ :: _ :: _ :: _ :: _ :: _ => simp only [List.length_cons]; omega

theorem skipUnknown_bound (w : Nat) (b : Bytes) (lenB skip : Nat) (h : skipUnknown w b lenB = .ok skip) :
    skip ≤ b.length := by
  unfold skipUnknown at h
  obtain ⟨a, _, h2⟩ := bind_ok _ _ _ h
  split at h2
  · simp only [Res.ok.injEq] at h2; omega
  · simp at h2

/-- the `switch wireType` that carves `data` out of the buffer in `structDecodeFuncOf` (same term as the `let carve`
inside `decodeStructU`): returns `(data, bytes skipped before data)` -/
def carve (w : Nat) (b1 : Bytes) (lenB off1 : Nat) (emb : Bool) : Res (Bytes × Nat) :=
  if w == 0 then (decodeVarint b1).bind fun (_, k) => .ok (b1.take k, 0)
  else if w == 2 then
    (decodeVarint b1).bind fun (l, k) =>
      if l.toNat > lenB - (off1 + k) then .err "unexpectedEof"
      else if emb then .ok ((b1.drop k).take l.toNat, k) else .ok (b1.take (k + l.toNat), 0)
  else if w == 5 then (if b1.length < 4 then .err "unexpectedEof" else .ok (b1.take 4, 0))
  else if w == 1 then (if b1.length < 8 then .err "unexpectedEof" else .ok (b1.take 8, 0))
  else .err "wireTypeUnknown"

/-- one unfolding of the struct loop, with the carve step named -/
theorem decodeStruct_succ (fuel : Nat) (fs : CFields) (b : Bytes) (lenB : Nat) (vs : Vals) (fl : Flags)
    (offset : Nat) :
    decodeStructU (fuel + 1) fs b lenB vs fl offset =
      if b.isEmpty then .ok (vs, offset)
      else
        match decodeVarint b with
        | .err e => .err e
        | .panic e => .panic e
        | .ok (tag, n) =>
          match lookupField fs (tag >>> 3).toNat with
          | none =>
            (skipUnknown (tag &&& 7#64).toNat (b.drop n) lenB).bind fun skip =>
              decodeStructU fuel fs ((b.drop n).drop skip) lenB vs fl (offset + n + skip)
          | some (i, emb, zz, c) =>
            if (tag &&& 7#64).toNat != c.wire.num then .err "wireType"
            else
              (carve (tag &&& 7#64).toNat (b.drop n) lenB (offset + n) emb).bind fun (data, pre) =>
                (decodeU fuel c data (Vals.get vs i) { fl with zigzag := fl.zigzag || zz }).bind fun (v, m) =>
                  decodeStructU fuel fs ((b.drop n).drop (pre + m)) lenB (Vals.set vs i v) fl
                    (offset + n + pre + m) := by
  rw [decodeStructU]; rfl

theorem carve_bound (w : Nat) (b1 : Bytes) (lenB off1 : Nat) (emb : Bool) (data : Bytes) (pre : Nat)
    (h : carve w b1 lenB off1 emb = .ok (data, pre)) : pre + data.length ≤ b1.length := by
  unfold carve at h
  split at h
  · obtain ⟨⟨u, k⟩, h1, h2⟩ := bind_ok _ _ _ h
    simp only [Res.ok.injEq, Prod.mk.injEq] at h2
    obtain ⟨rfl, rfl⟩ := h2
    simp [List.length_take]; omega
  · split at h
    · obtain ⟨⟨l, k⟩, h1, h2⟩ := bind_ok _ _ _ h
      have := decodeVarint_consumes _ _ _ h1
      simp only at h2
      split at h2
      · simp at h2
      · split at h2
        · simp only [Res.ok.injEq, Prod.mk.injEq] at h2
          obtain ⟨rfl, rfl⟩ := h2
          simp [List.length_take, List.length_drop]; omega
        · simp only [Res.ok.injEq, Prod.mk.injEq] at h2
          obtain ⟨rfl, rfl⟩ := h2
          simp [List.length_take]; omega
    · split at h
      · split at h
        · simp at h
        · simp only [Res.ok.injEq, Prod.mk.injEq] at h
          obtain ⟨rfl, rfl⟩ := h
          simp [List.length_take]; omega
      · split at h
        · split at h
          · simp at h
          · simp only [Res.ok.injEq, Prod.mk.injEq] at h
            obtain ⟨rfl, rfl⟩ := h
            simp [List.length_take]; omega
        · simp at h

theorem decode_bound_aux (fuel : Nat) :
    (∀ c b cur fl v n, decodeU fuel c b cur fl = .ok (v, n) → n ≤ b.length) ∧
    (∀ fs b lenB vs fl off vs' n, decodeStructU fuel fs b lenB vs fl off = .ok (vs', n) →
      n = off + b.length) := by
  induction fuel with
  | zero => simp [decodeU, decodeStructU]
  | succ fuel ih =>
    obtain ⟨ihd, ihs⟩ := ih
    constructor
    · intro c b cur fl v n h
      cases c <;> simp only [decodeU] at h
      all_goals first
        | (obtain ⟨⟨u, k⟩, h1, h2⟩ := bind_ok _ _ _ h
           have := decodeVarint_consumes b u k h1
           simp only [Res.ok.injEq, Prod.mk.injEq] at h2
           omega)
        | (obtain ⟨⟨u, k⟩, h1, h2⟩ := bind_ok _ _ _ h
           have := decodeVarlen_bound b u k h1
           simp only [Res.ok.injEq, Prod.mk.injEq] at h2
           omega)
        | (obtain ⟨⟨u, k⟩, h1, h2⟩ := bind_ok _ _ _ h
           have := decodeVarint_consumes b u k h1
           split at h2
           · simp at h2
           · simp only [Res.ok.injEq, Prod.mk.injEq] at h2
             omega)
        | (obtain ⟨⟨u, k⟩, h1, h2⟩ := bind_ok _ _ _ h
           have := decodeVarlen_bound b u k h1
           split at h2
           · simp at h2
           · simp only [Res.ok.injEq, Prod.mk.injEq] at h2
             omega)
        | (split at h
           · rename_i w hw
             first
               | have := unLE32_length b w hw
               | have := unLE64_length b w hw
             simp only [Res.ok.injEq, Prod.mk.injEq] at h
             omega
           · simp at h)
        | skip
      case int32 =>
        split at h
        · rename_i u k hk
          have := decodeVarint_consumes b u k hk
          split at h
          · simp at h
          · simp only [Res.ok.injEq, Prod.mk.injEq] at h; omega
        · simp at h
        · simp at h
      case message =>
        split at h
        · simp only [Res.ok.injEq, Prod.mk.injEq] at h; omega
        · obtain ⟨⟨u, k⟩, h1, h2⟩ := bind_ok _ _ _ h
          have := decodeVarlen_bound b u k h1
          simp only [Res.ok.injEq, Prod.mk.injEq] at h2
          omega
      case ptr c' =>
        obtain ⟨⟨u, k⟩, h1, h2⟩ := bind_ok _ _ _ h
        have := ihd _ _ _ _ _ _ h1
        simp only [Res.ok.injEq, Prod.mk.injEq] at h2
        omega
      case struct fs =>
        split at h
        · obtain ⟨⟨u, k⟩, h1, h2⟩ := bind_ok _ _ _ h
          have := ihs _ _ _ _ _ _ _ _ h1
          simp only [Res.ok.injEq, Prod.mk.injEq] at h2
          omega
        · simp at h
      case slice elem number wire emb =>
        split at h
        · rename_i u k hk
          have := ihd _ _ _ _ _ _ hk
          simp only [Res.ok.injEq, Prod.mk.injEq] at h; omega
        · simp at h
        · simp at h
      case map number k v kEmb vEmb entry =>
        split at h
        · simp only [Res.ok.injEq, Prod.mk.injEq] at h; omega
        · split at h
          · rename_i hk
            have := ihd _ _ _ _ _ _ hk
            simp only [Res.ok.injEq, Prod.mk.injEq] at h; omega
          · simp at h
          · simp at h
          · simp at h
      case unsupported => simp at h
    · intro fs b lenB vs fl off vs' n h
      rw [decodeStruct_succ] at h
      split at h
      · rename_i hb
        simp only [List.isEmpty_iff] at hb
        simp only [Res.ok.injEq, Prod.mk.injEq] at h
        simp [hb, h.2]
      · split at h
        · simp at h
        · simp at h
        · rename_i tag k htag
          have hk := decodeVarint_consumes b tag k htag
          split at h
          · obtain ⟨skip, h1, h2⟩ := bind_ok _ _ _ h
            have hs := skipUnknown_bound _ _ _ _ h1
            have := ihs _ _ _ _ _ _ _ _ h2
            simp only [List.length_drop] at this hs
            omega
          · split at h
            · simp at h
            · obtain ⟨⟨data, pre⟩, h1, h2⟩ := bind_ok _ _ _ h
              obtain ⟨⟨v, m⟩, h3, h4⟩ := bind_ok _ _ _ h2
              have hc := carve_bound _ _ _ _ _ _ _ h1
              have hm := ihd _ _ _ _ _ _ h3
              have := ihs _ _ _ _ _ _ _ _ h4
              simp only [List.length_drop] at this hc
              omega

/-- **(B)** a successful decodeU never claims more bytes than it was given -/
theorem decode_bound (fuel : Nat) (c : Codec) (b : Bytes) (cur : Val) (fl : Flags) (v : Val) (n : Nat)
    (h : decodeU fuel c b cur fl = .ok (v, n)) : n ≤ b.length :=
  (decode_bound_aux fuel).1 c b cur fl v n h

/-- **(B)** the struct loop only ends successfully at the end of its buffer: the returned offset is exactly the
start offset plus the number of bytes it was given -/
theorem decodeStruct_consumes_all (fuel : Nat) (fs : CFields) (b : Bytes) (lenB : Nat) (vs : Vals) (fl : Flags)
    (off : Nat) (vs' : Vals) (n : Nat) (h : decodeStructU fuel fs b lenB vs fl off = .ok (vs', n)) :
    n = off + b.length :=
  (decode_bound_aux fuel).2 fs b lenB vs fl off vs' n h

theorem decode_struct_consumes_all (fuel : Nat) (fs : CFields) (b : Bytes) (cur : Val) (fl : Flags) (v : Val)
    (n : Nat) (h : decodeU fuel (.struct fs) b cur fl = .ok (v, n)) : n = b.length := by
  cases fuel with
  | zero => simp [decodeU] at h
  | succ fuel =>
    simp only [decodeU] at h
    split at h
    · obtain ⟨⟨u, k⟩, h1, h2⟩ := bind_ok _ _ _ h
      have := decodeStruct_consumes_all _ _ _ _ _ _ _ _ _ h1
      simp only [Res.ok.injEq, Prod.mk.injEq] at h2
      omega
    · simp at h

theorem decode_message_toplevel (fuel : Nat) (b : Bytes) (cur : Val) (fl : Flags) (h : fl.toplevel = true) :
    decodeU (fuel + 1) .message b cur fl = .ok (.str b, b.length) := by
  simp [decodeU, h]

/-! ## (C) unknown fields are skipped -/

/-- `t` is exactly one complete varint of value `v`, as accepted by `decodeVarint` (canonical or over-long) -/
def IsVarint (t : Bytes) (v : BitVec 64) : Prop := decodeVarint t = .ok (v, t.length)

theorem isVarint_encode (v : BitVec 64) : IsVarint (encodeVarint v) v := by
  have := Enc.Lemmas.ProtoVarint.decode_encode_varint v []
  simpa [IsVarint] using this

theorem IsVarint.pos {t : Bytes} {v : BitVec 64} (h : IsVarint t v) : 0 < t.length :=
  (decodeVarint_consumes t v _ h).1

theorem IsVarint.append {t : Bytes} {v : BitVec 64} (h : IsVarint t v) (rest : Bytes) :
    decodeVarint (t ++ rest) = .ok (v, t.length) := decodeVarint_append t rest v _ h

/-- a complete payload for wire type `w`: a varint (0), 8 bytes (1), a length-prefixed chunk (2), 4 bytes (5) -/
inductive IsPayload : Nat → Bytes → Prop
  | varint (p : Bytes) (v : BitVec 64) : IsVarint p v → IsPayload 0 p
  | fixed64 (p : Bytes) : p.length = 8 → IsPayload 1 p
  | varlen (l p : Bytes) (len : BitVec 64) : IsVarint l len → p.length = len.toNat → IsPayload 2 (l ++ p)
  | fixed32 (p : Bytes) : p.length = 4 → IsPayload 5 p

/-- one complete well-formed field record carrying field number `number`: tag varint followed by its payload -/
inductive IsRecord (number : Nat) : Bytes → Prop
  | mk (t p : Bytes) (tag : BitVec 64) : IsVarint t tag → (tag >>> 3).toNat = number →
      IsPayload (tag &&& 7#64).toNat p → IsRecord number (t ++ p)

/-- the skip of a complete payload is exactly its length. Side condition: the (weak) length test of the varlen case,
`size > len(b) - skip`, compares against the length `lenB` of the whole struct buffer, so the payload must fit in it. -/
theorem skipUnknown_payload (w : Nat) (p rest : Bytes) (lenB : Nat) (hp : IsPayload w p) (hlen : p.length ≤ lenB) :
    skipUnknown w (p ++ rest) lenB = .ok p.length := by
  cases hp with
  | varint p v hv => simp [skipUnknown, hv.append rest, Res.bind]
  | fixed64 p h8 =>
    have h : ¬ (8 + rest.length < 8) := by omega
    simp [skipUnknown, Res.bind, h8, h]
  | varlen l c len hl hc =>
    have h1 : decodeVarint (l ++ (c ++ rest)) = .ok (len, l.length) := hl.append _
    simp only [List.length_append] at hlen
    have h2 : ¬ (lenB - l.length < len.toNat) := by omega
    simp [skipUnknown, h1, Res.bind, h2, hc]
  | fixed32 p h4 =>
    have h : ¬ (4 + rest.length < 4) := by omega
    simp [skipUnknown, Res.bind, h4, h]

/-- the side condition of `skipUnknown_payload` is sharp for varlen payloads -/
theorem skipUnknown_varlen_short (l c rest : Bytes) (len : BitVec 64) (lenB : Nat) (hl : IsVarint l len)
    (hshort : len.toNat > lenB - l.length) :
    skipUnknown 2 (l ++ c ++ rest) lenB = .err "unexpectedEof" := by
  have h1 : decodeVarint (l ++ (c ++ rest)) = .ok (len, l.length) := hl.append _
  have h2 : lenB - l.length < len.toNat := hshort
  simp [skipUnknown, h1, Res.bind, h2]

/-- **(C)** a complete record whose field number is not declared is skipped: one loop iteration, values untouched,
offset advanced by the record length. `lenB` (the `len(b)` the code compares against) must be at least the record
length – in particular this holds under the loop invariant `lenB = off + (rec ++ rest).length`. -/
theorem decodeStruct_skip_unknown (fuel : Nat) (fs : CFields) (number : Nat) (rec rest : Bytes) (lenB : Nat)
    (vs : Vals) (fl : Flags) (off : Nat) (hlk : lookupField fs number = none) (hrec : IsRecord number rec)
    (hlen : rec.length ≤ lenB) :
    decodeStructU (fuel + 1) fs (rec ++ rest) lenB vs fl off
      = decodeStructU fuel fs rest lenB vs fl (off + rec.length) := by
  obtain ⟨t, p, tag, ht, hnum, hp⟩ := hrec
  have hne : (t ++ p ++ rest).isEmpty = false := by
    have := ht.pos
    cases t with
    | nil => simp at this
    | cons x xs => rfl
  have htag : decodeVarint (t ++ p ++ rest) = .ok (tag, t.length) := by
    rw [List.append_assoc]; exact ht.append _
  have hdrop : (t ++ p ++ rest).drop t.length = p ++ rest := by
    rw [List.append_assoc]; simp
  simp only [List.length_append] at hlen
  rw [decodeStruct_succ]
  simp only [hne, htag, hnum, hlk, hdrop, Bool.false_eq_true, if_false]
  rw [skipUnknown_payload _ p rest lenB hp (by omega)]
  simp [Res.bind, Nat.add_assoc]

/-! ### the loop only depends on `lenB - offset` -/

/-- under the loop invariant (`b` is a suffix of a buffer of length `lenB`) the weak varlen test of the skip path is
subsumed by the final `offset + skip ≤ len(b)` test, so the skip does not depend on `lenB` -/
theorem skipUnknown_lenB (w : Nat) (b : Bytes) (lenB lenB' : Nat) (h : b.length ≤ lenB) (h' : b.length ≤ lenB') :
    skipUnknown w b lenB = skipUnknown w b lenB' := by
  unfold skipUnknown
  split
  · rfl
  · split
    · cases hd : decodeVarint b with
      | err e => rfl
      | panic e => rfl
      | ok a =>
        obtain ⟨sz, n⟩ := a
        simp only [Res.bind]
        by_cases hfit : n + sz.toNat ≤ b.length
        · have h1 : ¬ sz.toNat > lenB - n := by omega
          have h2 : ¬ sz.toNat > lenB' - n := by omega
          simp [h1, h2]
        · by_cases h1 : sz.toNat > lenB - n <;> by_cases h2 : sz.toNat > lenB' - n <;> simp [h1, h2, hfit]
    · rfl

theorem carve_shift (w : Nat) (b1 : Bytes) (lenB off n d : Nat) (emb : Bool) :
    carve w b1 (lenB + d) (off + d + n) emb = carve w b1 lenB (off + n) emb := by
  have : ∀ k, lenB + d - (off + d + n + k) = lenB - (off + n + k) := by intro k; omega
  simp only [carve, this]

/-- add `d` to the returned offset -/
def shift (d : Nat) : Res (Vals × Nat) → Res (Vals × Nat)
  | .ok (vs, n) => .ok (vs, n + d)
  | .err e => .err e
  | .panic e => .panic e

/-- translating the window: the same bytes seen `d` bytes further into a buffer that is `d` bytes longer decodeU to the
same values and errors; the returned offset is `d` larger. Needs the loop invariant `off + len(b) ≤ lenB`. -/
theorem decodeStruct_shift (fuel : Nat) : ∀ (fs : CFields) (b : Bytes) (lenB : Nat) (vs : Vals) (fl : Flags)
    (off d : Nat), off + b.length ≤ lenB →
    decodeStructU fuel fs b (lenB + d) vs fl (off + d) = shift d (decodeStructU fuel fs b lenB vs fl off) := by
  induction fuel with
  | zero => intros; simp [decodeStructU, shift]
  | succ fuel ih =>
    intro fs b lenB vs fl off d hinv
    rw [decodeStruct_succ, decodeStruct_succ]
    by_cases hb : b.isEmpty = true
    · simp [hb, shift]
    · simp only [hb, Bool.false_eq_true, ↓reduceIte]
      cases hd : decodeVarint b with
      | err e => simp [shift]
      | panic e => simp [shift]
      | ok a =>
        obtain ⟨tag, n⟩ := a
        have hn := decodeVarint_consumes b tag n hd
        simp only []
        cases hlk : lookupField fs (tag >>> 3).toNat with
        | none =>
          simp only []
          rw [skipUnknown_lenB _ _ (lenB + d) lenB (by simp; omega) (by simp; omega)]
          cases hs : skipUnknown (tag &&& 7#64).toNat (b.drop n) lenB with
          | err e => simp [Res.bind, shift]
          | panic e => simp [Res.bind, shift]
          | ok skip =>
            have := skipUnknown_bound _ _ _ _ hs
            simp only [Res.bind]
            have e : off + d + n + skip = (off + n + skip) + d := by omega
            rw [e]
            exact ih _ _ _ _ _ _ _ (by simp at this ⊢; omega)
        | some r =>
          obtain ⟨i, emb, zz, c⟩ := r
          simp only []
          by_cases hw : ((tag &&& 7#64).toNat != c.wire.num) = true
          · simp only [hw, ↓reduceIte, shift]
          · simp only [hw, Bool.false_eq_true, ↓reduceIte]
            rw [carve_shift]
            cases hc : carve (tag &&& 7#64).toNat (b.drop n) lenB (off + n) emb with
            | err e => simp [Res.bind, shift]
            | panic e => simp [Res.bind, shift]
            | ok a =>
              obtain ⟨data, pre⟩ := a
              have hcb := carve_bound _ _ _ _ _ _ _ hc
              simp only [Res.bind]
              cases hdec : decodeU fuel c data (Vals.get vs i) { fl with zigzag := fl.zigzag || zz } with
              | err e => simp [shift]
              | panic e => simp [shift]
              | ok a =>
                obtain ⟨v, m⟩ := a
                have hm := decode_bound _ _ _ _ _ _ _ hdec
                simp only []
                have e : off + d + n + pre + m = (off + n + pre + m) + d := by omega
                rw [e]
                exact ih _ _ _ _ _ _ _ (by simp at hcb ⊢; omega)

/-- add `d` to the number of consumed bytes -/
def shiftV (d : Nat) : Res (Val × Nat) → Res (Val × Nat)
  | .ok (v, n) => .ok (v, n + d)
  | .err e => .err e
  | .panic e => .panic e

/-- **(C), struct level**: an undeclared complete record in FRONT of a struct body changes neither the decoded
value nor the error; only the consumed count grows by the record length (and one more unit of fuel is used). -/
theorem decode_struct_skip_front (fuel : Nat) (fs : CFields) (number : Nat) (rec body : Bytes) (cur : Val)
    (fl : Flags) (hlk : lookupField fs number = none) (hrec : IsRecord number rec) :
    decodeU (fuel + 2) (.struct fs) (rec ++ body) cur fl
      = shiftV rec.length (decodeU (fuel + 1) (.struct fs) body cur fl) := by
  simp only [decodeU]
  cases cur with
  | struct vs =>
    simp only []
    rw [decodeStruct_skip_unknown fuel fs number rec body _ vs _ 0 hlk hrec (by simp)]
    have e : (rec ++ body).length = body.length + rec.length := by simp; omega
    rw [e, decodeStruct_shift fuel fs body body.length vs _ 0 rec.length (by simp)]
    cases decodeStructU fuel fs body body.length vs { fl with toplevel := false } 0 with
    | ok a => obtain ⟨vs', n⟩ := a; rfl
    | err e => rfl
    | panic e => rfl
  | _ => rfl

/-! ## (D) fuel -/

theorem height_all (fs : CFields) (H : Nat) (h : CFields.height fs ≤ H) :
    CFields.All (fun c => Codec.height c ≤ H) fs := by
  match fs with
  | .nil => trivial
  | .cons n emb rep zz c rest =>
    simp only [CFields.height] at h
    exact ⟨by omega, height_all rest H (by omega)⟩

theorem bind_ne_fuel {α β : Type} (r : Res α) (f : α → Res β)
    (hr : r ≠ .err "fuel") (hf : ∀ a, r = .ok a → f a ≠ .err "fuel") : r.bind f ≠ .err "fuel" := by
  cases r with
  | ok a => exact hf a rfl
  | err e => simpa [Res.bind] using hr
  | panic e => simp [Res.bind]

theorem skipUnknown_ne_fuel (w : Nat) (b : Bytes) (lenB : Nat) : skipUnknown w b lenB ≠ .err "fuel" := by
  unfold skipUnknown
  apply bind_ne_fuel
  · split
    · exact bind_ne_fuel _ _ (decodeVarint_ne_fuel b) (by intro a _; simp)
    · split
      · refine bind_ne_fuel _ _ (decodeVarint_ne_fuel b) ?_
        intro a _; split
        split <;> simp
      · repeat' split
        all_goals simp
  · intro a _; split <;> simp

theorem carve_ne_fuel (w : Nat) (b1 : Bytes) (lenB off1 : Nat) (emb : Bool) :
    carve w b1 lenB off1 emb ≠ .err "fuel" := by
  unfold carve
  split
  · exact bind_ne_fuel _ _ (decodeVarint_ne_fuel b1) (by intro a _; simp)
  · split
    · refine bind_ne_fuel _ _ (decodeVarint_ne_fuel b1) ?_
      intro a _; split
      split
      · simp
      · split <;> simp
    · repeat' split
      all_goals simp

theorem decode_fuel_aux (fuel : Nat) :
    (∀ c b cur fl, b.length + Codec.height c ≤ fuel → decodeU fuel c b cur fl ≠ .err "fuel") ∧
    (∀ fs b lenB vs fl off, b.length + CFields.height fs + 1 ≤ fuel →
      decodeStructU fuel fs b lenB vs fl off ≠ .err "fuel") := by
  induction fuel with
  | zero =>
    constructor
    · intro c b cur fl h
      cases c <;> simp [Codec.height] at h
    · intro fs b lenB vs fl off h; omega
  | succ fuel ih =>
    obtain ⟨ihd, ihs⟩ := ih
    constructor
    · intro c b cur fl hf
      cases c <;> simp only [decodeU]
      all_goals first
        | (refine bind_ne_fuel _ _ (decodeVarint_ne_fuel b) ?_; intro ⟨u, n⟩ _; simp; done)
        | (refine bind_ne_fuel _ _ (decodeVarint_ne_fuel b) ?_; intro ⟨u, n⟩ _; split <;> simp; done)
        | (refine bind_ne_fuel _ _ (decodeVarlen_ne_fuel b) ?_; intro ⟨u, n⟩ _; simp; done)
        | (refine bind_ne_fuel _ _ (decodeVarlen_ne_fuel b) ?_; intro ⟨u, n⟩ _; split <;> simp; done)
        | (split <;> simp; done)
        | skip
      case int32 =>
        split
        · split <;> simp
        · rename_i e h; intro h'; simp only [Res.err.injEq] at h'; subst h'; exact decodeVarint_ne_fuel b h
        · simp
      case message =>
        split
        · simp
        · refine bind_ne_fuel _ _ (decodeVarlen_ne_fuel b) ?_; intro a _; simp
      case ptr c' =>
        simp only [Codec.height] at hf
        refine bind_ne_fuel _ _ (ihd c' b _ fl (by omega)) ?_
        intro a _; simp
      case struct fs =>
        simp only [Codec.height] at hf
        split
        · refine bind_ne_fuel _ _ (ihs fs b _ _ _ _ (by omega)) ?_
          intro a _; simp
        · simp
      case slice elem number wire emb =>
        simp only [Codec.height] at hf
        split
        · simp
        · rename_i e h; intro h'; simp only [Res.err.injEq] at h'; subst h'
          exact ihd elem b _ _ (by omega) h
        · simp
      case map number k v kEmb vEmb entry =>
        simp only [Codec.height] at hf
        split
        · simp
        · split
          · simp
          · simp
          · rename_i e h; intro h'; simp only [Res.err.injEq] at h'; subst h'
            exact ihd entry b _ _ (by omega) h
          · simp
      case unsupported => simp
    · intro fs b lenB vs fl off hf
      rw [decodeStruct_succ]
      split
      · simp
      · split
        · rename_i e h; intro h'; simp only [Res.err.injEq] at h'; subst h'; exact decodeVarint_ne_fuel b h
        · simp
        · rename_i tag n htag
          have hn := decodeVarint_consumes b tag n htag
          split
          · refine bind_ne_fuel _ _ (skipUnknown_ne_fuel _ _ _) ?_
            intro skip _
            exact ihs _ _ _ _ _ _ (by simp only [List.length_drop]; omega)
          · rename_i i emb zz c hlk
            have hch : Codec.height c ≤ CFields.height fs :=
              lookupField_all (fun c => Codec.height c ≤ CFields.height fs) fs _
                (height_all fs _ (Nat.le_refl _)) i emb zz c hlk
            split
            · simp
            · refine bind_ne_fuel _ _ (carve_ne_fuel _ _ _ _ _) ?_
              intro ⟨data, pre⟩ hc
              have hcb := carve_bound _ _ _ _ _ _ _ hc
              simp only [List.length_drop] at hcb
              refine bind_ne_fuel _ _ (ihd c _ _ _ (by omega)) ?_
              intro ⟨v, m⟩ _
              exact ihs _ _ _ _ _ _ (by simp only [List.length_drop]; omega)

/-- **(D)** fuel `len(b) + height(c)` is never exhausted (no `Supported` hypothesis needed) -/
theorem decode_ne_fuel (fuel : Nat) (c : Codec) (b : Bytes) (cur : Val) (fl : Flags)
    (h : b.length + Codec.height c ≤ fuel) : decodeU fuel c b cur fl ≠ .err "fuel" :=
  (decode_fuel_aux fuel).1 c b cur fl h

theorem decodeStruct_ne_fuel (fuel : Nat) (fs : CFields) (b : Bytes) (lenB : Nat) (vs : Vals) (fl : Flags)
    (off : Nat) (h : b.length + CFields.height fs + 1 ≤ fuel) :
    decodeStructU fuel fs b lenB vs fl off ≠ .err "fuel" :=
  (decode_fuel_aux fuel).2 fs b lenB vs fl off h

/-- the fuel `2 * len(b) + 8 + height(c)` of `unmarshalU` is never exhausted -/
theorem unmarshal_fuel_ok (c : Codec) (b : Bytes) (cur : Val) (fl : Flags) :
    decodeU (2 * b.length + 8 + Codec.height c) c b cur fl ≠ .err "fuel" :=
  decode_ne_fuel _ c b cur fl (by omega)

/-! ### more fuel never changes a result that did not run out of fuel -/

theorem bind_mono {α β : Type} (r r' : Res α) (f f' : α → Res β)
    (hr : r ≠ .err "fuel" → r' = r) (hf : ∀ a, r = .ok a → f a ≠ .err "fuel" → f' a = f a)
    (h : r.bind f ≠ .err "fuel") : r'.bind f' = r.bind f := by
  cases r with
  | ok a => rw [hr (by simp)]; exact hf a rfl h
  | err e => rw [hr (by simpa [Res.bind] using h)]; rfl
  | panic e => rw [hr (by simp)]; rfl

theorem decode_mono_aux (fuel : Nat) :
    (∀ fuel' c b cur fl, fuel ≤ fuel' → decodeU fuel c b cur fl ≠ .err "fuel" →
      decodeU fuel' c b cur fl = decodeU fuel c b cur fl) ∧
    (∀ fuel' fs b lenB vs fl off, fuel ≤ fuel' → decodeStructU fuel fs b lenB vs fl off ≠ .err "fuel" →
      decodeStructU fuel' fs b lenB vs fl off = decodeStructU fuel fs b lenB vs fl off) := by
  induction fuel with
  | zero => simp [decodeU, decodeStructU]
  | succ fuel ih =>
    obtain ⟨ihd, ihs⟩ := ih
    constructor
    · intro fuel' c b cur fl hle h
      cases fuel' with
      | zero => omega
      | succ k =>
        cases c <;> simp only [decodeU] at h ⊢
        case ptr c' =>
          exact bind_mono _ _ _ _ (fun hne => ihd k c' b _ fl (by omega) hne) (fun a _ _ => rfl) h
        case struct fs =>
          cases cur with
          | struct vs =>
            exact bind_mono _ _ _ _ (fun hne => ihs k fs b _ vs _ 0 (by omega) hne) (fun a _ _ => rfl) h
          | _ => rfl
        case slice elem number wire emb =>
          have hne : decodeU fuel elem b (zeroOfCodec elem) {} ≠ .err "fuel" := by
            intro hc; rw [hc] at h; exact h rfl
          rw [ihd k elem _ _ _ (by omega) hne]
        case map number kc vc kEmb vEmb entry =>
          by_cases hb : b.isEmpty = true
          · simp only [hb, if_true]
          · simp only [hb, Bool.false_eq_true, ↓reduceIte] at h ⊢
            have hne : decodeU fuel entry b (zeroOfCodec entry) {} ≠ .err "fuel" := by
              intro hc; rw [hc] at h; exact h rfl
            rw [ihd k entry _ _ _ (by omega) hne]
    · intro fuel' fs b lenB vs fl off hle h
      cases fuel' with
      | zero => omega
      | succ k =>
        rw [decodeStruct_succ] at h
        rw [decodeStruct_succ, decodeStruct_succ]
        by_cases hb : b.isEmpty = true
        · simp only [hb, if_true]
        · simp only [hb, Bool.false_eq_true, ↓reduceIte] at h ⊢
          cases hd : decodeVarint b with
          | err e => rfl
          | panic e => rfl
          | ok a =>
            obtain ⟨tag, n⟩ := a
            rw [hd] at h
            simp only [] at h ⊢
            cases hlk : lookupField fs (tag >>> 3).toNat with
            | none =>
              simp only [hlk] at h ⊢
              refine bind_mono _ _ _ _ (fun _ => rfl) ?_ h
              intro skip _ h2
              exact ihs k _ _ _ _ _ _ (by omega) h2
            | some r =>
              obtain ⟨i, emb, zz, c⟩ := r
              simp only [hlk] at h ⊢
              by_cases hw : ((tag &&& 7#64).toNat != c.wire.num) = true
              · simp only [hw, ↓reduceIte]
              · simp only [hw, Bool.false_eq_true, ↓reduceIte] at h ⊢
                refine bind_mono _ _ _ _ (fun _ => rfl) ?_ h
                intro ⟨data, pre⟩ _ h2
                refine bind_mono _ _ _ _ (fun hne => ihd k c _ _ _ (by omega) hne) ?_ h2
                intro ⟨v, m⟩ _ h3
                exact ihs k _ _ _ _ _ _ (by omega) h3

/-- a result that is not the fuel error is stable under adding fuel -/
theorem decode_mono (fuel fuel' : Nat) (c : Codec) (b : Bytes) (cur : Val) (fl : Flags) (hle : fuel ≤ fuel')
    (h : decodeU fuel c b cur fl ≠ .err "fuel") : decodeU fuel' c b cur fl = decodeU fuel c b cur fl :=
  (decode_mono_aux fuel).1 fuel' c b cur fl hle h

theorem decodeStruct_mono (fuel fuel' : Nat) (fs : CFields) (b : Bytes) (lenB : Nat) (vs : Vals) (fl : Flags)
    (off : Nat) (hle : fuel ≤ fuel') (h : decodeStructU fuel fs b lenB vs fl off ≠ .err "fuel") :
    decodeStructU fuel' fs b lenB vs fl off = decodeStructU fuel fs b lenB vs fl off :=
  (decode_mono_aux fuel).2 fuel' fs b lenB vs fl off hle h

/-- any two sufficient amounts of fuel give the same result -/
theorem decode_fuel_irrelevant (f1 f2 : Nat) (c : Codec) (b : Bytes) (cur : Val) (fl : Flags)
    (h1 : b.length + Codec.height c ≤ f1) (h2 : b.length + Codec.height c ≤ f2) :
    decodeU f1 c b cur fl = decodeU f2 c b cur fl := by
  rw [decode_mono _ f1 c b cur fl h1 (decode_ne_fuel _ c b cur fl (Nat.le_refl _)),
    decode_mono _ f2 c b cur fl h2 (decode_ne_fuel _ c b cur fl (Nat.le_refl _))]

/-! ### `unmarshalU` level -/

theorem decode_struct_empty (fuel : Nat) (fs : CFields) (vs : Vals) (fl : Flags) :
    decodeU (fuel + 2) (.struct fs) [] (.struct vs) fl = .ok (.struct vs, 0) := by
  simp [decodeU, decodeStructU, Res.bind]

/-- **(C), `Unmarshal` level**: for a struct type, prepending a complete record with an undeclared field number to
the input does not change the result of `unmarshalU` (value or error). -/
theorem unmarshal_skip_front_gen (t : Ty) (fs : CFields) (vs : Vals) (number : Nat) (rec body : Bytes)
    (hc : codecOf t = .struct fs) (hz : zeroOf t = .struct vs)
    (hlk : lookupField fs number = none) (hrec : IsRecord number rec) :
    unmarshalU t (rec ++ body) = unmarshalU t body := by
  obtain ⟨tb, p, tag, ht, _, _⟩ := id hrec
  have hpos : 0 < (tb ++ p).length := by have := ht.pos; simp; omega
  generalize tb ++ p = rec at *
  have hne : (rec ++ body).isEmpty = false := by
    cases rec with
    | nil => simp at hpos
    | cons x xs => rfl
  unfold unmarshalU
  rw [hc, hz]
  simp only [hne, Bool.false_eq_true, ↓reduceIte]
  have hF : 2 * (rec ++ body).length + 8 + Codec.height (.struct fs)
      = (Codec.height (.struct fs) + 2 * rec.length + 2 * body.length + 6) + 2 := by
    simp only [List.length_append]; omega
  rw [hF, decode_struct_skip_front _ fs number rec body _ _ hlk hrec]
  by_cases hb : body = []
  · subst hb
    rw [decode_struct_empty]
    simp [shiftV]
  · have hbe : body.isEmpty = false := by simpa using hb
    simp only [hbe, Bool.false_eq_true, ↓reduceIte]
    rw [decode_fuel_irrelevant (Codec.height (.struct fs) + 2 * rec.length + 2 * body.length + 6 + 1)
      (2 * body.length + 8 + Codec.height (.struct fs)) (.struct fs) body
      (.struct vs) _ (by omega) (by omega)]
    cases decodeU (2 * body.length + 8 + Codec.height (.struct fs)) (.struct fs) body (.struct vs)
        { toplevel := true } with
    | ok a =>
      obtain ⟨v, n⟩ := a
      simp only [shiftV, List.length_append]
      by_cases hn : n < body.length
      · have : n + rec.length < rec.length + body.length := by omega
        simp [hn, this]
      · have : ¬ n + rec.length < rec.length + body.length := by omega
        simp [hn, this]
    | err e => rfl
    | panic e => rfl

theorem unmarshal_skip_front (Fs : Fields) (number : Nat) (rec body : Bytes)
    (hlk : lookupField (fieldsOf 1 Fs) number = none) (hrec : IsRecord number rec) :
    unmarshalU (.struct Fs) (rec ++ body) = unmarshalU (.struct Fs) body :=
  unmarshal_skip_front_gen (.struct Fs) (fieldsOf 1 Fs) (zeroFields Fs) number rec body
    (by simp [codecOf]) (by simp [zeroOf]) hlk hrec

/-! ## bonus: concatenation (split) theorem and insertion anywhere -/

/-- a successful skip stays the same skip when more bytes follow -/
theorem skipUnknown_append (w : Nat) (b rest : Bytes) (lenB lenB' skip : Nat)
    (h : skipUnknown w b lenB = .ok skip) (hl : b.length ≤ lenB') :
    skipUnknown w (b ++ rest) lenB' = .ok skip := by
  unfold skipUnknown at h ⊢
  obtain ⟨a, h1, h2⟩ := bind_ok _ _ _ h
  have hs : a = skip ∧ skip ≤ b.length := by
    split at h2
    · rename_i hle; simp only [Res.ok.injEq] at h2; subst h2; exact ⟨rfl, hle⟩
    · simp at h2
  obtain ⟨rfl, hsk⟩ := hs
  have hfin : a ≤ (b ++ rest).length := by simp only [List.length_append]; omega
  by_cases h0 : (w == 0) = true
  · simp only [h0, if_true] at h1 ⊢
    obtain ⟨⟨u, k⟩, h3, h4⟩ := bind_ok _ _ _ h1
    simp only [Res.ok.injEq] at h4; subst h4
    rw [decodeVarint_append b rest u k h3]
    simp only [Res.bind, hfin, if_true]
  · by_cases h2w : (w == 2) = true
    · simp only [h0, h2w, if_true, Bool.false_eq_true, if_false] at h1 ⊢
      obtain ⟨⟨sz, k⟩, h3, h4⟩ := bind_ok _ _ _ h1
      simp only at h4
      split at h4
      · simp at h4
      · simp only [Res.ok.injEq] at h4; subst h4
        rw [decodeVarint_append b rest sz k h3]
        have : ¬ sz.toNat > lenB' - k := by omega
        simp only [Res.bind, this, if_false, hfin, if_true]
    · by_cases h5 : (w == 5) = true
      · simp only [h0, h2w, h5, if_true, Bool.false_eq_true, if_false] at h1 ⊢
        split at h1
        · simp at h1
        · simp only [Res.ok.injEq] at h1; subst h1
          have : ¬ (b ++ rest).length < 4 := by simp only [List.length_append]; omega
          simp only [Res.bind, this, if_false, hfin, if_true]
      · by_cases h1w : (w == 1) = true
        · simp only [h0, h2w, h5, h1w, if_true, Bool.false_eq_true, if_false] at h1 ⊢
          split at h1
          · simp at h1
          · simp only [Res.ok.injEq] at h1; subst h1
            have : ¬ (b ++ rest).length < 8 := by simp only [List.length_append]; omega
            simp only [Res.bind, this, if_false, hfin, if_true]
        · simp [h0, h2w, h5, h1w] at h1

/-- a successful carve stays the same when more bytes follow, provided `lenB` is the true end of `b1`
(`lenB ≤ off1 + len(b1)`: this is what makes the `l > len(b) - (offset+n)` test protect the slice expression) -/
theorem carve_append (w : Nat) (b1 rest : Bytes) (lenB off1 : Nat) (emb : Bool) (data : Bytes) (pre : Nat)
    (h : carve w b1 lenB off1 emb = .ok (data, pre)) (hl : lenB ≤ off1 + b1.length) :
    carve w (b1 ++ rest) (lenB + rest.length) off1 emb = .ok (data, pre) := by
  unfold carve at h ⊢
  by_cases h0 : (w == 0) = true
  · simp only [h0, if_true] at h ⊢
    obtain ⟨⟨u, k⟩, h3, h4⟩ := bind_ok _ _ _ h
    have hk := decodeVarint_consumes _ _ _ h3
    rw [decodeVarint_append b1 rest u k h3]
    simp only [Res.bind]
    rw [List.take_append_of_le_length hk.2]
    exact h4
  · by_cases h2w : (w == 2) = true
    · simp only [h0, h2w, if_true, Bool.false_eq_true, if_false] at h ⊢
      obtain ⟨⟨l, k⟩, h3, h4⟩ := bind_ok _ _ _ h
      have hk := decodeVarint_consumes _ _ _ h3
      rw [decodeVarint_append b1 rest l k h3]
      simp only [Res.bind]
      simp only at h4
      split at h4
      · simp at h4
      · rename_i hfit
        have : ¬ l.toNat > lenB + rest.length - (off1 + k) := by omega
        simp only [this, if_false]
        rw [List.drop_append_of_le_length hk.2,
          List.take_append_of_le_length (by simp only [List.length_drop]; omega),
          List.take_append_of_le_length (by omega : k + l.toNat ≤ b1.length)]
        exact h4
    · by_cases h5 : (w == 5) = true
      · simp only [h0, h2w, h5, if_true, Bool.false_eq_true, if_false] at h ⊢
        split at h
        · simp at h
        · have : ¬ (b1 ++ rest).length < 4 := by simp only [List.length_append]; omega
          simp only [this, if_false]
          rw [List.take_append_of_le_length (by omega)]
          exact h
      · by_cases h1w : (w == 1) = true
        · simp only [h0, h2w, h5, h1w, if_true, Bool.false_eq_true, if_false] at h ⊢
          split at h
          · simp at h
          · have : ¬ (b1 ++ rest).length < 8 := by simp only [List.length_append]; omega
            simp only [this, if_false]
            rw [List.take_append_of_le_length (by omega)]
            exact h
        · simp [h0, h2w, h5, h1w] at h

/-- **split theorem** (protobuf "concatenation = merge" for the struct loop): if `pre` on its own is decoded
successfully to `vs1` (so it is a sequence of complete field records), then decoding `pre ++ rest` is decoding
`rest` starting from `vs1` at offset `L = off + len(pre)`. `r ≠ err "fuel"` only says `f2` was enough for `rest`. -/
theorem decodeStruct_append (f1 : Nat) : ∀ (fs : CFields) (pre rest : Bytes) (L : Nat) (vs : Vals) (fl : Flags)
    (off : Nat) (vs1 : Vals) (n1 f2 : Nat) (r : Res (Vals × Nat)),
    L = off + pre.length →
    decodeStructU f1 fs pre L vs fl off = .ok (vs1, n1) →
    decodeStructU f2 fs rest (L + rest.length) vs1 fl L = r →
    r ≠ .err "fuel" →
    decodeStructU (f1 + f2) fs (pre ++ rest) (L + rest.length) vs fl off = r := by
  induction f1 with
  | zero => intros; simp_all [decodeStructU]
  | succ f1 ih =>
    intro fs pre rest L vs fl off vs1 n1 f2 r hL h hr hne
    rw [decodeStruct_succ] at h
    by_cases hb : pre.isEmpty = true
    · simp only [hb, if_true, Res.ok.injEq, Prod.mk.injEq] at h
      have hpre : pre = [] := by simpa using hb
      subst hpre
      obtain ⟨rfl, _⟩ := h
      simp only [List.length_nil, Nat.add_zero] at hL
      subst hL
      rw [List.nil_append, ← hr]
      exact decodeStruct_mono f2 _ _ _ _ _ _ _ (by omega) (by rw [hr]; exact hne)
    · simp only [hb, Bool.false_eq_true, ↓reduceIte] at h
      have hne' : (pre ++ rest).isEmpty = false := by
        cases pre with
        | nil => simp at hb
        | cons x xs => rfl
      cases hd : decodeVarint pre with
      | err e => rw [hd] at h; simp at h
      | panic e => rw [hd] at h; simp at h
      | ok a =>
        obtain ⟨tag, n⟩ := a
        rw [hd] at h
        simp only [] at h
        have hn := decodeVarint_consumes pre tag n hd
        have e : f1 + 1 + f2 = (f1 + f2) + 1 := by omega
        rw [e, decodeStruct_succ]
        simp only [hne', Bool.false_eq_true, ↓reduceIte, decodeVarint_append pre rest tag n hd,
          List.drop_append_of_le_length hn.2]
        cases hlk : lookupField fs (tag >>> 3).toNat with
        | none =>
          rw [hlk] at h
          simp only [] at h ⊢
          obtain ⟨skip, h1, h2⟩ := bind_ok _ _ _ h
          have hsb := skipUnknown_bound _ _ _ _ h1
          rw [skipUnknown_append _ _ rest L (L + rest.length) skip h1
            (by simp only [List.length_drop] at hsb ⊢; omega)]
          simp only [Res.bind, List.drop_append_of_le_length hsb]
          exact ih fs _ rest L vs fl _ vs1 n1 f2 r (by simp only [List.length_drop] at hsb ⊢; omega) h2 hr hne
        | some x =>
          obtain ⟨i, emb, zz, c⟩ := x
          rw [hlk] at h
          simp only [] at h ⊢
          by_cases hw : ((tag &&& 7#64).toNat != c.wire.num) = true
          · simp only [hw, ↓reduceIte] at h
            cases h
          · simp only [hw, Bool.false_eq_true, ↓reduceIte] at h ⊢
            obtain ⟨⟨data, pr⟩, h1, h2⟩ := bind_ok _ _ _ h
            obtain ⟨⟨v, m⟩, h3, h4⟩ := bind_ok _ _ _ h2
            have hcb := carve_bound _ _ _ _ _ _ _ h1
            have hm : m ≤ data.length := decode_bound _ _ _ _ _ _ _ h3
            rw [carve_append _ _ rest L _ emb data pr h1 (by simp only [List.length_drop]; omega)]
            simp only [Res.bind]
            rw [decode_mono f1 (f1 + f2) c data _ _ (by omega) (by rw [h3]; simp), h3]
            simp only []
            rw [List.drop_append_of_le_length (by omega)]
            exact ih fs _ rest L _ fl _ vs1 n1 f2 r (by simp only [List.length_drop] at hcb ⊢; omega) h4 hr hne

theorem shift_ne_fuel (d : Nat) (r : Res (Vals × Nat)) (h : r ≠ .err "fuel") : shift d r ≠ .err "fuel" := by
  cases r with
  | ok a => obtain ⟨vs, n⟩ := a; simp [shift]
  | err e => simpa [shift] using h
  | panic e => simp [shift]

/-- **(C), anywhere, loop level**: if the bytes `pre` before the insertion point are themselves a successfully decoded
sequence of fields, an undeclared complete record inserted between `pre` and `rest` is ignored. -/
theorem decodeStruct_skip_anywhere (f1 f2 : Nat) (fs : CFields) (number : Nat) (pre rec rest : Bytes)
    (vs vs1 : Vals) (fl : Flags) (n1 : Nat)
    (hlk : lookupField fs number = none) (hrec : IsRecord number rec)
    (hpre : decodeStructU f1 fs pre pre.length vs fl 0 = .ok (vs1, n1))
    (hfuel : decodeStructU f2 fs rest (pre.length + rest.length) vs1 fl pre.length ≠ .err "fuel") :
    decodeStructU (f1 + (f2 + 1)) fs (pre ++ (rec ++ rest)) (pre.length + (rec ++ rest).length) vs fl 0
      = shift rec.length (decodeStructU (f1 + f2) fs (pre ++ rest) (pre.length + rest.length) vs fl 0) := by
  have hR := decodeStruct_append f1 fs pre rest pre.length vs fl 0 vs1 n1 f2 _ (by omega) hpre rfl hfuel
  rw [hR]
  have h1 : decodeStructU (f2 + 1) fs (rec ++ rest) (pre.length + (rec ++ rest).length) vs1 fl pre.length
      = shift rec.length (decodeStructU f2 fs rest (pre.length + rest.length) vs1 fl pre.length) := by
    rw [decodeStruct_skip_unknown f2 fs number rec rest _ vs1 fl _ hlk hrec
      (by simp only [List.length_append]; omega)]
    have e : pre.length + (rec ++ rest).length = (pre.length + rest.length) + rec.length := by
      simp only [List.length_append]; omega
    rw [e]
    exact decodeStruct_shift f2 fs rest _ vs1 fl pre.length rec.length (Nat.le_refl _)
  exact decodeStruct_append f1 fs pre (rec ++ rest) pre.length vs fl 0 vs1 n1 (f2 + 1) _ (by omega) hpre h1
    (shift_ne_fuel _ _ hfuel)

theorem decode_struct_succ (f : Nat) (fs : CFields) (b : Bytes) (vs : Vals) (fl : Flags) :
    decodeU (f + 1) (.struct fs) b (.struct vs) fl
      = (decodeStructU f fs b b.length vs { fl with toplevel := false } 0).bind
          fun (x : Vals × Nat) => .ok (.struct x.1, x.2) := by
  simp only [decodeU]

theorem shiftV_bind (d : Nat) (r : Res (Vals × Nat)) :
    shiftV d (r.bind fun (x : Vals × Nat) => .ok (.struct x.1, x.2))
      = (shift d r).bind fun (x : Vals × Nat) => .ok (.struct x.1, x.2) := by
  cases r with
  | ok a => obtain ⟨vs, n⟩ := a; rfl
  | err e => rfl
  | panic e => rfl

/-- with enough fuel, the result equals the result at any fuel that did not run out -/
theorem decode_fuel_eq (fa F : Nat) (c : Codec) (b : Bytes) (cur : Val) (fl : Flags)
    (ha : decodeU fa c b cur fl ≠ .err "fuel") (hF : b.length + Codec.height c ≤ F) :
    decodeU F c b cur fl = decodeU fa c b cur fl := by
  rw [← decode_mono fa (max fa F) c b cur fl (Nat.le_max_left _ _) ha,
    decode_mono F (max fa F) c b cur fl (Nat.le_max_right _ _) (decode_ne_fuel F c b cur fl hF)]

/-- **(C), anywhere, message level**: `pre` decodes successfully on its own (a sequence of complete fields),
`rec` is a complete record with an undeclared number; then `pre ++ rec ++ rest` decodes exactly like `pre ++ rest`
(same value, same error), the consumed count being `len(rec)` larger. `F` is any sufficient fuel. -/
theorem decode_struct_skip_anywhere (F F0 : Nat) (fs : CFields) (number : Nat) (pre rec rest : Bytes)
    (cur : Val) (fl : Flags) (v1 : Val) (n1 : Nat)
    (hlk : lookupField fs number = none) (hrec : IsRecord number rec)
    (hpre : decodeU F0 (.struct fs) pre cur fl = .ok (v1, n1))
    (hF : (pre ++ (rec ++ rest)).length + Codec.height (.struct fs) ≤ F) :
    decodeU F (.struct fs) (pre ++ (rec ++ rest)) cur fl
      = shiftV rec.length (decodeU F (.struct fs) (pre ++ rest) cur fl) := by
  cases F0 with
  | zero => simp [decodeU] at hpre
  | succ f1 =>
    cases cur with
    | struct vs =>
      rw [decode_struct_succ] at hpre
      obtain ⟨⟨vs1, k⟩, hp, _⟩ := bind_ok _ _ _ hpre
      let fl' : Flags := { fl with toplevel := false }
      have hfuel := decodeStruct_ne_fuel (rest.length + CFields.height fs + 1) fs rest
        (pre.length + rest.length) vs1 fl' pre.length (Nat.le_refl _)
      have hR := decodeStruct_append f1 fs pre rest pre.length vs fl' 0 vs1 k _ _ (by omega) hp rfl hfuel
      have key := decodeStruct_skip_anywhere f1 _ fs number pre rec rest vs vs1 fl' k hlk hrec hp hfuel
      -- the two sides at convenient fuel
      have hA : decodeU (f1 + (rest.length + CFields.height fs + 1) + 1) (.struct fs) (pre ++ rest) (.struct vs) fl
          ≠ .err "fuel" := by
        rw [decode_struct_succ, List.length_append, hR]
        exact bind_ne_fuel _ _ hfuel (by intro a _; simp)
      have hB : decodeU (f1 + (rest.length + CFields.height fs + 1 + 1) + 1) (.struct fs) (pre ++ (rec ++ rest))
            (.struct vs) fl
          = shiftV rec.length
              (decodeU (f1 + (rest.length + CFields.height fs + 1) + 1) (.struct fs) (pre ++ rest) (.struct vs) fl) := by
        rw [decode_struct_succ, decode_struct_succ, shiftV_bind, List.length_append (as := pre) (bs := rec ++ rest),
          List.length_append (as := pre) (bs := rest), key]
      have hBne : decodeU (f1 + (rest.length + CFields.height fs + 1 + 1) + 1) (.struct fs) (pre ++ (rec ++ rest))
            (.struct vs) fl ≠ .err "fuel" := by
        rw [hB]
        revert hA
        cases decodeU (f1 + (rest.length + CFields.height fs + 1) + 1) (.struct fs) (pre ++ rest) (.struct vs) fl with
        | ok a => obtain ⟨v, n⟩ := a; simp [shiftV]
        | err e => simp [shiftV]
        | panic e => simp [shiftV]
      rw [decode_fuel_eq _ F _ _ _ _ hBne hF, hB,
        decode_fuel_eq _ F _ _ _ _ hA (by simp only [List.length_append] at hF ⊢; omega)]
    | _ => simp [decodeU] at hpre

/-- **(C), anywhere, `Unmarshal` level**: if `pre` alone unmarshals successfully (it is a sequence of complete
fields), inserting an undeclared complete record after it does not change the result of `unmarshalU`. -/
theorem unmarshal_skip_anywhere_gen (t : Ty) (fs : CFields) (vs : Vals) (number : Nat) (pre rec rest : Bytes)
    (v1 : Val) (hc : codecOf t = .struct fs) (hz : zeroOf t = .struct vs)
    (hlk : lookupField fs number = none) (hrec : IsRecord number rec)
    (hpre : unmarshalU t pre = .ok v1) :
    unmarshalU t (pre ++ (rec ++ rest)) = unmarshalU t (pre ++ rest) := by
  -- `pre` decodes successfully at some fuel
  have hpre' : ∃ F0 v n, decodeU F0 (.struct fs) pre (.struct vs) { toplevel := true } = .ok (v, n) := by
    unfold unmarshalU at hpre
    rw [hc, hz] at hpre
    by_cases hb : pre.isEmpty = true
    · have : pre = [] := by simpa using hb
      subst this
      exact ⟨2, _, _, decode_struct_empty 0 fs vs _⟩
    · simp only [hb, Bool.false_eq_true, ↓reduceIte] at hpre
      cases hd : decodeU (2 * pre.length + 8 + Codec.height (.struct fs)) (.struct fs) pre (.struct vs)
          { toplevel := true } with
      | ok a => exact ⟨_, a.1, a.2, hd⟩
      | err e => rw [hd] at hpre; simp at hpre
      | panic e => rw [hd] at hpre; simp at hpre
  obtain ⟨F0, v0, n0, hp⟩ := hpre'
  have hrpos : 0 < rec.length := by
    obtain ⟨tb, p, tag, ht, _, _⟩ := hrec
    have := ht.pos; simp only [List.length_append]; omega
  have hne : (pre ++ (rec ++ rest)).isEmpty = false := by
    cases pre with
    | nil =>
      cases rec with
      | nil => simp at hrpos
      | cons x xs => rfl
    | cons x xs => rfl
  unfold unmarshalU
  rw [hc, hz]
  simp only [hne, Bool.false_eq_true, ↓reduceIte]
  have hlenB : (pre ++ (rec ++ rest)).length = (pre ++ rest).length + rec.length := by
    simp only [List.length_append]; omega
  rw [decode_struct_skip_anywhere _ F0 fs number pre rec rest _ _ v0 n0 hlk hrec hp (by omega)]
  by_cases hb : pre ++ rest = []
  · have hF : 2 * (pre ++ (rec ++ rest)).length + 8 + Codec.height (.struct fs)
        = (Codec.height (.struct fs) + 2 * (pre ++ (rec ++ rest)).length + 6) + 2 := by omega
    rw [hF, hb, decode_struct_empty]
    simp [shiftV, hlenB, hb]
  · have hbe : (pre ++ rest).isEmpty = false := by simpa using hb
    simp only [hbe, Bool.false_eq_true, ↓reduceIte]
    rw [decode_fuel_irrelevant (2 * (pre ++ (rec ++ rest)).length + 8 + Codec.height (.struct fs))
      (2 * (pre ++ rest).length + 8 + Codec.height (.struct fs)) (.struct fs)
      (pre ++ rest) (.struct vs) _ (by omega) (by omega)]
    cases decodeU (2 * (pre ++ rest).length + 8 + Codec.height (.struct fs)) (.struct fs) (pre ++ rest) (.struct vs)
        { toplevel := true } with
    | ok a =>
      obtain ⟨v, n⟩ := a
      simp only [shiftV, hlenB, Nat.add_lt_add_iff_right]
    | err e => rfl
    | panic e => rfl

theorem unmarshal_skip_anywhere (Fs : Fields) (number : Nat) (pre rec rest : Bytes) (v1 : Val)
    (hlk : lookupField (fieldsOf 1 Fs) number = none) (hrec : IsRecord number rec)
    (hpre : unmarshalU (.struct Fs) pre = .ok v1) :
    unmarshalU (.struct Fs) (pre ++ (rec ++ rest)) = unmarshalU (.struct Fs) (pre ++ rest) :=
  unmarshal_skip_anywhere_gen (.struct Fs) (fieldsOf 1 Fs) (zeroFields Fs) number pre rec rest v1
    (by simp [codecOf]) (by simp [zeroOf]) hlk hrec hpre

/-- `Unmarshal` never reports the model's fuel error: the fuel `2 * len(b) + 8 + height` always suffices
(the only other errors are the ones the Go code returns; `"trailing"` is the only one produced by `unmarshalU` itself) -/
theorem unmarshal_ne_fuel (t : Ty) (b : Bytes) : unmarshalU t b ≠ .err "fuel" := by
  unfold unmarshalU
  split
  · simp
  · split
    · split <;> simp
    · rename_i e hd
      intro h; simp only [Res.err.injEq] at h; subst h
      exact unmarshal_fuel_ok _ _ _ _ hd
    · simp

/-! ## entry point totality, canonical records, several records -/

/-- **(A)** at the entry point: `Unmarshal` into a type whose codec tree has no unsupported kind never panics -/
theorem unmarshal_ne_panic (t : Ty) (b : Bytes) (e : String) (h : Codec.Supported (codecOf t) = true) :
    unmarshalU t b ≠ .panic e := by
  unfold unmarshalU
  split
  · simp
  · split
    · split <;> simp
    · simp
    · rename_i e' hd; exact absurd hd (decode_ne_panic _ _ _ _ _ e' h)

theorem tagWord_spec (number : Nat) (w : Wire) (h : number < 2 ^ 61) :
    (tagWord number w >>> 3).toNat = number ∧ (tagWord number w &&& 7#64).toNat = w.num := by
  have hw : w.num < 8 := by cases w <;> decide
  have hlt : number * 8 + w.num < 2 ^ 64 := by omega
  unfold tagWord
  constructor
  · rw [BitVec.toNat_ushiftRight, BitVec.toNat_ofNat, Nat.mod_eq_of_lt hlt, Nat.shiftRight_eq_div_pow]
    omega
  · rw [BitVec.toNat_and, BitVec.toNat_ofNat, Nat.mod_eq_of_lt hlt]
    show (number * 8 + w.num) &&& (2 ^ 3 - 1) = w.num
    rw [Nat.and_two_pow_sub_one_eq_mod]
    omega

/-- what the encoder writes for a field is a record in the sense of `IsRecord` -/
theorem isRecord_canonical (number : Nat) (w : Wire) (p : Bytes) (h : number < 2 ^ 61)
    (hp : IsPayload w.num p) : IsRecord number (encodeTag number w ++ p) := by
  have hs := tagWord_spec number w h
  exact IsRecord.mk _ p (tagWord number w) (isVarint_encode _) hs.1 (by rw [hs.2]; exact hp)

theorem isPayload_varint (v : BitVec 64) : IsPayload Wire.varint.num (encodeVarint v) :=
  IsPayload.varint _ v (isVarint_encode v)
theorem isPayload_fixed64 (v : BitVec 64) : IsPayload Wire.fixed64.num (le64 v) := IsPayload.fixed64 _ rfl
theorem isPayload_fixed32 (v : BitVec 32) : IsPayload Wire.fixed32.num (le32 v) := IsPayload.fixed32 _ rfl
theorem isPayload_varlen (s : Bytes) (h : s.length < 2 ^ 64) :
    IsPayload Wire.varlen.num (encodeVarint (BitVec.ofNat 64 s.length) ++ s) :=
  IsPayload.varlen _ s _ (isVarint_encode _) (by rw [BitVec.toNat_ofNat, Nat.mod_eq_of_lt h])

/-- a record is never empty -/
theorem IsRecord.pos {number : Nat} {r : Bytes} (h : IsRecord number r) : 0 < r.length := by
  obtain ⟨t, p, tag, ht, _, _⟩ := h
  have := ht.pos; simp only [List.length_append]; omega

/-- several undeclared records in a row are skipped, one loop iteration each -/
theorem decodeStruct_skip_unknowns (fs : CFields) (recs : List Bytes) (rest : Bytes) (lenB : Nat) (vs : Vals)
    (fl : Flags) (hrecs : ∀ r ∈ recs, r.length ≤ lenB ∧ ∃ number, lookupField fs number = none ∧ IsRecord number r) :
    ∀ (fuel off : Nat), decodeStructU (fuel + recs.length) fs (recs.flatten ++ rest) lenB vs fl off
      = decodeStructU fuel fs rest lenB vs fl (off + recs.flatten.length) := by
  induction recs with
  | nil => intro fuel off; simp
  | cons r rs ih =>
    intro fuel off
    obtain ⟨hl, number, hlk, hrec⟩ := hrecs r (by simp)
    have e : fuel + (r :: rs).length = (fuel + rs.length) + 1 := by simp only [List.length_cons]; omega
    rw [e, List.flatten_cons, List.append_assoc,
      decodeStruct_skip_unknown _ fs number r _ lenB vs fl off hlk hrec hl,
      ih (fun r' hr' => hrecs r' (by simp [hr'])) fuel (off + r.length)]
    simp only [List.length_append, Nat.add_assoc]

/-- the `lenB` side condition of `decodeStruct_skip_unknown` cannot be dropped: a 3-byte record
`0a 01 00` (field 1, varlen, one byte) is rejected when the claimed buffer length is 1 -/
example : skipUnknown 2 [1, 0] 1 = .err "unexpectedEof" := by decide

/-! ## the signed fixed-width codecs (`sfixed32` / `sfixed64`)

`Codec.Supported`, `Codec.height` and every theorem of this file quantify over all codecs, so the two constructors are
covered; spelled out for the record. -/
example : Codec.Supported .sfixed32 = true ∧ Codec.Supported .sfixed64 = true := ⟨rfl, rfl⟩
example : Codec.height .sfixed32 = 1 ∧ Codec.height .sfixed64 = 1 := ⟨rfl, rfl⟩
example : Codec.sfixed32.wire = .fixed32 ∧ Codec.sfixed64.wire = .fixed64 := ⟨rfl, rfl⟩
/-- totality: no panic, whatever the bytes -/
example (fuel : Nat) (b : Bytes) (cur : Val) (fl : Flags) (e : String) :
    decodeU fuel .sfixed32 b cur fl ≠ .panic e ∧ decodeU fuel .sfixed64 b cur fl ≠ .panic e :=
  ⟨decode_ne_panic fuel _ b cur fl e rfl, decode_ne_panic fuel _ b cur fl e rfl⟩
/-- bound: a successful decodeU stays inside its bytes -/
example (fuel : Nat) (b : Bytes) (cur : Val) (fl : Flags) (v : Val) (n : Nat)
    (h : decodeU fuel .sfixed64 b cur fl = .ok (v, n)) : n ≤ b.length := decode_bound fuel _ b cur fl v n h
/-- skipping: an sfixed record under an undeclared number is a complete I32 / I64 payload, hence skipped
(`decodeStruct_skip_unknown`, `unmarshal_skip_anywhere`) -/
example (i : Int) : IsPayload Wire.fixed32.num (le32 (BitVec.ofInt 32 i)) ∧ IsPayload Wire.fixed64.num (le64 (BitVec.ofInt 64 i)) :=
  ⟨isPayload_fixed32 _, isPayload_fixed64 _⟩

end Enc.Lemmas.ProtoDecode
