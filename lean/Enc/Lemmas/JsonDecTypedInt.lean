import Enc.Lemmas.JsonDecTypedMain
/-!
# C02, typed targets: the integer leaf WITH a remainder (inside containers)

`decodeInt` (parseInt / parseUint in closed form, `Lemmas/JsonDecInt.lean`) against the `number` branch of `valueS` for an
integer target, at any depth, any remainder: same value and remainder — except that a leading zero followed by a digit
(`01`) is rejected at once by the code while the grammar matches `0` and stops in front of the `1` (`RelE` allows this:
whatever follows in a JSON text fails on that digit).
-/
set_option linter.unusedSimpArgs false
namespace Enc.Lemmas.JsonDecTypedInt
open Enc Enc.Model.Json Enc.Model.Json.Typed Enc.Lemmas.JsonDecTyped Enc.Lemmas.JsonDecTypedPlain
open Enc.Lemmas.JsonDecTypedScalar Enc.Lemmas.JsonDecTypedMain
open Enc.Lemmas.JsonDecInt
open Enc.Spec.Json (digits digit digit19 natOfDigits int frac exp number digits1 ws isWs intValue valueS lit consumed skipS)
open Enc.Lemmas.JsonNumber

/-- the specification of the leaf: the literal of the `number` production, no `.eE`, sign and range -/
def specCore2 (signed : Bool) (lo hi : Int) (b : Bytes) : Option (Int × Bytes) :=
  match number b with
    | none => none
    | some rest =>
      let lit := b.take (b.length - rest.length)
      if lit.any (fun c => c == 0x2e || c == 0x65 || c == 0x45) then none
      else if !signed && lit.head? == some 0x2d then none
      else
        let v := intValue lit
        if lo ≤ v ∧ v ≤ hi then some (v, rest) else none

/-- a parse result with the width test `post` (evaluated on an empty remainder) and its own remainder -/
def lift (post : IR → Option Int) : IR → Option (Int × Bytes)
  | .err => none
  | .ok v r => (post (.ok v [])).map fun i => (i, r)

/-- equal, or the model fails while the specification stops in front of a digit -/
def Rel2 (m s : Option (Int × Bytes)) : Prop := m = s ∨ (m = none ∧ ∃ v r, s = some (v, r) ∧ dig r = true)

theorem core2 (signed : Bool) (lo hi : Int) (sgn d : Bytes) (hs : sgn = [] ∨ sgn = [0x2d])
    (hnum : number (sgn ++ d) = (int d).bind (fun r => (frac r).bind exp))
    (P : Prop) [Decidable P] (V : BitVec 64) (post : IR → Option Int)
    (hgood : dpre d ≠ [] →
      (if ¬ P then none else post (.ok V [])) =
        if !signed && sgn == [0x2d] then none
        else if lo ≤ (if sgn = [] then (acc 0 (dpre d) : Int) else -(acc 0 (dpre d) : Int)) ∧
                (if sgn = [] then (acc 0 (dpre d) : Int) else -(acc 0 (dpre d) : Int)) ≤ hi
          then some (if sgn = [] then (acc 0 (dpre d) : Int) else -(acc 0 (dpre d) : Int)) else none) :
    Rel2 (lift post (if lzb d then .err else if ¬ P then .err else if dpre d = [] then .err else JsonDecInt.fin V (digits d)))
      (specCore2 signed lo hi (sgn ++ d)) := by
  unfold specCore2
  rw [hnum]
  by_cases hl : lzb d = true
  · obtain ⟨c, r, hc, hn⟩ := int_of_lz d hl
    simp only [hl, if_true, lift, hn]
    split
    · exact Or.inl rfl
    · split
      · exact Or.inl rfl
      · split
        · exact Or.inr ⟨rfl, _, _, rfl, hc⟩
        · exact Or.inl rfl
  · have hl' : lzb d = false := by simpa using hl
    by_cases hd : dpre d = []
    · rw [int_none_of_dpre d hd]
      left
      by_cases hP : P <;> simp [hl', hd, lift, hP]
    · rw [int_of_nolz d hd hl']
      simp only [Option.bind_some]
      by_cases hdot : ∃ c r2, digits d = c :: r2 ∧ isDotE c = true
      · obtain ⟨c, r2, hdd, hc⟩ := hdot
        have hfin : JsonDecInt.fin V (digits d) = .err := by simp [hdd, JsonDecInt.fin, hc]
        have hm : lift post (if lzb d then .err else if ¬ P then .err else if dpre d = [] then .err
            else JsonDecInt.fin V (digits d)) = none := by
          by_cases hP : P <;> simp [hl', hd, lift, hP, hfin]
        rw [hm, hdd]
        left
        cases hfe : (frac (c :: r2)).bind exp with
        | none => rfl
        | some r' =>
          have hlen := fracExp_length_lt c r2 r' hc hfe
          simp only
          have hb : sgn ++ d = (sgn ++ dpre d) ++ c :: r2 := by
            rw [List.append_assoc, ← hdd, dpre_append_digits]
          have hany : (List.take ((sgn ++ d).length - r'.length) (sgn ++ d)).any
              (fun c => c == 0x2e || c == 0x65 || c == 0x45) = true := by
            rw [List.any_eq_true]
            refine ⟨c, ?_, hc⟩
            rw [hb, List.mem_take_iff_getElem]
            refine ⟨(sgn ++ dpre d).length, ?_, ?_⟩
            · simp; omega
            · simp
          rw [if_pos hany]
      · have hrest : ∀ c r, digits d = c :: r → isDotE c = false := by
          intro c r h
          cases hc : isDotE c
          · rfl
          · exact absurd ⟨c, r, h, hc⟩ hdot
        rw [fracExp_id _ hrest, fin_ok _ _ hrest]
        have hm : lift post (if lzb d then .err else if ¬ P then .err else if dpre d = [] then .err else .ok V (digits d)) =
            (if ¬ P then none else post (.ok V [])).map fun i => (i, digits d) := by
          by_cases hP : P <;> simp [hl', hd, lift, hP]
        rw [hm, hgood hd]
        left
        have hlit : List.take ((sgn ++ d).length - (digits d).length) (sgn ++ d) = sgn ++ dpre d := by
          have : (sgn ++ d).length - (digits d).length = (sgn ++ dpre d).length := by
            have h2 := congrArg List.length (dpre_append_digits d)
            simp only [List.length_append] at h2 ⊢
            omega
          rw [this]
          conv => lhs; arg 2; rw [← dpre_append_digits d, ← List.append_assoc]
          exact List.take_left
        have hall := dpre_all_digit d
        simp only [hlit]
        have hany : (sgn ++ dpre d).any (fun c => c == 0x2e || c == 0x65 || c == 0x45) = false := by
          rw [List.any_eq_false]
          intro c hc
          rcases List.mem_append.mp hc with h | h
          · rcases hs with rfl | rfl
            · simp at h
            · have : c = 0x2d := by simpa using h
              subst this; decide
          · have := digit_not_dotE (hall c h)
            simpa [isDotE] using this
        simp only [hany, Bool.false_eq_true, if_false]
        rcases hs with rfl | rfl
        · have hhead : ((dpre d).head? == some 0x2d) = false := by
            cases hdp : dpre d with
            | nil => rfl
            | cons x t =>
              have hx := hall x (by simp [hdp])
              have : x ≠ 0x2d := by intro e; subst e; exact absurd hx (by decide)
              simpa using this
          have he : (([] : Bytes) == [0x2d]) = false := rfl
          simp only [List.nil_append, hhead, he, Bool.and_false, Bool.false_eq_true, if_false, intValue_digits _ hall, if_true]
          split <;> rfl
        · have he : (([0x2d] : Bytes) == [0x2d]) = true := rfl
          have hne : ¬ (([0x2d] : Bytes) = []) := by simp
          have hh : ((0x2d :: dpre d).head? == some 0x2d) = true := rfl
          simp only [List.cons_append, List.nil_append, intValue_neg, he, hne, hh, Bool.and_true, if_false]
          cases signed
          · rfl
          · simp only [Bool.not_true, Bool.false_eq_true, if_false]
            split <;> rfl

theorem lift_none (x : IR) : lift (fun _ => none) x = none := by cases x <;> rfl

def gI (p : Int × Bytes) : JV × Bytes := (JV.int p.1, p.2)

/-- the model on an input that does not start with `null` -/
theorem model_int (fl : PFlags) (F dp : Nat) (w : ITy) (cur : JV) (b : Bytes) (hn : hasPrefix b nullLit = false) :
    okM (decodeInt fl F dp w cur b) =
      (if w.signed then lift (postS w) (parseInt b) else lift (postU w) (parseUint b)).map gI := by
  unfold decodeInt
  simp only [hn, Bool.false_eq_true, if_false]
  cases hs : w.signed
  · simp only [Bool.false_eq_true, if_false]
    cases parseUint b with
    | err => simp only [okM_parseUintErr, lift, Option.map_none]
    | ok v r =>
      simp only [lift, postU]
      by_cases hc : (decide (w.bits < 64) && decide (v.toNat > 2 ^ w.bits - 1)) = true
      · simp only [hc, if_true, okM, Option.map_none]
      · have hc' : (decide (w.bits < 64) && decide (v.toNat > 2 ^ w.bits - 1)) = false := by simpa using hc
        simp only [hc', Bool.false_eq_true, if_false, okM]
        simp [ws, gI]
  · simp only [if_true]
    cases parseInt b with
    | err => simp only [okM_parseIntErr, lift, Option.map_none]
    | ok v r =>
      simp only [lift, postS]
      by_cases hc : (decide (w.bits < 64) && (decide (v.toInt < -(2 ^ (w.bits - 1) : Int)) || decide (v.toInt > (2 ^ (w.bits - 1) : Int) - 1))) = true
      · simp only [hc, if_true, okM, Option.map_none]
      · have hc' : (decide (w.bits < 64) && (decide (v.toInt < -(2 ^ (w.bits - 1) : Int)) || decide (v.toInt > (2 ^ (w.bits - 1) : Int) - 1))) = false := by simpa using hc
        simp only [hc', Bool.false_eq_true, if_false, okM]
        simp [ws, gI]

/-- parseInt / parseUint with the width test against the specification of the literal -/
theorem parse_rel (w : ITy) (b : Bytes) :
    Rel2 (if w.signed then lift (postS w) (parseInt b) else lift (postU w) (parseUint b))
      (specCore2 w.signed (lo w) (hi w) b) := by
  cases hs : w.signed
  · simp only [Bool.false_eq_true, if_false]
    by_cases hb : b.head? = some 0x2d
    · obtain ⟨d, rfl⟩ : ∃ d, b = 0x2d :: d := by
        cases b with
        | nil => cases hb
        | cons c r => simp at hb; exact ⟨r, by rw [hb]⟩
      have hm : lift (postU w) (parseUint (0x2d :: d)) = none := by
        rw [parseUint_eq, dpre_neg_head]; simp [lzb, lift]
      rw [hm]
      have := core2 false (lo w) (hi w) [0x2d] d (Or.inr rfl) (number_neg d) True 0#64 (fun _ => none)
        (by intro _; simp)
      rw [lift_none] at this
      simpa using this
    · rw [parseUint_eq]
      have := core2 false (lo w) (hi w) [] b (Or.inl rfl) (number_pos b hb) (acc 0 (dpre b) < 2 ^ 64)
        (BitVec.ofNat 64 (acc 0 (dpre b))) (postU w)
        (by intro _; rw [good_unsigned w hs]; simp [ws])
      simpa using this
  · simp only [if_true]
    by_cases hb : b.head? = some 0x2d
    · obtain ⟨d, rfl⟩ : ∃ d, b = 0x2d :: d := by
        cases b with
        | nil => cases hb
        | cons c r => simp at hb; exact ⟨r, by rw [hb]⟩
      rw [parseInt_neg]
      have := core2 true (lo w) (hi w) [0x2d] d (Or.inr rfl) (number_neg d) (acc 0 (dpre d) ≤ 2 ^ 63)
        (BitVec.ofInt 64 (-(acc 0 (dpre d) : Int))) (postS w)
        (by intro _; rw [good_neg w hs]; simp [ws])
      simpa using this
    · rw [parseInt_pos b hb]
      have := core2 true (lo w) (hi w) [] b (Or.inl rfl) (number_pos b hb) (acc 0 (dpre b) < 2 ^ 63)
        (BitVec.ofNat 64 (acc 0 (dpre b))) (postS w)
        (by intro _; rw [good_pos w hs]; simp [ws])
      simpa using this

theorem specCore2_none (signed : Bool) (l h : Int) (b : Bytes) (hn : number b = none) : specCore2 signed l h b = none := by
  unfold specCore2; rw [hn]

/-- the specification on an input that does not start with `null` -/
theorem spec_int (c : TFlags) (f d : Nat) (w : ITy) (cur : JV) (b : Bytes) (hn : hasPrefix b nullLit = false) :
    okS (valueS c (f + 1) d (.int w) cur b) = (specCore2 w.signed (lo w) (hi w) b).map gI := by
  cases b with
  | nil =>
    rw [valueS.eq_def]
    simp only [specCore2_none _ _ _ [] Enc.Lemmas.JsonNumber.number_nil]
    rfl
  | cons c0 r =>
    rw [valueS.eq_def]
    simp only []
    by_cases hc : c0 = 0x6e
    · subst hc
      simp only [show ((0x6e : UInt8) == 110) = true by decide, if_true, okS_map_good, lit_eq]
      have hn' : hasPrefix (0x6e :: r) Spec.Json.nullLit = false := hn
      simp only [hn', Bool.false_eq_true, if_false, Option.map_none,
        specCore2_none _ _ _ _ (Enc.Lemmas.JsonValue.parseNumber_bad 0x6e r (by decide))]
    · have e1 : (c0 == 110) = false := by simpa using hc
      simp only [e1, Bool.false_eq_true, if_false]
      by_cases hnum : (c0 == 0x2d || isDigit c0) = false
      · have hnone := Enc.Lemmas.JsonValue.parseNumber_bad c0 r hnum
        simp only [specCore2_none _ _ _ _ hnone, Option.map_none, hnone]
        repeat' (first | rw [okS_skipS] | rw [okS_map_bad] | rfl | split)
      · have hnum' : (c0 == 0x2d || isDigit c0) = true := by
          cases hx : (c0 == 0x2d || isDigit c0)
          · exact absurd hx hnum
          · rfl
        have e2 : (c0 == 91) = false := by
          by_cases h : c0 = 91
          · subst h; exact absurd hnum' (by decide)
          · simpa using h
        have e3 : (c0 == 123) = false := by
          by_cases h : c0 = 123
          · subst h; exact absurd hnum' (by decide)
          · simpa using h
        have e4 : (c0 == 34) = false := by
          by_cases h : c0 = 34
          · subst h; exact absurd hnum' (by decide)
          · simpa using h
        have e5 : (c0 == 116) = false := by
          by_cases h : c0 = 116
          · subst h; exact absurd hnum' (by decide)
          · simpa using h
        have e6 : (c0 == 102) = false := by
          by_cases h : c0 = 102
          · subst h; exact absurd hnum' (by decide)
          · simpa using h
        simp only [e2, e3, e4, e5, e6, Bool.false_eq_true, if_false]
        unfold specCore2
        cases hnb : number (c0 :: r) with
        | none => rfl
        | some rest =>
          simp only [Option.map_some, Spec.Json.intOfLit, range_lo, range_hi]
          have hl : (c0 :: r).take ((c0 :: r).length - rest.length) = consumed (c0 :: r) rest := rfl
          simp only [hl]
          generalize consumed (c0 :: r) rest = l
          by_cases ha : (l.any fun c => c == 0x2e || c == 0x65 || c == 0x45) = true
          · simp [ha, okS]
          · by_cases hsn : (!w.signed && l.head? == some 0x2d) = true
            · simp [ha, hsn, okS]
            · by_cases hrange : lo w ≤ Spec.Json.intValue l ∧ Spec.Json.intValue l ≤ hi w
              · simp [ha, hsn, hrange, okS, gI]
              · simp [ha, hsn, hrange, okS]

/-- **the integer leaf, any remainder, any prior** -/
theorem int_value (fl : PFlags) (c : TFlags) (F dp f d : Nat) (w : ITy) (cur : JV) (b : Bytes) (hcur : plain cur = true) :
    RelE (decodeInt fl F dp w cur b) (valueS c (f + 1) d (.int w) cur b) := by
  by_cases hn : hasPrefix b nullLit = true
  · have hm : decodeInt fl F dp w cur b = .ok cur (b.drop 4) := by
      unfold decodeInt; simp only [hn, if_true]
    have hl : lit Spec.Json.nullLit b = some (b.drop 4) := by
      show (if hasPrefix b nullLit = true then some (b.drop 4) else none) = _
      rw [if_pos hn]
    obtain ⟨t, rfl⟩ := Enc.Lemmas.JsonDecTypedSpecU.lit_null_head hl
    have hs : valueS c (f + 1) d (.int w) cur (0x6e :: t) = some (cur, false, (0x6e :: t).drop 4) := by
      rw [valueS.eq_def]
      simp only [show ((0x6e : UInt8) == 110) = true by decide, if_true, hl, Option.map_some]
    rw [hm, hs]
    exact ⟨Or.inl rfl, fun v r h => by cases h; exact hcur⟩
  · have hn' : hasPrefix b nullLit = false := by simpa using hn
    have hM := model_int fl F dp w cur b hn'
    have hS := spec_int c f d w cur b hn'
    have hR := parse_rel w b
    refine ⟨?_, ?_⟩
    · rw [hM, hS]
      rcases hR with h | ⟨h1, v, r, h2, hd⟩
      · left; rw [h]
      · right; rw [h1, h2]; exact ⟨rfl, JV.int v, r, rfl, hd⟩
    · intro v r h
      have : okM (decodeInt fl F dp w cur b) = some (v, r) := by rw [h]; rfl
      rw [hM] at this
      cases hx : (if w.signed = true then lift (postS w) (parseInt b) else lift (postU w) (parseUint b)) with
      | none => rw [hx] at this; cases this
      | some p =>
        rw [hx] at this
        simp only [Option.map_some, gI, Option.some.injEq, Prod.mk.injEq] at this
        rw [← this.1]; rfl

#print axioms int_value

end Enc.Lemmas.JsonDecTypedInt
