import Enc.Lemmas.ThriftPrim
import Enc.Lemmas.ThriftSpecPrim
/-!
C13, second half (compact protocol), level 1: the ALTERNATIVE header forms that the compact specification permits, as
relations on bytes (written with the primitives of `Enc.Spec.Thrift`), and their acceptance by the model readers with
the same result as the canonical form.

  * `UV n bs`        `bs` is a base-128 varint of `n`: minimal (`Spec.Thrift.leb128 n`) or padded with zero groups
  * `VarU n bs`      … of at most 10 bytes (Go `binary.MaxVarintLen64`)
  * `ElemCode t c`   the type nibble of an element / key / value type in a header: the compact code; bool: 2 or 1
  * `ListHdr t n`    list / set header: short form `ssss tttt` (only when `n < 15`) or long form `1111 tttt` + varint
                     (for EVERY size)
  * `MapHdr k v n`   map header: varint 0 for the empty map, else varint size + `kkkk vvvv`
  * `FieldHdrB c id last`  field header: short form `dddd tttt` (only when `0 < id - last ≤ 15`) or long form: type
                     byte + zig-zag varint id (for EVERY id, whatever the previous id)
  * `BytesC s`       binary / string: varint length + payload

Acceptance (any trailing bytes `rest`):
  `readUvarint_UV`, `rVarint_UV`, `rLength_UV`, `rBytes_BytesC`, `rList_ListHdr`, `rMap_MapHdr`, `rField_FieldHdrB`,
  and the bool statements `rBool_byte` (element: every byte accepted, false iff 0), `ofCode_tcode_bool` (field header).
-/
namespace Enc.Lemmas.ThriftAccept
open Enc Enc.Model.Thrift Enc.Lemmas.ThriftPrim Enc.Lemmas.ThriftSpec

/-! ## varints, minimal or padded -/

/-- `bs` is a little-endian base-128 representation of `n`, continuation bit on every byte but the last. Not
necessarily minimal: `UV 1 [0x81, 0x00]`. -/
inductive UV : Nat → Bytes → Prop
  | last (n : Nat) : n < 128 → UV n [UInt8.ofNat n]
  | more (n : Nat) (bs : Bytes) : UV (n / 128) bs → UV n (UInt8.ofNat (n % 128 + 128) :: bs)

/-- a varint of at most `MaxVarintLen64 = 10` bytes -/
def VarU (n : Nat) (bs : Bytes) : Prop := UV n bs ∧ bs.length ≤ 10

theorem UV_length_pos {n : Nat} {bs : Bytes} (h : UV n bs) : 1 ≤ bs.length := by
  cases h <;> simp

theorem VarU_length_pos {n : Nat} {bs : Bytes} (h : VarU n bs) : 1 ≤ bs.length := UV_length_pos h.1

/-- the canonical (minimal) varint is a representation -/
theorem UV_leb128 (n : Nat) : UV n (Spec.Thrift.leb128 n) := by
  induction n using Nat.strongRecOn with
  | _ n ih =>
    unfold Spec.Thrift.leb128
    split
    · exact .last n ‹_›
    · exact .more n _ (ih (n / 128) (by omega))

theorem leb128_length_le (n : Nat) : ∀ k, n < 128 ^ k → 1 ≤ k → (Spec.Thrift.leb128 n).length ≤ k := by
  induction n using Nat.strongRecOn with
  | _ n ih =>
    intro k hk h1
    unfold Spec.Thrift.leb128
    split
    · simpa using h1
    · rename_i hn
      obtain ⟨j, rfl⟩ : ∃ j, k = j + 1 := ⟨k - 1, by omega⟩
      have hj : 1 ≤ j := by
        cases j with
        | zero => simp at hk; omega
        | succ j => omega
      have : n / 128 < 128 ^ j := by
        rw [Nat.pow_succ] at hk
        exact Nat.div_lt_of_lt_mul (by rw [Nat.mul_comm]; exact hk)
      have := ih (n / 128) (by omega) j this hj
      simp only [List.length_cons]; omega

/-- the canonical varint of a 64-bit value has at most 10 bytes -/
theorem VarU_leb128 (n : Nat) (h : n < 2 ^ 64) : VarU n (Spec.Thrift.leb128 n) :=
  ⟨UV_leb128 n, leb128_length_le n 10 (by have : (2:Nat) ^ 64 ≤ 128 ^ 10 := by decide
                                          omega) (by omega)⟩

/-- **Go `binary.ReadUvarint` accepts every representation of at most 10 bytes**, padded or not -/
theorem go_UV (rest : Bytes) : ∀ {n : Nat} {bs : Bytes}, UV n bs → ∀ (i x : Nat), i + bs.length ≤ 10 →
    n * 2 ^ (7 * i) < 2 ^ 64 →
    readUvarintGo.go (bs ++ rest) i x (7 * i) = .ok (x + n * 2 ^ (7 * i), rest) := by
  intro n bs h
  induction h with
  | last n hn =>
    intro i x hi hb
    have hP : 0 < 2 ^ (7 * i) := Nat.pow_pos (by omega)
    simp only [List.length_cons, List.length_nil] at hi
    simp only [List.cons_append, List.nil_append, readUvarintGo.go]
    have h10 : (i == 10) = false := by simp; omega
    rw [toNat_ofNat_lt n (by omega)]
    simp only [h10, Bool.false_eq_true, if_false, hn, if_true]
    have : ¬ (i = 9 ∧ n > 1) := by
      rintro ⟨rfl, h1⟩
      have : 2 * 2 ^ 63 ≤ n * 2 ^ 63 := Nat.mul_le_mul_right _ h1
      omega
    simp [this]
  | more n bs hbs ih =>
    intro i x hi hb
    have hP : 0 < 2 ^ (7 * i) := Nat.pow_pos (by omega)
    have hlen := UV_length_pos hbs
    simp only [List.length_cons] at hi
    simp only [List.cons_append, readUvarintGo.go]
    have h10 : (i == 10) = false := by simp; omega
    rw [toNat_ofNat_lt (n % 128 + 128) (by omega)]
    have hge : ¬ (n % 128 + 128 < 128) := by omega
    simp only [h10, Bool.false_eq_true, if_false, hge]
    have e : 7 * i + 7 = 7 * (i + 1) := by omega
    have e2 : 2 ^ (7 * (i + 1)) = 2 ^ (7 * i) * 128 := by rw [← e, Nat.pow_add]
    have hdm : n / 128 * 128 + n % 128 = n := Nat.div_add_mod' n 128
    have hmul : n / 128 * (2 ^ (7 * i) * 128) + n % 128 * 2 ^ (7 * i) = n * 2 ^ (7 * i) := by
      conv => rhs; rw [← hdm]
      rw [Nat.add_mul, Nat.mul_comm (2 ^ (7*i)) 128, Nat.mul_assoc]
    rw [e, ih (i + 1) _ (by omega) (by rw [e2]; omega)]
    rw [e2]
    congr 2
    have : n % 128 + 128 - 128 = n % 128 := by omega
    rw [this]; omega

theorem readUvarint_UV {n : Nat} {bs : Bytes} (h : VarU n bs) (hn : n < 2 ^ 64) (rest : Bytes) :
    readUvarintGo (bs ++ rest) = .ok (n, rest) := by
  have := go_UV rest h.1 0 0 (by have := h.2; omega) (by simpa using hn)
  unfold readUvarintGo
  simpa using this

/-- padded varints: accepted up to 10 bytes, "overflow" from the 11th on -/
example : readUvarintGo [0x81, 0x80, 0x00, 7] = .ok (1, [7]) := by decide
example : readUvarintGo [0x81, 0x80, 0x80, 0x80, 0x80, 0x80, 0x80, 0x80, 0x80, 0x00] = .ok (1, []) := by decide
example : readUvarintGo [0x81, 0x80, 0x80, 0x80, 0x80, 0x80, 0x80, 0x80, 0x80, 0x80, 0x00] = .err "overflow" := by
  decide

/-- zig-zag varint (i16 / i32 / i64 values, field ids): every representation of the zig-zag code is read back -/
theorem rVarint_UV (i : Int) (bits : Nat) (hb : 1 ≤ bits) (hb2 : bits ≤ 64)
    (h : -2 ^ (bits - 1) ≤ i ∧ i < 2 ^ (bits - 1)) {bs : Bytes} (hv : VarU (Spec.Thrift.zigzag i) bs)
    (rest : Bytes) : rVarint (bs ++ rest) bits = .ok (i, rest) := by
  unfold rVarint
  have h63 : (2 : Int) ^ (bits - 1) ≤ 2 ^ 63 := by
    have := Nat.pow_le_pow_right (n := 2) (by omega) (show bits - 1 ≤ 63 by omega)
    exact_mod_cast this
  rw [← zigzag_eq] at hv
  rw [readUvarint_UV hv (zigzag64_lt i (by omega)) rest]
  simp only [Res.bind, Enc.Lemmas.ThriftZig.unzigzag_zigzag]
  have : ¬ (i < -(2 ^ (bits - 1) : Int) ∨ i > (2 ^ (bits - 1) : Int) - 1) := by omega
  simp only [this, if_false]

theorem rI16_UV (i : Int) (h : -2 ^ 15 ≤ i ∧ i < 2 ^ 15) {bs : Bytes} (hv : VarU (Spec.Thrift.zigzag i) bs)
    (rest : Bytes) : rI16 .compact (bs ++ rest) = .ok (i, rest) := rVarint_UV i 16 (by omega) (by omega) h hv rest
theorem rI32_UV (i : Int) (h : -2 ^ 31 ≤ i ∧ i < 2 ^ 31) {bs : Bytes} (hv : VarU (Spec.Thrift.zigzag i) bs)
    (rest : Bytes) : rI32 .compact (bs ++ rest) = .ok (i, rest) := rVarint_UV i 32 (by omega) (by omega) h hv rest
theorem rI64_UV (i : Int) (h : -2 ^ 63 ≤ i ∧ i < 2 ^ 63) {bs : Bytes} (hv : VarU (Spec.Thrift.zigzag i) bs)
    (rest : Bytes) : rI64 .compact (bs ++ rest) = .ok (i, rest) := rVarint_UV i 64 (by omega) (by omega) h hv rest

/-- size / length prefix -/
theorem rLength_UV (n : Nat) (h : n ≤ 2147483647) {bs : Bytes} (hv : VarU n bs) (rest : Bytes) :
    rLength .compact (bs ++ rest) = .ok (n, rest) := by
  have hn : ¬ n > 2147483647 := by omega
  simp only [rLength, readUvarint_UV hv (by omega) rest, Res.bind, hn, if_false]

/-! ## binary / string -/

/-- varint length (any representation), then the payload -/
def BytesC (s : Bytes) (bs : Bytes) : Prop := ∃ l, VarU s.length l ∧ bs = l ++ s

theorem BytesC_canonical (s : Bytes) (h : s.length < 2 ^ 64) : BytesC s (Spec.Thrift.bytesOf .compact s) :=
  ⟨_, VarU_leb128 _ h, rfl⟩

theorem BytesC_length_pos {s bs : Bytes} (h : BytesC s bs) : 1 ≤ bs.length := by
  obtain ⟨l, hl, rfl⟩ := h
  have := VarU_length_pos hl
  simp only [List.length_append]; omega

theorem rBytes_BytesC (s : Bytes) (h : s.length ≤ 2147483647) {bs : Bytes} (hb : BytesC s bs) (rest : Bytes) :
    rBytes .compact (bs ++ rest) = .ok (s, rest) := by
  obtain ⟨l, hl, rfl⟩ := hb
  unfold rBytes
  rw [List.append_assoc, rLength_UV _ h hl]
  simp only [Res.bind]
  by_cases h0 : s.length = 0
  · have : s = [] := List.eq_nil_of_length_eq_zero h0
    subst this; simp
  · have : (s.length == 0) = false := by simpa using h0
    simp only [this, Bool.false_eq_true, if_false]
    rw [readN_append s rest _ rfl, dontExpectEOF_ok]

/-! ## list / set header -/

/-- the type nibbles a list / set / map header may announce for an element, key or value type `t`: its compact code;
for bool the code 2 of the specification text, or 1 (the TRUE code of field headers, which writers with a single type
table send: readers must accept both) -/
def ElemCode (t : Spec.Thrift.TT) (c : Nat) : Prop := c = Spec.Thrift.cmpCode t ∨ (t = .bool ∧ c = 1)

theorem ElemCode_canonical (t : Spec.Thrift.TT) : ElemCode t (Spec.Thrift.cmpCode t) := Or.inl rfl

/-- the announced nibble is a valid code, and after the reader's TRUE → BOOL translation it is the type `t` -/
theorem ElemCode_read {t : Spec.Thrift.TT} {c : Nat} (h : ElemCode t c) :
    1 ≤ c ∧ c < 16 ∧
      (if TType.ofCode c == TType.true_ then TType.bool else TType.ofCode c) = ofSpec t := by
  rcases h with rfl | ⟨rfl, rfl⟩
  · exact ⟨cmpCode_pos t, cmpCode_lt t, by cases t <;> rfl⟩
  · exact ⟨by omega, by omega, rfl⟩

/-- the forms of a compact list / set header for element type `t` and size `n`. The short form exists only below
15 elements; the long form (size nibble 15, then the size as a varint) is a valid encoding of EVERY size. The element
type nibble is any `ElemCode t` (bool: 1 or 2). -/
inductive ListHdr (t : Spec.Thrift.TT) (n : Nat) : Bytes → Prop
  | short (c : Nat) : ElemCode t c → n < 15 → ListHdr t n [UInt8.ofNat (n * 16 + c)]
  | long (c : Nat) (bs : Bytes) : ElemCode t c → VarU n bs → ListHdr t n (UInt8.ofNat (0xF0 + c) :: bs)

theorem ListHdr_canonical (t : Spec.Thrift.TT) (n : Nat) (h : n < 2 ^ 64) :
    ListHdr t n (Spec.Thrift.listHdr .compact t n) := by
  unfold Spec.Thrift.listHdr
  simp only
  split
  · exact .short _ (ElemCode_canonical t) ‹_›
  · exact .long _ _ (ElemCode_canonical t) (VarU_leb128 n h)

theorem ListHdr_length_pos {t : Spec.Thrift.TT} {n : Nat} {bs : Bytes} (h : ListHdr t n bs) : 1 ≤ bs.length := by
  cases h <;> simp

/-- **`ReadList` / `ReadSet` accept every form with the same size and — after the decoder's TRUE → BOOL translation —
the same element type** -/
theorem rList_ListHdr (t : Spec.Thrift.TT) (n : Nat) (hn : n ≤ 2147483647) {hdr : Bytes} (h : ListHdr t n hdr)
    (rest : Bytes) :
    ∃ t', rList .compact (hdr ++ rest) = .ok ((t', n), rest) ∧
      (if t' == TType.true_ then TType.bool else t') = ofSpec t := by
  cases h with
  | short c hc hs =>
    obtain ⟨hc1, hc2, hof⟩ := ElemCode_read hc
    refine ⟨TType.ofCode c, ?_, hof⟩
    simp only [rList, List.cons_append, List.nil_append, rByte, Res.bind]
    rw [toNat_ofNat_lt _ (by omega)]
    have e1 : (n * 16 + c) / 16 = n := by omega
    have e2 : (n * 16 + c) % 16 = c := by omega
    have e3 : (n != 15) = true := by simp; omega
    simp only [e1, e2, e3, if_true]
  | long c bs hc hv =>
    obtain ⟨hc1, hc2, hof⟩ := ElemCode_read hc
    refine ⟨TType.ofCode c, ?_, hof⟩
    simp only [rList, List.cons_append, rByte, Res.bind]
    rw [toNat_ofNat_lt _ (by omega)]
    have e1 : (0xF0 + c) / 16 = 15 := by omega
    have e2 : (0xF0 + c) % 16 = c := by omega
    have hn' : ¬ n > 2147483647 := by omega
    simp only [e1, e2, bne_self_eq_false, Bool.false_eq_true, if_false, readUvarint_UV hv (by omega) rest,
      hn', dontExpectEOF_ok]

/-! ## map header -/

/-- compact map header: the empty map is a varint 0 and nothing else; otherwise varint size, then `kkkk vvvv`, each
nibble any `ElemCode` of the key / value type (bool: 1 or 2) -/
inductive MapHdr (k v : Spec.Thrift.TT) (n : Nat) : Bytes → Prop
  | empty (bs : Bytes) : n = 0 → VarU 0 bs → MapHdr k v n bs
  | nonempty (ck cv : Nat) (bs : Bytes) : ElemCode k ck → ElemCode v cv → 0 < n → VarU n bs →
      MapHdr k v n (bs ++ [UInt8.ofNat (ck * 16 + cv)])

theorem MapHdr_canonical (k v : Spec.Thrift.TT) (n : Nat) (h : n < 2 ^ 64) :
    MapHdr k v n (Spec.Thrift.mapHdr .compact k v n) := by
  unfold Spec.Thrift.mapHdr
  simp only
  by_cases h0 : n = 0
  · subst h0
    simp only [beq_self_eq_true, if_true]
    have := VarU_leb128 0 (by omega)
    rw [leb128_zero] at this
    exact .empty _ rfl this
  · have : (n == 0) = false := by simpa using h0
    simp only [this, Bool.false_eq_true, if_false]
    exact .nonempty _ _ _ (ElemCode_canonical k) (ElemCode_canonical v) (by omega) (VarU_leb128 n h)

theorem MapHdr_length_pos {k v : Spec.Thrift.TT} {n : Nat} {bs : Bytes} (h : MapHdr k v n bs) : 1 ≤ bs.length := by
  cases h with
  | empty bs _ hv => exact VarU_length_pos hv
  | nonempty ck cv bs _ _ _ hv => simp

/-- `ReadMap`: the empty map reads back without its key / value types; every other header with the size and — after the
decoder's TRUE → BOOL translation — the key and value types -/
theorem rMap_MapHdr (k v : Spec.Thrift.TT) (n : Nat) (hn : n ≤ 2147483647) {hdr : Bytes} (h : MapHdr k v n hdr)
    (rest : Bytes) :
    ∃ k' v', rMap .compact (hdr ++ rest) = .ok ((k', v', n), rest) ∧
      (n ≠ 0 → (if k' == TType.true_ then TType.bool else k') = ofSpec k ∧
               (if v' == TType.true_ then TType.bool else v') = ofSpec v) := by
  cases h with
  | empty bs h0 hv =>
    subst h0
    refine ⟨.stop, .stop, ?_, fun h => absurd rfl h⟩
    simp only [rMap, readUvarint_UV hv (by omega) rest, Res.bind]
    simp
  | nonempty ck cv bs hck hcv h0 hv =>
    obtain ⟨hk1, hk2, hofk⟩ := ElemCode_read hck
    obtain ⟨hv1, hv2, hofv⟩ := ElemCode_read hcv
    refine ⟨TType.ofCode ck, TType.ofCode cv, ?_, fun _ => ⟨hofk, hofv⟩⟩
    have hn' : ¬ n > 2147483647 := by omega
    have hne : (n == 0) = false := by simp; omega
    simp only [rMap, List.append_assoc, readUvarint_UV hv (by omega) _, Res.bind, hn', if_false, hne,
      Bool.false_eq_true, List.cons_append, List.nil_append, rByte, dontExpectEOF_ok]
    rw [toNat_ofNat_lt _ (by omega)]
    have e1 : (ck * 16 + cv) / 16 = ck := by omega
    have e2 : (ck * 16 + cv) % 16 = cv := by omega
    simp only [e1, e2]

/-! ## field header -/

/-- the two forms of a compact field header for type nibble `c`, field id `id`, previous field id `last`. The short
(delta) form exists only when `0 < id - last ≤ 15`; the long form (type byte, then the zig-zag varint of the id) is a
valid encoding of EVERY id after ANY previous id. -/
inductive FieldHdrB (c : Nat) (id last : Int) : Bytes → Prop
  | short : 0 < id - last → id - last ≤ 15 → FieldHdrB c id last [UInt8.ofNat ((id - last).toNat * 16 + c)]
  | long (bs : Bytes) : VarU (Spec.Thrift.zigzag id) bs → FieldHdrB c id last (UInt8.ofNat c :: bs)

theorem FieldHdrB_length_pos {c : Nat} {id last : Int} {bs : Bytes} (h : FieldHdrB c id last bs) : 1 ≤ bs.length := by
  cases h <;> simp

theorem zigzag_lt16 (i : Int) (h : -2 ^ 15 ≤ i ∧ i < 2 ^ 15) : Spec.Thrift.zigzag i < 2 ^ 64 := by
  unfold Spec.Thrift.zigzag; simp only [Int.reducePow, Nat.reducePow] at *; split <;> omega

/-- the header the specification's canonical writer chooses is one of the two forms -/
theorem FieldHdrB_canonical (c : Nat) (id last : Int) (hid : -2 ^ 15 ≤ id ∧ id < 2 ^ 15) :
    FieldHdrB c id last
      (if 0 < id - last ∧ id - last ≤ 15 then [UInt8.ofNat ((id - last).toNat * 16 + c)]
       else [UInt8.ofNat c] ++ Spec.Thrift.zz id) := by
  split
  · rename_i h; exact .short h.1 h.2
  · exact .long _ (VarU_leb128 _ (zigzag_lt16 id hid))

/-- **`ReadField` accepts both forms with the same `(type, id)`**: the short form comes back as a delta to be added to
the previous id, the long form as the id itself. `c` = type nibble (1 … 12). -/
theorem rField_FieldHdrB (c : Nat) (hc : 1 ≤ c ∧ c ≤ 12) (id last : Int) (hid : -2 ^ 15 ≤ id ∧ id < 2 ^ 15)
    {hdr : Bytes} (h : FieldHdrB c id last hdr) (rest : Bytes) :
    ∃ fh : FieldHdr, rField .compact (hdr ++ rest) = .ok (fh, rest) ∧ fh.t = TType.ofCode c ∧
      (if fh.delta then fh.id + last else fh.id) = id := by
  cases h with
  | short h0 h1 =>
    generalize hd : id - last = d at *
    have hdn : d.toNat ≤ 15 ∧ 1 ≤ d.toNat := by omega
    refine ⟨{ t := TType.ofCode c, id := d, delta := true }, ?_, rfl, by simp only [if_true]; omega⟩
    simp only [rField, List.cons_append, List.nil_append, rByte, Res.bind, Gen.c_thrift_STOP]
    rw [toNat_ofNat_lt _ (by omega)]
    have e0 : (d.toNat * 16 + c == 0) = false := by simp; omega
    have e1 : ((d.toNat * 16 + c) / 16 != 0) = true := by simp; omega
    have e2 : (d.toNat * 16 + c) % 16 = c := by omega
    have e3 : (d.toNat * 16 + c) / 16 = d.toNat := by omega
    have e1' : (d.toNat != 0) = true := by simp; omega
    simp only [e0, e2, e3, e1', Bool.false_eq_true, if_false, if_true]
    congr 3
    omega
  | long bs hv =>
    refine ⟨{ t := TType.ofCode c, id := id, delta := false }, ?_, rfl, by simp⟩
    simp only [rField, List.cons_append, rByte, Res.bind, Gen.c_thrift_STOP]
    rw [toNat_ofNat_lt _ (by omega), rI16_UV id hid hv rest]
    have e0 : (c == 0) = false := by simp; omega
    have e1 : (c / 16 != 0) = false := by simp; omega
    simp only [e0, e1, Bool.false_eq_true, if_false, dontExpectEOF_ok]

/-- the stop field is the single byte 0 -/
theorem rField_stop (rest : Bytes) :
    rField .compact ((0 : UInt8) :: rest) = .ok ({ t := .stop, id := 0, delta := false }, rest) := by
  simp [rField, rByte, Res.bind, Gen.c_thrift_STOP]

/-! ## bool

Which bytes the model reader accepts and what the specification writes.

  * element of a list / set / map (`ReadBool`): EVERY byte value is accepted; `0` reads as false, every other value
    as true. The specification (as implemented in `Enc.Spec.Thrift.encode`) writes `1` for true and `0` for false, both
    accepted with the right value. (A writer that used the field-header codes for elements, `1` = true / `2` = false,
    would have its `false` read as `true`: see `rBool_two`.)
  * struct field: the value travels in the type nibble of the field header, `1` = TRUE, `2` = FALSE; `ReadField` maps
    nibble 1 to `TType.true_` and nibble 2 to `TType.bool`, the struct decoder stores `h.t == .true_`. Every other nibble
    is a type mismatch for a bool field.
-/

theorem rBool_byte (p : Proto) (c : UInt8) (rest : Bytes) : rBool p (c :: rest) = .ok (c != 0, rest) := rfl

/-- the byte the specification writes for a bool element is read back as that bool -/
theorem rBool_spec (b : Bool) (rest : Bytes) :
    rBool .compact (Spec.Thrift.encode .compact .bool (.bool b) ++ rest) = .ok (b, rest) := by
  cases b <;> rfl

theorem rBool_two (rest : Bytes) : rBool .compact (2 :: rest) = .ok (true, rest) := rfl

/-- type nibbles of a bool field: TRUE = 1 reads as `true_`, FALSE = 2 reads as `bool` -/
theorem ofCode_tcode_bool (b : Bool) :
    TType.ofCode (tcode .bool b) = (if b then TType.true_ else TType.bool) := by
  cases b <;> rfl

/-- the type nibble of any field is the model's announced header type -/
theorem ofCode_tcode (t : Spec.Thrift.TT) (b : Bool) : TType.ofCode (tcode t b) = tOut t b := by
  cases t <;> cases b <;> rfl

theorem tcode_range (t : Spec.Thrift.TT) (b : Bool) : 1 ≤ tcode t b ∧ tcode t b ≤ 12 := by
  cases t <;> cases b <;> decide

end Enc.Lemmas.ThriftAccept
