import Enc.Model.Json.StrHelpers
import Enc.Spec.Json.StrHelpers
import Enc.Lemmas.JsonBuf
import Enc.Lemmas.JsonEncString
import Enc.Lemmas.JsonDecAnyAux
import Enc.Lemmas.JsonRTString
/-!
# The Append-style string helpers of the json package on Go slices (C15, C01)

Route: `Ext b r x` ("`r` is a well-formed slice whose bytes are those of `b` followed by `x`") is preserved by Go's
`append` (`Lemmas.JsonBuf.append_data`) and by `appendRune`'s over-append-then-reslice; by induction on the fuel the
slice-level loops `encLoopS` / `appendCoerceB` / `unquoteLoopB` extend the destination by exactly what the buffer-free
models `encLoop` / `coerceUTF8` / `unquoteLoop` of EncString.lean / DecScalar.lean produce, for every growth policy.
The buffer-free models are then replaced by the standard library's functions with the theorems of C01 / C02 / C14.
-/
namespace Enc.Lemmas.JsonStrHelpers
open Enc Enc.Model.Json Enc.Model.Json.Buf Enc.Model.Json.StrHelpers
open Enc.Lemmas.JsonBuf (data_length append_data writeAt_slice)

/-- `r` is a well-formed slice holding the bytes of `b` followed by `x` -/
def Ext (b r : Slice) (x : Bytes) : Prop := r.Wf ∧ r.data = b.data ++ x

theorem ext_refl {b : Slice} (hb : b.Wf) : Ext b b [] := ⟨hb, by simp⟩

theorem ext_append (grow : Nat → Nat → Nat) {b r : Slice} {x : Bytes} (h : Ext b r x) (xs : Bytes) :
    Ext b (r.append grow xs) (x ++ xs) := by
  obtain ⟨h1, h2⟩ := append_data grow r h.1 xs
  exact ⟨h2, by rw [h1, h.2, List.append_assoc]⟩

theorem ext_congr {b r : Slice} {x y : Bytes} (h : Ext b r x) (e : x = y) : Ext b r y := e ▸ h

/-- the cells below `len(b)` of the result's backing array are the destination's (when the result is still in the
caller's array this says they were not written) -/
theorem ext_prefix_cells {b r : Slice} {x : Bytes} (hb : b.Wf) (h : Ext b r x) : r.arr.take b.len = b.arr.take b.len := by
  obtain ⟨hr, hd⟩ := h
  have hl := data_length r hr
  have hlb := data_length b hb
  have hle : b.len ≤ r.len := by
    rw [← hl, hd, List.length_append, hlb]; omega
  have : r.arr.take b.len = (r.data).take b.len := by
    unfold Slice.data; rw [List.take_take]; congr 1; omega
  have e : (b.data ++ x).take b.len = b.data := by rw [← hlb]; exact List.take_left' rfl
  rw [this, hd, e]; rfl

theorem append_len (grow : Nat → Nat → Nat) (s : Slice) (xs : Bytes) : (s.append grow xs).len = s.len + xs.length := by
  unfold Slice.append; simp only; split <;> rfl

/-! ## encodeString on a slice -/

theorem encLoopS_ext (grow : Nat → Nat → Nat) (html : Bool) (b0 : Slice) :
    ∀ (fuel : Nat) (b : Slice) (x pend s : Bytes), Ext b0 b x →
      Ext b0 (encLoopS grow html fuel b pend s) (x ++ pend ++ encLoop html fuel s) := by
  intro fuel
  induction fuel with
  | zero =>
    intro b x pend s h
    simp only [encLoopS, encLoop, List.append_nil]
    exact ext_append grow h pend
  | succ fuel ih =>
    intro b x pend s h
    cases s with
    | nil =>
      simp only [encLoopS, encLoop, List.append_nil]
      exact ext_append grow h pend
    | cons c rest =>
      rw [encLoopS, encLoop]
      simp only []
      split
      · exact ext_congr (ih b x (pend ++ [c]) rest h) (by simp)
      · split
        · exact ext_congr (ih _ _ [] rest (ext_append grow (ext_append grow h pend) _)) (by simp)
        · split
          · exact ext_congr (ih _ _ [] rest (ext_append grow (ext_append grow (ext_append grow h pend) _) _)) (by simp)
          · generalize Utf8.decodeRune (c :: rest) = p
            obtain ⟨r, size⟩ := p
            simp only []
            split
            · exact ext_congr (ih _ _ [] rest (ext_append grow (ext_append grow h pend) _)) (by simp)
            · split
              · exact ext_congr (ih _ _ [] _ (ext_append grow (ext_append grow (ext_append grow h pend) _) _)) (by simp)
              · exact ext_congr (ih b x (pend ++ (c :: rest).take size) _ h) (by simp)

theorem encodeStringS_ext (grow : Nat → Nat → Nat) (b : Slice) (hb : b.Wf) (s : Bytes) (html : Bool) :
    Ext b (encodeStringS grow b s html) (encodeString s html) := by
  unfold encodeStringS encodeString
  have h0 := ext_refl hb
  split
  · exact ext_congr (ext_append grow h0 _) (by simp)
  · simp only []
    split
    · exact ext_congr (ext_append grow (ext_append grow (ext_append grow h0 [0x22]) s) [0x22]) (by simp)
    · exact ext_congr (ext_append grow (encLoopS_ext grow html b _ _ _ _ _ (ext_append grow h0 [0x22])) [0x22]) (by simp <;> rfl)

/-! ## the unquoter on a slice -/

theorem encodeRune_length_le (r : Nat) : (Utf8.encodeRune r).length ≤ 4 := by
  unfold Utf8.encodeRune
  simp only []
  repeat' split
  all_goals simp

/-- appendRune: four zero bytes are appended (possibly reallocating), the rune is encoded over them, the slice is cut
back: the transient over-append is invisible in the result -/
theorem appendRune_ext (grow : Nat → Nat → Nat) {b0 b : Slice} {x : Bytes} (h : Ext b0 b x) (r : Nat) :
    Ext b0 (appendRuneB (sliceOps grow) b r) (x ++ Utf8.encodeRune r) := by
  obtain ⟨hw, hd⟩ := h
  obtain ⟨h1, h2⟩ := append_data grow b hw [0, 0, 0, 0]
  have hlen := append_len grow b [0, 0, 0, 0]
  have hl := data_length b hw
  have hle : b.len ≤ (b.append grow [0, 0, 0, 0]).arr.length := by
    have := h2; unfold Slice.Wf at this; rw [hlen] at this; omega
  obtain ⟨w1, w2⟩ := writeAt_slice (b.append grow [0, 0, 0, 0]).arr b.len (Utf8.encodeRune r) hle
  have htake : (b.append grow [0, 0, 0, 0]).arr.take b.len = b.data := by
    have e : (b.append grow [0, 0, 0, 0]).arr.take b.len = ((b.append grow [0, 0, 0, 0]).data).take b.len := by
      unfold Slice.data; rw [List.take_take, hlen]; congr 1; omega
    rw [e, h1, ← hl]; exact List.take_left' rfl
  refine ⟨w2, ?_⟩
  show (Slice.mk (writeAt (b.append grow [0, 0, 0, 0]).arr b.len (Utf8.encodeRune r)) (b.len + (Utf8.encodeRune r).length)).data = _
  rw [w1, htake, hd, List.append_assoc]

theorem appendCoerce_ext (grow : Nat → Nat → Nat) (b0 : Slice) :
    ∀ (fuel : Nat) (b : Slice) (x s : Bytes), Ext b0 b x →
      Ext b0 (appendCoerceB (sliceOps grow) fuel b s) (x ++ coerceUTF8 fuel s) := by
  intro fuel
  induction fuel with
  | zero => intro b x s h; simpa [appendCoerceB, coerceUTF8] using h
  | succ fuel ih =>
    intro b x s h
    cases s with
    | nil => simpa [appendCoerceB, coerceUTF8] using h
    | cons c rest =>
      rw [appendCoerceB, coerceUTF8]
      all_goals try (intro hh; cases hh)
      generalize Utf8.decodeRune (c :: rest) = p
      obtain ⟨r, n⟩ := p
      simp only []
      exact ext_congr (ih _ _ _ (ext_append grow h (Utf8.encodeRune r))) (by simp)

/-- agreement of an optional slice result with an optional buffer-free result -/
def OptExt (b0 : Slice) (x : Bytes) : Option Slice → Option Bytes → Prop
  | none, none => True
  | some r, some out => Ext b0 r (x ++ out)
  | _, _ => False

theorem optExt_map {b0 : Slice} {x pre : Bytes} {o : Option Slice} {p : Option Bytes}
    (h : OptExt b0 (x ++ pre) o p) : OptExt b0 x o (p.map (pre ++ ·)) := by
  cases o <;> cases p <;> simp only [OptExt, Option.map] at h ⊢
  exact ext_congr h (by simp)

theorem unquoteLoopB_ext (grow : Nat → Nat → Nat) (b0 : Slice) :
    ∀ (fuel : Nat) (s : Bytes) (b : Slice) (x : Bytes), Ext b0 b x →
      OptExt b0 x (unquoteLoopB (sliceOps grow) fuel s b) (unquoteLoop fuel s) := by
  intro fuel
  induction fuel with
  | zero => intro s b x h; simp only [unquoteLoopB, unquoteLoop, OptExt]
  | succ fuel ih =>
    intro s b x h
    rw [unquoteLoopB, unquoteLoop]
    generalize splitAtBackslash s = sp
    obtain ⟨p, q⟩ := sp
    have hp := appendCoerce_ext grow b0 (p.length + 1) b x p h
    cases q with
    | none => simpa only [OptExt] using hp
    | some q =>
      cases q with
      | nil => simp only [OptExt]
      | cons c t =>
        simp only []
        have step : ∀ (out : Bytes) (t' : Bytes) (b' : Slice),
            Ext b0 b' (x ++ (coerceUTF8 (p.length + 1) p ++ out)) →
            OptExt b0 x (unquoteLoopB (sliceOps grow) fuel t' b')
              ((unquoteLoop fuel t').map (coerceUTF8 (p.length + 1) p ++ out ++ ·)) := by
          intro out t' b' hb'
          exact optExt_map (ih t' b' _ hb')
        have one : ∀ (d : UInt8), Ext b0 ((sliceOps grow).app (appendCoerceB (sliceOps grow) (p.length + 1) b p) [d])
            (x ++ (coerceUTF8 (p.length + 1) p ++ [d])) :=
          fun d => ext_congr (ext_append grow hp [d]) (by simp)
        have rune : ∀ (d : Nat), Ext b0 (appendRuneB (sliceOps grow) (appendCoerceB (sliceOps grow) (p.length + 1) b p) d)
            (x ++ (coerceUTF8 (p.length + 1) p ++ Utf8.encodeRune d)) :=
          fun d => ext_congr (appendRune_ext grow hp d) (by simp)
        split
        · exact step _ _ _ (one _)
        · split
          · exact step _ _ _ (one _)
          · split
            · exact step _ _ _ (one _)
            · split
              · exact step _ _ _ (one _)
              · split
                · exact step _ _ _ (one _)
                · split
                  · exact step _ _ _ (one _)
                  · split
                    · cases parseUnicode t with
                      | none => simp only [OptExt]
                      | some v =>
                        obtain ⟨r1, s1⟩ := v
                        simp only []
                        by_cases hsur : isSurrogate r1 = true
                        · simp only [hsur, if_true]
                          split
                          · rename_i s2
                            cases hpu : parseUnicode s2 with
                            | none => simp only [hpu, OptExt]
                            | some v2 =>
                              obtain ⟨r2, s3⟩ := v2
                              simp only [hpu]
                              split
                              · exact step _ _ _ (rune _)
                              · exact step _ _ _ (rune _)
                          · rename_i hne
                            split
                            · exact (hne _ rfl).elim
                            · exact step _ _ _ (rune _)
                        · simp only [hsur, Bool.false_eq_true, if_false]
                          exact step _ _ _ (rune _)
                    · simp only [OptExt]

/-! ## parseStringUnquote with a scratch slice, and the helpers -/

theorem makeSlice_wf (n : Nat) : (makeSlice n).Wf := by simp [makeSlice, Slice.Wf]
theorem makeSlice_data (n : Nat) : (makeSlice n).data = [] := by simp [makeSlice, Slice.data]

/-- the bytes a destination argument holds (`none` = a nil slice) -/
def optData : Option Slice → Bytes
  | some s => s.data
  | none => []

def OptWf : Option Slice → Prop
  | some s => s.Wf
  | none => True

theorem scratchOr_ok (grow : Nat → Nat → Nat) (b : Option Slice) (hb : OptWf b) (n : Nat) :
    (scratchOr (sliceOps grow) b n).Wf ∧ (scratchOr (sliceOps grow) b n).data = optData b := by
  cases b with
  | none => exact ⟨makeSlice_wf n, makeSlice_data n⟩
  | some s => exact ⟨hb, rfl⟩

/-- **parseStringUnquote with a scratch slice** returns an error exactly when the buffer-free model does; otherwise the
same remainder and either the content as a sub-slice of the input, or a well-formed slice holding the scratch slice's
bytes followed by the content — for every scratch slice (any prefix, capacity), nil included, and every growth policy. -/
theorem psuB_spec (grow : Nat → Nat → Nat) (fl : PFlags) (v : Bytes) (b : Option Slice) (hb : OptWf b) :
    match parseStringUnquote fl v with
    | none => parseStringUnquoteB (sliceOps grow) fl v b = .err
    | some (u, rest) =>
      parseStringUnquoteB (sliceOps grow) fl v b = .plain u rest ∨
      ∃ r, parseStringUnquoteB (sliceOps grow) fl v b = .appended r rest ∧ r.Wf ∧ r.data = optData b ++ u := by
  unfold parseStringUnquote parseStringUnquoteB
  cases parseString fl v with
  | err e => rfl
  | ok k rest =>
    simp only []
    by_cases hk : (k == Kind.unescaped) = true
    · simp only [hk, if_true, true_or]
    · simp only [hk, Bool.false_eq_true, if_false]
      generalize ((List.drop 1 (List.take (v.length - rest.length) v)).take
        ((List.take (v.length - rest.length) v).length - 2)) = s
      obtain ⟨hw, hd⟩ := scratchOr_ok grow b hb s.length
      have hx := unquoteLoopB_ext grow _ (s.length + 1) s _ [] (ext_refl hw)
      cases hA : unquoteLoop (s.length + 1) s with
      | none =>
        cases hB : unquoteLoopB (sliceOps grow) (s.length + 1) s (scratchOr (sliceOps grow) b s.length) with
        | none => rfl
        | some r => rw [hA, hB] at hx; exact hx.elim
      | some u =>
        cases hB : unquoteLoopB (sliceOps grow) (s.length + 1) s (scratchOr (sliceOps grow) b s.length) with
        | none => rw [hA, hB] at hx; exact hx.elim
        | some r =>
          rw [hA, hB] at hx
          refine Or.inr ⟨r, rfl, hx.1, ?_⟩
          rw [hx.2, hd]; simp

/-- what decodeString leaves in the scratch string does not depend on any buffer: it is what the pure decoder stores -/
theorem decodeStringBuf_eq (grow : Nat → Nat → Nat) (fl : PFlags) (s : Bytes) :
    decodeStringBuf grow fl s = unescapeText fl s := by
  unfold decodeStringBuf unescapeText
  split
  · rfl
  · have h := psuB_spec grow fl s none trivial
    cases hp : parseStringUnquote fl s with
    | none => rw [hp] at h; simp only [] at h; rw [h]
    | some ur =>
      obtain ⟨u, rest⟩ := ur
      rw [hp] at h; simp only [] at h
      rcases h with h | ⟨r, h, _, hd⟩
      · rw [h]
      · rw [h]; simpa [optData] using hd

theorem qsound_default (b : Bytes) : Enc.Lemmas.JsonString.QSound {} b := by
  intro p q _
  constructor <;> intro h <;> exact absurd h (by decide)

theorem string_not_null {s : Bytes} (h : hasPrefix s nullText = true) : Spec.Json.string s = none := by
  unfold hasPrefix nullText at h
  cases s with
  | nil => rfl
  | cons c r =>
    simp only [List.isPrefixOf, Bool.and_eq_true, beq_iff_eq] at h
    obtain ⟨rfl, _⟩ := h
    rfl

/-- with flags that are sound for the input (the zero flags of `Unescape` always are) the scratch string is
encoding/json's reading of the string literal the input starts with, and empty when it does not start with one -/
theorem unescapeText_std (fl : PFlags) (s : Bytes) (hq : Enc.Lemmas.JsonString.QSound fl s) :
    unescapeText fl s = Spec.Json.unescapeStd s := by
  unfold unescapeText Spec.Json.unescapeStd
  split
  · rename_i h; rw [string_not_null h]
  · rw [Enc.Lemmas.JsonDecAnyAux.parseStringUnquote_spec fl s hq]
    cases Spec.Json.string s <;> rfl

theorem appendUnescape_ext (grow : Nat → Nat → Nat) (fl : PFlags) (b : Slice) (hb : b.Wf) (s : Bytes) :
    Ext b (appendUnescape grow fl b s) (unescapeText fl s) := by
  unfold appendUnescape
  rw [decodeStringBuf_eq]
  exact ext_congr (ext_append grow (ext_refl hb) _) (by simp)

theorem consumed_nil (v : Bytes) : Spec.Json.consumed v [] = v := by
  simp [Spec.Json.consumed]

/-- AppendUnquote: a lone string literal is unquoted behind the destination's bytes; anything else panics -/
theorem appendUnquote_spec (grow : Nat → Nat → Nat) (v : Bytes) (b : Option Slice) (hb : OptWf b) :
    match Spec.Json.unquoteTok v with
    | some u => ∃ r, appendUnquote grow v b = .ok r ∧ r.Wf ∧ r.data = optData b ++ u
    | none => ∃ c, appendUnquote grow v b = .panic c := by
  have h := psuB_spec grow {} v b hb
  rw [Enc.Lemmas.JsonDecAnyAux.parseStringUnquote_spec {} v (qsound_default v)] at h
  unfold Spec.Json.unquoteTok appendUnquote
  cases hs : Spec.Json.string v with
  | none =>
    rw [hs] at h; simp only [Option.map] at h
    rw [h]; exact ⟨_, rfl⟩
  | some rest =>
    rw [hs] at h; simp only [Option.map] at h
    cases rest with
    | nil =>
      simp only [consumed_nil] at h ⊢
      rcases h with h | ⟨r, h, hw, hd⟩
      · rw [h]
        simp only [List.isEmpty_nil, Bool.not_true, Bool.false_eq_true, if_false]
        have hw0 : (b.getD Slice.empty).Wf ∧ (b.getD Slice.empty).data = optData b := by
          cases b with
          | none => exact ⟨Enc.Lemmas.JsonBuf.empty_wf, Enc.Lemmas.JsonBuf.empty_data⟩
          | some s => exact ⟨hb, rfl⟩
        obtain ⟨a1, a2⟩ := append_data grow _ hw0.1 (Spec.Json.unquoteLit v)
        exact ⟨_, rfl, a2, by rw [a1, hw0.2]⟩
      · rw [h]
        simp only [List.isEmpty_nil, Bool.not_true, Bool.false_eq_true, if_false]
        exact ⟨r, rfl, hw, hd⟩
    | cons c rest =>
      simp only []
      rcases h with h | ⟨r, h, _, _⟩
      · rw [h]; exact ⟨_, rfl⟩
      · rw [h]; exact ⟨_, rfl⟩

theorem encodeString_head (s : Bytes) (html : Bool) : ∃ t, encodeString s html = 0x22 :: t := by
  unfold encodeString
  split
  · exact ⟨_, rfl⟩
  · simp only []
    split
    · exact ⟨s ++ [0x22], by simp⟩
    · exact ⟨_, rfl⟩

theorem escape_data (grow : Nat → Nat → Nat) (s : Bytes) : (escape grow s).data = encodeString s true ∧ (escape grow s).Wf := by
  obtain ⟨h1, h2⟩ := encodeStringS_ext grow (makeSlice (s.length + 10)) (makeSlice_wf _) s true
  exact ⟨by rw [escape, appendEscape, h2, makeSlice_data]; rfl, h1⟩

/-- `Unescape(Escape(s))` is `s` with invalid UTF-8 replaced by U+FFFD, whatever the two growth policies -/
theorem escape_unescape (g1 g2 : Nat → Nat → Nat) (s : Bytes) :
    (unescape g1 (escape g2 s).data).data = Spec.Json.coerceUTF8 s := by
  rw [(escape_data g2 s).1]
  obtain ⟨_, h2⟩ := appendUnescape_ext g1 {} (makeSlice (encodeString s true).length) (makeSlice_wf _) (encodeString s true)
  rw [unescape, h2, makeSlice_data, List.nil_append]
  unfold unescapeText
  obtain ⟨t, ht⟩ := encodeString_head s true
  have hn : hasPrefix (encodeString s true) nullText = false := by rw [ht]; rfl
  rw [hn]
  have hrt := Enc.Lemmas.JsonRTString.parseStringUnquote_encodeString {} s true [] (qsound_default _)
  rw [List.append_nil] at hrt
  rw [hrt]; rfl

/-! ## the statements of Props/C15.lean and Props/C01.lean -/

theorem appendEscape_eq (grow : Nat → Nat → Nat) (b : Slice) (hb : b.Wf) (s : Bytes) (html : Bool) :
    (appendEscape grow b s html).data = b.data ++ Spec.Json.appendString s html ∧
    (appendEscape grow b s html).Wf ∧
    (appendEscape grow b s html).arr.take b.len = b.arr.take b.len := by
  have h := encodeStringS_ext grow b hb s html
  rw [Enc.Lemmas.JsonEncString.encodeString_eq] at h
  exact ⟨h.2, h.1, ext_prefix_cells hb h⟩

theorem appendEscape_oblivious (g1 g2 : Nat → Nat → Nat) (b : Slice) (hb : b.Wf) (s : Bytes) (html : Bool) :
    (appendEscape g1 b s html).data = b.data ++ (appendEscape g2 Slice.empty s html).data := by
  have h1 := encodeStringS_ext g1 b hb s html
  have h2 := encodeStringS_ext g2 Slice.empty Enc.Lemmas.JsonBuf.empty_wf s html
  unfold appendEscape
  rw [h1.2, h2.2, Enc.Lemmas.JsonBuf.empty_data, List.nil_append]

theorem escape_eq (grow : Nat → Nat → Nat) (s : Bytes) : (escape grow s).data = Spec.Json.appendString s true := by
  rw [(escape_data grow s).1, Enc.Lemmas.JsonEncString.encodeString_eq]

theorem appendUnescape_eq (grow : Nat → Nat → Nat) (fl : PFlags) (b : Slice) (hb : b.Wf) (s : Bytes) :
    (appendUnescape grow fl b s).data = b.data ++ unescapeText fl s ∧
    (appendUnescape grow fl b s).Wf ∧
    (appendUnescape grow fl b s).arr.take b.len = b.arr.take b.len := by
  have h := appendUnescape_ext grow fl b hb s
  exact ⟨h.2, h.1, ext_prefix_cells hb h⟩

theorem appendUnescape_eq_std (grow : Nat → Nat → Nat) (b : Slice) (hb : b.Wf) (s : Bytes) :
    (appendUnescape grow {} b s).data = b.data ++ Spec.Json.unescapeStd s := by
  rw [(appendUnescape_eq grow {} b hb s).1, unescapeText_std {} s (qsound_default s)]

theorem appendUnescape_oblivious (g1 g2 : Nat → Nat → Nat) (fl : PFlags) (b : Slice) (hb : b.Wf) (s : Bytes) :
    (appendUnescape g1 fl b s).data = b.data ++ (appendUnescape g2 fl Slice.empty s).data := by
  rw [(appendUnescape_eq g1 fl b hb s).1, (appendUnescape_eq g2 fl Slice.empty Enc.Lemmas.JsonBuf.empty_wf s).1,
    Enc.Lemmas.JsonBuf.empty_data, List.nil_append]

theorem unescape_eq (grow : Nat → Nat → Nat) (s : Bytes) : (unescape grow s).data = Spec.Json.unescapeStd s := by
  rw [unescape, appendUnescape_eq_std grow _ (makeSlice_wf _), makeSlice_data, List.nil_append]

theorem appendUnquote_eq (grow : Nat → Nat → Nat) (v : Bytes) (b : Slice) (hb : b.Wf) :
    match Spec.Json.unquoteTok v with
    | some u => ∃ r, appendUnquote grow v (some b) = .ok r ∧ r.Wf ∧ r.data = b.data ++ u ∧
        r.arr.take b.len = b.arr.take b.len
    | none => ∃ c, appendUnquote grow v (some b) = .panic c := by
  have h := appendUnquote_spec grow v (some b) hb
  cases hu : Spec.Json.unquoteTok v with
  | none => rw [hu] at h; exact h
  | some u =>
    rw [hu] at h
    obtain ⟨r, h1, h2, h3⟩ := h
    exact ⟨r, h1, h2, h3, ext_prefix_cells hb ⟨h2, h3⟩⟩

theorem unquote_eq (grow : Nat → Nat → Nat) (v : Bytes) :
    match Spec.Json.unquoteTok v with
    | some u => ∃ r, unquote grow v = .ok r ∧ r.data = u
    | none => ∃ c, unquote grow v = .panic c := by
  have h := appendUnquote_spec grow v none trivial
  cases hu : Spec.Json.unquoteTok v with
  | none => rw [hu] at h; exact h
  | some u =>
    rw [hu] at h
    obtain ⟨r, h1, _, h3⟩ := h
    exact ⟨r, h1, by simpa [optData] using h3⟩

theorem appendUnquote_oblivious (g1 g2 : Nat → Nat → Nat) (v : Bytes) (b : Slice) (hb : b.Wf) :
    match unquote g2 v with
    | .ok r0 => ∃ r, appendUnquote g1 v (some b) = .ok r ∧ r.data = b.data ++ r0.data
    | .panic _ => ∃ c, appendUnquote g1 v (some b) = .panic c
    | .err _ => False := by
  have h1 := appendUnquote_eq g1 v b hb
  have h2 := unquote_eq g2 v
  cases hu : Spec.Json.unquoteTok v with
  | none =>
    rw [hu] at h1 h2
    obtain ⟨c, hc⟩ := h2
    rw [hc]; exact h1
  | some u =>
    rw [hu] at h1 h2
    obtain ⟨r0, hr0, hd0⟩ := h2
    obtain ⟨r, hr, _, hd, _⟩ := h1
    rw [hr0]; exact ⟨r, hr, by rw [hd, hd0]⟩

#print axioms encodeStringS_ext
#print axioms unquoteLoopB_ext
#print axioms psuB_spec
#print axioms appendUnquote_spec
#print axioms escape_unescape
#print axioms appendEscape_eq
#print axioms appendUnescape_oblivious
#print axioms appendUnquote_oblivious

end Enc.Lemmas.JsonStrHelpers
