import Enc.Lemmas.ProtoTemplateParseG
import Enc.Lemmas.ProtoTemplateInst
import Enc.Lemmas.ProtoTemplateMap
/-!
# `template_rewrite_value` for NESTED messages: definitions

Universe (`PresN d`): message types whose fields are singular scalars of the 15 kinds (`kindOf`) or singular sub-messages
of the same universe, to nesting depth `d`; `tfs` = what TypeOf presents.  `TRes d` = the specification of the result
(positionwise, recursively): untemplated positions unchanged, a templated scalar reads as the value its member denotes, a
templated sub-message is the OLD sub-message with the sub-template applied (`Spec.ProtoTemplate.tmplVal`, `.struct` case).
-/
namespace Enc.Lemmas.ProtoTemplate
open Enc Enc.Spec.Protobuf Enc.Lemmas.ProtoRewriteSpec
open Enc.Lemmas.ProtoSpecFuel (entryFs)
open Enc.Model.Proto (PKind RwT TFields TType lookupFieldByName gvObj gvString gvList PF)
open Enc.Model.Json (GV GVs GMs)

/-- the presented type `tfs` of the Go message type `fs`: every named field is singular, known to the reference decoder
under the same number, and is a scalar of the presented kind or a sub-message presented recursively -/
def PresN : Nat → Fields → TFields → Prop
  | 0, _, _ => False
  | d + 1, fs, tfs =>
    (∀ k n rep tt, lookupFieldByName tfs k = some (n, rep, tt) → 0 < n ∧ n < 2 ^ 61 ∧
      ∃ i o t, findField fs n = some (i, o, t) ∧
        ((rep = false ∧ ∃ kind, tt = .prim kind ∧ kindOf t o = some kind) ∨
         (rep = false ∧ ∃ tgs gs, tt = .msg tgs ∧ deref t = .struct gs ∧ isRepeated t = none ∧
            (∀ k v, unname t ≠ .map k v) ∧ PresN d gs tgs) ∨
         (rep = true ∧ ∃ kind et, tt = .prim kind ∧ isRepeated t = some et ∧ kindOf et o = some kind) ∨
         (rep = true ∧ ∃ tgs gs, tt = .msg tgs ∧ isRepeated t = some (.struct gs) ∧ PresN d gs tgs) ∨
         (rep = false ∧ ∃ ktt vtt kt vt, tt = .map ktt vtt ∧ isRepeated t = none ∧ unname t = .map kt vt ∧
            (∃ kk, ktt = .prim kk ∧ kk ≠ .bytes) ∧ PresN d (entryFs kt vt) (entryT ktt vtt)) ∨
         (rep = true ∧ ∃ tgs gs et, tt = .msg tgs ∧ isRepeated t = some et ∧ deref et = .struct gs ∧ PresN d gs tgs))) ∧
    NamesInj tfs

mutual
/-- distinct keys in every object of the template (as the json decoder delivers them) -/
def KeysNodupV : GV → Prop
  | .obj ms => KeysNodup ms ∧ KeysNodupMs ms
  | .arr vs => KeysNodupVs vs
  | _ => True
def KeysNodupMs : GMs → Prop
  | .nil => True
  | .cons _ v rest => KeysNodupV v ∧ KeysNodupMs rest
def KeysNodupVs : GVs → Prop
  | .nil => True
  | .cons v rest => KeysNodupV v ∧ KeysNodupVs rest
end

theorem keysNodupVs_mem : ∀ (vs : GVs) (j : GV), KeysNodupVs vs → j ∈ Enc.Model.Proto.GVs.toList vs → KeysNodupV j
  | .nil, _, _, h => by simp [Enc.Model.Proto.GVs.toList] at h
  | .cons v rest, j, hn, h => by
    simp only [KeysNodupVs] at hn
    simp only [Enc.Model.Proto.GVs.toList, List.mem_cons] at h
    rcases h with rfl | h
    · exact hn.1
    · exact keysNodupVs_mem rest j hn.2 h

mutual
/-- bound on the bytes one member makes the rewriter write, for inputs shorter than `L` -/
def gvSz (L : Nat) : GV → Nat
  | .obj ms => 20 + gmLen ms * 20 + (20 + gmLen ms * (30 + 2 * gmsMax L ms)) * L   -- covers a message AND a map template
  | .null => 20 + 20 * L                  -- `null` for a sub-message = the empty template: the sub-message is copied
  | .str s => 30 + s.length
  | .arr vs => 30 + gvsSum L vs           -- a repeated field: the elements are concatenated
  | _ => 30
def gmsMax (L : Nat) : GMs → Nat
  | .nil => 0
  | .cons k v rest => max (max (gvSz L v) (60 + k.length + 20 * L)) (gmsMax L rest)   -- the key counts for map entries
def gvsSum (L : Nat) : GVs → Nat
  | .nil => 0
  | .cons v rest => gvSz L v + gvsSum L rest
end

/-- `gvsSum` on the list of elements -/
def gvlSum (L : Nat) : List GV → Nat
  | [] => 0
  | v :: rest => gvSz L v + gvlSum L rest

theorem gvsSum_toList (L : Nat) : ∀ vs : GVs, gvsSum L vs = gvlSum L (Enc.Model.Proto.GVs.toList vs)
  | .nil => by simp [gvsSum, gvlSum, Enc.Model.Proto.GVs.toList]
  | .cons v rest => by simp [gvsSum, gvlSum, Enc.Model.Proto.GVs.toList, gvsSum_toList L rest]

/-- bound on the output of a message template on inputs shorter than `L` -/
def gmsSz (L : Nat) (ms : GMs) : Nat := (20 + gmLen ms * gmsMax L ms) * L

mutual
/-- fuel one member needs, for inputs shorter than `L` -/
def gvFuel (L : Nat) : GV → Nat
  | .obj ms => 2 * L + (gmLen ms + 5 + gmsFuelMax L ms) + 70
  | .null => L + 60
  | .arr vs => gvsLen vs + 4 + gvsFuelMax L vs
  | _ => 2
def gmsFuelMax (L : Nat) : GMs → Nat
  | .nil => 0
  | .cons _ v rest => max (gvFuel L v) (gmsFuelMax L rest)
def gvsFuelMax (L : Nat) : GVs → Nat
  | .nil => 0
  | .cons v rest => max (gvFuel L v) (gvsFuelMax L rest)
def gvsLen : GVs → Nat
  | .nil => 0
  | .cons _ rest => gvsLen rest + 1
end

def gvlFuelMax (L : Nat) : List GV → Nat
  | [] => 0
  | v :: rest => max (gvFuel L v) (gvlFuelMax L rest)

theorem gvsFuelMax_toList (L : Nat) : ∀ vs : GVs, gvsFuelMax L vs = gvlFuelMax L (Enc.Model.Proto.GVs.toList vs)
  | .nil => by simp [gvsFuelMax, gvlFuelMax, Enc.Model.Proto.GVs.toList]
  | .cons v rest => by simp [gvsFuelMax, gvlFuelMax, Enc.Model.Proto.GVs.toList, gvsFuelMax_toList L rest]

theorem gvsLen_toList : ∀ vs : GVs, gvsLen vs = (Enc.Model.Proto.GVs.toList vs).length
  | .nil => by simp [gvsLen, Enc.Model.Proto.GVs.toList]
  | .cons v rest => by simp [gvsLen, Enc.Model.Proto.GVs.toList, gvsLen_toList rest]

def gmsFuel (L : Nat) (ms : GMs) : Nat := gmLen ms + 5 + gmsFuelMax L ms

theorem gmsMax_ge (L : Nat) : ∀ (ms : GMs) (k : Bytes) (jv : GV), GMem k jv ms → gvSz L jv ≤ gmsMax L ms
  | .nil, _, _, h => absurd h (by simp [GMem])
  | .cons k0 v0 rest, k, jv, h => by
    simp only [gmsMax]
    rcases h with ⟨_, rfl⟩ | h
    · omega
    · have := gmsMax_ge L rest k jv h; omega

theorem gmsFuelMax_ge (L : Nat) : ∀ (ms : GMs) (k : Bytes) (jv : GV), GMem k jv ms → gvFuel L jv ≤ gmsFuelMax L ms
  | .nil, _, _, h => absurd h (by simp [GMem])
  | .cons k0 v0 rest, k, jv, h => by
    simp only [gmsFuelMax]
    rcases h with ⟨_, rfl⟩ | h
    · omega
    · have := gmsFuelMax_ge L rest k jv h; omega

theorem keysNodupMs_mem : ∀ (ms : GMs) (k : Bytes) (jv : GV), KeysNodupMs ms → GMem k jv ms → KeysNodupV jv
  | .nil, _, _, _, h => absurd h (by simp [GMem])
  | .cons k0 v0 rest, k, jv, hn, h => by
    simp only [KeysNodupMs] at hn
    rcases h with ⟨_, rfl⟩ | h
    · exact hn.1
    · exact keysNodupMs_mem rest k jv hn.2 h

/-- the value of a repeated field: an empty (or all-elided) list leaves the field absent, which reads as the zero value
`.nil` of the slice -/
def listVal : List Val → Val
  | [] => .nil
  | x :: xs => .list (Vals.ofList (x :: xs))

/-- values of the elements of a repeated-field template; an element that denotes the ZERO value may be missing (known
finding proto-template-repeated-zero) -/
inductive ElemVals (pf : PF) (kind : PKind) (et : Ty) : List GV → List Val → Prop
  | nil : ElemVals pf kind et [] []
  | skip (j js xs) : leafVal pf kind j = some (zeroOf et) → ElemVals pf kind et js xs → ElemVals pf kind et (j :: js) xs
  | keep (j js xs x) : leafVal pf kind j = some x → ElemVals pf kind et js xs → ElemVals pf kind et (j :: js) (x :: xs)

/-- without zero elements (i.e. outside the known finding) the new list is exactly the template's list -/
theorem elemVals_all (pf : PF) (kind : PKind) (et : Ty) (js : List GV) (xs : List Val)
    (hnz : ∀ j, j ∈ js → leafVal pf kind j ≠ some (zeroOf et)) (h : ElemVals pf kind et js xs) :
    js.map (leafVal pf kind) = xs.map some := by
  induction h with
  | nil => rfl
  | skip j js xs hz _ _ => exact absurd hz (hnz j (by simp))
  | keep j js xs x hx _ ih =>
    simp only [List.map_cons, hx]
    rw [ih (fun j' hj' => hnz j' (by simp [hj']))]

/-- values of the elements of a repeated MESSAGE field: element `j` (an object `ms`) denotes the sub-message `sub` with
`R ms sub` (the sub-template applied to the zero sub-message); an element whose value is the zero sub-message `z` may be
missing (known finding proto-template-repeated-zero) -/
inductive ElemMsgs (R : GMs → Vals → Prop) (z : Vals) : List GV → List Vals → Prop
  | nil : ElemMsgs R z [] []
  | skip (j js subs ms) : gvObj j = some ms → R ms z → ElemMsgs R z js subs → ElemMsgs R z (j :: js) subs
  | keep (j js subs ms sub) : gvObj j = some ms → R ms sub → ElemMsgs R z js subs → ElemMsgs R z (j :: js) (sub :: subs)

/-- the value of a map field rebuilt from entries `evss` (each `[key, value]`): no entry leaves the field absent (`.nil`) -/
def mapVal : List Vals → Val
  | [] => .nil
  | evs :: evss => .map ((evs :: evss).foldl (fun m e => mapPut m (valsGet e 0) (valsGet e 1)) .nil)

/-- the entries of a map-field template: member `key: value` denotes the entry `evs` with `R kgv value evs` (`kgv` the key
as a JSON value; the entry template `{"key": kgv, "value": value}` applied to the zero entry); an entry whose key and value
are both zero (`evs = z`) may be missing (known finding proto-template-repeated-zero) -/
inductive MapVals (K : Bytes → Option GV) (R : GV → GV → Vals → Prop) (z : Vals) : GMs → List Vals → Prop
  | nil : MapVals K R z .nil []
  | skip (key value rest evss kgv) : K key = some kgv → R kgv value z → MapVals K R z rest evss →
      MapVals K R z (.cons key value rest) evss
  | keep (key value rest evss kgv evs) : K key = some kgv → R kgv value evs → MapVals K R z rest evss →
      MapVals K R z (.cons key value rest) (evs :: evss)

/-- **the specification of the result**, positionwise and recursive -/
def TRes (pf : PF) : Nat → Fields → TFields → GMs → Vals → Vals → Prop
  | 0, _, _, _, _, _ => False
  | d + 1, fs, tfs, ms, res, res' =>
    res'.length = fs.length ∧
    (∀ j, (∀ k jv n rep tt i o t, GMem k jv ms → lookupFieldByName tfs k = some (n, rep, tt) →
        findField fs n = some (i, o, t) → i ≠ j) → valsGet res' j = valsGet res j) ∧
    (∀ k jv n kind i o t, GMem k jv ms → lookupFieldByName tfs k = some (n, false, .prim kind) →
        findField fs n = some (i, o, t) → ∃ x, leafVal pf kind jv = some x ∧ valsGet res' i = x) ∧
    (∀ k jv n tgs i o t gs, GMem k jv ms → lookupFieldByName tfs k = some (n, false, .msg tgs) →
        findField fs n = some (i, o, t) → deref t = .struct gs →
        ∃ ms' sub sub', gvObj jv = some ms' ∧ unwrapPtr t (valsGet res i) = .struct sub ∧
          unwrapPtr t (valsGet res' i) = .struct sub' ∧ TRes pf d gs tgs ms' sub sub') ∧
    (∀ k jv n kind i o t et, GMem k jv ms → lookupFieldByName tfs k = some (n, true, .prim kind) →
        findField fs n = some (i, o, t) → isRepeated t = some et →
        ∃ js xs, gvList jv = some js ∧ ElemVals pf kind et js xs ∧ valsGet res' i = listVal xs) ∧
    (∀ k jv n tgs i o t gs, GMem k jv ms → lookupFieldByName tfs k = some (n, true, .msg tgs) →
        findField fs n = some (i, o, t) → isRepeated t = some (.struct gs) →
        ∃ js subs, gvList jv = some js ∧
          ElemMsgs (fun ms' sub' => TRes pf d gs tgs ms' (zeroFields gs) sub') (zeroFields gs) js subs ∧
          valsGet res' i = listVal (subs.map Val.struct)) ∧
    (∀ k jv n ktt vtt i o t kt vt, GMem k jv ms → lookupFieldByName tfs k = some (n, false, .map ktt vtt) →
        findField fs n = some (i, o, t) → unname t = .map kt vt →
        ∃ ms' evss, gvObj jv = some ms' ∧
          MapVals (keyGV ktt) (fun kgv value evs => TRes pf d (entryFs kt vt) (entryT ktt vtt) (entryObj kgv value)
            (zeroFields (entryFs kt vt)) evs) (zeroFields (entryFs kt vt)) ms' evss ∧
          valsGet res' i = mapVal evss) ∧
    (∀ k jv n tgs i o t gs et, GMem k jv ms → lookupFieldByName tfs k = some (n, true, .msg tgs) →
        findField fs n = some (i, o, t) → isRepeated t = some et → deref et = .struct gs →
        ∃ js subs, gvList jv = some js ∧
          ElemMsgs (fun ms' sub' => TRes pf d gs tgs ms' (zeroFields gs) sub') (zeroFields gs) js subs ∧
          valsGet res' i = listVal (subs.map fun s => wrapPtr et (.struct s)))

end Enc.Lemmas.ProtoTemplate
