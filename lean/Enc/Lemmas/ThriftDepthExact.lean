import Enc.Lemmas.ThriftSkip
import Enc.Lemmas.ThriftDepth
/-!
C08, thrift: the EXACT characterisation of the skipper's depth limit on well-formed values, by the nesting of the VALUE
(`vdepth ty v` = number of nested containers — lists, sets, maps, structs — actually present in `encode p ty v`), not of
the type (`nest ty`, an upper bound: `vdepth_le_nest`).

  * `skip_exact`        `WF ty v → d ≤ maxDepth → fuelOf ty v ≤ fuel →
                           skip p d fuel (typeOf ty) (encode p ty v ++ rest) =
                             if d + vdepth ty v ≤ maxDepth then ok ((), rest) else err "maxDepth"`
  * `skip_encode_v`     (A) the positive half (no `d ≤ maxDepth` needed: it follows)
  * `skip_encode_deep`  (B) the negative half: a value nested deeper than the room left is REJECTED with `"maxDepth"`
                        (the elements / fields before the first too-deep one are skipped normally)
  * `vdepth_le_nest`    (C) `vdepth ty v ≤ nest ty`, so (A) subsumes `ThriftSkip.skip_encode`

Only EMITTED struct fields count (a nil pointer / an omitted zero value writes nothing); an enum-tagged integer is written
as an I32 (depth 0).
-/
namespace Enc.Lemmas.ThriftDepthExact
open Enc Enc.Model.Thrift Enc.Lemmas.ThriftPrim Enc.Lemmas.ThriftSkip Enc.Lemmas.ThriftDepth

/-! ### maximum of a list -/
def maxL (l : List Nat) : Nat := l.foldr max 0

theorem maxL_nil : maxL [] = 0 := rfl
theorem maxL_cons (a : Nat) (l : List Nat) : maxL (a :: l) = max a (maxL l) := rfl

theorem le_maxL_map {α} (f : α → Nat) : ∀ (l : List α) (a : α), a ∈ l → f a ≤ maxL (l.map f) := by
  intro l
  induction l with
  | nil => intro a ha; cases ha
  | cons b l ih =>
    intro a ha
    rw [List.map_cons, maxL_cons]
    rcases List.mem_cons.mp ha with rfl | ha
    · omega
    · have := ih a ha; omega

theorem maxL_map_le {α} (f : α → Nat) (n : Nat) : ∀ (l : List α), (∀ a ∈ l, f a ≤ n) → maxL (l.map f) ≤ n := by
  intro l
  induction l with
  | nil => intro _; simp [maxL_nil]
  | cons b l ih =>
    intro h
    rw [List.map_cons, maxL_cons]
    have h1 := h b (List.mem_cons_self ..)
    have h2 := ih (fun a ha => h a (List.mem_cons_of_mem _ ha))
    omega

theorem exists_of_lt_maxL_map {α} (f : α → Nat) (k : Nat) : ∀ (l : List α), k < maxL (l.map f) → ∃ a ∈ l, k < f a := by
  intro l
  induction l with
  | nil => intro h; simp [maxL_nil] at h
  | cons b l ih =>
    intro h
    rw [List.map_cons, maxL_cons] at h
    by_cases hb : k < f b
    · exact ⟨b, List.mem_cons_self .., hb⟩
    · obtain ⟨a, ha, hka⟩ := ih (by omega)
      exact ⟨a, List.mem_cons_of_mem _ ha, hka⟩

/-! ### the nesting of a value -/
mutual
/-- number of nested containers (lists, sets, maps, structs) present in `encode p ty v` -/
def vdepth : Ty → Val → Nat
  | .slice t, v =>
    if isU8 t then 0 else (match v with | .list vs => 1 + maxL (vs.toList.map (vdepth t)) | _ => 1)
  | .map k v, x =>
    1 + maxL ((pairsOfVal x).map fun kv => max (vdepth k kv.1) (if isEmptyStruct v then 0 else vdepth v kv.2))
  | .struct fs, v => (match v with | .struct vs => 1 + vdepthFields fs vs | _ => 1)
  | .ptr t, v => (match v with | .ptr x => vdepth t x | _ => vdepth t (zeroOf t))
  | .named _ t, v => vdepth t v
  | _, _ => 0
/-- the deepest EMITTED field -/
def vdepthFields : Fields → Vals → Nat
  | .cons _ tag _ t rest, .cons x vs =>
    max (match emitted tag t x with
         | none => 0
         | some (_, en) => if en then (match derefVal x with | .int _ => 0 | _ => vdepth t x) else vdepth t x)
      (vdepthFields rest vs)
  | _, _ => 0
end

/-- the nesting of what `fieldBody p en t x` writes -/
def fieldDepth (en : Bool) (t : Ty) (x : Val) : Nat :=
  if en then (match derefVal x with | .int _ => 0 | _ => vdepth t x) else vdepth t x

theorem vdepth_slice (t : Ty) (v : Val) : vdepth (.slice t) v =
    if isU8 t then 0 else (match v with | .list vs => 1 + maxL (vs.toList.map (vdepth t)) | _ => 1) := by
  cases v <;> rfl

theorem vdepth_map (k v : Ty) (x : Val) : vdepth (.map k v) x =
    1 + maxL ((pairsOfVal x).map fun kv => max (vdepth k kv.1) (if isEmptyStruct v then 0 else vdepth v kv.2)) := by
  cases x <;> rfl

theorem vdepth_struct (fs : Fields) (v : Val) : vdepth (.struct fs) v =
    (match v with | .struct vs => 1 + vdepthFields fs vs | _ => 1) := by
  cases v <;> rfl

theorem vdepthFields_cons (n tag : String) (e : Bool) (t : Ty) (rest : Fields) (x : Val) (vs : Vals) :
    vdepthFields (.cons n tag e t rest) (.cons x vs) =
      max (match emitted tag t x with | none => 0 | some (_, en) => fieldDepth en t x) (vdepthFields rest vs) := by
  rfl

/-- a value announced as BOOL contains no container (a compact bool field lives in the field header and is never
handed to `skip`) -/
theorem vdepth_bool : (t : Ty) → (x : Val) → typeOf t = .bool → vdepth t x = 0
  | .bool, _, _ => by simp only [vdepth]
  | .int k, _, h => by cases k <;> simp [typeOf] at h
  | .f32, _, h | .f64, _, h | .str, _, h | .bytes, _, h | .any, _, h => by simp [typeOf] at h
  | .arr _ _, _, h => by simp [typeOf] at h
  | .slice t, _, h => by rw [typeOf_slice] at h; split at h <;> simp at h
  | .map _ v, _, h => by simp only [typeOf] at h; split at h <;> simp at h
  | .struct _, _, h => by simp [typeOf] at h
  | .ptr t, x, h => by
    simp only [typeOf] at h
    cases x <;> simp only [vdepth] <;> exact vdepth_bool t _ h
  | .named _ t, x, h => by
    simp only [typeOf] at h
    simp only [vdepth]
    exact vdepth_bool t x h

/-! ### (C) the value's nesting is bounded by the type's -/
mutual
theorem vdepth_le_nest : (ty : Ty) → (v : Val) → vdepth ty v ≤ nest ty
  | .bool, _ | .int _, _ | .f32, _ | .f64, _ | .str, _ | .bytes, _ | .any, _ | .arr _ _, _ => by simp [vdepth]
  | .slice t, v => by
    rw [vdepth_slice, nest_slice]
    by_cases hu : isU8 t = true
    · simp [hu]
    · simp only [hu, Bool.false_eq_true, if_false]
      cases v with
      | list vs =>
        have := maxL_map_le (vdepth t) (nest t) vs.toList (fun a _ => vdepth_le_nest t a)
        simp only
        omega
      | _ => simp only; omega
  | .map k v, x => by
    rw [vdepth_map]
    simp only [nest]
    by_cases he : isEmptyStruct v = true
    · simp only [he, if_true]
      have := maxL_map_le (fun kv : Val × Val => max (vdepth k kv.1) 0) (nest k) (pairsOfVal x)
        (fun a _ => by have := vdepth_le_nest k a.1; omega)
      omega
    · simp only [he, Bool.false_eq_true, if_false]
      have := maxL_map_le (fun kv : Val × Val => max (vdepth k kv.1) (vdepth v kv.2)) (max (nest k) (nest v))
        (pairsOfVal x)
        (fun a _ => by have := vdepth_le_nest k a.1; have := vdepth_le_nest v a.2; omega)
      omega
  | .struct fs, v => by
    rw [vdepth_struct]
    simp only [nest]
    cases v with
    | struct vs => have := vdepthFields_le fs vs; simp only; omega
    | _ => simp only; omega
  | .ptr t, v => by
    simp only [nest]
    cases v <;> simp only [vdepth] <;> exact vdepth_le_nest t _
  | .named _ t, v => by
    simp only [nest, vdepth]
    exact vdepth_le_nest t v
theorem vdepthFields_le : (fs : Fields) → (vs : Vals) → vdepthFields fs vs ≤ nestFields fs
  | .nil, _ => by simp [vdepthFields]
  | .cons _ _ _ _ _, .nil => by simp [vdepthFields]
  | .cons n tag e t rest, .cons x vs => by
    rw [vdepthFields_cons]
    simp only [nestFields]
    have ih := vdepthFields_le rest vs
    have ht := vdepth_le_nest t x
    cases emitted tag t x with
    | none => simp only; omega
    | some ie =>
      obtain ⟨id, en⟩ := ie
      simp only [fieldDepth]
      split
      · split <;> omega
      · omega
end

/-! ### lists, sets, maps: the elements before the first too-deep one are skipped, then `"maxDepth"` -/

theorem dont_maxDepth {α} : dontExpectEOF (.err "maxDepth" : R α) = .err "maxDepth" := by
  unfold dontExpectEOF; split <;> simp_all

theorem skipN_exact {α} (p : Proto) (d : Nat) (t : TType) (enc : α → Bytes) (fu dep : α → Nat)
    (hd : d ≤ Gen.c_thrift_maxDepth) :
    ∀ (l : List α),
      (∀ a ∈ l, ∀ fuel rest, fu a ≤ fuel → skip p d fuel t (enc a ++ rest) =
        if d + dep a ≤ Gen.c_thrift_maxDepth then .ok ((), rest) else .err "maxDepth") →
      ∀ fuel rest, 1 + (l.map fun a => 1 + fu a).sum ≤ fuel →
        skipN p d fuel t l.length ((l.map enc).flatten ++ rest) =
          if d + maxL (l.map dep) ≤ Gen.c_thrift_maxDepth then .ok ((), rest) else .err "maxDepth" := by
  intro l
  induction l with
  | nil =>
    intro _ fuel rest hf
    obtain ⟨f, rfl⟩ : ∃ f, fuel = f + 1 := ⟨fuel - 1, by simp at hf; omega⟩
    simp [skipN, maxL_nil, hd]
  | cons a l ih =>
    intro h fuel rest hf
    simp only [List.map_cons, List.sum_cons] at hf
    obtain ⟨f, rfl⟩ : ∃ f, fuel = f + 1 := ⟨fuel - 1, by omega⟩
    simp only [List.length_cons, List.map_cons, List.flatten_cons, List.append_assoc, skipN, maxL_cons]
    rw [h a (List.mem_cons_self ..) f _ (by omega)]
    by_cases ha : d + dep a ≤ Gen.c_thrift_maxDepth
    · simp only [ha, if_true, dontExpectEOF_ok, Res.bind]
      rw [ih (fun b hb => h b (List.mem_cons_of_mem _ hb)) f rest (by omega)]
      have : (d + max (dep a) (maxL (l.map dep)) ≤ Gen.c_thrift_maxDepth) ↔
          (d + maxL (l.map dep) ≤ Gen.c_thrift_maxDepth) := by omega
      simp only [this]
    · simp only [ha, if_false, dont_maxDepth, Res.bind]
      have : ¬ (d + max (dep a) (maxL (l.map dep)) ≤ Gen.c_thrift_maxDepth) := by omega
      simp only [this, if_false]

theorem skipPairs_exact {α} (p : Proto) (d : Nat) (kt vt : TType) (enck encv : α → Bytes) (fk fv dk dv : α → Nat)
    (hd : d ≤ Gen.c_thrift_maxDepth) :
    ∀ (l : List α),
      (∀ a ∈ l,
        (∀ fuel rest, fk a ≤ fuel → skip p d fuel kt (enck a ++ rest) =
          if d + dk a ≤ Gen.c_thrift_maxDepth then .ok ((), rest) else .err "maxDepth") ∧
        (∀ fuel rest, fv a ≤ fuel → skip p d fuel vt (encv a ++ rest) =
          if d + dv a ≤ Gen.c_thrift_maxDepth then .ok ((), rest) else .err "maxDepth")) →
      ∀ fuel rest, 1 + (l.map fun a => 1 + fk a + fv a).sum ≤ fuel →
        skipPairs p d fuel kt vt l.length ((l.map fun a => enck a ++ encv a).flatten ++ rest) =
          if d + maxL (l.map fun a => max (dk a) (dv a)) ≤ Gen.c_thrift_maxDepth then .ok ((), rest)
          else .err "maxDepth" := by
  intro l
  induction l with
  | nil =>
    intro _ fuel rest hf
    obtain ⟨f, rfl⟩ : ∃ f, fuel = f + 1 := ⟨fuel - 1, by simp at hf; omega⟩
    simp [skipPairs, maxL_nil, hd]
  | cons a l ih =>
    intro h fuel rest hf
    simp only [List.map_cons, List.sum_cons] at hf
    obtain ⟨f, rfl⟩ : ∃ f, fuel = f + 1 := ⟨fuel - 1, by omega⟩
    simp only [List.length_cons, List.map_cons, List.flatten_cons, List.append_assoc, skipPairs, maxL_cons]
    rw [(h a (List.mem_cons_self ..)).1 f _ (by omega)]
    by_cases hk : d + dk a ≤ Gen.c_thrift_maxDepth
    · simp only [hk, if_true, dontExpectEOF_ok, Res.bind]
      rw [(h a (List.mem_cons_self ..)).2 f _ (by omega)]
      by_cases hv : d + dv a ≤ Gen.c_thrift_maxDepth
      · simp only [hv, if_true, dontExpectEOF_ok]
        rw [ih (fun b hb => h b (List.mem_cons_of_mem _ hb)) f rest (by omega)]
        have : (d + max (max (dk a) (dv a)) (maxL (l.map fun a => max (dk a) (dv a))) ≤ Gen.c_thrift_maxDepth) ↔
            (d + maxL (l.map fun a => max (dk a) (dv a)) ≤ Gen.c_thrift_maxDepth) := by omega
        simp only [this]
      · simp only [hv, if_false, dont_maxDepth]
        have : ¬ (d + max (max (dk a) (dv a)) (maxL (l.map fun a => max (dk a) (dv a))) ≤ Gen.c_thrift_maxDepth) := by
          omega
        simp only [this, if_false]
    · simp only [hk, if_false, dont_maxDepth, Res.bind]
      have : ¬ (d + max (max (dk a) (dv a)) (maxL (l.map fun a => max (dk a) (dv a))) ≤ Gen.c_thrift_maxDepth) := by
        omega
      simp only [this, if_false]

/-! ### structs: records that are skipped (`GoodRec`) or too deep (`DeepRec`) -/

/-- a record whose value is rejected with `"maxDepth"` at depth `d`; it is not a BOOL (in the compact protocol a bool
field has no value bytes: it is never handed to `skip`) -/
def DeepRec (p : Proto) (d : Nat) (B : Nat) (f : FieldRec) : Prop :=
  1 ≤ f.id ∧ f.id ≤ 32767 ∧ isReal f.t = true ∧ f.t ≠ .true_ ∧ f.t ≠ .bool ∧
    ∀ fuel rest, B ≤ fuel → skip p d fuel f.t (f.body ++ rest) = .err "maxDepth"

/-- first record deep, or first record good and a later one deep -/
theorem deep_split {G D : FieldRec → Prop} (f : FieldRec) (r : List FieldRec)
    (hg : ∀ g ∈ f :: r, G g ∨ D g) (hex : ∃ g ∈ f :: r, D g) : D f ∨ (G f ∧ ∃ g ∈ r, D g) := by
  obtain ⟨g, hgm, hgd⟩ := hex
  rcases List.mem_cons.mp hgm with rfl | hgm
  · exact Or.inl hgd
  · rcases hg f (List.mem_cons_self ..) with h | h
    · exact Or.inr ⟨h, g, hgm, hgd⟩
    · exact Or.inl h

theorem skipStruct_emit_binary_deep (s : Bool) (d : Nat) (B : Nat) :
    ∀ (l : List FieldRec) (last : Int) (num fuel : Nat) (rest : Bytes),
      (∀ f ∈ l, GoodRec (.binary s) d B f ∨ DeepRec (.binary s) d B f) → (∃ f ∈ l, DeepRec (.binary s) d B f) →
      B + l.length + 1 ≤ fuel →
      skipStruct (.binary s) d fuel (emitFields (.binary s) l last ++ (wStopField (.binary s) ++ rest)) last num
        = .err "maxDepth" := by
  intro l
  induction l with
  | nil => intro _ _ _ _ _ hex _; obtain ⟨f, hf, _⟩ := hex; cases hf
  | cons f r ih =>
    intro last num fuel rest hg hex hf
    simp only [List.length_cons] at hf
    obtain ⟨fu, rfl⟩ : ∃ fu, fuel = fu + 1 := ⟨fuel - 1, by omega⟩
    simp only [emitFields, Proto.delta, Proto.coalesce, Bool.false_and, Bool.false_eq_true, if_false,
      List.append_assoc]
    rcases deep_split f r hg hex with hdp | ⟨hgd, hex'⟩
    · obtain ⟨h1, h2, hr, hnt, hnb, hsk⟩ := hdp
      rw [skipStruct, rField_wField_binary s f.t f.id _ (Or.inl hr) (by omega)]
      simp only [ne_stop_of_real f.t hr, Bool.false_eq_true, if_false, Proto.coalesce, Bool.and_false]
      rw [hsk fu _ (by omega)]
      simp only [dont_maxDepth, Res.bind]
    · obtain ⟨h1, h2, hr, hnt, hsk⟩ := hgd
      rw [skipStruct, rField_wField_binary s f.t f.id _ (Or.inl hr) (by omega)]
      simp only [ne_stop_of_real f.t hr, Bool.false_eq_true, if_false, Proto.coalesce, Bool.and_false]
      rw [hsk fu _ (by omega)]
      simp only [dontExpectEOF_ok, Res.bind, wrap16_id f.id ⟨h1, h2⟩]
      exact ih f.id (num + 1) fu rest (fun g hg' => hg g (List.mem_cons_of_mem _ hg')) hex' (by omega)

theorem skipStruct_emit_compact_deep (d : Nat) (B : Nat) :
    ∀ (l : List FieldRec) (last : Int) (num fuel : Nat) (rest : Bytes),
      0 ≤ last → (∀ f ∈ l, last < f.id) → l.Pairwise (fun a b => a.id < b.id) →
      (∀ f ∈ l, GoodRec .compact d B f ∨ DeepRec .compact d B f) → (∃ f ∈ l, DeepRec .compact d B f) →
      B + l.length + 1 ≤ fuel →
      skipStruct .compact d fuel (emitFields .compact l last ++ (wStopField .compact ++ rest)) last num
        = .err "maxDepth" := by
  intro l
  induction l with
  | nil => intro _ _ _ _ _ _ _ _ hex _; obtain ⟨f, hf, _⟩ := hex; cases hf
  | cons f r ih =>
    intro last num fuel rest hl hlast hpw hg hex hf
    have hlt := hlast f (List.mem_cons_self ..)
    rw [List.pairwise_cons] at hpw
    simp only [List.length_cons] at hf
    obtain ⟨fu, rfl⟩ : ∃ fu, fuel = fu + 1 := ⟨fuel - 1, by omega⟩
    simp only [emitFields, Proto.delta, Proto.coalesce, Bool.true_and, decide_eq_true_eq, List.append_assoc]
    rcases deep_split f r hg hex with hdp | ⟨hgd, hex'⟩
    · obtain ⟨h1, h2, hr, hnt, hnb, hsk⟩ := hdp
      have hb' : (f.t == TType.bool) = false := by simpa using hnb
      simp only [hb', Bool.false_eq_true, if_false, Bool.false_and]
      obtain ⟨h, hrd, hty, hid⟩ := rField_compact_emit f.t f.id last hr hl hlt h2
        (f.body ++ (emitFields .compact r f.id ++ (wStopField .compact ++ rest)))
      rw [skipStruct, hrd]
      have hco : ((f.t == TType.true_ || f.t == TType.bool) && Proto.coalesce .compact) = false := by
        have : (f.t == TType.true_) = false := by simpa using hnt
        simp [this, hb']
      simp only [hty, ne_stop_of_real f.t hr, Bool.false_eq_true, if_false, hco]
      rw [hsk fu _ (by omega)]
      simp only [dont_maxDepth, Res.bind]
    · obtain ⟨h1, h2, hr, hnt, hsk⟩ := hgd
      have ihr := fun num rest' => ih f.id num fu rest' (by omega) hpw.1 hpw.2
        (fun g hg' => hg g (List.mem_cons_of_mem _ hg')) hex' (by omega)
      by_cases hb : f.t = .bool
      · simp only [hb, beq_self_eq_true, Bool.true_and, if_true, List.nil_append]
        have hreal : isReal (if f.isTrue = true then TType.true_ else TType.bool) = true := by
          split <;> rfl
        obtain ⟨h, hrd, hty, hid⟩ := rField_compact_emit _ f.id last hreal hl hlt h2
          (emitFields .compact r f.id ++ (wStopField .compact ++ rest))
        rw [skipStruct, hrd]
        have hst : (h.t == TType.stop) = false := by rw [hty]; split <;> rfl
        have hco : ((h.t == TType.true_ || h.t == TType.bool) && Proto.coalesce .compact) = true := by
          rw [hty]; split <;> rfl
        simp only [hst, Bool.false_eq_true, if_false, hco, if_true, dontExpectEOF_ok, Res.bind, hid,
          wrap16_id f.id ⟨h1, h2⟩]
        exact ihr _ _
      · have hb' : (f.t == TType.bool) = false := by simpa using hb
        simp only [hb', Bool.false_eq_true, if_false, Bool.false_and]
        obtain ⟨h, hrd, hty, hid⟩ := rField_compact_emit f.t f.id last hr hl hlt h2
          (f.body ++ (emitFields .compact r f.id ++ (wStopField .compact ++ rest)))
        rw [skipStruct, hrd]
        have hco : ((f.t == TType.true_ || f.t == TType.bool) && Proto.coalesce .compact) = false := by
          have : (f.t == TType.true_) = false := by simpa using hnt
          simp [this, hb']
        simp only [hty, ne_stop_of_real f.t hr, Bool.false_eq_true, if_false, hco]
        rw [hsk fu _ (by omega)]
        simp only [dontExpectEOF_ok, Res.bind, hid, wrap16_id f.id ⟨h1, h2⟩]
        exact ihr _ _

/-- `if c then ok else err "maxDepth"` at a container that is entered (`d < maxDepth`) -/
theorem cond_succ (d k : Nat) : (d + 1 + k ≤ Gen.c_thrift_maxDepth) ↔ (d + (1 + k) ≤ Gen.c_thrift_maxDepth) := by omega

/-! ### the main induction -/
mutual
/-- **the exact depth behaviour of the skipper on encoder output** -/
theorem skip_exact (p : Proto) : (ty : Ty) → (v : Val) → WF ty v = true → ∀ (d fuel : Nat) (rest : Bytes),
    d ≤ Gen.c_thrift_maxDepth → fuelOf ty v ≤ fuel →
    skip p d fuel (typeOf ty) (encode p ty v ++ rest) =
      if d + vdepth ty v ≤ Gen.c_thrift_maxDepth then .ok ((), rest) else .err "maxDepth"
  | .bool, v, h => by
    intro d fuel rest hd hf
    rw [skip_encode p .bool v h d fuel rest (by simp only [nest]; omega) hf]
    simp [vdepth, hd]
  | .int k, v, h => by
    intro d fuel rest hd hf
    rw [skip_encode p (.int k) v h d fuel rest (by simp only [nest]; omega) hf]
    simp [vdepth, hd]
  | .f32, v, h => by
    intro d fuel rest hd hf
    rw [skip_encode p .f32 v h d fuel rest (by simp only [nest]; omega) hf]
    simp [vdepth, hd]
  | .f64, v, h => by
    intro d fuel rest hd hf
    rw [skip_encode p .f64 v h d fuel rest (by simp only [nest]; omega) hf]
    simp [vdepth, hd]
  | .str, v, h => by
    intro d fuel rest hd hf
    rw [skip_encode p .str v h d fuel rest (by simp only [nest]; omega) hf]
    simp [vdepth, hd]
  | .bytes, v, h => by
    intro d fuel rest hd hf
    rw [skip_encode p .bytes v h d fuel rest (by simp only [nest]; omega) hf]
    simp [vdepth, hd]
  | .slice t, v, h => by
    intro d fuel rest hd hf
    by_cases hu : isU8 t = true
    · rw [skip_encode p (.slice t) v h d fuel rest (by rw [nest_slice]; simp only [hu, if_true]; omega) hf]
      rw [vdepth_slice]
      simp [hu, hd]
    · rw [typeOf_slice, encode_slice, vdepth_slice]
      rw [WF_slice] at h
      rw [fuelOf_slice] at hf
      simp only [hu, Bool.false_eq_true, if_false, Bool.and_eq_true] at h hf ⊢
      obtain ⟨hreal, h⟩ := h
      by_cases hlim : Gen.c_thrift_maxDepth ≤ d
      · obtain ⟨f, rfl⟩ : ∃ f, fuel = f + 1 := ⟨fuel - 1, by cases v <;> simp only at hf <;> omega⟩
        rw [skip_at_limit p d f .list _ rfl hlim]
        symm
        apply if_neg
        cases v <;> simp only <;> omega
      · have htd : tooDeep d = false := tooDeep_false d (by omega)
        have hempty : ∀ fuel, 2 ≤ fuel → skip p d fuel .list (wList p (typeOf t) 0 ++ rest) = .ok ((), rest) := by
          intro fuel hf
          obtain ⟨f, rfl⟩ : ∃ f, fuel = f + 1 := ⟨fuel - 1, by omega⟩
          obtain ⟨g, rfl⟩ : ∃ g, f = g + 1 := ⟨f - 1, by omega⟩
          rw [skip, rList_wList p _ 0 hreal (by omega)]
          simp [Res.bind, skipN, htd]
        cases v with
        | list vs =>
          simp only [Bool.and_eq_true, decide_eq_true_eq] at h hf ⊢
          obtain ⟨hlen, hall⟩ := h
          obtain ⟨f, rfl⟩ : ∃ f, fuel = f + 1 := ⟨fuel - 1, by omega⟩
          have hl := length_toList vs
          rw [skip, List.append_assoc, rList_wList p _ _ hreal hlen]
          simp only [Res.bind, htd, Bool.false_eq_true, if_false]
          rw [hl]
          rw [skipN_exact p (d + 1) (typeOf t) (encode p t) (fuelOf t) (vdepth t) (by omega) vs.toList
            (fun a ha fuel rest hfa => skip_exact p t a (all_toList _ _ hall a ha) (d + 1) fuel rest (by omega) hfa)
            f rest (by omega)]
          simp only [cond_succ]
        | _ =>
          all_goals
            simp only at hf ⊢
            rw [hempty fuel hf]
            rw [if_pos (by omega)]
  | .map k v, x, h => by
    intro d fuel rest hd hf
    rw [encode_map, vdepth_map]
    rw [WF_map] at h
    rw [fuelOf_map] at hf
    simp only [Bool.and_eq_true, decide_eq_true_eq] at h
    obtain ⟨⟨⟨hk, hv⟩, hlen⟩, hall⟩ := h
    have hall' := all_toList _ _ hall
    generalize pairsOfVal x = ps at *
    obtain ⟨f, rfl⟩ : ∃ f, fuel = f + 1 := ⟨fuel - 1, by omega⟩
    by_cases hlim : Gen.c_thrift_maxDepth ≤ d
    · have hc : Lemmas.ThriftDepth.isContainer (typeOf (.map k v)) = true := by
        simp only [typeOf]; split <;> rfl
      rw [skip_at_limit p d f _ _ hc hlim, if_neg (by omega)]
    · have htd : tooDeep d = false := tooDeep_false d (by omega)
      by_cases he : isEmptyStruct v = true
      · simp only [typeOf, he, if_true, Nat.max_zero] at ⊢
        rw [skip, List.append_assoc, rList_wList p _ _ hk hlen]
        simp only [Res.bind, htd, Bool.false_eq_true, if_false]
        rw [skipN_exact p (d + 1) (typeOf k) (fun kv : Val × Val => encode p k kv.1) (fun kv => fuelOf k kv.1)
          (fun kv => vdepth k kv.1) (by omega) ps
          (fun a ha fuel rest hfa => by
            have := hall' a ha
            simp only [Bool.and_eq_true] at this
            exact skip_exact p k a.1 this.1 (d + 1) fuel rest (by omega) hfa)
          f rest (by
            have := sum_le_sum (fun kv : Val × Val => 1 + fuelOf k kv.1)
              (fun kv => 1 + fuelOf k kv.1 + fuelOf v kv.2) (fun a => by omega) ps
            omega)]
        simp only [cond_succ]
      · simp only [typeOf, he, Bool.false_eq_true, if_false] at ⊢
        rw [skip, List.append_assoc, rMap_wMap p _ _ _ hk hv hlen]
        simp only [Res.bind, htd, Bool.false_eq_true, if_false]
        cases ps with
        | nil =>
          obtain ⟨g, rfl⟩ : ∃ g, f = g + 1 := ⟨f - 1, by simp at hf; omega⟩
          have : d + (1 + maxL (List.map (fun kv : Val × Val => max (vdepth k kv.1) (vdepth v kv.2)) [])) ≤
              Gen.c_thrift_maxDepth := by simp only [List.map_nil, maxL_nil]; omega
          rw [if_pos this]
          by_cases hp : p = .compact <;> simp [hp, skipPairs]
        | cons a l =>
          have hne : ¬ (p = .compact ∧ (a :: l).length = 0) := by simp
          simp only [hne, if_false]
          rw [skipPairs_exact p (d + 1) (typeOf k) (typeOf v) (fun kv : Val × Val => encode p k kv.1)
            (fun kv => encode p v kv.2) (fun kv => fuelOf k kv.1) (fun kv => fuelOf v kv.2)
            (fun kv => vdepth k kv.1) (fun kv => vdepth v kv.2) (by omega) (a :: l)
            (fun b hb => by
              have := hall' b hb
              simp only [Bool.and_eq_true, he, Bool.false_or] at this
              exact ⟨fun fuel rest hfa => skip_exact p k b.1 this.1 (d + 1) fuel rest (by omega) hfa,
                     fun fuel rest hfa => skip_exact p v b.2 this.2 (d + 1) fuel rest (by omega) hfa⟩)
            f rest (by omega)]
          simp only [cond_succ]
  | .struct fs, v, h => by
    intro d fuel rest hd hf
    rw [WF_struct] at h
    rw [fuelOf_struct] at hf
    rw [encode_struct, vdepth_struct]
    simp only [typeOf]
    by_cases hlim : Gen.c_thrift_maxDepth ≤ d
    · obtain ⟨f, rfl⟩ : ∃ f, fuel = f + 1 := ⟨fuel - 1, by cases v <;> simp only at hf <;> omega⟩
      rw [skip_at_limit p d f .struct _ rfl hlim]
      symm
      apply if_neg
      cases v <;> simp only <;> omega
    · have htd : tooDeep d = false := tooDeep_false d (by omega)
      cases v with
      | struct vs =>
        simp only [Bool.and_eq_true, decide_eq_true_eq] at h hf ⊢
        obtain ⟨hwf, hnd⟩ := h
        have hlen := (skip_fieldRecs p fs vs hwf).1
        obtain ⟨hall, hgood, hdeep⟩ := skip_fieldRecs_v p fs vs hwf (d + 1)
          (fuelFields fs vs - (fieldRecs p fs vs).length) (by omega) (by omega)
        obtain ⟨f, rfl⟩ : ∃ f, fuel = f + 1 := ⟨fuel - 1, by omega⟩
        rw [skip, List.append_assoc]
        simp only [htd, Bool.false_eq_true, if_false]
        have hfu : fuelFields fs vs - (fieldRecs p fs vs).length + (sortRecs (fieldRecs p fs vs)).length + 1 ≤ f := by
          rw [length_sortRecs]; omega
        have hpw : (sortRecs (fieldRecs p fs vs)).Pairwise (fun a b => a.id < b.id) := by
          apply pairwise_sortRecs
          rw [emittedIds_eq]; exact hnd
        have hids : ∀ g ∈ sortRecs (fieldRecs p fs vs), (0 : Int) < g.id := by
          intro g hg
          rcases hall g ((mem_sortRecs g _).mp hg) with h' | h'
          · have := h'.1; omega
          · have := h'.1; omega
        by_cases hfit : d + 1 + vdepthFields fs vs ≤ Gen.c_thrift_maxDepth
        · rw [if_pos (by omega)]
          have hgood' : ∀ g ∈ sortRecs (fieldRecs p fs vs),
              GoodRec p (d + 1) (fuelFields fs vs - (fieldRecs p fs vs).length) g :=
            fun g hg => hgood hfit g ((mem_sortRecs g _).mp hg)
          cases p with
          | binary s => exact skipStruct_emit_binary s _ _ _ 0 0 f rest hgood' hfu
          | compact => exact skipStruct_emit_compact _ _ _ 0 0 f rest (by omega) hids hpw hgood' hfu
        · rw [if_neg (by omega)]
          obtain ⟨g0, hg0, hg0d⟩ := hdeep (by omega)
          have hall' : ∀ g ∈ sortRecs (fieldRecs p fs vs),
              GoodRec p (d + 1) (fuelFields fs vs - (fieldRecs p fs vs).length) g ∨
                DeepRec p (d + 1) (fuelFields fs vs - (fieldRecs p fs vs).length) g :=
            fun g hg => hall g ((mem_sortRecs g _).mp hg)
          have hex' : ∃ g ∈ sortRecs (fieldRecs p fs vs),
              DeepRec p (d + 1) (fuelFields fs vs - (fieldRecs p fs vs).length) g :=
            ⟨g0, (mem_sortRecs g0 _).mpr hg0, hg0d⟩
          cases p with
          | binary s => exact skipStruct_emit_binary_deep s _ _ _ 0 0 f rest hall' hex' hfu
          | compact => exact skipStruct_emit_compact_deep _ _ _ 0 0 f rest (by omega) hids hpw hall' hex' hfu
      | _ =>
        all_goals
          simp only at hf ⊢
          obtain ⟨f, rfl⟩ : ∃ f, fuel = f + 1 := ⟨fuel - 1, by omega⟩
          rw [skip]
          simp only [htd, Bool.false_eq_true, if_false]
          rw [skipStruct_stop p _ f rest 0 0 (by omega), if_pos (by omega)]
  | .ptr t, v, h => by
    intro d fuel rest hd hf
    cases v with
    | ptr x =>
      simp only [WF, fuelOf, typeOf, encode, vdepth] at h hf ⊢
      exact skip_exact p t x h d fuel rest hd hf
    | _ =>
      all_goals
        simp only [WF, fuelOf, typeOf, encode, vdepth] at h hf ⊢
        exact skip_exact p t (zeroOf t) h d fuel rest hd hf
  | .named _ t, v, h => by
    intro d fuel rest hd hf
    simp only [WF, fuelOf, typeOf, encode, vdepth] at h hf ⊢
    exact skip_exact p t v h d fuel rest hd hf
  | .arr _ _, v, h | .any, v, h => by simp [WF] at h
/-- the emitted fields of a well-formed struct, at depth `d`: every record is skipped or too deep; all are skipped iff
the deepest emitted field fits -/
theorem skip_fieldRecs_v (p : Proto) : (fs : Fields) → (vs : Vals) → WFFields fs vs = true →
    ∀ (d B : Nat), d ≤ Gen.c_thrift_maxDepth → fuelFields fs vs ≤ B + (fieldRecs p fs vs).length →
      (∀ f ∈ fieldRecs p fs vs, GoodRec p d B f ∨ DeepRec p d B f) ∧
      (d + vdepthFields fs vs ≤ Gen.c_thrift_maxDepth → ∀ f ∈ fieldRecs p fs vs, GoodRec p d B f) ∧
      (Gen.c_thrift_maxDepth < d + vdepthFields fs vs → ∃ f ∈ fieldRecs p fs vs, DeepRec p d B f)
  | .nil, vs, _ => by
    intro d B hd _
    simp [fieldRecs, vdepthFields]
    omega
  | .cons _ _ _ _ _, .nil, _ => by
    intro d B hd _
    simp [fieldRecs, vdepthFields]
    omega
  | .cons n tag e t rest, .cons x vs, h => by
    intro d B hd hB
    rw [WFFields_cons, Bool.and_eq_true] at h
    have ihl := (skip_fieldRecs p rest vs h.1).1
    have h2 := h.2
    rw [fieldRecs_cons, fuelFields_cons] at hB
    rw [fieldRecs_cons, vdepthFields_cons]
    cases hem : emitted tag t x with
    | none =>
      simp only [hem] at hB ⊢
      obtain ⟨i1, i2, i3⟩ := skip_fieldRecs_v p rest vs h.1 d B hd (by omega)
      exact ⟨i1, fun hfit => i2 (by omega), fun hdp => i3 (by omega)⟩
    | some ie =>
      obtain ⟨id, en⟩ := ie
      simp only [hem, Bool.and_eq_true, decide_eq_true_eq] at h2
      obtain ⟨⟨⟨hid1, hid2⟩, hreal⟩, hbody⟩ := h2
      simp only [hem, List.length_cons] at hB ⊢
      obtain ⟨i1, i2, i3⟩ := skip_fieldRecs_v p rest vs h.1 d B hd (by omega)
      -- the exact behaviour on this field's body
      have hex0 : ∀ fuel rest', B ≤ fuel → skip p d fuel (typeOf t) (fieldBody p en t x ++ rest') =
          if d + fieldDepth en t x ≤ Gen.c_thrift_maxDepth then .ok ((), rest') else .err "maxDepth" := by
        intro fuel rest' hfu
        simp only [fieldBody, fieldDepth]
        by_cases hen : en = true
        · simp only [hen, if_true] at hbody ⊢
          cases hdv : derefVal x with
          | int i =>
            simp only [hdv, beq_iff_eq] at hbody
            simp only [hbody]
            rw [skip_i32 p d fuel _ (wrap32_range i) rest' (by omega), if_pos (by omega)]
          | _ =>
            all_goals
              simp only [hdv] at hbody
              exact skip_exact p t x hbody d fuel rest' hd (by omega)
        · simp only [hen, Bool.false_eq_true, if_false] at hbody ⊢
          exact skip_exact p t x hbody d fuel rest' hd (by omega)
      have hnb : typeOf t = .bool → fieldDepth en t x = 0 := by
        intro hb
        simp only [fieldDepth]
        split
        · split
          · rfl
          · exact vdepth_bool t x hb
        · exact vdepth_bool t x hb
      generalize fieldDepth en t x = k0 at hex0 hnb ⊢
      have hgood0 : d + k0 ≤ Gen.c_thrift_maxDepth →
          GoodRec p d B { id := id, t := typeOf t, isTrue := fieldIsTrue x, body := fieldBody p en t x } :=
        fun hk => ⟨hid1, hid2, hreal, typeOf_ne_true t, fun fuel rest' hfu => by
          rw [hex0 fuel rest' hfu, if_pos hk]⟩
      have hdeep0 : ¬ d + k0 ≤ Gen.c_thrift_maxDepth →
          DeepRec p d B { id := id, t := typeOf t, isTrue := fieldIsTrue x, body := fieldBody p en t x } :=
        fun hk => ⟨hid1, hid2, hreal, typeOf_ne_true t, fun hb => hk (by rw [hnb hb]; omega),
          fun fuel rest' hfu => by rw [hex0 fuel rest' hfu, if_neg hk]⟩
      refine ⟨fun f hf => ?_, fun hfit f hf => ?_, fun hdp => ?_⟩
      · rcases List.mem_cons.mp hf with rfl | hf
        · by_cases hk : d + k0 ≤ Gen.c_thrift_maxDepth
          · exact Or.inl (hgood0 hk)
          · exact Or.inr (hdeep0 hk)
        · exact i1 f hf
      · rcases List.mem_cons.mp hf with rfl | hf
        · exact hgood0 (by omega)
        · exact i2 (by omega) f hf
      · by_cases hk : d + k0 ≤ Gen.c_thrift_maxDepth
        · obtain ⟨g, hg, hgd⟩ := i3 (by omega)
          exact ⟨g, List.mem_cons_of_mem _ hg, hgd⟩
        · exact ⟨_, List.mem_cons_self .., hdeep0 hk⟩
end

/-! ### the two halves, and the comparison with `skip_encode` -/

/-- (A) a well-formed value whose own nesting fits below the limit is skipped exactly -/
theorem skip_encode_v (p : Proto) (ty : Ty) (v : Val) (h : WF ty v = true) (d fuel : Nat) (rest : Bytes)
    (hd : d + vdepth ty v ≤ Gen.c_thrift_maxDepth) (hf : fuelOf ty v ≤ fuel) :
    skip p d fuel (typeOf ty) (encode p ty v ++ rest) = .ok ((), rest) := by
  rw [skip_exact p ty v h d fuel rest (by omega) hf, if_pos hd]

/-- (B) a well-formed value nested deeper than the room left is rejected with `"maxDepth"` -/
theorem skip_encode_deep (p : Proto) (ty : Ty) (v : Val) (h : WF ty v = true) (d fuel : Nat) (rest : Bytes)
    (hd : d ≤ Gen.c_thrift_maxDepth) (hdeep : Gen.c_thrift_maxDepth < d + vdepth ty v) (hf : fuelOf ty v ≤ fuel) :
    skip p d fuel (typeOf ty) (encode p ty v ++ rest) = .err "maxDepth" := by
  rw [skip_exact p ty v h d fuel rest hd hf, if_neg (by omega)]

/-- (A) subsumes `ThriftSkip.skip_encode` (hypothesis on the TYPE's nesting) -/
theorem skip_encode_of_nest (p : Proto) (ty : Ty) (v : Val) (h : WF ty v = true) (d fuel : Nat) (rest : Bytes)
    (hd : d + nest ty ≤ Gen.c_thrift_maxDepth) (hf : fuelOf ty v ≤ fuel) :
    skip p d fuel (typeOf ty) (encode p ty v ++ rest) = .ok ((), rest) :=
  skip_encode_v p ty v h d fuel rest (by have := vdepth_le_nest ty v; omega) hf

/-! ### non-vacuity -/
/-- `[][]int32{{5}, {}}` nests two containers, `[]int32{}` one, an `int32` none -/
example : vdepth (.slice (.slice (.int .i32)))
    (.list (.cons (.list (.cons (.int 5) .nil)) (.cons (.list .nil) .nil))) = 2 := by decide +kernel
example : vdepth (.slice (.int .i32)) (.list .nil) = 1 := by decide +kernel
example : WF (.slice (.slice (.int .i32)))
    (.list (.cons (.list (.cons (.int 5) .nil)) (.cons (.list .nil) .nil))) = true := by decide +kernel
/-- both branches of `skip_exact` occur: at depth 9998 the value above is skipped, at 9999 it is rejected -/
example : 9998 + 2 ≤ Gen.c_thrift_maxDepth ∧ Gen.c_thrift_maxDepth < 9999 + 2 := by decide

#print axioms skip_exact
#print axioms skip_encode_v
#print axioms skip_encode_deep
#print axioms vdepth_le_nest

end Enc.Lemmas.ThriftDepthExact
