import Enc.Lemmas.ProtoMsgDecode
import Enc.Lemmas.ProtoAllocBound
/-!
# D2, definitions: lenient user types, the concretisation `concV`, `keysPlain`, and their algebra

A user type is LENIENT when its `Unmarshal` overwrites the receiver (the result does not depend on the state it is called
on) and accepts every input.  `RawMessage` is lenient; so is every implementer that parses with a total function.
For such types the decoder of `Model.ProtoMsg` is the payload-level decoder of `Model.Proto` followed by the user's
`Unmarshal` on every leaf that survives: `concV ops c` replaces the payload `.str q` of every `.message` leaf of a value of
codec `c` by `un ops q` (the state `Unmarshal(q)` produces).
-/
namespace Enc.Lemmas.ProtoMsgDecode
open Enc Enc.Model.Proto

/-- `Unmarshal` overwrites its receiver and accepts every input -/
structure Lenient (ops : UserOps) : Prop where
  hres : ∀ cur q, ops.unmarshal cur q = ops.unmarshal .nil q
  htot : ∀ q, ∃ u, ops.unmarshal .nil q = .ok u

/-- the state `Unmarshal(q)` produces (on a fresh receiver) -/
def un (ops : UserOps) (q : Bytes) : Val :=
  match ops.unmarshal .nil q with
  | .ok u => u
  | _ => .nil

theorem Lenient.unmarshal_eq {ops : UserOps} (h : Lenient ops) (cur : Val) (q : Bytes) :
    ops.unmarshal cur q = .ok (un ops q) := by
  rw [h.hres cur q]
  obtain ⟨u, hu⟩ := h.htot q
  simp only [un, hu]

/-- key / value codec of the synthetic `{Key, Elem}` struct of a map entry (`.bool` = "nothing to concretise") -/
def entryKey : Codec → Codec
  | .struct (.cons _ _ _ _ kc _) => kc
  | _ => .bool
def entryVal : Codec → Codec
  | .struct (.cons _ _ _ _ _ (.cons _ _ _ _ vc _)) => vc
  | _ => .bool
def isStructC : Codec → Bool
  | .struct _ => true
  | _ => false

mutual
/-- codec-directed concretisation: the payload of every `.message` leaf becomes the user's state -/
def concV (ops : UserOps) : Codec → Val → Val
  | .message, .str q => un ops q
  | .ptr c, .ptr v => .ptr (concV ops c v)
  | .struct fs, .struct vs => .struct (concF ops fs vs)
  | .slice e _ _ _, .list vs => .list (concL ops e vs)
  | .map _ _ _ _ _ entry, .map kvs => .map (concM ops (entryKey entry) (entryVal entry) kvs)
  | _, v => v
def concF (ops : UserOps) : CFields → Vals → Vals
  | .cons _ _ _ _ c rest, .cons v vs => .cons (concV ops c v) (concF ops rest vs)
  | _, vs => vs
def concL (ops : UserOps) : Codec → Vals → Vals
  | e, .cons v vs => .cons (concV ops e v) (concL ops e vs)
  | _, .nil => .nil
def concM (ops : UserOps) : Codec → Codec → Vals → Vals
  | kc, vc, .cons k (.cons v rest) => .cons (concV ops kc k) (.cons (concV ops vc v) (concM ops kc vc rest))
  | _, _, vs => vs
end

mutual
/-- no `.message` leaf anywhere -/
def noMsg : Codec → Bool
  | .message => false
  | .ptr c => noMsg c
  | .struct fs => noMsgF fs
  | .slice e _ _ _ => noMsg e
  | .map _ _ _ _ _ entry => noMsg entry
  | _ => true
def noMsgF : CFields → Bool
  | .nil => true
  | .cons _ _ _ _ c rest => noMsg c && noMsgF rest
end

mutual
/-- no `.message` leaf inside a map KEY codec (`mapAssign` compares keys by their printed form), and the entry codec of
every map is a struct codec (as `structCodecOf` builds it) -/
def keysPlain : Codec → Bool
  | .ptr c => keysPlain c
  | .struct fs => keysPlainF fs
  | .slice e _ _ _ => keysPlain e
  | .map _ _ _ _ _ entry => isStructC entry && noMsg (entryKey entry) && keysPlain entry
  | _ => true
def keysPlainF : CFields → Bool
  | .nil => true
  | .cons _ _ _ _ c rest => keysPlain c && keysPlainF rest
end

/-! ## `Res` algebra -/
theorem ok_bind {α β : Type} (a : α) (f : α → Res β) : (Res.ok a).bind f = f a := rfl
theorem err_bind {α β : Type} (e : String) (f : α → Res β) : (Res.err e : Res α).bind f = .err e := rfl
theorem panic_bind {α β : Type} (e : String) (f : α → Res β) : (Res.panic e : Res α).bind f = .panic e := rfl
theorem bind_assoc {α β γ : Type} (r : Res α) (f : α → Res β) (g : β → Res γ) :
    (r.bind f).bind g = r.bind fun a => (f a).bind g := by cases r <;> rfl
theorem bind_congr {α β : Type} (r : Res α) (f g : α → Res β) (h : ∀ a, r = .ok a → f a = g a) : r.bind f = r.bind g := by
  cases r with
  | ok a => exact h a rfl
  | err e => rfl
  | panic e => rfl
theorem bind_ok_pair {α β : Type} (r : Res (α × β)) : (r.bind fun x => .ok (x.1, x.2)) = r := by cases r <;> rfl

/-! ## algebra of `concV` -/
section Conc
variable (ops : UserOps)

@[simp] theorem concV_nil (c : Codec) : concV ops c .nil = .nil := by cases c <;> simp only [concV]

theorem noMsg_entryKey (e : Codec) (h : noMsg e = true) : noMsg (entryKey e) = true := by
  cases e with
  | struct fs => cases fs with
    | nil => rfl
    | cons _ _ _ _ c r => simp only [noMsg, noMsgF, Bool.and_eq_true] at h; exact h.1
  | _ => rfl
theorem noMsg_entryVal (e : Codec) (h : noMsg e = true) : noMsg (entryVal e) = true := by
  cases e with
  | struct fs => cases fs with
    | nil => rfl
    | cons _ _ _ _ c r => cases r with
      | nil => rfl
      | cons _ _ _ _ c2 r2 => simp only [noMsg, noMsgF, Bool.and_eq_true] at h; exact h.2.1
  | _ => rfl

mutual
/-- without a `.message` leaf there is nothing to concretise -/
theorem concV_noMsg : ∀ (v : Val) (c : Codec), noMsg c = true → concV ops c v = v
  | .bool _, c, _ | .int _, c, _ | .float _, c, _ | .nil, c, _ => by cases c <;> simp only [concV]
  | .str q, c, h => by cases c <;> first | (simp only [concV]; done) | simp [noMsg] at h
  | .ptr v, c, h => by
    cases c <;> try simp only [concV]
    case ptr c' => rw [concV_noMsg v c' (by simpa only [noMsg] using h)]
  | .struct vs, c, h => by
    cases c <;> try simp only [concV]
    case struct fs => rw [concF_noMsg vs fs (by simpa only [noMsg] using h)]
  | .list vs, c, h => by
    cases c <;> try simp only [concV]
    case slice e _ _ _ => rw [concL_noMsg vs e (by simpa only [noMsg] using h)]
  | .map kvs, c, h => by
    cases c <;> try simp only [concV]
    case map _ _ _ _ _ entry =>
      have h' : noMsg entry = true := by simpa only [noMsg] using h
      rw [concM_noMsg kvs _ _ (noMsg_entryKey _ h') (noMsg_entryVal _ h')]
theorem concF_noMsg : ∀ (vs : Vals) (fs : CFields), noMsgF fs = true → concF ops fs vs = vs
  | .nil, fs, _ => by cases fs <;> simp only [concF]
  | .cons v vs, .nil, _ => by simp only [concF]
  | .cons v vs, .cons _ _ _ _ c rest, h => by
    simp only [noMsgF, Bool.and_eq_true] at h
    simp only [concF, concV_noMsg v c h.1, concF_noMsg vs rest h.2]
theorem concL_noMsg : ∀ (vs : Vals) (e : Codec), noMsg e = true → concL ops e vs = vs
  | .nil, e, _ => by simp only [concL]
  | .cons v vs, e, h => by simp only [concL, concV_noMsg v e h, concL_noMsg vs e h]
theorem concM_noMsg : ∀ (vs : Vals) (kc vc : Codec), noMsg kc = true → noMsg vc = true → concM ops kc vc vs = vs
  | .nil, kc, vc, _, _ => by simp only [concM]
  | .cons k .nil, kc, vc, _, _ => by simp only [concM]
  | .cons k (.cons v rest), kc, vc, hk, hv => by
    simp only [concM, concV_noMsg k kc hk, concV_noMsg v vc hv, concM_noMsg rest kc vc hk hv]
end

mutual
/-- a zero value holds no payload: the target `Unmarshal` allocates behind a nil pointer / for a new element is its own
concretisation -/
theorem concV_zero : ∀ c : Codec, concV ops c (zeroOfCodec c) = zeroOfCodec c
  | .struct fs => by simp only [zeroOfCodec, concV, concF_zero fs]
  | .bool | .int | .int32 | .int64 | .uint | .uint32 | .uint64 | .fixed32 | .fixed64 | .sfixed32 | .sfixed64
  | .float32 | .float64 | .string | .bytes | .byteArray _ | .message | .ptr _ | .slice .. | .map .. | .unsupported => by
    simp only [zeroOfCodec, concV]
theorem concF_zero : ∀ fs : CFields, concF ops fs (zeroOfCodec.zeroCFields fs) = zeroOfCodec.zeroCFields fs
  | .nil => by simp only [zeroOfCodec.zeroCFields, concF]
  | .cons _ _ _ _ c rest => by simp only [zeroOfCodec.zeroCFields, concF, concV_zero c, concF_zero rest]
end

theorem concL_snoc (e : Codec) : ∀ (vs : Vals) (v : Val),
    concL ops e (Vals.ofList (vs.toList ++ [v])) = Vals.ofList ((concL ops e vs).toList ++ [concV ops e v])
  | .nil, v => by simp only [Vals.toList, List.nil_append, Vals.ofList, concL]
  | .cons w ws, v => by
    simp only [Vals.toList, List.cons_append, Vals.ofList, concL, concL_snoc e ws v]

open Enc.Lemmas.ProtoAlloc (nth lookupField_nth)

theorem get_concF : ∀ (fs : CFields) (vs : Vals) (i : Nat) (c : Codec), nth fs i = some c →
    Vals.get (concF ops fs vs) i = concV ops c (Vals.get vs i)
  | .nil, _, _, _, h => by simp [nth] at h
  | .cons _ _ _ _ c0 rest, .nil, i, c, _ => by simp only [concF, Vals.get, concV_nil]
  | .cons _ _ _ _ c0 rest, .cons v vs, 0, c, h => by
    simp only [nth, Option.some.injEq] at h; subst h
    simp only [concF, Vals.get]
  | .cons _ _ _ _ c0 rest, .cons v vs, i + 1, c, h => by
    simp only [nth] at h
    simp only [concF, Vals.get, get_concF rest vs i c h]

theorem set_concF : ∀ (fs : CFields) (vs : Vals) (i : Nat) (c : Codec) (x : Val), nth fs i = some c →
    Vals.set (concF ops fs vs) i (concV ops c x) = concF ops fs (Vals.set vs i x)
  | .nil, _, _, _, _, h => by simp [nth] at h
  | .cons _ _ _ _ c0 rest, .nil, i, c, x, _ => by simp only [concF, Vals.set]
  | .cons _ _ _ _ c0 rest, .cons v vs, 0, c, x, h => by
    simp only [nth, Option.some.injEq] at h; subst h
    simp only [concF, Vals.set]
  | .cons _ _ _ _ c0 rest, .cons v vs, i + 1, c, x, h => by
    simp only [nth] at h
    simp only [concF, Vals.set, set_concF rest vs i c x h]

/-- `MapAssign` commutes with the concretisation when keys carry no user state -/
theorem mapAssign_concM (kc vc : Codec) (hk : noMsg kc = true) (k v : Val) : ∀ kvs : Vals,
    mapAssign (concM ops kc vc kvs) (concV ops kc k) (concV ops vc v) valEqShow
      = concM ops kc vc (mapAssign kvs k v valEqShow)
  | .nil => by simp only [concM, mapAssign]
  | .cons k0 .nil => by simp only [concM, mapAssign]
  | .cons k0 (.cons v0 rest) => by
    have ih := mapAssign_concM kc vc hk k v rest
    simp only [concV_noMsg ops _ kc hk] at ih ⊢
    simp only [concM, mapAssign, concV_noMsg ops _ kc hk]
    split
    · simp only [concM, concV_noMsg ops _ kc hk]
    · simp only [concM, concV_noMsg ops _ kc hk, ih]

theorem keysPlain_nth : ∀ (fs : CFields) (i : Nat) (c : Codec), keysPlainF fs = true → nth fs i = some c → keysPlain c = true
  | .nil, _, _, _, h => by simp [nth] at h
  | .cons _ _ _ _ c0 rest, 0, c, hk, h => by
    simp only [nth, Option.some.injEq] at h; subst h
    simp only [keysPlainF, Bool.and_eq_true] at hk; exact hk.1
  | .cons _ _ _ _ c0 rest, i + 1, c, hk, h => by
    simp only [nth] at h
    simp only [keysPlainF, Bool.and_eq_true] at hk
    exact keysPlain_nth rest i c hk.2 h

theorem concF_length : ∀ (fs : CFields) (vs : Vals), (concF ops fs vs).length = vs.length
  | .nil, vs => by simp only [concF]
  | .cons _ _ _ _ c rest, .nil => by simp only [concF]
  | .cons _ _ _ _ c rest, .cons v vs => by simp only [concF, Vals.length, concF_length rest vs]

/-- the decoded `{Key, Elem}` pair of a map entry is concretised field by field -/
theorem concF_pair (efs : CFields) (k v : Val) :
    concF ops efs (.cons k (.cons v .nil))
      = .cons (concV ops (entryKey (.struct efs)) k) (.cons (concV ops (entryVal (.struct efs)) v) .nil) := by
  have hb : ∀ x, concV ops .bool x = x := fun x => concV_noMsg ops x .bool rfl
  rcases efs with _ | ⟨_, _, _, _, c1, _ | ⟨_, _, _, _, c2, r⟩⟩ <;> simp only [concF, entryKey, entryVal, hb]

end Conc

/-! ## the map step of the decoder -/
/-- go: mapDecodeFuncOf after the entry struct has been decoded: `MapAssign(key, elem)` -/
def entryAssign (cur' : Vals) : Val × Nat → Res (Val × Nat)
  | (.struct (.cons k (.cons v .nil)), n) => .ok (.map (mapAssign cur' k v valEqShow), n)
  | _ => .err "modelType"
def curMap : Val → Vals
  | .map kvs => kvs
  | _ => .nil

theorem entryAssign_ne2 (cur' ws : Vals) (n : Nat) (h : ws.length ≠ 2) : entryAssign cur' (.struct ws, n) = .err "modelType" := by
  rcases ws with _ | ⟨k, _ | ⟨v, _ | ⟨x, r⟩⟩⟩
  · rfl
  · rfl
  · exact absurd rfl h
  · rfl

theorem decodeUsr_map (ops : UserOps) (fuel d number : Nat) (k v : Codec) (ke ve : Bool) (entry : Codec) (b : Bytes)
    (cur : Val) (fl : Flags) :
    decodeUsr ops (fuel + 1) d (.map number k v ke ve entry) b cur fl
      = if b.isEmpty then .ok (.map (curMap cur), 0)
        else (decodeUsr ops fuel d entry b (zeroOfCodec entry) {}).bind (entryAssign (curMap cur)) := by
  simp only [decodeUsr]
  cases cur <;> simp only [curMap]
  all_goals
    split
    · rfl
    · apply bind_congr; intro r _
      obtain ⟨w, n⟩ := r
      cases w with
      | struct ws => rcases ws with _ | ⟨k, _ | ⟨v, _ | ⟨x, r⟩⟩⟩ <;> rfl
      | _ => rfl

theorem decode_map (fuel d number : Nat) (k v : Codec) (ke ve : Bool) (entry : Codec) (b : Bytes) (cur : Val) (fl : Flags) :
    decode (fuel + 1) d (.map number k v ke ve entry) b cur fl
      = if b.isEmpty then .ok (.map (curMap cur), 0)
        else (decode fuel d entry b (zeroOfCodec entry) {}).bind (entryAssign (curMap cur)) := by
  simp only [decode]
  cases cur <;> simp only [curMap]
  all_goals
    split
    · rfl
    · cases decode fuel d entry b (zeroOfCodec entry) {} with
      | err e => rfl
      | panic e => rfl
      | ok r =>
        obtain ⟨w, n⟩ := r
        cases w with
        | struct ws => rcases ws with _ | ⟨k, _ | ⟨v, _ | ⟨x, r⟩⟩⟩ <;> rfl
        | _ => rfl

theorem entryAssign_conc (ops : UserOps) (number : Nat) (k0 v0 : Codec) (ke ve : Bool) (efs : CFields)
    (hk : noMsg (entryKey (.struct efs)) = true) (cur' : Vals) (w : Val) (n : Nat) :
    entryAssign (concM ops (entryKey (.struct efs)) (entryVal (.struct efs)) cur') (concV ops (.struct efs) w, n)
      = (entryAssign cur' (w, n)).bind fun r => .ok (concV ops (.map number k0 v0 ke ve (.struct efs)) r.1, r.2) := by
  cases w with
  | struct ws =>
    simp only [concV]
    by_cases h2 : ws.length = 2
    · rcases ws with _ | ⟨k, _ | ⟨v, _ | ⟨x, r⟩⟩⟩
      · cases h2
      · cases h2
      · rw [concF_pair]
        simp only [entryAssign, ok_bind, concV, mapAssign_concM ops _ _ hk]
      · simp only [Vals.length] at h2; omega
    · rw [entryAssign_ne2 _ _ _ (by rw [concF_length]; exact h2), entryAssign_ne2 _ _ _ h2]; rfl
  | _ => simp only [concV]; rfl

end Enc.Lemmas.ProtoMsgDecode
