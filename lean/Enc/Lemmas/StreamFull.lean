import Enc.Model.Json.Stream
import Enc.Spec.Json.StreamSpec
import Enc.Lemmas.StreamStable
/-!
# JSON streaming (C11): the values a `Decoder` yields do not depend on how the bytes arrive

Model: `Enc.Model.Json.Stream` (`read`, `readFull`, `readValue`, `decodeAll` over a scripted reader).
Specification: `Enc.Spec.Json.specStream` (grammar only, over the concatenated bytes).

Layers, bottom up:

* `readFull_spec` — `io.ReadFull` over a clean script (no event carries an error, `final = eof`) with fuel
  `≥ reader.length + 1`: returns `acc ++ d` with `d ++ pending' = pending` (nothing lost, nothing duplicated), never more
  than asked; without error iff the request was filled; an error only with the script exhausted (`eof` iff nothing was
  read); events only get shorter (`Shorter`); a first event that fits into the request is swallowed whole (`cons`).
  The model's fuel `cap + 2 + reader.length` always suffices.
* `Inv` — decoder state invariant: `final = eof`, clean reader, window without leading white space, `err` is `none` or
  (`eof` and script exhausted), `remain.length ≤ cap`, nothing in the window before the first allocation, `minBuf ≤ cap`
  afterwards. `rest s = s.remain ++ pend s.reader` is the part of the stream not yet consumed.
* `refill_eq`, `refillWith_spec` (`Refilled`) — one compaction + growth + refill keeps `Inv` and `ws (rest s)`, offers at
  least `minRead > 0` free bytes, hence delivers at least one byte or meets the end of the script.
* `readValue_spec` — one `readValue` call on a state with `Inv` returns what the model parser says about ALL of
  `ws (rest s)` (`Step`): `eof` if nothing is left, `syntax` / `unexpectedEof` if the parser fails definitively / for
  lack of input on the whole rest, otherwise the value with the same extent and kind, in a state with `Inv` whose rest is
  what follows the value. Uses `StreamStable.window_ok_stable` / `window_err_stable` for the windows seen before the
  end of the script. Generic in a measure `M` decreased by every refill and an extra invariant `J`.
* `decodeAllG_spec` — the `Decode` loop (`decodeAllG rf`: per-call fuel `rf s`; `decodeAll` is `rf = modelFuel`
  = `pendingBytes reader + reader.length + 8`, `decodeAll_eq`) equals `wholeStream`, the model parser iterated over the
  concatenated bytes.
* `wholeStream_erase` — `wholeStream` erased = `specStream` (via `JsonValue.parseValue_toOpt`).

Main results (hypotheses: `0 < minRead ≤ minBuf`, clean script; zero-length and arbitrarily large reads included):
`decodeAll_clean`, `decodeAll_clean_limit`, `decodeAll_whole`, `chunking_independent`, `single_chunk` for the model's
`decodeAll`, and `decodeAllG_clean`, `decodeAllG_whole`, `chunking_independent_G`, `single_chunk_G` for any per-call fuel of
at least `pending bytes + pending events + 2`.
Findings (historical): `fuel_counterexample`, `fuel_counterexample_ws` — the fuel `reader.length + 8` that `decodeAll` used
before was not always enough (`oldFuel_whole`: when it was).
-/
namespace Enc.Lemmas.StreamFull
open Enc Enc.Model.Json Enc.Model.Json.Stream
open Enc.Spec.Json (ws value SOut specStream)

def pend (r : Reader) : Bytes := (r.map (·.data)).flatten
def Clean (r : Reader) : Prop := ∀ e ∈ r, e.err = none
def Shorter (r' r : Reader) : Prop := ∀ e' ∈ r', ∃ e ∈ r, e'.data.length ≤ e.data.length

@[simp] theorem pend_nil : pend [] = [] := rfl
@[simp] theorem pend_cons (e : Ev) (r : Reader) : pend (e :: r) = e.data ++ pend r := by simp [pend]

theorem Shorter.refl (r : Reader) : Shorter r r := fun e he => ⟨e, he, Nat.le_refl _⟩
theorem Shorter.trans {a b c : Reader} (h1 : Shorter a b) (h2 : Shorter b c) : Shorter a c := by
  intro e he
  obtain ⟨e1, he1, hl1⟩ := h1 e he
  obtain ⟨e2, he2, hl2⟩ := h2 e1 he1
  exact ⟨e2, he2, Nat.le_trans hl1 hl2⟩
theorem Shorter.tail (e : Ev) (r : Reader) : Shorter r (e :: r) :=
  fun x hx => ⟨x, List.mem_cons_of_mem _ hx, Nat.le_refl _⟩

theorem read_nil (final : RErr) (k : Nat) : Stream.read final [] k = ([], some final, []) := rfl
theorem read_cons_le (final : RErr) (e : Ev) (tl : Reader) (k : Nat) (h : e.data.length ≤ k) :
    Stream.read final (e :: tl) k = (e.data, e.err, tl) := by simp [Stream.read, h]
theorem read_cons_gt (final : RErr) (e : Ev) (tl : Reader) (k : Nat) (h : ¬ e.data.length ≤ k) :
    Stream.read final (e :: tl) k = (e.data.take k, none, { e with data := e.data.drop k } :: tl) := by
  simp [Stream.read, h]

theorem readFull_done (final : RErr) (fuel : Nat) (r : Reader) (want : Nat) (acc : Bytes) (h : want ≤ acc.length) :
    readFull final fuel r want acc = (acc, none, r) := by
  cases fuel <;> simp [readFull, h]

theorem readFull_succ (final : RErr) (f : Nat) (r : Reader) (want : Nat) (acc : Bytes) (h : acc.length < want) :
    readFull final (f + 1) r want acc =
      match Stream.read final r (want - acc.length) with
      | (d, e, r') =>
        match e with
        | none => readFull final f r' want (acc ++ d)
        | some x =>
          if (acc ++ d).length ≥ want then (acc ++ d, none, r')
          else if (acc ++ d).length > 0 ∧ x == .eof then (acc ++ d, some .unexpectedEof, r')
          else (acc ++ d, some (match x with | .eof => .eof | .other => .other), r') := by
  rw [readFull]
  simp only [ge_iff_le, Nat.not_le.mpr h, if_false]
  rfl

/-- what one `io.ReadFull` over a clean script does -/
structure RF (r : Reader) (want : Nat) (acc : Bytes) (res : Bytes × Option FErr × Reader) : Prop where
  data : ∃ d, res.1 = acc ++ d ∧ d ++ pend res.2.2 = pend r
  clean : Clean res.2.2
  len : res.2.2.length ≤ r.length
  shorter : Shorter res.2.2 r
  bound : res.1.length ≤ max want acc.length
  enone : res.2.1 = none → want ≤ res.1.length
  esome : res.2.1 ≠ none → res.2.2 = [] ∧ res.1.length < want ∧
    (res.2.1 = some .eof ∧ res.1 = [] ∨ res.2.1 = some .unexpectedEof ∧ res.1 ≠ [])
  cons : ∀ e0 tl, r = e0 :: tl → acc.length < want → e0.data.length ≤ want - acc.length → res.2.2.length ≤ tl.length

theorem RF.stay (r : Reader) (want : Nat) (acc : Bytes) (hc : Clean r) (hw : want ≤ acc.length) :
    RF r want acc (acc, none, r) :=
  ⟨⟨[], by simp, by simp⟩, hc, Nat.le_refl _, Shorter.refl _, by simp; omega, fun _ => hw, fun h => absurd rfl h,
      fun _ _ _ h => by omega⟩

theorem readFull_spec (want : Nat) : ∀ (fuel : Nat) (r : Reader) (acc : Bytes), Clean r →
    (acc.length < want → r.length + 1 ≤ fuel) → RF r want acc (readFull .eof fuel r want acc) := by
  intro fuel
  induction fuel with
  | zero =>
    intro r acc hc hf
    have hw : want ≤ acc.length := by
      apply Nat.le_of_not_lt; intro h; have := hf h; omega
    rw [readFull_done _ _ _ _ _ hw]
    exact RF.stay r want acc hc hw
  | succ f ih =>
    intro r acc hc hf
    by_cases hw : want ≤ acc.length
    · rw [readFull_done _ _ _ _ _ hw]
      exact RF.stay r want acc hc hw
    · have hlt : acc.length < want := Nat.lt_of_not_le hw
      have hfuel := hf hlt
      rw [readFull_succ _ _ _ _ _ hlt]
      cases r with
      | nil =>
        rw [read_nil]
        simp only [List.append_nil, ge_iff_le, hw, if_false]
        by_cases ha : acc = []
        · subst ha
          simp
          exact ⟨⟨[], by simp, by simp⟩, hc, Nat.le_refl _, Shorter.refl _, by simp, fun h => by simp at h,
            fun _ => ⟨rfl, hlt, Or.inl ⟨rfl, rfl⟩⟩, fun _ _ h => by simp at h⟩
        · have hpos : acc.length > 0 := List.length_pos_iff.mpr ha
          simp [hpos]
          exact ⟨⟨[], by simp, by simp⟩, hc, Nat.le_refl _, Shorter.refl _, by simp; omega, fun h => by simp at h,
            fun _ => ⟨rfl, hlt, Or.inr ⟨rfl, ha⟩⟩, fun _ _ h => by simp at h⟩
      | cons e tl =>
        have hce : e.err = none := hc e (List.mem_cons_self ..)
        have hctl : Clean tl := fun x hx => hc x (List.mem_cons_of_mem _ hx)
        by_cases hk : e.data.length ≤ want - acc.length
        · rw [read_cons_le _ _ _ _ hk, hce]
          simp only
          have hfu : (acc ++ e.data).length < want → tl.length + 1 ≤ f := by
            intro _; simp at hfuel; omega
          have R := ih tl (acc ++ e.data) hctl hfu
          obtain ⟨d, hd1, hd2⟩ := R.data
          refine ⟨⟨e.data ++ d, by rw [hd1]; simp, by simp [hd2]⟩, R.clean, ?_, R.shorter.trans (Shorter.tail _ _), ?_,
            R.enone, R.esome, ?_⟩
          · have := R.len; simp; omega
          · have := R.bound; simp at this ⊢; omega
          · intro e0 tl' heq _ _
            cases heq
            exact R.len
        · rw [read_cons_gt _ _ _ _ hk]
          simp only
          have hw' : want ≤ (acc ++ List.take (want - acc.length) e.data).length := by
            simp [List.length_take]; omega
          rw [readFull_done _ _ _ _ _ hw']
          refine ⟨⟨_, rfl, by simp [← List.append_assoc]⟩, ?_, by simp, ?_, ?_, fun _ => hw', fun h => absurd rfl h, ?_⟩
          · intro x hx
            rcases List.mem_cons.mp hx with rfl | hx
            · exact hce
            · exact hctl x hx
          · intro x hx
            rcases List.mem_cons.mp hx with rfl | hx
            · exact ⟨e, List.mem_cons_self .., by simp⟩
            · exact ⟨x, List.mem_cons_of_mem _ hx, Nat.le_refl _⟩
          · simp [List.length_take]; omega
          · intro e0 tl' heq _ h
            cases heq
            exact absurd h hk

def tryParse (s : St) : Option (Out × St) :=
  if s.remain.isEmpty then none
  else
    let fl := internalParseFlags s.remain
    match parseValue fl 0 (fuelFor s.remain) s.remain with
    | .ok k r =>
      if !r.isEmpty || s.err == some .eof || !k.isNum then
        let (rem, n) := skipN r
        let vlen := s.remain.length - r.length
        some (.value (s.remain.take vlen) k, { s with remain := rem, offset := s.offset + vlen + n })
      else none
    | .err restEmpty => if !restEmpty then some (.syntax, s) else none

def errOut (s : St) (e : FErr) : Out :=
  match e with
  | .eof => if !s.remain.isEmpty then Out.unexpectedEof else Out.eof
  | .unexpectedEof => Out.unexpectedEof
  | .other => Out.readerErr

def refill (minBuf minRead : Nat) (s : St) : St :=
  let (buf, cap) := if !s.started then (([] : Bytes), minBuf) else (s.remain.take s.cap, s.cap)
  let cap := if cap - buf.length < minRead then 2 * cap else cap
  let (data, e, rd) := readFull s.final (cap + 2 + s.reader.length) s.reader (cap - buf.length) []
  let buf := buf ++ data
  let e' : Option FErr := if data.length > 0 then none else (match e with | some .unexpectedEof => some .eof | x => x)
  let (rem, n) := skipN buf
  { s with started := true, buffer := buf, cap := cap, remain := rem, offset := s.offset + n, err := e', reader := rd }

theorem readValue_succ (minBuf minRead n : Nat) (s : St) :
    readValue minBuf minRead (n + 1) s =
      match tryParse s with
      | some x => x
      | none =>
        match s.err with
        | some e => (errOut s e, s)
        | none => readValue minBuf minRead n (refill minBuf minRead s) := by
  rfl

def rest (s : St) : Bytes := s.remain ++ pend s.reader

structure Inv (minBuf : Nat) (s : St) : Prop where
  final : s.final = .eof
  clean : Clean s.reader
  nows : skipSpacesN s.remain = s.remain
  err : s.err = none ∨ (s.err = some .eof ∧ s.reader = [])
  cap : s.remain.length ≤ s.cap
  notStarted : s.started = false → s.remain = []
  started : s.started = true → minBuf ≤ s.cap

def refillWith (s : St) (cap1 : Nat) : St :=
  let res := readFull s.final (cap1 + 2 + s.reader.length) s.reader (cap1 - s.remain.length) []
  let buf := s.remain ++ res.1
  { s with started := true, buffer := buf, cap := cap1, remain := skipSpacesN buf,
           offset := s.offset + (buf.length - (skipSpacesN buf).length),
           err := if res.1.length > 0 then none else (match res.2.1 with | some .unexpectedEof => some .eof | x => x),
           reader := res.2.2 }

theorem refill_eq {minBuf minRead : Nat} {s : St} (hI : Inv minBuf s) (h0 : 0 < minRead) (h1 : minRead ≤ minBuf) :
    ∃ cap1, minBuf ≤ cap1 ∧ s.remain.length + minRead ≤ cap1 ∧ refill minBuf minRead s = refillWith s cap1 := by
  cases hs : s.started with
  | false =>
    have hr := hI.notStarted hs
    refine ⟨if minBuf - 0 < minRead then 2 * minBuf else minBuf, ?_, ?_, ?_⟩
    · split <;> omega
    · rw [hr]; split <;> simp <;> omega
    · simp only [refill, refillWith, hs, hr, skipN]
      rfl
  | true =>
    have hm := hI.started hs
    have hc := hI.cap
    have ht : s.remain.take s.cap = s.remain := List.take_of_length_le hc
    refine ⟨if s.cap - s.remain.length < minRead then 2 * s.cap else s.cap, ?_, ?_, ?_⟩
    · split <;> omega
    · split <;> omega
    · simp only [refill, refillWith, hs, ht, skipN]
      rfl

theorem ws_ws_append (a b : Bytes) : ws (ws a ++ b) = ws (a ++ b) := by
  induction a with
  | nil => rfl
  | cons c r ih =>
    by_cases h : Spec.Json.isWs c = true
    · simp only [Spec.Json.ws, h, if_true, List.cons_append]; exact ih
    · have h' : Spec.Json.isWs c = false := by simpa using h
      simp [Spec.Json.ws, h']

/-- what one refill does to a state satisfying the invariant (reader not yet known to be exhausted) -/
structure Refilled (minBuf : Nat) (s s' : St) (cap1 : Nat) : Prop where
  inv : Inv minBuf s'
  rest : ws (rest s') = ws (rest s)
  len : s'.reader.length ≤ s.reader.length
  shorter : Shorter s'.reader s.reader
  total : s'.remain.length + (pend s'.reader).length ≤ s.remain.length + (pend s.reader).length
  pendLe : (pend s'.reader).length ≤ (pend s.reader).length
  progress : s'.err = none → (pend s'.reader).length < (pend s.reader).length
  atEnd : s.reader = [] → s'.err ≠ none
  consume : ∀ e0 tl, s.reader = e0 :: tl → e0.data.length + s.remain.length ≤ cap1 → s'.reader.length ≤ tl.length

theorem refillWith_spec {minBuf : Nat} {s : St} {cap1 : Nat} (hI : Inv minBuf s)
    (hcap : s.remain.length < cap1) (hmb : minBuf ≤ cap1) : Refilled minBuf s (refillWith s cap1) cap1 := by
  have R := readFull_spec (cap1 - s.remain.length) (cap1 + 2 + s.reader.length) s.reader [] hI.clean (by intro _; omega)
  rw [← hI.final] at R
  generalize hres : readFull s.final (cap1 + 2 + s.reader.length) s.reader (cap1 - s.remain.length) [] = res at R
  have hs' : refillWith s cap1 =
      { s with started := true, buffer := s.remain ++ res.1, cap := cap1, remain := skipSpacesN (s.remain ++ res.1),
               offset := s.offset + ((s.remain ++ res.1).length - (skipSpacesN (s.remain ++ res.1)).length),
               err := if res.1.length > 0 then none else (match res.2.1 with | some .unexpectedEof => some .eof | x => x),
               reader := res.2.2 } := by
    simp only [refillWith, hres]
  obtain ⟨d, hd1, hd2⟩ := R.data
  simp only [List.nil_append] at hd1
  have hbound : res.1.length ≤ cap1 - s.remain.length := by
    have := R.bound; simp at this; exact this
  have hskip : (skipSpacesN (s.remain ++ res.1)).length ≤ (s.remain ++ res.1).length := by
    rw [JsonWs.skipSpacesN_eq_ws]; exact JsonGrammar.ws_length_le _
  rw [hs']
  refine ⟨⟨hI.final, R.clean, ?_, ?_, ?_, fun h => by simp at h, fun _ => hmb⟩, ?_, R.len, R.shorter, ?_, ?_, ?_, ?_, ?_⟩
  · simp only [JsonWs.skipSpacesN_eq_ws, JsonGrammar.ws_ws]
  · show (if res.1.length > 0 then none else _) = none ∨ _
    by_cases hpos : res.1.length > 0
    · left; simp [hpos]
    · right
      have hne : res.2.1 ≠ none := by
        intro h; have := R.enone h; omega
      obtain ⟨h1, _, h3⟩ := R.esome hne
      refine ⟨?_, h1⟩
      rcases h3 with ⟨h3, _⟩ | ⟨h3, _⟩ <;> simp [hpos, h3]
  · show (skipSpacesN (s.remain ++ res.1)).length ≤ cap1
    simp only [List.length_append] at hskip; omega
  · show ws (skipSpacesN (s.remain ++ res.1) ++ pend res.2.2) = ws (s.remain ++ pend s.reader)
    rw [JsonWs.skipSpacesN_eq_ws, ws_ws_append, ← hd2, hd1, List.append_assoc]
  · show (skipSpacesN (s.remain ++ res.1)).length + (pend res.2.2).length ≤ _
    have : (pend s.reader).length = d.length + (pend res.2.2).length := by rw [← hd2]; simp
    have hl : res.1.length = d.length := by rw [hd1]
    simp only [List.length_append] at hskip; omega
  · show (pend res.2.2).length ≤ _
    rw [← hd2]; simp
  · show (if res.1.length > 0 then none else _) = none → (pend res.2.2).length < _
    intro h
    have hpos : res.1.length > 0 := by
      apply Nat.lt_of_not_le; intro hle
      have hz : ¬ res.1.length > 0 := by omega
      have hne : res.2.1 ≠ none := by
        intro h'; have := R.enone h'; omega
      obtain ⟨_, _, h3⟩ := R.esome hne
      rcases h3 with ⟨h3, _⟩ | ⟨h3, _⟩ <;> simp [hz, h3] at h
    have : (pend s.reader).length = d.length + (pend res.2.2).length := by rw [← hd2]; simp
    rw [hd1] at hpos; omega
  · show s.reader = [] → (if res.1.length > 0 then none else _) ≠ none
    intro hr
    have hd0 : d = [] := by
      have : d ++ pend res.2.2 = [] := by rw [hd2, hr]; rfl
      exact (List.append_eq_nil_iff.mp this).1
    have hz : ¬ res.1.length > 0 := by rw [hd1, hd0]; simp
    have hne : res.2.1 ≠ none := by
      intro h'; have := R.enone h'; rw [hd1, hd0] at this; simp at this; omega
    obtain ⟨_, _, h3⟩ := R.esome hne
    rcases h3 with ⟨h3, _⟩ | ⟨h3, _⟩ <;> simp [hz, h3]
  · intro e0 tl hr hle
    exact R.cons e0 tl hr (by simp; omega) (by simp; omega)

/-! ### one `readValue` call -/

def erase : Out → SOut
  | .value raw _ => .value raw
  | .eof => .eof
  | .unexpectedEof => .err
  | .syntax => .err
  | .readerErr => .err

/-- the grammar fuel the specification uses -/
abbrev specFuel (b : Bytes) : Nat := 3 * b.length + 8

/-- the model parser applied to a whole byte string, exactly as `readValue` applies it to its window -/
abbrev parseWin (b : Bytes) : PR := parseValue (internalParseFlags b) 0 (fuelFor b) b

/-- what one `readValue` call must deliver when the not yet consumed part of the stream, white space skipped, is `b`:
exactly what the parser says about ALL of `b` (not about the window the decoder happens to hold) -/
def Step (minBuf : Nat) (J : St → Prop) (b : Bytes) (o : Out) (s' : St) : Prop :=
  (b = [] ∧ o = .eof) ∨
  (b ≠ [] ∧ parseWin b = .err false ∧ o = .syntax) ∨
  (b ≠ [] ∧ parseWin b = .err true ∧ o = .unexpectedEof) ∨
  (∃ r k, b ≠ [] ∧ parseWin b = .ok k r ∧ o = .value (b.take (b.length - r.length)) k ∧
    Inv minBuf s' ∧ J s' ∧ ws (rest s') = ws r)

theorem skipSpaces_of_N {w : Bytes} (h : skipSpacesN w = w) : skipSpaces w = w := by
  rw [JsonWs.skipSpaces_eq_ws, ← JsonWs.skipSpacesN_eq_ws]; exact h

/-- model parser on a whole window = grammar -/
theorem spec_of_parse {b : Bytes} (hb : skipSpaces b = b) :
    JsonString.toOpt (parseValue (internalParseFlags b) 0 (fuelFor b) b) = value (specFuel b) 10000 b := by
  have h := JsonValue.parseValue_toOpt (internalParseFlags b) 0 (fuelFor b) (specFuel b) b (Nat.zero_le _)
    (by simp [fuelFor]) (by simp [specFuel]; omega) (StreamStable.window_qsound hb)
  exact h

theorem tryParse_nil {s : St} (h : s.remain = []) : tryParse s = none := by
  simp [tryParse, h]

theorem tryParse_ok_accept {s : St} {k : Kind} {r : Bytes} (hne : s.remain ≠ [])
    (hp : parseValue (internalParseFlags s.remain) 0 (fuelFor s.remain) s.remain = .ok k r)
    (hc : (!r.isEmpty || s.err == some .eof || !k.isNum) = true) :
    tryParse s = some (.value (s.remain.take (s.remain.length - r.length)) k,
      { s with remain := skipSpacesN r, offset := s.offset + (s.remain.length - r.length) + (r.length - (skipSpacesN r).length) }) := by
  have : s.remain.isEmpty = false := by cases h : s.remain <;> simp_all
  simp only [tryParse, this, hp, hc, skipN]
  rfl

theorem tryParse_ok_wait {s : St} {k : Kind} {r : Bytes}
    (hp : parseValue (internalParseFlags s.remain) 0 (fuelFor s.remain) s.remain = .ok k r)
    (hc : (!r.isEmpty || s.err == some .eof || !k.isNum) = false) : tryParse s = none := by
  simp only [tryParse, hp, hc]
  split <;> rfl

theorem tryParse_err_false {s : St} (hne : s.remain ≠ [])
    (hp : parseValue (internalParseFlags s.remain) 0 (fuelFor s.remain) s.remain = .err false) :
    tryParse s = some (.syntax, s) := by
  have : s.remain.isEmpty = false := by cases h : s.remain <;> simp_all
  simp [tryParse, this, hp]

theorem tryParse_err_true {s : St}
    (hp : parseValue (internalParseFlags s.remain) 0 (fuelFor s.remain) s.remain = .err true) :
    tryParse s = none := by
  simp only [tryParse, hp]
  split <;> rfl

theorem ws_fix_append {w : Bytes} (x : Bytes) (hw : skipSpacesN w = w) (hne : w ≠ []) : ws (w ++ x) = w ++ x := by
  rw [← JsonWs.skipSpacesN_eq_ws]; exact StreamStable.skipSpacesN_fix_append x hw hne

/-- **One `readValue` call.** Generic in an extra state invariant `J` and a measure `M` that every refill decreases
(two instances below: enough fuel in general; the model's own `reader.length + 8`). -/
theorem readValue_spec {minBuf minRead : Nat} (h0 : 0 < minRead) (h1 : minRead ≤ minBuf)
    (J : St → Prop) (M : St → Nat)
    (hJr : ∀ s s' cap1, Inv minBuf s → J s → s.err = none → minBuf ≤ cap1 → s.remain.length + minRead ≤ cap1 →
      Refilled minBuf s s' cap1 → J s' ∧ M s' < M s)
    (hJa : ∀ (s : St) rem off, J s → rem.length ≤ s.remain.length → J { s with remain := rem, offset := off }) :
    ∀ (n : Nat) (s : St), Inv minBuf s → J s → M s < n →
      Step minBuf J (ws (rest s)) (readValue minBuf minRead n s).1 (readValue minBuf minRead n s).2 := by
  intro n
  induction n with
  | zero => intro s _ _ h; omega
  | succ n ih =>
    intro s hI hJ hM
    -- the refill branch
    have hrefill : tryParse s = none → s.err = none →
        Step minBuf J (ws (rest s)) (readValue minBuf minRead (n + 1) s).1 (readValue minBuf minRead (n + 1) s).2 := by
      intro htp he
      rw [readValue_succ, htp, he]
      simp only
      obtain ⟨cap1, hc1, hc2, heq⟩ := refill_eq hI h0 h1
      have hR := refillWith_spec (s := s) (cap1 := cap1) hI (by omega) hc1
      rw [← heq] at hR
      obtain ⟨hJ', hM'⟩ := hJr s _ cap1 hI hJ he hc1 hc2 hR
      have := ih _ hR.inv hJ' (by omega)
      rw [hR.rest] at this
      exact this
    by_cases hw : s.remain = []
    · -- empty window
      have htp := tryParse_nil hw
      rcases hI.err with he | ⟨he, hr⟩
      · exact hrefill htp he
      · rw [readValue_succ, htp, he]
        simp only [errOut, hw, rest, hr, pend_nil]
        left; exact ⟨rfl, rfl⟩
    · -- non-empty window `w`, followed in the stream by `P`
      have hsk : skipSpaces s.remain = s.remain := skipSpaces_of_N hI.nows
      have hb : ws (rest s) = s.remain ++ pend s.reader := ws_fix_append _ hI.nows hw
      have hbne : s.remain ++ pend s.reader ≠ [] := by simp [hw]
      have hskb : skipSpaces (s.remain ++ pend s.reader) = s.remain ++ pend s.reader :=
        StreamStable.skipSpaces_fix_append _ hsk hw
      cases hp : parseValue (internalParseFlags s.remain) 0 (fuelFor s.remain) s.remain with
      | ok k r =>
        by_cases hc : (!r.isEmpty || s.err == some .eof || !k.isNum) = true
        · -- the value is accepted
          have hfull : parseValue (internalParseFlags (s.remain ++ pend s.reader)) 0 (fuelFor (s.remain ++ pend s.reader))
              (s.remain ++ pend s.reader) = .ok k (r ++ pend s.reader) := by
            rcases hI.err with he | ⟨he, hr⟩
            · apply StreamStable.window_ok_stable _ _ _ _ hsk hp
              have hne : (s.err == some FErr.eof) = false := by rw [he]; rfl
              simp only [hne, Bool.or_false, Bool.or_eq_true, Bool.not_eq_true',
                List.isEmpty_eq_false_iff] at hc
              exact hc
            · simp only [hr, pend_nil, List.append_nil]; exact hp
          have hsuf : r <:+ s.remain := StreamStable.parseValue_suffix hp
          have hlen := hsuf.length_le
          rw [readValue_succ, tryParse_ok_accept hw hp hc, hb]
          simp only
          right; right; right
          refine ⟨r ++ pend s.reader, k, hbne, hfull, ?_, ?_, ?_, ?_⟩
          · congr 1
            have : (s.remain ++ pend s.reader).length - (r ++ pend s.reader).length = s.remain.length - r.length := by
              simp only [List.length_append]; omega
            rw [this, List.take_append_of_le_length (by omega)]
          · have hl2 : (skipSpacesN r).length ≤ r.length := by
              rw [JsonWs.skipSpacesN_eq_ws]; exact JsonGrammar.ws_length_le _
            refine ⟨hI.final, hI.clean, ?_, hI.err, ?_, ?_, hI.started⟩
            · simp only [JsonWs.skipSpacesN_eq_ws, JsonGrammar.ws_ws]
            · have := hI.cap; show (skipSpacesN r).length ≤ s.cap; omega
            · intro hst; exact absurd (hI.notStarted hst) hw
          · apply hJa s _ _ hJ
            have hl2 : (skipSpacesN r).length ≤ r.length := by
              rw [JsonWs.skipSpacesN_eq_ws]; exact JsonGrammar.ws_length_le _
            omega
          · show ws (skipSpacesN r ++ pend s.reader) = _
            rw [JsonWs.skipSpacesN_eq_ws, ws_ws_append]
        · -- a number that reaches the end of the window while the reader has not ended: wait
          have hc' : (!r.isEmpty || s.err == some .eof || !k.isNum) = false := by simpa using hc
          have he : s.err = none := by
            rcases hI.err with he | ⟨he, _⟩
            · exact he
            · rw [he] at hc'; simp at hc'
          exact hrefill (tryParse_ok_wait hp hc') he
      | err e =>
        cases e with
        | false =>
          have hfull := StreamStable.window_err_stable s.remain (pend s.reader) hsk hp
          rw [readValue_succ, tryParse_err_false hw hp, hb]
          simp only
          right; left
          exact ⟨hbne, hfull, rfl⟩
        | true =>
          have htp := tryParse_err_true hp
          rcases hI.err with he | ⟨he, hr⟩
          · exact hrefill htp he
          · rw [readValue_succ, htp, he, hb]
            have hwe : s.remain.isEmpty = false := by cases h : s.remain <;> simp_all
            simp only [errOut, hwe]
            right; right; left
            refine ⟨hbne, ?_, rfl⟩
            simp only [hr, pend_nil, List.append_nil]
            exact hp

/-! ### the whole-stream decoder (model parser, no reader) and the specification stream -/

/-- the value stream obtained by running the model parser over all the bytes at once: no reader, no buffer, no refill.
Unlike `specStream` it keeps the kind of each value and the class of the final error. -/
def wholeStream : Nat → Bytes → List Out
  | 0, _ => []
  | n + 1, b =>
    let b := skipSpacesN b
    if b.isEmpty then [.eof]
    else match parseWin b with
      | .ok k r => .value (b.take (b.length - r.length)) k :: wholeStream n r
      | .err false => [.syntax]
      | .err true => [.unexpectedEof]

theorem wholeStream_eof (n : Nat) {b : Bytes} (h : ws b = []) : wholeStream (n + 1) b = [.eof] := by
  simp [wholeStream, JsonWs.skipSpacesN_eq_ws, h]

theorem wholeStream_err (n : Nat) {b : Bytes} {e : Bool} (h : ws b ≠ []) (hv : parseWin (ws b) = .err e) :
    wholeStream (n + 1) b = [if e then .unexpectedEof else .syntax] := by
  have : (ws b).isEmpty = false := by cases h' : ws b <;> simp_all
  simp only [wholeStream, JsonWs.skipSpacesN_eq_ws, this]
  rw [hv]; cases e <;> rfl

theorem wholeStream_val (n : Nat) {b r : Bytes} {k : Kind} (h : ws b ≠ []) (hv : parseWin (ws b) = .ok k r) :
    wholeStream (n + 1) b = .value ((ws b).take ((ws b).length - r.length)) k :: wholeStream n r := by
  have : (ws b).isEmpty = false := by cases h' : ws b <;> simp_all
  simp only [wholeStream, JsonWs.skipSpacesN_eq_ws, this]
  rw [hv]; rfl

theorem wholeStream_ws (n : Nat) (b : Bytes) : wholeStream n (ws b) = wholeStream n b := by
  cases n with
  | zero => rfl
  | succ n => simp only [wholeStream, JsonWs.skipSpacesN_eq_ws, JsonGrammar.ws_ws]

theorem specStream_eof (n : Nat) {b : Bytes} (h : ws b = []) : specStream (n + 1) b = [.eof] := by
  simp [specStream, h]

theorem specStream_err (n : Nat) {b : Bytes} (h : ws b ≠ []) (hv : value (specFuel (ws b)) 10000 (ws b) = none) :
    specStream (n + 1) b = [.err] := by
  have : (ws b).isEmpty = false := by cases h' : ws b <;> simp_all
  simp only [specStream, this]
  rw [hv]; rfl

theorem specStream_val (n : Nat) {b r : Bytes} (h : ws b ≠ []) (hv : value (specFuel (ws b)) 10000 (ws b) = some r) :
    specStream (n + 1) b = .value ((ws b).take ((ws b).length - r.length)) :: specStream n r := by
  have : (ws b).isEmpty = false := by cases h' : ws b <;> simp_all
  simp only [specStream, this]
  rw [hv]; rfl

theorem specStream_ws (n : Nat) (b : Bytes) : specStream n (ws b) = specStream n b := by
  cases n with
  | zero => rfl
  | succ n => simp only [specStream, JsonGrammar.ws_ws]

/-- the element bound is irrelevant once it exceeds the number of bytes (every value has at least one byte) -/
theorem specStream_stable : ∀ (n m : Nat) (b : Bytes), b.length + 1 ≤ n → b.length + 1 ≤ m → specStream n b = specStream m b := by
  intro n
  induction n with
  | zero => intro m b h; omega
  | succ n ih =>
    intro m b hn hm
    cases m with
    | zero => omega
    | succ m =>
      by_cases hw : ws b = []
      · rw [specStream_eof n hw, specStream_eof m hw]
      · cases hv : value (specFuel (ws b)) 10000 (ws b) with
        | none => rw [specStream_err n hw hv, specStream_err m hw hv]
        | some r =>
          rw [specStream_val n hw hv, specStream_val m hw hv]
          have h1 := (JsonGrammar.value_sfx hv).2
          have h2 := JsonGrammar.ws_length_le b
          rw [ih m r (by omega) (by omega)]

/-- **the model parser run over all the bytes yields the grammar's value stream** -/
theorem wholeStream_erase : ∀ (n : Nat) (b : Bytes), (wholeStream n b).map erase = specStream n b := by
  intro n
  induction n with
  | zero => intro b; rfl
  | succ n ih =>
    intro b
    by_cases hw : ws b = []
    · rw [wholeStream_eof n hw, specStream_eof n hw]; rfl
    · have hsk : skipSpaces (ws b) = ws b := by rw [JsonWs.skipSpaces_eq_ws, JsonGrammar.ws_ws]
      have hspec := spec_of_parse hsk
      cases hp : parseWin (ws b) with
      | ok k r =>
        have hp' : parseValue (internalParseFlags (ws b)) 0 (fuelFor (ws b)) (ws b) = .ok k r := hp
        rw [hp'] at hspec
        rw [wholeStream_val n hw hp, specStream_val n hw hspec.symm]
        simp only [List.map_cons, erase, ih]
      | err e =>
        have hp' : parseValue (internalParseFlags (ws b)) 0 (fuelFor (ws b)) (ws b) = .err e := hp
        rw [hp'] at hspec
        rw [wholeStream_err n hw hp, specStream_err n hw hspec.symm]
        cases e <;> rfl

/-! ### the `Decode` loop -/

/-- `decodeAll` with the fuel of each `readValue` call given by `rf` -/
def decodeAllG (rf : St → Nat) (minBuf minRead : Nat) : Nat → St → List Out
  | 0, _ => []
  | limit + 1, s =>
    let (o, s') := readValue minBuf minRead (rf s) s
    match o with
    | .value .. => o :: decodeAllG rf minBuf minRead limit s'
    | _ => [o]

/-- the fuel `decodeAll` gives each `readValue` call -/
abbrev modelFuel (s : St) : Nat := pendingBytes s.reader + s.reader.length + 8

/-- the fuel `decodeAll` used to give each `readValue` call (kept for the findings at the end of this file) -/
abbrev oldFuel (s : St) : Nat := s.reader.length + 8

theorem pend_length (r : Reader) : (pend r).length = pendingBytes r := by
  induction r with
  | nil => rfl
  | cons e tl ih => simp [pendingBytes, List.length_append] at *; omega

/-- the model's loop is the instance `rf = modelFuel` -/
theorem decodeAll_eq (minBuf minRead : Nat) : ∀ (limit : Nat) (s : St),
    decodeAll minBuf minRead limit s = decodeAllG modelFuel minBuf minRead limit s := by
  intro limit
  induction limit with
  | zero => intro s; rfl
  | succ l ih =>
    intro s
    simp only [decodeAll, decodeAllG]
    generalize readValue minBuf minRead (pendingBytes s.reader + s.reader.length + 8) s = res
    obtain ⟨o, s'⟩ := res
    cases o <;> simp [ih]

theorem decodeAllG_spec {minBuf minRead : Nat} (h0 : 0 < minRead) (h1 : minRead ≤ minBuf)
    (J : St → Prop) (M : St → Nat) (rf : St → Nat)
    (hJr : ∀ s s' cap1, Inv minBuf s → J s → s.err = none → minBuf ≤ cap1 → s.remain.length + minRead ≤ cap1 →
      Refilled minBuf s s' cap1 → J s' ∧ M s' < M s)
    (hJa : ∀ (s : St) rem off, J s → rem.length ≤ s.remain.length → J { s with remain := rem, offset := off })
    (hrf : ∀ s, M s < rf s) :
    ∀ (n : Nat) (s : St), Inv minBuf s → J s →
      decodeAllG rf minBuf minRead n s = wholeStream n (rest s) := by
  intro n
  induction n with
  | zero => intro s _ _; rfl
  | succ n ih =>
    intro s hI hJ
    have hstep := readValue_spec h0 h1 J M hJr hJa (rf s) s hI hJ (hrf s)
    simp only [decodeAllG]
    generalize readValue minBuf minRead (rf s) s = res at hstep
    obtain ⟨o, s'⟩ := res
    simp only at hstep ⊢
    rcases hstep with ⟨hb, ho⟩ | ⟨hb, hv, ho⟩ | ⟨hb, hv, ho⟩ | ⟨r, k, hb, hv, ho, hI', hJ', hr⟩
    · subst ho
      rw [wholeStream_eof n hb]
    · subst ho
      rw [wholeStream_err n hb hv]; rfl
    · subst ho
      rw [wholeStream_err n hb hv]; rfl
    · subst ho
      rw [wholeStream_val n hb hv]
      simp only
      rw [ih s' hI' hJ', ← wholeStream_ws n (rest s'), hr, wholeStream_ws]

/-! ### instance 1: any clean script, fuel `pending bytes + pending events + 2` per call -/

/-- pending bytes + pending events + 1 while the end of the reader has not been seen -/
def M1 (s : St) : Nat := (pend s.reader).length + s.reader.length + (if s.err = none then 1 else 0)

theorem M1_refill {minBuf : Nat} {s s' : St} {cap1 : Nat} (he : s.err = none) (R : Refilled minBuf s s' cap1) :
    M1 s' < M1 s := by
  have h1 := R.len
  have h2 := R.pendLe
  by_cases h : s'.err = none
  · have h3 := R.progress h
    simp only [M1, h, he, if_true]; omega
  · simp only [M1, h, he, if_true, if_false]; omega

/-- the initial decoder state over a script -/
abbrev init (evs : Reader) : St := { reader := evs, final := .eof }

theorem init_inv (minBuf : Nat) {evs : Reader} (hc : Clean evs) : Inv minBuf (init evs) :=
  ⟨rfl, hc, rfl, Or.inl rfl, Nat.le_refl _, fun _ => rfl, fun h => by cases h⟩

theorem init_rest (evs : Reader) : rest (init evs) = pend evs := rfl

/-- **Chunking independence of the algorithm** (any clean script, including zero-length reads and arbitrarily large
reads): with per-call fuel at least `pending bytes + pending events + 2` the decoder yields exactly what the model parser
yields on the concatenated bytes — same raw values, same kinds, same final outcome. -/
theorem decodeAllG_whole {minBuf minRead : Nat} (h0 : 0 < minRead) (h1 : minRead ≤ minBuf) (rf : St → Nat)
    (hrf : ∀ s : St, (pend s.reader).length + s.reader.length + 2 ≤ rf s)
    (evs : Reader) (hc : ∀ e ∈ evs, e.err = none) (limit : Nat) :
    decodeAllG rf minBuf minRead limit { reader := evs, final := .eof } =
      wholeStream limit (evs.map (·.data)).flatten := by
  have := decodeAllG_spec h0 h1 (fun _ => True) M1 rf
    (fun s s' cap1 _ _ he _ _ R => ⟨trivial, M1_refill he R⟩) (fun _ _ _ _ _ => trivial)
    (fun s => by have := hrf s; simp only [M1]; split <;> omega) limit (init evs) (init_inv minBuf hc) trivial
  rw [this]; rfl

theorem decodeAllG_clean {minBuf minRead : Nat} (h0 : 0 < minRead) (h1 : minRead ≤ minBuf) (rf : St → Nat)
    (hrf : ∀ s : St, (pend s.reader).length + s.reader.length + 2 ≤ rf s)
    (evs : Reader) (hc : ∀ e ∈ evs, e.err = none) (limit : Nat) :
    (decodeAllG rf minBuf minRead limit { reader := evs, final := .eof }).map erase =
      specStream limit (evs.map (·.data)).flatten := by
  rw [decodeAllG_whole h0 h1 rf hrf evs hc, wholeStream_erase]

/-! ### the model's `decodeAll` (per-call fuel `pending bytes + pending events + 8`) -/

theorem modelFuel_ok (s : St) : (pend s.reader).length + s.reader.length + 2 ≤ modelFuel s := by
  rw [pend_length]; simp only [modelFuel]; omega

/-- **the model's `decodeAll` = the model parser over the concatenated bytes**, for every clean script: same raw values,
same kinds, same final outcome -/
theorem decodeAll_whole {minBuf minRead : Nat} (h0 : 0 < minRead) (h1 : minRead ≤ minBuf)
    (evs : Reader) (hc : ∀ e ∈ evs, e.err = none) (limit : Nat) :
    decodeAll minBuf minRead limit { reader := evs, final := .eof } = wholeStream limit (evs.map (·.data)).flatten := by
  rw [decodeAll_eq]; exact decodeAllG_whole h0 h1 modelFuel modelFuel_ok evs hc limit

/-- **C11, main theorem (clean readers).** -/
theorem decodeAll_clean {minBuf minRead : Nat} (h0 : 0 < minRead) (h1 : minRead ≤ minBuf)
    (evs : Reader) (hc : ∀ e ∈ evs, e.err = none) (limit : Nat) :
    (decodeAll minBuf minRead limit { reader := evs, final := .eof }).map erase =
      specStream limit (evs.map (·.data)).flatten := by
  rw [decodeAll_whole h0 h1 evs hc, wholeStream_erase]

/-- the same with the bound of the task statement, and for every larger `limit` -/
theorem decodeAll_clean_limit {minBuf minRead : Nat} (h0 : 0 < minRead) (h1 : minRead ≤ minBuf)
    (evs : Reader) (hc : ∀ e ∈ evs, e.err = none)
    (limit : Nat) (hl : (evs.map (·.data)).flatten.length + 1 ≤ limit) :
    (decodeAll minBuf minRead limit { reader := evs, final := .eof }).map erase =
      specStream ((evs.map (·.data)).flatten.length + 2) (evs.map (·.data)).flatten := by
  rw [decodeAll_clean h0 h1 evs hc]
  exact specStream_stable _ _ _ hl (by omega)

/-- **chunking independence**: two clean scripts with the same concatenation yield the same outputs — raw bytes, kinds
and final outcome, not only their erasure; zero-length reads and arbitrarily large reads included -/
theorem chunking_independent {minBuf minRead : Nat} (h0 : 0 < minRead) (h1 : minRead ≤ minBuf)
    (evs₁ evs₂ : Reader) (hc₁ : ∀ e ∈ evs₁, e.err = none) (hc₂ : ∀ e ∈ evs₂, e.err = none)
    (heq : (evs₁.map (·.data)).flatten = (evs₂.map (·.data)).flatten) (limit : Nat) :
    decodeAll minBuf minRead limit { reader := evs₁, final := .eof } =
      decodeAll minBuf minRead limit { reader := evs₂, final := .eof } := by
  rw [decodeAll_whole h0 h1 evs₁ hc₁, decodeAll_whole h0 h1 evs₂ hc₂, heq]

/-- in particular every clean script agrees with the single-chunk script -/
theorem single_chunk {minBuf minRead : Nat} (h0 : 0 < minRead) (h1 : minRead ≤ minBuf)
    (evs : Reader) (hc : ∀ e ∈ evs, e.err = none) (limit : Nat) :
    decodeAll minBuf minRead limit { reader := evs, final := .eof } =
      decodeAll minBuf minRead limit { reader := [⟨(evs.map (·.data)).flatten, none⟩], final := .eof } :=
  chunking_independent h0 h1 evs _ hc (by intro e he; simp at he; subst he; rfl) (by simp) limit

/-- **chunking independence** for any sufficient per-call fuel -/
theorem chunking_independent_G {minBuf minRead : Nat} (h0 : 0 < minRead) (h1 : minRead ≤ minBuf) (rf : St → Nat)
    (hrf : ∀ s : St, (pend s.reader).length + s.reader.length + 2 ≤ rf s)
    (evs₁ evs₂ : Reader) (hc₁ : ∀ e ∈ evs₁, e.err = none) (hc₂ : ∀ e ∈ evs₂, e.err = none)
    (heq : (evs₁.map (·.data)).flatten = (evs₂.map (·.data)).flatten) (limit : Nat) :
    decodeAllG rf minBuf minRead limit { reader := evs₁, final := .eof } =
      decodeAllG rf minBuf minRead limit { reader := evs₂, final := .eof } := by
  rw [decodeAllG_whole h0 h1 rf hrf evs₁ hc₁, decodeAllG_whole h0 h1 rf hrf evs₂ hc₂, heq]

theorem single_chunk_G {minBuf minRead : Nat} (h0 : 0 < minRead) (h1 : minRead ≤ minBuf) (rf : St → Nat)
    (hrf : ∀ s : St, (pend s.reader).length + s.reader.length + 2 ≤ rf s)
    (evs : Reader) (hc : ∀ e ∈ evs, e.err = none) (limit : Nat) :
    decodeAllG rf minBuf minRead limit { reader := evs, final := .eof } =
      decodeAllG rf minBuf minRead limit { reader := [⟨(evs.map (·.data)).flatten, none⟩], final := .eof } :=
  chunking_independent_G h0 h1 rf hrf evs _ hc (by intro e he; simp at he; subst he; rfl) (by simp) limit

/-! ### a clean reader never yields `readerErr` -/

theorem wholeStream_no_readerErr : ∀ (n : Nat) (b : Bytes) (o : Out), o ∈ wholeStream n b → (∀ raw k, o ≠ .value raw k) →
    o = .eof ∨ o = .syntax ∨ o = .unexpectedEof := by
  intro n
  induction n with
  | zero => intro b o h; simp [wholeStream] at h
  | succ n ih =>
    intro b o h hv
    by_cases hw : ws b = []
    · rw [wholeStream_eof n hw] at h; simp at h; exact Or.inl h
    · cases hp : parseWin (ws b) with
      | ok k r =>
        rw [wholeStream_val n hw hp] at h
        rcases List.mem_cons.mp h with h | h
        · exact absurd h (hv _ _)
        · exact ih r o h hv
      | err e =>
        rw [wholeStream_err n hw hp] at h
        simp at h
        cases e <;> simp at h <;> simp [h]

theorem decodeAll_no_readerErr {minBuf minRead : Nat} (h0 : 0 < minRead) (h1 : minRead ≤ minBuf)
    (evs : Reader) (hc : ∀ e ∈ evs, e.err = none) (limit : Nat) :
    Out.readerErr ∉ decodeAll minBuf minRead limit { reader := evs, final := .eof } := by
  rw [decodeAll_whole h0 h1 evs hc]
  intro h
  rcases wholeStream_no_readerErr _ _ _ h (by intro _ _ h; cases h) with h | h | h <;> cases h

/-! ### finding (historical): the earlier fuel `oldFuel s = s.reader.length + 8` of `decodeAll` was not always enough

`decodeAll` used to give each `readValue` call the fuel `s.reader.length + 8`. That is enough exactly when at most seven
refills of one call fail to swallow a whole event; a sufficient condition is `Small` below (`oldFuel_whole`). It is not
enough in general (`fuel_counterexample`, `fuel_counterexample_ws`): the loop answered `syntax` (its "fuel exhausted"
value) for streams whose value sequence is perfectly fine, and the answer depended on the chunking. This was an artefact of
the model's fuel, not of the Go code (whose loop has no bound); the model now uses `modelFuel`. -/

/-- every refill swallows at least one whole event: either no event is longer than `minRead` (the least free space a
refill ever offers), or everything still to come fits into the initial buffer together with the window -/
def Small (minBuf minRead : Nat) (s : St) : Prop :=
  (∀ e ∈ s.reader, e.data.length ≤ minRead) ∨ s.remain.length + (pend s.reader).length ≤ minBuf

def M2 (s : St) : Nat := s.reader.length + (if s.err = none then 1 else 0)

theorem Small_refill {minBuf minRead : Nat} {s s' : St} {cap1 : Nat} (hS : Small minBuf minRead s) (he : s.err = none)
    (hc1 : minBuf ≤ cap1) (hc2 : s.remain.length + minRead ≤ cap1) (R : Refilled minBuf s s' cap1) :
    Small minBuf minRead s' ∧ M2 s' < M2 s := by
  constructor
  · rcases hS with hS | hS
    · left
      intro e' he'
      obtain ⟨e, hem, hle⟩ := R.shorter e' he'
      exact Nat.le_trans hle (hS e hem)
    · right
      have := R.total; omega
  · cases hr : s.reader with
    | nil =>
      have h1 := R.atEnd hr
      have h2 := R.len
      rw [hr] at h2
      simp only [M2, h1, he, hr, if_true, if_false]
      simp at h2 ⊢; omega
    | cons e0 tl =>
      have hfit : e0.data.length + s.remain.length ≤ cap1 := by
        rcases hS with hS | hS
        · have := hS e0 (by rw [hr]; exact List.mem_cons_self ..); omega
        · rw [hr] at hS; simp only [pend_cons, List.length_append] at hS; omega
      have h2 := R.consume e0 tl hr hfit
      have h3 : s.reader.length = tl.length + 1 := by rw [hr]; rfl
      simp only [M2, he, if_true]
      split <;> omega

/-- the old fuel is enough for clean scripts whose events are at most `minRead` bytes long or whose total length is at
most `minBuf` -/
theorem oldFuel_whole {minBuf minRead : Nat} (h0 : 0 < minRead) (h1 : minRead ≤ minBuf)
    (evs : Reader) (hc : ∀ e ∈ evs, e.err = none)
    (hs : (∀ e ∈ evs, e.data.length ≤ minRead) ∨ (evs.map (·.data)).flatten.length ≤ minBuf) (limit : Nat) :
    decodeAllG oldFuel minBuf minRead limit { reader := evs, final := .eof } =
      wholeStream limit (evs.map (·.data)).flatten := by
  have hS : Small minBuf minRead (init evs) := by
    rcases hs with hs | hs
    · exact Or.inl hs
    · right; show 0 + (pend evs).length ≤ minBuf; simp only [pend]; omega
  have := decodeAllG_spec h0 h1 (Small minBuf minRead) M2 oldFuel
    (fun s s' cap1 _ hJ he hc1 hc2 R => Small_refill hJ he hc1 hc2 R)
    (fun s rem off hJ hl => by
      rcases hJ with hJ | hJ
      · exact Or.inl hJ
      · right; show rem.length + (pend s.reader).length ≤ _; omega)
    (fun s => by simp only [M2, oldFuel]; split <;> omega) limit (init evs) (init_inv minBuf hc) hS
  rw [this]; rfl

def ones (n : Nat) : Bytes := List.replicate n 0x31

/-- With one event of 65 digits and `minBuf = minRead = 1` the window doubles 1, 2, 4, …, 64 and the eight refills that
the old fuel allows are used up before the number is complete: `syntax` where the stream is `value, eof`; the same bytes
in two events are decoded correctly, so the old loop was not chunking independent. With the real constants the same
happened for a number longer than `64 * 32768` bytes (a string longer than `128 * 32768`) delivered by `Read`s larger
than the free buffer space. The last conjunct: the model's `decodeAll` (new fuel) gets it right. -/
theorem fuel_counterexample :
    (decodeAllG oldFuel 1 1 67 { reader := [⟨ones 65, none⟩], final := .eof }).map erase = [.err] ∧
    specStream 67 (ones 65) = [.value (ones 65), .eof] ∧
    (decodeAllG oldFuel 1 1 67 { reader := [⟨ones 33, none⟩, ⟨ones 32, none⟩], final := .eof }).map erase =
      [.value (ones 65), .eof] ∧
    (decodeAll 1 1 67 { reader := [⟨ones 65, none⟩], final := .eof }).map erase = [.value (ones 65), .eof] := by
  decide +kernel

/-- the same with white space only (`minBuf = 4`, `minRead = 2`): 28 blanks and `1` in one event. No growth here; every
refill takes 4 more blanks from the one event. With the real constants: `7 * 32768` blanks before a number (`8 * 32768`
before any value) handed out by `Read`s of at least 32768 bytes. -/
theorem fuel_counterexample_ws :
    (decodeAllG oldFuel 4 2 31 { reader := [⟨List.replicate 28 0x20 ++ [0x31], none⟩], final := .eof }).map erase = [.err] ∧
    specStream 31 (List.replicate 28 0x20 ++ [0x31]) = [.value [0x31], .eof] ∧
    (decodeAllG oldFuel 4 2 31 { reader := [⟨List.replicate 24 0x20 ++ [0x31], none⟩], final := .eof }).map erase =
      [.value [0x31], .eof] ∧
    (decodeAll 4 2 31 { reader := [⟨List.replicate 28 0x20 ++ [0x31], none⟩], final := .eof }).map erase =
      [.value [0x31], .eof] := by
  decide +kernel

end Enc.Lemmas.StreamFull
