import Enc.Lemmas.ThriftRoundTripFields
import Enc.Lemmas.ThriftRoundTripColl
/-!
C04, auxiliary facts for the main induction: every encoding is non-empty, bool-in-header fields, enum-tagged int32
fields behind pointers / named types.
-/
namespace Enc.Lemmas.ThriftRoundTrip
open Enc Enc.Model.Thrift Enc.Lemmas.ThriftPrim Enc.Lemmas.ThriftSkip

theorem uvarint_pos (n : Nat) : 1 ≤ (uvarint n).length := by
  unfold uvarint; split <;> simp

theorem wLength_pos (p : Proto) (n : Nat) : 1 ≤ (wLength p n).length := by
  cases p <;> simp only [wLength]
  · simp [be_length]
  · exact uvarint_pos n

theorem wList_pos (p : Proto) (t : TType) (n : Nat) : 1 ≤ (wList p t n).length := by
  cases p <;> simp only [wList]
  · simp
  · split <;> simp

theorem wMap_pos (p : Proto) (k v : TType) (n : Nat) : 1 ≤ (wMap p k v n).length := by
  cases p <;> simp only [wMap]
  · simp
  · have := uvarint_pos n; simp only [List.length_append]; omega

theorem wI_pos (p : Proto) (i : Int) :
    1 ≤ (wI8 p i).length ∧ 1 ≤ (wI16 p i).length ∧ 1 ≤ (wI32 p i).length ∧ 1 ≤ (wI64 p i).length := by
  cases p <;> simp [wI8, wI16, wI32, wI64, be_length, varint, uvarint_pos]

/-- every value of the universe has a non-empty encoding (this is what makes the length-based fuel bound work) -/
theorem encode_pos (p : Proto) : (ty : Ty) → (v : Val) → RTS ty v = true → 1 ≤ (encode p ty v).length
  | .bool, v, h => by
    simp only [RTS] at h
    cases v <;> simp [boolOK] at h; simp [encode, wBool]
  | .int k, v, h => by
    simp only [RTS] at h
    cases v <;> simp only [intOK, Bool.false_eq_true] at h
    obtain ⟨hs, _⟩ := inRange_signed k _ h
    have := wI_pos p
    cases k <;> simp [IntKind.signed] at hs <;> simp only [encode] <;>
      first | exact (this _).1 | exact (this _).2.1 | exact (this _).2.2.1 | exact (this _).2.2.2
  | .f32, v, h | .f64, v, h => by
    simp only [RTS] at h
    cases v <;> simp [floatOK] at h; simp [encode, wDouble, be_length]
  | .str, v, _ | .bytes, v, _ => by
    have h1 := wLength_pos p
    cases v <;> simp only [encode, wBytes, List.length_append] <;>
      first | (have := h1 (List.length ‹Bytes›); omega) | (have := h1 ([] : Bytes).length; omega)
  | .slice t, v, _ => by
    rw [encode_slice]
    have h1 := wLength_pos p
    have h2 := wList_pos p (typeOf t)
    split
    · cases v <;> simp only [wBytes, List.length_append] <;>
        first | (have := h1 (List.length ‹Bytes›); omega) | (have := h1 ([] : Bytes).length; omega)
    · cases v <;> simp only [List.length_append] <;>
        first | (have := h2 (Vals.length ‹Vals›); omega) | (have := h2 0; omega)
  | .map k v, x, _ => by
    rw [encode_map]
    split
    · have := wList_pos p (typeOf k) (pairsOfVal x).length; simp only [List.length_append]; omega
    · have := wMap_pos p (typeOf k) (typeOf v) (pairsOfVal x).length; simp only [List.length_append]; omega
  | .struct fs, v, _ => by
    rw [encode_struct]
    have := wStopField_length_pos p
    cases v <;> simp only [List.length_append] <;> omega
  | .ptr t, v, h => by
    simp only [RTS] at h
    cases v <;> simp only [ptrOK, Bool.false_eq_true] at h <;> simp only [encode]
    · exact encode_pos p t _ h
    · exact encode_pos p t _ h
  | .named _ t, v, h => by
    simp only [RTS, encode] at h ⊢
    exact encode_pos p t v h
  | .arr _ _, _, h | .any, _, h => by simp [RTS] at h

/-! ### bool fields: the value travels in the compact field header -/
theorem fieldIsTrue_zeroOf : (t : Ty) → fieldIsTrue (zeroOf t) = false
  | .bool | .int _ | .f32 | .f64 | .str | .bytes | .any | .ptr _ | .slice _ | .map _ _ | .arr _ _ | .struct _ => by
    simp [zeroOf, fieldIsTrue, derefVal]
  | .named _ t => by simp only [zeroOf]; exact fieldIsTrue_zeroOf t

theorem wrapPtr_bool : (t : Ty) → (x : Val) → typeOf t = .bool → RTS t x = true →
    wrapPtr t (.bool (fieldIsTrue x)) = norm t x
  | .bool, x, _, h => by
    simp only [RTS] at h
    cases x <;> simp [boolOK] at h
    rename_i b
    cases b <;> simp [wrapPtr, norm, fieldIsTrue, derefVal]
  | .ptr t, x, ht, h => by
    simp only [RTS, typeOf] at h ht
    cases x <;> simp only [ptrOK, Bool.false_eq_true] at h
    · have := wrapPtr_bool t (zeroOf t) ht h
      rw [fieldIsTrue_zeroOf] at this
      simp only [wrapPtr, norm]
      simp [fieldIsTrue, derefVal]
      exact this
    · rename_i y
      have := wrapPtr_bool t y ht h
      simp only [wrapPtr, norm, ← this]
      simp [fieldIsTrue, derefVal]
  | .named _ t, x, ht, h => by
    simp only [RTS, typeOf] at h ht
    simp only [wrapPtr, norm]
    exact wrapPtr_bool t x ht h
  | .int k, _, ht, _ => by cases k <;> simp [typeOf] at ht
  | .f32, _, ht, _ | .f64, _, ht, _ | .str, _, ht, _ | .bytes, _, ht, _ | .any, _, ht, _
  | .arr _ _, _, ht, _ | .struct _, _, ht, _ => by simp [typeOf] at ht
  | .slice t, _, ht, _ => by rw [typeOf_slice] at ht; split at ht <;> simp at ht
  | .map _ v, _, ht, _ => by simp only [typeOf] at ht; split at ht <;> simp at ht

/-! ### enum-tagged int32 fields (behind pointers / named types) -/
theorem wrap32_id (i : Int) (h : -2 ^ 31 ≤ i ∧ i < 2 ^ 31) : wrap32 i = i := by
  unfold wrap32; simp only [Int.reducePow] at *; split <;> omega

theorem wrapTo32_id (i : Int) (h : -2 ^ 31 ≤ i ∧ i < 2 ^ 31) : wrapTo (IntKind.bits .i32) i = i := by
  show wrapTo 32 i = i
  unfold wrapTo; simp only [Nat.reduceSub, Int.reducePow] at *; split <;> omega

theorem enum_i32 (p : Proto) : (t : Ty) → (x : Val) → baseOf t = .int .i32 → RTS t x = true →
    ∃ i, (-2 ^ 31 ≤ i ∧ i < 2 ^ 31) ∧ encode p t x = wI32 p i ∧ wrapPtr t (.int i) = norm t x ∧
      ∀ j, derefVal x = .int j → j = i
  | .int k, x, hb, h => by
    simp only [baseOf, Ty.int.injEq] at hb
    subst hb
    simp only [RTS] at h
    cases x <;> simp only [intOK, Bool.false_eq_true] at h
    rename_i i
    obtain ⟨_, h1, h2⟩ := inRange_signed _ i h
    simp only [IntKind.bits, Nat.reduceSub, Int.reducePow] at h1 h2
    refine ⟨i, ⟨by omega, by omega⟩, by simp only [encode], by simp only [wrapPtr, norm], ?_⟩
    intro j hj
    simp only [derefVal, Val.int.injEq] at hj
    exact hj.symm
  | .ptr t, x, hb, h => by
    simp only [baseOf] at hb
    simp only [RTS] at h
    cases x <;> simp only [ptrOK, Bool.false_eq_true] at h
    · obtain ⟨i, hr, he, hw, _⟩ := enum_i32 p t (zeroOf t) hb h
      refine ⟨i, hr, by simp only [encode, he], by simp only [wrapPtr, norm, hw], ?_⟩
      intro j hj; simp [derefVal] at hj
    · rename_i y
      obtain ⟨i, hr, he, hw, hd⟩ := enum_i32 p t y hb h
      refine ⟨i, hr, by simp only [encode, he], by simp only [wrapPtr, norm, hw], ?_⟩
      intro j hj; simp only [derefVal] at hj; exact hd j hj
  | .named _ t, x, hb, h => by
    simp only [baseOf] at hb
    simp only [RTS] at h
    obtain ⟨i, hr, he, hw, hd⟩ := enum_i32 p t x hb h
    exact ⟨i, hr, by simp only [encode, he], by simp only [wrapPtr, norm, hw], hd⟩
  | .bool, _, hb, _ | .f32, _, hb, _ | .f64, _, hb, _ | .str, _, hb, _ | .bytes, _, hb, _ | .any, _, hb, _
  | .arr _ _, _, hb, _ | .struct _, _, hb, _ | .slice _, _, hb, _ | .map _ _, _, hb, _ => by simp [baseOf] at hb

/-- the value part of an enum-tagged int32 field: written with `wI32`, read with `rI32` -/
theorem enum_field (p : Proto) (t : Ty) (x : Val) (hb : baseOf t = .int .i32) (h : RTS t x = true) :
    ∃ i, (∀ rest, rI32 p (fieldBody p true t x ++ rest) = .ok (i, rest)) ∧
      wrapPtr t (.int (wrapTo (IntKind.bits .i32) i)) = norm t x := by
  obtain ⟨i, hr, he, hw, hd⟩ := enum_i32 p t x hb h
  refine ⟨i, fun rest => ?_, by rw [wrapTo32_id i hr]; exact hw⟩
  have : fieldBody p true t x = wI32 p i := by
    simp only [fieldBody, if_true]
    cases hx : derefVal x with
    | int j => simp only [hd j hx, wrap32_id i hr]
    | _ => simp only [he]
  rw [this]
  exact rI32_wI32 p i hr rest

end Enc.Lemmas.ThriftRoundTrip
