import Enc.Lemmas.ThriftSpecPrim
/-!
C13, compact protocol, level 2: the struct machinery, on field records that already correspond.

  * `conv`                 the model record of a specification record (same id / isTrue / body, type through `ofSpec`)
  * `ins_conv`, `sortRecs_conv`   `FieldRec.ins` / `sortRecs` versus `insRec` / `foldr insRec []`: same order
  * `StrictFrom`, `strict_sort`   positive, pairwise distinct ids come out strictly increasing above 0
  * `emit_compact`         `emitFields` (+ the stop byte) versus `emit`: same delta decision, same header bytes,
                           bool coalescing, for strictly increasing ids above `last ≥ 0`
  * `struct_compact`       the three together
-/
namespace Enc.Lemmas.ThriftSpec
open Enc

def conv (r : Spec.Thrift.FRec) : Model.Thrift.FieldRec :=
  { id := r.id, t := ofSpec r.t, isTrue := r.isTrue, body := r.body }

/-! ## same order -/

theorem ins_conv (f : Spec.Thrift.FRec) : ∀ (l : List Spec.Thrift.FRec),
    Model.Thrift.FieldRec.ins (conv f) (l.map conv) = (Spec.Thrift.insRec f l).map conv := by
  intro l
  induction l with
  | nil => rfl
  | cons g l ih =>
    simp only [List.map_cons, Model.Thrift.FieldRec.ins, Spec.Thrift.insRec]
    have e1 : (conv f).id = f.id := rfl
    have e2 : (conv g).id = g.id := rfl
    rw [e1, e2]
    by_cases h : f.id < g.id
    · simp only [h, if_true, List.map_cons]
    · simp only [h, if_false, List.map_cons, ih]

theorem sortRecs_conv : ∀ (l : List Spec.Thrift.FRec),
    Model.Thrift.sortRecs (l.map conv) = (l.foldr Spec.Thrift.insRec []).map conv := by
  intro l
  induction l with
  | nil => rfl
  | cons a l ih =>
    have : Model.Thrift.sortRecs ((a :: l).map conv) =
        Model.Thrift.FieldRec.ins (conv a) (Model.Thrift.sortRecs (l.map conv)) := rfl
    rw [this, ih, ins_conv]; rfl

/-! ## strictly increasing ids -/

def StrictFrom : Int → List Spec.Thrift.FRec → Prop
  | _, [] => True
  | lo, f :: r => lo < f.id ∧ StrictFrom f.id r

theorem mem_ids_insRec (f : Spec.Thrift.FRec) (x : Int) : ∀ (l : List Spec.Thrift.FRec),
    x ∈ (Spec.Thrift.insRec f l).map (·.id) ↔ x = f.id ∨ x ∈ l.map (·.id) := by
  intro l
  induction l with
  | nil => simp [Spec.Thrift.insRec]
  | cons g l ih =>
    unfold Spec.Thrift.insRec
    split
    · simp
    · simp only [List.map_cons, List.mem_cons, ih]
      constructor
      · rintro (h | h | h) <;> simp [h]
      · rintro (h | h | h) <;> simp [h]

theorem mem_ids_sort (x : Int) : ∀ (l : List Spec.Thrift.FRec),
    x ∈ (l.foldr Spec.Thrift.insRec []).map (·.id) ↔ x ∈ l.map (·.id) := by
  intro l
  induction l with
  | nil => simp
  | cons a l ih => simp only [List.foldr_cons, mem_ids_insRec, ih, List.map_cons, List.mem_cons]

theorem strict_insRec (f : Spec.Thrift.FRec) : ∀ (l : List Spec.Thrift.FRec) (lo : Int),
    StrictFrom lo l → lo < f.id → f.id ∉ l.map (·.id) → StrictFrom lo (Spec.Thrift.insRec f l) := by
  intro l
  induction l with
  | nil => intro lo _ h _; exact ⟨h, trivial⟩
  | cons g l ih =>
    intro lo hs hlo hni
    unfold Spec.Thrift.insRec
    simp only [List.map_cons, List.mem_cons, not_or] at hni
    split
    · rename_i hlt
      exact ⟨hlo, hlt, hs.2⟩
    · rename_i hge
      have hlt : g.id < f.id := by omega
      exact ⟨hs.1, ih g.id hs.2 hlt hni.2⟩

theorem strict_sort : ∀ (l : List Spec.Thrift.FRec),
    (∀ x ∈ l.map (·.id), 0 < x) → (l.map (·.id)).Nodup → StrictFrom 0 (l.foldr Spec.Thrift.insRec []) := by
  intro l
  induction l with
  | nil => intro _ _; trivial
  | cons a l ih =>
    intro hpos hnd
    simp only [List.map_cons, List.nodup_cons] at hnd
    simp only [List.foldr_cons]
    apply strict_insRec
    · exact ih (fun x hx => hpos x (by simp only [List.map_cons, List.mem_cons]; exact Or.inr hx)) hnd.2
    · exact hpos a.id (by simp)
    · rw [mem_ids_sort]; exact hnd.1

/-! ## same header bytes -/

/-- one field header: the model's delta decision and writer against the specification's rule -/
theorem hdr_compact (t : Spec.Thrift.TT) (isTrue : Bool) (id last : Int) (h0 : 0 ≤ last) (h : last < id) :
    Model.Thrift.wField .compact (tOut t isTrue) (if (true && decide (id - last ≤ 15)) = true then id - last else id)
        (true && decide (id - last ≤ 15)) =
      (if 0 < id - last ∧ id - last ≤ 15 then [UInt8.ofNat ((id - last).toNat * 16 + tcode t isTrue)]
       else [UInt8.ofNat (tcode t isTrue)] ++ Spec.Thrift.zz id) := by
  have hpos : 0 < id - last := by omega
  by_cases hd : id - last ≤ 15
  · simp only [hd, decide_true, Bool.and_self, if_true, hpos, and_self]
    rw [wField_compact_short _ _ (tOut_ne_stop t isTrue) (by rw [tOut_code]; exact tcode_lt t isTrue)
      (by omega) hd, tOut_code]
  · simp only [hd, decide_false, Bool.and_false, Bool.false_eq_true, if_false, and_false]
    rw [wField_compact_long _ _ _ (tOut_ne_stop t isTrue) (Or.inl rfl), tOut_code]

theorem emitFields_cons_compact (g : Model.Thrift.FieldRec) (rest : List Model.Thrift.FieldRec) (last : Int) :
    Model.Thrift.emitFields .compact (g :: rest) last =
      Model.Thrift.wField .compact
          (if ((true && (g.t == Model.Thrift.TType.bool)) && g.isTrue) = true then Model.Thrift.TType.true_ else g.t)
          (if (true && decide (g.id - last ≤ 15)) = true then g.id - last else g.id)
          (true && decide (g.id - last ≤ 15)) ++
        (if (true && (g.t == Model.Thrift.TType.bool)) = true then [] else g.body) ++
        Model.Thrift.emitFields .compact rest g.id := rfl

theorem emit_cons_compact (f : Spec.Thrift.FRec) (rest : List Spec.Thrift.FRec) (last : Int) :
    Spec.Thrift.emit .compact (f :: rest) last =
      (if 0 < f.id - last ∧ f.id - last ≤ 15 then [UInt8.ofNat ((f.id - last).toNat * 16 + tcode f.t f.isTrue)]
       else [UInt8.ofNat (tcode f.t f.isTrue)] ++ Spec.Thrift.zz f.id) ++
        (if (f.t == Spec.Thrift.TT.bool) = true then [] else f.body) ++ Spec.Thrift.emit .compact rest f.id := rfl

theorem emit_compact : ∀ (l : List Spec.Thrift.FRec) (last : Int), 0 ≤ last → StrictFrom last l →
    Model.Thrift.emitFields .compact (l.map conv) last ++ Model.Thrift.wStopField .compact =
      Spec.Thrift.emit .compact l last := by
  intro l
  induction l with
  | nil => intro last _ _; rfl
  | cons f l ih =>
    intro last h0 hs
    have hlt : last < f.id := hs.1
    have ih' := ih f.id (by omega) hs.2
    rw [List.map_cons, emitFields_cons_compact, emit_cons_compact, ← ih']
    have hh := hdr_compact f.t f.isTrue f.id last h0 hlt
    unfold tOut at hh
    have e1 : (conv f).id = f.id := rfl
    have e2 : (conv f).t = ofSpec f.t := rfl
    have e3 : (conv f).isTrue = f.isTrue := rfl
    have e4 : (conv f).body = f.body := rfl
    rw [e1, e2, e3, e4, hh, Bool.true_and, ofSpec_beq_bool]
    simp only [List.append_assoc]

/-- struct level: id-sorted emission of corresponding records, stop byte included -/
theorem struct_compact (l : List Spec.Thrift.FRec)
    (hpos : ∀ x ∈ l.map (·.id), 0 < x) (hnd : (l.map (·.id)).Nodup) :
    Model.Thrift.emitFields .compact (Model.Thrift.sortRecs (l.map conv)) 0 ++ Model.Thrift.wStopField .compact =
      Spec.Thrift.emit .compact (l.foldr Spec.Thrift.insRec []) 0 := by
  rw [sortRecs_conv]
  exact emit_compact _ 0 (by omega) (strict_sort l hpos hnd)

end Enc.Lemmas.ThriftSpec
