import Enc.Lemmas.JsonRawEmitValue
/-!
# RawMessage / MarshalJSON re-emission, part 7: more fuel never changes a successful parse of the value-level grammar
-/
namespace Enc.Lemmas.JsonRawEmitFuel
open Enc Enc.Model.Json
open Enc.Spec.Json (ws valueV elementsV membersV)
open Enc.Lemmas.JsonGrammar (bind_some isClose)
open Enc.Lemmas.JsonDecAnyBase
open Enc.Lemmas.JsonDecAny (map_eq_some)

variable (fl : DynFlags)

theorem succ_all (f : Nat) :
    (∀ d b x, valueV fl f d b = some x → valueV fl (f + 1) d b = some x) ∧
    (∀ d b first x, elementsV fl f d b first = some x → elementsV fl (f + 1) d b first = some x) ∧
    (∀ d b first x, membersV fl f d b first = some x → membersV fl (f + 1) d b first = some x) := by
  induction f with
  | zero =>
    refine ⟨?_, ?_, ?_⟩
    · intro d b x h; rw [valueV_zero] at h; cases h
    · intro d b first x h; rw [elementsV_zero] at h; cases h
    · intro d b first x h; rw [membersV_zero] at h; cases h
  | succ f ih =>
    obtain ⟨ihv, ihe, ihm⟩ := ih
    refine ⟨?_, ?_, ?_⟩
    · intro d b x h
      cases b with
      | nil => rw [valueV_nil] at h; cases h
      | cons c r =>
        rw [valueV_succ_cons] at h ⊢
        split at h
        · rename_i hc; simp only [hc, if_true]
          split at h
          · cases h
          · rename_i hd
            simp only [hd, if_false]
            obtain ⟨y, hy, rfl⟩ := map_eq_some h
            rw [ihm _ _ _ _ hy]; rfl
        · rename_i hc; simp only [hc, if_false]
          split at h
          · rename_i hc2; simp only [hc2, if_true]
            split at h
            · cases h
            · rename_i hd
              simp only [hd, if_false]
              obtain ⟨y, hy, rfl⟩ := map_eq_some h
              rw [ihe _ _ _ _ hy]; rfl
          · rename_i hc2; simp only [hc2, if_false]; exact h
    · intro d b first x h
      cases b with
      | nil => rw [elementsV_nil] at h; cases h
      | cons c r =>
        rw [elementsV_succ_cons] at h ⊢
        split at h
        · rename_i hc; simp only [hc, if_true]; exact h
        · rename_i hc; simp only [hc, if_false]
          obtain ⟨b2, hb2, h⟩ := bind_some h
          rw [hb2]; simp only [Option.bind_some]
          split at h
          · cases h
          · rename_i hcl
            simp only [hcl, if_false]
            obtain ⟨y, hy, h⟩ := bind_some h
            obtain ⟨z, hz, rfl⟩ := map_eq_some h
            rw [ihv _ _ _ hy]; simp only [Option.bind_some]
            rw [ihe _ _ _ _ hz]; rfl
    · intro d b first x h
      cases b with
      | nil => rw [membersV_nil] at h; cases h
      | cons c r =>
        rw [membersV_succ_cons] at h ⊢
        split at h
        · rename_i hc; simp only [hc, if_true]; exact h
        · rename_i hc; simp only [hc, if_false]
          obtain ⟨b2, hb2, h⟩ := bind_some h
          rw [hb2]; simp only [Option.bind_some]
          obtain ⟨r2, hs, h⟩ := bind_some h
          rw [hs]; simp only [Option.bind_some]
          obtain ⟨r3, hr3, h⟩ := colonThenV_some h
          rw [hr3]; simp only [colonThenV, beq_self_eq_true, if_true]
          obtain ⟨y, hy, h⟩ := bind_some h
          obtain ⟨z, hz, rfl⟩ := map_eq_some h
          rw [ihv _ _ _ hy]; simp only [Option.bind_some]
          rw [ihm _ _ _ _ hz]; rfl

theorem valueV_fuel_mono {f f' d : Nat} {b : Bytes} {x : GV × Bool × Bytes} (hf : f ≤ f') (h : valueV fl f d b = some x) :
    valueV fl f' d b = some x := by
  induction hf with
  | refl => exact h
  | step _ ih => exact (succ_all fl _).1 d b x ih

end Enc.Lemmas.JsonRawEmitFuel
