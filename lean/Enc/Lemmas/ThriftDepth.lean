import Enc.Lemmas.ThriftSkip
import Enc.Lemmas.ThriftDecode
import Enc.Lemmas.ThriftDeltaStop
/-!
C08, thrift: the decoder's nesting limit (fix 9c8d6b4: `flags.nested()`, `skip(r, t, depth)`, `maxDepth = 10000`).

For EVERY input:
  * `skip_at_limit`            a list, set, map or struct met at depth ≥ maxDepth is an error before a byte of it is read
  * `decode_struct_at_limit`   likewise for a declared struct
  * `decode_coll_at_limit`     a declared slice / set / map at depth ≥ maxDepth never yields elements: the result is an
                               error, or the collection is empty / has a mismatching wire type and is skipped
so no run of the skipper or the decoder ever is inside more than maxDepth containers (each recursive call of the model
passes `d + 1`, and a call at `d ≥ maxDepth` does not recurse).

Sharpness, on the concrete family "unknown field holding n nested one-element lists" (compact: bytes 0x19 … 0x19):
  * `skip_deep_lists`, `skip_nested_lists_ok`      the skipper at depth d: n headers 0x19 are an error iff d + n ≥ maxDepth
  * `deep_unknown_rejected`     Unmarshal: field + 9999 headers 0x19 (+ anything) is rejected: the list they announce
                                would be, with the struct itself, container number 10001
  * `max_depth_unknown_accepted`  field + 9998 headers 0x19 + one empty list = 9999 nested lists (the innermost is
                                container number 10000) is skipped and the value is decoded
The positive half for arbitrary well-formed values is `ThriftSkip.skip_encode` (hypothesis `d + nest ty ≤ maxDepth`).
-/
namespace Enc.Lemmas.ThriftDepth
open Enc Enc.Model.Thrift Enc.Lemmas.ThriftPrim Enc.Lemmas.ThriftSkip

def isContainer : TType → Bool
  | .list | .set | .map | .struct => true
  | _ => false

/-- **depth limit, skipper.** At depth ≥ maxDepth a container is rejected whatever the input is. -/
theorem skip_at_limit (p : Proto) (d fuel : Nat) (t : TType) (b : Bytes) (ht : isContainer t = true)
    (hd : Gen.c_thrift_maxDepth ≤ d) : skip p d (fuel + 1) t b = .err "maxDepth" := by
  have := tooDeep_true d hd
  cases t <;> simp [isContainer] at ht <;> simp [skip, this]

/-- below the limit the test is transparent: the container is entered with depth `d + 1` -/
theorem skip_list_below (p : Proto) (d fuel : Nat) (b : Bytes) (hd : d < Gen.c_thrift_maxDepth) :
    skip p d (fuel + 1) .list b = (rList p b).bind fun ((et, n), r) => skipN p (d + 1) fuel et n r := by
  simp [skip, tooDeep_false d hd]

/-- **depth limit, declared struct.** -/
theorem decode_struct_at_limit (p : Proto) (strict : Bool) (d fuel : Nat) (fs : Fields) (b : Bytes) (cur : Val)
    (hd : Gen.c_thrift_maxDepth ≤ d) : decode p strict d (fuel + 1) (.struct fs) b cur = .err "maxDepth" := by
  cases cur <;> simp [decode, tooDeep_true d hd]

/-- **depth limit, declared slice**: at depth ≥ maxDepth no element of a slice is ever decoded — the outcome is an error
or the skipping of a list whose wire type does not match (non-strict mode) -/
theorem decode_slice_at_limit (p : Proto) (strict : Bool) (d fuel : Nat) (et : Ty) (hu : isU8 et = false) (b : Bytes)
    (cur v : Val) (r : Bytes) (hd : Gen.c_thrift_maxDepth ≤ d)
    (h : decode p strict d (fuel + 1) (.slice et) b cur = .ok (v, r)) :
    strict = false ∧ v = cur ∧ ∃ lt n r0, rList p b = .ok ((lt, n), r0) ∧
      typeOf et ≠ (if lt == .true_ then TType.bool else lt) := by
  rw [decode_slice, hu] at h
  simp only [Bool.false_eq_true, if_false] at h
  cases hl : rList p b with
  | err e => simp [hl, Res.bind] at h
  | panic e => simp [hl, Res.bind] at h
  | ok x =>
    obtain ⟨⟨lt, n⟩, r0⟩ := x
    rw [hl] at h
    simp only [Res.bind, tooDeep_true d hd, if_true] at h
    generalize hlt : (if (lt == TType.true_) = true then TType.bool else lt) = lt' at h
    by_cases hm : (typeOf et != lt') = true
    · rw [if_pos hm] at h
      cases strict with
      | true => simp at h
      | false =>
        simp only [Bool.false_eq_true, if_false] at h
        cases hsk : skipN p (d + 1) fuel lt' n r0 with
        | err e => rw [hsk] at h; simp at h
        | panic e => rw [hsk] at h; simp at h
        | ok y =>
          rw [hsk] at h
          simp only [Res.ok.injEq, Prod.mk.injEq] at h
          exact ⟨rfl, h.1.symm, lt, n, r0, rfl, by rw [hlt]; simpa using hm⟩
    · rw [if_neg hm] at h; simp at h

/-! ## the concrete family: nested one-element lists (compact header byte 0x19 = size 1, element type LIST) -/

theorem rList_19 (rest : Bytes) : rList .compact (0x19 :: rest) = .ok ((.list, 1), rest) := rfl
theorem rList_09 (rest : Bytes) : rList .compact (0x09 :: rest) = .ok ((.list, 0), rest) := rfl

/-- n nested one-element lists of lists met at depth d with d + n ≥ maxDepth: the skipper fails with the depth error,
whatever follows (each header 0x19 announces a list inside, so the item after the n-th header is a list at depth d + n) -/
theorem skip_deep_lists : ∀ (n d fuel : Nat) (t : Bytes), Gen.c_thrift_maxDepth ≤ d + n → 2 * n + 1 ≤ fuel →
    skip .compact d fuel .list (List.replicate n 0x19 ++ t) = .err "maxDepth" := by
  intro n
  induction n with
  | zero =>
    intro d fuel t hd hf
    obtain ⟨f, rfl⟩ : ∃ f, fuel = f + 1 := ⟨fuel - 1, by omega⟩
    exact skip_at_limit .compact d f .list _ rfl (by omega)
  | succ n ih =>
    intro d fuel t hd hf
    obtain ⟨f, rfl⟩ : ∃ f, fuel = f + 1 + 1 := ⟨fuel - 2, by omega⟩
    by_cases hlim : Gen.c_thrift_maxDepth ≤ d
    · exact skip_at_limit .compact d (f + 1) .list _ rfl hlim
    · rw [skip_list_below .compact d (f + 1) _ (by omega)]
      simp only [List.replicate_succ, List.cons_append, rList_19, Res.bind, skipN]
      rw [ih (d + 1) f t (by omega) (by omega)]
      rfl

/-- n nested one-element lists around an empty list, met at depth d with d + n < maxDepth, are skipped exactly -/
theorem skip_nested_lists_ok : ∀ (n d fuel : Nat) (rest : Bytes), d + n < Gen.c_thrift_maxDepth → 2 * n + 2 ≤ fuel →
    skip .compact d fuel .list (List.replicate n 0x19 ++ 0x09 :: rest) = .ok ((), rest) := by
  intro n
  induction n with
  | zero =>
    intro d fuel rest hd hf
    obtain ⟨f, rfl⟩ : ∃ f, fuel = f + 1 + 1 := ⟨fuel - 2, by omega⟩
    rw [skip_list_below .compact d (f + 1) _ (by omega)]
    simp [rList_09, Res.bind, skipN]
  | succ n ih =>
    intro d fuel rest hd hf
    obtain ⟨f, rfl⟩ : ∃ f, fuel = f + 1 + 1 := ⟨fuel - 2, by omega⟩
    rw [skip_list_below .compact d (f + 1) _ (by omega)]
    simp only [List.replicate_succ, List.cons_append, rList_19, Res.bind, skipN]
    rw [ih (d + 1) f rest (by omega) (by omega)]
    obtain ⟨g, rfl⟩ : ∃ g, f = g + 1 := ⟨f - 1, by omega⟩
    simp [dontExpectEOF_ok, Res.bind, skipN]

/-- the header `0x29`: id delta 2, type LIST -/
theorem rField_29 (rest : Bytes) :
    rField .compact (0x29 :: rest) = .ok ({ t := .list, id := 2, delta := true }, rest) := rfl

/-- the struct decoder at the first field of a struct that does not declare id 2: the unknown list field goes to the skipper
at the struct's depth -/
theorem decodeStruct_unknown_list (strict : Bool) (d fuel : Nat) (descs : List FieldDesc) (hnone : findById descs 2 = none)
    (body : Bytes) (vs : Vals) :
    decodeStruct .compact strict d (fuel + 1) descs (0x29 :: body) vs 0 0 [] =
      (dontExpectEOF (skip .compact d fuel .list body)).bind fun (_, r) =>
        decodeStruct .compact strict d fuel descs r vs 2 1 [] := by
  rw [decodeStruct, rField_29]
  have : wrap16 2 = 2 := by decide
  simp [this, hnone, Proto.coalesce]

/-- **the limit is real**: an unknown field that starts with 9999 nested "list of one list" headers — the list they
announce would be the 10000th list, with the struct itself container number 10001 — makes `Unmarshal` fail, whatever
follows (in particular 10000 properly nested lists) … -/
theorem deep_unknown_rejected (strict : Bool) (fs : Fields) (hnone : findById (fieldDescs fs) 2 = none) (t : Bytes) :
    unmarshal .compact strict (.struct fs) (0x29 :: (List.replicate (Gen.c_thrift_maxDepth - 1) 0x19 ++ t))
      = .err "maxDepth" := by
  unfold unmarshal
  have hz : zeroOf (.struct fs) = .struct (zeroFields fs) := by simp [zeroOf]
  have hmax : Gen.c_thrift_maxDepth = 10000 := rfl
  obtain ⟨f, hf, hfuel⟩ : ∃ f, 2 * Gen.c_thrift_maxDepth + 1 ≤ f ∧
      4 * (0x29 :: (List.replicate (Gen.c_thrift_maxDepth - 1) 0x19 ++ t)).length + 64 + depth (.struct fs)
        = f + 1 + 1 := by
    refine ⟨4 * (0x29 :: (List.replicate (Gen.c_thrift_maxDepth - 1) 0x19 ++ t)).length + 62 + depth (.struct fs), ?_,
      by omega⟩
    simp only [List.length_cons, List.length_append, List.length_replicate]; omega
  rw [hfuel, hz, decode]
  simp only [ThriftDeltaStop.tooDeep_zero, Bool.false_eq_true, if_false]
  rw [decodeStruct_unknown_list strict 1 f _ hnone, skip_deep_lists _ 1 f t (by omega) (by omega)]
  rfl

/-- … while 9999 nested lists (container number 10000) are skipped and the struct is decoded (here: no other field, so
the result is the zero value; `noreq`: no required field is declared) -/
theorem max_depth_unknown_accepted (strict : Bool) (fs : Fields) (hnone : findById (fieldDescs fs) 2 = none)
    (noreq : (fieldDescs fs).any (fun fd => fd.required) = false) :
    unmarshal .compact strict (.struct fs)
      (0x29 :: (List.replicate (Gen.c_thrift_maxDepth - 2) 0x19 ++ [0x09, 0x00])) = .ok (zeroOf (.struct fs)) := by
  generalize hb : (0x29 :: (List.replicate (Gen.c_thrift_maxDepth - 2) 0x19 ++ [0x09, 0x00]) : Bytes) = inp
  have hlen : inp.length = Gen.c_thrift_maxDepth + 1 := by
    rw [← hb]
    simp only [List.length_cons, List.length_append, List.length_replicate, List.length_nil]
    have : Gen.c_thrift_maxDepth = 10000 := rfl
    omega
  unfold unmarshal
  have hz : zeroOf (.struct fs) = .struct (zeroFields fs) := by simp [zeroOf]
  obtain ⟨f, hf, hfuel⟩ : ∃ f, 2 * Gen.c_thrift_maxDepth ≤ f ∧
      4 * inp.length + 64 + depth (.struct fs) = f + 1 + 1 + 1 :=
    ⟨4 * inp.length + 61 + depth (.struct fs), by omega, by omega⟩
  have hmax : Gen.c_thrift_maxDepth = 10000 := rfl
  rw [hfuel, hz, ← hb, decode]
  simp only [ThriftDeltaStop.tooDeep_zero, Bool.false_eq_true, if_false]
  rw [decodeStruct_unknown_list strict 1 (f + 1) _ hnone,
    skip_nested_lists_ok (Gen.c_thrift_maxDepth - 2) 1 (f + 1) [0x00] (by omega) (by omega)]
  simp only [dontExpectEOF_ok, Res.bind]
  rw [ThriftDeltaStop.decodeStruct_stop_byte]
  have hany : ¬ ∃ x, x ∈ fieldDescs fs ∧ x.required = true := by simpa using noreq
  simp [hany]

/-- non-vacuity of the two hypotheses: the empty struct (proved), a struct with one optional i32 field with id 1
(evaluated: the struct-tag parser uses `String.splitOn`, which the kernel does not unfold) -/
example : findById (fieldDescs .nil) 2 = none ∧ (fieldDescs .nil).any (fun fd => fd.required) = false := by
  decide
#guard (findById (fieldDescs (.cons "A" "thrift:\"1\"" false (.int .i32) .nil)) 2).isNone &&
    !(fieldDescs (.cons "A" "thrift:\"1\"" false (.int .i32) .nil)).any (fun fd => fd.required)

#print axioms skip_at_limit
#print axioms decode_struct_at_limit
#print axioms decode_slice_at_limit
#print axioms deep_unknown_rejected
#print axioms max_depth_unknown_accepted

end Enc.Lemmas.ThriftDepth
