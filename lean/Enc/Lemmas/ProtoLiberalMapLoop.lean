import Enc.Lemmas.ProtoLiberalMapDefs
/-!
# liberal decoding on `tyOKM`: the Go struct loop follows the reference decoder record by record

`ProtoLiberalLoop` re-run on the universe with map fields.  New: `map_agree` (one entry of a map field: the entry
chunk is decoded by the synthetic entry codec — by the induction hypothesis applied to the entry message type
`{1: key, 2: value}`, which is itself a message type of the universe — and the pair is assigned with `MapAssign` =
the reference's `mapPut`), and the hypothesis `neRecs` (no zero-length map entry) threaded through the induction.

  * `base_agreeM / field_agreeM / slice_agreeM`   one occurrence of a scalar / message / `*T` / element of `[]T`
  * `map_agree`                                    one entry of `map[K]V`, ANY entry body the reference accepts: key
                                                   and value in any order, missing (zero value), repeated (last wins;
                                                   message values merge), unknown fields in between
  * `loop_agreeM`                                  the loop
-/
set_option linter.unusedSimpArgs false
set_option linter.unusedVariables false
namespace Enc.Lemmas.ProtoLiberalMap
open Enc Enc.Model.Proto Enc.Lemmas.ProtoWire Enc.Lemmas.ProtoDecode Enc.Lemmas.ProtoRoundTrip Enc.Lemmas.ProtoMap
open Enc.Lemmas.ProtoLiberal
open Enc.Lemmas.ProtoRewriteSpec (VTok wireNum tag_num tag_type Valid)
open Enc.Spec.Protobuf (FieldOpt fieldOpt WireVal decodeOne decodeMsg decodeRecs parse findField valsGet valsSet deref
  unwrapPtr wrapPtr mapPut)

/-- the statement proved by induction on the reference's fuel `F` -/
def LoopOKM (F : Nat) : Prop :=
  ∀ (fs : Fields) (fl : Flags) (b : Bytes) (recs : List (Nat × WireVal)) (vs vs' : Vals),
    tyOKM (.struct fs) = true → fl.zigzag = false →
    parse (b.length + 1) b = some recs → neRecs F fs recs = true → decodeRecs F fs recs vs = some vs' →
    Seg (fieldsOf 1 fs) fl b vs vs'

theorem ptrTarget_notMap (t : Ty) (h : ptrTarget t = true) : isMap t = false := by
  cases t <;> simp_all [ptrTarget, isMap]

/-- a type of the universe that is neither message, pointer, repeated nor map is a scalar of the old universe -/
theorem scalar_of_tyOKM (t : Ty) (ht : tyOKM t = true) (hs : isStructTy t = false) (hp : isPtr t = false)
    (hsl : isSlice t = false) (hm : isMap t = false) : tyOK t = true := by
  rw [← scalar_tyOK t (by simp [isScalarTy, hs, hp, hsl, hm])]; exact ht

/-! ## one occurrence -/

theorem base_agreeM (F : Nat) (ih : ∀ F', F' < F → LoopOKM F') (tb : Ty) (o : FieldOpt) (w : WireVal) (p : Bytes)
    (cur v : Val) (fl : Flags) (ht : tyOKM tb = true) (hnp : isPtr tb = false) (hns : isSlice tb = false)
    (hnm : isMap tb = false) (ho : optOK tb o = true) (hfl : fl.zigzag = o.zigzag) (hp : Pay w p)
    (hne : neOne F tb w = true) (h : decodeOne F tb o w cur = some v) :
    wireNum w = (codecFor tb o).wire.num ∧ (isStructTy tb = true → (codecFor tb o).wire = .varlen) ∧
      ∃ data, DataFor (isStructTy tb) p data ∧ ∃ f, decodeU f (codecFor tb o) data cur fl = .ok (v, data.length) := by
  by_cases hs : isStructTy tb = true
  · cases tb <;> simp only [isStructTy] at hs <;> try (exact absurd hs (by decide))
    rename_i fs'
    have hoz : o.zigzag = false := by simpa [optOK] using ho
    cases F with
    | zero => simp [decodeOne] at h
    | succ F1 =>
    cases w
    case len body =>
      cases cur <;> simp only [decodeOne] at h <;> try contradiction
      rename_i vs0
      cases hm : decodeMsg F1 fs' body vs0 with
      | none => simp [hm] at h
      | some vs1 =>
        simp only [hm, Option.bind_eq_bind, Option.bind_some, Option.pure_def, Option.some.injEq] at h
        subst h
        cases F1 with
        | zero => simp [decodeMsg] at hm
        | succ F2 =>
          simp only [decodeMsg, Option.bind_eq_bind] at hm
          simp only [neOne, neMsg] at hne
          cases hpr : parse (body.length + 1) body with
          | none => simp [hpr] at hm
          | some recs =>
            simp only [hpr, Option.bind_some] at hm
            simp only [hpr] at hne
            have hseg := ih F2 (by omega) fs' { fl with toplevel := false } body recs vs0 vs1 ht
              (by simp only [hfl, hoz]) hpr hne hm
            obtain ⟨f, hf⟩ := hseg.run
            have hcodec : codecFor (.struct fs') o = .struct (fieldsOf 1 fs') := by simp only [codecFor, codecOf]
            rw [hcodec]
            refine ⟨rfl, fun _ => rfl, body, ?_, f + 1, ?_⟩
            · simp only [DataFor, isStructTy, if_true]; exact hp
            · rw [decode_struct_succ, hf]; rfl
    all_goals simp [decodeOne] at h
  · have hs' : isStructTy tb = false := by simpa using hs
    obtain ⟨hw, hd⟩ := scalar_agree tb o w p cur cur v F 0 fl (scalar_of_tyOKM tb ht hs' hnp hns hnm) hs' hnp hns ho
      hfl hp h
    exact ⟨hw, fun hc => absurd hc hs, p, by simp only [DataFor, hs', Bool.false_eq_true, if_false], 1, hd⟩

/-- a non-repeated, non-map field: the value itself or an optional pointer to it -/
theorem field_agreeM (F : Nat) (ih : ∀ F', F' < F → LoopOKM F') (t : Ty) (o : FieldOpt) (w : WireVal) (p : Bytes)
    (cur v : Val) (fl : Flags) (ht : tyOKM t = true) (hns : isSlice t = false) (hnm : isMap t = false)
    (ho : optOK t o = true) (hfl : fl.zigzag = o.zigzag) (hp : Pay w p)
    (hne : neOne F (deref t) w = true)
    (h : decodeOne F (deref t) o w (unwrapPtr t cur) = some v) :
    wireNum w = (codecFor t o).wire.num ∧ (isEmb t = true → (codecFor t o).wire = .varlen) ∧
      ∃ data, DataFor (isEmb t) p data ∧
        ∃ f, decodeU f (codecFor t o) data cur fl = .ok (wrapPtr t v, data.length) := by
  by_cases hptr : isPtr t = true
  · cases t <;> simp only [isPtr] at hptr <;> try (exact absurd hptr (by decide))
    rename_i t'
    simp only [tyOKM, Bool.and_eq_true] at ht
    have ho' : optOK t' o = true := by
      cases t' <;> simp_all [optOK, ptrTarget]
    have hnp' := ptrTarget_notPtr t' ht.1
    have hnm' := ptrTarget_notMap t' ht.1
    obtain ⟨hd, hu, hwr⟩ := base_plumbingM t' ht.2 hnp'
    have hderef : deref (.ptr t') = t' := by simp only [deref, hd]
    have hz : zeroOfCodec (codecFor t' o) = Spec.Protobuf.zeroOf t' := by
      rw [zeroOfCodec_codecForM t' o ht.2 hnm', zeroOf_eqM t' ht.2]
    have htgt : unwrapPtr (.ptr t') cur = ptrTgt (codecFor t' o) cur := by
      cases cur <;> simp only [unwrapPtr, ptrTgt, hu, hd, hz]
    rw [hderef] at hne
    rw [hderef, htgt] at h
    obtain ⟨hw, hv, data, hdat, f, hf⟩ := base_agreeM F ih t' o w p _ v fl ht.2 hnp' (ptrTarget_notSlice t' ht.1)
      hnm' ho' hfl hp hne h
    rw [codecFor_ptr t' o ht.1, isEmb_ptr t' ht.1]
    refine ⟨hw, hv, data, hdat, f + 1, ?_⟩
    rw [decode_ptr, hf]
    simp only [Res.bind, wrapPtr, hwr]
  · have hnp : isPtr t = false := by simpa using hptr
    obtain ⟨hd, hu, hwr⟩ := base_plumbingM t ht hnp
    rw [hd] at hne
    rw [hd, hu] at h
    rw [isEmb_notPtr t hnp, hwr]
    exact base_agreeM F ih t o w p cur v fl ht hnp hns hnm ho hfl hp hne h

/-- one more element of a repeated field -/
theorem slice_agreeM (F : Nat) (ih : ∀ F', F' < F → LoopOKM F') (e : Ty) (o : FieldOpt) (w : WireVal) (p : Bytes)
    (cur x : Val) (fl : Flags) (num : Nat) (ht : tyOKM (.slice e) = true) (ho : optOK (.slice e) o = true)
    (hp : Pay w p) (hne : neOne F e w = true) (h : decodeOne F e o w (Spec.Protobuf.zeroOf e) = some x) :
    wireNum w = (codecOf e).wire.num ∧ (isStructTy e = true → (codecOf e).wire = .varlen) ∧
      ∃ data, DataFor (isStructTy e) p data ∧
        ∃ f, decodeU f (.slice (codecOf e) num (codecOf e).wire (isStructTy e)) data cur fl
          = .ok (.list (Vals.ofList ((match cur with | .list l => l.toList | _ => []) ++ [x])), data.length) := by
  simp only [tyOKM, elemTy, Bool.and_eq_true, Bool.not_eq_true'] at ht
  simp only [optOK, Bool.and_eq_true, Bool.not_eq_true'] at ho
  have hoe : optOK e o = true := optOK_plain e o ho.1 ho.2 ht.1.1.1
  have hc : codecFor e o = codecOf e := codecFor_nofixed e o ho.2
  have hz : Spec.Protobuf.zeroOf e = zeroOfCodec (codecOf e) := by
    rw [← hc, zeroOfCodec_codecForM e o ht.2 ht.1.2, zeroOf_eqM e ht.2]
  rw [hz] at h
  obtain ⟨hw, hv, data, hdat, f, hf⟩ := base_agreeM F ih e o w p _ x {} ht.2 ht.1.1.1 ht.1.1.2 ht.1.2 hoe
    (by simp only [ho.1]) hp hne h
  rw [hc] at hw hv hf
  refine ⟨hw, hv, data, hdat, f + 1, ?_⟩
  simp only [decodeU, hf]
  cases cur <;> simp only [Vals.toList, List.nil_append]

/-- the current contents of a map slot -/
def mapCur (cur : Val) : Vals :=
  match cur with
  | .map kvs => kvs
  | _ => .nil

/-- the `.map` arm of `decodeU` on a non-empty entry chunk -/
theorem decode_map_arm (f num : Nat) (kc vc : Codec) (kEmb vEmb : Bool) (entry : Codec) (d : Bytes) (cur : Val)
    (fl : Flags) (k v : Val) (n : Nat) (hd : d.isEmpty = false)
    (h : decodeU f entry d (zeroOfCodec entry) {} = .ok (.struct (.cons k (.cons v .nil)), n)) :
    decodeU (f + 1) (.map num kc vc kEmb vEmb entry) d cur fl
      = .ok (.map (mapAssign (mapCur cur) k v valEqShow), n) := by
  simp only [decodeU, hd, Bool.false_eq_true, if_false, h]
  cases cur <;> rfl

/-- **one entry of a map field**: whatever NON-EMPTY entry body `eb` the reference decodes (from the zero entry) to
the field values `evs` = `{key, value}`, the map codec decodes `eb` and assigns the same pair to the map in the slot:
the result is literally the reference's `mapPut` (an existing key keeps its position and gets the new value; a new key
is appended) -/
theorem map_agree (F : Nat) (ih : ∀ F', F' < F → LoopOKM F') (kt vt : Ty) (num : Nat) (eb : Bytes) (cur : Val)
    (evs : Vals) (fl : Flags) (ht : tyOKM (.map kt vt) = true) (hnb : eb.isEmpty = false)
    (hne : neMsg F (entryF kt vt) eb = true)
    (h : decodeMsg F (entryF kt vt) eb (Spec.Protobuf.zeroFields (entryF kt vt)) = some evs) :
    ∃ f, decodeU f (mapC num kt vt) eb cur fl
      = .ok (.map (mapPut (mapCur cur) (valsGet evs 0) (valsGet evs 1)), eb.length) := by
  cases F with
  | zero => simp [decodeMsg] at h
  | succ F1 =>
    simp only [decodeMsg, Option.bind_eq_bind] at h
    simp only [neMsg] at hne
    cases hpr : parse (eb.length + 1) eb with
    | none => simp [hpr] at h
    | some recs =>
      simp only [hpr, Option.bind_some] at h
      simp only [hpr] at hne
      have hety := entry_tyOKM kt vt ht
      have hseg := ih F1 (by omega) (entryF kt vt) { ({} : Flags) with toplevel := false } eb recs _ evs hety rfl hpr
        hne h
      obtain ⟨f, hf⟩ := hseg.run
      have hlen : evs.length = 2 := by
        rw [decodeRecs_len F1 _ recs _ evs h]; rfl
      have hevs := vals_two evs hlen
      have hent : decodeU (f + 1) (entryC kt vt) eb (zeroOfCodec (entryC kt vt)) {}
          = .ok (.struct (.cons (valsGet evs 0) (.cons (valsGet evs 1) .nil)), eb.length) := by
        rw [zero_entry kt vt ht, ← fieldsOf_entryF kt vt ht, decode_struct_succ, hf, ← hevs]; rfl
      refine ⟨f + 2, ?_⟩
      rw [mapC, decode_map_arm (f + 1) _ _ _ _ _ _ eb cur fl _ _ _ hnb hent, mapAssign_mapPut]

/-! ## the loop -/

theorem loop_stepM (F : Nat) (ih : ∀ F', F' < F → LoopOKM F') : LoopOKM F := by
  intro fs fl b recs vs vs' hty hfl hparse hne hdec
  cases F with
  | zero => simp [decodeRecs] at hdec
  | succ F1 =>
  by_cases hb : b = []
  · subst hb
    simp only [List.length_nil, parse, Option.some.injEq] at hparse
    subst hparse
    simp only [decodeRecs, Option.some.injEq] at hdec
    subst hdec
    exact Seg.nil _ _ _
  · obtain ⟨ptag, tag, p, m, w, tl, htok, eb, hn0, h8, hpay, erecs, hptl⟩ := parse_head _ b recs hb hparse
    subst eb erecs
    have hvalid : parse (m.length + 1) m = some tl := Valid.of_parse hptl
    have htyS := hty
    simp only [tyOKM, Bool.and_eq_true, decide_eq_true_eq] at hty
    obtain ⟨zz, hlook⟩ := lookupField_fieldsOfM fs (tag / 8) htyS
    cases hff : findField fs (tag / 8) with
    | none =>
      rw [decodeRecs_unknown F1 fs _ w tl vs hff] at hdec
      rw [neRecs_unknown F1 fs _ w tl hff] at hne
      simp only [hff] at hlook
      have hrec : IsRecord (tag / 8) (ptag ++ p) :=
        IsRecord.mk ptag p _ (vtok_isVarint htok) (tag_num tag htok.lt)
          (by rw [tag_type tag htok.lt, h8]; exact pay_isPayload hpay)
      exact (seg_unknown _ fl _ _ vs hlook hrec).append
        (ih F1 (by omega) fs fl m tl vs vs' htyS hfl hvalid hne hdec)
    | some r =>
      obtain ⟨i, o, t⟩ := r
      simp only [hff] at hlook
      obtain ⟨htt, hot0, hnum, _, _⟩ := find_okM (tag / 8) fs 0 i o t hty.1 hff
      have hflz : ({ fl with zigzag := fl.zigzag || o.zigzag } : Flags).zigzag = o.zigzag := by
        simp only [hfl, Bool.false_or]
      by_cases hmp : isMap t = true
      · -- one entry of a map field
        cases t <;> simp only [isMap] at hmp <;> try (exact absurd hmp (by decide))
        rename_i kt vt
        cases w
        case len ebody =>
          rw [decodeRecs_step_map F1 fs _ ebody tl vs i o kt vt hff] at hdec
          rw [neRecs_step_map F1 fs _ ebody tl i o kt vt hff] at hne
          simp only [Bool.and_eq_true, Bool.not_eq_true'] at hne
          obtain ⟨⟨hnb, hneE⟩, hneT⟩ := hne
          cases hone : decodeMsg F1 (entryF kt vt) ebody (Spec.Protobuf.zeroFields (entryF kt vt)) with
          | none => simp [hone] at hdec
          | some evs =>
            simp only [hone, Option.bind_some] at hdec
            simp only [descrM] at hlook
            obtain ⟨f, hf⟩ := map_agree F1 (fun F' h => ih F' (by omega)) kt vt o.number ebody (Vals.get vs i) evs
              { fl with zigzag := fl.zigzag || zz } htt hnb hneE hone
            have hseg := rec_seg (fieldsOf 1 fs) fl ptag p tag (.len ebody) i true zz _ vs _ ebody htok hpay h8 hlook
              rfl (fun _ => rfl) (by simp only [DataFor, if_true]; exact hpay) ⟨f, hf⟩
            rw [set_eq, get_eq] at hseg
            have hcur : mapCur (valsGet vs i) = (match valsGet vs i with | .map kvs => kvs | _ => Vals.nil) := by
              cases valsGet vs i <;> rfl
            rw [hcur] at hseg
            exact hseg.append (ih F1 (by omega) fs fl m tl _ vs' htyS hfl hvalid hneT hdec)
        all_goals
          simp [decodeRecs, hff, Spec.Protobuf.isRepeated, Spec.Protobuf.unname] at hdec
      have hnm : isMap t = false := by simpa using hmp
      have hot := hot0 hnm
      by_cases hsl : isSlice t = true
      · cases t <;> simp only [isSlice] at hsl <;> try (exact absurd hsl (by decide))
        rename_i e
        rw [decodeRecs_step_repM F1 fs _ w tl vs i o e hff htt] at hdec
        rw [neRecs_step_repM F1 fs _ w tl i o e hff htt] at hne
        simp only [Bool.and_eq_true] at hne
        cases hone : decodeOne F1 e o w (Spec.Protobuf.zeroOf e) with
        | none => simp [hone] at hdec
        | some x =>
          simp only [hone, Option.bind_some] at hdec
          simp only [descrM] at hlook
          obtain ⟨hw, hv, data, hdat, hd⟩ := slice_agreeM F1 (fun F' h => ih F' (by omega)) e o w p (Vals.get vs i) x
            { fl with zigzag := fl.zigzag || false } o.number htt hot hpay hne.1 hone
          have hseg := rec_seg (fieldsOf 1 fs) fl ptag p tag w i (isStructTy e) false _ vs _ data htok hpay h8 hlook
            hw hv hdat hd
          rw [set_eq, get_eq] at hseg
          exact hseg.append (ih F1 (by omega) fs fl m tl _ vs' htyS hfl hvalid hne.2 hdec)
      · have hns : isSlice t = false := by simpa using hsl
        rw [decodeRecs_stepM F1 fs _ w tl vs i o t hff htt hns hnm] at hdec
        rw [neRecs_stepM F1 fs _ w tl i o t hff htt hns hnm] at hne
        simp only [Bool.and_eq_true] at hne
        cases hone : decodeOne F1 (deref t) o w (unwrapPtr t (valsGet vs i)) with
        | none => simp [hone] at hdec
        | some v =>
          simp only [hone, Option.bind_some] at hdec
          rw [descrM_plain zz t o hns hnm] at hlook
          rw [← get_eq] at hone
          obtain ⟨hw, hv, data, hdat, hd⟩ := field_agreeM F1 (fun F' h => ih F' (by omega)) t o w p (Vals.get vs i) v
            { fl with zigzag := fl.zigzag || o.zigzag } htt hns hnm hot hflz hpay hne.1 hone
          have hseg := rec_seg (fieldsOf 1 fs) fl ptag p tag w i (isEmb t) o.zigzag _ vs _ data htok hpay h8 hlook
            hw hv hdat hd
          rw [set_eq] at hseg
          exact hseg.append (ih F1 (by omega) fs fl m tl _ vs' htyS hfl hvalid hne.2 hdec)

/-- **the loop on `tyOKM`**: on every input without zero-length map entries that the reference parser accepts and the
reference decoder maps to `vs'`, the Go struct loop arrives at literally the same field values -/
theorem loop_agreeM (F : Nat) : LoopOKM F := by
  induction F using Nat.strongRecOn with
  | _ F ih => exact loop_stepM F ih

end Enc.Lemmas.ProtoLiberalMap
