import Enc.Lemmas.ProtoTemplateValue
import Enc.Lemmas.JsonDecInt
import Std.Tactic.BVDecide
/-!
# Value level of templates, part 4: the leaf encoders of `parseRewriteTemplate`

For the leaf kinds of the proved universe (`kindOf`: bool, int32, int64, uint32, uint64, string, bytes on plain — not zig-zag,
not fixed-width — fields) the record that `parseLeaf` builds from a JSON member is a valid one-record message whose value,
read by the reference decoder, is the value the specification assigns to the member (`Spec.ProtoTemplate.tmplVal`); a
member denoting the zero value compiles to NO rewriter (the field is deleted, i.e. reads as its zero value).
-/
namespace Enc.Lemmas.ProtoTemplate
open Enc Enc.Spec.Protobuf Enc.Lemmas.ProtoRewriteSpec
open Enc.Model.Proto (PKind RwT parseLeaf fieldVarint fieldVarlen fieldFixed32 fieldFixed64 le32 le64 encodeZigZag32 encodeZigZag64
  appendField encodeVarint gvInt gvBool gvString gvFloat floatIsZero PF)
open Enc.Model.Json (GV ITy)

/-! ### one-record messages -/

theorem valid_fieldVarint (f : Nat) (v : BitVec 64) (h0 : 0 < f) (h1 : f < 2 ^ 61) :
    Valid (fieldVarint f v) [(f, .varint v.toNat)] := by
  have ht : VTok (leb128 (f * 8)) (f * 8) := vtok_leb128 _ (by omega)
  have hv : VTok (encodeVarint v) v.toNat := by
    have := vtok_encode v.toNat v.isLt
    rwa [BitVec.ofNat_toNat, BitVec.setWidth_eq] at this
  have tok := rectok_varint _ _ (f * 8) v.toNat ht hv (by omega) (by omega)
  have h := tok.valid_app valid_nil
  have e : f * 8 / 8 = f := by omega
  rw [e] at h
  simpa [fieldVarint] using h

theorem valid_fieldVarlen (f : Nat) (body : Bytes) (h0 : 0 < f) (h1 : f < 2 ^ 61) (hb : body.length < 2 ^ 64) :
    Valid (fieldVarlen f body) [(f, .len body)] := by
  have ht : VTok (leb128 (f * 8 + 2)) (f * 8 + 2) := vtok_leb128 _ (by omega)
  have hl : VTok (encodeVarint (BitVec.ofNat 64 body.length)) body.length := vtok_encode _ hb
  have tok := rectok_len _ _ body (f * 8 + 2) ht hl (by omega) (by omega)
  have h := tok.valid_app valid_nil
  have e : (f * 8 + 2) / 8 = f := by omega
  rw [e] at h
  simpa [fieldVarlen] using h

/-! ### integers -/

theorem spec_unmarshalInt_range (s : Bool) (lo hi : Int) (doc : Bytes) (v : Int) (h0 : lo ≤ 0) (h1 : 0 ≤ hi)
    (h : Spec.Json.unmarshalInt s lo hi doc = some v) : lo ≤ v ∧ v ≤ hi := by
  unfold Spec.Json.unmarshalInt at h
  simp only at h
  split at h
  · split at h
    · simp only [Option.some.injEq] at h; subst h; exact ⟨h0, h1⟩
    · cases h
  · split at h
    · cases h
    · split at h
      · cases h
      · split at h
        · cases h
        · split at h
          · cases h
          · split at h
            · rename_i hr; simp only [Option.some.injEq] at h; subst h; exact hr
            · cases h

theorem gvInt_range (t : ITy) (j : GV) (v : Int) (h : gvInt t j = some v) :
    JsonDecInt.lo t ≤ v ∧ v ≤ JsonDecInt.hi t := by
  have hlo : JsonDecInt.lo t ≤ 0 := by cases t <;> simp [JsonDecInt.lo, ITy.signed, ITy.bits]
  have hhi : 0 ≤ JsonDecInt.hi t := by cases t <;> simp [JsonDecInt.hi, ITy.signed, ITy.bits]
  cases j with
  | null => simp only [gvInt, Option.some.injEq] at h; subst h; exact ⟨hlo, hhi⟩
  | num lit d =>
    simp only [gvInt] at h
    rw [JsonDecInt.unmarshalInt_eq] at h
    exact spec_unmarshalInt_range _ _ _ _ _ hlo hhi h
  | bool | str | arr | obj => simp [gvInt] at h

theorem appendField_length_le (f t : Nat) (v : Bytes) : (appendField f t v).length ≤ 20 + v.length := by
  unfold appendField
  have h1 := encodeVarint_length_le (BitVec.ofNat 64 (f * 8 + t))
  have h2 := encodeVarint_length_le (BitVec.ofNat 64 v.length)
  split <;> simp only [List.length_append, List.length_nil] <;> omega

/-- length of the string a member denotes (0 for the other kinds) -/
def strLen (j : GV) : Nat := match gvString j with | some s => s.length | none => 0

/-- proved universe of leaf kinds: the Go type of a field and its tag options ↦ the kind TypeOf presents (all 15 kinds;
a zig-zag or fixed-width option on a type that has no such wire form is outside) -/
def kindOf (t : Ty) (o : FieldOpt) : Option PKind :=
  match t with
  | .bool => if o.zigzag || o.fixed then none else some .bool
  | .int .i32 => if o.fixed then (if o.zigzag then none else some .sfix32) else if o.zigzag then some .sint32 else some .int32
  | .int .i64 => if o.fixed then (if o.zigzag then none else some .sfix64) else if o.zigzag then some .sint64 else some .int64
  | .int .int => if o.fixed then none else if o.zigzag then some .sint64 else some .int64
  | .int .u32 => if o.zigzag then none else if o.fixed then some .fix32 else some .uint32
  | .int .u64 => if o.zigzag then none else if o.fixed then some .fix64 else some .uint64
  | .int .uint => if o.zigzag || o.fixed then none else some .uint64
  | .f32 => if o.zigzag then none else some .float
  | .f64 => if o.zigzag then none else some .double
  | .str => if o.zigzag || o.fixed then none else some .string
  | .bytes => if o.zigzag || o.fixed then none else some .bytes
  | _ => none

theorem kindOf_scalar (t : Ty) (o : FieldOpt) (k : PKind) (h : kindOf t o = some k) : scalarTy t = true := by
  unfold kindOf at h
  split at h <;> simp_all [scalarTy]

theorem sdec_signed (k : IntKind) (o : FieldOpt) (hz : o.zigzag = false) (hf : o.fixed = false) (v : Int)
    (hk : k.signed = true) (hr : k.inRange v = true) (h1 : -(2 : Int) ^ 63 ≤ v) (h2 : v < (2 : Int) ^ 63) :
    sdec (.int k) o (.varint (BitVec.ofInt 64 v).toNat) = some (.int v) := by
  have e : toInt64 (BitVec.ofInt 64 v).toNat = v := by
    rw [BitVec.toNat_ofInt]
    unfold toInt64
    simp only [Int.reducePow, Nat.reducePow] at h1 h2 ⊢
    split <;> omega
  simp only [sdec, decodeOne, hf, hz, hk, Bool.false_eq_true, if_false, if_true, e, hr]

theorem sdec_unsigned (k : IntKind) (o : FieldOpt) (hf : o.fixed = false) (v : Int)
    (hk : k.signed = false) (hr : k.inRange v = true) (h1 : 0 ≤ v) (h2 : v < (2 : Int) ^ 64) :
    sdec (.int k) o (.varint (BitVec.ofInt 64 v).toNat) = some (.int v) := by
  have e : ((BitVec.ofInt 64 v).toNat : Int) = v := by
    rw [BitVec.toNat_ofInt]
    simp only [Int.reducePow, Nat.reducePow] at h1 h2 ⊢
    omega
  simp only [sdec, decodeOne, hf, hk, Bool.false_eq_true, if_false, e, hr, if_true]

theorem unzigzag_zigzag' (i : Int) : unzigzag (zigzag i) = i := by
  unfold unzigzag zigzag
  split <;> split <;> omega

/-- zig-zag varint: the reference decoder un-zig-zags the specification's image -/
theorem sdec_zigzag (k : IntKind) (o : FieldOpt) (hz : o.zigzag = true) (hf : o.fixed = false) (v : Int)
    (hk : k.signed = true) (hr : k.inRange v = true) :
    sdec (.int k) o (.varint (zigzag v)) = some (.int v) := by
  simp only [sdec, decodeOne, hf, hz, hk, Bool.false_eq_true, if_false, if_true, unzigzag_zigzag', hr]

/-! ### fixed-width records -/

theorem valid_fieldFixed32 (f : Nat) (v : BitVec 32) (h0 : 0 < f) (h1 : f < 2 ^ 61) :
    Valid (fieldFixed32 f v) [(f, .i32 (le32 v))] := by
  have ht : VTok (leb128 (f * 8 + 5)) (f * 8 + 5) := vtok_leb128 _ (by omega)
  have tok := rectok_fixed _ (le32 v) (f * 8 + 5) 4 5 (.i32 (le32 v)) ht (Or.inl ⟨rfl, rfl, rfl⟩) (by simp [le32])
    (by omega) (by omega)
  have h := tok.valid_app valid_nil
  have e : (f * 8 + 5) / 8 = f := by omega
  rw [e] at h
  simpa [fieldFixed32, appendField] using h

theorem valid_fieldFixed64 (f : Nat) (v : BitVec 64) (h0 : 0 < f) (h1 : f < 2 ^ 61) :
    Valid (fieldFixed64 f v) [(f, .i64 (le64 v))] := by
  have ht : VTok (leb128 (f * 8 + 1)) (f * 8 + 1) := vtok_leb128 _ (by omega)
  have tok := rectok_fixed _ (le64 v) (f * 8 + 1) 8 1 (.i64 (le64 v)) ht (Or.inr ⟨rfl, rfl, rfl⟩) (by simp [le64])
    (by omega) (by omega)
  have h := tok.valid_app valid_nil
  have e : (f * 8 + 1) / 8 = f := by omega
  rw [e] at h
  simpa [fieldFixed64, appendField] using h

theorem fieldFixed32_length (f : Nat) (v : BitVec 32) : (fieldFixed32 f v).length ≤ 30 := by
  have := appendField_length_le f 5 (le32 v)
  have hl : (le32 v).length = 4 := rfl
  simp only [fieldFixed32]; omega
theorem fieldFixed64_length (f : Nat) (v : BitVec 64) : (fieldFixed64 f v).length ≤ 30 := by
  have := appendField_length_le f 1 (le64 v)
  have hl : (le64 v).length = 8 := rfl
  simp only [fieldFixed64]; omega
theorem fieldVarint_length (f : Nat) (v : BitVec 64) : (fieldVarint f v).length ≤ 30 := by
  have := appendField_length_le f 0 (encodeVarint v)
  have := encodeVarint_length_le v
  simp only [fieldVarint]; omega

/-! ### 32-bit zig-zag -/

theorem zz32_nonneg (v : BitVec 32) (h : v < 0x80000000#32) : encodeZigZag32 v = v <<< 1 := by
  unfold encodeZigZag32; bv_decide
theorem zz32_neg (v : BitVec 32) (h : ¬ v < 0x80000000#32) : encodeZigZag32 v = ~~~ (v <<< 1) := by
  unfold encodeZigZag32; bv_decide

/-- `encodeZigZag32(int32(v))` is the specification's zig-zag image, for every int32 -/
theorem zigzag32_spec (i : Int) (h1 : -(2:Int)^31 ≤ i) (h2 : i < (2:Int)^31) :
    (encodeZigZag32 (BitVec.ofInt 32 i)).toNat = zigzag i := by
  have hv : (BitVec.ofInt 32 i).toNat = (i % 2 ^ 32).toNat := BitVec.toNat_ofInt ..
  generalize BitVec.ofInt 32 i = v at hv
  simp only [Int.reducePow] at h1 h2 hv
  unfold zigzag
  by_cases hi : i ≥ 0
  · have hlt : v < 0x80000000#32 := by
      rw [BitVec.lt_def]; simp only [BitVec.toNat_ofNat, Nat.reducePow, Nat.reduceMod]; omega
    rw [zz32_nonneg v hlt, BitVec.toNat_shiftLeft, Nat.shiftLeft_eq]
    simp only [hi, if_true, Nat.reducePow]
    omega
  · have hlt : ¬ v < 0x80000000#32 := by
      rw [BitVec.lt_def]; simp only [BitVec.toNat_ofNat, Nat.reducePow, Nat.reduceMod]; omega
    rw [zz32_neg v hlt, BitVec.toNat_not, BitVec.toNat_shiftLeft, Nat.shiftLeft_eq]
    simp only [hi, if_false, Nat.reducePow]
    omega

/-- `strconv.ParseFloat(lit, bits)` returns a value of that width -/
def PFok (pf : PF) : Prop := ∀ lit b, (pf lit 32 = some b → b < 2 ^ 32) ∧ (pf lit 64 = some b → b < 2 ^ 64)

/-- bits of the float a member denotes after the rewrite: `-0` is elided like `0` (Go: `v == 0`), so it reads back as `+0` -/
def floatRead (b width : Nat) : Nat := if floatIsZero b width then 0 else b

/-- what a JSON member denotes for a leaf (value of the field after the rewrite), all 15 kinds; floats relative to `pf` -/
def leafVal (pf : PF) (k : PKind) (j : GV) : Option Val :=
  match k with
  | .bool => (gvBool j).map .bool
  | .int32 | .sint32 | .sfix32 => (gvInt .i32 j).map .int
  | .int64 | .sint64 | .sfix64 => (gvInt .i64 j).map .int
  | .uint64 | .fix64 => (gvInt .u64 j).map .int
  | .uint32 | .fix32 => (gvInt .u32 j).map .int
  | .float => (gvFloat pf 32 j).map fun b => .float (floatRead b 32)
  | .double => (gvFloat pf 64 j).map fun b => .float (floatRead b 64)
  | .string => (gvString j).map .str
  | .bytes => (gvString j).map fun s => if s.isEmpty then .nil else .str s      -- `[]byte`: empty ≡ nil

/-- generic integer leaf: the encoder `enc` writes, for every value of the Go type `T`, one record that the reference
decoder reads back as that value -/
theorem leaf_int_gen (pf : PF) (k : PKind) (T : ITy) (t : Ty) (o : FieldOpt) (f : Nat) (j : GV) (enc : Int → Bytes)
    (wv : Int → WireVal)
    (hp : parseLeaf pf k f j = match gvInt T j with
      | none => .err "json"
      | some v => if v == 0 then .ok none else .ok (some (.raw (enc v))))
    (hz : Spec.Protobuf.zeroOf t = .int 0)
    (henc : ∀ v, JsonDecInt.lo T ≤ v → v ≤ JsonDecInt.hi T →
      (enc v).length ≤ 30 ∧ Valid (enc v) [(f, wv v)] ∧ sdec t o (wv v) = some (.int v)) :
    match (gvInt T j).map Val.int with
    | none => parseLeaf pf k f j = .err "json"
    | some x =>
      (parseLeaf pf k f j = .ok none ∧ x = Spec.Protobuf.zeroOf t) ∨
      (∃ b w, parseLeaf pf k f j = .ok (some (.raw b)) ∧ b.length ≤ 30 + strLen j ∧ Valid b [(f, w)] ∧
        sdec t o w = some x) := by
  cases hg : gvInt T j with
  | none => simp [hp, hg]
  | some v =>
    obtain ⟨r1, r2⟩ := gvInt_range _ _ _ hg
    obtain ⟨hl, hv, hs⟩ := henc v r1 r2
    simp only [Option.map_some]
    by_cases hv0 : v = 0
    · left; subst hv0; simp [hp, hg, hz]
    · right
      exact ⟨enc v, wv v, by simp [hp, hg, hv0], by omega, hv, hs⟩

theorem inRange_i32 (v : Int) (a : -(2:Int)^31 ≤ v) (b : v ≤ (2:Int)^31 - 1) : IntKind.inRange .i32 v = true := by
  unfold IntKind.inRange
  simp only [IntKind.signed, IntKind.bits, if_true, Bool.and_eq_true, Nat.reduceSub, Int.reducePow] at a b ⊢
  exact ⟨decide_eq_true (by omega), decide_eq_true (by omega)⟩
theorem inRange_i64 (v : Int) (a : -(2:Int)^63 ≤ v) (b : v ≤ (2:Int)^63 - 1) : IntKind.inRange .i64 v = true := by
  unfold IntKind.inRange
  simp only [IntKind.signed, IntKind.bits, if_true, Bool.and_eq_true, Nat.reduceSub, Int.reducePow] at a b ⊢
  exact ⟨decide_eq_true (by omega), decide_eq_true (by omega)⟩
theorem inRange_int (v : Int) (a : -(2:Int)^63 ≤ v) (b : v ≤ (2:Int)^63 - 1) : IntKind.inRange .int v = true := by
  unfold IntKind.inRange
  simp only [IntKind.signed, IntKind.bits, if_true, Bool.and_eq_true, Nat.reduceSub, Int.reducePow] at a b ⊢
  exact ⟨decide_eq_true (by omega), decide_eq_true (by omega)⟩
theorem inRange_u32 (v : Int) (a : 0 ≤ v) (b : v ≤ (2:Int)^32 - 1) : IntKind.inRange .u32 v = true := by
  unfold IntKind.inRange
  simp only [IntKind.signed, IntKind.bits, Bool.false_eq_true, if_false, Bool.and_eq_true, Int.reducePow] at a b ⊢
  exact ⟨decide_eq_true (by omega), decide_eq_true (by omega)⟩
theorem inRange_u64 (v : Int) (a : 0 ≤ v) (b : v ≤ (2:Int)^64 - 1) : IntKind.inRange .u64 v = true := by
  unfold IntKind.inRange
  simp only [IntKind.signed, IntKind.bits, Bool.false_eq_true, if_false, Bool.and_eq_true, Int.reducePow] at a b ⊢
  exact ⟨decide_eq_true (by omega), decide_eq_true (by omega)⟩
theorem inRange_uint (v : Int) (a : 0 ≤ v) (b : v ≤ (2:Int)^64 - 1) : IntKind.inRange .uint v = true := by
  unfold IntKind.inRange
  simp only [IntKind.signed, IntKind.bits, Bool.false_eq_true, if_false, Bool.and_eq_true, Int.reducePow] at a b ⊢
  exact ⟨decide_eq_true (by omega), decide_eq_true (by omega)⟩

theorem range_i32 (v : Int) (a : JsonDecInt.lo .i32 ≤ v) (b : v ≤ JsonDecInt.hi .i32) : -(2:Int)^31 ≤ v ∧ v ≤ (2:Int)^31 - 1 := by
  simp only [JsonDecInt.lo, JsonDecInt.hi, ITy.signed, ITy.bits, if_true, Nat.reduceSub] at a b; exact ⟨a, b⟩
theorem range_i64 (v : Int) (a : JsonDecInt.lo .i64 ≤ v) (b : v ≤ JsonDecInt.hi .i64) : -(2:Int)^63 ≤ v ∧ v ≤ (2:Int)^63 - 1 := by
  simp only [JsonDecInt.lo, JsonDecInt.hi, ITy.signed, ITy.bits, if_true, Nat.reduceSub] at a b; exact ⟨a, b⟩
theorem range_u32 (v : Int) (a : JsonDecInt.lo .u32 ≤ v) (b : v ≤ JsonDecInt.hi .u32) : 0 ≤ v ∧ v ≤ (2:Int)^32 - 1 := by
  simp only [JsonDecInt.lo, JsonDecInt.hi, ITy.signed, ITy.bits, Bool.false_eq_true, if_false] at a b; exact ⟨a, b⟩
theorem range_u64 (v : Int) (a : JsonDecInt.lo .u64 ≤ v) (b : v ≤ JsonDecInt.hi .u64) : 0 ≤ v ∧ v ≤ (2:Int)^64 - 1 := by
  simp only [JsonDecInt.lo, JsonDecInt.hi, ITy.signed, ITy.bits, Bool.false_eq_true, if_false] at a b; exact ⟨a, b⟩


/-- generic float leaf -/
theorem leaf_float_gen (pf : PF) (k : PKind) (width : Nat) (t : Ty) (o : FieldOpt) (f : Nat) (j : GV) (enc : Nat → Bytes)
    (wv : Nat → WireVal)
    (hp : parseLeaf pf k f j = match gvFloat pf width j with
      | none => .err "json"
      | some b => if floatIsZero b width then .ok none else .ok (some (.raw (enc b))))
    (hz : Spec.Protobuf.zeroOf t = .float 0)
    (hw : ∀ b, gvFloat pf width j = some b → b < 2 ^ width)
    (henc : ∀ b, b < 2 ^ width → (enc b).length ≤ 30 ∧ Valid (enc b) [(f, wv b)] ∧ sdec t o (wv b) = some (.float b)) :
    match (gvFloat pf width j).map fun b => Val.float (floatRead b width) with
    | none => parseLeaf pf k f j = .err "json"
    | some x =>
      (parseLeaf pf k f j = .ok none ∧ x = Spec.Protobuf.zeroOf t) ∨
      (∃ b w, parseLeaf pf k f j = .ok (some (.raw b)) ∧ b.length ≤ 30 + strLen j ∧ Valid b [(f, w)] ∧
        sdec t o w = some x) := by
  cases hg : gvFloat pf width j with
  | none => simp [hp, hg]
  | some b =>
    obtain ⟨hl, hv, hs⟩ := henc b (hw b hg)
    simp only [Option.map_some]
    by_cases hb0 : floatIsZero b width = true
    · left; simp [hp, hg, hz, hb0, floatRead]
    · right
      simp only [Bool.not_eq_true] at hb0
      exact ⟨enc b, wv b, by simp [hp, hg, hb0], by omega, hv, by simp [floatRead, hb0, hs]⟩

theorem gvFloat_width (pf : PF) (hpf : PFok pf) (j : GV) (b : Nat) :
    (gvFloat pf 32 j = some b → b < 2 ^ 32) ∧ (gvFloat pf 64 j = some b → b < 2 ^ 64) := by
  cases j with
  | null => simp only [gvFloat, Option.some.injEq]; constructor <;> (intro h; subst h; decide)
  | num lit d => simp only [gvFloat]; exact hpf lit b
  | bool | str | arr | obj => simp [gvFloat]

theorem toNat_ofInt32 (v : Int) (a : 0 ≤ v) (b : v ≤ (2:Int)^32 - 1) : ((BitVec.ofInt 32 v).toNat : Int) = v := by
  rw [BitVec.toNat_ofInt]; simp only [Int.reducePow, Nat.reducePow] at a b ⊢; omega
theorem toNat_ofInt64 (v : Int) (a : 0 ≤ v) (b : v ≤ (2:Int)^64 - 1) : ((BitVec.ofInt 64 v).toNat : Int) = v := by
  rw [BitVec.toNat_ofInt]; simp only [Int.reducePow, Nat.reducePow] at a b ⊢; omega

/-- **leaf encoders, all 15 kinds.** On a field of kind `k` (Go type `t`, options `o`, number `f`): `parseLeaf` fails exactly when
the member denotes no value of the kind; a zero value compiles to no rewriter; any other value `x` to a `raw` one-record
message `(f, w)` that the reference decoder reads back as `x`. Floats relative to `pf` (`PFok`: it returns values of the
requested width). -/
theorem leaf_sem (pf : PF) (hpf : PFok pf) (t : Ty) (o : FieldOpt) (k : PKind) (hk : kindOf t o = some k) (f : Nat) (h0 : 0 < f)
    (h1 : f < 2 ^ 61) (j : GV) (hlen : ∀ s, gvString j = some s → s.length < 2 ^ 64) :
    match leafVal pf k j with
    | none => parseLeaf pf k f j = .err "json"
    | some x =>
      (parseLeaf pf k f j = .ok none ∧ x = Spec.Protobuf.zeroOf t) ∨
      (∃ b w, parseLeaf pf k f j = .ok (some (.raw b)) ∧ b.length ≤ 30 + strLen j ∧ Valid b [(f, w)] ∧
        sdec t o w = some x) := by
  unfold kindOf at hk
  have hshape : ∀ (T : ITy) (kk : PKind) (enc : Int → Bytes),
      (parseLeaf pf kk f j = match gvInt T j with
        | none => Res.err "json"
        | some v => if v == 0 then Res.ok none else Res.ok (some (RwT.raw (enc v)))) →
      (parseLeaf pf kk f j = match gvInt T j with
        | none => Res.err "json"
        | some v => if v == 0 then Res.ok none else Res.ok (some (RwT.raw (enc v)))) := fun _ _ _ h => h
  split at hk
  · -- bool
    split at hk <;> cases hk
    rename_i hzf
    simp only [leafVal]
    cases hb : gvBool j with
    | none => simp [parseLeaf, hb]
    | some v =>
      cases v with
      | false => left; simp [parseLeaf, hb, Spec.Protobuf.zeroOf]
      | true =>
        right
        refine ⟨fieldVarint f 1#64, .varint 1, by simp [parseLeaf, hb], ?_, ?_, by simp [sdec, decodeOne]⟩
        · have := fieldVarint_length f 1#64; omega
        · simpa using valid_fieldVarint f 1#64 h0 h1
  · -- int32 family
    by_cases hfx : o.fixed = true
    · by_cases hzz : o.zigzag = true
      · simp [hfx, hzz] at hk
      · simp only [hfx, hzz, if_true, Bool.false_eq_true, if_false, Option.some.injEq] at hk; subst hk
        simp only [leafVal]
        exact leaf_int_gen pf .sfix32 .i32 _ o f j (fun v => fieldFixed32 f (BitVec.ofInt 32 v))
          (fun v => .i32 (le32 (BitVec.ofInt 32 v))) (by simp only [parseLeaf]; cases gvInt _ j <;> rfl) rfl
          (fun v a b => by
            obtain ⟨a, b⟩ := range_i32 v a b
            refine ⟨fieldFixed32_length _ _, valid_fieldFixed32 f _ h0 h1, ?_⟩
            simp only [sdec, decodeOne, hfx, if_true, ProtoWire.leNat_le32, BitVec.toNat_ofInt]
            simp only [Int.reducePow, Nat.reducePow] at a b ⊢
            congr 2; split <;> omega)
    · simp only [Bool.not_eq_true] at hfx
      by_cases hzz : o.zigzag = true
      · simp only [hfx, hzz, if_true, Bool.false_eq_true, if_false, Option.some.injEq] at hk; subst hk
        simp only [leafVal]
        exact leaf_int_gen pf .sint32 .i32 _ o f j
          (fun v => fieldVarint f ((encodeZigZag32 (BitVec.ofInt 32 v)).zeroExtend 64))
          (fun v => .varint (zigzag v)) (by simp only [parseLeaf]; cases gvInt _ j <;> rfl) rfl
          (fun v a b => by
            obtain ⟨a, b⟩ := range_i32 v a b
            refine ⟨fieldVarint_length _ _, ?_, sdec_zigzag .i32 o hzz hfx v rfl (inRange_i32 v a b)⟩
            have := valid_fieldVarint f ((encodeZigZag32 (BitVec.ofInt 32 v)).zeroExtend 64) h0 h1
            rwa [BitVec.toNat_setWidth, Nat.mod_eq_of_lt (by have := (encodeZigZag32 (BitVec.ofInt 32 v)).isLt; omega),
              zigzag32_spec v a (by omega)] at this)
      · simp only [Bool.not_eq_true] at hzz
        simp only [hfx, hzz, Bool.false_eq_true, if_false, Option.some.injEq] at hk; subst hk
        simp only [leafVal]
        exact leaf_int_gen pf .int32 .i32 _ o f j (fun v => fieldVarint f (BitVec.ofInt 64 v))
          (fun v => .varint (BitVec.ofInt 64 v).toNat) (by simp only [parseLeaf]; cases gvInt _ j <;> rfl) rfl
          (fun v a b => by
            obtain ⟨a, b⟩ := range_i32 v a b
            exact ⟨fieldVarint_length _ _, valid_fieldVarint f _ h0 h1,
              sdec_signed .i32 o hzz hfx v rfl (inRange_i32 v a b) (by omega) (by omega)⟩)
  · -- int64 family
    by_cases hfx : o.fixed = true
    · by_cases hzz : o.zigzag = true
      · simp [hfx, hzz] at hk
      · simp only [hfx, hzz, if_true, Bool.false_eq_true, if_false, Option.some.injEq] at hk; subst hk
        simp only [leafVal]
        exact leaf_int_gen pf .sfix64 .i64 _ o f j (fun v => fieldFixed64 f (BitVec.ofInt 64 v))
          (fun v => .i64 (le64 (BitVec.ofInt 64 v))) (by simp only [parseLeaf]; cases gvInt _ j <;> rfl) rfl
          (fun v a b => by
            obtain ⟨a, b⟩ := range_i64 v a b
            refine ⟨fieldFixed64_length _ _, valid_fieldFixed64 f _ h0 h1, ?_⟩
            simp only [sdec, decodeOne, hfx, if_true, ProtoWire.leNat_le64, BitVec.toNat_ofInt, toInt64]
            simp only [Int.reducePow, Nat.reducePow] at a b ⊢
            congr 2; split <;> omega)
    · simp only [Bool.not_eq_true] at hfx
      by_cases hzz : o.zigzag = true
      · simp only [hfx, hzz, if_true, Bool.false_eq_true, if_false, Option.some.injEq] at hk; subst hk
        simp only [leafVal]
        exact leaf_int_gen pf .sint64 .i64 _ o f j (fun v => fieldVarint f (encodeZigZag64 (BitVec.ofInt 64 v)))
          (fun v => .varint (zigzag v)) (by simp only [parseLeaf]; cases gvInt _ j <;> rfl) rfl
          (fun v a b => by
            obtain ⟨a, b⟩ := range_i64 v a b
            refine ⟨fieldVarint_length _ _, ?_, sdec_zigzag .i64 o hzz hfx v rfl (inRange_i64 v a b)⟩
            have := valid_fieldVarint f (encodeZigZag64 (BitVec.ofInt 64 v)) h0 h1
            rwa [ProtoVarint.zigzag_spec v a (by omega)] at this)
      · simp only [Bool.not_eq_true] at hzz
        simp only [hfx, hzz, Bool.false_eq_true, if_false, Option.some.injEq] at hk; subst hk
        simp only [leafVal]
        exact leaf_int_gen pf .int64 .i64 _ o f j (fun v => fieldVarint f (BitVec.ofInt 64 v))
          (fun v => .varint (BitVec.ofInt 64 v).toNat) (by simp only [parseLeaf]; cases gvInt _ j <;> rfl) rfl
          (fun v a b => by
            obtain ⟨a, b⟩ := range_i64 v a b
            exact ⟨fieldVarint_length _ _, valid_fieldVarint f _ h0 h1,
              sdec_signed .i64 o hzz hfx v rfl (inRange_i64 v a b) (by omega) (by omega)⟩)
  · -- int (64 bits)
    by_cases hfx : o.fixed = true
    · simp [hfx] at hk
    · simp only [Bool.not_eq_true] at hfx
      by_cases hzz : o.zigzag = true
      · simp only [hfx, hzz, if_true, Bool.false_eq_true, if_false, Option.some.injEq] at hk; subst hk
        simp only [leafVal]
        exact leaf_int_gen pf .sint64 .i64 _ o f j (fun v => fieldVarint f (encodeZigZag64 (BitVec.ofInt 64 v)))
          (fun v => .varint (zigzag v)) (by simp only [parseLeaf]; cases gvInt _ j <;> rfl) rfl
          (fun v a b => by
            obtain ⟨a, b⟩ := range_i64 v a b
            refine ⟨fieldVarint_length _ _, ?_, sdec_zigzag .int o hzz hfx v rfl (inRange_int v a b)⟩
            have := valid_fieldVarint f (encodeZigZag64 (BitVec.ofInt 64 v)) h0 h1
            rwa [ProtoVarint.zigzag_spec v a (by omega)] at this)
      · simp only [Bool.not_eq_true] at hzz
        simp only [hfx, hzz, Bool.false_eq_true, if_false, Option.some.injEq] at hk; subst hk
        simp only [leafVal]
        exact leaf_int_gen pf .int64 .i64 _ o f j (fun v => fieldVarint f (BitVec.ofInt 64 v))
          (fun v => .varint (BitVec.ofInt 64 v).toNat) (by simp only [parseLeaf]; cases gvInt _ j <;> rfl) rfl
          (fun v a b => by
            obtain ⟨a, b⟩ := range_i64 v a b
            exact ⟨fieldVarint_length _ _, valid_fieldVarint f _ h0 h1,
              sdec_signed .int o hzz hfx v rfl (inRange_int v a b) (by omega) (by omega)⟩)
  · -- uint32 / fixed32
    by_cases hzz : o.zigzag = true
    · simp [hzz] at hk
    · simp only [Bool.not_eq_true] at hzz
      by_cases hfx : o.fixed = true
      · simp only [hfx, hzz, if_true, Bool.false_eq_true, if_false, Option.some.injEq] at hk; subst hk
        simp only [leafVal]
        exact leaf_int_gen pf .fix32 .u32 _ o f j (fun v => fieldFixed32 f (BitVec.ofInt 32 v))
          (fun v => .i32 (le32 (BitVec.ofInt 32 v))) (by simp only [parseLeaf]; cases gvInt _ j <;> rfl) rfl
          (fun v a b => by
            obtain ⟨a, b⟩ := range_u32 v a b
            refine ⟨fieldFixed32_length _ _, valid_fieldFixed32 f _ h0 h1, ?_⟩
            simp only [sdec, decodeOne, hfx, if_true, ProtoWire.leNat_le32, toNat_ofInt32 v a b])
      · simp only [Bool.not_eq_true] at hfx
        simp only [hfx, hzz, Bool.false_eq_true, if_false, Option.some.injEq] at hk; subst hk
        simp only [leafVal]
        exact leaf_int_gen pf .uint32 .u32 _ o f j (fun v => fieldVarint f (BitVec.ofInt 64 v))
          (fun v => .varint (BitVec.ofInt 64 v).toNat) (by simp only [parseLeaf]; cases gvInt _ j <;> rfl) rfl
          (fun v a b => by
            obtain ⟨a, b⟩ := range_u32 v a b
            exact ⟨fieldVarint_length _ _, valid_fieldVarint f _ h0 h1,
              sdec_unsigned .u32 o hfx v rfl (inRange_u32 v a b) a (by omega)⟩)
  · -- uint64 / fixed64
    by_cases hzz : o.zigzag = true
    · simp [hzz] at hk
    · simp only [Bool.not_eq_true] at hzz
      by_cases hfx : o.fixed = true
      · simp only [hfx, hzz, if_true, Bool.false_eq_true, if_false, Option.some.injEq] at hk; subst hk
        simp only [leafVal]
        exact leaf_int_gen pf .fix64 .u64 _ o f j (fun v => fieldFixed64 f (BitVec.ofInt 64 v))
          (fun v => .i64 (le64 (BitVec.ofInt 64 v))) (by simp only [parseLeaf]; cases gvInt _ j <;> rfl) rfl
          (fun v a b => by
            obtain ⟨a, b⟩ := range_u64 v a b
            refine ⟨fieldFixed64_length _ _, valid_fieldFixed64 f _ h0 h1, ?_⟩
            simp only [sdec, decodeOne, hfx, if_true, ProtoWire.leNat_le64, toNat_ofInt64 v a b])
      · simp only [Bool.not_eq_true] at hfx
        simp only [hfx, hzz, Bool.false_eq_true, if_false, Option.some.injEq] at hk; subst hk
        simp only [leafVal]
        exact leaf_int_gen pf .uint64 .u64 _ o f j (fun v => fieldVarint f (BitVec.ofInt 64 v))
          (fun v => .varint (BitVec.ofInt 64 v).toNat) (by simp only [parseLeaf]; cases gvInt _ j <;> rfl) rfl
          (fun v a b => by
            obtain ⟨a, b⟩ := range_u64 v a b
            exact ⟨fieldVarint_length _ _, valid_fieldVarint f _ h0 h1,
              sdec_unsigned .u64 o hfx v rfl (inRange_u64 v a b) a (by omega)⟩)
  · -- uint
    split at hk <;> cases hk
    rename_i hzf
    simp only [Bool.or_eq_true, not_or, Bool.not_eq_true] at hzf
    obtain ⟨hzz, hfx⟩ := hzf
    simp only [leafVal]
    exact leaf_int_gen pf .uint64 .u64 _ o f j (fun v => fieldVarint f (BitVec.ofInt 64 v))
      (fun v => .varint (BitVec.ofInt 64 v).toNat) (by simp only [parseLeaf]; cases gvInt _ j <;> rfl) rfl
      (fun v a b => by
        obtain ⟨a, b⟩ := range_u64 v a b
        exact ⟨fieldVarint_length _ _, valid_fieldVarint f _ h0 h1,
          sdec_unsigned .uint o hfx v rfl (inRange_uint v a b) a (by omega)⟩)
  · -- float32
    split at hk <;> cases hk
    simp only [leafVal]
    exact leaf_float_gen pf .float 32 _ o f j (fun b => fieldFixed32 f (BitVec.ofNat 32 b))
      (fun b => .i32 (le32 (BitVec.ofNat 32 b))) (by simp only [parseLeaf]; cases gvFloat pf 32 j <;> rfl) rfl
      (fun b hb => (gvFloat_width pf hpf j b).1 hb)
      (fun b hb => ⟨fieldFixed32_length _ _, valid_fieldFixed32 f _ h0 h1, by
        simp only [sdec, decodeOne, ProtoWire.leNat_le32, BitVec.toNat_ofNat, Nat.mod_eq_of_lt hb]⟩)
  · -- float64
    split at hk <;> cases hk
    simp only [leafVal]
    exact leaf_float_gen pf .double 64 _ o f j (fun b => fieldFixed64 f (BitVec.ofNat 64 b))
      (fun b => .i64 (le64 (BitVec.ofNat 64 b))) (by simp only [parseLeaf]; cases gvFloat pf 64 j <;> rfl) rfl
      (fun b hb => (gvFloat_width pf hpf j b).2 hb)
      (fun b hb => ⟨fieldFixed64_length _ _, valid_fieldFixed64 f _ h0 h1, by
        simp only [sdec, decodeOne, ProtoWire.leNat_le64, BitVec.toNat_ofNat, Nat.mod_eq_of_lt hb]⟩)
  -- string / bytes
  all_goals (try (split at hk <;> cases hk))
  all_goals (try (rename_i hzf; simp only [leafVal]))
  all_goals
    first
    | (cases hk; done)
    | (cases hs : gvString j with
      | none => simp [parseLeaf, hs]
      | some s =>
        simp only [Option.map_some]
        by_cases he : s = []
        · left; subst he; simp [parseLeaf, hs, Spec.Protobuf.zeroOf]
        · right
          have hne : s.isEmpty = false := by cases s <;> simp_all
          refine ⟨fieldVarlen f s, .len s, by simp [parseLeaf, hs, hne], ?_, valid_fieldVarlen f s h0 h1 (hlen s hs),
            by simp [sdec, decodeOne, hne]⟩
          have := appendField_length_le f 2 s
          simp only [fieldVarlen, strLen, hs]; omega)

end Enc.Lemmas.ProtoTemplate
