import Enc.Lemmas.ProtoTemplateValue
import Enc.Lemmas.JsonDecInt
/-!
# Value level of templates, part 4: the leaf encoders of `parseRewriteTemplate`

For the leaf kinds of the proved universe (`kindOf`: bool, int32, int64, uint32, uint64, string, bytes on plain — not zig-zag,
not fixed-width — fields) the record that `parseLeaf` builds from a JSON member is a valid one-record message whose value,
read by the reference decoder, is the value the specification assigns to the member (`Spec.ProtoTemplate.tmplVal`); a
member denoting the zero value compiles to NO rewriter (the field is deleted, i.e. reads as its zero value).
-/
namespace Enc.Lemmas.ProtoTemplate
open Enc Enc.Spec.Protobuf Enc.Lemmas.ProtoRewriteSpec
open Enc.Model.Proto (PKind RwT parseLeaf fieldVarint fieldVarlen appendField encodeVarint gvInt gvBool gvString PF)
open Enc.Model.Json (GV ITy)

/-! ### one-record messages -/

theorem valid_fieldVarint (f : Nat) (v : BitVec 64) (h0 : 0 < f) (h1 : f < 2 ^ 61) :
    Valid (fieldVarint f v) [(f, .varint v.toNat)] := by
  have ht : VTok (leb128 (f * 8)) (f * 8) := vtok_leb128 _ (by omega)
  have hv : VTok (encodeVarint v) v.toNat := by
    have := vtok_encode v.toNat v.isLt
    rwa [BitVec.ofNat_toNat, BitVec.setWidth_eq] at this
  have tok := rectok_varint _ _ (f * 8) v.toNat ht hv (by omega) (by omega)
  have h := tok.valid_app valid_nil
  have e : f * 8 / 8 = f := by omega
  rw [e] at h
  simpa [fieldVarint] using h

theorem valid_fieldVarlen (f : Nat) (body : Bytes) (h0 : 0 < f) (h1 : f < 2 ^ 61) (hb : body.length < 2 ^ 64) :
    Valid (fieldVarlen f body) [(f, .len body)] := by
  have ht : VTok (leb128 (f * 8 + 2)) (f * 8 + 2) := vtok_leb128 _ (by omega)
  have hl : VTok (encodeVarint (BitVec.ofNat 64 body.length)) body.length := vtok_encode _ hb
  have tok := rectok_len _ _ body (f * 8 + 2) ht hl (by omega) (by omega)
  have h := tok.valid_app valid_nil
  have e : (f * 8 + 2) / 8 = f := by omega
  rw [e] at h
  simpa [fieldVarlen] using h

/-! ### integers -/

theorem spec_unmarshalInt_range (s : Bool) (lo hi : Int) (doc : Bytes) (v : Int) (h0 : lo ≤ 0) (h1 : 0 ≤ hi)
    (h : Spec.Json.unmarshalInt s lo hi doc = some v) : lo ≤ v ∧ v ≤ hi := by
  unfold Spec.Json.unmarshalInt at h
  simp only at h
  split at h
  · split at h
    · simp only [Option.some.injEq] at h; subst h; exact ⟨h0, h1⟩
    · cases h
  · split at h
    · cases h
    · split at h
      · cases h
      · split at h
        · cases h
        · split at h
          · cases h
          · split at h
            · rename_i hr; simp only [Option.some.injEq] at h; subst h; exact hr
            · cases h

theorem gvInt_range (t : ITy) (j : GV) (v : Int) (h : gvInt t j = some v) :
    JsonDecInt.lo t ≤ v ∧ v ≤ JsonDecInt.hi t := by
  have hlo : JsonDecInt.lo t ≤ 0 := by cases t <;> simp [JsonDecInt.lo, ITy.signed, ITy.bits]
  have hhi : 0 ≤ JsonDecInt.hi t := by cases t <;> simp [JsonDecInt.hi, ITy.signed, ITy.bits]
  cases j with
  | null => simp only [gvInt, Option.some.injEq] at h; subst h; exact ⟨hlo, hhi⟩
  | num lit d =>
    simp only [gvInt] at h
    rw [JsonDecInt.unmarshalInt_eq] at h
    exact spec_unmarshalInt_range _ _ _ _ _ hlo hhi h
  | bool | str | arr | obj => simp [gvInt] at h

theorem appendField_length_le (f t : Nat) (v : Bytes) : (appendField f t v).length ≤ 20 + v.length := by
  unfold appendField
  have h1 := encodeVarint_length_le (BitVec.ofNat 64 (f * 8 + t))
  have h2 := encodeVarint_length_le (BitVec.ofNat 64 v.length)
  split <;> simp only [List.length_append, List.length_nil] <;> omega

/-- length of the string a member denotes (0 for the other kinds) -/
def strLen (j : GV) : Nat := match gvString j with | some s => s.length | none => 0

/-- proved universe of leaf kinds: the Go type of a field and its tag options ↦ the kind TypeOf presents -/
def kindOf (t : Ty) (o : FieldOpt) : Option PKind :=
  if o.zigzag || o.fixed then none
  else match t with
    | .bool => some .bool
    | .int .i32 => some .int32
    | .int .i64 => some .int64
    | .int .int => some .int64
    | .int .u64 => some .uint64
    | .int .uint => some .uint64
    | .int .u32 => some .uint32
    | .str => some .string
    | .bytes => some .bytes
    | _ => none

theorem kindOf_scalar (t : Ty) (o : FieldOpt) (k : PKind) (h : kindOf t o = some k) : scalarTy t = true := by
  unfold kindOf at h
  split at h
  · cases h
  · split at h <;> simp_all [scalarTy]

theorem sdec_signed (k : IntKind) (o : FieldOpt) (hz : o.zigzag = false) (hf : o.fixed = false) (v : Int)
    (hk : k.signed = true) (hr : k.inRange v = true) (h1 : -(2 : Int) ^ 63 ≤ v) (h2 : v < (2 : Int) ^ 63) :
    sdec (.int k) o (.varint (BitVec.ofInt 64 v).toNat) = some (.int v) := by
  have e : toInt64 (BitVec.ofInt 64 v).toNat = v := by
    rw [BitVec.toNat_ofInt]
    unfold toInt64
    simp only [Int.reducePow, Nat.reducePow] at h1 h2 ⊢
    split <;> omega
  simp only [sdec, decodeOne, hf, hz, hk, Bool.false_eq_true, if_false, if_true, e, hr]

theorem sdec_unsigned (k : IntKind) (o : FieldOpt) (hf : o.fixed = false) (v : Int)
    (hk : k.signed = false) (hr : k.inRange v = true) (h1 : 0 ≤ v) (h2 : v < (2 : Int) ^ 64) :
    sdec (.int k) o (.varint (BitVec.ofInt 64 v).toNat) = some (.int v) := by
  have e : ((BitVec.ofInt 64 v).toNat : Int) = v := by
    rw [BitVec.toNat_ofInt]
    simp only [Int.reducePow, Nat.reducePow] at h1 h2 ⊢
    omega
  simp only [sdec, decodeOne, hf, hk, Bool.false_eq_true, if_false, e, hr, if_true]

/-- the integer leaf encoders that write a plain varint -/
theorem leaf_varint (pf : PF) (k : PKind) (T : ITy) (ik : IntKind) (o : FieldOpt) (hz : o.zigzag = false)
    (hfx : o.fixed = false) (f : Nat) (h0 : 0 < f) (h1 : f < 2 ^ 61) (j : GV)
    (hp : parseLeaf pf k f j = match gvInt T j with
      | none => .err "json"
      | some v => if v == 0 then .ok none else .ok (some (.raw (fieldVarint f (BitVec.ofInt 64 v)))))
    (hr : ∀ v, JsonDecInt.lo T ≤ v → v ≤ JsonDecInt.hi T →
      ik.inRange v = true ∧ ((ik.signed = true ∧ -(2 : Int) ^ 63 ≤ v ∧ v < (2 : Int) ^ 63) ∨
        (ik.signed = false ∧ 0 ≤ v ∧ v < (2 : Int) ^ 64))) :
    match (gvInt T j).map Val.int with
    | none => parseLeaf pf k f j = .err "json"
    | some x =>
      (parseLeaf pf k f j = .ok none ∧ x = Spec.Protobuf.zeroOf (.int ik)) ∨
      (∃ b w, parseLeaf pf k f j = .ok (some (.raw b)) ∧ b.length ≤ 30 + strLen j ∧ Valid b [(f, w)] ∧
        sdec (.int ik) o w = some x) := by
  cases hg : gvInt T j with
  | none => simp [hp, hg]
  | some v =>
    obtain ⟨r1, r2⟩ := gvInt_range _ _ _ hg
    obtain ⟨hin, hcase⟩ := hr v r1 r2
    simp only [Option.map_some]
    by_cases hv : v = 0
    · left; subst hv; simp [hp, hg, Spec.Protobuf.zeroOf]
    · right
      refine ⟨_, .varint (BitVec.ofInt 64 v).toNat, by simp [hp, hg, hv], ?_, valid_fieldVarint f _ h0 h1, ?_⟩
      · have := appendField_length_le f 0 (encodeVarint (BitVec.ofInt 64 v))
        have := encodeVarint_length_le (BitVec.ofInt 64 v)
        simp only [fieldVarint]; omega
      rcases hcase with ⟨hs, a, b⟩ | ⟨hs, a, b⟩
      · exact sdec_signed ik o hz hfx v hs hin a b
      · exact sdec_unsigned ik o hfx v hs hin a b

/-- what a JSON member denotes for a leaf of the proved universe (value of the field after the rewrite) -/
def leafVal (k : PKind) (j : GV) : Option Val :=
  match k with
  | .bool => (gvBool j).map .bool
  | .int32 => (gvInt .i32 j).map .int
  | .int64 => (gvInt .i64 j).map .int
  | .uint64 => (gvInt .u64 j).map .int
  | .uint32 => (gvInt .u32 j).map .int
  | .string => (gvString j).map .str
  | .bytes => (gvString j).map fun s => if s.isEmpty then .nil else .str s      -- `[]byte`: empty ≡ nil
  | _ => none

/-- **leaf encoders.** On a plain field of kind `k` (Go type `t`, options `o`, number `f`): `parseLeaf` fails exactly when the
member denotes no value of the kind; a zero value compiles to no rewriter; any other value `x` to a `raw` one-record
message `(f, w)` that the reference decoder reads back as `x`. -/
theorem leaf_sem (pf : PF) (t : Ty) (o : FieldOpt) (k : PKind) (hk : kindOf t o = some k) (f : Nat) (h0 : 0 < f)
    (h1 : f < 2 ^ 61) (j : GV) (hlen : ∀ s, gvString j = some s → s.length < 2 ^ 64) :
    match leafVal k j with
    | none => parseLeaf pf k f j = .err "json"
    | some x =>
      (parseLeaf pf k f j = .ok none ∧ x = Spec.Protobuf.zeroOf t) ∨
      (∃ b w, parseLeaf pf k f j = .ok (some (.raw b)) ∧ b.length ≤ 30 + strLen j ∧ Valid b [(f, w)] ∧
        sdec t o w = some x) := by
  unfold kindOf at hk
  split at hk
  · cases hk
  · rename_i hzf
    simp only [Bool.or_eq_true, not_or, Bool.not_eq_true] at hzf
    obtain ⟨hz, hfx⟩ := hzf
    split at hk <;> cases hk
    · -- bool
      simp only [leafVal]
      cases hb : gvBool j with
      | none => simp [parseLeaf, hb]
      | some v =>
        cases v with
        | false => left; simp [parseLeaf, hb, Spec.Protobuf.zeroOf]
        | true =>
          right
          refine ⟨fieldVarint f 1#64, .varint 1, by simp [parseLeaf, hb], ?_, ?_, by simp [sdec, decodeOne]⟩
          · have := appendField_length_le f 0 (encodeVarint 1#64)
            have := encodeVarint_length_le 1#64
            simp only [fieldVarint]; omega
          · simpa using valid_fieldVarint f 1#64 h0 h1
    all_goals simp only [leafVal]
    · exact leaf_varint pf .int32 .i32 .i32 o hz hfx f h0 h1 j (by simp only [parseLeaf]; cases gvInt _ j <;> rfl)
        (fun v a b => by
          simp only [JsonDecInt.lo, JsonDecInt.hi, ITy.signed, ITy.bits, if_true, Int.reducePow, Nat.reduceSub] at a b
          refine ⟨by unfold IntKind.inRange; simp only [IntKind.signed, IntKind.bits, if_true, Bool.and_eq_true, Nat.reduceSub]; exact ⟨decide_eq_true (by omega), decide_eq_true (by omega)⟩, Or.inl ⟨rfl, by omega, by omega⟩⟩)
    · exact leaf_varint pf .int64 .i64 .i64 o hz hfx f h0 h1 j (by simp only [parseLeaf]; cases gvInt _ j <;> rfl)
        (fun v a b => by
          simp only [JsonDecInt.lo, JsonDecInt.hi, ITy.signed, ITy.bits, if_true, Int.reducePow, Nat.reduceSub] at a b
          refine ⟨by unfold IntKind.inRange; simp only [IntKind.signed, IntKind.bits, if_true, Bool.and_eq_true, Nat.reduceSub]; exact ⟨decide_eq_true (by omega), decide_eq_true (by omega)⟩, Or.inl ⟨rfl, by omega, by omega⟩⟩)
    · exact leaf_varint pf .int64 .i64 .int o hz hfx f h0 h1 j (by simp only [parseLeaf]; cases gvInt _ j <;> rfl)
        (fun v a b => by
          simp only [JsonDecInt.lo, JsonDecInt.hi, ITy.signed, ITy.bits, if_true, Int.reducePow, Nat.reduceSub] at a b
          refine ⟨by unfold IntKind.inRange; simp only [IntKind.signed, IntKind.bits, if_true, Bool.and_eq_true, Nat.reduceSub]; exact ⟨decide_eq_true (by omega), decide_eq_true (by omega)⟩, Or.inl ⟨rfl, by omega, by omega⟩⟩)
    · exact leaf_varint pf .uint64 .u64 .u64 o hz hfx f h0 h1 j (by simp only [parseLeaf]; cases gvInt _ j <;> rfl)
        (fun v a b => by
          simp only [JsonDecInt.lo, JsonDecInt.hi, ITy.signed, ITy.bits, Bool.false_eq_true, if_false, Int.reducePow] at a b
          refine ⟨by unfold IntKind.inRange; simp only [IntKind.signed, IntKind.bits, Bool.false_eq_true, if_false, Bool.and_eq_true]; exact ⟨decide_eq_true (by omega), decide_eq_true (by omega)⟩, Or.inr ⟨rfl, by omega, by omega⟩⟩)
    · exact leaf_varint pf .uint64 .u64 .uint o hz hfx f h0 h1 j (by simp only [parseLeaf]; cases gvInt _ j <;> rfl)
        (fun v a b => by
          simp only [JsonDecInt.lo, JsonDecInt.hi, ITy.signed, ITy.bits, Bool.false_eq_true, if_false, Int.reducePow] at a b
          refine ⟨by unfold IntKind.inRange; simp only [IntKind.signed, IntKind.bits, Bool.false_eq_true, if_false, Bool.and_eq_true]; exact ⟨decide_eq_true (by omega), decide_eq_true (by omega)⟩, Or.inr ⟨rfl, by omega, by omega⟩⟩)
    · exact leaf_varint pf .uint32 .u32 .u32 o hz hfx f h0 h1 j (by simp only [parseLeaf]; cases gvInt _ j <;> rfl)
        (fun v a b => by
          simp only [JsonDecInt.lo, JsonDecInt.hi, ITy.signed, ITy.bits, Bool.false_eq_true, if_false, Int.reducePow] at a b
          refine ⟨by unfold IntKind.inRange; simp only [IntKind.signed, IntKind.bits, Bool.false_eq_true, if_false, Bool.and_eq_true]; exact ⟨decide_eq_true (by omega), decide_eq_true (by omega)⟩, Or.inr ⟨rfl, by omega, by omega⟩⟩)
    -- string / bytes
    all_goals
      cases hs : gvString j with
      | none => simp [parseLeaf, hs]
      | some s =>
        simp only [Option.map_some]
        by_cases he : s = []
        · left; subst he; simp [parseLeaf, hs, Spec.Protobuf.zeroOf]
        · right
          have hne : s.isEmpty = false := by cases s <;> simp_all
          refine ⟨fieldVarlen f s, .len s, by simp [parseLeaf, hs, hne], ?_, valid_fieldVarlen f s h0 h1 (hlen s hs),
            by simp [sdec, decodeOne, hne]⟩
          have := appendField_length_le f 2 s
          simp only [fieldVarlen, strLen, hs]; omega

end Enc.Lemmas.ProtoTemplate
