import Enc.Lemmas.ProtoTemplateRules
/-!
# The `BitOr` entry at value level (plain 64-bit varint kinds)

* what the loop hands to a `bitOr` entry: the verbatim payload of the FIRST occurrence of the field (`payloadOf_first`);
* what the reference decoder reads for a scalar field that occurs at most once (`foldG_once`);
* `bitOrRewrite` on an arbitrary (also non-minimal) varint token (`bitor_int64_tok`, `bitor_uint64_tok`);
* the entry lemma `ent_bitor64`.
-/
namespace Enc.Lemmas.ProtoTemplate

/-! ### `bitOrRewrite` on a varint token -/
section model
open Enc Enc.Lemmas.ProtoRewriteSpec
open Enc.Model.Proto
open Enc.Model.Json (ITy)

theorem unmarshal_i64_tok (tok : Bytes) (x : Nat) (h : VTok tok x) :
    unmarshal (.int .i64) tok = .ok (.int (BitVec.ofNat 64 x).toInt) := by
  have hd := h.dec []
  rw [List.append_nil] at hd
  have hl := h.length_pos
  have hne : tok.isEmpty = false := by
    cases h' : tok with
    | nil => rw [h'] at hl; simp at hl
    | cons => rfl
  unfold unmarshal
  rw [hne]
  simp only [Bool.false_eq_true, if_false, codecOf]
  rw [show 2 * tok.length + 8 + Codec.height Codec.int64 = (2 * tok.length + 7 + Codec.height Codec.int64) + 1 by omega]
  simp only [decode, hd, Res.bind, Flags.i64, Bool.false_eq_true, if_false, Nat.lt_irrefl]

theorem unmarshal_u64_tok (tok : Bytes) (x : Nat) (h : VTok tok x) :
    unmarshal (.int .u64) tok = .ok (.int (BitVec.ofNat 64 x).toNat) := by
  have hd := h.dec []
  rw [List.append_nil] at hd
  have hl := h.length_pos
  have hne : tok.isEmpty = false := by
    cases h' : tok with
    | nil => rw [h'] at hl; simp at hl
    | cons => rfl
  unfold unmarshal
  rw [hne]
  simp only [Bool.false_eq_true, if_false, codecOf]
  rw [show 2 * tok.length + 8 + Codec.height Codec.uint64 = (2 * tok.length + 7 + Codec.height Codec.uint64) + 1 by omega]
  simp only [decode, hd, Res.bind, Nat.lt_irrefl, if_false]

/-- `BitOr[int64]` on a plain int64 field, any varint token of the old value -/
theorem bitor_int64_tok (mask : BitVec 64) (f : Nat) (tok : Bytes) (x : Nat) (h : VTok tok x) :
    bitOrRewrite .i64 mask .int64 f tok = .ok (fieldVarint f (BitVec.ofNat 64 x ||| mask)) := by
  simp only [bitOrRewrite, ityKind, unmarshal_i64_tok tok x h, BitVec.ofInt_toInt]

theorem bitor_uint64_tok (mask : BitVec 64) (f : Nat) (tok : Bytes) (x : Nat) (h : VTok tok x) :
    bitOrRewrite .u64 mask .uint64 f tok = .ok (fieldVarint f (BitVec.ofNat 64 x ||| mask)) := by
  simp only [bitOrRewrite, ityKind, unmarshal_u64_tok tok x h]
  have : BitVec.ofInt 64 ((BitVec.ofNat 64 x).toNat : Int) = BitVec.ofNat 64 x := by
    rw [BitVec.ofInt_natCast, BitVec.ofNat_toNat, BitVec.setWidth_eq]
  rw [this]

theorem bitor_absent_u64 (mask : BitVec 64) (f : Nat) :
    bitOrRewrite .u64 mask .uint64 f [] = .ok (fieldVarint f mask) := by
  simp [bitOrRewrite, ityKind, unmarshal, Enc.Model.Proto.zeroOf]

end model

open Enc Enc.Spec.Protobuf Enc.Lemmas.ProtoRewriteSpec Enc.Lemmas.ProtoSpecFuel
open Enc.Model.Proto (PKind RwT rewriteT bitOrRewrite fieldVarint mergeInputT)
open Enc.Model.Json (ITy)

/-! ### first occurrence, at most one occurrence -/

def firstOf (n : Nat) : List (Nat × WireVal) → Option WireVal
  | [] => none
  | (m, w) :: rest => if m = n then some w else firstOf n rest

def countOf (n : Nat) : List (Nat × WireVal) → Nat
  | [] => 0
  | (m, _) :: rest => (if m = n then 1 else 0) + countOf n rest

/-- field `n` occurs at most once among the records -/
def Once (n : Nat) (recs : List (Nat × WireVal)) : Prop := countOf n recs ≤ 1

theorem firstOf_none_of_count (n : Nat) : ∀ recs, countOf n recs = 0 → firstOf n recs = none
  | [], _ => rfl
  | (m, w) :: rest, h => by
    simp only [countOf] at h
    by_cases hm : m = n
    · simp [hm] at h
    · simp only [firstOf, hm, if_false]
      exact firstOf_none_of_count n rest (by simp [hm] at h; exact h)

theorem valid_nil_eq (recs : List (Nat × WireVal)) (h : Valid [] recs) : recs = [] := by
  simp [Valid, parse] at h; exact h

/-- **the payload of an entry that does not merge**: the raw payload of the first occurrence, `[]` if there is none -/
theorem payloadOf_first (r : RwT) (hr : ∀ f t v m, mergeInputT r f t v m = v) (n : Nat) :
    ∀ (k : Nat) (inp : Bytes) (recs : List (Nat × WireVal)), Valid inp recs → inp.length ≤ k →
      match firstOf n recs with
      | none => payloadOf k r n inp = []
      | some w => PayBytes w (payloadOf k r n inp) := by
  intro k
  induction k with
  | zero =>
    intro inp recs hv h1
    have : inp = [] := by
      cases inp with
      | nil => rfl
      | cons => simp at h1
    subst this
    rw [valid_nil_eq recs hv]
    simp [firstOf, payloadOf_nil]
  | succ k ih =>
    intro inp recs hv h1
    by_cases hne : inp = []
    · subst hne
      rw [valid_nil_eq recs hv]
      simp [firstOf, payloadOf_nil]
    · obtain ⟨f, w, tl, t, v, m, pre, hrecs, _, hp, _, hpay, hm, hlen, _⟩ := parseField_spec hv hne
      subst hrecs
      rw [payloadOf_step k r n inp f t v m hne hp]
      by_cases hfn : f = n
      · subst hfn
        simp only [firstOf, if_true, beq_self_eq_true, hr]
        exact hpay
      · have hb : (f == n) = false := by simpa using hfn
        simp only [firstOf, hfn, if_false, hb, Bool.false_eq_true]
        exact ih m tl hm (by omega)

/-- **a scalar field that occurs at most once**: the decoded value of its position is the value of that record, or the
initial value -/
theorem foldG_once (fs : Fields) (n i : Nat) (o : FieldOpt) (t : Ty) (hf : findField fs n = some (i, o, t))
    (ht : scalarTy t = true) : ∀ (recs : List (Nat × WireVal)) (vs res : Vals), vs.length = fs.length → Once n recs →
      foldG fieldD fs recs vs = some res →
      match firstOf n recs with
      | none => valsGet res i = valsGet vs i
      | some w => sdec t o w = some (valsGet res i)
  | [], vs, res, _, _, h => by
    simp only [foldG, Option.some.injEq] at h
    subst h
    simp [firstOf]
  | (m, w) :: rest, vs, res, hlen, honce, h => by
    obtain ⟨hi, _, _⟩ := findField_spec fs n i o _ hf
    simp only [foldG] at h
    obtain ⟨vs1, hs, hr⟩ := Option.bind_eq_some_iff.mp h
    have hlen1 : vs1.length = fs.length := by rw [stepG_length _ _ _ _ _ hs]; exact hlen
    simp only [Once, countOf] at honce
    by_cases hmn : m = n
    · subst hmn
      simp only [if_true] at honce
      have hc : countOf m rest = 0 := by omega
      have hnone := firstOf_none_of_count m rest hc
      have ih := foldG_once fs m i o t hf ht rest vs1 res hlen1 (by simp only [Once]; omega) hr
      rw [hnone] at ih
      simp only at ih
      simp only [stepG, hf, fieldD_scalar _ _ _ _ ht] at hs
      obtain ⟨x, hx, rfl⟩ := Option.map_eq_some_iff.mp hs
      simp only [firstOf, if_true]
      rw [ih, valsGet_set_eq _ _ _ (by rw [hlen]; exact hi)]
      exact hx
    · simp only [hmn, if_false, Nat.zero_add] at honce
      have hcur1 : valsGet vs1 i = valsGet vs i := by
        simp only [stepG] at hs
        cases hfm : findField fs m with
        | none => simp only [hfm, Option.some.injEq] at hs; subst hs; rfl
        | some p =>
          obtain ⟨j, o', t'⟩ := p
          simp only [hfm] at hs
          obtain ⟨x, _, rfl⟩ := Option.map_eq_some_iff.mp hs
          have hji : j ≠ i := by
            intro he; subst he
            exact hmn (findField_inj fs m n j o' o t' _ hfm hf)
          rw [valsGet_set_ne _ _ _ _ hji]
      have ih := foldG_once fs n i o t hf ht rest vs1 res hlen1 honce hr
      simp only [firstOf, hmn, if_false]
      cases hfo : firstOf n rest with
      | none => rw [hfo] at ih; simp only at ih ⊢; rw [ih, hcur1]
      | some w' => rw [hfo] at ih; exact ih

/-! ### the reference decoder on 64-bit varint fields -/

theorem sdec_signed64 (k : IntKind) (hk : k = .i64 ∨ k = .int) (o : FieldOpt) (hf : o.fixed = false) (hz : o.zigzag = false)
    (y : Nat) (hy : y < 2 ^ 64) : sdec (.int k) o (.varint y) = some (.int (toInt64 y)) := by
  have hr : k.inRange (toInt64 y) = true := by
    rcases hk with rfl | rfl <;> simp only [IntKind.inRange, IntKind.signed, IntKind.bits, toInt64, if_true] <;>
      split <;> simp <;> omega
  have hs : k.signed = true := by rcases hk with rfl | rfl <;> rfl
  simp only [sdec, decodeOne, hf, hz, hs, hr, Bool.false_eq_true, if_false, if_true]

theorem sdec_unsigned64 (k : IntKind) (hk : k = .u64 ∨ k = .uint) (o : FieldOpt) (hf : o.fixed = false)
    (y : Nat) (hy : y < 2 ^ 64) : sdec (.int k) o (.varint y) = some (.int y) := by
  have hr : k.inRange (y : Int) = true := by
    have h2 : ((y : Int) < 2 ^ 64) := by omega
    rcases hk with rfl | rfl <;>
      simp only [IntKind.inRange, IntKind.signed, IntKind.bits, Bool.false_eq_true, if_false, Bool.and_eq_true] <;>
      exact ⟨decide_eq_true (by omega), decide_eq_true h2⟩
  have hs : k.signed = false := by rcases hk with rfl | rfl <;> rfl
  simp only [sdec, decodeOne, hf, hs, hr, Bool.false_eq_true, if_false, if_true]

theorem ofInt_toInt64 (x : Nat) (hx : x < 2 ^ 64) : BitVec.ofInt 64 (toInt64 x) = BitVec.ofNat 64 x := by
  apply BitVec.eq_of_toNat_eq
  simp only [BitVec.toNat_ofInt, BitVec.toNat_ofNat, toInt64]
  split <;> omega

theorem toInt64_toNat (w : BitVec 64) : toInt64 w.toNat = w.toInt := by
  have := w.isLt
  simp only [toInt64, BitVec.toInt]
  split <;> split <;> omega

/-! ### the entry lemma -/

/-- **one entry: a `BitOr[T]` rule on a plain 64-bit varint field** (`int64` with `BitOr[int64]` on `int64`/`int`;
`uint64` with `BitOr[uint64]` on `uint64`/`uint`; no zig-zag / fixed option — they are not plain kinds). The field occurs
at most once in the input. The entry writes one record that the reference decoder reads as `old | mask`, `old` = the
decoded value of the field (0 when absent). -/
theorem ent_bitor64 (fs : Fields) (n i : Nat) (o : FieldOpt) (k : IntKind) (T : ITy) (kind : PKind)
    (hcase : (kind = .int64 ∧ T = .i64 ∧ (k = .i64 ∨ k = .int)) ∨ (kind = .uint64 ∧ T = .u64 ∧ (k = .u64 ∨ k = .uint)))
    (hfind : findField fs n = some (i, o, .int k)) (hkind : kindOf (.int k) o = some kind) (h0 : 0 < n) (h1 : n < 2 ^ 61)
    (v : Int) (b : Bytes) (recs0 : List (Nat × WireVal)) (hv : Valid b recs0) (res : Vals)
    (hfold : foldG fieldD fs recs0 (zeroFields fs) = some res) (honce : Once n recs0) :
    ∃ (An : Bytes) (w : WireVal) (old : Int),
      (∀ G, 1 ≤ G → rewriteT G (.bitOr T (BitVec.ofInt 64 v) kind n)
        (payloadOf b.length (.bitOr T (BitVec.ofInt 64 v) kind n) n b) = .ok An) ∧
      Valid An [(n, w)] ∧ An.length ≤ 30 ∧ valsGet res i = .int old ∧
      sdec (.int k) o w = some (.int (Spec.ProtoTemplate.orInt k old v)) := by
  have hfz : o.fixed = false ∧ o.zigzag = false := by
    rcases hcase with ⟨rfl, _, rfl | rfl⟩ | ⟨rfl, _, rfl | rfl⟩ <;> simp only [kindOf] at hkind <;>
      cases hfx : o.fixed <;> cases hzz : o.zigzag <;> simp_all
  obtain ⟨hf, hz⟩ := hfz
  have hsc : scalarTy (.int k) = true := kindOf_scalar _ o kind hkind
  have hpay := payloadOf_first (.bitOr T (BitVec.ofInt 64 v) kind n) (fun _ _ _ _ => rfl) n b.length b recs0 hv (Nat.le_refl _)
  have hdec := foldG_once fs n i o (.int k) hfind hsc recs0 (zeroFields fs) res (zeroFields_length fs) honce hfold
  have hzero : valsGet (zeroFields fs) i = .int 0 := by rw [zero_at fs n i o _ hfind]; simp [zeroOf]
  -- the old value `x` (as the 64-bit varint on the wire; 0 when absent)
  have hx : ∃ x, x < 2 ^ 64 ∧
      bitOrRewrite T (BitVec.ofInt 64 v) kind n (payloadOf b.length (.bitOr T (BitVec.ofInt 64 v) kind n) n b)
        = .ok (fieldVarint n (BitVec.ofNat 64 x ||| BitVec.ofInt 64 v)) ∧
      sdec (.int k) o (.varint x) = some (valsGet res i) := by
    cases hfo : firstOf n recs0 with
    | none =>
      rw [hfo] at hpay hdec
      simp only at hpay hdec
      refine ⟨0, by omega, ?_, ?_⟩
      · rw [hpay]
        rcases hcase with ⟨rfl, rfl, _⟩ | ⟨rfl, rfl, _⟩
        · rw [bitor_absent]; simp
        · rw [bitor_absent_u64]; simp
      · rw [hdec, hzero]
        rcases hcase with ⟨_, _, hk⟩ | ⟨_, _, hk⟩
        · rw [sdec_signed64 k hk o hf hz 0 (by omega)]; simp [toInt64]
        · rw [sdec_unsigned64 k hk o hf 0 (by omega)]; simp
    | some w =>
      rw [hfo] at hpay hdec
      simp only at hpay hdec
      cases w with
      | varint x =>
        have htok : VTok _ x := hpay
        refine ⟨x, htok.lt, ?_, hdec⟩
        rcases hcase with ⟨rfl, rfl, _⟩ | ⟨rfl, rfl, _⟩
        · exact bitor_int64_tok _ n _ x htok
        · exact bitor_uint64_tok _ n _ x htok
      | len p =>
        rcases hcase with ⟨_, _, rfl | rfl⟩ | ⟨_, _, rfl | rfl⟩ <;> simp [sdec, decodeOne] at hdec
      | i64 p =>
        rcases hcase with ⟨_, _, rfl | rfl⟩ | ⟨_, _, rfl | rfl⟩ <;> simp [sdec, decodeOne, hf] at hdec
      | i32 p =>
        rcases hcase with ⟨_, _, rfl | rfl⟩ | ⟨_, _, rfl | rfl⟩ <;> simp [sdec, decodeOne] at hdec
  obtain ⟨x, hxlt, hrun, hold⟩ := hx
  let out : BitVec 64 := BitVec.ofNat 64 x ||| BitVec.ofInt 64 v
  have hvalid := valid_fieldVarint n out h0 h1
  have hlen := fieldVarint_length n out
  rcases hcase with ⟨hk1, hT, hk⟩ | ⟨hk1, hT, hk⟩
  · rw [sdec_signed64 k hk o hf hz x hxlt] at hold
    refine ⟨fieldVarint n out, .varint out.toNat, toInt64 x, fun G hG => ?_, hvalid, hlen, by
      simp only [Option.some.injEq] at hold; exact hold.symm, ?_⟩
    · obtain ⟨g, rfl⟩ : ∃ g, G = g + 1 := ⟨G - 1, by omega⟩
      simp only [rewriteT]; exact hrun
    · rw [sdec_signed64 k hk o hf hz out.toNat out.isLt, toInt64_toNat]
      have : Spec.ProtoTemplate.orInt k (toInt64 x) v = out.toInt := by
        rcases hk with rfl | rfl <;>
          (simp only [Spec.ProtoTemplate.orInt, IntKind.bits, IntKind.signed, if_true, ofInt_toInt64 x hxlt, out]; try rfl)
      rw [this]
  · rw [sdec_unsigned64 k hk o hf x hxlt] at hold
    refine ⟨fieldVarint n out, .varint out.toNat, (x : Int), fun G hG => ?_, hvalid, hlen, by
      simp only [Option.some.injEq] at hold; exact hold.symm, ?_⟩
    · obtain ⟨g, rfl⟩ : ∃ g, G = g + 1 := ⟨G - 1, by omega⟩
      simp only [rewriteT]; exact hrun
    · rw [sdec_unsigned64 k hk o hf out.toNat out.isLt]
      have : Spec.ProtoTemplate.orInt k (x : Int) v = (out.toNat : Int) := by
        rcases hk with rfl | rfl <;>
          (simp only [Spec.ProtoTemplate.orInt, IntKind.bits, IntKind.signed, Bool.false_eq_true, if_false,
            BitVec.ofInt_natCast, out]; try rfl)
      rw [this]

#print axioms payloadOf_first
#print axioms foldG_once
#print axioms ent_bitor64

end Enc.Lemmas.ProtoTemplate
