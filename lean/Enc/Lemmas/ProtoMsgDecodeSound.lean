import Enc.Lemmas.ProtoMsgDecodeConc
/-!
# D3: soundness of the decoder for ARBITRARY user methods

Whatever the user's `Unmarshal` does: if the decoder of `Model.ProtoMsg` succeeds on `b` consuming `n` bytes, then the
payload-level decoder of `Model.Proto` succeeds on `b` consuming `n` bytes, from any target of the same shape.
(The user's methods can only make the decoder fail MORE often; the framing is the library's.)

`Sim c x y`: `x` and `y` have the same shape as far as a decoder of codec `c` looks at its target: pointers are nil / non-nil
together, struct values have the same number of fields; the content of a `.message` leaf, of a slice, of a map is free.
`mapsWF c`: the entry codec of every map is a struct codec (as `structCodecOf` builds it) — without it the statement is false:
a user state may itself look like a decoded `{Key, Elem}` pair.
-/
namespace Enc.Lemmas.ProtoMsgDecode
open Enc Enc.Model.Proto
open Enc.Lemmas.ProtoAlloc (nth lookupField_nth)

mutual
def Sim : Codec → Val → Val → Bool
  | .ptr c, .ptr v, .ptr v' => Sim c v v'
  | .ptr _, .ptr _, _ => false
  | .ptr _, _, .ptr _ => false
  | .struct fs, .struct vs, .struct vs' => SimF fs vs vs'
  | .struct _, .struct _, _ => false
  | .struct _, _, .struct _ => false
  | _, _, _ => true
def SimF : CFields → Vals → Vals → Bool
  | .cons _ _ _ _ c rest, .cons v vs, .cons v' vs' => Sim c v v' && SimF rest vs vs'
  | _, vs, vs' => vs.length == vs'.length
end

mutual
def mapsWF : Codec → Bool
  | .ptr c => mapsWF c
  | .struct fs => mapsWFF fs
  | .slice e _ _ _ => mapsWF e
  | .map _ _ _ _ _ entry => isStructC entry && mapsWF entry
  | _ => true
def mapsWFF : CFields → Bool
  | .nil => true
  | .cons _ _ _ _ c rest => mapsWF c && mapsWFF rest
end

def ptrTgt (c' : Codec) : Val → Val
  | .ptr v => v
  | _ => zeroOfCodec c'

theorem bind_eq_ok {α β : Type} {r : Res α} {f : α → Res β} {x : β} (h : r.bind f = .ok x) : ∃ a, r = .ok a ∧ f a = .ok x := by
  cases r with
  | ok a => exact ⟨a, rfl, h⟩
  | err e => cases h
  | panic e => cases h

mutual
theorem Sim_refl : ∀ (v : Val) (c : Codec), Sim c v v = true
  | .bool _, c | .int _, c | .float _, c | .str _, c | .nil, c | .list _, c | .map _, c => by cases c <;> rfl
  | .ptr v, c => by
    cases c <;> try rfl
    case ptr c' => simp only [Sim]; exact Sim_refl v c'
  | .struct vs, c => by
    cases c <;> try rfl
    case struct fs => simp only [Sim]; exact SimF_refl vs fs
theorem SimF_refl : ∀ (vs : Vals) (fs : CFields), SimF fs vs vs = true
  | .nil, fs => by cases fs <;> simp [SimF]
  | .cons v vs, .nil => by simp [SimF]
  | .cons v vs, .cons _ _ _ _ c rest => by simp only [SimF, Sim_refl v c, SimF_refl vs rest, Bool.and_self]
end

theorem Sim_ptrTgt (c' : Codec) (x y : Val) (h : Sim (.ptr c') x y = true) : Sim c' (ptrTgt c' x) (ptrTgt c' y) = true := by
  cases x <;> cases y <;> first | (simp only [ptrTgt]; exact Sim_refl _ _) | (simp only [Sim] at h; exact h) | (simp [Sim] at h)

theorem SimF_length : ∀ (fs : CFields) (vs vs' : Vals), SimF fs vs vs' = true → vs.length = vs'.length
  | .nil, vs, vs', h => by simpa [SimF] using h
  | .cons _ _ _ _ c rest, .nil, vs', h => by simpa [SimF] using h
  | .cons _ _ _ _ c rest, .cons v vs, .nil, h => by simpa [SimF] using h
  | .cons _ _ _ _ c rest, .cons v vs, .cons v' vs', h => by
    simp only [SimF, Bool.and_eq_true] at h
    simp only [Vals.length, SimF_length rest vs vs' h.2]

theorem Sim_get : ∀ (fs : CFields) (vs vs' : Vals) (i : Nat) (c : Codec), SimF fs vs vs' = true → nth fs i = some c →
    Sim c (Vals.get vs i) (Vals.get vs' i) = true
  | .nil, _, _, _, _, _, h => by simp [nth] at h
  | .cons _ _ _ _ c0 rest, .nil, .nil, i, c, _, _ => by simp only [Vals.get]; exact Sim_refl _ _
  | .cons _ _ _ _ c0 rest, .nil, .cons _ _, i, c, h, _ => by simp [SimF, Vals.length] at h
  | .cons _ _ _ _ c0 rest, .cons _ _, .nil, i, c, h, _ => by simp [SimF, Vals.length] at h
  | .cons _ _ _ _ c0 rest, .cons v vs, .cons v' vs', 0, c, h, hn => by
    simp only [nth, Option.some.injEq] at hn; subst hn
    simp only [SimF, Bool.and_eq_true] at h
    simp only [Vals.get]; exact h.1
  | .cons _ _ _ _ c0 rest, .cons v vs, .cons v' vs', i + 1, c, h, hn => by
    simp only [nth] at hn
    simp only [SimF, Bool.and_eq_true] at h
    simp only [Vals.get]; exact Sim_get rest vs vs' i c h.2 hn

theorem Sim_set : ∀ (fs : CFields) (vs vs' : Vals) (i : Nat) (c : Codec) (x y : Val), SimF fs vs vs' = true →
    nth fs i = some c → Sim c x y = true → SimF fs (Vals.set vs i x) (Vals.set vs' i y) = true
  | .nil, _, _, _, _, _, _, _, h, _ => by simp [nth] at h
  | .cons _ _ _ _ c0 rest, .nil, .nil, i, c, _, _, _, _, _ => by simp [Vals.set, SimF]
  | .cons _ _ _ _ c0 rest, .nil, .cons _ _, i, c, _, _, h, _, _ => by simp [SimF, Vals.length] at h
  | .cons _ _ _ _ c0 rest, .cons _ _, .nil, i, c, _, _, h, _, _ => by simp [SimF, Vals.length] at h
  | .cons _ _ _ _ c0 rest, .cons v vs, .cons v' vs', 0, c, x, y, h, hn, hxy => by
    simp only [nth, Option.some.injEq] at hn; subst hn
    simp only [SimF, Bool.and_eq_true] at h
    simp only [Vals.set, SimF, hxy, h.2, Bool.and_self]
  | .cons _ _ _ _ c0 rest, .cons v vs, .cons v' vs', i + 1, c, x, y, h, hn, hxy => by
    simp only [nth] at hn
    simp only [SimF, Bool.and_eq_true] at h
    simp only [Vals.set, SimF, h.1, Sim_set rest vs vs' i c x y h.2 hn hxy, Bool.and_self]

theorem mapsWF_nth : ∀ (fs : CFields) (i : Nat) (c : Codec), mapsWFF fs = true → nth fs i = some c → mapsWF c = true
  | .nil, _, _, _, h => by simp [nth] at h
  | .cons _ _ _ _ c0 rest, 0, c, hk, h => by
    simp only [nth, Option.some.injEq] at h; subst h
    simp only [mapsWFF, Bool.and_eq_true] at hk; exact hk.1
  | .cons _ _ _ _ c0 rest, i + 1, c, hk, h => by
    simp only [nth] at h
    simp only [mapsWFF, Bool.and_eq_true] at hk
    exact mapsWF_nth rest i c hk.2 h

theorem decodeUsr_ptr (ops : UserOps) (fuel d : Nat) (c' : Codec) (b : Bytes) (cur : Val) (fl : Flags) :
    decodeUsr ops (fuel + 1) d (.ptr c') b cur fl
      = (decodeUsr ops fuel d c' b (ptrTgt c' cur) fl).bind fun r => .ok (.ptr r.1, r.2) := by
  simp only [decodeUsr]; cases cur <;> rfl
theorem decode_ptr (fuel d : Nat) (c' : Codec) (b : Bytes) (cur : Val) (fl : Flags) :
    decode (fuel + 1) d (.ptr c') b cur fl = (decode fuel d c' b (ptrTgt c' cur) fl).bind fun r => .ok (.ptr r.1, r.2) := by
  simp only [decode]; cases cur <;> rfl

/-- the map step succeeds exactly on two-field structs -/
theorem entryAssign_ok (cur' : Vals) (r : Val × Nat) (x : Val × Nat) (h : entryAssign cur' r = .ok x) :
    ∃ ws, r.1 = .struct ws ∧ ws.length = 2 ∧ x.2 = r.2 := by
  obtain ⟨w, n⟩ := r
  cases w with
  | struct ws =>
    rcases ws with _ | ⟨k, _ | ⟨v, _ | ⟨y, r⟩⟩⟩
    · cases h
    · cases h
    · simp only [entryAssign, Res.ok.injEq] at h; subst h; exact ⟨_, rfl, rfl, rfl⟩
    · cases h
  | _ => cases h
theorem entryAssign_len2 (cur' ws : Vals) (n : Nat) (h : ws.length = 2) : ∃ m, entryAssign cur' (.struct ws, n) = .ok (.map m, n) := by
  rcases ws with _ | ⟨k, _ | ⟨v, _ | ⟨y, r⟩⟩⟩
  · cases h
  · cases h
  · exact ⟨_, rfl⟩
  · simp only [Vals.length] at h; omega

theorem Sim_of_leaf (c : Codec) (x y : Val) (h : ∀ c', c ≠ .ptr c') (h' : ∀ fs, c ≠ .struct fs) : Sim c x y = true := by
  cases c <;> first | rfl | exact absurd rfl (h _) | exact absurd rfl (h' _)

mutual
/-- **D3.** for arbitrary user methods: a successful decode is a successful payload-level decode of the same length -/
theorem decodeUsr_sound (ops : UserOps) : ∀ (fuel d : Nat) (c : Codec) (b : Bytes) (cur cur' : Val) (fl : Flags) (u : Val) (n : Nat),
    mapsWF c = true → Sim c cur cur' = true → decodeUsr ops fuel d c b cur fl = .ok (u, n) →
    ∃ w, decode fuel d c b cur' fl = .ok (w, n) ∧ Sim c u w = true
  | 0, _, _, _, _, _, _, _, _, _, _, h => by simp [decodeUsr] at h
  | fuel + 1, d, c, b, cur, cur', fl, u, n, hwf, hs, h => by
    cases c with
    | message =>
      simp only [decodeUsr] at h
      simp only [decode]
      split at h
      · rename_i ht
        obtain ⟨a, _, hx⟩ := bind_eq_ok h
        simp only [Res.ok.injEq, Prod.mk.injEq] at hx
        rw [if_pos ht]
        exact ⟨.str b, by rw [hx.2], rfl⟩
      · rename_i ht
        obtain ⟨⟨v, k⟩, hv, h2⟩ := bind_eq_ok h
        obtain ⟨a, _, hx⟩ := bind_eq_ok h2
        simp only [Res.ok.injEq, Prod.mk.injEq] at hx
        rw [if_neg ht, hv]
        exact ⟨.str v, by rw [← hx.2]; rfl, rfl⟩
    | ptr c' =>
      rw [decodeUsr_ptr] at h
      obtain ⟨⟨v, k⟩, hv, hx⟩ := bind_eq_ok h
      simp only [Res.ok.injEq, Prod.mk.injEq] at hx
      obtain ⟨w, hw, hsw⟩ := decodeUsr_sound ops fuel d c' b _ _ fl v k (by simpa only [mapsWF] using hwf)
        (Sim_ptrTgt c' cur cur' hs) hv
      rw [decode_ptr, hw]
      refine ⟨.ptr w, by rw [← hx.2]; rfl, ?_⟩
      rw [← hx.1]; simp only [Sim]; exact hsw
    | struct fs =>
      cases cur with
      | struct vs =>
        cases cur' with
        | struct vs' =>
          simp only [decodeUsr] at h
          simp only [decode]
          split at h
          · cases h
          · rename_i hd
            obtain ⟨⟨us, k⟩, hv, hx⟩ := bind_eq_ok h
            simp only [Res.ok.injEq, Prod.mk.injEq] at hx
            obtain ⟨ws, hw, hsw⟩ := decodeStructUsr_sound ops fuel (d + 1) fs b b.length vs vs' _ 0 us k
              (by simpa only [mapsWF] using hwf) (by simpa only [Sim] using hs) hv
            rw [if_neg hd, hw]
            refine ⟨.struct ws, by rw [← hx.2]; rfl, ?_⟩
            rw [← hx.1]; simp only [Sim]; exact hsw
        | _ => simp [Sim] at hs
      | _ =>
        simp only [decodeUsr] at h
        split at h <;> cases h
    | slice elem number wire emb =>
      simp only [decodeUsr] at h
      obtain ⟨⟨v, k⟩, hv, hx⟩ := bind_eq_ok h
      simp only [Res.ok.injEq, Prod.mk.injEq] at hx
      obtain ⟨w, hw, _⟩ := decodeUsr_sound ops fuel d elem b _ _ {} v k (by simpa only [mapsWF] using hwf)
        (Sim_refl (zeroOfCodec elem) elem) hv
      simp only [decode, hw]
      exact ⟨_, by rw [← hx.2], Sim_of_leaf _ _ _ (by intro _ hh; cases hh) (by intro _ hh; cases hh)⟩
    | map number k v kEmb vEmb entry =>
      rw [decodeUsr_map] at h
      rw [decode_map]
      have hleaf : ∀ x y, Sim (.map number k v kEmb vEmb entry) x y = true :=
        fun x y => Sim_of_leaf _ _ _ (by intro _ hh; cases hh) (by intro _ hh; cases hh)
      split at h
      · rename_i he
        simp only [Res.ok.injEq, Prod.mk.injEq] at h
        rw [if_pos he]
        exact ⟨_, by rw [← h.2], hleaf _ _⟩
      · rename_i he
        rw [if_neg he]
        obtain ⟨r, hr, hx⟩ := bind_eq_ok h
        simp only [mapsWF, Bool.and_eq_true] at hwf
        obtain ⟨ws, hr1, hlen, hn⟩ := entryAssign_ok _ r _ hx
        obtain ⟨w, hw, hsw⟩ := decodeUsr_sound ops fuel d entry b _ _ {} r.1 r.2 hwf.2
          (Sim_refl (zeroOfCodec entry) entry) hr
        rw [hw, ok_bind]
        cases entry with
        | struct efs =>
          rw [hr1] at hsw
          cases w with
          | struct ws' =>
            simp only [Sim] at hsw
            have hl := SimF_length efs ws ws' hsw
            obtain ⟨m, hm⟩ := entryAssign_len2 (curMap cur') ws' r.2 (by omega)
            simp only at hn
            exact ⟨.map m, by rw [hm, hn], hleaf _ _⟩
          | _ => simp [Sim] at hsw
        | _ => simp [isStructC] at hwf
    | _ =>
      simp only [decodeUsr] at h
      refine ⟨u, ?_, Sim_of_leaf _ _ _ (by intro _ hh; cases hh) (by intro _ hh; cases hh)⟩
      rw [← h]; simp only [decode]
theorem decodeStructUsr_sound (ops : UserOps) : ∀ (fuel d : Nat) (fs : CFields) (b : Bytes) (lenB : Nat) (vs vs' : Vals) (fl : Flags)
    (off : Nat) (us : Vals) (n : Nat),
    mapsWFF fs = true → SimF fs vs vs' = true → decodeStructUsr ops fuel d fs b lenB vs fl off = .ok (us, n) →
    ∃ ws, decodeStruct fuel d fs b lenB vs' fl off = .ok (ws, n) ∧ SimF fs us ws = true
  | 0, _, _, _, _, _, _, _, _, _, _, _, _, h => by simp [decodeStructUsr] at h
  | fuel + 1, d, fs, b, lenB, vs, vs', fl, off, us, n, hwf, hs, h => by
    simp only [decodeStructUsr] at h
    simp only [decodeStruct]
    split at h
    · rename_i he
      simp only [Res.ok.injEq, Prod.mk.injEq] at h
      rw [if_pos he]
      exact ⟨vs', by rw [h.2], by rw [← h.1]; exact hs⟩
    · rename_i he
      rw [if_neg he]
      obtain ⟨⟨tag, k⟩, hdv, h⟩ := bind_eq_ok h
      simp only [hdv]
      cases hl : lookupField fs (tag >>> 3).toNat with
      | none =>
        simp only [hl] at h ⊢
        obtain ⟨skip, hsk, h⟩ := bind_eq_ok h
        rw [hsk, ok_bind]
        exact decodeStructUsr_sound ops fuel d fs _ lenB vs vs' fl _ us n hwf hs h
      | some r =>
        obtain ⟨i, emb, zz, c⟩ := r
        have hn := lookupField_nth fs _ i emb zz c hl
        simp only [hl] at h ⊢
        split at h
        · cases h
        · rename_i hw
          rw [if_neg hw]
          obtain ⟨⟨data, pre⟩, hc, h⟩ := bind_eq_ok h
          obtain ⟨⟨v, m⟩, hd, h⟩ := bind_eq_ok h
          obtain ⟨w, hdw, hsw⟩ := decodeUsr_sound ops fuel d c data _ _ _ v m (mapsWF_nth fs i c hwf hn)
            (Sim_get fs vs vs' i c hs hn) hd
          rw [hc, ok_bind]
          simp only [hdw, ok_bind]
          exact decodeStructUsr_sound ops fuel d fs _ lenB _ _ fl _ us n hwf (Sim_set fs vs vs' i c v w hs hn hsw) h
end

/-- `proto.Unmarshal` with arbitrary user methods accepts only inputs the payload-level `Unmarshal` accepts -/
theorem unmarshalUsr_sound (ops : UserOps) (t : Ty) (b : Bytes) (u : Val) (hwf : mapsWF (codecOf t) = true)
    (h : unmarshalUsr ops t b = .ok u) : ∃ w, unmarshal t b = .ok w ∧ Sim (codecOf t) u w = true := by
  simp only [unmarshalUsr] at h
  simp only [unmarshal]
  split at h
  · rename_i he
    simp only [Res.ok.injEq] at h
    rw [if_pos he]; exact ⟨_, rfl, by rw [← h]; exact Sim_refl _ _⟩
  · rename_i he
    rw [if_neg he]
    split at h
    · rename_i v n hd
      obtain ⟨w, hw, hsw⟩ := decodeUsr_sound ops _ 0 (codecOf t) b _ _ _ v n hwf (Sim_refl _ _) hd
      rw [hw]
      split at h
      · cases h
      · rename_i hn
        simp only [Res.ok.injEq] at h
        simp only [if_neg hn]
        exact ⟨w, rfl, by rw [← h]; exact hsw⟩
    · cases h
    · cases h

end Enc.Lemmas.ProtoMsgDecode

#print axioms Enc.Lemmas.ProtoMsgDecode.decodeUsr_sound
#print axioms Enc.Lemmas.ProtoMsgDecode.decodeStructUsr_sound
#print axioms Enc.Lemmas.ProtoMsgDecode.unmarshalUsr_sound
