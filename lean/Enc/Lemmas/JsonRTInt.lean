import Enc.Lemmas.JsonRTValue
import Enc.Lemmas.JsonDecInt
import Enc.Lemmas.JsonEncInt
/-!
# Integer round trip (C14 / C01 / C02): what `formatInteger` / `appendInt` writes, `parseInt` / `parseUint` reads back

* `acc_decimal` — the digit accumulator over the decimal representation is the number.
* `parseUint_decimal`, `parseInt_decimal_pos`, `parseInt_decimal_neg` — the machine-integer parsers on a decimal text
  (followed by anything that cannot continue a number): the value when it fits 64 bits, an error otherwise.
* `parseInt_appendInt`, `parseUint_formatInteger` — the same about the encoder model's output.
* `unmarshalInt_appendInt` — all ten target widths: the value when it fits the type, an error otherwise.
* `valid_appendInt` — the validator accepts the output as one number.
-/
namespace Enc.Lemmas.JsonRTInt
open Enc Enc.Model.Json
open Enc.Spec.Json (digit digits decimal intString natOfDigits intValue)
open Enc.Lemmas.JsonDecInt (acc dpre lzb fin isDotE acc_nil acc_cons parseUint_eq parseInt_pos parseInt_neg lo hi postS postU
  model_signed model_unsigned)
open Enc.Lemmas.JsonEncInt (dig decimal_eq_if decimal_lt10 decimal_ge10 decimal_head)
open Enc.Lemmas.JsonRTValue (NumEnd decimal_digits dig_digit digits_through decimal_head_digit)

theorem acc_append (a : Nat) (xs ys : Bytes) : acc a (xs ++ ys) = acc (acc a xs) ys := by
  simp [acc, List.foldl_append]

theorem dig_val (d : Nat) (h : d < 10) : (dig d).toNat - 0x30 = d := by
  have : d = 0 ∨ d = 1 ∨ d = 2 ∨ d = 3 ∨ d = 4 ∨ d = 5 ∨ d = 6 ∨ d = 7 ∨ d = 8 ∨ d = 9 := by omega
  rcases this with h | h | h | h | h | h | h | h | h | h <;> subst h <;> decide

/-- reading the decimal digits of `n` gives `n` back -/
theorem acc_decimal (n : Nat) : acc 0 (decimal n) = n := by
  induction n using Nat.strongRecOn with
  | _ n ih =>
    rw [decimal_eq_if]
    split
    · rename_i h
      rw [acc_cons, acc_nil, dig_val n h]; omega
    · rw [acc_append, ih (n / 10) (by omega), acc_cons, acc_nil, dig_val _ (Nat.mod_lt _ (by decide))]; omega

theorem dpre_through (ds rest : Bytes) (hd : ∀ c ∈ ds, digit c = true) (hr : NumEnd rest) : dpre (ds ++ rest) = ds := by
  induction ds with
  | nil =>
    cases rest with
    | nil => rfl
    | cons c t => simp only [List.nil_append, dpre, (hr c t rfl).1, Bool.false_eq_true, if_false]
  | cons c ds ih =>
    simp only [List.cons_append, dpre, hd c (by simp), if_true]
    rw [ih (fun c hc => hd c (by simp [hc]))]

theorem lzb_decimal (n : Nat) (rest : Bytes) (hr : NumEnd rest) : lzb (decimal n ++ rest) = false := by
  by_cases h0 : n = 0
  · subst h0
    have : decimal 0 = [0x30] := by rw [decimal_lt10 0 (by decide)]; rfl
    rw [this]
    cases rest with
    | nil => rfl
    | cons c t =>
      have := (hr c t rfl).1
      simp only [List.cons_append, List.nil_append, lzb, Bool.and_eq_false_iff]
      exact Or.inr this
  · obtain ⟨d, r, hdr, hd⟩ := decimal_head n (by omega)
    rw [hdr]
    have hd' : (d == 0x30) = false := by simpa using hd
    cases h : r ++ rest with
    | nil => simp only [List.cons_append, h, lzb]
    | cons c t => simp only [List.cons_append, h, lzb, hd', Bool.false_and]

theorem decimal_ne_nil (n : Nat) : decimal n ≠ [] := by
  obtain ⟨d, r, h, _⟩ := decimal_head_digit n
  rw [h]; exact List.cons_ne_nil _ _

theorem fin_numEnd (v : BitVec 64) (rest : Bytes) (hr : NumEnd rest) : fin v rest = .ok v rest := by
  cases rest with
  | nil => rfl
  | cons c t =>
    obtain ⟨_, h1, h2, h3⟩ := hr c t rfl
    have : isDotE c = false := by
      simp only [isDotE, Bool.or_eq_false_iff, beq_eq_false_iff_ne, ne_eq]
      exact ⟨⟨h1, h2⟩, h3⟩
    simp only [fin, this, Bool.false_eq_true, if_false]

/-- `parseUint` on a decimal text: the value if it fits uint64, an error otherwise -/
theorem parseUint_decimal (n : Nat) (rest : Bytes) (hr : NumEnd rest) :
    parseUint (decimal n ++ rest) = if n < 2 ^ 64 then .ok (BitVec.ofNat 64 n) rest else .err := by
  rw [parseUint_eq, lzb_decimal n rest hr, dpre_through _ rest (decimal_digits n) hr, acc_decimal,
    digits_through _ rest (decimal_digits n) hr]
  simp only [Bool.false_eq_true, if_false, decimal_ne_nil, fin_numEnd _ rest hr]
  by_cases h : n < 2 ^ 64 <;> simp [h]

theorem decimal_head_ne_minus (n : Nat) (rest : Bytes) : (decimal n ++ rest).head? ≠ some 0x2d := by
  obtain ⟨d, r, hdr, hdig⟩ := decimal_head_digit n
  rw [hdr]; simp only [List.cons_append, List.head?_cons, ne_eq, Option.some.injEq]
  intro e; subst e; exact absurd hdig (by decide)

/-- `parseInt` on an unsigned decimal text: the value if it fits int64, an error otherwise -/
theorem parseInt_decimal_pos (n : Nat) (rest : Bytes) (hr : NumEnd rest) :
    parseInt (decimal n ++ rest) = if n < 2 ^ 63 then .ok (BitVec.ofNat 64 n) rest else .err := by
  rw [parseInt_pos _ (decimal_head_ne_minus n rest), lzb_decimal n rest hr, dpre_through _ rest (decimal_digits n) hr,
    acc_decimal, digits_through _ rest (decimal_digits n) hr]
  simp only [Bool.false_eq_true, if_false, decimal_ne_nil, fin_numEnd _ rest hr]
  by_cases h : n < 2 ^ 63 <;> simp [h]

/-- `parseInt` on a negative decimal text: the value if it fits int64, an error otherwise -/
theorem parseInt_decimal_neg (n : Nat) (rest : Bytes) (hr : NumEnd rest) :
    parseInt (0x2d :: (decimal n ++ rest)) = if n ≤ 2 ^ 63 then .ok (BitVec.ofInt 64 (-(n : Int))) rest else .err := by
  rw [parseInt_neg, lzb_decimal n rest hr, dpre_through _ rest (decimal_digits n) hr,
    acc_decimal, digits_through _ rest (decimal_digits n) hr]
  simp only [Bool.false_eq_true, if_false, decimal_ne_nil, fin_numEnd _ rest hr]
  by_cases h : n ≤ 2 ^ 63 <;> simp [h]

/-! ### in terms of the encoder model -/

/-- **B (unsigned).** `parseUint` reads back what `formatInteger` wrote, for every uint64 -/
theorem parseUint_formatInteger (n : Nat) (h : n < 2 ^ 64) (rest : Bytes) (hr : NumEnd rest) :
    parseUint (formatInteger n false ++ rest) = .ok (BitVec.ofNat 64 n) rest := by
  rw [Enc.Lemmas.JsonEncInt.formatInteger_eq' n h false]
  simp only [Bool.false_eq_true, if_false, List.nil_append]
  rw [parseUint_decimal n rest hr, if_pos h]

theorem appendInt_neg (i : Int) (h : -2 ^ 63 ≤ i) (hn : i < 0) : appendInt i = 0x2d :: decimal i.natAbs := by
  rw [Enc.Lemmas.JsonEncInt.appendInt_eq i ⟨h, by omega⟩]
  simp only [intString, hn, if_true]

theorem appendInt_pos (i : Int) (h : i < 2 ^ 64) (hn : 0 ≤ i) : appendInt i = decimal i.natAbs := by
  rw [Enc.Lemmas.JsonEncInt.appendInt_eq i ⟨by omega, h⟩]
  have : ¬ i < 0 := by omega
  simp only [intString, this, if_false]

/-- **B (signed).** `parseInt` reads back what `appendInt` wrote, for every int64 … -/
theorem parseInt_appendInt (i : Int) (h : -2 ^ 63 ≤ i ∧ i < 2 ^ 63) (rest : Bytes) (hr : NumEnd rest) :
    parseInt (appendInt i ++ rest) = .ok (BitVec.ofInt 64 i) rest := by
  by_cases hn : i < 0
  · rw [appendInt_neg i h.1 hn, List.cons_append, parseInt_decimal_neg _ rest hr, if_pos (by omega)]
    have : -(i.natAbs : Int) = i := by omega
    rw [this]
  · rw [appendInt_pos i (by omega) (by omega), parseInt_decimal_pos _ rest hr, if_pos (by omega)]
    have : ((i.natAbs : Nat) : Int) = i := by omega
    congr 1
    rw [← this]; simp

/-- … and reports an error for a uint64 that does not fit int64 (out of range ⇒ error) -/
theorem parseInt_appendInt_overflow (i : Int) (h : 2 ^ 63 ≤ i ∧ i < 2 ^ 64) (rest : Bytes) (hr : NumEnd rest) :
    parseInt (appendInt i ++ rest) = .err := by
  rw [appendInt_pos i h.2 (by omega), parseInt_decimal_pos _ rest hr, if_neg (by omega)]

theorem parseUint_appendInt (i : Int) (h : 0 ≤ i ∧ i < 2 ^ 64) (rest : Bytes) (hr : NumEnd rest) :
    parseUint (appendInt i ++ rest) = .ok (BitVec.ofNat 64 i.natAbs) rest := by
  rw [appendInt_pos i h.2 h.1, parseUint_decimal _ rest hr, if_pos (by omega)]

theorem parseUint_minus (b : Bytes) : parseUint (0x2d :: b) = .err := by
  rw [parseUint_eq, Enc.Lemmas.JsonDecInt.dpre_neg_head]
  cases b <;> simp [lzb, acc]

theorem parseUint_appendInt_neg (i : Int) (h : -2 ^ 63 ≤ i ∧ i < 0) (rest : Bytes) :
    parseUint (appendInt i ++ rest) = .err := by
  rw [appendInt_neg i h.1 h.2, List.cons_append, parseUint_minus]

/-! ### all ten target widths -/

theorem ite_range (c : Prop) [Decidable c] (P : Prop) [Decidable P] (i : Int) (h : c ↔ ¬ P) :
    (if c then (none : Option Int) else some i) = if P then some i else none := by
  by_cases hP : P <;> simp [hP, h]

theorem appendInt_head (i : Int) (h : -2 ^ 63 ≤ i ∧ i < 2 ^ 64) :
    ∃ c t, appendInt i = c :: t ∧ (digit c = true ∨ c = 0x2d) := by
  by_cases hn : i < 0
  · exact ⟨_, _, appendInt_neg i h.1 hn, Or.inr rfl⟩
  · obtain ⟨d, r, hdr, hdig⟩ := decimal_head_digit i.natAbs
    exact ⟨d, r, by rw [appendInt_pos i h.2 (by omega), hdr], Or.inl hdig⟩

theorem head_facts {c : UInt8} (h : digit c = true ∨ c = 0x2d) : ¬ c ≤ 0x20 ∧ c ≠ 0x6e := by
  rcases h with h | rfl
  · simp only [digit, Bool.and_eq_true, decide_eq_true_eq, UInt8.le_iff_toNat_le] at h
    have h1 : 48 ≤ c.toNat := by simpa using h.1
    constructor
    · intro hle; have := UInt8.le_iff_toNat_le.mp hle; simp at this; omega
    · intro e; subst e; revert h; decide
  · decide

theorem toInt_ofInt_range (i : Int) (h : -2 ^ 63 ≤ i ∧ i < 2 ^ 63) : (BitVec.ofInt 64 i).toInt = i := by
  rw [BitVec.toInt_ofInt]
  exact Int.bmod_eq_of_le (by omega) (by omega)

theorem toNat_ofNat_range (n : Nat) (h : n < 2 ^ 64) : (BitVec.ofNat 64 n).toNat = n := by
  simp [BitVec.toNat_ofNat, Nat.mod_eq_of_lt h]

/-- **B (all widths).** For every integer the encoder can be given (an int64 or a uint64) and each of the ten integer
target types: decoding the encoder's output stores the value when it fits the type and returns an error otherwise -/
theorem unmarshalInt_appendInt (t : ITy) (i : Int) (h : -2 ^ 63 ≤ i ∧ i < 2 ^ 64) :
    Model.Json.unmarshalInt t (appendInt i) = if lo t ≤ i ∧ i ≤ hi t then some i else none := by
  obtain ⟨c, tl, hct, hc⟩ := appendInt_head i h
  obtain ⟨hsp, hnn⟩ := head_facts hc
  have hskip : skipSpaces (appendInt i) = appendInt i := by
    rw [hct]; simp only [skipSpaces, hsp, if_false]
  have hnull : hasPrefix (appendInt i) [0x6e, 0x75, 0x6c, 0x6c] = false := by
    rw [hct]
    have : (c == 0x6e) = false := by simpa using hnn
    have this' : ((0x6e : UInt8) == c) = false := by rw [beq_eq_false_iff_ne]; exact fun e => hnn e.symm
    simp only [hasPrefix, List.isPrefixOf, this', Bool.false_and]
  have hws : (Spec.Json.ws ([] : Bytes)).isEmpty = true := rfl
  cases hs : t.signed
  · -- unsigned target
    rw [model_unsigned t _ _ hskip hnull hs]
    by_cases hn : i < 0
    · have := parseUint_appendInt_neg i ⟨h.1, hn⟩ []
      rw [List.append_nil] at this
      rw [this]
      have : ¬ (lo t ≤ i ∧ i ≤ hi t) := by
        simp only [lo, hs, Bool.false_eq_true, if_false]; omega
      rw [if_neg this]; rfl
    · have := parseUint_appendInt i ⟨by omega, h.2⟩ [] NumEnd.nil
      rw [List.append_nil] at this
      rw [this]
      have hnat : ((i.natAbs : Nat) : Int) = i := by omega
      have hlt : i.natAbs < 2 ^ 64 := by omega
      simp only [postU, toNat_ofNat_range _ hlt, hws, if_true, hnat]
      apply ite_range
      simp only [Bool.and_eq_true, decide_eq_true_eq]
      cases t <;> simp only [ITy.signed] at hs <;> (try cases hs) <;>
        simp only [lo, hi, ITy.signed, ITy.bits, Bool.false_eq_true, if_false] <;> simp <;> omega
  · -- signed target
    rw [model_signed t _ _ hskip hnull hs]
    by_cases hb : i < 2 ^ 63
    · have := parseInt_appendInt i ⟨h.1, hb⟩ [] NumEnd.nil
      rw [List.append_nil] at this
      rw [this]
      simp only [postS, toInt_ofInt_range i ⟨h.1, hb⟩, hws, if_true]
      apply ite_range
      simp only [Bool.and_eq_true, Bool.or_eq_true, decide_eq_true_eq]
      cases t <;> simp only [ITy.signed] at hs <;> (try cases hs) <;>
        simp only [lo, hi, ITy.signed, ITy.bits, if_true] <;> simp <;> omega
    · have := parseInt_appendInt_overflow i ⟨by omega, h.2⟩ [] NumEnd.nil
      rw [List.append_nil] at this
      rw [this]
      have hh := Enc.Lemmas.JsonDecInt.hi_le_signed t hs
      have : ¬ (lo t ≤ i ∧ i ≤ hi t) := by omega
      rw [if_neg this]; rfl


/-- the validator accepts the encoder's output as one number -/
theorem valid_appendInt (i : Int) (h : -2 ^ 63 ≤ i ∧ i < 2 ^ 64) : Model.Json.valid (appendInt i) = true := by
  rw [Enc.Lemmas.JsonEncInt.appendInt_eq i h]
  exact Enc.Lemmas.JsonRTValue.valid_render false (.int i) _ rfl (by simp [Buf.JV.depth])

/-- … and the grammar's `number` consumes exactly it -/
theorem number_appendInt (i : Int) (h : -2 ^ 63 ≤ i ∧ i < 2 ^ 64) (rest : Bytes) (hr : NumEnd rest) :
    Spec.Json.number (appendInt i ++ rest) = some rest := by
  rw [Enc.Lemmas.JsonEncInt.appendInt_eq i h]
  exact Enc.Lemmas.JsonRTValue.number_intString i rest hr

#print axioms unmarshalInt_appendInt
#print axioms parseInt_appendInt
#print axioms valid_appendInt

end Enc.Lemmas.JsonRTInt
