import Enc.Model.Json.TokenAcc
import Enc.Spec.Json.TokenVal
import Enc.Lemmas.JsonDecInt
/-!
# C17 accessors, numbers: the text `parseNumber` consumes, its kind, and what `parseInt` / `parseUint` make of it
-/
set_option linter.unusedSimpArgs false
namespace Enc.Lemmas.TokAcc
open Enc Enc.Model.Json Enc.Model.Json.Token Enc.Lemmas.JsonNumber Enc.Lemmas.JsonDecInt
open Enc.Spec.Json (digits digit natOfDigits intValue hasFracOrExp)

/-- `0` or a digit string that starts with a non-zero digit (the `int` production without sign) -/
structure IntDigits (d : Bytes) : Prop where
  ne : d ≠ []
  all : ∀ c ∈ d, digit c = true
  nolz : lzb d = false

/-- the text of a number token of kind `k`: sign? digits, for Float followed by `.`/`e`/`E` and more -/
inductive NumLit : Kind → Bytes → Prop
  | uint (d : Bytes) : IntDigits d → NumLit .uint d
  | int (d : Bytes) : IntDigits d → NumLit .int (0x2d :: d)
  | floatPos (d : Bytes) (c : UInt8) (tail : Bytes) : IntDigits d → isDotE c = true → NumLit .float (d ++ c :: tail)
  | floatNeg (d : Bytes) (c : UInt8) (tail : Bytes) : IntDigits d → isDotE c = true → NumLit .float (0x2d :: (d ++ c :: tail))

theorem dpre_all (d : Bytes) : ∀ c ∈ dpre d, digit c = true := by
  induction d with
  | nil => intro c h; simp [dpre] at h
  | cons x r ih =>
    intro c h
    simp only [dpre] at h
    split at h
    · rename_i hx
      rcases List.mem_cons.mp h with rfl | h
      · exact hx
      · exact ih c h
    · simp at h

theorem expDigits_lit (r5 rest : Bytes) (k : Kind)
    (h : (match r5 with
      | [] => PR.err true
      | x :: _ => if !isDigit x then PR.err true else PR.ok .float (skipDigits r5)) = .ok k rest) :
    k = .float ∧ ∃ u, r5 = u ++ rest := by
  cases r5 with
  | nil => simp at h
  | cons x t =>
    simp only at h
    split at h
    · simp at h
    · cases h; exact ⟨rfl, dpre (x :: t), by rw [skipDigits_eq, dpre_append_digits]⟩

theorem expPart_lit (k1 : Kind) (b3 : Bytes) (k : Kind) (rest : Bytes) (h : expPart k1 b3 = .ok k rest) :
    (k = k1 ∧ rest = b3) ∨ (k = .float ∧ ∃ e tail, isDotE e = true ∧ b3 = e :: (tail ++ rest)) := by
  cases b3 with
  | nil => simp only [expPart] at h; cases h; exact Or.inl ⟨rfl, rfl⟩
  | cons e r4 =>
    simp only [expPart] at h
    split at h
    · rename_i he
      have hde : isDotE e = true := by
        simp only [isDotE, Bool.or_eq_true] at he ⊢
        rcases he with he | he
        · exact Or.inl (Or.inr he)
        · exact Or.inr he
      right
      cases r4 with
      | nil => simp at h
      | cons s r =>
        simp only at h
        by_cases hs : (s == 0x2b || s == 0x2d) = true
        · simp only [hs, if_true] at h
          obtain ⟨hk, u, hu⟩ := expDigits_lit r rest k h
          exact ⟨hk, e, s :: u, hde, by rw [hu]; simp⟩
        · simp only [hs, if_false] at h
          obtain ⟨hk, u, hu⟩ := expDigits_lit (s :: r) rest k h
          exact ⟨hk, e, u, hde, by rw [hu]⟩
    · cases h; exact Or.inl ⟨rfl, rfl⟩

theorem fracPart_lit (k0 : Kind) (b2 : Bytes) (k1 : Kind) (b3 : Bytes) (h : fracPart k0 b2 = some (k1, b3)) :
    (k1 = k0 ∧ b3 = b2) ∨ (k1 = .float ∧ ∃ tail, b2 = 0x2e :: (tail ++ b3)) := by
  match b2, h with
  | [], h => simp only [fracPart_nil, Option.some.injEq, Prod.mk.injEq] at h; exact Or.inl ⟨h.1.symm, h.2.symm⟩
  | c :: r, h =>
    rw [fracPart_cons] at h
    split at h
    · rename_i hc
      have hc' : c = 0x2e := by simpa using hc
      split at h
      · cases h
      · simp only [Option.some.injEq, Prod.mk.injEq] at h
        right
        refine ⟨h.1.symm, dpre r, ?_⟩
        rw [← h.2, skipDigits_eq, dpre_append_digits, hc']
    · simp only [Option.some.injEq, Prod.mk.injEq] at h; exact Or.inl ⟨h.1.symm, h.2.symm⟩

/-- what follows the integer digits -/
theorem fracExp_lit (k0 : Kind) (b2 : Bytes) (k : Kind) (rest : Bytes)
    (h : (match fracPart k0 b2 with
      | none => (match b2 with | _ :: [] => PR.err true | _ => PR.err false)
      | some (k1, b3) => expPart k1 b3) = .ok k rest) :
    (k = k0 ∧ rest = b2) ∨ (k = .float ∧ ∃ c tail, isDotE c = true ∧ b2 = c :: (tail ++ rest)) := by
  cases hf : fracPart k0 b2 with
  | none => rw [hf] at h; simp only at h; split at h <;> cases h
  | some p =>
    obtain ⟨k1, b3⟩ := p
    rw [hf] at h
    simp only at h
    rcases fracPart_lit k0 b2 k1 b3 hf with ⟨rfl, rfl⟩ | ⟨rfl, tail, hb2⟩
    · exact expPart_lit _ _ _ _ h
    · right
      rcases expPart_lit _ _ _ _ h with ⟨rfl, rfl⟩ | ⟨rfl, e, t2, _, hb3⟩
      · exact ⟨rfl, 0x2e, tail, by decide, hb2⟩
      · exact ⟨rfl, 0x2e, tail ++ e :: t2, by decide, by rw [hb2, hb3]; simp⟩

theorem intDigits_zero : IntDigits [0x30] := ⟨by simp, by intro c h; simp at h; subst h; decide, rfl⟩

theorem intDigits_nz (d0 : UInt8) (r1 : Bytes) (hd : digit d0 = true) (h0 : d0 ≠ 0x30) : IntDigits (d0 :: dpre r1) := by
  refine ⟨by simp, ?_, ?_⟩
  · intro c h
    rcases List.mem_cons.mp h with rfl | h
    · exact hd
    · exact dpre_all r1 c h
  · have : (d0 == 0x30) = false := by simpa using h0
    cases hh : dpre r1 <;> simp [lzb, this]

theorem numBody_lit (k0 : Kind) (b1 : Bytes) (k : Kind) (rest : Bytes) (h : numBody k0 b1 = .ok k rest) :
    ∃ d, IntDigits d ∧
      ((k = k0 ∧ b1 = d ++ rest) ∨ (k = .float ∧ ∃ c tail, isDotE c = true ∧ b1 = d ++ c :: (tail ++ rest))) := by
  match b1, h with
  | [], h => simp [numBody] at h
  | d0 :: r1, h =>
    simp only [numBody] at h
    by_cases hd : isDigit d0 = true
    · simp only [hd, Bool.not_true, Bool.false_eq_true, if_false] at h
      by_cases h0 : d0 = 0x30
      · subst h0
        simp only [beq_self_eq_true, if_true] at h
        match r1, h with
        | [], h => cases h; exact ⟨[0x30], intDigits_zero, Or.inl ⟨rfl, rfl⟩⟩
        | x :: r, h =>
          by_cases hx : (x != 0x2e && x != 0x65 && x != 0x45) = true
          · simp only [hx, if_true] at h
            cases h; exact ⟨[0x30], intDigits_zero, Or.inl ⟨rfl, rfl⟩⟩
          · simp only [hx, if_false] at h
            rcases fracExp_lit k0 (x :: r) k rest h with ⟨rfl, rfl⟩ | ⟨rfl, c, tail, hc, hb⟩
            · exact ⟨[0x30], intDigits_zero, Or.inl ⟨rfl, rfl⟩⟩
            · exact ⟨[0x30], intDigits_zero, Or.inr ⟨rfl, c, tail, hc, by rw [hb]; rfl⟩⟩
      · have h0' : (d0 == 0x30) = false := by simpa using h0
        simp only [h0', Bool.false_eq_true, if_false] at h
        have hsplit : d0 :: r1 = (d0 :: dpre r1) ++ skipDigits r1 := by
          rw [skipDigits_eq, List.cons_append, dpre_append_digits]
        rcases fracExp_lit k0 (skipDigits r1) k rest h with ⟨rfl, rfl⟩ | ⟨rfl, c, tail, hc, hb⟩
        · exact ⟨d0 :: dpre r1, intDigits_nz d0 r1 hd h0, Or.inl ⟨rfl, hsplit⟩⟩
        · exact ⟨d0 :: dpre r1, intDigits_nz d0 r1 hd h0, Or.inr ⟨rfl, c, tail, hc, by rw [hsplit, hb]⟩⟩
    · have hd' : isDigit d0 = false := by simpa using hd
      simp [hd'] at h

/-- **structure of number tokens**: the text `parseNumber` consumes and the kind it reports -/
theorem parseNumber_lit (b : Bytes) (k : Kind) (rest : Bytes) (h : parseNumber b = .ok k rest) :
    ∃ v, b = v ++ rest ∧ NumLit k v := by
  match b, h with
  | [], h => simp [parseNumber] at h
  | c0 :: r0, h =>
    rw [parseNumber_cons] at h
    split at h
    · rename_i hc
      have hc' : c0 = 0x2d := by simpa using hc
      subst hc'
      obtain ⟨d, hd, hk⟩ := numBody_lit .int r0 k rest h
      rcases hk with ⟨rfl, hb⟩ | ⟨rfl, c, tail, hc2, hb⟩
      · exact ⟨0x2d :: d, by rw [hb]; rfl, .int d hd⟩
      · exact ⟨0x2d :: (d ++ c :: tail), by rw [hb]; simp, .floatNeg d c tail hd hc2⟩
    · obtain ⟨d, hd, hk⟩ := numBody_lit .uint (c0 :: r0) k rest h
      rcases hk with ⟨rfl, hb⟩ | ⟨rfl, c, tail, hc2, hb⟩
      · exact ⟨d, hb, .uint d hd⟩
      · exact ⟨d ++ c :: tail, by rw [hb]; simp, .floatPos d c tail hd hc2⟩

/-! ### `parseInt` / `parseUint` on the text of a number token -/

theorem dpre_of_all (d : Bytes) (h : ∀ c ∈ d, digit c = true) : dpre d = d ∧ digits d = [] := by
  induction d with
  | nil => exact ⟨rfl, rfl⟩
  | cons x r ih =>
    have hx := h x (by simp)
    obtain ⟨i1, i2⟩ := ih fun c hc => h c (by simp [hc])
    simp [dpre, digits, hx, i1, i2]

theorem dpre_app (d : Bytes) (c : UInt8) (tail : Bytes) (h : ∀ x ∈ d, digit x = true) (hc : digit c = false) :
    dpre (d ++ c :: tail) = d ∧ digits (d ++ c :: tail) = c :: tail := by
  induction d with
  | nil => simp [dpre, digits, hc]
  | cons x r ih =>
    have hx := h x (by simp)
    obtain ⟨i1, i2⟩ := ih fun y hy => h y (by simp [hy])
    simp [dpre, digits, hx, i1, i2]

theorem dotE_not_digit {c : UInt8} (h : isDotE c = true) : digit c = false := by
  cases hd : digit c
  · rfl
  · rw [digit_not_dotE hd] at h; cases h

theorem lzb_app {d : Bytes} (hd : IntDigits d) (c : UInt8) (tail : Bytes) (hc : digit c = false) :
    lzb (d ++ c :: tail) = false := by
  match d, hd with
  | [], hd => exact absurd rfl hd.ne
  | [x], _ =>
    have : isDigit c = false := hc
    simp [lzb, this]
  | x :: y :: r, hd => exact hd.nolz

theorem head_not_minus {d : Bytes} (hd : IntDigits d) : d.head? ≠ some 0x2d := by
  match d, hd with
  | [], hd => exact absurd rfl hd.ne
  | x :: r, hd =>
    have := hd.all x (by simp)
    intro e
    simp only [List.head?_cons, Option.some.injEq] at e
    subst e; exact absurd this (by decide)

theorem head_not_minus_app {d : Bytes} (hd : IntDigits d) (t : Bytes) : (d ++ t).head? ≠ some 0x2d := by
  match d, hd with
  | [], hd => exact absurd rfl hd.ne
  | x :: r, hd =>
    have := hd.all x (by simp)
    intro e
    simp only [List.cons_append, List.head?_cons, Option.some.injEq] at e
    subst e; exact absurd this (by decide)

theorem fin_nil (V : BitVec 64) : fin V [] = .ok V [] := rfl
theorem fin_dotE (V : BitVec 64) (c : UInt8) (t : Bytes) (h : isDotE c = true) : fin V (c :: t) = .err := by
  simp [fin, h]

theorem pI_uint {d : Bytes} (hd : IntDigits d) :
    parseInt d = if acc 0 d < 2 ^ 63 then .ok (BitVec.ofNat 64 (acc 0 d)) [] else .err := by
  obtain ⟨h1, h2⟩ := dpre_of_all d hd.all
  rw [parseInt_pos d (head_not_minus hd), h1, h2, hd.nolz, fin_nil]
  by_cases hN : acc 0 d < 2 ^ 63 <;> simp [hN, hd.ne]

theorem pI_int {d : Bytes} (hd : IntDigits d) :
    parseInt (0x2d :: d) = if acc 0 d ≤ 2 ^ 63 then .ok (BitVec.ofInt 64 (-(acc 0 d : Int))) [] else .err := by
  obtain ⟨h1, h2⟩ := dpre_of_all d hd.all
  rw [parseInt_neg d, h1, h2, hd.nolz, fin_nil]
  by_cases hN : acc 0 d ≤ 2 ^ 63 <;> simp [hN, hd.ne]

theorem pI_floatPos {d : Bytes} (hd : IntDigits d) (c : UInt8) (t : Bytes) (hc : isDotE c = true) :
    parseInt (d ++ c :: t) = .err := by
  obtain ⟨h1, h2⟩ := dpre_app d c t hd.all (dotE_not_digit hc)
  rw [parseInt_pos _ (head_not_minus_app hd _), h1, h2, lzb_app hd c t (dotE_not_digit hc), fin_dotE _ _ _ hc]
  simp

theorem pI_floatNeg {d : Bytes} (hd : IntDigits d) (c : UInt8) (t : Bytes) (hc : isDotE c = true) :
    parseInt (0x2d :: (d ++ c :: t)) = .err := by
  obtain ⟨h1, h2⟩ := dpre_app d c t hd.all (dotE_not_digit hc)
  rw [parseInt_neg, h1, h2, lzb_app hd c t (dotE_not_digit hc), fin_dotE _ _ _ hc]
  simp

theorem pU_uint {d : Bytes} (hd : IntDigits d) :
    parseUint d = if acc 0 d < 2 ^ 64 then .ok (BitVec.ofNat 64 (acc 0 d)) [] else .err := by
  obtain ⟨h1, h2⟩ := dpre_of_all d hd.all
  rw [parseUint_eq d, h1, h2, hd.nolz, fin_nil]
  by_cases hN : acc 0 d < 2 ^ 64 <;> simp [hN, hd.ne]

theorem pU_neg (t : Bytes) : parseUint (0x2d :: t) = .err := by
  rw [parseUint_eq, dpre_neg_head]
  have : lzb (0x2d :: t) = false := by cases t <;> simp [lzb]
  simp [this]

theorem pU_floatPos {d : Bytes} (hd : IntDigits d) (c : UInt8) (t : Bytes) (hc : isDotE c = true) :
    parseUint (d ++ c :: t) = .err := by
  obtain ⟨h1, h2⟩ := dpre_app d c t hd.all (dotE_not_digit hc)
  rw [parseUint_eq, h1, h2, lzb_app hd c t (dotE_not_digit hc), fin_dotE _ _ _ hc]
  simp

/-! ### the spec's classification of the same text -/

theorem any_dotE_digits (d : Bytes) (h : ∀ c ∈ d, digit c = true) : hasFracOrExp d = false := by
  unfold hasFracOrExp
  rw [List.any_eq_false]
  intro c hc
  have := digit_not_dotE (h c hc)
  simpa [isDotE] using this

theorem any_dotE_app (d : Bytes) (c : UInt8) (t : Bytes) (hc : isDotE c = true) : hasFracOrExp (d ++ c :: t) = true := by
  unfold hasFracOrExp
  rw [List.any_eq_true]
  exact ⟨c, by simp, by simpa [isDotE] using hc⟩

theorem digit_head_codes {x : UInt8} (h : digit x = true) :
    (x == 0x22) = false ∧ (x == 0x6e) = false ∧ (x == 0x66) = false ∧ (x == 0x74) = false ∧ (x == 0x2d) = false := by
  have := digit_toNat h
  refine ⟨?_, ?_, ?_, ?_, ?_⟩ <;>
  · apply beq_false_of_ne
    intro e; subst e; simp at this

theorem kindOf_numlit {k : Kind} {v : Bytes} (h : NumLit k v) : Spec.Json.kindOf 0 v = k.code := by
  have h0 : ((0 : UInt8) == 0x7b) = false := by decide
  have h1 : ((0 : UInt8) == 0x5b) = false := by decide
  have h2 : ((0 : UInt8) != 0) = false := by decide
  have m1 : ((0x2d : UInt8) == 0x22) = false := by decide
  have m2 : ((0x2d : UInt8) == 0x6e) = false := by decide
  have m3 : ((0x2d : UInt8) == 0x66) = false := by decide
  have m4 : ((0x2d : UInt8) == 0x74) = false := by decide
  cases h with
  | uint _ hd =>
    match v, hd with
    | [], hd => exact absurd rfl hd.ne
    | x :: r, hd =>
      obtain ⟨a, b, c, e, f⟩ := digit_head_codes (hd.all x (by simp))
      simp only [Spec.Json.kindOf, h0, h1, h2, a, b, c, e, f, any_dotE_digits _ hd.all, Bool.false_eq_true, if_false]
      rfl
  | int d hd =>
    have : hasFracOrExp (0x2d :: d) = false := by
      have := any_dotE_digits d hd.all
      simp only [hasFracOrExp, List.any_cons] at this ⊢
      rw [this]; decide
    simp only [Spec.Json.kindOf, h0, h1, h2, m1, m2, m3, m4, this, Bool.false_eq_true, if_false, beq_self_eq_true, if_true]
    rfl
  | floatPos d c t hd hc =>
    match d, hd with
    | [], hd => exact absurd rfl hd.ne
    | x :: r, hd =>
      obtain ⟨a, b, c', e, f⟩ := digit_head_codes (hd.all x (by simp))
      have := any_dotE_app (x :: r) c t hc
      simp only [List.cons_append] at this ⊢
      simp only [Spec.Json.kindOf, h0, h1, h2, a, b, c', e, this, Bool.false_eq_true, if_false, if_true]
      rfl
  | floatNeg d c t hd hc =>
    have : hasFracOrExp (0x2d :: (d ++ c :: t)) = true := by
      have := any_dotE_app d c t hc
      simp only [hasFracOrExp, List.any_cons] at this ⊢
      rw [this]; simp
    simp only [Spec.Json.kindOf, h0, h1, h2, m1, m2, m3, m4, this, Bool.false_eq_true, if_false, if_true]
    rfl

theorem tokInt_def (t : Tok) : tokInt t = (match parseInt t.value with | .ok v _ => v | .err => 0#64) := rfl
theorem tokUint_def (t : Tok) : tokUint t = (match parseUint t.value with | .ok v _ => v | .err => 0#64) := rfl

theorem ofNat_toInt {N : Nat} (h : N < 2 ^ 63) : (BitVec.ofNat 64 N).toInt = (N : Int) := by
  rw [toInt_of_lt (by rw [ofNat_toNat_of_lt (by omega)]; exact h), ofNat_toNat_of_lt (by omega)]

theorem ofInt_neg_toInt {N : Nat} (h : N ≤ 2 ^ 63) : (BitVec.ofInt 64 (-(N : Int))).toInt = -(N : Int) := by
  rw [BitVec.toInt_ofInt, Int.bmod_def]; omega

/-- **Int / Uint on a number token**: the integer the literal denotes when the token is an integer that fits, 0 otherwise -/
theorem num_acc {k : Kind} {v : Bytes} (h : NumLit k v) (t : Tok) (ht : t.value = v) :
    (tokInt t).toInt = Spec.Json.int64Of 0 v ∧ (tokUint t).toNat = Spec.Json.uint64Of 0 v := by
  have hk := kindOf_numlit h
  unfold Spec.Json.int64Of Spec.Json.uint64Of
  rw [tokInt_def, tokUint_def, ht, hk]
  cases h with
  | uint _ hd =>
    have hv := intValue_digits v hd.all
    have hn := natOfDigits_eq v
    rw [pI_uint hd, pU_uint hd, hv, hn]
    have c5 : Kind.uint.code = 5 := rfl
    simp only [c5]
    constructor
    · by_cases hN : acc 0 v < 2 ^ 63
      · rw [if_pos hN, if_pos ⟨by simp, by omega, by omega⟩]; exact ofNat_toInt hN
      · rw [if_neg hN, if_neg (by intro h; omega)]; rfl
    · by_cases hN : acc 0 v < 2 ^ 64
      · rw [if_pos hN, if_pos ⟨by simp, hN⟩]; exact ofNat_toNat_of_lt hN
      · rw [if_neg hN, if_neg (by intro h; exact hN h.2)]; rfl
  | int d hd =>
    rw [pI_int hd, pU_neg, intValue_neg]
    have c6 : Kind.int.code = 6 := rfl
    simp only [c6]
    constructor
    · by_cases hN : acc 0 d ≤ 2 ^ 63
      · rw [if_pos hN, if_pos ⟨by simp, by omega, by omega⟩]; exact ofInt_neg_toInt hN
      · rw [if_neg hN, if_neg (by intro h; omega)]; rfl
    · rw [if_neg (by intro h; exact absurd h.1 (by decide))]; rfl
  | floatPos d c tl hd hc =>
    rw [pI_floatPos hd c tl hc, pU_floatPos hd c tl hc]
    have c7 : Kind.float.code = 7 := rfl
    simp only [c7]
    constructor
    · rw [if_neg (by intro h; rcases h.1 with h | h <;> exact absurd h (by decide))]; rfl
    · rw [if_neg (by intro h; exact absurd h.1 (by decide))]; rfl
  | floatNeg d c tl hd hc =>
    rw [pI_floatNeg hd c tl hc, pU_neg]
    have c7 : Kind.float.code = 7 := rfl
    simp only [c7]
    constructor
    · rw [if_neg (by intro h; rcases h.1 with h | h <;> exact absurd h (by decide))]; rfl
    · rw [if_neg (by intro h; exact absurd h.1 (by decide))]; rfl

end Enc.Lemmas.TokAcc
