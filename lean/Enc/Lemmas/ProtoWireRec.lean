import Enc.Lemmas.ProtoWire
/-!
# C12, record level: a struct written by the model = the reference encoding of a list of records

Universe of this file (`tyOK`): message types whose fields are `bool`, the six integer kinds the codec supports
(`int int32 int64 uint uint32 uint64`; plain, zigzag32/64 on the signed ones, fixed32/64 on `uint32/uint64` and —
sfixed32/sfixed64 — on `int32/int64`),
`float32/float64`, `string`, `[]byte`, nested messages of the same shape, optional fields `*T` (`T` a scalar other
than `[]byte`, a byte array, or a message) and repeated fields `[]T` (`T` a scalar, `[]byte`, a byte array or a message);
byte arrays `[N]byte` (`.arr N (.int .u8)`: one LEN record of N bytes, elided when all zero).  No maps (see
`ProtoMapDefs.tyOKM`), named types (see `ProtoNamedMain.tyOK2`), `[]*T`, `**T`.

  * `tyOK / fieldsOK / tagAgree / optOK`  decidable well-formedness of the type (incl. "both sides read the struct
                                  tag alike"; proved for untagged fields: `tagAgree_empty`)
  * `hasType / hasTypes`          decidable well-formedness of the value (shape, integer range, float width)
  * `payload / recordsOf / recordsR / allRecords`
                                  the records a message value denotes (reference side only: `fieldOpt`, `zigzag`, `natLE`)
  * `fieldsOf_cons_ok / _slice`   bridge: struct tag + Go type ↦ the codec descriptor `structCodecOf` builds
  * `struct_bytes`                model bytes = `encRecs (allRecords …)`          (equality of byte strings)
  * `parse_struct`                `Spec.Protobuf.parse fuel (encode (.struct (fieldsOf 1 fs)) (.struct vs) fl) = some (allRecords …)`
  * non-vacuity `example` on a concrete two-level struct at the end

Model revision: the one with `wrapPtrs` (go: `pointersTo`): a fixed32/fixed64 tag on `*uint32/*uint64/*float32/
*float64` yields the fixed-width codec behind the pointer codec; `optOK`/`fixedFits`/`codecFor` cover it.
And the one with `Codec.sfixed32/.sfixed64`: a fixed32 tag on `int32` (fixed64 on `int64`), also behind a pointer, yields
the signed fixed-width codec (4/8 little-endian bytes of the two's complement); covered as well.
-/
set_option linter.unusedSimpArgs false
set_option linter.unusedVariables false
namespace Enc.Lemmas.ProtoWire
open Enc Enc.Model.Proto Enc.Spec.Protobuf

/-! ## well-formedness -/

/-- the model's reading of a struct tag (`reflect.StructTag.Lookup` + `parseStructTag`; `none` = no/ignored tag) -/
def modelTag (tag : String) : Option StructTag := (lookupProtobuf tag).bind parseStructTag

def supportedKind : IntKind → Bool
  | .int | .i32 | .i64 | .uint | .u32 | .u64 => true
  | _ => false

def isStructTy : Ty → Bool
  | .struct _ => true
  | _ => false

/-- the `embedded` flag of a field: message-typed, possibly behind a pointer -/
def isEmb : Ty → Bool
  | .struct _ => true
  | .ptr (.struct _) => true
  | _ => false

def isPtr : Ty → Bool
  | .ptr _ => true
  | _ => false

def isSlice : Ty → Bool
  | .slice _ => true
  | _ => false

/-- element type of a repeated field in this universe: a scalar or a message (not a pointer, not a slice) -/
def elemTy (e : Ty) : Bool := !isPtr e && !isSlice e

/-- what an optional (pointer) field may point to in this universe: a scalar other than `[]byte`, or a message -/
def ptrTarget : Ty → Bool
  | .bool | .int _ | .f32 | .f64 | .str | .struct _ => true
  | .arr _ _ => true
  | _ => false

/-- element type of a byte array -/
def isByte : Ty → Bool
  | .int .u8 => true
  | _ => false

theorem isByte_eq (t : Ty) (h : isByte t = true) : t = .int .u8 := by
  cases t <;> simp [isByte] at h ⊢
  rename_i k; cases k <;> simp [isByte] at h ⊢

def isFixedWire : Wire → Bool
  | .fixed32 | .fixed64 => true
  | _ => false

/-- a fixed32/fixed64 tag on an integer field must sit on a kind of exactly that width: `uint32`/`int32` (fixed32 /
sfixed32) resp. `uint64`/`int64` (fixed64 / sfixed64); on every other integer kind the Go encoder silently writes a
varint, the reference has no opinion; floats/strings/… ignore it on both sides -/
def fixedFits : Wire → Ty → Bool
  | .fixed32, .int k => k == .u32 || k == .i32
  | .fixed64, .int k => k == .u64 || k == .i64
  | .fixed32, .ptr (.int k) => k == .u32 || k == .i32
  | .fixed64, .ptr (.int k) => k == .u64 || k == .i64
  | _, _ => true

/-- restrictions that tie the tag options to the field type -/
def optOK (t : Ty) (o : FieldOpt) : Bool :=
  match t with
  | .int k => !o.fixed || k == .u32 || k == .u64 || k == .i32 || k == .i64
  | .struct _ => !o.zigzag            -- the Go encoder would pass the zigzag flag down to every nested integer
  -- optional fields: the same restrictions as for the pointee
  | .ptr t' => (match t' with
    | .int k => !o.fixed || k == .u32 || k == .u64 || k == .i32 || k == .i64
    | .struct _ => !o.zigzag
    | _ => true)
  -- repeated fields: zigzag/fixed tags are the known class protoRepeatedZigzagOrFixed (the slice codec drops them)
  | .slice _ => !o.zigzag && !o.fixed
  | _ => true

/-- both sides read the struct tag of the field at position `pos` alike: same field number (1 … 65535), same zigzag
option, `fixed` ⇔ wire type fixed32/fixed64, and the tag says `rep` only on slices -/
def tagAgree (pos : Nat) (tag : String) (t : Ty) : Bool :=
  let o := fieldOpt pos tag
  decide (0 < o.number) && decide (o.number < 65536) && optOK t o &&
  (match modelTag tag with
   | none => decide (o.number = pos) && !o.zigzag && !o.fixed
   | some s => decide (s.number = (o.number : Int)) && (s.zigzag == o.zigzag) && (!s.repeated || isSlice t) &&
               (o.fixed == isFixedWire s.wire) && fixedFits s.wire t)

def fieldNums (pos : Nat) : Fields → List Nat
  | .nil => []
  | .cons _ tag _ _ rest => (fieldOpt pos tag).number :: fieldNums (pos + 1) rest

mutual
/-- type of a value in the scalar-message universe -/
def tyOK : Ty → Bool
  | .bool | .f32 | .f64 | .str | .bytes => true
  | .int k => supportedKind k
  | .struct fs => fieldsOK 1 fs && decide (fieldNums 1 fs).Nodup
  | .ptr t' => ptrTarget t' && tyOK t'
  | .slice e => elemTy e && tyOK e
  | .arr _ e => isByte e                      -- byte arrays `[N]byte`
  | _ => false
def fieldsOK (pos : Nat) : Fields → Bool
  | .nil => true
  | .cons _ tag _ t rest => tagAgree pos tag t && tyOK t && fieldsOK (pos + 1) rest
end

mutual
/-- the value has the shape of the type; integers are in the range of their kind, float bit patterns have the width
of theirs -/
def hasType : Ty → Val → Bool
  | .bool, .bool _ => true
  | .int k, .int i => k.inRange i
  | .f32, .float b => decide (b < 2 ^ 32)
  | .f64, .float b => decide (b < 2 ^ 64)
  | .str, .str _ => true
  | .bytes, .str _ => true
  | .bytes, .nil => true
  | .struct fs, .struct vs => hasTypes fs vs
  | .ptr _, .nil => true
  | .ptr t', .ptr v => hasType t' v
  | .slice _, .nil => true
  | .slice e, .list vs => hasTypeList e vs
  | .arr n e, .str s => isByte e && decide (s.length = n)       -- a `[N]byte` value has exactly N bytes
  | _, _ => false
def hasTypeList (e : Ty) : Vals → Bool
  | .nil => true
  | .cons v r => hasType e v && hasTypeList e r
def hasTypes : Fields → Vals → Bool
  | .nil, .nil => true
  | .cons _ _ _ t rest, .cons v vs => hasType t v && hasTypes rest vs
  | _, _ => false
end

/-! ## the records a value denotes (reference side) -/

/-- wire value of an integer of kind `k` under the field options (fixed width: little-endian two's complement, which
for the unsigned kinds in range is the number itself: `ofInt32_nonneg`, `ofInt64_nonneg`) -/
def intWire (k : IntKind) (o : FieldOpt) (i : Int) : WireVal :=
  if o.fixed then (if k.bits = 32 then .i32 (natLE (ofInt32 i) 4) else .i64 (natLE (ofInt64 i) 8))
  else if k.signed then .varint (if o.zigzag then zigzag i else ofInt64 i)
  else .varint i.toNat

/-- one record per element -/
def listRecs (f : Val → Nat × WireVal) : Vals → List (Nat × WireVal)
  | .nil => []
  | .cons v r => f v :: listRecs f r

mutual
/-- wire value of a field of type `t`, or `none` when the field is left out (proto3: default values are not
written, except when `wz` = "the enclosing optional (pointer) is set, so write something") -/
def payload (wz : Bool) : Ty → FieldOpt → Val → Option WireVal
  | .bool, _, .bool b => if b || wz then some (.varint (if b then 1 else 0)) else none
  | .int k, o, .int i => if i != 0 || wz then some (intWire k o i) else none
  | .f32, _, .float b => if b != 0 || wz then some (.i32 (natLE b 4)) else none
  | .f64, _, .float b => if b != 0 || wz then some (.i64 (natLE b 8)) else none
  | .str, _, .str s => if !s.isEmpty || wz then some (.len s) else none
  | .bytes, _, .str s => some (.len s)
  | .bytes, _, .nil => if wz then some (.len []) else none
  | .arr _ _, _, .str s => if !isZeroBytes s || wz then some (.len s) else none    -- the all-zero array is the default
  | .struct fs, _, .struct vs =>
    let body := (recordsOf wz 1 fs vs ++ recordsR 1 fs vs).flatMap encRec
    if body.isEmpty then none else some (.len body)
  | .ptr t', o, .ptr v => payload true t' o v       -- a set optional field: written even when zero
  | _, _, _ => none
/-- records of the non-repeated fields from position `pos` on, in declaration order; after the first record `wz`
is off (repeated fields have no `payload`) -/
def recordsOf (wz : Bool) (pos : Nat) : Fields → Vals → List (Nat × WireVal)
  | .cons _ tag _ t rest, .cons v vs =>
    match payload wz t (fieldOpt pos tag) v with
    | some w => ((fieldOpt pos tag).number, w) :: recordsOf false (pos + 1) rest vs
    | none => recordsOf wz (pos + 1) rest vs
  | _, _ => []
/-- records of the repeated fields from position `pos` on: one record per element, every element written (an
empty message as an empty chunk) -/
def recordsR (pos : Nat) : Fields → Vals → List (Nat × WireVal)
  | .cons _ tag _ (.slice e) rest, .cons (.list vs) vr =>
    listRecs (fun v => ((fieldOpt pos tag).number, (payload true e (fieldOpt pos tag) v).getD (.len []))) vs
      ++ recordsR (pos + 1) rest vr
  | .cons _ _ _ _ rest, .cons _ vr => recordsR (pos + 1) rest vr
  | _, _ => []
end

/-- all records of a message value: the non-repeated fields, then the repeated ones (the order of
`structEncodeFuncOf`'s two loops) -/
def allRecords (wz : Bool) (fs : Fields) (vs : Vals) : List (Nat × WireVal) :=
  recordsOf wz 1 fs vs ++ recordsR 1 fs vs

/-! ## from the struct tag to the codec tree -/

/-- codec the model attaches to a field of type `t` with options `o` -/
def codecFor (t : Ty) (o : FieldOpt) : Codec :=
  match t with
  | .int .u32 => if o.fixed then .fixed32 else .uint32
  | .int .u64 => if o.fixed then .fixed64 else .uint64
  | .int .i32 => if o.fixed then .sfixed32 else .int32
  | .int .i64 => if o.fixed then .sfixed64 else .int64
  | .ptr (.int .u32) => if o.fixed then .ptr .fixed32 else .ptr .uint32
  | .ptr (.int .u64) => if o.fixed then .ptr .fixed64 else .ptr .uint64
  | .ptr (.int .i32) => if o.fixed then .ptr .sfixed32 else .ptr .int32
  | .ptr (.int .i64) => if o.fixed then .ptr .sfixed64 else .ptr .int64
  | t => codecOf t

theorem tagAgree_optOK {pos tag t} (h : tagAgree pos tag t = true) : optOK t (fieldOpt pos tag) = true := by
  simp only [tagAgree, Bool.and_eq_true] at h
  exact h.1.2

theorem tagAgree_num {pos tag t} (h : tagAgree pos tag t = true) :
    0 < (fieldOpt pos tag).number ∧ (fieldOpt pos tag).number < 65536 := by
  simp only [tagAgree, Bool.and_eq_true, decide_eq_true_eq] at h
  exact ⟨h.1.1.1, h.1.1.2⟩

/-- **bridge**: on a well-formed field, `structCodecOf` produces exactly the descriptor the reference options name -/
theorem fieldsOf_cons_ok (pos : Nat) (name tag : String) (emb : Bool) (t : Ty) (rest : Fields)
    (h : tagAgree pos tag t = true) (ht : tyOK t = true) (hns : isSlice t = false) :
    fieldsOf pos (.cons name tag emb t rest) =
      .cons (fieldOpt pos tag).number (isEmb t) false (fieldOpt pos tag).zigzag
        (codecFor t (fieldOpt pos tag)) (fieldsOf (pos + 1) rest) := by
  rw [fieldsOf]
  simp only [tagAgree, modelTag, Bool.and_eq_true, decide_eq_true_eq] at h
  obtain ⟨⟨⟨h0, h1⟩, ho⟩, hm⟩ := h
  generalize fieldOpt pos tag = o at *
  generalize (lookupProtobuf tag).bind parseStructTag = st at *
  cases st with
  | none =>
    simp only [Bool.and_eq_true, decide_eq_true_eq, Bool.not_eq_true'] at hm
    obtain ⟨⟨hn, hz⟩, hf⟩ := hm
    have e : pos % 65536 = o.number := by omega
    cases t <;> simp only [tyOK] at ht <;> try (exact absurd ht (by decide))
    case slice => exact absurd hns (by simp [isSlice])
    case int k => cases k <;> simp_all [supportedKind, codecFor, fieldCodecOf, isStructBase, embBase, baseTy, codecOf, isEmb, wrapPtrs]
    case ptr t' =>
      cases t' <;> simp only [ptrTarget, Bool.and_eq_true] at ht <;> try (exact absurd ht.1 (by decide))
      case int k =>
        cases k <;> simp only [tyOK, supportedKind] at ht <;> try (exact absurd ht.2 (by decide))
        all_goals simp_all [codecFor, fieldCodecOf, isStructBase, embBase, baseTy, codecOf, isEmb, wrapPtrs]
      all_goals simp_all [codecFor, fieldCodecOf, isStructBase, embBase, baseTy, codecOf, isEmb, wrapPtrs]
    all_goals simp only [e, hz, hf, fieldCodecOf, isStructBase, embBase, baseTy, codecOf, codecFor, isEmb, Bool.false_or]
  | some s =>
    simp only [Bool.and_eq_true, decide_eq_true_eq, Bool.not_eq_true', beq_iff_eq] at hm
    obtain ⟨⟨⟨⟨hn, hz⟩, hr⟩, hf⟩, hfit⟩ := hm
    have e : (s.number % 65536).toNat = o.number := by omega
    obtain ⟨w, num, rep, zz⟩ := s
    simp only at hn hz hr hf hfit e
    rw [hns] at hr
    simp only [Bool.or_false, Bool.not_eq_true'] at hr
    subst hr hz
    cases t <;> simp only [tyOK] at ht <;> try (exact absurd ht (by decide))
    case slice => exact absurd hns (by simp [isSlice])
    case int k =>
      cases k <;> simp only [supportedKind] at ht <;> try (exact absurd ht (by decide))
      all_goals
        cases w <;>
        simp_all [fixedFits, isFixedWire, optOK, codecFor, fieldCodecOf, isStructBase, embBase, baseTy, codecOf, isEmb, wrapPtrs]
    case ptr t' =>
      cases t' <;> simp only [ptrTarget, Bool.and_eq_true] at ht <;> try (exact absurd ht.1 (by decide))
      case int k =>
        cases k <;> simp only [tyOK, supportedKind] at ht <;> try (exact absurd ht.2 (by decide))
        all_goals
          cases w <;>
          simp_all [fixedFits, isFixedWire, optOK, codecFor, fieldCodecOf, isStructBase, embBase, baseTy, codecOf, isEmb, wrapPtrs]
      all_goals
        cases w <;>
        simp_all [fixedFits, isFixedWire, optOK, codecFor, fieldCodecOf, isStructBase, embBase, baseTy, codecOf, isEmb, wrapPtrs]
    all_goals
      cases w <;>
      simp_all [fixedFits, isFixedWire, optOK, codecFor, fieldCodecOf, isStructBase, embBase, baseTy, codecOf, isEmb, wrapPtrs]

/-- **bridge, repeated fields**: a slice-typed field gets the slice codec around its element codec, is flagged
`repeated`, and carries the field number in the codec -/
theorem fieldsOf_cons_slice (pos : Nat) (name tag : String) (emb : Bool) (e : Ty) (rest : Fields)
    (h : tagAgree pos tag (.slice e) = true) (ht : tyOK (.slice e) = true) :
    fieldsOf pos (.cons name tag emb (.slice e) rest) =
      .cons (fieldOpt pos tag).number (isStructTy e) true false
        (.slice (codecOf e) (fieldOpt pos tag).number (codecOf e).wire (isStructTy e)) (fieldsOf (pos + 1) rest) := by
  rw [fieldsOf]
  simp only [tagAgree, modelTag, Bool.and_eq_true, decide_eq_true_eq] at h
  obtain ⟨⟨⟨h0, h1⟩, ho⟩, hm⟩ := h
  generalize fieldOpt pos tag = o at *
  generalize (lookupProtobuf tag).bind parseStructTag = st at *
  simp only [tyOK, elemTy, Bool.and_eq_true, Bool.not_eq_true'] at ht
  simp only [optOK, Bool.and_eq_true, Bool.not_eq_true'] at ho
  have hemb : isStructBase e = isStructTy e := by
    cases e <;> simp_all [isStructBase, embBase, baseTy, isStructTy, isPtr, tyOK]
  have hfc : ∀ n, fieldCodecOf n (.slice e) = (isStructTy e, true, .slice (codecOf e) n (codecOf e).wire (isStructTy e)) := by
    intro n
    cases e <;> simp_all [fieldCodecOf, tyOK]
    rename_i k; cases k <;> simp_all [fieldCodecOf, supportedKind]
  cases st with
  | none =>
    simp only [Bool.and_eq_true, decide_eq_true_eq, Bool.not_eq_true'] at hm
    obtain ⟨⟨hn, hz⟩, hf⟩ := hm
    have e' : pos % 65536 = o.number := by omega
    simp only [e', hfc, baseTy, Bool.false_or]
  | some s =>
    simp only [Bool.and_eq_true, decide_eq_true_eq, Bool.not_eq_true', beq_iff_eq] at hm
    obtain ⟨⟨⟨⟨hn, hz⟩, hr⟩, hf⟩, hfit⟩ := hm
    have e' : (s.number % 65536).toNat = o.number := by omega
    obtain ⟨w, num, rep, zz⟩ := s
    simp only at hn hz hr hf hfit e'
    subst hz
    rw [ho.1]
    cases w <;> simp_all [isFixedWire, baseTy, hfc, wrapPtrs]

/-! ## the struct encoder, unfolded -/

/-- flags with which `structEncodeFuncOf` runs its loops -/
def sfl (fl : Flags) (cfs : CFields) : Flags :=
  { fl with toplevel := false, inline := fl.inline && inlinedFields cfs }

@[simp] theorem sfl_wantzero (fl : Flags) (cfs : CFields) : (sfl fl cfs).wantzero = fl.wantzero := rfl
@[simp] theorem sfl_zigzag (fl : Flags) (cfs : CFields) : (sfl fl cfs).zigzag = fl.zigzag := rfl

theorem encode_struct (cfs : CFields) (vs : Vals) (fl : Flags) :
    encode (.struct cfs) (.struct vs) fl
      = (encodeUnique cfs vs (sfl fl cfs)).1 ++ encodeRepeated cfs vs (encodeUnique cfs vs (sfl fl cfs)).2 := by
  simp only [encode]; rfl

/-- what the first loop writes for one present field: tag, length prefix if embedded, value -/
def fieldBytes (num : Nat) (emb : Bool) (c : Codec) (v : Val) (fl : Flags) : Bytes :=
  encodeTag num c.wire ++ (if emb then encodeVarint (BitVec.ofNat 64 (size c v fl)) else []) ++ encode c v fl

theorem encodeUnique_cons (number : Nat) (emb zz : Bool) (c : Codec) (rest : CFields) (v : Val) (vs : Vals)
    (fl : Flags) :
    encodeUnique (.cons number emb false zz c rest) (.cons v vs) fl =
      if size c v { fl with zigzag := fl.zigzag || zz } > 0 then
        (fieldBytes number emb c v { fl with zigzag := fl.zigzag || zz }
            ++ (encodeUnique rest vs { fl with wantzero := false }).1,
          (encodeUnique rest vs { fl with wantzero := false }).2)
      else encodeUnique rest vs fl := by
  simp only [encodeUnique, fieldBytes]

/-- the model's field `(num, emb, c)` holding `v` under `fl` is written as the reference record `(num, w)`, or left
out when there is none -/
def FieldSpec (num : Nat) (p : Option WireVal) (emb : Bool) (c : Codec) (v : Val) (fl : Flags) : Prop :=
  match p with
  | none => size c v fl = 0
  | some w => 0 < size c v fl ∧ fieldBytes num emb c v fl = encRec (num, w)

theorem FieldSpec_ptr (num : Nat) (p : Option WireVal) (emb : Bool) (c : Codec) (v : Val) (fl : Flags) :
    FieldSpec num p emb (.ptr c) (.ptr v) fl ↔ FieldSpec num p emb c v { fl with wantzero := true, inline := false } := by
  cases p <;> simp [FieldSpec, fieldBytes, size, encode, Codec.wire]

theorem one_byte (b : Bool) : ([if b then 1 else 0] : Bytes) = encodeVarint (if b then 1#64 else 0#64) := by
  cases b <;> decide

theorem u64_signed (fl : Flags) (o : FieldOpt) (i : Int) (hz : fl.zigzag = o.zigzag)
    (h1 : -(2:Int)^63 ≤ i) (h2 : i < (2:Int)^63) :
    (fl.u64 i).toNat = if o.zigzag then zigzag i else ofInt64 i := by
  unfold Flags.u64
  rw [hz]
  split
  · exact ProtoVarint.zigzag_spec i h1 h2
  · rw [BitVec.toNat_ofInt]; rfl

theorem ofInt64_toNat (i : Int) (h0 : 0 ≤ i) (h1 : i < (2:Int)^64) : (BitVec.ofInt 64 i).toNat = i.toNat := by
  rw [BitVec.toNat_ofInt]
  simp only [Int.reducePow] at h1
  omega

theorem ofInt32_toNat (i : Int) (h0 : 0 ≤ i) (h1 : i < (2:Int)^32) : (BitVec.ofInt 32 i).toNat = i.toNat := by
  rw [BitVec.toNat_ofInt]
  simp only [Int.reducePow] at h1
  omega

theorem sizeOfVarint_pos' (v : BitVec 64) : 0 < sizeOfVarint v := ProtoVarint.sizeOfVarint_pos v

/-! ## scalar fields -/

theorem inRange_spec (k : IntKind) (i : Int) (h : k.inRange i = true) :
    if k.signed = true then -(2 ^ (k.bits - 1) : Int) ≤ i ∧ i < (2 ^ (k.bits - 1) : Int)
    else 0 ≤ i ∧ i < (2 ^ k.bits : Int) := by
  unfold IntKind.inRange at h
  split at h
  · rename_i hs
    rw [if_pos hs]
    rw [Bool.and_eq_true] at h
    exact ⟨of_decide_eq_true h.1, of_decide_eq_true h.2⟩
  · rename_i hs
    rw [if_neg hs]
    rw [Bool.and_eq_true] at h
    exact ⟨of_decide_eq_true h.1, of_decide_eq_true h.2⟩

theorem inRange_signed (k : IntKind) (i : Int) (hk : k = .int ∨ k = .i32 ∨ k = .i64) (h : k.inRange i = true) :
    -(2:Int)^63 ≤ i ∧ i < (2:Int)^63 := by
  have := inRange_spec k i h
  rcases hk with rfl | rfl | rfl <;>
    (simp only [IntKind.signed, IntKind.bits, if_true, Nat.reduceSub, Int.reducePow] at this
     simp only [Int.reducePow]; omega)

theorem inRange_unsigned (k : IntKind) (i : Int) (hk : k = .uint ∨ k = .u32 ∨ k = .u64) (h : k.inRange i = true) :
    0 ≤ i ∧ i < (2:Int)^64 := by
  have := inRange_spec k i h
  rcases hk with rfl | rfl | rfl <;>
    (simp only [IntKind.signed, IntKind.bits, Bool.false_eq_true, if_false, Int.reducePow] at this
     simp only [Int.reducePow]; omega)

theorem inRange_u32 (i : Int) (h : IntKind.u32.inRange i = true) : 0 ≤ i ∧ i < (2:Int)^32 := by
  have := inRange_spec _ i h
  simp only [IntKind.signed, IntKind.bits, Bool.false_eq_true, if_false, Int.reducePow] at this
  simp only [Int.reducePow]; omega

theorem fs_varint (num : Nat) (hn : num < 2 ^ 29) (c : Codec) (v : Val) (fl : Flags) (x : BitVec 64) (n : Nat)
    (hw : c.wire = .varint) (he : encode c v fl = encodeVarint x) (hx : x.toNat = n) :
    FieldSpec num (some (.varint n)) false c v fl := by
  refine ⟨?_, ?_⟩
  · rw [← Lemmas.Proto.size_eq, he, Lemmas.Proto.encodeVarint_length]; exact sizeOfVarint_pos' x
  · simp only [fieldBytes, hw, he, Bool.false_eq_true, if_false, List.append_nil]
    rw [rec_varint num hn, hx]

theorem fs_fixed32 (num : Nat) (hn : num < 2 ^ 29) (c : Codec) (v : Val) (fl : Flags) (x : BitVec 32) (n : Nat)
    (hw : c.wire = .fixed32) (he : encode c v fl = le32 x) (hx : x.toNat = n) :
    FieldSpec num (some (.i32 (natLE n 4))) false c v fl := by
  refine ⟨?_, ?_⟩
  · rw [← Lemmas.Proto.size_eq, he]; simp
  · simp only [fieldBytes, hw, he, Bool.false_eq_true, if_false, List.append_nil]
    rw [rec_fixed32 num hn, hx]

theorem fs_fixed64 (num : Nat) (hn : num < 2 ^ 29) (c : Codec) (v : Val) (fl : Flags) (x : BitVec 64) (n : Nat)
    (hw : c.wire = .fixed64) (he : encode c v fl = le64 x) (hx : x.toNat = n) :
    FieldSpec num (some (.i64 (natLE n 8))) false c v fl := by
  refine ⟨?_, ?_⟩
  · rw [← Lemmas.Proto.size_eq, he]; simp
  · simp only [fieldBytes, hw, he, Bool.false_eq_true, if_false, List.append_nil]
    rw [rec_fixed64 num hn, hx]

theorem fs_len (num : Nat) (hn : num < 2 ^ 29) (c : Codec) (v : Val) (fl : Flags) (b : Bytes)
    (hw : c.wire = .varlen) (he : encode c v fl = encodeVarint (BitVec.ofNat 64 b.length) ++ b)
    (hb : b.length < 2 ^ 64) :
    FieldSpec num (some (.len b)) false c v fl := by
  refine ⟨?_, ?_⟩
  · rw [← Lemmas.Proto.size_eq, he, List.length_append, Lemmas.Proto.encodeVarint_length]
    have := sizeOfVarint_pos' (BitVec.ofNat 64 b.length); omega
  · simp only [fieldBytes, hw, he, Bool.false_eq_true, if_false, List.append_nil]
    rw [← List.append_assoc, rec_varlen num hn b hb]

theorem fixLen_length (s : Bytes) : fixLen s.length s = s := by
  simp [fixLen]

theorem field_scalar (t : Ty) (o : FieldOpt) (v : Val) (fl : Flags) (num : Nat)
    (hs : isStructTy t = false) (hnp : isPtr t = false) (hns : isSlice t = false) (ht : tyOK t = true)
    (hv : hasType t v = true) (ho : optOK t o = true)
    (hz : fl.zigzag = o.zigzag) (hn : num < 2 ^ 29)
    (hlen : (encode (codecFor t o) v fl).length < 2 ^ 64) :
    FieldSpec num (payload fl.wantzero t o v) false (codecFor t o) v fl := by
  cases t <;> simp only [tyOK] at ht <;> try (exact absurd ht (by decide))
  case struct => exact absurd hs (by simp [isStructTy])
  case ptr => exact absurd hnp (by simp [isPtr])
  case slice => exact absurd hns (by simp [isSlice])
  case bool =>
    cases v <;> simp only [hasType] at hv <;> try (exact absurd hv (by decide))
    rename_i b
    simp only [payload, codecFor, codecOf]
    by_cases h : (b || fl.wantzero) = true
    · simp only [h, if_true]
      apply fs_varint num hn _ _ _ (if b then 1#64 else 0#64) _ rfl
      · simp only [encode, h, if_true]; exact one_byte b
      · cases b <;> rfl
    · simp [FieldSpec, h, size]
  case int k =>
    cases v <;> simp only [hasType] at hv <;> try (exact absurd hv (by decide))
    rename_i i
    simp only [payload]
    by_cases h : (i != 0 || fl.wantzero) = true
    · simp only [h, if_true]
      cases k <;> simp only [supportedKind] at ht <;> try (exact absurd ht (by decide))
      case int =>
        have hf : o.fixed = false := by simpa [optOK] using ho
        obtain ⟨h1, h2⟩ := inRange_signed _ i (by simp) hv
        simp only [intWire, hf, IntKind.signed, codecFor, codecOf, Bool.false_eq_true, if_false, if_true]
        exact fs_varint num hn _ _ _ (fl.u64 i) _ rfl (by simp only [encode, h, if_true]) (u64_signed fl o i hz h1 h2)
      case i32 =>
        obtain ⟨h1, h2⟩ := inRange_signed _ i (by simp) hv
        by_cases hf : o.fixed = true
        · simp only [intWire, hf, IntKind.bits, codecFor, if_true]
          exact fs_fixed32 num hn _ _ _ (BitVec.ofInt 32 i) _ rfl (by simp only [encode, h, if_true]) (toNat_ofInt_32 i)
        · simp only [intWire, hf, IntKind.signed, codecFor, codecOf, Bool.false_eq_true, if_false, if_true]
          exact fs_varint num hn _ _ _ (fl.u64 i) _ rfl (by simp only [encode, h, if_true]) (u64_signed fl o i hz h1 h2)
      case i64 =>
        obtain ⟨h1, h2⟩ := inRange_signed _ i (by simp) hv
        by_cases hf : o.fixed = true
        · simp only [intWire, hf, IntKind.bits, codecFor, if_true, Nat.reduceEqDiff, if_false]
          exact fs_fixed64 num hn _ _ _ (BitVec.ofInt 64 i) _ rfl (by simp only [encode, h, if_true]) (toNat_ofInt_64 i)
        · simp only [intWire, hf, IntKind.signed, codecFor, codecOf, Bool.false_eq_true, if_false, if_true]
          exact fs_varint num hn _ _ _ (fl.u64 i) _ rfl (by simp only [encode, h, if_true]) (u64_signed fl o i hz h1 h2)
      case uint =>
        have hf : o.fixed = false := by simpa [optOK] using ho
        obtain ⟨h1, h2⟩ := inRange_unsigned _ i (by simp) hv
        simp only [intWire, hf, IntKind.signed, codecFor, codecOf, Bool.false_eq_true, if_false]
        exact fs_varint num hn _ _ _ (BitVec.ofInt 64 i) _ rfl (by simp only [encode, h, if_true]) (ofInt64_toNat i h1 h2)
      case u32 =>
        obtain ⟨h1, h2⟩ := inRange_unsigned _ i (by simp) hv
        obtain ⟨_, h3⟩ := inRange_u32 i hv
        by_cases hf : o.fixed = true
        · simp only [intWire, hf, IntKind.bits, codecFor, if_true]
          exact fs_fixed32 num hn _ _ _ (BitVec.ofInt 32 i) _ rfl (by simp only [encode, h, if_true]) (toNat_ofInt_32 i)
        · simp only [intWire, hf, IntKind.signed, codecFor, Bool.false_eq_true, if_false]
          exact fs_varint num hn _ _ _ (BitVec.ofInt 64 i) _ rfl (by simp only [encode, h, if_true]) (ofInt64_toNat i h1 h2)
      case u64 =>
        obtain ⟨h1, h2⟩ := inRange_unsigned _ i (by simp) hv
        by_cases hf : o.fixed = true
        · simp only [intWire, hf, IntKind.bits, codecFor, if_true, Nat.reduceEqDiff, if_false]
          exact fs_fixed64 num hn _ _ _ (BitVec.ofInt 64 i) _ rfl (by simp only [encode, h, if_true]) (toNat_ofInt_64 i)
        · simp only [intWire, hf, IntKind.signed, codecFor, Bool.false_eq_true, if_false]
          exact fs_varint num hn _ _ _ (BitVec.ofInt 64 i) _ rfl (by simp only [encode, h, if_true]) (ofInt64_toNat i h1 h2)
    · simp only [h, Bool.false_eq_true, if_false, FieldSpec]
      cases k <;> simp only [supportedKind] at ht <;> try (exact absurd ht (by decide))
      all_goals (simp only [codecFor, codecOf]; try split) <;> simp only [size, h, Bool.false_eq_true, if_false]
  case f32 =>
    cases v <;> simp only [hasType, decide_eq_true_eq] at hv <;> try (exact absurd hv (by decide))
    rename_i b
    simp only [payload, codecFor, codecOf]
    by_cases h : (b != 0 || fl.wantzero) = true
    · simp only [h, if_true]
      exact fs_fixed32 num hn _ _ _ (BitVec.ofNat 32 b) _ rfl (by simp only [encode, h, if_true])
        (by rw [BitVec.toNat_ofNat]; exact Nat.mod_eq_of_lt hv)
    · simp [FieldSpec, h, size]
  case f64 =>
    cases v <;> simp only [hasType, decide_eq_true_eq] at hv <;> try (exact absurd hv (by decide))
    rename_i b
    simp only [payload, codecFor, codecOf]
    by_cases h : (b != 0 || fl.wantzero) = true
    · simp only [h, if_true]
      exact fs_fixed64 num hn _ _ _ (BitVec.ofNat 64 b) _ rfl (by simp only [encode, h, if_true])
        (by rw [BitVec.toNat_ofNat]; exact Nat.mod_eq_of_lt hv)
    · simp [FieldSpec, h, size]
  case str =>
    cases v <;> simp only [hasType] at hv <;> try (exact absurd hv (by decide))
    rename_i s
    simp only [payload, codecFor, codecOf] at hlen ⊢
    by_cases h : (!s.isEmpty || fl.wantzero) = true
    · simp only [h, if_true]
      simp only [encode, h, if_true, List.length_append] at hlen
      exact fs_len num hn _ _ _ s rfl (by simp only [encode, h, if_true]) (by omega)
    · simp [FieldSpec, h, size]
  case bytes =>
    cases v <;> simp only [hasType] at hv <;> try (exact absurd hv (by decide))
    case str s =>
      simp only [payload, codecFor, codecOf] at hlen ⊢
      simp only [encode, List.length_append] at hlen
      exact fs_len num hn _ _ _ s rfl (by simp only [encode]) (by omega)
    case nil =>
      simp only [payload, codecFor, codecOf]
      by_cases h : fl.wantzero = true
      · simp only [h, if_true]
        exact fs_len num hn _ _ _ [] rfl (by simp only [encode, h, if_true]; rfl) (by simp)
      · simp [FieldSpec, h, size]
  case arr n e =>
    have := isByte_eq e ht; subst this
    cases v <;> simp only [hasType, Bool.and_eq_true, decide_eq_true_eq] at hv <;> try (exact absurd hv (by decide))
    rename_i s
    obtain ⟨_, hv⟩ := hv
    subst hv
    simp only [payload, codecFor, codecOf] at hlen ⊢
    by_cases h : (!isZeroBytes s || fl.wantzero) = true
    · have h' : (fl.wantzero || !isZeroBytes s) = true := by rw [Bool.or_comm]; exact h
      simp only [h, if_true]
      simp only [encode, h', if_true, fixLen_length, List.length_append] at hlen
      exact fs_len num hn _ _ _ s rfl (by simp only [encode, h', if_true, fixLen_length]) (by omega)
    · have h' : (fl.wantzero || !isZeroBytes s) = false := by
        rw [Bool.or_comm]; simpa using h
      simp [FieldSpec, h, size, h']

/-! ## the whole struct: model bytes = reference bytes of `recordsOf` -/

theorem recordsOf_nil (wz : Bool) (pos : Nat) (vs : Vals) : recordsOf wz pos .nil vs = [] := by
  cases vs <;> simp [recordsOf]

theorem recordsR_nil (pos : Nat) (vs : Vals) : recordsR pos .nil vs = [] := by
  cases vs <;> simp [recordsR]

theorem recordsOf_slice (wz : Bool) (pos : Nat) (name tag : String) (emb : Bool) (e : Ty) (rest : Fields) (v : Val)
    (vs : Vals) :
    recordsOf wz pos (.cons name tag emb (.slice e) rest) (.cons v vs) = recordsOf wz (pos + 1) rest vs := by
  simp only [recordsOf, payload]

theorem recordsR_notslice (pos : Nat) (name tag : String) (emb : Bool) (t : Ty) (rest : Fields) (v : Val)
    (vs : Vals) (h : isSlice t = false) :
    recordsR pos (.cons name tag emb t rest) (.cons v vs) = recordsR (pos + 1) rest vs := by
  cases t with
  | slice e => exact absurd h (by simp [isSlice])
  | _ => simp only [recordsR]

theorem recordsR_slice_nil (pos : Nat) (name tag : String) (emb : Bool) (e : Ty) (rest : Fields) (vs : Vals) :
    recordsR pos (.cons name tag emb (.slice e) rest) (.cons .nil vs) = recordsR (pos + 1) rest vs := by
  simp only [recordsR]

/-- the options of a repeated field (no zigzag, no fixed) are fine for every element type -/
theorem optOK_plain (t : Ty) (o : FieldOpt) (hz : o.zigzag = false) (hf : o.fixed = false) (hp : isPtr t = false) :
    optOK t o = true := by
  cases t <;> simp_all [optOK, isPtr]

theorem codecFor_nofixed (t : Ty) (o : FieldOpt) (hf : o.fixed = false) : codecFor t o = codecOf t := by
  cases t with
  | int k => cases k <;> simp [codecFor, codecOf, hf]
  | ptr t' =>
    cases t' with
    | int k => cases k <;> simp [codecFor, codecOf, hf]
    | _ => simp [codecFor, codecOf]
  | _ => simp [codecFor]

/-- a scalar element is always written under `wantzero` -/
theorem payload_wz_scalar (t : Ty) (o : FieldOpt) (v : Val) (ht : tyOK t = true) (hv : hasType t v = true)
    (hs : isStructTy t = false) (hp : isPtr t = false) (hsl : isSlice t = false) :
    payload true t o v ≠ none := by
  cases t <;> simp only [tyOK] at ht <;> try (exact absurd ht (by decide))
  case struct => exact absurd hs (by simp [isStructTy])
  case ptr => exact absurd hp (by simp [isPtr])
  case slice => exact absurd hsl (by simp [isSlice])
  all_goals (cases v <;> simp only [hasType] at hv <;> try (exact absurd hv (by decide)))
  all_goals simp [payload]

/-- the slice codec: one `fieldBytes` per element -/
theorem encodeSlice_bytes (e : Ty) (ec : Codec) (num : Nat) (emb : Bool) (f : Val → Nat × WireVal)
    (hstep : ∀ v, hasType e v = true → (encode ec v wz).length < 2 ^ 64 → fieldBytes num emb ec v wz = encRec (f v)) :
    ∀ vs : Vals, hasTypeList e vs = true → (encodeSlice ec (encodeTag num ec.wire) emb vs).length < 2 ^ 64 →
      encodeSlice ec (encodeTag num ec.wire) emb vs = encRecs (listRecs f vs)
  | .nil, _, _ => by simp [encodeSlice, listRecs]
  | .cons v vs, hv, hlen => by
    simp only [hasTypeList, Bool.and_eq_true] at hv
    simp only [encodeSlice, List.length_append] at hlen
    simp only [encodeSlice, listRecs, encRecs_cons]
    have h1 := hstep v hv.1 (by omega)
    simp only [fieldBytes] at h1
    rw [h1, encodeSlice_bytes e ec num emb f hstep vs hv.2 (by omega)]

mutual
theorem field_bytes (t : Ty) (o : FieldOpt) (v : Val) (fl : Flags) (num : Nat)
    (ht : tyOK t = true) (hns : isSlice t = false) (hv : hasType t v = true) (ho : optOK t o = true)
    (hz : fl.zigzag = o.zigzag) (hn : num < 2 ^ 29)
    (hlen : (encode (codecFor t o) v fl).length < 2 ^ 64) :
    FieldSpec num (payload fl.wantzero t o v) (isEmb t) (codecFor t o) v fl := by
  by_cases hp : isPtr t = true
  · cases t <;> simp only [isPtr] at hp <;> try (exact absurd hp (by decide))
    rename_i t'
    simp only [tyOK, Bool.and_eq_true] at ht
    have ho' : optOK t' o = true := by
      cases t' <;> simp_all [optOK, ptrTarget]
    have hemb : isEmb (.ptr t') = isEmb t' := by
      cases t' <;> simp_all [isEmb, ptrTarget]
    have hns' : isSlice t' = false := by
      cases t' <;> simp_all [isSlice, ptrTarget]
    have hcod : codecFor (.ptr t') o = .ptr (codecFor t' o) := by
      cases t' with
      | int k => cases k <;> simp [codecFor, codecOf] <;> split <;> rfl
      | ptr t2 => simp [ptrTarget] at ht
      | _ => simp [codecFor, codecOf]
    rw [hemb]
    rw [hcod] at hlen ⊢
    cases v <;> simp only [hasType] at hv <;> try (exact absurd hv (by decide))
    case nil => simp [payload, FieldSpec, size]
    case ptr v0 =>
      simp only [encode] at hlen
      have ih := field_bytes t' o v0 { fl with wantzero := true, inline := false } num ht.2 hns' hv ho' hz hn hlen
      simp only [payload]
      exact (FieldSpec_ptr _ _ _ _ _ _).mpr ih
  have hp' : isPtr t = false := by simpa using hp
  have hembs : isEmb t = isStructTy t := by
    cases t <;> simp_all [isEmb, isStructTy, isPtr]
  rw [hembs]
  by_cases hs : isStructTy t = true
  · cases t <;> simp only [isStructTy] at hs <;> try (exact absurd hs (by decide))
    rename_i fs
    cases v <;> simp only [hasType] at hv <;> try (exact absurd hv (by decide))
    rename_i vs
    simp only [tyOK, Bool.and_eq_true] at ht
    have hzz : o.zigzag = false := by simpa [optOK] using ho
    rw [hzz] at hz
    simp only [codecFor, codecOf, isStructTy] at hlen ⊢
    have henc := encode_struct (fieldsOf 1 fs) vs fl
    rw [henc, List.length_append] at hlen
    have ih := fields_bytes fs vs (sfl fl (fieldsOf 1 fs)) 1 ht.1 hv hz (by omega)
    have ihr := fieldsR_bytes fs vs (encodeUnique (fieldsOf 1 fs) vs (sfl fl (fieldsOf 1 fs))).2 1 ht.1 hv (by omega)
    simp only [sfl_wantzero] at ih
    rw [ih, ihr, ← encRecs_append] at henc
    rw [ih, ihr, ← List.length_append, ← encRecs_append] at hlen
    simp only [payload]
    have hsz := Lemmas.Proto.size_eq (.struct (fieldsOf 1 fs)) (.struct vs) fl
    rw [henc] at hsz
    show FieldSpec num (if (encRecs (recordsOf fl.wantzero 1 fs vs ++ recordsR 1 fs vs)).isEmpty then none
      else some (.len (encRecs (recordsOf fl.wantzero 1 fs vs ++ recordsR 1 fs vs)))) true _ _ fl
    generalize encRecs (recordsOf fl.wantzero 1 fs vs ++ recordsR 1 fs vs) = body at *
    cases body with
    | nil => simp only [List.isEmpty_nil, if_true, FieldSpec]; simpa using hsz.symm
    | cons c cs =>
      simp only [List.isEmpty_cons, Bool.false_eq_true, if_false, FieldSpec]
      refine ⟨by rw [← hsz]; simp, ?_⟩
      simp only [fieldBytes, if_true, henc, ← hsz, Codec.wire]
      exact rec_varlen num hn _ hlen
  · have hs' : isStructTy t = false := by simpa using hs
    rw [hs']
    exact field_scalar t o v fl num hs' hp' hns ht hv ho hz hn hlen
theorem fields_bytes (fs : Fields) (vs : Vals) (fl : Flags) (pos : Nat)
    (hf : fieldsOK pos fs = true) (hv : hasTypes fs vs = true) (hz : fl.zigzag = false)
    (hlen : (encodeUnique (fieldsOf pos fs) vs fl).1.length < 2 ^ 64) :
    (encodeUnique (fieldsOf pos fs) vs fl).1 = encRecs (recordsOf fl.wantzero pos fs vs) := by
  cases fs with
  | nil => simp [fieldsOf, encodeUnique, recordsOf_nil]
  | cons name tag emb t rest =>
    cases vs with
    | nil => simp [hasTypes] at hv
    | cons v vs =>
      simp only [fieldsOK, Bool.and_eq_true] at hf
      simp only [hasTypes, Bool.and_eq_true] at hv
      obtain ⟨⟨hta, hty⟩, hrest⟩ := hf
      have hnum := tagAgree_num hta
      have hopt := tagAgree_optOK hta
      by_cases hsl : isSlice t = true
      · cases t <;> simp only [isSlice] at hsl <;> try (exact absurd hsl (by decide))
        rename_i e
        rw [fieldsOf_cons_slice pos name tag emb e rest hta hty] at hlen ⊢
        simp only [encodeUnique] at hlen ⊢
        rw [recordsOf_slice]
        exact fields_bytes rest vs fl (pos + 1) hrest hv.2 hz hlen
      have hns : isSlice t = false := by simpa using hsl
      rw [fieldsOf_cons_ok pos name tag emb t rest hta hty hns, encodeUnique_cons] at hlen ⊢
      simp only [recordsOf]
      generalize fieldOpt pos tag = o at *
      have hzf : ({ fl with zigzag := fl.zigzag || o.zigzag } : Flags).zigzag = o.zigzag := by simp [hz]
      have hse := Lemmas.Proto.size_eq (codecFor t o) v { fl with zigzag := fl.zigzag || o.zigzag }
      by_cases hpos : size (codecFor t o) v { fl with zigzag := fl.zigzag || o.zigzag } > 0
      · simp only [hpos, if_true, List.length_append, fieldBytes] at hlen
        have hfs := field_bytes t o v { fl with zigzag := fl.zigzag || o.zigzag } o.number hty hns hv.1 hopt hzf
          (by omega) (by omega)
        simp only [hpos, if_true]
        have ih := fields_bytes rest vs { fl with wantzero := false } (pos + 1) hrest hv.2 hz (by omega)
        cases hp : payload fl.wantzero t o v with
        | none => rw [show ({ fl with zigzag := fl.zigzag || o.zigzag } : Flags).wantzero = fl.wantzero from rfl, hp] at hfs
                  simp only [FieldSpec] at hfs; omega
        | some w =>
          rw [show ({ fl with zigzag := fl.zigzag || o.zigzag } : Flags).wantzero = fl.wantzero from rfl, hp] at hfs
          simp only [FieldSpec] at hfs
          rw [hfs.2, ih, encRecs_cons]
      · have h0 : size (codecFor t o) v { fl with zigzag := fl.zigzag || o.zigzag } = 0 := by omega
        simp only [hpos, if_false] at hlen ⊢
        have hfs := field_bytes t o v { fl with zigzag := fl.zigzag || o.zigzag } o.number hty hns hv.1 hopt hzf
          (by omega) (by omega)
        have ih := fields_bytes rest vs fl (pos + 1) hrest hv.2 hz hlen
        cases hp : payload fl.wantzero t o v with
        | none => exact ih
        | some w =>
          rw [show ({ fl with zigzag := fl.zigzag || o.zigzag } : Flags).wantzero = fl.wantzero from rfl, hp] at hfs
          simp only [FieldSpec] at hfs; omega
/-- the second loop: repeated fields, one record per element -/
theorem fieldsR_bytes (fs : Fields) (vs : Vals) (fl : Flags) (pos : Nat)
    (hf : fieldsOK pos fs = true) (hv : hasTypes fs vs = true)
    (hlen : (encodeRepeated (fieldsOf pos fs) vs fl).length < 2 ^ 64) :
    encodeRepeated (fieldsOf pos fs) vs fl = encRecs (recordsR pos fs vs) := by
  cases fs with
  | nil => simp [fieldsOf, encodeRepeated, recordsR_nil]
  | cons name tag emb t rest =>
    cases vs with
    | nil => simp [hasTypes] at hv
    | cons v vs =>
      simp only [fieldsOK, Bool.and_eq_true] at hf
      simp only [hasTypes, Bool.and_eq_true] at hv
      obtain ⟨⟨hta, hty⟩, hrest⟩ := hf
      have hnum := tagAgree_num hta
      have hopt := tagAgree_optOK hta
      by_cases hsl : isSlice t = true
      · cases t <;> simp only [isSlice] at hsl <;> try (exact absurd hsl (by decide))
        rename_i e
        rw [fieldsOf_cons_slice pos name tag emb e rest hta hty] at hlen ⊢
        simp only [encodeRepeated, List.length_append] at hlen ⊢
        simp only [tyOK, elemTy, Bool.and_eq_true, Bool.not_eq_true'] at hty
        simp only [optOK, Bool.and_eq_true, Bool.not_eq_true'] at hopt
        obtain ⟨⟨hep, hes⟩, hety⟩ := hty
        cases v <;> simp only [hasType] at hv <;> try (exact absurd hv.1 (by decide))
        case nil =>
          simp only [encode, List.nil_append, List.length_nil, Nat.zero_add, Nat.lt_irrefl, if_false] at hlen ⊢
          rw [recordsR_slice_nil]
          exact fieldsR_bytes rest vs fl (pos + 1) hrest hv.2 hlen
        case list es =>
          simp only [encode] at hlen ⊢
          simp only [recordsR, encRecs_append]
          have hstep : ∀ x, hasType e x = true → (encode (codecOf e) x wz).length < 2 ^ 64 →
              fieldBytes (fieldOpt pos tag).number (isStructTy e) (codecOf e) x wz
                = encRec ((fieldOpt pos tag).number, (payload true e (fieldOpt pos tag) x).getD (.len [])) := by
            intro x hx hxl
            have hcf := codecFor_nofixed e (fieldOpt pos tag) hopt.2
            have hfs := field_bytes e (fieldOpt pos tag) x wz (fieldOpt pos tag).number hety hes hx
              (optOK_plain e _ hopt.1 hopt.2 hep) (by rw [hopt.1]; rfl) (by omega) (by rw [hcf]; exact hxl)
            have hembs : isEmb e = isStructTy e := by
              cases e <;> simp_all [isEmb, isStructTy, isPtr]
            rw [hcf, hembs, show wz.wantzero = true from rfl] at hfs
            cases hp : payload true e (fieldOpt pos tag) x with
            | some w =>
              rw [hp] at hfs
              simp only [FieldSpec] at hfs
              simp only [Option.getD_some]
              exact hfs.2
            | none =>
              rw [hp] at hfs
              simp only [FieldSpec] at hfs
              simp only [Option.getD_none]
              by_cases hst : isStructTy e = true
              · have hsz := Lemmas.Proto.size_eq (codecOf e) x wz
                have hnil : encode (codecOf e) x wz = [] := by
                  apply List.eq_nil_of_length_eq_zero; rw [hsz, hfs]
                have hw : (codecOf e).wire = .varlen := by
                  cases e <;> simp_all [isStructTy, codecOf, Codec.wire]
                simp only [fieldBytes, hst, if_true, hfs, hnil, hw]
                exact rec_varlen _ (by omega) [] (by simp)
              · exact absurd hp (payload_wz_scalar e _ x hety hx (by simpa using hst) hep hes)
          have h1 := encodeSlice_bytes e (codecOf e) _ _ _ hstep es hv.1 (by omega)
          have h2 := fieldsR_bytes rest vs _ (pos + 1) hrest hv.2 (Nat.lt_of_le_of_lt (Nat.le_add_left _ _) hlen)
          rw [h2, h1]
      have hns : isSlice t = false := by simpa using hsl
      rw [fieldsOf_cons_ok pos name tag emb t rest hta hty hns] at hlen ⊢
      simp only [encodeRepeated] at hlen ⊢
      rw [recordsR_notslice _ _ _ _ _ _ _ _ hns]
      exact fieldsR_bytes rest vs fl (pos + 1) hrest hv.2 hlen
end

/-- **record level, bytes**: a message struct is written as the reference encoding of its records (non-repeated
fields in declaration order, then the elements of the repeated fields) -/
theorem struct_bytes (fs : Fields) (vs : Vals) (fl : Flags)
    (hty : tyOK (.struct fs) = true) (hv : hasTypes fs vs = true) (hz : fl.zigzag = false)
    (hlen : (encode (.struct (fieldsOf 1 fs)) (.struct vs) fl).length < 2 ^ 64) :
    encode (.struct (fieldsOf 1 fs)) (.struct vs) fl = encRecs (allRecords fl.wantzero fs vs) := by
  have ht := hty
  simp only [tyOK, Bool.and_eq_true] at ht
  have henc := encode_struct (fieldsOf 1 fs) vs fl
  rw [henc, List.length_append] at hlen
  have ih := fields_bytes fs vs (sfl fl (fieldsOf 1 fs)) 1 ht.1 hv hz (by omega)
  have ihr := fieldsR_bytes fs vs (encodeUnique (fieldsOf 1 fs) vs (sfl fl (fieldsOf 1 fs))).2 1 ht.1 hv (by omega)
  simp only [sfl_wantzero] at ih
  rw [henc, ih, ihr, ← encRecs_append]
  rfl

theorem zigzag_lt (i : Int) (h1 : -(2:Int)^63 ≤ i) (h2 : i < (2:Int)^63) : zigzag i < 2 ^ 64 := by
  simp only [Int.reducePow] at h1 h2
  unfold zigzag; split <;> omega

theorem ofInt64_lt (i : Int) : ofInt64 i < 2 ^ 64 := by
  unfold ofInt64; omega

theorem encRec_len_ge (num : Nat) (b : Bytes) : b.length ≤ (encRec (num, .len b)).length := by
  simp only [encRec, List.length_append]; omega

theorem payload_ok (t : Ty) (o : FieldOpt) (v : Val) (wz : Bool) (num : Nat)
    (ht : tyOK t = true) (hv : hasType t v = true) (ho : optOK t o = true) (h0 : 0 < num) (hn : num < 2 ^ 29)
    (w : WireVal) (hp : payload wz t o v = some w) (hlen : (encRec (num, w)).length < 2 ^ 64) :
    RecOK (num, w) := by
  cases t <;> simp only [tyOK] at ht <;> try (exact absurd ht (by decide))
  case slice => simp [payload] at hp
  case ptr t' =>
    simp only [Bool.and_eq_true] at ht
    have ho' : optOK t' o = true := by
      cases t' <;> simp_all [optOK, ptrTarget]
    cases v <;> simp only [hasType] at hv <;> try (exact absurd hv (by decide))
    case nil => simp [payload] at hp
    case ptr v0 =>
      simp only [payload] at hp
      exact payload_ok t' o v0 true num ht.2 hv ho' h0 hn w hp hlen
  case bool =>
    cases v <;> simp only [hasType] at hv <;> try (exact absurd hv (by decide))
    rename_i b
    simp only [payload] at hp
    split at hp
    · cases hp; exact ⟨h0, hn, by cases b <;> decide⟩
    · cases hp
  case int k =>
    cases v <;> simp only [hasType] at hv <;> try (exact absurd hv (by decide))
    rename_i i
    simp only [payload] at hp
    split at hp
    · cases hp
      cases k <;> simp only [supportedKind] at ht <;> try (exact absurd ht (by decide))
      case int =>
        have hf : o.fixed = false := by simpa [optOK] using ho
        obtain ⟨h1, h2⟩ := inRange_signed _ i (by simp) hv
        simp only [intWire, hf, IntKind.signed, Bool.false_eq_true, if_false, if_true]
        exact ⟨h0, hn, by split; exact zigzag_lt i h1 h2; exact ofInt64_lt i⟩
      case i32 =>
        obtain ⟨h1, h2⟩ := inRange_signed _ i (by simp) hv
        by_cases hf : o.fixed = true
        · simp only [intWire, hf, IntKind.bits, if_true]
          exact ⟨h0, hn, natLE_length _ _⟩
        · simp only [intWire, hf, IntKind.signed, Bool.false_eq_true, if_false, if_true]
          exact ⟨h0, hn, by split; exact zigzag_lt i h1 h2; exact ofInt64_lt i⟩
      case i64 =>
        obtain ⟨h1, h2⟩ := inRange_signed _ i (by simp) hv
        by_cases hf : o.fixed = true
        · simp only [intWire, hf, IntKind.bits, if_true, Nat.reduceEqDiff, if_false]
          exact ⟨h0, hn, natLE_length _ _⟩
        · simp only [intWire, hf, IntKind.signed, Bool.false_eq_true, if_false, if_true]
          exact ⟨h0, hn, by split; exact zigzag_lt i h1 h2; exact ofInt64_lt i⟩
      case uint =>
        have hf : o.fixed = false := by simpa [optOK] using ho
        obtain ⟨h1, h2⟩ := inRange_unsigned _ i (by simp) hv
        simp only [intWire, hf, IntKind.signed, Bool.false_eq_true, if_false]
        exact ⟨h0, hn, by simp only [Int.reducePow] at h2; omega⟩
      case u32 =>
        obtain ⟨h1, h2⟩ := inRange_unsigned _ i (by simp) hv
        by_cases hf : o.fixed = true
        · simp only [intWire, hf, IntKind.bits, if_true]
          exact ⟨h0, hn, natLE_length _ _⟩
        · simp only [intWire, hf, IntKind.signed, Bool.false_eq_true, if_false]
          exact ⟨h0, hn, by simp only [Int.reducePow] at h2; omega⟩
      case u64 =>
        obtain ⟨h1, h2⟩ := inRange_unsigned _ i (by simp) hv
        by_cases hf : o.fixed = true
        · simp only [intWire, hf, IntKind.bits, if_true, Nat.reduceEqDiff, if_false]
          exact ⟨h0, hn, natLE_length _ _⟩
        · simp only [intWire, hf, IntKind.signed, Bool.false_eq_true, if_false]
          exact ⟨h0, hn, by simp only [Int.reducePow] at h2; omega⟩
    · cases hp
  case f32 =>
    cases v <;> simp only [hasType] at hv <;> try (exact absurd hv (by decide))
    simp only [payload] at hp
    split at hp
    · cases hp; exact ⟨h0, hn, natLE_length _ _⟩
    · cases hp
  case f64 =>
    cases v <;> simp only [hasType] at hv <;> try (exact absurd hv (by decide))
    simp only [payload] at hp
    split at hp
    · cases hp; exact ⟨h0, hn, natLE_length _ _⟩
    · cases hp
  case str =>
    cases v <;> simp only [hasType] at hv <;> try (exact absurd hv (by decide))
    simp only [payload] at hp
    split at hp
    · cases hp; exact ⟨h0, hn, Nat.lt_of_le_of_lt (encRec_len_ge _ _) hlen⟩
    · cases hp
  case bytes =>
    cases v <;> simp only [hasType] at hv <;> try (exact absurd hv (by decide))
    case str s =>
      simp only [payload] at hp
      cases hp; exact ⟨h0, hn, Nat.lt_of_le_of_lt (encRec_len_ge _ _) hlen⟩
    case nil =>
      simp only [payload] at hp
      split at hp
      · cases hp; exact ⟨h0, hn, by simp⟩
      · cases hp
  case struct fs =>
    cases v <;> simp only [hasType] at hv <;> try (exact absurd hv (by decide))
    simp only [payload] at hp
    split at hp
    · cases hp
    · cases hp; exact ⟨h0, hn, Nat.lt_of_le_of_lt (encRec_len_ge _ _) hlen⟩
  case arr n e =>
    cases v <;> simp only [hasType] at hv <;> try (exact absurd hv (by decide))
    simp only [payload] at hp
    split at hp
    · cases hp; exact ⟨h0, hn, Nat.lt_of_le_of_lt (encRec_len_ge _ _) hlen⟩
    · cases hp

/-- every record of a well-typed value is one the wire format can carry -/
theorem recordsOf_ok : ∀ (fs : Fields) (vs : Vals) (wz : Bool) (pos : Nat),
    fieldsOK pos fs = true → hasTypes fs vs = true →
    (encRecs (recordsOf wz pos fs vs)).length < 2 ^ 64 → ∀ r ∈ recordsOf wz pos fs vs, RecOK r
  | .nil, vs, wz, pos, _, _, _ => by simp [recordsOf_nil]
  | .cons name tag emb t rest, .nil, wz, pos, _, hv, _ => by simp [hasTypes] at hv
  | .cons name tag emb t rest, .cons v vs, wz, pos, hf, hv, hlen => by
    simp only [fieldsOK, Bool.and_eq_true] at hf
    simp only [hasTypes, Bool.and_eq_true] at hv
    obtain ⟨⟨hta, hty⟩, hrest⟩ := hf
    have hnum := tagAgree_num hta
    have hopt := tagAgree_optOK hta
    simp only [recordsOf] at hlen ⊢
    cases hp : payload wz t (fieldOpt pos tag) v with
    | none =>
      rw [hp] at hlen
      simp only
      exact recordsOf_ok rest vs wz (pos + 1) hrest hv.2 hlen
    | some w =>
      rw [hp] at hlen
      simp only [encRecs_cons, List.length_append] at hlen
      intro r hr
      simp only [List.mem_cons] at hr
      rcases hr with rfl | hr
      · exact payload_ok t _ v wz _ hty hv.1 hopt hnum.1 (by omega) w hp (by omega)
      · exact recordsOf_ok rest vs false (pos + 1) hrest hv.2 (by omega) r hr

theorem elemRecs_ok (e : Ty) (o : FieldOpt) (num : Nat) (he : tyOK e = true) (hep : isPtr e = false)
    (hz : o.zigzag = false) (hf : o.fixed = false) (h0 : 0 < num) (hn : num < 2 ^ 29) :
    ∀ es : Vals, hasTypeList e es = true →
      (encRecs (listRecs (fun v => (num, (payload true e o v).getD (.len []))) es)).length < 2 ^ 64 →
      ∀ r ∈ listRecs (fun v => (num, (payload true e o v).getD (.len []))) es, RecOK r
  | .nil, _, _ => by simp [listRecs]
  | .cons v es, hv, hlen => by
    simp only [hasTypeList, Bool.and_eq_true] at hv
    simp only [listRecs, encRecs_cons, List.length_append] at hlen
    intro r hr
    simp only [listRecs, List.mem_cons] at hr
    rcases hr with rfl | hr
    · cases hp : payload true e o v with
      | none => exact ⟨h0, hn, by simp⟩
      | some w =>
        rw [hp, Option.getD_some] at hlen
        exact payload_ok e o v true num he hv.1 (optOK_plain e o hz hf hep) h0 hn w hp (by omega)
    · exact elemRecs_ok e o num he hep hz hf h0 hn es hv.2 (by omega) r hr

theorem recordsR_ok : ∀ (fs : Fields) (vs : Vals) (pos : Nat),
    fieldsOK pos fs = true → hasTypes fs vs = true →
    (encRecs (recordsR pos fs vs)).length < 2 ^ 64 → ∀ r ∈ recordsR pos fs vs, RecOK r
  | .nil, vs, pos, _, _, _ => by simp [recordsR_nil]
  | .cons name tag emb t rest, .nil, pos, _, hv, _ => by simp [hasTypes] at hv
  | .cons name tag emb t rest, .cons v vs, pos, hf, hv, hlen => by
    simp only [fieldsOK, Bool.and_eq_true] at hf
    simp only [hasTypes, Bool.and_eq_true] at hv
    obtain ⟨⟨hta, hty⟩, hrest⟩ := hf
    have hnum := tagAgree_num hta
    have hopt := tagAgree_optOK hta
    by_cases hsl : isSlice t = true
    · cases t <;> simp only [isSlice] at hsl <;> try (exact absurd hsl (by decide))
      rename_i e
      simp only [tyOK, elemTy, Bool.and_eq_true, Bool.not_eq_true'] at hty
      simp only [optOK, Bool.and_eq_true, Bool.not_eq_true'] at hopt
      cases v <;> simp only [hasType] at hv <;> try (exact absurd hv.1 (by decide))
      case nil =>
        rw [recordsR_slice_nil] at hlen ⊢
        exact recordsR_ok rest vs (pos + 1) hrest hv.2 hlen
      case list es =>
        simp only [recordsR, encRecs_append, List.length_append] at hlen ⊢
        intro r hr
        rcases List.mem_append.mp hr with hr | hr
        · exact elemRecs_ok e _ _ hty.2 hty.1.1 hopt.1 hopt.2 hnum.1 (by omega) es hv.1 (by omega) r hr
        · exact recordsR_ok rest vs (pos + 1) hrest hv.2 (by omega) r hr
    · have hns : isSlice t = false := by simpa using hsl
      rw [recordsR_notslice _ _ _ _ _ _ _ _ hns] at hlen ⊢
      exact recordsR_ok rest vs (pos + 1) hrest hv.2 hlen

theorem allRecords_ok (fs : Fields) (vs : Vals) (wz : Bool)
    (hf : fieldsOK 1 fs = true) (hv : hasTypes fs vs = true)
    (hlen : (encRecs (allRecords wz fs vs)).length < 2 ^ 64) : ∀ r ∈ allRecords wz fs vs, RecOK r := by
  simp only [allRecords, encRecs_append, List.length_append] at hlen
  intro r hr
  rcases List.mem_append.mp hr with hr | hr
  · exact recordsOf_ok fs vs wz 1 hf hv (by omega) r hr
  · exact recordsR_ok fs vs 1 hf hv (by omega) r hr

/-- **record level, parse**: the reference wire parser splits the bytes the Go encoder writes for a message struct
into exactly the records `allRecords` lists (any fuel above their number; `decodeMsg` supplies length + 1) -/
theorem parse_struct (fs : Fields) (vs : Vals) (fl : Flags)
    (hty : tyOK (.struct fs) = true) (hv : hasTypes fs vs = true) (hz : fl.zigzag = false)
    (hlen : (encode (.struct (fieldsOf 1 fs)) (.struct vs) fl).length < 2 ^ 64)
    (fuel : Nat) (hfuel : (allRecords fl.wantzero fs vs).length < fuel) :
    parse fuel (encode (.struct (fieldsOf 1 fs)) (.struct vs) fl) = some (allRecords fl.wantzero fs vs) := by
  have hb := struct_bytes fs vs fl hty hv hz hlen
  rw [hb] at hlen ⊢
  simp only [tyOK, Bool.and_eq_true] at hty
  exact parse_encRecs _ (allRecords_ok fs vs _ hty.1 hv hlen) fuel hfuel

theorem parse_struct_len (fs : Fields) (vs : Vals) (fl : Flags)
    (hty : tyOK (.struct fs) = true) (hv : hasTypes fs vs = true) (hz : fl.zigzag = false)
    (hlen : (encode (.struct (fieldsOf 1 fs)) (.struct vs) fl).length < 2 ^ 64) :
    parse ((encode (.struct (fieldsOf 1 fs)) (.struct vs) fl).length + 1)
      (encode (.struct (fieldsOf 1 fs)) (.struct vs) fl) = some (allRecords fl.wantzero fs vs) := by
  apply parse_struct fs vs fl hty hv hz hlen
  rw [struct_bytes fs vs fl hty hv hz hlen]
  have := length_le_encRecs (allRecords fl.wantzero fs vs); omega

/-! ## non-vacuity -/

theorem split_empty (sep : String) (h : (sep == "") = false) : "".splitOn sep = [""] := by
  unfold String.splitOn
  simp only [h]
  rw [String.splitOnAux]
  have h1 : String.Pos.Raw.atEnd "" 0 = true := by decide
  have h2 : String.Pos.Raw.extract "" 0 0 = "" := by decide
  simp [h1, h2]

theorem modelTag_empty : modelTag "" = none := by
  unfold modelTag lookupProtobuf
  rw [split_empty _ (by decide)]; rfl

theorem fieldOpt_empty (pos : Nat) : fieldOpt pos "" = { number := pos } := by
  unfold fieldOpt tagValue
  rw [split_empty _ (by decide)]

/-- an untagged field (numbered by position, as `structCodecOf` does) is read alike by both sides -/
theorem tagAgree_empty (pos : Nat) (t : Ty) (h0 : 0 < pos) (h1 : pos < 65536) :
    tagAgree pos "" t = true := by
  simp only [tagAgree, modelTag_empty, fieldOpt_empty, optOK]
  cases t <;> simp [h0, h1]
  rename_i t'; cases t' <;> rfl
/-- a concrete two-level message type … -/
def exInner : Fields := .cons "X" "" false (.int .i32) (.cons "S" "" false .str .nil)
def exFields : Fields :=
  .cons "A" "" false .bool (.cons "B" "" false (.int .i64) (.cons "C" "" false (.struct exInner)
    (.cons "D" "" false .f64 (.cons "E" "" false .bytes (.cons "F" "" false (.int .u32) .nil)))))
/-- … and a value of it -/
def exVals : Vals :=
  .cons (.bool true) (.cons (.int (-5)) (.cons (.struct (.cons (.int 7) (.cons (.str [104, 105]) .nil)))
    (.cons (.float 4609434218613702656) (.cons (.str []) (.cons (.int 0) .nil)))))

/-- the codec tree `structCodecOf` builds for it -/
def exCodec : CFields :=
  .cons 1 false false false .bool (.cons 2 false false false .int64
    (.cons 3 true false false (.struct (.cons 1 false false false .int32 (.cons 2 false false false .string .nil)))
      (.cons 4 false false false .float64 (.cons 5 false false false .bytes (.cons 6 false false false .uint32 .nil)))))

/-- non-vacuity: the hypotheses of `struct_bytes` / `parse_struct` hold for a concrete two-level struct -/
example : tyOK (.struct exFields) = true ∧ hasTypes exFields exVals = true
    ∧ (encode (.struct (fieldsOf 1 exFields)) (.struct exVals) { toplevel := true, inline := true }).length < 2 ^ 64 := by
  have hty : tyOK (.struct exFields) = true := by
    simp [tyOK, fieldsOK, exFields, exInner, tagAgree_empty, fieldNums, fieldOpt_empty, supportedKind]
  have hv : hasTypes exFields exVals = true := by decide
  refine ⟨hty, hv, ?_⟩
  have hm : (lookupProtobuf "").bind parseStructTag = none := modelTag_empty
  have hc : fieldsOf 1 exFields = exCodec := by
    simp [exFields, exInner, exCodec, fieldsOf, hm, fieldCodecOf, codecOf, isStructBase, embBase, baseTy]
  rw [hc]
  decide
end Enc.Lemmas.ProtoWire
