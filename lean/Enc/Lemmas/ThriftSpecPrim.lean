import Enc.Model.Thrift
import Enc.Spec.Thrift
/-!
C13, compact protocol, level 1: the primitive writers of `Enc.Model.Thrift` produce the bytes that
`Enc.Spec.Thrift` prescribes.

  * `code_ofSpec`                    the Go `Type` enum carries the compact type codes
  * `uvarint_eq_leb128`, `varint_eq_zz` (all naturals / all integers), `wI16/32/64_compact`
  * `wBytes_compact`                 binary / string: LEB128 length prefix + payload
  * `wList_compact` (+ `_short`, `_long`)   list/set header
  * `wMap_compact` (+ `_empty`)      map header, one zero byte for the empty map
  * `wField_compact_short/_long`     field header; `tOut_code` the bool value folded into the type nibble
-/
namespace Enc.Lemmas.ThriftSpec
open Enc

/-- the thrift type of the model for each specification type -/
def ofSpec : Spec.Thrift.TT → Model.Thrift.TType
  | .bool => .bool | .i8 => .i8 | .i16 => .i16 | .i32 => .i32 | .i64 => .i64 | .double => .double
  | .binary => .binary | .list => .list | .set => .set | .map => .map | .struct => .struct

theorem code_ofSpec (t : Spec.Thrift.TT) : (ofSpec t).code = Spec.Thrift.cmpCode t := by
  cases t <;> rfl

theorem cmpCode_lt (t : Spec.Thrift.TT) : Spec.Thrift.cmpCode t < 16 := by cases t <;> decide
theorem cmpCode_pos (t : Spec.Thrift.TT) : 0 < Spec.Thrift.cmpCode t := by cases t <;> decide

theorem ofSpec_ne_stop (t : Spec.Thrift.TT) : (ofSpec t == Model.Thrift.TType.stop) = false := by
  cases t <;> rfl

theorem ofSpec_beq_bool (t : Spec.Thrift.TT) :
    (ofSpec t == Model.Thrift.TType.bool) = (t == Spec.Thrift.TT.bool) := by
  cases t <;> rfl

/-! ## varints -/

/-- Go `binary.PutUvarint` is LEB128, for every natural number -/
theorem uvarint_eq_leb128 (n : Nat) : Model.Thrift.uvarint n = Spec.Thrift.leb128 n := by
  induction n using Nat.strongRecOn with
  | _ n ih =>
    unfold Model.Thrift.uvarint Spec.Thrift.leb128
    split
    · rfl
    · rw [ih (n / 128) (by omega)]

theorem zigzag_eq (i : Int) : Model.Thrift.zigzag64 i = Spec.Thrift.zigzag i := rfl

/-- Go `binary.PutVarint` is zig-zag LEB128, for every integer (in particular on the i16 / i32 / i64 ranges) -/
theorem varint_eq_zz (i : Int) : Model.Thrift.varint i = Spec.Thrift.zz i := by
  unfold Model.Thrift.varint Spec.Thrift.zz
  rw [uvarint_eq_leb128, zigzag_eq]

theorem wI16_compact (i : Int) : Model.Thrift.wI16 .compact i = Spec.Thrift.zz i := varint_eq_zz i
theorem wI32_compact (i : Int) : Model.Thrift.wI32 .compact i = Spec.Thrift.zz i := varint_eq_zz i
theorem wI64_compact (i : Int) : Model.Thrift.wI64 .compact i = Spec.Thrift.zz i := varint_eq_zz i

theorem uvarint_zero : Model.Thrift.uvarint 0 = [0] := by unfold Model.Thrift.uvarint; simp
theorem leb128_zero : Spec.Thrift.leb128 0 = [0] := by unfold Spec.Thrift.leb128; simp

/-- binary / string: varint length, then the payload -/
theorem wBytes_compact (s : Bytes) : Model.Thrift.wBytes .compact s = Spec.Thrift.bytesOf .compact s := by
  simp only [Model.Thrift.wBytes, Model.Thrift.wLength, Spec.Thrift.bytesOf, uvarint_eq_leb128]

/-! ## list / set header -/

theorem or_f0 : ∀ c, c < 16 → 0xF0 ||| c = 0xF0 + c := by decide
theorem or_kv : ∀ a, a < 16 → ∀ b, b < 16 → (a * 16 % 256) ||| b = a * 16 + b := by decide

theorem wList_compact (t : Spec.Thrift.TT) (n : Nat) :
    Model.Thrift.wList .compact (ofSpec t) n = Spec.Thrift.listHdr .compact t n := by
  unfold Model.Thrift.wList Spec.Thrift.listHdr
  simp only [code_ofSpec, uvarint_eq_leb128]
  have hc := cmpCode_lt t
  by_cases h : n ≤ 14
  · have h2 : n < 15 := by omega
    simp only [h, h2, if_true]
    congr 2
    omega
  · have h2 : ¬ n < 15 := by omega
    simp only [h, h2, if_false]
    rw [or_f0 _ hc]

/-- short form `ssss tttt` below 15 elements -/
theorem wList_compact_short (t : Spec.Thrift.TT) (n : Nat) (h : n < 15) :
    Model.Thrift.wList .compact (ofSpec t) n = [UInt8.ofNat (n * 16 + Spec.Thrift.cmpCode t)] := by
  rw [wList_compact]; simp [Spec.Thrift.listHdr, h]

/-- long form `1111 tttt` + varint size from 15 elements on -/
theorem wList_compact_long (t : Spec.Thrift.TT) (n : Nat) (h : 15 ≤ n) :
    Model.Thrift.wList .compact (ofSpec t) n =
      [UInt8.ofNat (0xF0 + Spec.Thrift.cmpCode t)] ++ Spec.Thrift.leb128 n := by
  have h2 : ¬ n < 15 := by omega
  rw [wList_compact]; simp [Spec.Thrift.listHdr, h2]

/-! ## map header -/

theorem wMap_compact (k v : Spec.Thrift.TT) (n : Nat) :
    Model.Thrift.wMap .compact (ofSpec k) (ofSpec v) n = Spec.Thrift.mapHdr .compact k v n := by
  unfold Model.Thrift.wMap Spec.Thrift.mapHdr
  simp only [code_ofSpec, uvarint_eq_leb128]
  by_cases h : n = 0
  · subst h; simp [leb128_zero]
  · have : (n == 0) = false := by simpa using h
    simp only [this, Bool.false_eq_true, if_false]
    rw [or_kv _ (cmpCode_lt k) _ (cmpCode_lt v)]

/-- the empty map is the single byte 0 -/
theorem wMap_compact_empty (k v : Spec.Thrift.TT) :
    Model.Thrift.wMap .compact (ofSpec k) (ofSpec v) 0 = [0] := by
  rw [wMap_compact]; rfl

/-! ## field header -/

theorem twos16_small (d : Int) (h0 : 0 ≤ d) (h1 : d ≤ 15) : Model.Thrift.twos d 16 = d.toNat := by
  unfold Model.Thrift.twos
  have : d % (2 ^ 16 : Int) = d := Int.emod_eq_of_lt h0 (by omega)
  rw [this]

/-- delta short form `dddd tttt` for a Delta with 1 ≤ delta ≤ 15 -/
theorem wField_compact_short (T : Model.Thrift.TType) (d : Int) (hs : (T == .stop) = false) (hc : T.code < 16)
    (h0 : 0 < d) (h1 : d ≤ 15) :
    Model.Thrift.wField .compact T d true = [UInt8.ofNat (d.toNat * 16 + T.code)] := by
  unfold Model.Thrift.wField
  simp only [hs, Bool.false_eq_true, if_false, h0, h1, decide_true, Bool.and_self, if_true,
    twos16_small d (by omega) h1]
  congr 2
  have : d.toNat ≤ 15 := by omega
  omega

/-- long form: type byte, then the zig-zag varint of the id -/
theorem wField_compact_long (T : Model.Thrift.TType) (id : Int) (dl : Bool) (hs : (T == .stop) = false)
    (h1 : dl = false ∨ id ≤ 0 ∨ 15 < id) :
    Model.Thrift.wField .compact T id dl = [UInt8.ofNat T.code] ++ Spec.Thrift.zz id := by
  unfold Model.Thrift.wField
  have : (dl && decide (0 < id) && decide (id ≤ 15)) = false := by
    rcases h1 with h | h | h
    · simp [h]
    · have : ¬ 0 < id := by omega
      simp [this]
    · have : ¬ id ≤ 15 := by omega
      simp [this]
  simp only [hs, Bool.false_eq_true, if_false, this, varint_eq_zz]

/-- the type the model announces in a compact field header (bool value folded into the type) -/
def tOut (t : Spec.Thrift.TT) (isTrue : Bool) : Model.Thrift.TType :=
  if (true && (ofSpec t == Model.Thrift.TType.bool)) && isTrue then Model.Thrift.TType.true_ else ofSpec t
/-- the type nibble the specification prescribes: TRUE 1 / FALSE 2 for bool fields -/
def tcode (t : Spec.Thrift.TT) (isTrue : Bool) : Nat :=
  if t == .bool then (if isTrue then 1 else 2) else Spec.Thrift.cmpCode t

theorem tOut_code (t : Spec.Thrift.TT) (b : Bool) : (tOut t b).code = tcode t b := by
  cases t <;> cases b <;> rfl
theorem tOut_ne_stop (t : Spec.Thrift.TT) (b : Bool) : (tOut t b == Model.Thrift.TType.stop) = false := by
  cases t <;> cases b <;> rfl
theorem tcode_lt (t : Spec.Thrift.TT) (b : Bool) : tcode t b < 16 := by
  cases t <;> cases b <;> decide

end Enc.Lemmas.ThriftSpec
