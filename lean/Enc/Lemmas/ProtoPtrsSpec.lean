import Enc.Lemmas.ProtoPtrsDefs
import Enc.Lemmas.ProtoLiberalMapAccept
/-!
# proto: repeated pointers `[]*T` and pointer chains `**T` — the reference side

`Spec.Protobuf.decode` and `Spec.Protobuf.canonical` commute with the reduction (under `ptrSafe`):
`decode_reduce`, `canonical_lift`; the skeleton relation `sh` does not see `lift`: `sh_lift`.
-/
set_option linter.unusedSimpArgs false
set_option linter.unusedVariables false
namespace Enc.Lemmas.ProtoPtrs
open Enc Enc.Spec.Protobuf

/-! ## basics -/

def isPtr : Ty → Bool
  | .ptr _ => true
  | _ => false

theorem liftS_nonptr : ∀ (t : Ty), isPtr t = false → ∀ x : Val, liftS t x = lift t x
  | .ptr t, h, _ => by simp [isPtr] at h
  | .slice t, _, x => by cases x <;> simp only [lift, liftS]
  | .map k v, _, x => by cases x <;> simp only [lift, liftS]
  | .struct fs, _, x => by cases x <;> simp only [lift, liftS]
  | .bool, _, x => by simp only [lift, liftS]
  | .int _, _, x => by simp only [lift, liftS]
  | .f32, _, x => by simp only [lift, liftS]
  | .f64, _, x => by simp only [lift, liftS]
  | .str, _, x => by simp only [lift, liftS]
  | .bytes, _, x => by simp only [lift, liftS]
  | .any, _, x => by simp only [lift, liftS]
  | .arr _ _, _, x => by simp only [lift, liftS]
  | .named _ _, _, x => by simp only [lift, liftS]

theorem reduceS_nonptr (t : Ty) (h : isPtr t = false) : reduceS t = reduce t := by
  cases t <;> simp only [reduce, reduceS]
  simp [isPtr] at h

theorem lift_nil (t : Ty) : lift t .nil = .nil := by
  cases t <;> simp only [lift]

/-- a statement about `lift`/`reduce` at a non-pointer type gives the `S` version -/
theorem both_of_nonptr {t : Ty} (hp : isPtr t = false) {P : (Val → Val) → Ty → Prop} (h : P (lift t) (reduce t)) :
    P (lift t) (reduce t) ∧ P (liftS t) (reduceS t) := by
  have e : liftS t = lift t := funext (liftS_nonptr t hp)
  rw [e, reduceS_nonptr t hp]
  exact ⟨h, h⟩

/-! ## `canon` commutes with `lift` (every value) -/

theorem canonVals_mapVals (f : Val → Val) (h : ∀ v, canon (f v) = f (canon v)) :
    ∀ vs : Vals, canonVals (mapVals f vs) = mapVals f (canonVals vs)
  | .nil => by simp only [mapVals, canonVals]
  | .cons v r => by simp only [mapVals, canonVals, h v, canonVals_mapVals f h r]

theorem canonVals_mapVals2 (f : Val → Val) (h : ∀ v, canon (f v) = f (canon v)) :
    ∀ vs : Vals, canonVals (mapVals2 f vs) = mapVals2 f (canonVals vs)
  | .nil => by simp only [mapVals2, canonVals]
  | .cons k .nil => by simp only [mapVals2, canonVals]
  | .cons k (.cons v r) => by simp only [mapVals2, canonVals, h v, canonVals_mapVals2 f h r]

/-- the sorting fold of `canon` -/
def insAll : List (Val × Val) → List (Val × Val) → List (Val × Val)
  | [], acc => acc
  | (k, v) :: r, acc => insAll r (insertSorted k v acc)

def flat : List (Val × Val) → List Val
  | [] => []
  | (k, v) :: r => k :: v :: flat r

def mkMap : List (Val × Val) → Val
  | [] => .nil
  | p :: ps => .map (Vals.ofList (flat (p :: ps)))

theorem foldl_insAll (fl : List (Val × Val) → Val × Val → List (Val × Val))
    (hfl : ∀ acc k v, fl acc (k, v) = insertSorted k v acc) :
    ∀ (ps acc : List (Val × Val)), ps.foldl fl acc = insAll ps acc
  | [], acc => rfl
  | (k, v) :: r, acc => by simp only [List.foldl_cons, hfl, insAll, foldl_insAll fl hfl r]

theorem foldr_flat (fr : Val × Val → List Val → List Val) (hfr : ∀ acc k v, fr (k, v) acc = k :: v :: acc) :
    ∀ (ps : List (Val × Val)), ps.foldr fr [] = flat ps
  | [] => rfl
  | (k, v) :: r => by simp only [List.foldr_cons, hfr, flat, foldr_flat fr hfr r]

theorem canon_map (kvs : Vals) : canon (.map kvs) = mkMap (insAll (pairsOf (canonVals kvs).toList) []) := by
  simp only [canon]
  rw [foldl_insAll _ (fun _ _ _ => rfl)]
  generalize insAll (pairsOf (canonVals kvs).toList) [] = ps
  cases ps with
  | nil => rfl
  | cons p ps => simp only [mkMap]; rw [foldr_flat _ (fun _ _ _ => rfl)]

def onSnd (f : Val → Val) (p : Val × Val) : Val × Val := (p.1, f p.2)

theorem pairsOf_mapVals2 (f : Val → Val) : ∀ vs : Vals,
    pairsOf (mapVals2 f vs).toList = (pairsOf vs.toList).map (onSnd f)
  | .nil => rfl
  | .cons k .nil => rfl
  | .cons k (.cons v r) => by
    simp only [mapVals2, Vals.toList, pairsOf, List.map_cons, onSnd, pairsOf_mapVals2 f r]

theorem insertSorted_onSnd (f : Val → Val) (k v : Val) : ∀ acc : List (Val × Val),
    insertSorted k (f v) (acc.map (onSnd f)) = (insertSorted k v acc).map (onSnd f)
  | [] => rfl
  | (k0, v0) :: rest => by
    simp only [List.map_cons, onSnd, insertSorted]
    split
    · simp only [List.map_cons, onSnd]
    · simp only [List.map_cons, onSnd]
      rw [← insertSorted_onSnd f k v rest]

theorem insAll_onSnd (f : Val → Val) : ∀ ps acc : List (Val × Val),
    insAll (ps.map (onSnd f)) (acc.map (onSnd f)) = (insAll ps acc).map (onSnd f)
  | [], acc => rfl
  | (k, v) :: r, acc => by
    simp only [List.map_cons, onSnd, insAll]
    rw [insertSorted_onSnd f k v acc, insAll_onSnd f r]

theorem flat_onSnd (f : Val → Val) : ∀ ps : List (Val × Val),
    Vals.ofList (flat (ps.map (onSnd f))) = mapVals2 f (Vals.ofList (flat ps))
  | [] => rfl
  | (k, v) :: r => by
    simp only [List.map_cons, onSnd, flat, Vals.ofList, mapVals2, flat_onSnd f r]

theorem mkMap_onSnd (k w : Ty) (ps : List (Val × Val)) :
    mkMap (ps.map (onSnd (lift w))) = lift (.map k w) (mkMap ps) := by
  cases ps with
  | nil => simp only [List.map_nil, mkMap, lift]
  | cons p ps =>
    simp only [List.map_cons, mkMap, lift]
    rw [← List.map_cons, flat_onSnd]

theorem canon_map_lift (k w : Ty) (h : ∀ v, canon (lift w v) = lift w (canon v)) (kvs : Vals) :
    canon (.map (mapVals2 (lift w) kvs)) = lift (.map k w) (canon (.map kvs)) := by
  rw [canon_map, canon_map, canonVals_mapVals2 _ h, pairsOf_mapVals2, ← mkMap_onSnd]
  rw [← insAll_onSnd]; rfl

theorem canon_list_lift (t : Ty) (h : ∀ v, canon (liftS t v) = liftS t (canon v)) (vs : Vals) :
    canon (.list (mapVals (liftS t) vs)) = lift (.slice t) (canon (.list vs)) := by
  simp only [canon, canonVals_mapVals _ h]
  cases canonVals vs with
  | nil => simp only [mapVals, lift]
  | cons v r => simp only [mapVals, lift]

/-- `canon` keeps the head constructor, except that lists and maps may become nil -/
theorem canon_list_cases (vs : Vals) : canon (.list vs) = .nil ∨ ∃ l, canon (.list vs) = .list l := by
  simp only [canon]
  cases canonVals vs with
  | nil => exact .inl rfl
  | cons v r => exact .inr ⟨_, rfl⟩

theorem canon_map_cases (vs : Vals) : canon (.map vs) = .nil ∨ ∃ l, canon (.map vs) = .map l := by
  rw [canon_map]
  cases insAll (pairsOf (canonVals vs).toList) [] with
  | nil => exact .inl rfl
  | cons v r => exact .inr ⟨_, rfl⟩

mutual
theorem canon_lift_both : ∀ (t : Ty),
    (∀ y : Val, canon (lift t y) = lift t (canon y)) ∧ (∀ y : Val, canon (liftS t y) = liftS t (canon y))
  | .ptr t => by
    obtain ⟨_, ih⟩ := canon_lift_both t
    refine ⟨fun y => ?_, fun y => by simp only [liftS, canon, ih]⟩
    cases y with
    | ptr v => simp only [lift, canon, ih]
    | list vs =>
      simp only [lift]
      rcases canon_list_cases vs with e | ⟨l, e⟩ <;> simp only [e, lift]
    | map vs =>
      simp only [lift]
      rcases canon_map_cases vs with e | ⟨l, e⟩ <;> simp only [e, lift]
    | _ => simp only [lift, canon]
  | .slice t => by
    obtain ⟨_, ih⟩ := canon_lift_both t
    refine both_of_nonptr (t := .slice t) rfl (P := fun f _ => ∀ y : Val, canon (f y) = f (canon y)) fun y => ?_
    cases y with
    | list vs => simp only [lift]; exact canon_list_lift t ih vs
    | map vs =>
      simp only [lift]
      rcases canon_map_cases vs with e | ⟨l, e⟩ <;> simp only [e, lift]
    | _ => simp only [lift, canon]
  | .map k w => by
    obtain ⟨ih, _⟩ := canon_lift_both w
    refine both_of_nonptr (t := .map k w) rfl (P := fun f _ => ∀ y : Val, canon (f y) = f (canon y)) fun y => ?_
    cases y with
    | map vs => simp only [lift]; exact canon_map_lift k w ih vs
    | list vs =>
      simp only [lift]
      rcases canon_list_cases vs with e | ⟨l, e⟩ <;> simp only [e, lift]
    | _ => simp only [lift, canon]
  | .struct fs => by
    refine both_of_nonptr (t := .struct fs) rfl (P := fun f _ => ∀ y : Val, canon (f y) = f (canon y)) fun y => ?_
    cases y with
    | struct vs => simp only [lift, canon, canonVals_liftFields fs vs]
    | list vs =>
      simp only [lift]
      rcases canon_list_cases vs with e | ⟨l, e⟩ <;> simp only [e, lift]
    | map vs =>
      simp only [lift]
      rcases canon_map_cases vs with e | ⟨l, e⟩ <;> simp only [e, lift]
    | _ => simp only [lift, canon]
  | .bool => both_of_nonptr (t := .bool) rfl (P := fun f _ => ∀ y : Val, canon (f y) = f (canon y)) fun y => by simp only [lift]
  | .int _ => both_of_nonptr (t := .int _) rfl (P := fun f _ => ∀ y : Val, canon (f y) = f (canon y)) fun y => by simp only [lift]
  | .f32 => both_of_nonptr (t := .f32) rfl (P := fun f _ => ∀ y : Val, canon (f y) = f (canon y)) fun y => by simp only [lift]
  | .f64 => both_of_nonptr (t := .f64) rfl (P := fun f _ => ∀ y : Val, canon (f y) = f (canon y)) fun y => by simp only [lift]
  | .str => both_of_nonptr (t := .str) rfl (P := fun f _ => ∀ y : Val, canon (f y) = f (canon y)) fun y => by simp only [lift]
  | .bytes => both_of_nonptr (t := .bytes) rfl (P := fun f _ => ∀ y : Val, canon (f y) = f (canon y)) fun y => by simp only [lift]
  | .any => both_of_nonptr (t := .any) rfl (P := fun f _ => ∀ y : Val, canon (f y) = f (canon y)) fun y => by simp only [lift]
  | .arr _ _ => both_of_nonptr (t := .arr _ _) rfl (P := fun f _ => ∀ y : Val, canon (f y) = f (canon y)) fun y => by simp only [lift]
  | .named _ _ => both_of_nonptr (t := .named _ _) rfl (P := fun f _ => ∀ y : Val, canon (f y) = f (canon y)) fun y => by simp only [lift]
theorem canonVals_liftFields : ∀ (fs : Fields) (ys : Vals), canonVals (liftFields fs ys) = liftFields fs (canonVals ys)
  | .nil, ys => by simp only [liftFields]
  | .cons _ _ _ t rest, .nil => by simp only [liftFields, canonVals]
  | .cons _ _ _ t rest, .cons y ys => by
    simp only [liftFields, canonVals, (canon_lift_both t).1 y, canonVals_liftFields rest ys]
end

/-- **`canon` commutes with `lift`**, on every value -/
theorem canon_lift (t : Ty) (y : Val) : canon (lift t y) = lift t (canon y) := (canon_lift_both t).1 y
theorem canon_liftS (t : Ty) (y : Val) : canon (liftS t y) = liftS t (canon y) := (canon_lift_both t).2 y

/-! ## `canonTy` commutes with `lift` (on `ptrSafe` types) -/

theorem strip_nonptr (t : Ty) (h : isPtr t = false) : strip t = t := by
  cases t <;> simp only [strip]
  simp [isPtr] at h

theorem reduceS_eq : ∀ t : Ty, reduceS t = reduce (strip t)
  | .ptr t => by simp only [reduceS, strip]; exact reduceS_eq t
  | .slice t => by rw [strip_nonptr _ rfl, reduceS_nonptr _ rfl]
  | .map k v => by rw [strip_nonptr _ rfl, reduceS_nonptr _ rfl]
  | .struct fs => by rw [strip_nonptr _ rfl, reduceS_nonptr _ rfl]
  | .bool => rfl | .int _ => rfl | .f32 => rfl | .f64 => rfl | .str => rfl | .bytes => rfl | .any => rfl
  | .arr _ _ => by rw [strip_nonptr _ rfl, reduceS_nonptr _ rfl]
  | .named _ _ => by rw [strip_nonptr _ rfl, reduceS_nonptr _ rfl]

theorem isU8_reduce (t : Ty) : isU8 (reduce t) = isU8 t := by
  cases t <;> simp only [reduce, isU8]

theorem isU8_of_strip (t : Ty) (h : isU8 (strip t) = false) : isU8 t = false := by
  cases t <;> first | rfl | exact h

theorem isU8_reduceS (t : Ty) (h : isU8 (strip t) = false) : isU8 (reduceS t) = false := by
  rw [reduceS_eq, isU8_reduce]; exact h

theorem canonTy_slice_str (t : Ty) (h : isU8 t = false) (s : Bytes) : canonTy (.slice t) (.str s) = .str s := by
  cases s with
  | cons c cs => cases t <;> simp [canonTy]
  | nil =>
    cases t with
    | int k => cases k <;> simp [isU8] at h <;> simp [canonTy]
    | _ => simp [canonTy]

theorem canonTy_slice_other (t : Ty) (x : Val) (hl : ∀ l, x ≠ .list l) (hs : ∀ s, x ≠ .str s) :
    canonTy (.slice t) x = x := by
  cases x with
  | list l => exact absurd rfl (hl l)
  | str s => exact absurd rfl (hs s)
  | _ => cases t <;> simp [canonTy]

theorem canonTyList_mapVals (t t' : Ty) (f : Val → Val) (h : ∀ x, canonTy t (f x) = f (canonTy t' x)) :
    ∀ vs : Vals, canonTyList t (mapVals f vs) = mapVals f (canonTyList t' vs)
  | .nil => by simp only [mapVals, canonTyList]
  | .cons v r => by simp only [mapVals, canonTyList, h v, canonTyList_mapVals t t' f h r]

theorem canonTyMap_mapVals2 (k t t' : Ty) (f : Val → Val) (h : ∀ x, canonTy t (f x) = f (canonTy t' x)) :
    ∀ vs : Vals, canonTyMap k t (mapVals2 f vs) = mapVals2 f (canonTyMap k t' vs)
  | .nil => by simp only [mapVals2, canonTyMap]
  | .cons a .nil => by simp only [mapVals2, canonTyMap]
  | .cons a (.cons b r) => by simp only [mapVals2, canonTyMap, h b, canonTyMap_mapVals2 k t t' f h r]

mutual
theorem canonTy_lift_both : ∀ (t : Ty), ptrSafe t = true →
    (∀ x : Val, canonTy t (lift t x) = lift t (canonTy (reduce t) x)) ∧
    (∀ x : Val, canonTy t (liftS t x) = liftS t (canonTy (reduceS t) x))
  | .ptr t, h => by
    simp only [ptrSafe, Bool.and_eq_true] at h
    obtain ⟨_, ih⟩ := canonTy_lift_both t h.2
    refine ⟨fun x => ?_, fun x => by simp only [liftS, reduceS, canonTy, ih]⟩
    cases x <;> simp only [lift, reduce, canonTy, ih]
  | .slice t, h => by
    simp only [ptrSafe, Bool.and_eq_true, Bool.not_eq_true'] at h
    obtain ⟨_, ih⟩ := canonTy_lift_both t h.2
    refine both_of_nonptr (t := .slice t) rfl
      (P := fun f r => ∀ x : Val, canonTy (.slice t) (f x) = f (canonTy r x)) fun x => ?_
    cases x with
    | list vs => simp only [lift, reduce, canonTy, canonTyList_mapVals t (reduceS t) _ ih]
    | str s =>
      simp only [lift, reduce]
      rw [canonTy_slice_str _ (isU8_of_strip t h.1.2), canonTy_slice_str _ (isU8_reduceS t h.1.2)]
      simp only [lift]
    | _ =>
      simp only [lift, reduce]
      rw [canonTy_slice_other _ _ (fun _ e => by cases e) (fun _ e => by cases e),
        canonTy_slice_other _ _ (fun _ e => by cases e) (fun _ e => by cases e)]
      simp only [lift]
  | .map k w, h => by
    simp only [ptrSafe, Bool.and_eq_true] at h
    obtain ⟨ih, _⟩ := canonTy_lift_both w h.2
    refine both_of_nonptr (t := .map k w) rfl
      (P := fun f r => ∀ x : Val, canonTy (.map k w) (f x) = f (canonTy r x)) fun x => ?_
    cases x with
    | map vs => simp only [lift, reduce, canonTy, canonTyMap_mapVals2 k w (reduce w) _ ih]
    | _ => simp only [lift, reduce, canonTy]
  | .struct fs, h => by
    simp only [ptrSafe] at h
    refine both_of_nonptr (t := .struct fs) rfl
      (P := fun f r => ∀ x : Val, canonTy (.struct fs) (f x) = f (canonTy r x)) fun x => ?_
    cases x with
    | struct vs => simp only [lift, reduce, canonTy, canonTyFields_lift fs h vs]
    | _ => simp only [lift, reduce, canonTy]
  | .bool, _ => both_of_nonptr (t := .bool) rfl (P := fun f r => ∀ x : Val, canonTy .bool (f x) = f (canonTy r x))
      fun x => by simp only [lift, reduce]
  | .int k, _ => both_of_nonptr (t := .int k) rfl (P := fun f r => ∀ x : Val, canonTy (.int k) (f x) = f (canonTy r x))
      fun x => by simp only [lift, reduce]
  | .f32, _ => both_of_nonptr (t := .f32) rfl (P := fun f r => ∀ x : Val, canonTy .f32 (f x) = f (canonTy r x))
      fun x => by simp only [lift, reduce]
  | .f64, _ => both_of_nonptr (t := .f64) rfl (P := fun f r => ∀ x : Val, canonTy .f64 (f x) = f (canonTy r x))
      fun x => by simp only [lift, reduce]
  | .str, _ => both_of_nonptr (t := .str) rfl (P := fun f r => ∀ x : Val, canonTy .str (f x) = f (canonTy r x))
      fun x => by simp only [lift, reduce]
  | .bytes, _ => both_of_nonptr (t := .bytes) rfl (P := fun f r => ∀ x : Val, canonTy .bytes (f x) = f (canonTy r x))
      fun x => by simp only [lift, reduce]
  | .any, _ => both_of_nonptr (t := .any) rfl (P := fun f r => ∀ x : Val, canonTy .any (f x) = f (canonTy r x))
      fun x => by simp only [lift, reduce]
  | .arr n t, _ => both_of_nonptr (t := .arr n t) rfl
      (P := fun f r => ∀ x : Val, canonTy (.arr n t) (f x) = f (canonTy r x)) fun x => by simp only [lift, reduce]
  | .named _ _, h => by simp [ptrSafe] at h
theorem canonTyFields_lift : ∀ (fs : Fields), ptrSafeFields fs = true → ∀ (vs : Vals),
    canonTyFields fs (liftFields fs vs) = liftFields fs (canonTyFields (reduceFields fs) vs)
  | .nil, _, vs => by cases vs <;> simp only [liftFields, reduceFields, canonTyFields]
  | .cons _ _ _ t rest, _, .nil => by simp only [liftFields, reduceFields, canonTyFields]
  | .cons _ _ _ t rest, h, .cons v vs => by
    simp only [ptrSafeFields, Bool.and_eq_true] at h
    simp only [liftFields, reduceFields, canonTyFields, (canonTy_lift_both t h.1).1 v, canonTyFields_lift rest h.2 vs]
end

theorem canonTy_lift (t : Ty) (h : ptrSafe t = true) (x : Val) : canonTy t (lift t x) = lift t (canonTy (reduce t) x) :=
  (canonTy_lift_both t h).1 x
theorem canonTy_liftS (t : Ty) (h : ptrSafe t = true) (x : Val) :
    canonTy t (liftS t x) = liftS t (canonTy (reduceS t) x) :=
  (canonTy_lift_both t h).2 x

/-- **the comparison form commutes with `lift`** -/
theorem canonical_lift (t : Ty) (h : ptrSafe t = true) (x : Val) :
    canonical t (lift t x) = lift t (canonical (reduce t) x) := by
  simp only [canonical, canonTy_lift t h x, canon_lift]

theorem canonical_liftS (t : Ty) (h : ptrSafe t = true) (x : Val) :
    canonical t (liftS t x) = liftS t (canonical (reduceS t) x) := by
  simp only [canonical, canonTy_liftS t h x, canon_liftS]

/-! ## the skeleton relation does not see `lift` -/

open Enc.Lemmas.ProtoLiberalMap (sh shs)

mutual
theorem sh_lift_both : ∀ (t : Ty),
    (∀ y y' : Val, sh (lift t y) (lift t y') = sh y y') ∧ (∀ y y' : Val, sh (liftS t y) (liftS t y') = sh y y')
  | .ptr t => by
    obtain ⟨_, ih⟩ := sh_lift_both t
    refine ⟨fun y y' => ?_, fun y y' => by simp only [liftS, sh, ih]⟩
    cases y <;> cases y' <;> simp only [lift, sh, ih]
  | .slice t => by
    refine both_of_nonptr (t := .slice t) rfl (P := fun f _ => ∀ y y' : Val, sh (f y) (f y') = sh y y') fun y y' => ?_
    cases y <;> cases y' <;> simp only [lift, sh]
  | .map k w => by
    refine both_of_nonptr (t := .map k w) rfl (P := fun f _ => ∀ y y' : Val, sh (f y) (f y') = sh y y') fun y y' => ?_
    cases y <;> cases y' <;> simp only [lift, sh]
  | .struct fs => by
    refine both_of_nonptr (t := .struct fs) rfl (P := fun f _ => ∀ y y' : Val, sh (f y) (f y') = sh y y') fun y y' => ?_
    cases y <;> cases y' <;> simp only [lift, sh, shs_liftFields fs]
  | .bool => both_of_nonptr (t := .bool) rfl (P := fun f _ => ∀ y y' : Val, sh (f y) (f y') = sh y y')
      fun y y' => by simp only [lift]
  | .int _ => both_of_nonptr (t := .int _) rfl (P := fun f _ => ∀ y y' : Val, sh (f y) (f y') = sh y y')
      fun y y' => by simp only [lift]
  | .f32 => both_of_nonptr (t := .f32) rfl (P := fun f _ => ∀ y y' : Val, sh (f y) (f y') = sh y y')
      fun y y' => by simp only [lift]
  | .f64 => both_of_nonptr (t := .f64) rfl (P := fun f _ => ∀ y y' : Val, sh (f y) (f y') = sh y y')
      fun y y' => by simp only [lift]
  | .str => both_of_nonptr (t := .str) rfl (P := fun f _ => ∀ y y' : Val, sh (f y) (f y') = sh y y')
      fun y y' => by simp only [lift]
  | .bytes => both_of_nonptr (t := .bytes) rfl (P := fun f _ => ∀ y y' : Val, sh (f y) (f y') = sh y y')
      fun y y' => by simp only [lift]
  | .any => both_of_nonptr (t := .any) rfl (P := fun f _ => ∀ y y' : Val, sh (f y) (f y') = sh y y')
      fun y y' => by simp only [lift]
  | .arr _ _ => both_of_nonptr (t := .arr _ _) rfl (P := fun f _ => ∀ y y' : Val, sh (f y) (f y') = sh y y')
      fun y y' => by simp only [lift]
  | .named _ _ => both_of_nonptr (t := .named _ _) rfl (P := fun f _ => ∀ y y' : Val, sh (f y) (f y') = sh y y')
      fun y y' => by simp only [lift]
theorem shs_liftFields : ∀ (fs : Fields) (ys ys' : Vals), shs (liftFields fs ys) (liftFields fs ys') = shs ys ys'
  | .nil, ys, ys' => by simp only [liftFields]
  | .cons _ _ _ t rest, .nil, .nil => by simp only [liftFields]
  | .cons _ _ _ t rest, .nil, .cons y' ys' => by simp only [liftFields, shs]
  | .cons _ _ _ t rest, .cons y ys, .nil => by simp only [liftFields, shs]
  | .cons _ _ _ t rest, .cons y ys, .cons y' ys' => by
    simp only [liftFields, shs, (sh_lift_both t).1 y y', shs_liftFields rest ys ys']
end

/-- **same skeleton before and after `lift`** -/
theorem sh_lift (t : Ty) (y y' : Val) :
    Enc.Lemmas.ProtoLiberalMap.sh (lift t y) (lift t y') = Enc.Lemmas.ProtoLiberalMap.sh y y' := (sh_lift_both t).1 y y'
theorem sh_liftS (t : Ty) (y y' : Val) :
    Enc.Lemmas.ProtoLiberalMap.sh (liftS t y) (liftS t y') = Enc.Lemmas.ProtoLiberalMap.sh y y' :=
  (sh_lift_both t).2 y y'

/-! ## the reference decoder: unfolding `decodeRecs` -/

def listOf : Val → List Val
  | .list l => l.toList
  | _ => []

def mapOf : Val → Vals
  | .map kvs => kvs
  | _ => .nil

theorem decodeRecs_unknown (f : Nat) (fs : Fields) (num : Nat) (w : WireVal) (rest : List (Nat × WireVal)) (vs : Vals)
    (hf : findField fs num = none) :
    decodeRecs (f + 1) fs ((num, w) :: rest) vs = decodeRecs f fs rest vs := by
  simp only [decodeRecs, hf]

theorem decodeRecs_rep (f : Nat) (fs : Fields) (num : Nat) (w : WireVal) (rest : List (Nat × WireVal)) (vs : Vals)
    (i : Nat) (o : FieldOpt) (t et : Ty) (hf : findField fs num = some (i, o, t)) (hr : isRepeated t = some et) :
    decodeRecs (f + 1) fs ((num, w) :: rest) vs
      = (decodeOne f (deref et) o w (zeroOf (deref et))).bind fun e =>
          decodeRecs f fs rest (valsSet vs i (.list (Vals.ofList (listOf (valsGet vs i) ++ [wrapPtr et e])))) := by
  simp only [decodeRecs, hf, hr]
  cases valsGet vs i <;> rfl

theorem decodeRecs_map (f : Nat) (fs : Fields) (num : Nat) (eb : Bytes) (rest : List (Nat × WireVal)) (vs : Vals)
    (i : Nat) (o : FieldOpt) (t kt vt : Ty) (hf : findField fs num = some (i, o, t)) (hr : isRepeated t = none)
    (hu : unname t = .map kt vt) :
    decodeRecs (f + 1) fs ((num, .len eb) :: rest) vs
      = (decodeMsg f (Fields.cons "Key" "" false kt (.cons "Elem" "" false vt .nil)) eb
            (zeroFields (Fields.cons "Key" "" false kt (.cons "Elem" "" false vt .nil)))).bind fun evs =>
          decodeRecs f fs rest (valsSet vs i (.map (mapPut (mapOf (valsGet vs i)) (valsGet evs 0) (valsGet evs 1)))) := by
  simp only [decodeRecs, hf, hr, hu]
  cases valsGet vs i <;> rfl

theorem decodeRecs_map_bad (f : Nat) (fs : Fields) (num : Nat) (w : WireVal) (rest : List (Nat × WireVal)) (vs : Vals)
    (i : Nat) (o : FieldOpt) (t kt vt : Ty) (hf : findField fs num = some (i, o, t)) (hr : isRepeated t = none)
    (hu : unname t = .map kt vt) (hw : ∀ eb, w ≠ .len eb) :
    decodeRecs (f + 1) fs ((num, w) :: rest) vs = none := by
  cases w with
  | len eb => exact absurd rfl (hw eb)
  | _ => simp only [decodeRecs, hf, hr, hu]

theorem decodeRecs_single (f : Nat) (fs : Fields) (num : Nat) (w : WireVal) (rest : List (Nat × WireVal)) (vs : Vals)
    (i : Nat) (o : FieldOpt) (t : Ty) (hf : findField fs num = some (i, o, t)) (hr : isRepeated t = none)
    (hu : ∀ kt vt, unname t ≠ .map kt vt) :
    decodeRecs (f + 1) fs ((num, w) :: rest) vs
      = (decodeOne f (deref t) o w (unwrapPtr t (valsGet vs i))).bind fun v =>
          decodeRecs f fs rest (valsSet vs i (wrapPtr t v)) := by
  simp only [decodeRecs, hf, hr]
  generalize unname t = u at hu
  cases u with
  | map kt vt => exact absurd rfl (hu kt vt)
  | _ => cases w <;> rfl

/-! ## plumbing: pointers -/

/-- neither a pointer nor a defined type at the head -/
def plain : Ty → Bool
  | .ptr _ => false
  | .named _ _ => false
  | _ => true

theorem plain_isPtr {u : Ty} (h : plain u = true) : isPtr u = false := by
  cases u <;> first | rfl | (simp [plain] at h; done)

theorem plain_reduce {u : Ty} (h : plain u = true) : plain (reduce u) = true := by
  cases u <;> first | (simp [plain] at h; done) | simp only [reduce, plain]

theorem deref_plain {u : Ty} (h : plain u = true) : deref u = u := by
  cases u <;> first | (simp [plain] at h; done) | simp only [deref]

theorem unname_plain {u : Ty} (h : plain u = true) : unname u = u := by
  cases u <;> first | (simp [plain] at h; done) | simp only [unname]

theorem wrapPtr_plain {u : Ty} (h : plain u = true) (v : Val) : wrapPtr u v = v := by
  cases u <;> first | (simp [plain] at h; done) | simp only [wrapPtr]

theorem unwrapPtr_plain {u : Ty} (h : plain u = true) (v : Val) : unwrapPtr u v = v := by
  cases u <;> first | (simp [plain] at h; done) | simp only [unwrapPtr]

theorem ptrSafe_ptr {t : Ty} (h : ptrSafe (.ptr t) = true) : notSM (strip t) = true ∧ ptrSafe t = true := by
  simpa only [ptrSafe, Bool.and_eq_true] using h

theorem plain_of_safe {u : Ty} (h : ptrSafe u = true) (hp : isPtr u = false) : plain u = true := by
  cases u <;> first | rfl | (simp [ptrSafe] at h; done) | (simp [isPtr] at hp; done)

/-- what is below the head pointers: a plain type, still safe; it is what `deref` returns -/
theorem strip_safe : ∀ t : Ty, ptrSafe t = true →
    ptrSafe (strip t) = true ∧ plain (strip t) = true ∧ deref t = strip t
  | .ptr t, h => by
    simp only [strip, deref]; exact strip_safe t (ptrSafe_ptr h).2
  | .named _ _, h => by simp [ptrSafe] at h
  | .slice t, h => ⟨h, rfl, by simp only [deref, strip]⟩
  | .map k v, h => ⟨h, rfl, by simp only [deref, strip]⟩
  | .struct fs, h => ⟨h, rfl, by simp only [deref, strip]⟩
  | .arr n t, h => ⟨h, rfl, by simp only [deref, strip]⟩
  | .bool, h => ⟨h, rfl, rfl⟩ | .int _, h => ⟨h, rfl, rfl⟩ | .f32, h => ⟨h, rfl, rfl⟩ | .f64, h => ⟨h, rfl, rfl⟩
  | .str, h => ⟨h, rfl, rfl⟩ | .bytes, h => ⟨h, rfl, rfl⟩ | .any, h => ⟨h, rfl, rfl⟩

mutual
theorem zeroOf_lift : ∀ t : Ty, zeroOf t = lift t (zeroOf (reduce t))
  | .ptr t => by simp only [reduce, zeroOf, lift]
  | .slice t => by simp only [reduce, zeroOf, lift]
  | .map k v => by simp only [reduce, zeroOf, lift]
  | .struct fs => by simp only [reduce, zeroOf, lift]; rw [← zeroFields_lift fs]
  | .bool => by simp only [reduce, lift]
  | .int _ => by simp only [reduce, lift]
  | .f32 => by simp only [reduce, lift]
  | .f64 => by simp only [reduce, lift]
  | .str => by simp only [reduce, lift]
  | .bytes => by simp only [reduce, lift]
  | .any => by simp only [reduce, lift]
  | .arr _ _ => by simp only [reduce, lift]
  | .named _ _ => by simp only [reduce, lift]
theorem zeroFields_lift : ∀ fs : Fields, zeroFields fs = liftFields fs (zeroFields (reduceFields fs))
  | .nil => by simp only [reduceFields, zeroFields, liftFields]
  | .cons _ _ _ t rest => by
    simp only [reduceFields, zeroFields, liftFields]
    rw [← zeroOf_lift t, ← zeroFields_lift rest]
end

/-- an element is wrapped in the pointers of its type: that is `liftS` -/
theorem wrapPtr_liftS : ∀ t : Ty, ptrSafe t = true → ∀ e : Val, wrapPtr t (lift (strip t) e) = liftS t e
  | .ptr t, h, e => by
    simp only [wrapPtr, strip, liftS, wrapPtr_liftS t (ptrSafe_ptr h).2 e]
  | .named _ _, h, _ => by simp [ptrSafe] at h
  | .slice t, _, e => by rw [wrapPtr_plain rfl, strip_nonptr _ rfl, liftS_nonptr _ rfl]
  | .map k v, _, e => by rw [wrapPtr_plain rfl, strip_nonptr _ rfl, liftS_nonptr _ rfl]
  | .struct fs, _, e => by rw [wrapPtr_plain rfl, strip_nonptr _ rfl, liftS_nonptr _ rfl]
  | .arr n t, _, e => by rw [wrapPtr_plain rfl, strip_nonptr _ rfl, liftS_nonptr _ rfl]
  | .bool, _, e => by rw [wrapPtr_plain rfl, strip_nonptr _ rfl, liftS_nonptr _ rfl]
  | .int _, _, e => by rw [wrapPtr_plain rfl, strip_nonptr _ rfl, liftS_nonptr _ rfl]
  | .f32, _, e => by rw [wrapPtr_plain rfl, strip_nonptr _ rfl, liftS_nonptr _ rfl]
  | .f64, _, e => by rw [wrapPtr_plain rfl, strip_nonptr _ rfl, liftS_nonptr _ rfl]
  | .str, _, e => by rw [wrapPtr_plain rfl, strip_nonptr _ rfl, liftS_nonptr _ rfl]
  | .bytes, _, e => by rw [wrapPtr_plain rfl, strip_nonptr _ rfl, liftS_nonptr _ rfl]
  | .any, _, e => by rw [wrapPtr_plain rfl, strip_nonptr _ rfl, liftS_nonptr _ rfl]

theorem unwrapPtr_liftS : ∀ t : Ty, ptrSafe t = true → ∀ v : Val, unwrapPtr t (liftS t v) = lift (strip t) v
  | .ptr t, h, v => by
    simp only [liftS, unwrapPtr, strip, unwrapPtr_liftS t (ptrSafe_ptr h).2 v]
  | .named _ _, h, _ => by simp [ptrSafe] at h
  | .slice t, _, e => by rw [unwrapPtr_plain rfl, strip_nonptr _ rfl, liftS_nonptr _ rfl]
  | .map k v, _, e => by rw [unwrapPtr_plain rfl, strip_nonptr _ rfl, liftS_nonptr _ rfl]
  | .struct fs, _, e => by rw [unwrapPtr_plain rfl, strip_nonptr _ rfl, liftS_nonptr _ rfl]
  | .arr n t, _, e => by rw [unwrapPtr_plain rfl, strip_nonptr _ rfl, liftS_nonptr _ rfl]
  | .bool, _, e => by rw [unwrapPtr_plain rfl, strip_nonptr _ rfl, liftS_nonptr _ rfl]
  | .int _, _, e => by rw [unwrapPtr_plain rfl, strip_nonptr _ rfl, liftS_nonptr _ rfl]
  | .f32, _, e => by rw [unwrapPtr_plain rfl, strip_nonptr _ rfl, liftS_nonptr _ rfl]
  | .f64, _, e => by rw [unwrapPtr_plain rfl, strip_nonptr _ rfl, liftS_nonptr _ rfl]
  | .str, _, e => by rw [unwrapPtr_plain rfl, strip_nonptr _ rfl, liftS_nonptr _ rfl]
  | .bytes, _, e => by rw [unwrapPtr_plain rfl, strip_nonptr _ rfl, liftS_nonptr _ rfl]
  | .any, _, e => by rw [unwrapPtr_plain rfl, strip_nonptr _ rfl, liftS_nonptr _ rfl]

/-- a singular field: the decoded pointee goes behind the pointers of the field type -/
theorem wrapPtr_lift (t : Ty) (h : ptrSafe t = true) (v : Val) :
    wrapPtr t (lift (strip t) v) = lift t (wrapPtr (reduce t) v) := by
  by_cases hp : isPtr t = true
  · cases t <;> simp only [isPtr] at hp <;> try (exact absurd hp (by decide))
    rename_i t0
    obtain ⟨_, hpl, _⟩ := strip_safe t0 (ptrSafe_ptr h).2
    simp only [wrapPtr, strip, reduce, reduceS_eq t0, wrapPtr_plain (plain_reduce hpl), lift,
      wrapPtr_liftS t0 (ptrSafe_ptr h).2 v]
  · have hp' : isPtr t = false := by simpa using hp
    have hpl := plain_of_safe h hp'
    rw [wrapPtr_plain hpl, wrapPtr_plain (plain_reduce hpl), strip_nonptr _ hp']

/-- … and the current pointee is found behind them -/
theorem unwrapPtr_lift (t : Ty) (h : ptrSafe t = true) (x : Val) :
    unwrapPtr t (lift t x) = lift (strip t) (unwrapPtr (reduce t) x) := by
  by_cases hp : isPtr t = true
  · cases t <;> simp only [isPtr] at hp <;> try (exact absurd hp (by decide))
    rename_i t0
    obtain ⟨_, hpl, hd⟩ := strip_safe t0 (ptrSafe_ptr h).2
    cases x <;> simp only [lift, unwrapPtr, strip, reduce, reduceS_eq t0, unwrapPtr_plain (plain_reduce hpl),
      unwrapPtr_liftS t0 (ptrSafe_ptr h).2, hd, deref_plain (plain_reduce hpl), ← zeroOf_lift]
  · have hp' : isPtr t = false := by simpa using hp
    have hpl := plain_of_safe h hp'
    rw [unwrapPtr_plain hpl, unwrapPtr_plain (plain_reduce hpl), strip_nonptr _ hp']

/-! ## plumbing: fields, lists, maps -/

/-- type of the field at a position -/
def tyAt : Fields → Nat → Option Ty
  | .nil, _ => none
  | .cons _ _ _ t _, 0 => some t
  | .cons _ _ _ _ r, n + 1 => tyAt r n

theorem valsGet_liftFields : ∀ (fs : Fields) (m : Nat) (t : Ty), tyAt fs m = some t → ∀ vs : Vals,
    valsGet (liftFields fs vs) m = lift t (valsGet vs m)
  | .nil, m, t, h, vs => by simp [tyAt] at h
  | .cons _ _ _ t0 r, m, t, h, .nil => by simp only [liftFields, valsGet, lift_nil]
  | .cons _ _ _ t0 r, 0, t, h, .cons v vs => by
    simp only [tyAt, Option.some.injEq] at h; subst h; simp only [liftFields, valsGet]
  | .cons _ _ _ t0 r, m + 1, t, h, .cons v vs => by
    simp only [tyAt] at h; simp only [liftFields, valsGet]; exact valsGet_liftFields r m t h vs

theorem valsSet_liftFields : ∀ (fs : Fields) (m : Nat) (t : Ty), tyAt fs m = some t → ∀ (vs : Vals) (x : Val),
    valsSet (liftFields fs vs) m (lift t x) = liftFields fs (valsSet vs m x)
  | .nil, m, t, h, vs, x => by simp [tyAt] at h
  | .cons _ _ _ t0 r, m, t, h, .nil, x => by simp only [liftFields, valsSet]
  | .cons _ _ _ t0 r, 0, t, h, .cons v vs, x => by
    simp only [tyAt, Option.some.injEq] at h; subst h; simp only [liftFields, valsSet]
  | .cons _ _ _ t0 r, m + 1, t, h, .cons v vs, x => by
    simp only [tyAt] at h; simp only [liftFields, valsSet]; rw [valsSet_liftFields r m t h vs x]

theorem findField_go_reduce (num : Nat) : ∀ (fs : Fields) (i : Nat), ptrSafeFields fs = true →
    findField.go num (reduceFields fs) i = (findField.go num fs i).map (fun p => (p.1, p.2.1, reduce p.2.2))
      ∧ (∀ j o t, findField.go num fs i = some (j, o, t) → ptrSafe t = true ∧ ∃ m, j = i + m ∧ tyAt fs m = some t)
  | .nil, i, _ => ⟨rfl, fun j o t h => by simp [findField.go] at h⟩
  | .cons name tag emb t rest, i, h => by
    simp only [ptrSafeFields, Bool.and_eq_true] at h
    simp only [reduceFields, findField.go]
    by_cases hn : (fieldOpt (i + 1) tag).number = num
    · simp only [hn, if_true, Option.map_some]
      exact ⟨trivial, fun j o t' he => by cases he; exact ⟨h.1, 0, rfl, rfl⟩⟩
    · simp only [hn, if_false]
      obtain ⟨h1, h2⟩ := findField_go_reduce num rest (i + 1) h.2
      refine ⟨h1, fun j o t' he => ?_⟩
      obtain ⟨hs, m, hj, hm⟩ := h2 j o t' he
      exact ⟨hs, m + 1, by omega, by simpa only [tyAt] using hm⟩

theorem findField_reduce (num : Nat) (fs : Fields) (h : ptrSafeFields fs = true) :
    findField (reduceFields fs) num = (findField fs num).map (fun p => (p.1, p.2.1, reduce p.2.2))
      ∧ (∀ j o t, findField fs num = some (j, o, t) → ptrSafe t = true ∧ tyAt fs j = some t) := by
  obtain ⟨h1, h2⟩ := findField_go_reduce num fs 0 h
  refine ⟨h1, fun j o t he => ?_⟩
  obtain ⟨hs, m, hj, hm⟩ := h2 j o t he
  have : j = m := by omega
  subst this
  exact ⟨hs, hm⟩

theorem ofList_mapVals_append (f : Val → Val) (x : Val) : ∀ l : Vals,
    Vals.ofList ((mapVals f l).toList ++ [f x]) = mapVals f (Vals.ofList (l.toList ++ [x]))
  | .nil => rfl
  | .cons v r => by
    simp only [mapVals, Vals.toList, List.cons_append, Vals.ofList, ofList_mapVals_append f x r]

/-- one more element of a repeated field -/
theorem list_step (et : Ty) (x e : Val) :
    Val.list (Vals.ofList (listOf (lift (.slice et) x) ++ [liftS et e]))
      = lift (.slice et) (.list (Vals.ofList (listOf x ++ [e]))) := by
  cases x with
  | list l => simp only [lift, listOf, ofList_mapVals_append]
  | _ => simp only [lift, listOf, List.nil_append, Vals.ofList, mapVals]

theorem mapPut_mapVals2 (f : Val → Val) (k v : Val) : ∀ kvs : Vals,
    mapPut (mapVals2 f kvs) k (f v) = mapVals2 f (mapPut kvs k v)
  | .nil => by simp only [mapVals2, mapPut]
  | .cons k0 .nil => by simp only [mapVals2, mapPut]
  | .cons k0 (.cons v0 r) => by
    simp only [mapVals2, mapPut]
    split
    · simp only [mapVals2]
    · simp only [mapVals2, mapPut_mapVals2 f k v r]

/-- one more entry of a map field -/
theorem map_step (kt vt : Ty) (x k v : Val) :
    Val.map (mapPut (mapOf (lift (.map kt vt) x)) k (lift vt v)) = lift (.map kt vt) (.map (mapPut (mapOf x) k v)) := by
  cases x with
  | map kvs => simp only [lift, mapOf, mapPut_mapVals2]
  | _ => simp only [lift, mapOf, mapPut, mapVals2]

theorem keyScalar_reduce {k : Ty} (h : keyScalar k = true) : reduce k = k ∧ ptrSafe k = true ∧ lift k = id := by
  cases k <;> first | (simp [keyScalar] at h; done) | exact ⟨rfl, rfl, funext fun x => by simp only [lift, id]⟩

/-! ## the reference decoder -/

theorem deref_reduce (t : Ty) (h : ptrSafe t = true) : deref (reduce t) = reduce (strip t) := by
  by_cases hp : isPtr t = true
  · cases t <;> simp only [isPtr] at hp <;> try (exact absurd hp (by decide))
    rename_i t0
    obtain ⟨_, hpl, _⟩ := strip_safe t0 (ptrSafe_ptr h).2
    simp only [reduce, deref, strip, reduceS_eq t0, deref_plain (plain_reduce hpl)]
  · have hp' : isPtr t = false := by simpa using hp
    rw [deref_plain (plain_reduce (plain_of_safe h hp')), strip_nonptr _ hp']

theorem isRepeated_slice (e : Ty) (h : isU8 e = false) : isRepeated (.slice e) = some e := by
  cases e <;> simp [isRepeated, unname]
  rename_i k; cases k <;> simp [isU8] at h ⊢

theorem single_facts (t : Ty) (h : ptrSafe t = true) (hns : ∀ e, t ≠ .slice e) (hnm : ∀ k v, t ≠ .map k v) :
    isRepeated t = none ∧ isRepeated (reduce t) = none ∧ (∀ kt vt, unname t ≠ .map kt vt) ∧
      (∀ kt vt, unname (reduce t) ≠ .map kt vt) := by
  cases t with
  | slice e => exact absurd rfl (hns e)
  | map k v => exact absurd rfl (hnm k v)
  | named _ _ => simp [ptrSafe] at h
  | _ =>
    exact ⟨by simp [isRepeated, unname], by simp [isRepeated, unname, reduce],
      fun kt vt e => by simp [unname] at e, fun kt vt e => by simp [unname, reduce] at e⟩

theorem decodeOne_slice_none (f : Nat) (e : Ty) (o : FieldOpt) (w : WireVal) (cur : Val) (h : isU8 e = false) :
    decodeOne (f + 1) (.slice e) o w cur = none := by
  cases e <;> cases w <;> simp [decodeOne]
  all_goals (rename_i k _; cases k <;> simp [isU8] at h ⊢)

/-- no pointers, slices, maps, messages at the head: nothing to lift -/
def flatTy : Ty → Bool
  | .ptr _ | .slice _ | .map _ _ | .struct _ => false
  | _ => true

theorem lift_flat (u : Ty) (h : flatTy u = true) : lift u = id := by
  funext x
  cases u <;> first | (simp [flatTy] at h; done) | simp only [lift, id]

/-- the induction hypotheses -/
def IHO (f : Nat) : Prop := ∀ (u : Ty) (o : FieldOpt) (w : WireVal) (cur : Val), ptrSafe u = true → plain u = true →
  decodeOne f u o w (lift u cur) = (decodeOne f (reduce u) o w cur).map (lift u)
def IHM (f : Nat) : Prop := ∀ (fs : Fields) (b : Bytes) (vs : Vals), ptrSafeFields fs = true →
  decodeMsg f fs b (liftFields fs vs) = (decodeMsg f (reduceFields fs) b vs).map (liftFields fs)
def IHR (f : Nat) : Prop := ∀ (fs : Fields) (recs : List (Nat × WireVal)) (vs : Vals), ptrSafeFields fs = true →
  decodeRecs f fs recs (liftFields fs vs) = (decodeRecs f (reduceFields fs) recs vs).map (liftFields fs)

/-- one occurrence of a plain type -/
theorem decodeOne_step (f : Nat) (ihM : IHM f) : IHO (f + 1) := by
  intro u o w cur hs hp
  cases u with
  | ptr t => simp [plain] at hp
  | named _ _ => simp [plain] at hp
  | slice e =>
    simp only [ptrSafe, Bool.and_eq_true, Bool.not_eq_true'] at hs
    simp only [reduce]
    rw [decodeOne_slice_none _ _ _ _ _ (isU8_of_strip e hs.1.2), decodeOne_slice_none _ _ _ _ _ (isU8_reduceS e hs.1.2)]
    rfl
  | map k v => cases w <;> simp [reduce, decodeOne]
  | struct fs =>
    simp only [ptrSafe] at hs
    cases w with
    | len b =>
      cases cur with
      | struct vs =>
        simp only [lift, reduce, decodeOne, ihM fs b vs hs]
        cases decodeMsg f (reduceFields fs) b vs <;> simp [lift]
      | _ => simp [lift, reduce, decodeOne]
    | _ => simp [reduce, decodeOne]
  | _ =>
    rw [lift_flat _ rfl]
    simp [reduce]

/-- a singular, non-map field -/
theorem recs_single_step (f : Nat) (ihO : IHO f) (ihR : IHR f) (fs : Fields) (hs : ptrSafeFields fs = true)
    (num : Nat) (w : WireVal) (rest : List (Nat × WireVal)) (vs : Vals) (i : Nat) (o : FieldOpt) (t : Ty)
    (hf : findField fs num = some (i, o, t)) (hf' : findField (reduceFields fs) num = some (i, o, reduce t))
    (ht : ptrSafe t = true) (hty : tyAt fs i = some t) (hns : ∀ e, t ≠ .slice e) (hnm : ∀ k v, t ≠ .map k v) :
    decodeRecs (f + 1) fs ((num, w) :: rest) (liftFields fs vs)
      = (decodeRecs (f + 1) (reduceFields fs) ((num, w) :: rest) vs).map (liftFields fs) := by
  obtain ⟨hr, hr', hu, hu'⟩ := single_facts t ht hns hnm
  obtain ⟨hss, hsp, hd⟩ := strip_safe t ht
  rw [decodeRecs_single f fs num w rest _ i o t hf hr hu,
    decodeRecs_single f (reduceFields fs) num w rest _ i o (reduce t) hf' hr' hu',
    valsGet_liftFields fs i t hty, unwrapPtr_lift t ht, hd, ihO _ o w _ hss hsp, deref_reduce t ht]
  generalize decodeOne f (reduce (strip t)) o w (unwrapPtr (reduce t) (valsGet vs i)) = r
  cases r with
  | none => rfl
  | some v =>
    simp only [Option.map_some, Option.bind_some]
    rw [wrapPtr_lift t ht v, valsSet_liftFields fs i t hty, ihR fs _ _ hs]

/-- a repeated field -/
theorem recs_rep_step (f : Nat) (ihO : IHO f) (ihR : IHR f) (fs : Fields) (hs : ptrSafeFields fs = true)
    (num : Nat) (w : WireVal) (rest : List (Nat × WireVal)) (vs : Vals) (i : Nat) (o : FieldOpt) (et : Ty)
    (hf : findField fs num = some (i, o, .slice et))
    (hf' : findField (reduceFields fs) num = some (i, o, reduce (.slice et)))
    (ht : ptrSafe (.slice et) = true) (hty : tyAt fs i = some (.slice et)) :
    decodeRecs (f + 1) fs ((num, w) :: rest) (liftFields fs vs)
      = (decodeRecs (f + 1) (reduceFields fs) ((num, w) :: rest) vs).map (liftFields fs) := by
  simp only [ptrSafe, Bool.and_eq_true, Bool.not_eq_true'] at ht
  obtain ⟨⟨_, hu8⟩, het⟩ := ht
  obtain ⟨hss, hsp, hd⟩ := strip_safe et het
  simp only [reduce] at hf'
  rw [decodeRecs_rep f fs num w rest _ i o _ et hf (isRepeated_slice et (isU8_of_strip et hu8)),
    decodeRecs_rep f (reduceFields fs) num w rest _ i o _ (reduceS et) hf' (isRepeated_slice _ (isU8_reduceS et hu8)),
    valsGet_liftFields fs i _ hty, hd, zeroOf_lift (strip et), ihO _ o w _ hss hsp, reduceS_eq et,
    deref_plain (plain_reduce hsp)]
  generalize decodeOne f (reduce (strip et)) o w (zeroOf (reduce (strip et))) = r
  cases r with
  | none => rfl
  | some e =>
    simp only [Option.map_some, Option.bind_some]
    rw [wrapPtr_liftS et het e, wrapPtr_plain (plain_reduce hsp), list_step, valsSet_liftFields fs i _ hty,
      ihR fs _ _ hs]

/-- a map field -/
theorem recs_map_step (f : Nat) (ihM : IHM f) (ihR : IHR f) (fs : Fields) (hs : ptrSafeFields fs = true)
    (num : Nat) (w : WireVal) (rest : List (Nat × WireVal)) (vs : Vals) (i : Nat) (o : FieldOpt) (kt vt : Ty)
    (hf : findField fs num = some (i, o, .map kt vt))
    (hf' : findField (reduceFields fs) num = some (i, o, reduce (.map kt vt)))
    (ht : ptrSafe (.map kt vt) = true) (hty : tyAt fs i = some (.map kt vt)) :
    decodeRecs (f + 1) fs ((num, w) :: rest) (liftFields fs vs)
      = (decodeRecs (f + 1) (reduceFields fs) ((num, w) :: rest) vs).map (liftFields fs) := by
  simp only [ptrSafe, Bool.and_eq_true] at ht
  obtain ⟨⟨hk, _⟩, hvt⟩ := ht
  obtain ⟨hkr, hks, hkl⟩ := keyScalar_reduce hk
  simp only [reduce] at hf'
  have hr : isRepeated (.map kt vt) = none := by simp [isRepeated, unname]
  have hr' : isRepeated (.map kt (reduce vt)) = none := by simp [isRepeated, unname]
  have hu : unname (.map kt vt) = .map kt vt := by simp only [unname]
  have hu' : unname (.map kt (reduce vt)) = .map kt (reduce vt) := by simp only [unname]
  cases w with
  | len eb =>
    have he : Fields.cons "Key" "" false kt (.cons "Elem" "" false (reduce vt) .nil)
        = reduceFields (Fields.cons "Key" "" false kt (.cons "Elem" "" false vt .nil)) := by
      simp only [reduceFields, hkr]
    have hse : ptrSafeFields (Fields.cons "Key" "" false kt (.cons "Elem" "" false vt .nil)) = true := by
      simp only [ptrSafeFields, hks, hvt, Bool.and_self]
    rw [decodeRecs_map f fs num eb rest _ i o _ kt vt hf hr hu,
      decodeRecs_map f (reduceFields fs) num eb rest _ i o _ kt (reduce vt) hf' hr' hu', he,
      zeroFields_lift (Fields.cons "Key" "" false kt (.cons "Elem" "" false vt .nil)), ihM _ _ _ hse,
      valsGet_liftFields fs i _ hty]
    generalize decodeMsg f (reduceFields (Fields.cons "Key" "" false kt (.cons "Elem" "" false vt .nil))) eb
      (zeroFields (reduceFields (Fields.cons "Key" "" false kt (.cons "Elem" "" false vt .nil)))) = r
    cases r with
    | none => rfl
    | some evs =>
      simp only [Option.map_some, Option.bind_some]
      rw [valsGet_liftFields _ 0 kt rfl, valsGet_liftFields _ 1 vt rfl, hkl, id, map_step,
        valsSet_liftFields fs i _ hty, ihR fs _ _ hs]
  | _ =>
    rw [decodeRecs_map_bad f fs num _ rest _ i o _ kt vt hf hr hu (fun _ e => by cases e),
      decodeRecs_map_bad f (reduceFields fs) num _ rest _ i o _ kt (reduce vt) hf' hr' hu' (fun _ e => by cases e)]
    rfl

theorem decodeRecs_step (f : Nat) (ihO : IHO f) (ihM : IHM f) (ihR : IHR f) : IHR (f + 1) := by
  intro fs recs vs hs
  cases recs with
  | nil => simp [decodeRecs]
  | cons r rest =>
    obtain ⟨num, w⟩ := r
    obtain ⟨hff, hfs⟩ := findField_reduce num fs hs
    cases hf : findField fs num with
    | none =>
      rw [hf] at hff
      rw [decodeRecs_unknown _ _ _ _ _ _ hf, decodeRecs_unknown _ _ _ _ _ _ hff]
      exact ihR fs rest vs hs
    | some p =>
      obtain ⟨i, o, t⟩ := p
      rw [hf] at hff
      simp only [Option.map_some] at hff
      obtain ⟨ht, hty⟩ := hfs i o t hf
      by_cases h1 : ∃ e, t = .slice e
      · obtain ⟨e, rfl⟩ := h1
        exact recs_rep_step f ihO ihR fs hs num w rest vs i o e hf hff ht hty
      · by_cases h2 : ∃ k v, t = .map k v
        · obtain ⟨k, v, rfl⟩ := h2
          exact recs_map_step f ihM ihR fs hs num w rest vs i o k v hf hff ht hty
        · exact recs_single_step f ihO ihR fs hs num w rest vs i o t hf hff ht hty
            (fun e he => h1 ⟨e, he⟩) (fun k v he => h2 ⟨k, v, he⟩)

theorem decode_reduce_aux (f : Nat) : IHO f ∧ IHM f ∧ IHR f := by
  induction f with
  | zero =>
    refine ⟨fun u o w cur _ _ => by simp [decodeOne], fun fs b vs _ => by simp [decodeMsg], fun fs recs vs _ => by
      simp [decodeRecs]⟩
  | succ f ih =>
    obtain ⟨ihO, ihM, ihR⟩ := ih
    refine ⟨decodeOne_step f ihM, fun fs b vs hs => ?_, decodeRecs_step f ihO ihM ihR⟩
    simp only [decodeMsg]
    cases parse (b.length + 1) b with
    | none => rfl
    | some recs => exact ihR fs recs vs hs

/-- **the reference decoder is transparent**: decoding into the original type is decoding into the reduced type, then
`lift` -/
theorem decode_reduce (fs : Fields) (h : ptrSafeFields fs = true) (b : Bytes) :
    Spec.Protobuf.decode (.struct fs) b
      = (Spec.Protobuf.decode (.struct (reduceFields fs)) b).map (lift (.struct fs)) := by
  simp only [Spec.Protobuf.decode, deref]
  rw [zeroFields_lift fs, (decode_reduce_aux _).2.1 fs b _ h]
  cases decodeMsg (4 * b.length + 16) (reduceFields fs) b (zeroFields (reduceFields fs)) with
  | none => rfl
  | some vs => simp [wrapPtr, lift]

/-- the same for a message type behind pointers (`*T`, `**T` …) -/
theorem decode_reduce_ty (t : Ty) (h : ptrSafe t = true) (b : Bytes) :
    Spec.Protobuf.decode t b = (Spec.Protobuf.decode (reduce t) b).map (lift t) := by
  obtain ⟨hss, hsp, hd⟩ := strip_safe t h
  simp only [Spec.Protobuf.decode, hd, deref_reduce t h]
  generalize hu : strip t = u at hss hsp
  cases u with
  | struct fs =>
    simp only [ptrSafe] at hss
    simp only [reduce]
    rw [zeroFields_lift fs, (decode_reduce_aux _).2.1 fs b _ hss]
    cases decodeMsg (4 * b.length + 16) (reduceFields fs) b (zeroFields (reduceFields fs)) with
    | none => rfl
    | some vs =>
      have := wrapPtr_lift t h (.struct vs)
      rw [hu] at this
      simp only [lift] at this
      simp [this]
  | ptr _ => simp [plain] at hsp
  | named _ _ => simp [plain] at hsp
  | _ => simp [reduce]

#print axioms canonical_lift
#print axioms canon_lift
#print axioms decode_reduce
#print axioms decode_reduce_ty
#print axioms sh_lift

end Enc.Lemmas.ProtoPtrs
