import Enc.Spec.Json.StdCodecChoiceDec
import Enc.Spec.Json.EmbedCycle
import Enc.Lemmas.JsonCodecChoiceEmb
/-!
# The decode specification's expansion of embedded structs does not depend on its context

`stdEmbeddedDec codec inner env d ef visited typ` again (see Lemmas/JsonCodecChoiceEmb.lean): when `typ` contains no
cycle of embedded structs the `visited` check never fires and the fuel `embedFuelD` is never exhausted, so the result is
the field list of `typ` on its own: `stdEmbeddedDec_eq_fields`.
-/
set_option linter.unusedSimpArgs false
set_option linter.unusedVariables false
namespace Enc.Lemmas.JsonCodecChoiceDecEmb
open Enc.Model.Json.CodecChoice Enc.Spec.Json.StdCodecChoiceDec Enc.Spec.Json.EmbedCycle
open Enc.Lemmas.JsonCodecChoiceSeen Enc.Lemmas.JsonCodecChoiceTerm Enc.Lemmas.JsonCodecChoiceEmb

/-- the decode specification peels an unnamed pointer with its own `match` -/
theorem peel_eq (ft : TD) : (match ft with | .ptr e => e | t => t) = peel ft := by
  cases ft <;> rfl

/-- a `quoted` leaf at depth `d` -/
def qAt (d : Nat) (x : DChoice) : DChoice := match d with | 0 => DChoice.cut | _ => .quoted x

theorem stdFieldsDecWith_cons (codec inner : TD → DChoice) (sub : TD → DL) (env : Env) (d : Nat) (name : String)
    (emb str : Bool) (ft : TD) (rest : FL) :
    stdFieldsDecWith codec inner sub env d (.cons name emb str ft rest) =
      if emb && isStructKind (under env (peel ft)) then
        (if isPtrKind ft then (sub (peel ft)).mapChoice .embedPtr else sub (peel ft)).append
          (stdFieldsDecWith codec inner sub env d rest)
      else
        .cons name ft (if str && isScalarKind (under env (peel ft)) then
            qAt d (inner ft) else codec ft)
          (stdFieldsDecWith codec inner sub env d rest) := by
  cases ft <;> rfl

theorem stdFieldsDecWith_congr (codec inner : TD → DChoice) (sub sub' : TD → DL) (env : Env) (d : Nat) :
    ∀ fl : FL, (∀ typ, typ ∈ embedsFL env fl → sub typ = sub' typ) →
      stdFieldsDecWith codec inner sub env d fl = stdFieldsDecWith codec inner sub' env d fl
  | .nil, _ => by simp [stdFieldsDecWith]
  | .cons n emb str ft r, h => by
    have hr : ∀ typ, typ ∈ embedsFL env r → sub typ = sub' typ := by
      intro typ ht
      apply h typ
      simp only [embedsFL]
      split
      · exact List.mem_cons_of_mem _ ht
      · exact ht
    have ih := stdFieldsDecWith_congr codec inner sub sub' env d r hr
    simp only [stdFieldsDecWith_cons]
    by_cases h0 : (emb && isStructKind (under env (peel ft))) = true
    · simp only [h0, if_true]
      have : sub (peel ft) = sub' (peel ft) := by
        apply h
        simp only [embedsFL, h0, if_true]
        exact List.mem_cons_self
      rw [this, ih]
    · have h0' : (emb && isStructKind (under env (peel ft))) = false := by simpa using h0
      simp only [h0', Bool.false_eq_true, if_false]
      rw [ih]

theorem stdEmbeddedDec_indep (codec inner : TD → DChoice) (env : Env) (d : Nat) :
    ∀ (ef ef' : Nat) (V V' : List TD) (typ : TD), NoEmbeddedCycle env typ →
      NFv env V typ.size < ef → NFv env V' typ.size < ef' → NoHit env V typ → NoHit env V' typ →
      stdEmbeddedDec codec inner env d ef V typ = stdEmbeddedDec codec inner env d ef' V' typ
  | 0, _, _, _, _, _, h, _, _, _ => by omega
  | _ + 1, 0, _, _, _, _, _, h, _, _ => by omega
  | ef + 1, ef' + 1, V, V', typ, hsafe, hf, hf', hn, hn' => by
    have hV : V.contains typ = false := hn typ (.refl typ)
    have hV' : V'.contains typ = false := hn' typ (.refl typ)
    simp only [stdEmbeddedDec, hV, hV', Bool.false_eq_true, if_false]
    apply stdFieldsDecWith_congr
    intro typ' hmem
    have hmem' : typ' ∈ embeds env typ := hmem
    have hsafe' : NoEmbeddedCycle env typ' := noEmbedCycle_of_reach hsafe (embeds_reach hmem')
    have hnh : ∀ W, NoHit env W typ → NoHit env (typ :: W) typ' := by
      intro W hW x hx
      simp only [List.contains_cons, Bool.or_eq_false_iff]
      constructor
      · have : x ≠ typ := by
          intro hxe; subst hxe
          exact hsafe x typ' (.refl x) hmem' hx
        simpa using this
      · exact hW x (embReach_trans (.step (.refl typ) hmem') hx)
    have h1 := NFv_step env V typ typ' hV hmem'
    have h2 := NFv_step env V' typ typ' hV' hmem'
    exact stdEmbeddedDec_indep codec inner env d ef ef' (typ :: V) (typ :: V') typ' hsafe' (by omega) (by omega)
      (hnh V hn) (hnh V' hn')

/-- the field list of a struct type on its own -/
def stdFieldsD (d : Nat) (env : Env) (t : TD) : DL :=
  stdFieldsDecWith (fun ft => stdDecD d env ft false) (stdQuotedInner env)
    (stdEmbeddedDec (fun ft => stdDecD d env ft false) (stdQuotedInner env) env d (embedFuelD env t) [t]) env d
    (fieldsOf env t)

theorem NFv_nil_ltD (env : Env) (t : TD) : NFv env [] t.size < embedFuelD env t + 1 := NFv_nil_lt env t

/-- **the promoted fields of an embedded struct type are its own field list**, whatever struct embeds it -/
theorem stdEmbeddedDec_eq_fields (d : Nat) (env : Env) (S typ : TD) (hsafe : NoEmbeddedCycle env S)
    (hmem : typ ∈ embeds env S) :
    stdEmbeddedDec (fun ft => stdDecD d env ft false) (stdQuotedInner env) env d (embedFuelD env S) [S] typ =
      stdFieldsD d env typ := by
  have hsafe' : NoEmbeddedCycle env typ := noEmbedCycle_of_reach hsafe (embeds_reach hmem)
  have hnil : NoHit env [] typ := fun x _ => by simp
  have hS : NoHit env [S] typ := by
    intro x hx
    have : x ≠ S := by
      intro hxe; subst hxe
      exact hsafe x typ (.refl x) hmem hx
    simpa using this
  have h0 := NFv_step env [] S typ (by simp) hmem
  have h1 := NFv_nil_ltD env S
  have h2 := NFv_nil_ltD env typ
  rw [stdEmbeddedDec_indep _ _ env d (embedFuelD env S) (embedFuelD env typ + 1) [S] [] typ hsafe' (by omega) h2 hS hnil]
  simp [stdEmbeddedDec, stdFieldsD]

end Enc.Lemmas.JsonCodecChoiceDecEmb

#print axioms Enc.Lemmas.JsonCodecChoiceDecEmb.stdEmbeddedDec_eq_fields
