import Enc.Model.Iso
import Enc.Spec.Iso
import Enc.Lemmas.IsoCalendar
import Std.Tactic.BVDecide
/-!
# C18: the word-at-a-time fast path of `iso8601.Parse` agrees with the byte-wise specification

Main result (`parseFast_toSpec` / `parseFast_spec`), for EVERY input (no length or trailing-`Z` hypothesis needed):

* `parseFast s = .notFast`   iff `parseZ s = none`            (not of the shape `YYYY-MM-DDTHH:MM:SS[.d{1,9}]Z`)
* `parseFast s = .rangeErr`  iff `parseZ s = some none`       (shape fine, a field out of range)
* `parseFast s = .ok u n`    iff `parseZ s = some (some (u, n))` (same instant, same nanoseconds)

Word lemmas (by `bv_decide`, over bytes assembled with `le64`):
`match1/2/3` (separator masks), `nonNum1/2/3` (after `^^^ replace` the `nonNumeric` test is zero iff all digit
positions hold digits), `nib1/2/3` (nibble extraction after `- zero` yields the digit values).
The instant uses `IsoCalendar.validate_spec` and `IsoCalendar.daysSinceEpoch_spec`.
-/
namespace Enc.Lemmas.IsoFast
open Enc Enc.Model.Iso

/-- ASCII digit (same test as `Model.Iso.isDigit` and `Spec.Iso.isDigit`), kept opaque to simp -/
def dg (c : UInt8) : Bool := 0x30 ≤ c && c ≤ 0x39

theorem match1 (b0 b1 b2 b3 b4 b5 b6 b7 : UInt8) :
    matchMask (le64 b0 b1 b2 b3 b4 b5 b6 b7) sep1 mask1 = (b4 == 0x2d && b7 == 0x2d) := by
  unfold matchMask le64 sep1 mask1 w64 Gen.c_iso8601_sep1 Gen.c_iso8601_mask1
  bv_decide

theorem match2 (b0 b1 b2 b3 b4 b5 b6 b7 : UInt8) :
    matchMask (le64 b0 b1 b2 b3 b4 b5 b6 b7) sep2 mask2 = (b2 == 0x54 && b5 == 0x3a) := by
  unfold matchMask le64 sep2 mask2 w64 Gen.c_iso8601_sep2 Gen.c_iso8601_mask2
  bv_decide

theorem match3 (b0 b1 b2 : UInt8) :
    matchMask (le64 b0 b1 b2 0x5a 0 0 0 0) sep3 mask3 = (b0 == 0x3a) := by
  unfold matchMask le64 sep3 mask3 w64 Gen.c_iso8601_sep3 Gen.c_iso8601_mask3
  bv_decide

theorem nonNum1 (b0 b1 b2 b3 b5 b6 : UInt8) :
    (nonNumeric (le64 b0 b1 b2 b3 0x2d b5 b6 0x2d ^^^ replace1) == 0#64) =
      (dg b0 && (dg b1 && (dg b2 && (dg b3 && (dg b5 && dg b6))))) := by
  unfold nonNumeric le64 replace1 msb zero nine w64 dg
    Gen.c_iso8601_replace1 Gen.c_iso8601_msb Gen.c_iso8601_zero Gen.c_iso8601_nine
  bv_decide

/-- digit value as a 64-bit word -/
def dw (c : UInt8) : BitVec 64 := (c.toBitVec - 0x30#8).setWidth 64

theorem nonNum2 (b0 b1 b3 b4 b6 b7 : UInt8) :
    (nonNumeric (le64 b0 b1 0x54 b3 b4 0x3a b6 b7 ^^^ replace2) == 0#64) =
      (dg b0 && (dg b1 && (dg b3 && (dg b4 && (dg b6 && dg b7))))) := by
  unfold nonNumeric le64 replace2 msb zero nine w64 dg
    Gen.c_iso8601_replace2 Gen.c_iso8601_msb Gen.c_iso8601_zero Gen.c_iso8601_nine
  bv_decide

theorem nonNum3 (b1 b2 : UInt8) :
    (nonNumeric (le64 0x3a b1 b2 0x5a 0 0 0 0 ^^^ replace3) == 0#64) = (dg b1 && dg b2) := by
  unfold nonNumeric le64 replace3 msb zero nine w64 dg
    Gen.c_iso8601_replace3 Gen.c_iso8601_msb Gen.c_iso8601_zero Gen.c_iso8601_nine
  bv_decide

theorem or3 (a b c : BitVec 64) : ((a ||| b ||| c) != 0#64) = !((a == 0#64) && ((b == 0#64) && (c == 0#64))) := by
  rw [Bool.eq_iff_iff]
  simp only [bne_iff_ne, ne_eq, BitVec.or_eq_zero_iff, Bool.not_eq_true', Bool.and_eq_false_iff, beq_eq_false_iff_ne, and_assoc]
  by_cases ha : a = 0#64 <;> by_cases hb : b = 0#64 <;> by_cases hc : c = 0#64 <;> simp [ha, hb, hc]

theorem nib1 (b0 b1 b2 b3 b5 b6 : UInt8)
    (h : (dg b0 && (dg b1 && (dg b2 && (dg b3 && (dg b5 && dg b6))))) = true) :
    let t := (le64 b0 b1 b2 b3 0x2d b5 b6 0x2d ^^^ replace1) - zero
    ((t >>> 0) &&& 0xF#64) = dw b0 ∧ ((t >>> 8) &&& 0xF#64) = dw b1 ∧ ((t >>> 16) &&& 0xF#64) = dw b2 ∧
    ((t >>> 24) &&& 0xF#64) = dw b3 ∧ ((t >>> 40) &&& 0xF#64) = dw b5 ∧ ((t >>> 48) &&& 0xF#64) = dw b6 := by
  unfold le64 replace1 zero w64 dg dw Gen.c_iso8601_replace1 Gen.c_iso8601_zero at *
  intro t
  bv_decide

theorem nib2 (b0 b1 b3 b4 b6 b7 : UInt8)
    (h : (dg b0 && (dg b1 && (dg b3 && (dg b4 && (dg b6 && dg b7))))) = true) :
    let t := (le64 b0 b1 0x54 b3 b4 0x3a b6 b7 ^^^ replace2) - zero
    ((t >>> 0) &&& 0xF#64) = dw b0 ∧ ((t >>> 8) &&& 0xF#64) = dw b1 ∧ ((t >>> 24) &&& 0xF#64) = dw b3 ∧
    ((t >>> 32) &&& 0xF#64) = dw b4 ∧ ((t >>> 48) &&& 0xF#64) = dw b6 ∧ (t >>> 56) = dw b7 := by
  unfold le64 replace2 zero w64 dg dw Gen.c_iso8601_replace2 Gen.c_iso8601_zero at *
  intro t
  bv_decide

theorem nib3 (b1 b2 : UInt8) (h : (dg b1 && dg b2) = true) :
    let t := (le64 0x3a b1 b2 0x5a 0 0 0 0 ^^^ replace3) - zero
    ((t >>> 8) &&& 0xF#64) = dw b1 ∧ (t >>> 16) = dw b2 := by
  unfold le64 replace3 zero w64 dg dw Gen.c_iso8601_replace3 Gen.c_iso8601_zero at *
  intro t
  bv_decide

def dv (c : UInt8) : Nat := c.toNat - 0x30

theorem dg_iff (c : UInt8) : dg c = true ↔ 0x30 ≤ c.toNat ∧ c.toNat ≤ 0x39 := by
  simp [dg, UInt8.le_iff_toNat_le]

theorem dw_toNat (c : UInt8) (h : dg c = true) : (dw c).toNat = dv c := by
  rw [dg_iff] at h
  have := c.toNat_lt
  simp [dw, dv, BitVec.toNat_sub]
  omega

theorem dv_le (c : UInt8) (h : dg c = true) : dv c ≤ 9 := by
  rw [dg_iff] at h; unfold dv; omega

theorem dig_eq (c : UInt8) : Spec.Iso.dig c = if dg c then some (dv c) else none := rfl

theorem num2 (a b : UInt8) : Spec.Iso.num [a, b] = if dg a && dg b then some (dv a * 10 + dv b) else none := by
  simp only [Spec.Iso.num, List.foldl, dig_eq]
  cases dg a <;> cases dg b <;> simp <;> rfl

theorem num4 (a b c d : UInt8) :
    Spec.Iso.num [a, b, c, d] =
      if dg a && (dg b && (dg c && dg d)) then some (dv a * 1000 + dv b * 100 + dv c * 10 + dv d) else none := by
  simp only [Spec.Iso.num, List.foldl, dig_eq]
  cases dg a <;> cases dg b <;> cases dg c <;> cases dg d <;> simp <;> first | rfl | omega

theorem foldl_none (cs : Bytes) :
    cs.foldl (fun acc c => do let a ← acc; let d ← Spec.Iso.dig c; pure (a * 10 + d)) (none : Option Nat) = none := by
  induction cs with
  | nil => rfl
  | cons c cs ih => simpa [List.foldl] using ih

theorem fracDigits_eq (cs : Bytes) (acc : Nat) :
    fracDigits cs acc =
      cs.foldl (fun acc c => do let a ← acc; let d ← Spec.Iso.dig c; pure (a * 10 + d)) (some acc) := by
  induction cs generalizing acc with
  | nil => rfl
  | cons c cs ih =>
    simp only [fracDigits, List.foldl, dig_eq]
    by_cases h : dg c = true
    · have h' := (dg_iff c).mp h
      have : ¬ (c < 0x30 || c > 0x39) = true := by
        simp [UInt8.lt_iff_toNat_lt]; omega
      simp [this, h, ih]; rfl
    · have h' : ¬ (0x30 ≤ c.toNat ∧ c.toNat ≤ 0x39) := fun e => h ((dg_iff c).mpr e)
      have : (c < 0x30 || c > 0x39) = true := by
        simp [UInt8.lt_iff_toNat_lt]; omega
      simp [this, h]; exact (foldl_none cs).symm

theorem fracDigits_num (cs : Bytes) : fracDigits cs 0 = Spec.Iso.num cs := by
  cases cs with
  | nil => rfl
  | cons c cs => rw [fracDigits_eq]; rfl

/-- the body of the fast path once the 19 leading bytes are named; `frac` is the (lazily computed) fraction -/
def fastBody (b0 b1 b2 b3 b4 b5 b6 b7 b8 b9 b10 b11 b12 b13 b14 b15 b16 b17 b18 : UInt8) (frac : Option Nat) : FastRes :=
      let t1 := le64 b0 b1 b2 b3 b4 b5 b6 b7
      let t2 := le64 b8 b9 b10 b11 b12 b13 b14 b15
      let t3 := le64 b16 b17 b18 0x5a 0 0 0 0
      if !matchMask t1 sep1 mask1 || !matchMask t2 sep2 mask2 || !matchMask t3 sep3 mask3 then .notFast
      else
        let t1 := t1 ^^^ replace1
        let t2 := t2 ^^^ replace2
        let t3 := t3 ^^^ replace3
        if (nonNumeric t1 ||| nonNumeric t2 ||| nonNumeric t3) != 0#64 then .notFast
        else
          let t1 := t1 - zero
          let t2 := t2 - zero
          let t3 := t3 - zero
          let year := nib t1 0 * 1000 + nib t1 8 * 100 + nib t1 16 * 10 + nib t1 24
          let month := nib t1 40 * 10 + nib t1 48
          let day := nib t2 0 * 10 + nib t2 8
          let hour := nib t2 24 * 10 + nib t2 32
          let minute := nib t2 48 * 10 + (t2 >>> 56).toNat
          let second := nib t3 8 * 10 + (t3 >>> 16).toNat
          match frac with
          | none => .notFast
          | some nanos =>
            if !validate year month day hour minute second then .rangeErr
            else
              let days := (daysSinceEpoch (w64 year) (w64 month) (w64 day)).toInt
              .ok (days * 86400 + (hour * 3600 + minute * 60 + second : Nat)) nanos

def fracOf (b : Bytes) : Option Nat :=
  let n := b.length
  if n > 20 then
    match fracDigits ((b.drop 20).take (n - 21)) 0 with
    | some d => some (d * (Gen.t_iso8601_pow10.getD (30 - n) 0))
    | none => none
  else some 0

theorem parseFast_cons (b0 b1 b2 b3 b4 b5 b6 b7 b8 b9 b10 b11 b12 b13 b14 b15 b16 b17 b18 : UInt8) (rest : Bytes) :
    parseFast (b0 :: b1 :: b2 :: b3 :: b4 :: b5 :: b6 :: b7 :: b8 :: b9 :: b10 :: b11 :: b12 :: b13 :: b14 :: b15 :: b16 :: b17 :: b18 :: rest) =
      let b := (b0 :: b1 :: b2 :: b3 :: b4 :: b5 :: b6 :: b7 :: b8 :: b9 :: b10 :: b11 :: b12 :: b13 :: b14 :: b15 :: b16 :: b17 :: b18 :: rest)
      let n := b.length
      if !(n ≥ 20 && n ≤ 30 && b.getLast? == some 0x5a) then .notFast
      else if n == 21 || (n > 21 && b.getD 19 0 != 0x2e) then .notFast
      else fastBody b0 b1 b2 b3 b4 b5 b6 b7 b8 b9 b10 b11 b12 b13 b14 b15 b16 b17 b18 (fracOf b) := rfl


theorem fastBody_noshape (b0 b1 b2 b3 b4 b5 b6 b7 b8 b9 b10 b11 b12 b13 b14 b15 b16 b17 b18 : UInt8) (frac : Option Nat)
    (h : ¬ (b4 = 0x2d ∧ b7 = 0x2d ∧ b10 = 0x54 ∧ b13 = 0x3a ∧ b16 = 0x3a)) :
    fastBody b0 b1 b2 b3 b4 b5 b6 b7 b8 b9 b10 b11 b12 b13 b14 b15 b16 b17 b18 frac = .notFast := by
  unfold fastBody
  simp only [match1, match2, match3]
  rw [if_pos]
  simp only [Bool.or_eq_true, Bool.not_eq_true', Bool.and_eq_false_iff, beq_eq_false_iff_ne]
  by_cases h4 : b4 = 0x2d <;> by_cases h7 : b7 = 0x2d <;> by_cases h10 : b10 = 0x54 <;>
    by_cases h13 : b13 = 0x3a <;> by_cases h16 : b16 = 0x3a <;> simp_all

/-- all fourteen digit positions hold digits -/
def allDg (y0 y1 y2 y3 m0 m1 d0 d1 h0 h1 i0 i1 s0 s1 : UInt8) : Bool :=
  (dg y0 && (dg y1 && (dg y2 && (dg y3 && (dg m0 && dg m1))))) &&
    ((dg d0 && (dg d1 && (dg h0 && (dg h1 && (dg i0 && dg i1))))) && (dg s0 && dg s1))

theorem fastBody_shape (y0 y1 y2 y3 m0 m1 d0 d1 h0 h1 i0 i1 s0 s1 : UInt8) (frac : Option Nat) :
    fastBody y0 y1 y2 y3 0x2d m0 m1 0x2d d0 d1 0x54 h0 h1 0x3a i0 i1 0x3a s0 s1 frac =
      if !allDg y0 y1 y2 y3 m0 m1 d0 d1 h0 h1 i0 i1 s0 s1 then .notFast
      else
        let year := dv y0 * 1000 + dv y1 * 100 + dv y2 * 10 + dv y3
        let month := dv m0 * 10 + dv m1
        let day := dv d0 * 10 + dv d1
        let hour := dv h0 * 10 + dv h1
        let minute := dv i0 * 10 + dv i1
        let second := dv s0 * 10 + dv s1
        match frac with
        | none => .notFast
        | some nanos =>
          if !validate year month day hour minute second then .rangeErr
          else
            .ok ((daysSinceEpoch (w64 year) (w64 month) (w64 day)).toInt * 86400 +
                  (hour * 3600 + minute * 60 + second : Nat)) nanos := by
  unfold fastBody allDg
  simp only [match1, match2, match3, or3, nonNum1, nonNum2, nonNum3]
  by_cases g1 : (dg y0 && (dg y1 && (dg y2 && (dg y3 && (dg m0 && dg m1))))) = true
  · by_cases g2 : (dg d0 && (dg d1 && (dg h0 && (dg h1 && (dg i0 && dg i1))))) = true
    · by_cases g3 : (dg s0 && dg s1) = true
      · obtain ⟨a0, a1, a2, a3, a4, a5⟩ := nib1 y0 y1 y2 y3 m0 m1 g1
        obtain ⟨c0, c1, c2, c3, c4, c5⟩ := nib2 d0 d1 h0 h1 i0 i1 g2
        obtain ⟨e0, e1⟩ := nib3 s0 s1 g3
        simp only [Bool.and_eq_true] at g1 g2 g3
        simp only [nib, a0, a1, a2, a3, a4, a5, c0, c1, c2, c3, c4, c5, e0, e1]
        simp only [dw_toNat, g1, g2, g3]
        simp
      · simp [g1, g2, g3]
    · simp [g1, g2]
  · simp [g1]

/-! ## the specification on a named prefix -/
open Spec.Iso in
def nanosOf (rest : Bytes) : Option Nat :=
  match rest with
  | [0x5a] => some 0
  | 0x2e :: fr =>
    match fr.reverse with
    | 0x5a :: ds => let ds := ds.reverse
                    if ds.length ≥ 1 && ds.length ≤ 9 then (num ds).map (· * 10 ^ (9 - ds.length)) else none
    | _ => none
  | _ => none

open Spec.Iso in
def specBody (y0 y1 y2 y3 m0 m1 d0 d1 h0 h1 i0 i1 s0 s1 : UInt8) (np : Option Nat) : Option (Option (Int × Nat)) := do
    let y ← num [y0, y1, y2, y3]
    let m ← num [m0, m1]
    let d ← num [d0, d1]
    let h ← num [h0, h1]
    let mi ← num [i0, i1]
    let sec ← num [s0, s1]
    let nanos ← np
    if 1 ≤ m && m ≤ 12 && 1 ≤ d && d ≤ daysInMonth y m && h < 24 && mi < 60 && sec < 60 then
      pure (some (daysFromCivil y m d * 86400 + (h * 3600 + mi * 60 + sec : Nat), nanos))
    else pure none

theorem parseZ_shape (y0 y1 y2 y3 m0 m1 d0 d1 h0 h1 i0 i1 s0 s1 : UInt8) (rest : Bytes) :
    Spec.Iso.parseZ (y0 :: y1 :: y2 :: y3 :: 0x2d :: m0 :: m1 :: 0x2d :: d0 :: d1 :: 0x54 :: h0 :: h1 :: 0x3a :: i0 :: i1 :: 0x3a :: s0 :: s1 :: rest) =
      specBody y0 y1 y2 y3 m0 m1 d0 d1 h0 h1 i0 i1 s0 s1 (nanosOf rest) := rfl

theorem parseZ_noshape (b0 b1 b2 b3 b4 b5 b6 b7 b8 b9 b10 b11 b12 b13 b14 b15 b16 b17 b18 : UInt8) (rest : Bytes)
    (h : ¬ (b4 = 0x2d ∧ b7 = 0x2d ∧ b10 = 0x54 ∧ b13 = 0x3a ∧ b16 = 0x3a)) :
    Spec.Iso.parseZ (b0 :: b1 :: b2 :: b3 :: b4 :: b5 :: b6 :: b7 :: b8 :: b9 :: b10 :: b11 :: b12 :: b13 :: b14 :: b15 :: b16 :: b17 :: b18 :: rest) = none := by
  unfold Spec.Iso.parseZ
  split
  · rename_i heq
    simp only [List.cons.injEq] at heq
    exact absurd ⟨heq.2.2.2.2.1, heq.2.2.2.2.2.2.2.1, heq.2.2.2.2.2.2.2.2.2.2.1, heq.2.2.2.2.2.2.2.2.2.2.2.2.2.1,
      heq.2.2.2.2.2.2.2.2.2.2.2.2.2.2.2.2.1⟩ h
  · rfl

theorem parseZ_short (s : Bytes) (h : s.length < 19) : Spec.Iso.parseZ s = none := by
  unfold Spec.Iso.parseZ
  split
  · simp at h; omega
  · rfl

open Spec.Iso in
theorem specBody_eq (y0 y1 y2 y3 m0 m1 d0 d1 h0 h1 i0 i1 s0 s1 : UInt8) (np : Option Nat) :
    specBody y0 y1 y2 y3 m0 m1 d0 d1 h0 h1 i0 i1 s0 s1 np =
      if !allDg y0 y1 y2 y3 m0 m1 d0 d1 h0 h1 i0 i1 s0 s1 then none
      else
        let y := dv y0 * 1000 + dv y1 * 100 + dv y2 * 10 + dv y3
        let m := dv m0 * 10 + dv m1
        let d := dv d0 * 10 + dv d1
        let h := dv h0 * 10 + dv h1
        let mi := dv i0 * 10 + dv i1
        let sec := dv s0 * 10 + dv s1
        match np with
        | none => none
        | some nanos =>
          if 1 ≤ m && m ≤ 12 && 1 ≤ d && d ≤ daysInMonth y m && h < 24 && mi < 60 && sec < 60 then
            some (some (daysFromCivil y m d * 86400 + (h * 3600 + mi * 60 + sec : Nat), nanos))
          else some none := by
  unfold specBody allDg
  rw [num4, num2, num2, num2, num2, num2]
  cases dg y0 <;> cases dg y1 <;> cases dg y2 <;> cases dg y3 <;> try rfl
  all_goals cases dg m0 <;> cases dg m1 <;> try rfl
  all_goals cases dg d0 <;> cases dg d1 <;> try rfl
  all_goals cases dg h0 <;> cases dg h1 <;> try rfl
  all_goals cases dg i0 <;> cases dg i1 <;> try rfl
  all_goals cases dg s0 <;> cases dg s1 <;> try rfl
  all_goals cases np <;> rfl

/-! ## guards and fraction, in terms of the bytes after the 19-byte prefix -/

def guardOK (rest : Bytes) : Bool :=
  (1 ≤ rest.length && rest.length ≤ 11 && rest.getLast? == some 0x5a) &&
    !(rest.length == 2 || (rest.length > 2 && rest.getD 0 0 != 0x2e))

def fracR (rest : Bytes) : Option Nat :=
  if rest.length > 1 then
    match fracDigits ((rest.drop 1).take (rest.length - 2)) 0 with
    | some d => some (d * (Gen.t_iso8601_pow10.getD (11 - rest.length) 0))
    | none => none
  else some 0

theorem parseFast_rest (b0 b1 b2 b3 b4 b5 b6 b7 b8 b9 b10 b11 b12 b13 b14 b15 b16 b17 b18 : UInt8) (rest : Bytes) :
    parseFast (b0 :: b1 :: b2 :: b3 :: b4 :: b5 :: b6 :: b7 :: b8 :: b9 :: b10 :: b11 :: b12 :: b13 :: b14 :: b15 :: b16 :: b17 :: b18 :: rest) =
      if !guardOK rest then .notFast
      else fastBody b0 b1 b2 b3 b4 b5 b6 b7 b8 b9 b10 b11 b12 b13 b14 b15 b16 b17 b18 (fracR rest) := by
  rw [parseFast_cons]
  cases rest with
  | nil => simp [guardOK]
  | cons r0 rest =>
    have e1 : (b0 :: b1 :: b2 :: b3 :: b4 :: b5 :: b6 :: b7 :: b8 :: b9 :: b10 :: b11 :: b12 :: b13 :: b14 :: b15 :: b16 :: b17 :: b18 :: r0 :: rest).getLast? = (r0 :: rest).getLast? := by
      simp only [List.getLast?_cons_cons]
    have e2 : (b0 :: b1 :: b2 :: b3 :: b4 :: b5 :: b6 :: b7 :: b8 :: b9 :: b10 :: b11 :: b12 :: b13 :: b14 :: b15 :: b16 :: b17 :: b18 :: r0 :: rest).getD 19 0 = r0 := by
      simp
    have e3 : (b0 :: b1 :: b2 :: b3 :: b4 :: b5 :: b6 :: b7 :: b8 :: b9 :: b10 :: b11 :: b12 :: b13 :: b14 :: b15 :: b16 :: b17 :: b18 :: r0 :: rest).length = rest.length + 20 := by
      simp
    simp only [fracOf, e1, e2, e3, guardOK, fracR, List.length_cons, List.drop_succ_cons, List.drop_zero, List.getD_cons_zero]
    have a1 : (rest.length + 20 ≥ 20) := by omega
    have a2 : (1 ≤ rest.length + 1) := by omega
    have a3 : (rest.length + 20 ≤ 30) = (rest.length + 1 ≤ 11) := propext (by omega)
    have a4 : (rest.length + 20 == 21) = (rest.length + 1 == 2) := by
      rw [Bool.eq_iff_iff]; simp only [beq_iff_eq]; omega
    have a5 : (rest.length + 20 > 21) = (rest.length + 1 > 2) := propext (by omega)
    have a6 : (rest.length + 20 > 20) = (rest.length + 1 > 1) := propext (by omega)
    have a7 : rest.length + 20 - 21 = rest.length + 1 - 2 := by omega
    have a8 : 30 - (rest.length + 20) = 11 - (rest.length + 1) := by omega
    simp only [a1, a2, a3, a4, a5, a6, a7, a8, decide_true, Bool.true_and]
    generalize (decide (rest.length + 1 ≤ 11) && (r0 :: rest).getLast? == some 90) = p
    generalize (rest.length + 1 == 2 || decide (rest.length + 1 > 2) && r0 != 46) = q
    cases p <;> cases q <;> rfl

theorem pow10_getD (k : Nat) (h : k ≤ 8) : Gen.t_iso8601_pow10.getD k 0 = 10 ^ k := by
  have : k = 0 ∨ k = 1 ∨ k = 2 ∨ k = 3 ∨ k = 4 ∨ k = 5 ∨ k = 6 ∨ k = 7 ∨ k = 8 := by omega
  rcases this with h | h | h | h | h | h | h | h | h <;> subst h <;> rfl

theorem nanosOf_eq (rest : Bytes) : nanosOf rest = if guardOK rest then fracR rest else none := by
  unfold nanosOf
  split
  · rfl
  · rename_i fr
    split
    · rename_i ds hrev
      have hfr : fr = ds.reverse ++ [0x5a] := by
        have := congrArg List.reverse hrev
        simpa using this
      subst hfr
      generalize ds.reverse = es
      have hl : (0x2e :: (es ++ [0x5a])).length = es.length + 2 := by simp
      have hg : guardOK (0x2e :: (es ++ [0x5a])) = (decide (es.length ≥ 1) && decide (es.length ≤ 9)) := by
        unfold guardOK
        rw [hl]
        have : (0x2e :: (es ++ [0x5a])).getLast? = some 0x5a := by
          rw [← List.cons_append, List.getLast?_concat]
        rw [this, Bool.eq_iff_iff]
        simp
        cases es <;> simp <;> omega
      rw [hg]
      by_cases hc : (decide (es.length ≥ 1) && decide (es.length ≤ 9)) = true
      · rw [if_pos hc, if_pos hc]
        simp only [Bool.and_eq_true, decide_eq_true_eq] at hc
        unfold fracR
        rw [hl, if_pos (by omega)]
        have : ((0x2e :: (es ++ [0x5a])).drop 1).take (es.length + 2 - 2) = es := by simp
        rw [this, fracDigits_num, pow10_getD _ (by omega)]
        have : 11 - (es.length + 2) = 9 - es.length := by omega
        rw [this]
        cases Spec.Iso.num es <;> rfl
      · rw [if_neg hc, if_neg hc]
    · rename_i hno
      have : guardOK (0x2e :: fr) = false := by
        unfold guardOK
        cases hfr : fr.reverse with
        | nil => simp at hfr; subst hfr; simp
        | cons x xs =>
          have hx : x ≠ 0x5a := fun e => hno xs (by rw [hfr, e])
          have hfr' : fr = xs.reverse ++ [x] := by
            have := congrArg List.reverse hfr
            simpa using this
          subst hfr'
          have : (0x2e :: (xs.reverse ++ [x])).getLast? = some x := by
            rw [← List.cons_append, List.getLast?_concat]
          rw [this]
          simp [hx]
      rw [this]; rfl
  · rename_i h1 h2
    have : guardOK rest = false := by
      unfold guardOK
      match rest, h1, h2 with
      | [], _, _ => simp
      | [x], h1, _ =>
        have : x ≠ 0x5a := fun e => h1 (by rw [e])
        simp [this]
      | x :: y :: t, _, h2 =>
        have : x ≠ 0x2e := fun e => h2 (y :: t) (by rw [e])
        simp [this]
        intro _ _ ht
        exact List.length_pos_iff.mpr ht
    rw [this]; rfl

/-! ## main theorem -/

/-- what a fast-path outcome claims about the specification -/
def toSpec : FastRes → Option (Option (Int × Nat))
  | .notFast => none
  | .rangeErr => some none
  | .ok u n => some (some (u, n))

theorem parseFast_short (s : Bytes) (h : s.length < 20) : parseFast s = .notFast := by
  unfold parseFast
  have : decide (s.length ≥ 20) = false := by simp; omega
  rw [if_pos]
  show (!(decide (s.length ≥ 20) && _ && _)) = true
  rw [this]; rfl

theorem daysInMonth_le (y m : Nat) : Spec.Iso.daysInMonth y m ≤ 31 := by
  unfold Spec.Iso.daysInMonth
  split <;> (try split) <;> omega

theorem exists_prefix19 (s : Bytes) (h : 19 ≤ s.length) :
    ∃ b0 b1 b2 b3 b4 b5 b6 b7 b8 b9 b10 b11 b12 b13 b14 b15 b16 b17 b18 rest,
      s = b0 :: b1 :: b2 :: b3 :: b4 :: b5 :: b6 :: b7 :: b8 :: b9 :: b10 :: b11 :: b12 :: b13 :: b14 :: b15 :: b16 :: b17 :: b18 :: rest := by
  rcases s with _ | ⟨b0, _ | ⟨b1, _ | ⟨b2, _ | ⟨b3, _ | ⟨b4, _ | ⟨b5, _ | ⟨b6, _ | ⟨b7, _ | ⟨b8, _ | ⟨b9, _ | ⟨b10,
    _ | ⟨b11, _ | ⟨b12, _ | ⟨b13, _ | ⟨b14, _ | ⟨b15, _ | ⟨b16, _ | ⟨b17, _ | ⟨b18, rest⟩⟩⟩⟩⟩⟩⟩⟩⟩⟩⟩⟩⟩⟩⟩⟩⟩⟩⟩
  all_goals first
    | (simp at h; done)
    | exact ⟨_, _, _, _, _, _, _, _, _, _, _, _, _, _, _, _, _, _, _, _, rfl⟩

theorem final (Y M D H I S nanos : Nat) (hY : Y ≤ 9999) :
    (if (decide (1 ≤ M) && decide (M ≤ 12) && decide (1 ≤ D) && decide (D ≤ Spec.Iso.daysInMonth Y M) &&
          decide (H < 24) && decide (I < 60) && decide (S < 60)) = true then
        some (some (Spec.Iso.daysFromCivil Y M D * 86400 + ((H * 3600 + I * 60 + S : Nat) : Int), nanos))
      else some none) =
    toSpec (if (!(decide (1 ≤ M) && decide (M ≤ 12) && decide (1 ≤ D) && decide (D ≤ Spec.Iso.daysInMonth Y M) &&
          decide (H < 24) && decide (I < 60) && decide (S < 60))) = true then FastRes.rangeErr
        else FastRes.ok ((daysSinceEpoch (w64 Y) (w64 M) (w64 D)).toInt * 86400 + ((H * 3600 + I * 60 + S : Nat) : Int)) nanos) := by
  by_cases hv : (decide (1 ≤ M) && decide (M ≤ 12) && decide (1 ≤ D) &&
      decide (D ≤ Spec.Iso.daysInMonth Y M) && decide (H < 24) && decide (I < 60) && decide (S < 60)) = true
  · simp only [hv, Bool.not_true, Bool.false_eq_true, if_false, if_true, toSpec]
    simp only [Bool.and_eq_true, decide_eq_true_eq] at hv
    have := daysInMonth_le Y M
    rw [IsoCalendar.daysSinceEpoch_spec Y M D hY (by omega) (by omega) (by omega) (by omega)]
  · simp only [Bool.not_eq_true] at hv
    simp only [hv, Bool.not_false, Bool.false_eq_true, if_false, if_true, toSpec]

theorem parseFast_toSpec (s : Bytes) : Spec.Iso.parseZ s = toSpec (parseFast s) := by
  by_cases hlen : s.length < 19
  · rw [parseZ_short s hlen, parseFast_short s (by omega)]; rfl
  obtain ⟨b0, b1, b2, b3, b4, b5, b6, b7, b8, b9, b10, b11, b12, b13, b14, b15, b16, b17, b18, rest, rfl⟩ :=
    exists_prefix19 s (by omega)
  rw [parseFast_rest]
  by_cases hshape : b4 = 0x2d ∧ b7 = 0x2d ∧ b10 = 0x54 ∧ b13 = 0x3a ∧ b16 = 0x3a
  · obtain ⟨rfl, rfl, rfl, rfl, rfl⟩ := hshape
    rw [parseZ_shape, specBody_eq, nanosOf_eq, fastBody_shape]
    by_cases hg : guardOK rest = true
    · simp only [hg, Bool.not_true, if_true]
      by_cases hd : allDg b0 b1 b2 b3 b5 b6 b8 b9 b11 b12 b14 b15 b17 b18 = true
      · simp only [hd, Bool.not_true]
        cases fracR rest with
        | none => rfl
        | some nanos =>
          simp only [IsoCalendar.validate_spec]
          have hY : dv b0 * 1000 + dv b1 * 100 + dv b2 * 10 + dv b3 ≤ 9999 := by
            simp only [allDg, Bool.and_eq_true] at hd
            have := dv_le b0 hd.1.1; have := dv_le b1 hd.1.2.1; have := dv_le b2 hd.1.2.2.1
            have := dv_le b3 hd.1.2.2.2.1
            omega
          simp only [Bool.false_eq_true, if_false]
          exact final _ _ _ _ _ _ _ hY
      · simp [hd, toSpec]
    · simp [hg, toSpec]
  · rw [parseZ_noshape _ _ _ _ _ _ _ _ _ _ _ _ _ _ _ _ _ _ _ _ hshape, fastBody_noshape _ _ _ _ _ _ _ _ _ _ _ _ _ _ _ _ _ _ _ _ hshape]
    split <;> rfl

theorem toSpec_inj (a b : FastRes) (h : toSpec a = toSpec b) : a = b := by
  cases a <;> cases b <;> simp_all [toSpec]

/-- the three outcomes of the fast path are exactly the three outcomes of the specification -/
theorem parseFast_spec (s : Bytes) :
    (match Model.Iso.parseFast s with
     | .notFast => Spec.Iso.parseZ s = none
     | .rangeErr => Spec.Iso.parseZ s = some none
     | .ok u n => Spec.Iso.parseZ s = some (some (u, n))) := by
  have h := parseFast_toSpec s
  cases hp : parseFast s <;> rw [hp] at h <;> exact h

theorem parseFast_notFast_iff (s : Bytes) : parseFast s = .notFast ↔ Spec.Iso.parseZ s = none := by
  rw [parseFast_toSpec]
  exact ⟨fun h => by rw [h]; rfl, fun h => toSpec_inj _ _ h⟩

theorem parseFast_rangeErr_iff (s : Bytes) : parseFast s = .rangeErr ↔ Spec.Iso.parseZ s = some none := by
  rw [parseFast_toSpec]
  exact ⟨fun h => by rw [h]; rfl, fun h => toSpec_inj _ _ h⟩

theorem parseFast_ok_iff (s : Bytes) (u : Int) (n : Nat) :
    parseFast s = .ok u n ↔ Spec.Iso.parseZ s = some (some (u, n)) := by
  rw [parseFast_toSpec]
  exact ⟨fun h => by rw [h]; rfl, fun h => toSpec_inj _ _ h⟩

/-- the statement as originally suggested (weaker than `parseFast_spec`) -/
theorem parseFast_spec_weak (s : Bytes) :
    (match Model.Iso.parseFast s with
     | .notFast => Spec.Iso.parseZ s = none ∨ ¬ (20 ≤ s.length ∧ s.length ≤ 30)
     | .rangeErr => Spec.Iso.parseZ s = some none
     | .ok u n => Spec.Iso.parseZ s = some (some (u, n))) := by
  have h := parseFast_spec s
  cases hp : parseFast s <;> rw [hp] at h <;> first | exact Or.inl h | exact h

#print axioms parseFast_toSpec
#print axioms parseFast_spec
end Enc.Lemmas.IsoFast
