import Enc.Lemmas.ThriftEmbed
/-!
The index paths of `forEachStructField` as Go slices (backing arrays with capacities, `goAppend` writes in place when the
capacity permits): WITH the clipping `fieldIndex[:len:len]` — the code as written — the paths read from the heap after the
whole type has been walked are the immutable paths of `flatten`, for every descriptor (`flattenClipped_eq`): no append ever
writes into an array that an emitted path refers to.
-/
namespace Enc.Lemmas.ThriftEmbed
open Enc Enc.Model.Thrift

/-- a clipped slice holding `idx` -/
def Cl (h : Heap) (s : GoSlice) (idx : List Nat) : Prop :=
  h.read s = idx ∧ s.cap = s.len ∧ idx.length = s.len ∧ (s.len = 0 ∨ s.arr < h.arrs.length)
/-- the heap only grew by new arrays -/
def Ext (h h' : Heap) : Prop := ∃ e, h'.arrs = h.arrs ++ e
def Good (h : Heap) (l : List (String × GoSlice)) (lp : List FlatField) : Prop :=
  (∀ ns ∈ l, ns.2.arr < h.arrs.length) ∧
    l.map (fun ns => (ns.1, h.read ns.2)) = lp.map (fun ff => (ff.name, ff.index))

theorem ext_refl (h : Heap) : Ext h h := ⟨[], by simp⟩
theorem ext_trans {a b c : Heap} (h1 : Ext a b) (h2 : Ext b c) : Ext a c := by
  obtain ⟨e1, h1⟩ := h1; obtain ⟨e2, h2⟩ := h2
  exact ⟨e1 ++ e2, by rw [h2, h1, List.append_assoc]⟩
theorem ext_len {a b : Heap} (h : Ext a b) : a.arrs.length ≤ b.arrs.length := by
  obtain ⟨e, h⟩ := h; rw [h]; simp

theorem read_ext {h h' : Heap} (hE : Ext h h') (s : GoSlice) (hs : s.len = 0 ∨ s.arr < h.arrs.length) :
    h'.read s = h.read s := by
  obtain ⟨e, he⟩ := hE
  rcases hs with hs | hs
  · simp [Heap.read, hs]
  · simp only [Heap.read, he]
    congr 1
    simp [List.getD, List.getElem?_append_left hs]

theorem cl_ext {h h' : Heap} {s : GoSlice} {idx : List Nat} (hc : Cl h s idx) (hE : Ext h h') : Cl h' s idx := by
  obtain ⟨h1, h2, h3, h4⟩ := hc
  refine ⟨by rw [read_ext hE s h4]; exact h1, h2, h3, ?_⟩
  rcases h4 with h4 | h4
  · exact Or.inl h4
  · exact Or.inr (Nat.lt_of_lt_of_le h4 (ext_len hE))

theorem good_ext {h h' : Heap} {l : List (String × GoSlice)} {lp : List FlatField} (hg : Good h l lp) (hE : Ext h h') :
    Good h' l lp := by
  obtain ⟨h1, h2⟩ := hg
  refine ⟨fun ns hns => Nat.lt_of_lt_of_le (h1 ns hns) (ext_len hE), ?_⟩
  rw [← h2]
  apply List.map_congr_left
  intro ns hns
  rw [read_ext hE ns.2 (Or.inr (h1 ns hns))]

theorem good_append {h : Heap} {l1 l2 : List (String × GoSlice)} {p1 p2 : List FlatField}
    (h1 : Good h l1 p1) (h2 : Good h l2 p2) : Good h (l1 ++ l2) (p1 ++ p2) := by
  refine ⟨?_, by rw [List.map_append, List.map_append, h1.2, h2.2]⟩
  intro ns hns
  rcases List.mem_append.mp hns with hh | hh
  · exact h1.1 ns hh
  · exact h2.1 ns hh

theorem good_nil (h : Heap) : Good h [] [] := ⟨by simp, rfl⟩

/-- append on a clipped slice always allocates: the old arrays stay as they are -/
theorem goAppend_cl {h : Heap} {s : GoSlice} {idx : List Nat} (hc : Cl h s idx) (x : Nat) :
    Ext h (goAppend h s x).1 ∧ Cl (goAppend h s x).1 (goAppend h s x).2.clip (idx ++ [x]) ∧
      (goAppend h s x).2.clip.arr < (goAppend h s x).1.arrs.length := by
  obtain ⟨h1, h2, h3, h4⟩ := hc
  have hlt : ¬ s.len < s.cap := by omega
  simp only [goAppend, hlt, if_false, GoSlice.clip]
  refine ⟨⟨_, rfl⟩, ⟨?_, rfl, by simp [h3], Or.inr (by simp)⟩, by simp⟩
  simp only [Heap.read, List.getD]
  rw [List.getElem?_append_right (Nat.le_refl _)]
  simp only [Nat.sub_self, List.getElem?_cons_zero, Option.getD_some]
  have : Heap.read h s = idx := h1
  simp only [Heap.read, List.getD] at this
  rw [this, List.append_assoc, List.take_append]
  have e1 : List.take (s.len + 1) idx = idx := List.take_of_length_le (by omega)
  have e2 : s.len + 1 - idx.length = 1 := by omega
  rw [e1, e2]; rfl

theorem good_leaf {h : Heap} {s : GoSlice} {idx : List Nat} (hc : Cl h s idx) (hlt : s.arr < h.arrs.length)
    (name tag : String) (t : Ty) (id : Int) (req en : Bool) :
    Good h [(name, s)] [{ name := name, tag := tag, ty := t, index := idx, id := id, required := req, enum := en }] :=
  ⟨by intro ns hns; simp only [List.mem_singleton] at hns; subst hns; exact hlt, by simp [hc.1]⟩

mutual
theorem clipT : (t : Ty) → ∀ (index : GoSlice) (h : Heap) (idx : List Nat), Cl h index idx →
    (match flattenEmbS true t index h, flattenEmb t idx with
     | some (l, h'), some lp => Ext h h' ∧ Good h' l lp
     | none, none => True
     | _, _ => False)
  | .ptr t => by intro index h idx hc; rw [flattenEmbS, flattenEmb]; exact clipT t index h idx hc
  | .named _ t => by intro index h idx hc; rw [flattenEmbS, flattenEmb]; exact clipT t index h idx hc
  | .struct fs => by
    intro index h idx hc
    rw [flattenEmbS, flattenEmb]
    exact clipF fs index 0 h idx hc
  | .bool | .int _ | .f32 | .f64 | .str | .bytes | .any | .slice _ | .map _ _ | .arr _ _ => by
    intro index h idx _; simp [flattenEmbS, flattenEmb]
theorem clipF : (fs : Fields) → ∀ (index : GoSlice) (i : Nat) (h : Heap) (idx : List Nat), Cl h index idx →
    Ext h (flattenS true fs index i h).2 ∧ Good (flattenS true fs index i h).2 (flattenS true fs index i h).1 (flatten fs idx i)
  | .nil => by intro index i h idx _; simp only [flattenS, flatten]; exact ⟨ext_refl h, good_nil h⟩
  | .cons name tag emb t rest => by
    intro index i h idx hc
    rw [flattenS, flatten]
    simp only []
    by_cases hx : (!isExported name && !emb) = true
    · simp only [hx, if_true]; exact clipF rest index (i + 1) h idx hc
    · simp only [hx, Bool.false_eq_true, if_false]
      obtain ⟨hE1, hc1, hlt1⟩ := goAppend_cl hc i
      generalize goAppend h index i = ga at hE1 hc1 hlt1 ⊢
      obtain ⟨h1, fi⟩ := ga
      simp only [] at hE1 hc1 hlt1 ⊢
      have leafCase : ∀ (id : Int) (req en : Bool),
          Ext h (flattenS true rest index (i + 1) h1).2 ∧
          Good (flattenS true rest index (i + 1) h1).2 ((name, fi.clip) :: (flattenS true rest index (i + 1) h1).1)
            ({ name := name, tag := tag, ty := t, index := idx ++ [i], id := id, required := req, enum := en } ::
              flatten rest idx (i + 1)) := by
        intro id req en
        obtain ⟨e2, g2⟩ := clipF rest index (i + 1) h1 idx (cl_ext hc hE1)
        exact ⟨ext_trans hE1 e2, good_append (good_ext (good_leaf hc1 hlt1 name tag t id req en) e2) g2⟩
      have noneCase : Ext h (flattenS true rest index (i + 1) h1).2 ∧
          Good (flattenS true rest index (i + 1) h1).2 (flattenS true rest index (i + 1) h1).1 (flatten rest idx (i + 1)) := by
        obtain ⟨e2, g2⟩ := clipF rest index (i + 1) h1 idx (cl_ext hc hE1)
        exact ⟨ext_trans hE1 e2, g2⟩
      cases emb with
      | false =>
        simp only [Bool.false_eq_true, if_false]
        cases tagOf tag with
        | none => exact noneCase
        | some x => obtain ⟨id, req, en⟩ := x; exact leafCase id req en
      | true =>
        simp only [if_true]
        have hT := clipT t fi.clip h1 (idx ++ [i]) hc1
        cases hS : flattenEmbS true t fi.clip h1 with
        | none =>
          cases hP : flattenEmb t (idx ++ [i]) with
          | none =>
            simp only []
            cases tagOf tag with
            | none => exact noneCase
            | some x => obtain ⟨id, req, en⟩ := x; exact leafCase id req en
          | some lp => rw [hS, hP] at hT; exact hT.elim
        | some lh =>
          obtain ⟨l, h2⟩ := lh
          cases hP : flattenEmb t (idx ++ [i]) with
          | none => rw [hS, hP] at hT; exact hT.elim
          | some lp =>
            rw [hS, hP] at hT
            simp only [] at hT ⊢
            obtain ⟨e12, g12⟩ := hT
            obtain ⟨e23, g23⟩ := clipF rest index (i + 1) h2 idx (cl_ext hc (ext_trans hE1 e12))
            exact ⟨ext_trans hE1 (ext_trans e12 e23), good_append (good_ext g12 e23) g23⟩
end

/-- **Index paths are independent of the siblings, in the model with backing arrays**: with the clipping
`fieldIndex[:len:len]` the index path of every promoted field, read after the whole type has been walked, is the path
`prefix ++ [i]` it was given — for every descriptor. (Without the clipping: `aliased_siblings_share_path`.) -/
theorem flattenClipped_eq (fs : Fields) :
    flattenClipped fs = (flatten fs [] 0).map (fun ff => (ff.name, ff.index)) := by
  have hc : Cl Heap.empty GoSlice.nil [] := ⟨rfl, rfl, rfl, Or.inl rfl⟩
  obtain ⟨_, g⟩ := clipF fs GoSlice.nil 0 Heap.empty [] hc
  unfold flattenClipped pathsS
  exact g.2

#print axioms flattenClipped_eq

end Enc.Lemmas.ThriftEmbed
