import Enc.Lemmas.ProtoTemplateFlat
import Enc.Lemmas.ProtoWireRec
/-! Non-vacuity: concrete instances of the hypotheses of the C19 template theorems, and the axioms they use. -/
namespace Enc.Lemmas.ProtoTemplate
open Enc Enc.Spec.Protobuf Enc.Model.Proto Enc.Model.Json

/-- `struct { A int64; B string }` and what TypeOf presents for it -/
def exFs : Fields := .cons "A" "" false (.int .i64) (.cons "B" "" false .str .nil)
def exT : TFields := .cons [0x41] 1 false (.prim .int64) (.cons [0x42] 2 false (.prim .string) .nil)

theorem exFlat : flat exFs = true := by decide
theorem exName : lookupFieldByName exT [0x41] = some (1, false, .prim .int64) := by simp [exT, lookupFieldByName]
/-- the JSON member `5` denotes 5 -/
theorem exPF : PFok (fun _ _ => none) := by intro lit b; simp
theorem exLeaf : leafVal (fun _ _ => none) .int64 (.num [0x35] .f64) = some (.int 5) := by
  have : unmarshalInt .i64 [0x35] = some 5 := by decide +kernel
  simp [leafVal, gvInt, this]
theorem exFind : findField exFs 1 = some (0, { number := 1 }, .int .i64) := by
  simp [exFs, findField, findField.go, Enc.Lemmas.ProtoWire.fieldOpt_empty]
theorem exKind : kindOf (.int .i64) { number := 1 } = some .int64 := by simp [kindOf]
theorem exDec : Spec.Protobuf.decode (.struct exFs) [] = some (.struct (Spec.Protobuf.zeroFields exFs)) := by
  rw [decode_flat exFs exFlat]; simp [parse, foldS]

/-- the template `{"A":5}` applied to the empty message of `struct { A int64; B string }`: the output decodes to `{5, ""}` -/
example : ∃ tree out, parseTemplate (fun _ _ => none) 4 (.msg exT) (.obj (.cons [0x41] (.num [0x35] .f64) .nil)) [] = .ok tree ∧
    (∀ F, 8 ≤ F → rewriteT F tree [] = .ok out) ∧
    Spec.Protobuf.decode (.struct exFs) out = some (.struct (.cons (.int 5) (.cons (.str []) .nil))) := by
  obtain ⟨tree, out, h1, h2, h3⟩ := template_rewrite_value_single (fun _ _ => none) exPF exFs exFlat exT [0x41] (.num [0x35] .f64)
    1 0 { number := 1 } (.int .i64) .int64 exName exFind exKind (by decide) (by decide) (by simp [gvString])
    (.int 5) exLeaf [] (Spec.Protobuf.zeroFields exFs) (by decide) exDec 0
  exact ⟨tree, out, h1, fun F hF => h2 F (by simpa using hF), by simpa [exFs, Spec.Protobuf.zeroFields, Spec.Protobuf.zeroOf, valsSet] using h3⟩

/-- the new leaf kinds are in the universe: a zig-zag int32 field, a fixed32 field, a float field (protoc tags them fixed32) -/
example : kindOf (.int .i32) { number := 1, zigzag := true } = some .sint32 := by simp [kindOf]
example : kindOf (.int .u32) { number := 1, fixed := true } = some .fix32 := by simp [kindOf]
example : kindOf (.int .i64) { number := 1, fixed := true } = some .sfix64 := by simp [kindOf]
example : kindOf .f32 { number := 1, fixed := true } = some .float := by simp [kindOf]
/-- a float member relative to a `pf` that knows the literal `1.5` -/
example : leafVal (fun lit bits => if lit = [0x31, 0x2e, 0x35] ∧ bits = 32 then some 0x3fc00000 else none) .float
    (.num [0x31, 0x2e, 0x35] .f64) = some (.float 0x3fc00000) := by
  simp [leafVal, gvFloat, floatRead, floatIsZero]

/-- `leaf_sem` on a member of the wrong JSON kind: a string for an int64 field is the json error -/
example : parseLeaf (fun _ _ => none) .int64 1 (.str [0x61]) = .err "json" := by simp [parseLeaf, gvInt]

/-- an unknown member name is rejected -/
example : keysKnown exT (.cons [0x5a] .null .nil) = false := by simp [keysKnown, exT, lookupFieldByName]

theorem exFindB : findField exFs 2 = some (1, { number := 2 }, .str) := by
  simp [exFs, findField, findField.go, Enc.Lemmas.ProtoWire.fieldOpt_empty]

/-- the presented type of `struct { A int64; B string }` satisfies `PresOK` -/
theorem exPres : PresOK exFs exT := by
  have key : ∀ k n rep tt, lookupFieldByName exT k = some (n, rep, tt) →
      (k = [0x41] ∧ n = 1 ∧ rep = false ∧ tt = .prim .int64) ∨ (k = [0x42] ∧ n = 2 ∧ rep = false ∧ tt = .prim .string) := by
    intro k n rep tt h
    simp only [exT, lookupFieldByName] at h
    by_cases h2 : ([0x42] : Bytes) = k
    · subst h2; right; simp at h; simp [h]
    · by_cases h1 : ([0x41] : Bytes) = k
      · subst h1; left; simp at h; simp [h]
      · simp [h1, h2] at h
  refine ⟨?_, ?_⟩
  · intro k n rep tt h
    rcases key k n rep tt h with ⟨_, rfl, rfl, rfl⟩ | ⟨_, rfl, rfl, rfl⟩
    · exact ⟨rfl, .int64, 0, _, _, rfl, exFind, exKind, by decide, by decide⟩
    · exact ⟨rfl, .string, 1, _, _, rfl, exFindB, by simp [kindOf], by decide, by decide⟩
  · intro k k' n a b a' b' h h'
    rcases key k n a b h with ⟨rfl, rfl, _⟩ | ⟨rfl, rfl, _⟩ <;> rcases key k' _ a' b' h' with ⟨rfl, hn, _⟩ | ⟨rfl, hn, _⟩ <;>
      first | rfl | (exact absurd hn (by decide))

/-- the two-member template `{"A":5,"B":"x"}` has distinct keys -/
example : KeysNodup (.cons [0x41] (.num [0x35] .f64) (.cons [0x42] (.str [0x78]) .nil)) := by
  simp [KeysNodup, GMem]

#print axioms template_rewrite_value_flat
#print axioms rewriteT_eq_rewrite
#print axioms message_rewrite_value
#print axioms leaf_sem
#print axioms template_rewrite_value_single
#print axioms parseStruct_unknown_rejected
#print axioms bitor_int64
#print axioms bitor_sint64_wrong

end Enc.Lemmas.ProtoTemplate
