import Enc.Lemmas.ProtoScanList
import Enc.Lemmas.ProtoLiberalConvTok
import Enc.Spec.ProtoRecords
/-!
# Lemmas for C07 — `Scan` enumerates exactly the records of the reference wire parser
-/
namespace Enc.Lemmas.ProtoScan
open Enc Enc.Model.Proto Enc.Model.ProtoScan Enc.Lemmas.ProtoDecode
open Enc.Spec.Protobuf (readVarint splitBody recordsAux records RawRec)

/-! ## one step -/

theorem readVarint_none (b : Bytes) (h : readVarint b = none) : ∃ e, decodeVarint b = .err e := by
  cases hd : decodeVarint b with
  | ok r => exact absurd hd (ProtoLiberal.go_none b 0 0 _ _ h r)
  | err e => exact ⟨e, rfl⟩
  | panic e => exact absurd hd (decodeVarint_ne_panic b e)

theorem readVarint_some (b rest : Bytes) (val : Nat) (h : readVarint b = some (val, rest)) :
    ∃ v n, decodeVarint b = .ok (v, n) ∧ v.toNat = val ∧ n ≤ b.length ∧ b.drop n = rest := by
  obtain ⟨v, n, h1, h2, _, h4, h5, _⟩ := ProtoRewriteSpec.decodeVarint_of_readVarint b rest val h
  exact ⟨v, n, h1, h2, h4, h5⟩

theorem body_zero (m : Bytes) : body 0 m = match decodeVarint m with
    | .ok (_, k) => .ok (m.take k, m.drop k)
    | .err e => .err e
    | .panic e => .panic e := rfl
theorem body_one (m : Bytes) :
    body 1 m = if m.length < 8 then .err "unexpectedEof" else .ok (m.take 8, m.drop 8) := rfl
theorem body_two (m : Bytes) : body 2 m = match decodeVarint m with
    | .ok (l, k) =>
      if m.length - k < l.toNat then .err "unexpectedEof" else .ok ((m.drop k).take l.toNat, m.drop (k + l.toNat))
    | .err e => .err e
    | .panic e => .panic e := rfl
theorem body_five (m : Bytes) :
    body 5 m = if m.length < 4 then .err "unexpectedEof" else .ok (m.take 4, m.drop 4) := rfl
theorem body_other (w : Nat) (m : Bytes) (h0 : w ≠ 0) (h1 : w ≠ 1) (h2 : w ≠ 2) (h5 : w ≠ 5) :
    body w m = .err "invalidWireType" := by
  simp only [body, h0, h1, h2, h5, if_false]

theorem splitBody_other (w : Nat) (m : Bytes) (h0 : w ≠ 0) (h1 : w ≠ 1) (h2 : w ≠ 2) (h5 : w ≠ 5) :
    splitBody w m = none := by
  unfold splitBody
  split <;> first | contradiction | rfl

theorem splitBody_bridge (w : Nat) (r1 : Bytes) :
    match splitBody w r1 with
    | none => ∃ e, body w r1 = .err e
    | some (p, rest) => body w r1 = .ok (p, rest) := by
  by_cases h0 : w = 0
  · subst h0
    rw [body_zero]
    simp only [splitBody]
    cases hr : readVarint r1 with
    | none =>
      obtain ⟨e, he⟩ := readVarint_none r1 hr
      simp only [Option.map_none, he]; exact ⟨e, rfl⟩
    | some q =>
      obtain ⟨val, r2⟩ := q
      obtain ⟨v, n, h1, _, h3, h4⟩ := readVarint_some r1 r2 val hr
      simp only [Option.map_some, h1]
      rw [← h4, List.length_drop]
      have : r1.length - (r1.length - n) = n := by omega
      rw [this]
  by_cases h1 : w = 1
  · subst h1
    rw [body_one]
    simp only [splitBody]
    by_cases hc : r1.length < 8
    · simp only [hc, if_true]; exact ⟨_, rfl⟩
    · simp only [hc, if_false]
  by_cases h2 : w = 2
  · subst h2
    rw [body_two]
    simp only [splitBody]
    cases hr : readVarint r1 with
    | none =>
      obtain ⟨e, he⟩ := readVarint_none r1 hr
      simp only [Option.bind_none, he]; exact ⟨e, rfl⟩
    | some q =>
      obtain ⟨val, r2⟩ := q
      obtain ⟨v, n, h1, h2, h3, h4⟩ := readVarint_some r1 r2 val hr
      simp only [Option.bind_some, h1, h2]
      rw [← h4, List.length_drop]
      by_cases hc : r1.length - n < val
      · simp only [hc, if_true]; exact ⟨_, rfl⟩
      · simp only [hc, if_false, List.drop_drop]
  by_cases h5 : w = 5
  · subst h5
    rw [body_five]
    simp only [splitBody]
    by_cases hc : r1.length < 4
    · simp only [hc, if_true]; exact ⟨_, rfl⟩
    · simp only [hc, if_false]
  · rw [body_other w r1 h0 h1 h2 h5, splitBody_other w r1 h0 h1 h2 h5]
    exact ⟨_, rfl⟩

theorem tag_split (v : BitVec 64) : (v &&& 7#64).toNat = v.toNat % 8 ∧ (v >>> 3).toNat = v.toNat / 8 := by
  constructor
  · rw [BitVec.toNat_and]
    exact Nat.and_two_pow_sub_one_eq_mod v.toNat 3
  · rw [BitVec.toNat_ushiftRight, Nat.shiftRight_eq_div_pow]

theorem parseN_bridge (b : Bytes) :
    match readVarint b with
    | none => ∃ e, parseN b = .err e
    | some (tag, r1) =>
      match splitBody (tag % 8) r1 with
      | none => ∃ e, parseN b = .err e
      | some (p, rest) => parseN b = .ok (tag / 8, tag % 8, p, rest) := by
  cases hr : readVarint b with
  | none =>
    obtain ⟨e, he⟩ := readVarint_none b hr
    simp only [parseN, he]; exact ⟨e, rfl⟩
  | some q =>
    obtain ⟨tag, r1⟩ := q
    obtain ⟨v, n, h1, h2, h3, h4⟩ := readVarint_some b r1 tag hr
    have ht := tag_split v
    rw [h2] at ht
    simp only [parseN, h1, ht.1, ht.2, h4]
    have hb := splitBody_bridge (tag % 8) r1
    cases hs : splitBody (tag % 8) r1 with
    | none =>
      rw [hs] at hb
      obtain ⟨e, he⟩ := hb
      simp only [he, Res.bind]; exact ⟨e, rfl⟩
    | some q =>
      obtain ⟨p, rest⟩ := q
      rw [hs] at hb
      simp only [hb, Res.bind]

/-! ## the loop -/

def strip (r : RawRec) : Nat × Nat × Bytes := (r.num, r.wire, r.payload)

theorem recordsAux_none (fuel : Nat) (c : UInt8) (cs : Bytes) (h : readVarint (c :: cs) = none) :
    recordsAux (fuel + 1) (c :: cs) = ([], false) := by
  simp only [recordsAux, h]

theorem recordsAux_some_none (fuel : Nat) (c : UInt8) (cs r1 : Bytes) (tag : Nat)
    (h : readVarint (c :: cs) = some (tag, r1)) (h2 : splitBody (tag % 8) r1 = none) :
    recordsAux (fuel + 1) (c :: cs) = ([], false) := by
  simp only [recordsAux, h, h2]

theorem recordsAux_some_some (fuel : Nat) (c : UInt8) (cs r1 p rest : Bytes) (tag : Nat)
    (h : readVarint (c :: cs) = some (tag, r1)) (h2 : splitBody (tag % 8) r1 = some (p, rest)) :
    recordsAux (fuel + 1) (c :: cs) =
      ({ num := tag / 8, wire := tag % 8, payload := p, raw := (c :: cs).take ((c :: cs).length - rest.length) }
        :: (recordsAux fuel rest).1, (recordsAux fuel rest).2) := by
  simp only [recordsAux, h, h2]

/-- **Scan = the reference record list.** With the same fuel, the loop over `Parse` enumerates exactly the records
the reference parser reads before the first malformed position, and fails exactly when the reference flag is false. -/
theorem parseList_records (fuel : Nat) : ∀ (b : Bytes), GoLen b →
    ∃ e, parseList fuel b = ((recordsAux fuel b).1.map strip, if (recordsAux fuel b).2 then .ok () else .err e) := by
  induction fuel with
  | zero => intro b _; exact ⟨"fuel", by simp [parseList, recordsAux]⟩
  | succ fuel ih =>
    intro b hb
    cases b with
    | nil => exact ⟨"", by simp [parseList, recordsAux]⟩
    | cons c cs =>
      have hbr := parseN_bridge (c :: cs)
      simp only [parseList, List.length_cons, Nat.add_one_ne_zero, beq_iff_eq, if_false]
      rw [parse_eq _ hb]
      cases hr : readVarint (c :: cs) with
      | none =>
        rw [hr] at hbr
        obtain ⟨e, he⟩ := hbr
        rw [recordsAux_none fuel c cs hr]
        exact ⟨e, by simp [he]⟩
      | some q =>
        obtain ⟨tag, r1⟩ := q
        rw [hr] at hbr
        simp only [] at hbr
        cases hs : splitBody (tag % 8) r1 with
        | none =>
          rw [hs] at hbr
          obtain ⟨e, he⟩ := hbr
          rw [recordsAux_some_none fuel c cs r1 tag hr hs]
          exact ⟨e, by simp [he]⟩
        | some q =>
          obtain ⟨p, rest⟩ := q
          rw [hs] at hbr
          simp only [] at hbr
          rw [recordsAux_some_some fuel c cs r1 p rest tag hr hs, hbr]
          have hs2 := parse_shorter (c :: cs) hb _ _ _ _ (by rw [parse_eq _ hb]; exact hbr)
          obtain ⟨e, he⟩ := ih rest hs2.2
          exact ⟨e, by simp [he, strip]⟩

theorem scanList_records (b : Bytes) (hb : GoLen b) :
    ∃ e, scanList b = ((records b).1.map strip, if (records b).2 then .ok () else .err e) := by
  rw [scanList_eq_fields]
  exact parseList_records (b.length + 1) b hb

/-! ## framing of the reference records -/

/-- every reference record is one complete field (its payload is the tail of its `raw` bytes), the `raw` chunks are
consecutive from the start of the input, and they cover the whole input exactly when the flag is true -/
theorem recordsAux_frame (fuel : Nat) : ∀ (b : Bytes),
    (∀ r ∈ (recordsAux fuel b).1, IsField r.num r.wire r.payload r.raw) ∧
    ∃ tail, b = ((recordsAux fuel b).1.map (·.raw)).flatten ++ tail ∧ ((recordsAux fuel b).2 = true → tail = []) := by
  induction fuel with
  | zero => intro b; exact ⟨by simp [recordsAux], b, by simp [recordsAux]⟩
  | succ fuel ih =>
    intro b
    cases b with
    | nil => exact ⟨by simp [recordsAux], [], by simp [recordsAux]⟩
    | cons c cs =>
      have hbr := parseN_bridge (c :: cs)
      cases hr : readVarint (c :: cs) with
      | none => rw [recordsAux_none fuel c cs hr]; exact ⟨by simp, c :: cs, by simp⟩
      | some q =>
        obtain ⟨tag, r1⟩ := q
        rw [hr] at hbr
        simp only [] at hbr
        cases hs : splitBody (tag % 8) r1 with
        | none => rw [recordsAux_some_none fuel c cs r1 tag hr hs]; exact ⟨by simp, c :: cs, by simp⟩
        | some q =>
          obtain ⟨p, rest⟩ := q
          rw [hs] at hbr
          simp only [] at hbr
          rw [recordsAux_some_some fuel c cs r1 p rest tag hr hs]
          obtain ⟨fld, e, hf⟩ := (parseN_ok_iff _ _ _ _ _).mp hbr
          have hraw : (c :: cs).take ((c :: cs).length - rest.length) = fld := by
            rw [e, List.length_append, Nat.add_sub_cancel, List.take_left]
          rw [hraw]
          obtain ⟨h1, tail, h2, h3⟩ := ih rest
          refine ⟨?_, tail, ?_, h3⟩
          · intro r hr
            simp only [List.mem_cons] at hr
            rcases hr with rfl | hr
            · exact hf
            · exact h1 r hr
          · simp only [List.map_cons, List.flatten_cons, List.append_assoc]
            rw [← h2, e]

theorem records_frame (b : Bytes) :
    (∀ r ∈ (records b).1, IsField r.num r.wire r.payload r.raw) ∧
    ∃ tail, b = ((records b).1.map (·.raw)).flatten ++ tail ∧ ((records b).2 = true → tail = []) :=
  recordsAux_frame (b.length + 1) b

end Enc.Lemmas.ProtoScan
