import Enc.Lemmas.JsonCodecChoiceEvo
import Enc.Lemmas.JsonCodecChoiceEmb
/-!
# `choose_eq_std` for every type: struct types, embedding, the `string` option, recursion through `seen`

Part 1 (this file): the local facts — shapes of construction results, the `string` option.
-/
set_option linter.unusedSimpArgs false
set_option linter.unusedVariables false
namespace Enc.Lemmas.JsonCodecChoiceShape
open Enc.Model.Json.CodecChoice Enc.Spec.Json.StdCodecChoice Enc.Spec.Json.EmbedCycle
open Enc.Lemmas.JsonCodecChoiceSeen Enc.Lemmas.JsonCodecChoiceStd Enc.Lemmas.JsonCodecChoiceEvo Enc.Lemmas.JsonCodecChoiceEmb
open Enc.Lemmas.JsonCodecChoiceTerm (under_ref_not_special under_ref_ne)

theorem normCL_append : ∀ (a b : CL), normCL (a.append b) = (normCL a).append (normCL b)
  | .nil, b => by simp [CL.append, normCL]
  | .cons n t c r, b => by simp [CL.append, normCL, normCL_append r b]

theorem mapChoice_append (g : Choice → Choice) : ∀ (a b : CL), (a.append b).mapChoice g = (a.mapChoice g).append (b.mapChoice g)
  | .nil, b => by simp [CL.append, CL.mapChoice]
  | .cons n t c r, b => by simp [CL.append, CL.mapChoice, mapChoice_append g r b]

theorem normCL_embed : ∀ (a : CL), normCL (a.mapChoice .embedPtr) = (normCL a).mapChoice .embedPtr
  | .nil => by simp [CL.mapChoice, normCL]
  | .cons n t c r => by simp [CL.mapChoice, normCL, norm, normCL_embed r]

theorem mapChoice_underEmbed_embed (g : Choice → Choice) : ∀ (a : CL),
    (a.mapChoice .embedPtr).mapChoice (underEmbed g) = (a.mapChoice (underEmbed g)).mapChoice .embedPtr
  | .nil => by simp [CL.mapChoice]
  | .cons n t c r => by simp [CL.mapChoice, underEmbed, mapChoice_underEmbed_embed g r]

def plain : Choice → Bool
  | .embedPtr _ | .inlineValue _ | .nilOrQuoted .. | .quoted _ | .keyNilPtr _ | .special _ | .cut => false
  | _ => true

theorem norm_plain (c : Choice) (h : plain c = true) : plain (norm c) = true := by
  cases c <;> simp [plain] at h <;> simp [norm, plain]

theorem underEmbed_plain (g : Choice → Choice) (c : Choice) (h : plain c = true) : underEmbed g c = g c := by
  cases c <;> simp [plain] at h <;> rfl

theorem kind_plain (codec : CodecFn) (strct : StructFn) (env : Env) (t u : TD) (a : Bool) (s s1 : Seen) (c1 : Choice)
    (h : kindF codec strct env t u a s = some (c1, s1)) : plain c1 = true := by
  unfold kindF at h
  split at h
  · simp at h; rw [← h.1]; rfl
  · simp at h; rw [← h.1]; rfl
  · simp at h; rw [← h.1]; rfl
  · simp at h; rw [← h.1]; rfl
  · simp at h; rw [← h.1]; rfl
  · rename_i n e
    cases h1 : codec e a s with
    | none => simp [h1] at h
    | some r => obtain ⟨x, y⟩ := r; simp [h1] at h; rw [← h.1]; rfl
  · rename_i e
    split at h
    · simp at h; rw [← h.1]; unfold byteSliceChoice; (repeat' split) <;> rfl
    · cases h1 : codec e true s with
      | none => simp [h1] at h
      | some r => obtain ⟨x, y⟩ := r; simp [h1] at h; rw [← h.1]; rfl
  · rename_i k v
    split at h
    · simp at h; rw [← h.1]; rfl
    · cases h1 : codec v false s with
      | none => simp [h1] at h
      | some r =>
        obtain ⟨x, y⟩ := r; simp only [h1] at h
        cases h2 : mapKeyF codec env k y with
        | none => simp [h2] at h
        | some r2 =>
          obtain ⟨kr, z⟩ := r2; simp only [h2] at h
          cases kr <;> simp at h <;> rw [← h.1] <;> rfl
  · cases h1 : strct t a none s with
    | none => simp [h1] at h
    | some r => obtain ⟨x, y⟩ := r; simp [h1] at h; rw [← h.1]; cases x <;> rfl
  · rename_i e
    cases h1 : codec e true s with
    | none => simp [h1] at h
    | some r => obtain ⟨x, y⟩ := r; simp [h1] at h; rw [← h.1]; rfl
  · simp at h; rw [← h.1]; rfl

theorem override_plain (env : Env) (t : TD) (a : Bool) (c : Choice) (h : plain c = true) :
    plain (marshalerOverride env t a c) = true := by
  unfold marshalerOverride; (repeat' split) <;> first | rfl | exact h

theorem codec_plain (env : Env) (f : Nat) (t : TD) (a : Bool) (s s' : Seen) (c : Choice)
    (h : codecF f env t a s = some (c, s')) :
    (plain c = true ∧ ∀ sp, t ≠ .special sp) ∨ ∃ sp, t = .special sp ∧ c = .special sp := by
  cases f with
  | zero => simp [codecF] at h
  | succ f =>
    rw [codecF] at h
    cases hfs : firstSwitch t with
    | some c0 =>
      simp [hfs] at h
      rw [← h.1]
      unfold firstSwitch at hfs
      split at hfs <;> simp at hfs <;> subst hfs <;>
        first | (left; exact ⟨rfl, by intro sp hsp; cases hsp⟩) | (right; exact ⟨_, rfl, rfl⟩)
    | none =>
      left
      refine ⟨?_, by intro sp hsp; subst hsp; simp [firstSwitch] at hfs⟩
      simp only [hfs] at h
      split at h
      · simp at h; rw [← h.1]; rfl
      · rename_i hcond
        generalize hsin : (if (isRef t && isComposite (under env t)) = true then s.set (t, false) (Entry.building (t, false)) else s) = sin at h
        cases hk : kindF (codecF f env) (structF f env) env t (under env t) a sin with
        | none => simp [hk] at h
        | some r =>
          obtain ⟨c1, s1⟩ := r
          simp [hk] at h
          rw [← h.1]
          exact override_plain env t a c1 (kind_plain _ _ env t _ a _ s1 c1 hk)

/-- a scalar leaf: what the `string` option quotes -/
def scalarLeaf : Choice → Bool
  | .prim _ | .special .number | .special .duration => true
  | _ => false

def mLeaf : Choice → Bool
  | .mjDirect | .mjAddr | .mtDirect | .mtAddr => true
  | _ => false

theorem under_scalar_cases (env : Env) (t : TD) (h : isScalarKind (under env t) = true) :
    t = .special .duration ∨ t = .special .number ∨
      ∃ k, under env t = .prim k ∧ k ≠ .chan ∧ k ≠ .complex ∧ firstSwitch t = none := by
  cases t with
  | special s => cases s <;> simp [under, isScalarKind, isIntKind, isStringKind] at h <;> simp
  | prim k =>
    right; right
    refine ⟨k, by simp [under], ?_, ?_, by simp [firstSwitch]⟩ <;>
      (intro e; subst e; simp [under, isScalarKind, isIntKind, isStringKind] at h)
  | ref id =>
    right; right
    cases hu : under env (.ref id) <;> simp [hu, isScalarKind, isIntKind, isStringKind] at h
    · rename_i k
      refine ⟨k, rfl, ?_, ?_, by simp [firstSwitch]⟩ <;> (intro e; subst e; simp at h)
    · exact absurd hu (under_ref_not_special env id _)
  | _ => simp [under, isScalarKind, isIntKind, isStringKind] at h

/-- the construction for a type of a scalar kind: no `seen`, the encoder of the kind under the marshaler switch -/
theorem scalarCodec (env : Env) (f : Nat) (t : TD) (a : Bool) (s s' : Seen) (c : Choice)
    (hsc : isScalarKind (under env t) = true) (h : codecF f env t a s = some (c, s')) :
    s' = s ∧ ((∃ sp, t = .special sp ∧ c = .special sp ∧ scalarLeaf c = true) ∨
      (∃ k, under env t = .prim k ∧ c = marshalerOverride env t a (.prim k))) := by
  cases f with
  | zero => simp [codecF] at h
  | succ f =>
    rw [codecF] at h
    rcases under_scalar_cases env t hsc with rfl | rfl | ⟨k, hu, hc1, hc2, hfs⟩
    · simp [firstSwitch] at h; exact ⟨h.2.symm, .inl ⟨_, rfl, h.1.symm, by rw [← h.1]; rfl⟩⟩
    · simp [firstSwitch] at h; exact ⟨h.2.symm, .inl ⟨_, rfl, h.1.symm, by rw [← h.1]; rfl⟩⟩
    · simp only [hfs, hu] at h
      have hn : (isRef t && isComposite (TD.prim k)) = false := by simp [isComposite]
      simp only [hn, Bool.false_and, Bool.false_eq_true, if_false] at h
      have hk : kindF (codecF f env) (structF f env) env t (.prim k) a s = some (.prim k, s) := by
        unfold kindF
        cases k <;> simp at hc1 hc2 <;> rfl
      simp only [hk] at h
      simp at h
      exact ⟨h.2.symm, .inr ⟨k, hu, h.1.symm⟩⟩

/-- for a type of a scalar kind `hasMarshaler` says whether the marshaler switch replaces the encoder of the kind -/
theorem hasMarshaler_prim (env : Env) (t : TD) (a : Bool) (k : Kind) (hu : under env t = .prim k) :
    (hasMarshaler env t a = true → ∃ m, mLeaf m = true ∧ ∀ x, marshalerOverride env t a x = m) ∧
    (hasMarshaler env t a = false → ∀ x, marshalerOverride env t a x = x) := by
  have h1 := implT_implPtr_prim env .mj t k hu
  have h2 := implT_implPtr_prim env .mt t k hu
  unfold hasMarshaler marshalerOverride
  simp only [hu, isPtrKind]
  revert h1 h2
  cases implT env .mj t <;> cases implT env .mt t <;> cases implPtr env .mj t <;> cases implPtr env .mt t <;>
    cases a <;> simp [mLeaf]

theorem override_ptr (env : Env) (e : TD) (a : Bool) :
    (∃ m, mLeaf m = true ∧ ∀ x, marshalerOverride env (.ptr e) a x = m) ∨ (∀ x, marshalerOverride env (.ptr e) a x = x) := by
  have hp : ∀ m, implPtr env m (.ptr e) = false := fun m => implPtr_ptrKind env m _ (by simp [under, isPtrKind])
  unfold marshalerOverride
  simp only [hp]
  cases implT env .mj (.ptr e) <;> cases implT env .mt (.ptr e) <;> cases a <;> simp [mLeaf]

/-- when `*T` has a marshaling method, the marshaler switch of the pointer type `*T` fires -/
theorem override_ptr_of_has (env : Env) (typ : TD) (a : Bool) (k : Kind) (hu : under env typ = .prim k)
    (h : hasMarshaler env typ true = true) : ∃ m, mLeaf m = true ∧ ∀ x, marshalerOverride env (.ptr typ) a x = m := by
  have hp : ∀ m, implPtr env m (.ptr typ) = false := fun m => implPtr_ptrKind env m _ (by simp [under, isPtrKind])
  unfold hasMarshaler at h
  simp only [hu, isPtrKind] at h
  unfold marshalerOverride
  simp only [hp, implT]
  revert h
  cases implPtr env .mj typ <;> cases implPtr env .mt typ <;> cases a <;> simp [mLeaf]

theorem override_ptr_of_not (env : Env) (typ : TD) (a : Bool) (k : Kind) (hu : under env typ = .prim k)
    (h : hasMarshaler env typ true = false) : ∀ x, marshalerOverride env (.ptr typ) a x = x := by
  have hp : ∀ m, implPtr env m (.ptr typ) = false := fun m => implPtr_ptrKind env m _ (by simp [under, isPtrKind])
  unfold hasMarshaler at h
  simp only [hu, isPtrKind] at h
  unfold marshalerOverride
  simp only [hp, implT]
  revert h
  cases implPtr env .mj typ <;> cases implPtr env .mt typ <;> cases a <;> simp [mLeaf]

/-- the construction for an unnamed pointer type -/
theorem ptrCodec_shape (env : Env) (f : Nat) (e : TD) (a : Bool) (s s' : Seen) (c : Choice)
    (h : codecF f env (.ptr e) a s = some (c, s')) :
    (∃ sp, e = .special sp ∧ c = .ptr (.special sp) ∧ s' = s) ∨
    (∃ f' ce, f = f' + 1 ∧ (∀ sp, e ≠ .special sp) ∧ codecF f' env e true s = some (ce, s') ∧
        c = marshalerOverride env (.ptr e) a (.ptr ce)) := by
  cases f with
  | zero => simp [codecF] at h
  | succ f =>
    rw [codecF] at h
    cases hfs : firstSwitch (.ptr e) with
    | some c0 =>
      left
      simp [hfs] at h
      unfold firstSwitch at hfs
      split at hfs <;> simp at hfs
      all_goals (rename_i heq; cases heq)
      exact ⟨_, rfl, by rw [← h.1, ← hfs], h.2.symm⟩
    | none =>
      right
      have hne : ∀ sp, e ≠ .special sp := not_special_of_firstSwitch_ptr e hfs
      simp only [hfs] at h
      have hn : (isRef (.ptr e) && isComposite (under env (.ptr e))) = false := by simp [isRef]
      simp only [hn, Bool.false_and, Bool.false_eq_true, if_false] at h
      have hu : under env (.ptr e) = .ptr e := by simp [under]
      rw [hu] at h
      simp only [kindF] at h
      cases hc : codecF f env e true s with
      | none => simp [hc] at h
      | some r =>
        obtain ⟨ce, s1⟩ := r
        simp [hc] at h
        exact ⟨f, ce, rfl, hne, by rw [hc, h.2], h.1.symm⟩

/-! ## the `string` option -/

theorem underEmbed_ne (g : Choice → Choice) (c : Choice) (h : ∀ x, c ≠ .embedPtr x) : underEmbed g c = g c := by
  cases c <;> first | rfl | exact absurd rfl (h _)

theorem expandN_mleaf (env : Env) (T : Seen) (d : Nat) (m : Choice) (h : mLeaf m = true) : expandN (d + 1) env T m = m := by
  cases m <;> simp [mLeaf] at h <;> simp [expandN, resolve]

theorem pushQuoted_mleaf (m : Choice) (h : mLeaf m = true) : pushQuoted m = m := by
  cases m <;> simp [mLeaf] at h <;> rfl

theorem norm_mleaf (m : Choice) (h : mLeaf m = true) : norm m = m := by
  cases m <;> simp [mLeaf] at h <;> simp [norm]

theorem norm_scalarLeaf (m : Choice) (h : scalarLeaf m = true) : norm m = m := by
  cases m <;> simp [scalarLeaf] at h <;> simp [norm]

theorem pushQuoted_scalarLeaf (m : Choice) (h : scalarLeaf m = true) : pushQuoted m = .quoted m := by
  cases m <;> simp [scalarLeaf] at h
  · rfl
  · rename_i sp; cases sp <;> simp at h <;> rfl

theorem expandN_scalarLeaf (env : Env) (T : Seen) (d : Nat) (m : Choice) (h : scalarLeaf m = true) :
    expandN (d + 1) env T m = m := by
  cases m <;> simp [scalarLeaf] at h <;> simp [expandN, resolve]

theorem expandN_quoted (env : Env) (T : Seen) (d : Nat) (m : Choice) : expandN (d + 1) env T (.quoted m) = .quoted m := by
  simp [expandN, resolve]

/-- `ptr (quoted L)` for a scalar leaf L, against `pushQuoted` of `ptr L` -/
theorem expandN_ptr_quoted (env : Env) (T : Seen) (d : Nat) (L : Choice) (h : scalarLeaf L = true) :
    expandN d env T (.ptr (.quoted L)) = pushQuoted (expandN d env T (.ptr L)) := by
  cases d with
  | zero => simp [expandN, pushQuoted]
  | succ d =>
    cases L <;> simp [scalarLeaf] at h
    · rename_i k
      cases d with
      | zero => simp [expandN, resolve, pushQuoted]
      | succ d => simp [expandN, resolve, pushQuoted]
    · rename_i sp
      cases sp <;> simp at h <;> simp [expandN, resolve, pushQuoted]

theorem peel_ne (ft : TD) (h : (peel ft != ft) = true) : ∃ e, ft = .ptr e := by
  cases ft <;> simp [peel] at h
  exact ⟨_, rfl⟩

theorem hasMarshaler_special (env : Env) (sp : Special) (a : Bool) (h : scalarLeaf (.special sp) = true) :
    hasMarshaler env (.special sp) a = false := by
  cases sp <;> simp [scalarLeaf] at h <;>
    cases a <;> simp [hasMarshaler, under, isPtrKind, isIfaceKind, implPtr, implT, declared, specialMeths, noMeths, Meths.get]

theorem stringify_sem (env : Env) (f : Nat) (a : Bool) (ft : TD) (c c' : Choice) (s0 s1 s2 : Seen) (d : Nat) (T : Seen)
    (hc : codecF f env ft a s0 = some (c, s1))
    (h : stringifyF (codecF f env) env a ft c s1 = some (c', s2))
    (E : expandN d env T (norm c) = stdD d env ft a) :
    underEmbed (expandN d env T) (norm c') =
      if quotedOK env ft then pushQuoted (stdD d env ft a) else stdD d env ft a := by
  have hplain : ∀ x, norm c ≠ .embedPtr x := by
    rcases codec_plain env f ft a s0 s1 c hc with ⟨hp, _⟩ | ⟨sp, _, rfl⟩
    · have := norm_plain c hp
      intro x hx; rw [hx] at this; simp [plain] at this
    · intro x hx; simp [norm] at hx
  unfold stringifyF at h
  simp only at h
  unfold quotedOK
  by_cases hpe : (peel ft != ft) = true
  · -- an unnamed pointer type `*typ`
    obtain ⟨typ, rfl⟩ := peel_ne ft hpe
    simp only [hpe, if_true] at h
    have hpeel : peel (.ptr typ) = typ := rfl
    simp only [hpeel] at h ⊢
    cases hp : codecF f env (.ptr typ) a s1 with
    | none => simp [hp] at h
    | some r =>
      obtain ⟨p, s3⟩ := r
      simp only [hp] at h
      simp only [Bool.or_true] at h
      simp at h
      obtain ⟨hc', _⟩ := h
      -- the shapes of c and p
      have hshape : (∃ m, mLeaf m = true ∧ c = m ∧ p = m) ∨ (∃ x y, c = .ptr x ∧ p = .ptr y) := by
        rcases ptrCodec_shape env f typ a s0 s1 c hc with ⟨sp, rfl, rfl, _⟩ | ⟨f1, ce, _, _, _, rfl⟩
        · rcases ptrCodec_shape env f (.special sp) a s1 s3 p hp with ⟨sp', hsp, rfl, _⟩ | ⟨_, _, _, hne, _, _⟩
          · exact .inr ⟨_, _, rfl, rfl⟩
          · exact absurd rfl (hne sp)
        · rcases ptrCodec_shape env f typ a s1 s3 p hp with ⟨sp, rfl, rfl, _⟩ | ⟨f2, pe, _, _, _, rfl⟩
          · rename_i hne _ _; exact absurd rfl (hne sp)
          · rcases override_ptr env typ a with ⟨m, hm, hall⟩ | hid
            · exact .inl ⟨m, hm, hall _, hall _⟩
            · exact .inr ⟨_, _, hid _, hid _⟩
      by_cases hq : (isScalarKind (under env typ) = true ∧ hasMarshaler env typ true = false)
      · -- quoted
        obtain ⟨hsc, hnm⟩ := hq
        simp only [hsc, hnm, if_true, Bool.false_eq_true, if_false] at hc' ⊢
        -- c = ptr L for a scalar leaf L
        have hL : ∃ L, scalarLeaf L = true ∧ c = .ptr L := by
          rcases ptrCodec_shape env f typ a s0 s1 c hc with ⟨sp, rfl, rfl, _⟩ | ⟨f1, ce, _, hne, hce, rfl⟩
          · refine ⟨.special sp, ?_, rfl⟩
            cases sp <;> simp [under, isScalarKind, isIntKind, isStringKind] at hsc <;> rfl
          · obtain ⟨_, hcases⟩ := scalarCodec env f1 typ true s0 s1 ce hsc hce
            rcases hcases with ⟨sp, rfl, _, _⟩ | ⟨k, hu, rfl⟩
            · exact absurd rfl (hne sp)
            · rw [override_ptr_of_not env typ a k hu hnm, (hasMarshaler_prim env typ true k hu).2 hnm]
              exact ⟨_, rfl, rfl⟩
        obtain ⟨L, hL1, rfl⟩ := hL
        rcases hshape with ⟨m, hm, hcm, _⟩ | ⟨x, y, hx, rfl⟩
        · rw [← hcm] at hm; simp [mLeaf] at hm
        · rw [← hc']
          simp only [norm, norm_scalarLeaf L hL1]
          rw [underEmbed_ne _ _ (by intro z hz; cases hz)]
          simp only [norm, norm_scalarLeaf L hL1] at E
          rw [← E]
          exact expandN_ptr_quoted env T d L hL1
      · -- not quoted: the result means what c means
        have hqc : (if hasMarshaler env typ true = true then c
            else if isScalarKind (under env typ) = true then Choice.quoted c else c) = c := by
          by_cases h1 : hasMarshaler env typ true = true
          · simp [h1]
          · by_cases h2 : isScalarKind (under env typ) = true
            · exact absurd ⟨h2, by simpa using h1⟩ hq
            · simp [h1, h2]
        rw [hqc] at hc'
        have hnorm : norm c' = norm c := by
          rw [← hc']
          rcases hshape with ⟨m, hm, rfl, rfl⟩ | ⟨x, y, rfl, rfl⟩
          · cases p <;> simp [mLeaf] at hm <;> simp [norm]
          · simp [norm]
        rw [hnorm, underEmbed_ne _ _ hplain, E]
        by_cases hsc : isScalarKind (under env typ) = true
        · simp only [hsc, if_true]
          have hhm : hasMarshaler env typ true = true := by
            cases hh : hasMarshaler env typ true
            · exact absurd ⟨hsc, hh⟩ hq
            · rfl
          -- c is a marshaler leaf
          have hm : ∃ m, mLeaf m = true ∧ norm c = m := by
            rcases ptrCodec_shape env f typ a s0 s1 c hc with ⟨sp, rfl, rfl, _⟩ | ⟨f1, ce, _, hne, hce, rfl⟩
            · have := hasMarshaler_special env sp true (by
                cases sp <;> simp [under, isScalarKind, isIntKind, isStringKind] at hsc <;> rfl)
              rw [this] at hhm; cases hhm
            · rcases under_scalar_cases env typ hsc with rfl | rfl | ⟨k, hu, _, _, _⟩
              · exact absurd rfl (hne _)
              · exact absurd rfl (hne _)
              · obtain ⟨m, hm, hall⟩ := override_ptr_of_has env typ a k hu hhm
                exact ⟨m, hm, by rw [hall, norm_mleaf m hm]⟩
          obtain ⟨m, hm, hnm⟩ := hm
          rw [← E, hnm]
          cases d with
          | zero => simp [expandN, pushQuoted]
          | succ d => rw [expandN_mleaf env T d m hm, pushQuoted_mleaf m hm]
        · simp [hsc]
  · -- not an unnamed pointer type
    have hpe' : (peel ft != ft) = false := by simpa using hpe
    have hpeel : peel ft = ft := by simpa using hpe'
    simp only [hpe', Bool.false_eq_true, if_false, hpeel, Bool.or_false] at h ⊢
    simp at h
    obtain ⟨hc', _⟩ := h
    by_cases hsc : isScalarKind (under env ft) = true
    · simp only [hsc, if_true] at hc' ⊢
      obtain ⟨_, hcases⟩ := scalarCodec env f ft a s0 s1 c hsc hc
      rcases hcases with ⟨sp, rfl, rfl, hleaf⟩ | ⟨k, hu, rfl⟩
      · rw [hasMarshaler_special env sp a hleaf] at hc'
        simp at hc'
        rw [← hc']
        simp only [norm] at E ⊢
        rw [underEmbed_ne _ _ (by intro z hz; cases hz), ← E]
        cases d with
        | zero => simp [expandN, pushQuoted]
        | succ d => rw [expandN_quoted, expandN_scalarLeaf env T d _ hleaf, pushQuoted_scalarLeaf _ hleaf]
      · cases hhm : hasMarshaler env ft a with
        | true =>
          obtain ⟨m, hm, hall⟩ := (hasMarshaler_prim env ft a k hu).1 hhm
          simp only [hhm, if_true] at hc'
          rw [← hc', underEmbed_ne _ _ hplain, E]
          rw [hall, norm_mleaf m hm] at E
          rw [← E]
          cases d with
          | zero => simp [expandN, pushQuoted]
          | succ d => rw [expandN_mleaf env T d m hm, pushQuoted_mleaf m hm]
        | false =>
          have hid := (hasMarshaler_prim env ft a k hu).2 hhm
          simp only [hhm, Bool.false_eq_true, if_false] at hc'
          rw [← hc']
          rw [hid] at E ⊢
          simp only [norm] at E ⊢
          rw [underEmbed_ne _ _ (by intro z hz; cases hz), ← E]
          cases d with
          | zero => simp [expandN, pushQuoted]
          | succ d => simp [expandN, resolve, pushQuoted]
    · have hsc' : isScalarKind (under env ft) = false := by simpa using hsc
      simp only [hsc', Bool.false_eq_true, if_false, ite_self] at hc' ⊢
      rw [← hc', underEmbed_ne _ _ hplain, E]

end Enc.Lemmas.JsonCodecChoiceShape
