import Enc.Lemmas.ProtoTemplateLeaf
/-!
# `BitOr[T]` rewriters (`bitOrRW.Rewrite`) on varint payloads

`bitOrRewrite` decodes the old payload with the codec of the Go type `T` — NOT with the codec of the field — ORs the
mask, and re-encodes according to the field's kind. For a plain `int64` / `uint64` field this is `old ||| mask`
(`bitor_int64`, `bitor_uint64`). For a zig-zag field (`sint64`) the payload is the zig-zag IMAGE of the old value: the
code ORs the mask into the image and zig-zags the result again (`bitor_sint64_actual`), which is not `old ||| mask`
(`bitor_sint64_wrong`: the recorded finding `proto-bitor-zigzag-fixed`, as a theorem).
-/
namespace Enc.Lemmas.ProtoTemplate
open Enc Enc.Lemmas.ProtoRewriteSpec
open Enc.Model.Proto
open Enc.Model.Json (ITy)

theorem decodeVarint_encodeVarint (w : BitVec 64) :
    decodeVarint (encodeVarint w) = .ok (w, (encodeVarint w).length) ∧ 1 ≤ (encodeVarint w).length := by
  have hv : VTok (encodeVarint w) w.toNat := by
    have := vtok_encode w.toNat w.isLt
    rwa [BitVec.ofNat_toNat, BitVec.setWidth_eq] at this
  have := hv.dec []
  rw [List.append_nil, BitVec.ofNat_toNat, BitVec.setWidth_eq] at this
  exact ⟨this, hv.length_pos⟩

theorem unmarshal_i64 (w : BitVec 64) : unmarshal (.int .i64) (encodeVarint w) = .ok (.int w.toInt) := by
  obtain ⟨hd, hl⟩ := decodeVarint_encodeVarint w
  have hne : (encodeVarint w).isEmpty = false := by
    cases h : encodeVarint w with
    | nil => rw [h] at hl; simp at hl
    | cons => rfl
  unfold unmarshal
  rw [hne]
  simp only [Bool.false_eq_true, if_false, codecOf]
  rw [show 2 * (encodeVarint w).length + 8 + Codec.height Codec.int64 = (2 * (encodeVarint w).length + 7 + Codec.height Codec.int64) + 1 by omega]
  simp only [decode, hd, Res.bind, Flags.i64, Bool.false_eq_true, if_false, Nat.lt_irrefl]

theorem unmarshal_u64 (w : BitVec 64) : unmarshal (.int .u64) (encodeVarint w) = .ok (.int w.toNat) := by
  obtain ⟨hd, hl⟩ := decodeVarint_encodeVarint w
  have hne : (encodeVarint w).isEmpty = false := by
    cases h : encodeVarint w with
    | nil => rw [h] at hl; simp at hl
    | cons => rfl
  unfold unmarshal
  rw [hne]
  simp only [Bool.false_eq_true, if_false, codecOf]
  rw [show 2 * (encodeVarint w).length + 8 + Codec.height Codec.uint64 = (2 * (encodeVarint w).length + 7 + Codec.height Codec.uint64) + 1 by omega]
  simp only [decode, hd, Res.bind, Nat.lt_irrefl, if_false]

/-- **BitOr on a plain int64 field** (`BitOr[int64]`): the field is rewritten to `old ||| mask` -/
theorem bitor_int64 (mask old : BitVec 64) (f : Nat) :
    bitOrRewrite .i64 mask .int64 f (encodeVarint old) = .ok (fieldVarint f (old ||| mask)) := by
  simp only [bitOrRewrite, ityKind, unmarshal_i64, BitVec.ofInt_toInt]

/-- **BitOr on a plain uint64 field** (`BitOr[uint64]`) -/
theorem bitor_uint64 (mask old : BitVec 64) (f : Nat) :
    bitOrRewrite .u64 mask .uint64 f (encodeVarint old) = .ok (fieldVarint f (old ||| mask)) := by
  simp only [bitOrRewrite, ityKind, unmarshal_u64]
  have : BitVec.ofInt 64 (old.toNat : Int) = old := by
    rw [BitVec.ofInt_natCast, BitVec.ofNat_toNat, BitVec.setWidth_eq]
  rw [this]

/-- an absent field (nil input) reads as 0: the field is written with the mask -/
theorem bitor_absent (mask : BitVec 64) (f : Nat) :
    bitOrRewrite .i64 mask .int64 f [] = .ok (fieldVarint f mask) := by
  simp [bitOrRewrite, ityKind, unmarshal, Enc.Model.Proto.zeroOf]

/-- what the code does on a zig-zag field: `w` is the zig-zag image found on the wire -/
theorem bitor_sint64_actual (mask w : BitVec 64) (f : Nat) :
    bitOrRewrite .i64 mask .sint64 f (encodeVarint w) = .ok (fieldVarint f (encodeZigZag64 (w ||| mask))) := by
  simp only [bitOrRewrite, ityKind, unmarshal_i64, BitVec.ofInt_toInt]

/-- **negative witness (known finding `proto-bitor-zigzag-fixed`).** A `sint64` field holding 3 (wire image 6) with
`BitOr` mask 1 should become `3 ||| 1 = 3`; the code writes the image of `7`. -/
theorem bitor_sint64_wrong :
    ∃ (old mask : BitVec 64) (f : Nat) (out : BitVec 64),
      bitOrRewrite .i64 mask .sint64 f (encodeVarint (encodeZigZag64 old)) = .ok (fieldVarint f out) ∧
      decodeZigZag64 out ≠ old ||| mask :=
  ⟨3#64, 1#64, 1, encodeZigZag64 (encodeZigZag64 3#64 ||| 1#64), bitor_sint64_actual _ _ _, by decide⟩

end Enc.Lemmas.ProtoTemplate
