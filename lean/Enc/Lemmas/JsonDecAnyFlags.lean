import Enc.Lemmas.JsonDecAnyBase
import Enc.Lemmas.JsonDecAnyLoc
/-!
# C02 / C14 (decode into `any`), part 5: the dynamic-number flags change only the type tag of number leaves

`eraseV` forgets the dynamic type of every number leaf. For two flag subsets the specification `valueV` yields values that
are equal after erasure (same literal at every number leaf, same strings, same shape, same map keys) and the same
remainder; and every tag is the documented one (`dynKindOf`, i.e. `dynSpec`, which `decodeDynamicNumber_eq_dynSpec` ties
to `dynChoice`).
-/
namespace Enc.Lemmas.JsonDecAnyFlags
open Enc Enc.Spec.Json Enc.Lemmas.JsonGrammar Enc.Lemmas.JsonDecAnyBase Enc.Lemmas.JsonDecAnyLoc
open Enc.Model.Json (GV GVs GMs DynKind DynFlags)

mutual
/-- forget the dynamic type of the number leaves -/
def eraseV : GV → GV
  | .null => .null
  | .bool b => .bool b
  | .num lit _ => .num lit .f64
  | .str s => .str s
  | .arr vs => .arr (eraseL vs)
  | .obj ms => .obj (eraseM ms)
def eraseL : GVs → GVs
  | .nil => .nil
  | .cons v rest => .cons (eraseV v) (eraseL rest)
def eraseM : GMs → GMs
  | .nil => .nil
  | .cons k v rest => .cons k (eraseV v) (eraseM rest)
end

mutual
/-- every number leaf carries the dynamic type that the documented precedence gives to its literal -/
def tagsOK (fl : DynFlags) : GV → Bool
  | .null => true
  | .bool _ => true
  | .num lit k => k == dynKindOf fl lit
  | .str _ => true
  | .arr vs => tagsOKL fl vs
  | .obj ms => tagsOKM fl ms
def tagsOKL (fl : DynFlags) : GVs → Bool
  | .nil => true
  | .cons v rest => tagsOK fl v && tagsOKL fl rest
def tagsOKM (fl : DynFlags) : GMs → Bool
  | .nil => true
  | .cons _ v rest => tagsOK fl v && tagsOKM fl rest
end

/-! ### erasure -/

theorem eraseM_insert (k : Bytes) (v : GV) :
    ∀ m : GMs, eraseM (GMs.insert k v m) = GMs.insert k (eraseV v) (eraseM m)
  | .nil => by simp [GMs.insert, eraseM]
  | .cons k' v' rest => by
    have ih := eraseM_insert k v rest
    simp only [GMs.insert, eraseM]
    split
    · simp [eraseM]
    · split
      · simp [eraseM]
      · simp [eraseM, ih]

/-- erase the member values of a member list -/
def eraseKV (ms : List (Bytes × GV)) : List (Bytes × GV) := ms.map (fun kv => (kv.1, eraseV kv.2))

theorem eraseM_foldl (ms : List (Bytes × GV)) : ∀ m0 : GMs,
    eraseM (ms.foldl (fun m kv => m.insert kv.1 kv.2) m0) =
      (eraseKV ms).foldl (fun m kv => m.insert kv.1 kv.2) (eraseM m0) := by
  induction ms with
  | nil => intro m0; rfl
  | cons kv ms ih =>
    intro m0
    simp only [eraseKV, List.map_cons, List.foldl_cons] at ih ⊢
    rw [ih, eraseM_insert]

theorem eraseM_mapOf (ms : List (Bytes × GV)) : eraseM (mapOf ms) = mapOf (eraseKV ms) := by
  unfold mapOf; rw [eraseM_foldl]; simp [eraseM]

/-- generic congruence: `bind` of two computations whose erased results agree -/
theorem bind_map_congr {α β γ δ : Type} {A1 A2 : Option α} {e : α → γ} {K1 K2 : α → Option β} {g : β → δ}
    (hA : A1.map e = A2.map e) (hK : ∀ x1 x2, e x1 = e x2 → (K1 x1).map g = (K2 x2).map g) :
    (A1.bind K1).map g = (A2.bind K2).map g := by
  cases A1 <;> cases A2 <;> simp only [Option.map_some, Option.map_none, Option.some.injEq, reduceCtorEq] at hA
  · rfl
  · simp only [Option.bind_some]; exact hK _ _ hA

theorem colonThenV_congr {β δ : Type} {K1 K2 : Bytes → Option β} {g : β → δ}
    (hK : ∀ r3, (K1 r3).map g = (K2 r3).map g) (b : Bytes) :
    (colonThenV K1 b).map g = (colonThenV K2 b).map g := by
  cases b with
  | nil => rfl
  | cons x t =>
    simp only [colonThenV]
    split
    · exact hK t
    · rfl

def eV (x : GV × Bool × Bytes) : GV × Bytes := (eraseV x.1, x.2.2)
def eL (x : GVs × Bool × Bytes) : GVs × Bytes := (eraseL x.1, x.2.2)
def eM (x : List (Bytes × GV) × Bool × Bytes) : List (Bytes × GV) × Bytes := (eraseKV x.1, x.2.2)

theorem erase_all (fl1 fl2 : DynFlags) (f : Nat) :
    (∀ d b, (valueV fl1 f d b).map eV = (valueV fl2 f d b).map eV) ∧
    (∀ d b first, (elementsV fl1 f d b first).map eL = (elementsV fl2 f d b first).map eL) ∧
    (∀ d b first, (membersV fl1 f d b first).map eM = (membersV fl2 f d b first).map eM) := by
  induction f with
  | zero =>
    refine ⟨?_, ?_, ?_⟩ <;> intros <;> simp [valueV_zero, elementsV_zero, membersV_zero]
  | succ f ih =>
    obtain ⟨ihv, ihe, ihm⟩ := ih
    refine ⟨?_, ?_, ?_⟩
    · intro d b
      cases b with
      | nil => rw [valueV_nil, valueV_nil]
      | cons c t =>
        rw [valueV_succ_cons, valueV_succ_cons]
        split
        · split
          · rfl
          · rw [Option.map_map, Option.map_map]
            have hfun : ∀ fl : DynFlags, (eV ∘ fun x : List (Bytes × GV) × Bool × Bytes => (GV.obj (mapOf x.1), x.2)) =
                (fun y : List (Bytes × GV) × Bytes => (GV.obj (mapOf y.1), y.2)) ∘ eM := by
              intro _; funext x; simp [eV, eM, eraseV, eraseM_mapOf]
            rw [hfun fl1, ← Option.map_map, ← Option.map_map, ihm]
        split
        · split
          · rfl
          · rw [Option.map_map, Option.map_map]
            have hfun : (eV ∘ fun x : GVs × Bool × Bytes => (GV.arr x.1, x.2)) =
                (fun y : GVs × Bytes => (GV.arr y.1, y.2)) ∘ eL := by
              funext x; simp [eV, eL, eraseV]
            rw [hfun, ← Option.map_map, ← Option.map_map, ihe]
        split
        · rfl
        split
        · rfl
        split
        · rfl
        split
        · rfl
        rw [Option.map_map, Option.map_map]
        congr 1
    · intro d b first
      cases b with
      | nil => rw [elementsV_nil, elementsV_nil]
      | cons c t =>
        rw [elementsV_succ_cons, elementsV_succ_cons]
        split
        · rfl
        · apply bind_map_congr (e := id) rfl
          intro b2 _ hb; cases hb
          split
          · rfl
          · apply bind_map_congr (ihv d b2)
            intro x1 x2 hx
            simp only [eV, Prod.mk.injEq] at hx
            rw [Option.map_map, Option.map_map, hx.2]
            have hfun : ∀ x : GV × Bool × Bytes,
                (eL ∘ fun y : GVs × Bool × Bytes => (GVs.cons x.1 y.1, x.2.1 || y.2.1, y.2.2)) =
                (fun z : GVs × Bytes => (GVs.cons (eraseV x.1) z.1, z.2)) ∘ eL := by
              intro x; funext y; simp [eL, eraseL]
            rw [hfun x1, hfun x2, ← Option.map_map, ← Option.map_map, ihe, hx.1]
    · intro d b first
      cases b with
      | nil => rw [membersV_nil, membersV_nil]
      | cons c t =>
        rw [membersV_succ_cons, membersV_succ_cons]
        split
        · rfl
        · apply bind_map_congr (e := id) rfl
          intro b2 _ hb; cases hb
          apply bind_map_congr (e := id) rfl
          intro r2 _ hr; cases hr
          apply colonThenV_congr
          intro r3
          apply bind_map_congr (ihv d (ws r3))
          intro x1 x2 hx
          simp only [eV, Prod.mk.injEq] at hx
          rw [Option.map_map, Option.map_map, hx.2]
          have hfun : ∀ x : GV × Bool × Bytes,
              (eM ∘ fun y : List (Bytes × GV) × Bool × Bytes =>
                ((unquoteLit (consumed b2 r2), x.1) :: y.1, x.2.1 || y.2.1, y.2.2)) =
              (fun z : List (Bytes × GV) × Bytes => ((unquoteLit (consumed b2 r2), eraseV x.1) :: z.1, z.2)) ∘ eM := by
            intro x; funext y; simp [eM, eraseKV]
          rw [hfun x1, hfun x2, ← Option.map_map, ← Option.map_map, ihm, hx.1]

theorem valueV_erase (fl1 fl2 : DynFlags) (f d : Nat) (b : Bytes) :
    (valueV fl1 f d b).map (fun x => (eraseV x.1, x.2.2)) = (valueV fl2 f d b).map (fun x => (eraseV x.1, x.2.2)) :=
  (erase_all fl1 fl2 f).1 d b
theorem elementsV_erase (fl1 fl2 : DynFlags) (f d : Nat) (b : Bytes) (first : Bool) :
    (elementsV fl1 f d b first).map (fun x => (eraseL x.1, x.2.2)) =
      (elementsV fl2 f d b first).map (fun x => (eraseL x.1, x.2.2)) :=
  (erase_all fl1 fl2 f).2.1 d b first
theorem membersV_erase (fl1 fl2 : DynFlags) (f d : Nat) (b : Bytes) (first : Bool) :
    (membersV fl1 f d b first).map (fun x => (x.1.map (fun kv => (kv.1, eraseV kv.2)), x.2.2)) =
      (membersV fl2 f d b first).map (fun x => (x.1.map (fun kv => (kv.1, eraseV kv.2)), x.2.2)) :=
  (erase_all fl1 fl2 f).2.2 d b first

/-! ### tags -/

theorem tagsOKM_insert (fl : DynFlags) (k : Bytes) (v : GV) (hv : tagsOK fl v = true) :
    ∀ m : GMs, tagsOKM fl m = true → tagsOKM fl (GMs.insert k v m) = true
  | .nil => by intro _; simp [GMs.insert, tagsOKM, hv]
  | .cons k' v' rest => by
    intro hm
    have ih := tagsOKM_insert fl k v hv rest
    simp only [tagsOKM, Bool.and_eq_true] at hm
    simp only [GMs.insert]
    split
    · simp [tagsOKM, hv, hm.2]
    · split
      · simp [tagsOKM, hv, hm.1, hm.2]
      · simp [tagsOKM, hm.1, ih hm.2]

theorem tagsOKM_foldl (fl : DynFlags) (ms : List (Bytes × GV)) (hms : ∀ kv ∈ ms, tagsOK fl kv.2 = true) :
    ∀ m0 : GMs, tagsOKM fl m0 = true → tagsOKM fl (ms.foldl (fun m kv => m.insert kv.1 kv.2) m0) = true := by
  induction ms with
  | nil => intro m0 h; exact h
  | cons kv ms ih =>
    intro m0 h
    simp only [List.foldl_cons]
    exact ih (fun kv' hk => hms kv' (List.mem_cons_of_mem _ hk)) _
      (tagsOKM_insert fl _ _ (hms kv List.mem_cons_self) m0 h)

theorem tagsOKM_mapOf (fl : DynFlags) (ms : List (Bytes × GV)) (hms : ∀ kv ∈ ms, tagsOK fl kv.2 = true) :
    tagsOKM fl (mapOf ms) = true :=
  tagsOKM_foldl fl ms hms .nil (by simp [tagsOKM])

theorem tags_all (fl : DynFlags) (f : Nat) :
    (∀ d b v o r, valueV fl f d b = some (v, o, r) → tagsOK fl v = true) ∧
    (∀ d b first vs o r, elementsV fl f d b first = some (vs, o, r) → tagsOKL fl vs = true) ∧
    (∀ d b first ms o r, membersV fl f d b first = some (ms, o, r) → ∀ kv ∈ ms, tagsOK fl kv.2 = true) := by
  induction f with
  | zero =>
    refine ⟨?_, ?_, ?_⟩ <;> intros <;> simp_all [valueV_zero, elementsV_zero, membersV_zero]
  | succ f ih =>
    obtain ⟨ihv, ihe, ihm⟩ := ih
    refine ⟨?_, ?_, ?_⟩
    · intro d b v o r h
      cases b with
      | nil => rw [valueV_nil] at h; cases h
      | cons c t =>
        rw [valueV_succ_cons] at h
        split at h
        · split at h
          · cases h
          · obtain ⟨⟨ms, o', r'⟩, hm, hx⟩ := Option.map_eq_some_iff.mp h
            simp only [Prod.mk.injEq] at hx
            obtain ⟨rfl, -, -⟩ := hx
            simp only [tagsOK]
            exact tagsOKM_mapOf fl ms (ihm _ _ _ _ _ _ hm)
        split at h
        · split at h
          · cases h
          · obtain ⟨⟨vs, o', r'⟩, hm, hx⟩ := Option.map_eq_some_iff.mp h
            simp only [Prod.mk.injEq] at hx
            obtain ⟨rfl, -, -⟩ := hx
            simp only [tagsOK]
            exact ihe _ _ _ _ _ _ hm
        split at h
        · obtain ⟨r', hs, hx⟩ := Option.map_eq_some_iff.mp h
          simp only [Prod.mk.injEq] at hx
          obtain ⟨rfl, -, -⟩ := hx
          simp [tagsOK]
        split at h
        · obtain ⟨r', hs, hx⟩ := Option.map_eq_some_iff.mp h
          simp only [Prod.mk.injEq] at hx
          obtain ⟨rfl, -, -⟩ := hx
          simp [tagsOK]
        split at h
        · obtain ⟨r', hs, hx⟩ := Option.map_eq_some_iff.mp h
          simp only [Prod.mk.injEq] at hx
          obtain ⟨rfl, -, -⟩ := hx
          simp [tagsOK]
        split at h
        · obtain ⟨r', hs, hx⟩ := Option.map_eq_some_iff.mp h
          simp only [Prod.mk.injEq] at hx
          obtain ⟨rfl, -, -⟩ := hx
          simp [tagsOK]
        obtain ⟨r', hs, hx⟩ := Option.map_eq_some_iff.mp h
        simp only [numLeaf, Prod.mk.injEq] at hx
        obtain ⟨rfl, -, -⟩ := hx
        simp [tagsOK]
    · intro d b first vs o r h
      cases b with
      | nil => rw [elementsV_nil] at h; cases h
      | cons c t =>
        rw [elementsV_succ_cons] at h
        split at h
        · simp only [Option.some.injEq, Prod.mk.injEq] at h
          obtain ⟨rfl, -, -⟩ := h
          simp [tagsOKL]
        · obtain ⟨b2, -, h⟩ := bind_some h
          split at h
          · cases h
          · obtain ⟨⟨v1, o1, r2⟩, hv, h⟩ := bind_some h
            obtain ⟨⟨ys, o2, r3⟩, he, hy⟩ := Option.map_eq_some_iff.mp h
            simp only [Prod.mk.injEq] at hy
            obtain ⟨rfl, -, -⟩ := hy
            simp only [tagsOKL, Bool.and_eq_true]
            exact ⟨ihv _ _ _ _ _ hv, ihe _ _ _ _ _ _ he⟩
    · intro d b first ms o r h
      cases b with
      | nil => rw [membersV_nil] at h; cases h
      | cons c t =>
        rw [membersV_succ_cons] at h
        split at h
        · simp only [Option.some.injEq, Prod.mk.injEq] at h
          obtain ⟨rfl, -, -⟩ := h
          intro kv hk; cases hk
        · obtain ⟨b2, -, h⟩ := bind_some h
          obtain ⟨r2, -, h⟩ := bind_some h
          obtain ⟨r3, -, h⟩ := colonThenV_some h
          obtain ⟨⟨v1, o1, r4⟩, hv, h⟩ := bind_some h
          obtain ⟨⟨ys, o2, r5⟩, hm, hy⟩ := Option.map_eq_some_iff.mp h
          simp only [Prod.mk.injEq] at hy
          obtain ⟨rfl, -, -⟩ := hy
          intro kv hk
          rcases List.mem_cons.mp hk with rfl | hk
          · exact ihv _ _ _ _ _ hv
          · exact ihm _ _ _ _ _ _ hm kv hk

theorem valueV_tags (fl : DynFlags) (f d : Nat) (b : Bytes) (v : GV) (o : Bool) (r : Bytes)
    (h : valueV fl f d b = some (v, o, r)) : tagsOK fl v = true :=
  (tags_all fl f).1 d b v o r h

/-! ### overflow flag -/

/-- the text consumed by `number` is itself a complete number literal -/
theorem number_consumed {b r' : Bytes} (h : number b = some r') : number (consumed b r') = some [] := by
  obtain ⟨u, hu⟩ := (number_sfx h).1
  subst hu
  have hc : consumed (u ++ r') r' = u := by
    have h1 := consumed_app u [] r'
    have h2 : consumed u [] = u := by simp [consumed]
    rw [List.nil_append, h2] at h1; exact h1
  rw [hc]
  exact number_local (s := u) (t := r') (r := []) (by simpa using h)

theorem dynSpec_useNumber (fl : DynFlags) (hn : fl.useNumber = true) {l : Bytes} (hl : number l = some []) :
    (∃ v, dynSpec fl l = .u64 v) ∨ (∃ v, dynSpec fl l = .i64 v) ∨ (∃ x, dynSpec fl l = .big x) ∨
      (∃ x, dynSpec fl l = .num x) := by
  unfold dynSpec
  simp only [hl, bne_self_eq_false, Bool.false_eq_true, if_false, hn, if_true]
  split
  · exact Or.inl ⟨_, rfl⟩
  split
  · exact Or.inr (Or.inl ⟨_, rfl⟩)
  split
  · exact Or.inr (Or.inr (Or.inl ⟨_, rfl⟩))
  · exact Or.inr (Or.inr (Or.inr ⟨_, rfl⟩))

theorem dynKindOf_ne_f64 (fl : DynFlags) (hn : fl.useNumber = true) {l : Bytes} (hl : number l = some []) :
    (dynKindOf fl l == DynKind.f64) = false := by
  unfold dynKindOf
  rcases dynSpec_useNumber fl hn hl with ⟨v, h⟩ | ⟨v, h⟩ | ⟨v, h⟩ | ⟨v, h⟩ <;> rw [h] <;> rfl

theorem ovf_all (fl : DynFlags) (hn : fl.useNumber = true) (f : Nat) :
    (∀ d b v o r, valueV fl f d b = some (v, o, r) → o = false) ∧
    (∀ d b first vs o r, elementsV fl f d b first = some (vs, o, r) → o = false) ∧
    (∀ d b first ms o r, membersV fl f d b first = some (ms, o, r) → o = false) := by
  induction f with
  | zero =>
    refine ⟨?_, ?_, ?_⟩ <;> intros <;> simp_all [valueV_zero, elementsV_zero, membersV_zero]
  | succ f ih =>
    obtain ⟨ihv, ihe, ihm⟩ := ih
    refine ⟨?_, ?_, ?_⟩
    · intro d b v o r h
      cases b with
      | nil => rw [valueV_nil] at h; cases h
      | cons c t =>
        rw [valueV_succ_cons] at h
        split at h
        · split at h
          · cases h
          · obtain ⟨⟨ms, o', r'⟩, hm, hx⟩ := Option.map_eq_some_iff.mp h
            simp only [Prod.mk.injEq] at hx
            obtain ⟨-, rfl, -⟩ := hx
            exact ihm _ _ _ _ _ _ hm
        split at h
        · split at h
          · cases h
          · obtain ⟨⟨vs, o', r'⟩, hm, hx⟩ := Option.map_eq_some_iff.mp h
            simp only [Prod.mk.injEq] at hx
            obtain ⟨-, rfl, -⟩ := hx
            exact ihe _ _ _ _ _ _ hm
        split at h
        · obtain ⟨r', hs, hx⟩ := Option.map_eq_some_iff.mp h
          simp only [Prod.mk.injEq] at hx
          exact hx.2.1.symm
        split at h
        · obtain ⟨r', hs, hx⟩ := Option.map_eq_some_iff.mp h
          simp only [Prod.mk.injEq] at hx
          exact hx.2.1.symm
        split at h
        · obtain ⟨r', hs, hx⟩ := Option.map_eq_some_iff.mp h
          simp only [Prod.mk.injEq] at hx
          exact hx.2.1.symm
        split at h
        · obtain ⟨r', hs, hx⟩ := Option.map_eq_some_iff.mp h
          simp only [Prod.mk.injEq] at hx
          exact hx.2.1.symm
        obtain ⟨r', hs, hx⟩ := Option.map_eq_some_iff.mp h
        simp only [numLeaf, Prod.mk.injEq] at hx
        obtain ⟨-, rfl, -⟩ := hx
        rw [dynKindOf_ne_f64 fl hn (number_consumed hs)]; rfl
    · intro d b first vs o r h
      cases b with
      | nil => rw [elementsV_nil] at h; cases h
      | cons c t =>
        rw [elementsV_succ_cons] at h
        split at h
        · simp only [Option.some.injEq, Prod.mk.injEq] at h
          exact h.2.1.symm
        · obtain ⟨b2, -, h⟩ := bind_some h
          split at h
          · cases h
          · obtain ⟨⟨v1, o1, r2⟩, hv, h⟩ := bind_some h
            obtain ⟨⟨ys, o2, r3⟩, he, hy⟩ := Option.map_eq_some_iff.mp h
            simp only [Prod.mk.injEq] at hy
            obtain ⟨-, rfl, -⟩ := hy
            rw [ihv _ _ _ _ _ hv, ihe _ _ _ _ _ _ he]; rfl
    · intro d b first ms o r h
      cases b with
      | nil => rw [membersV_nil] at h; cases h
      | cons c t =>
        rw [membersV_succ_cons] at h
        split at h
        · simp only [Option.some.injEq, Prod.mk.injEq] at h
          exact h.2.1.symm
        · obtain ⟨b2, -, h⟩ := bind_some h
          obtain ⟨r2, -, h⟩ := bind_some h
          obtain ⟨r3, -, h⟩ := colonThenV_some h
          obtain ⟨⟨v1, o1, r4⟩, hv, h⟩ := bind_some h
          obtain ⟨⟨ys, o2, r5⟩, hm, hy⟩ := Option.map_eq_some_iff.mp h
          simp only [Prod.mk.injEq] at hy
          obtain ⟨-, rfl, -⟩ := hy
          rw [ihv _ _ _ _ _ hv, ihm _ _ _ _ _ _ hm]; rfl

/-- the overflow flag can only be raised by a float64 leaf: with UseNumber every number is a Number (or an integer type) -/
theorem valueV_no_overflow_useNumber (fl : DynFlags) (hn : fl.useNumber = true) (f d : Nat) (b : Bytes) (v : GV) (o : Bool)
    (r : Bytes) (h : valueV fl f d b = some (v, o, r)) : o = false :=
  (ovf_all fl hn f).1 d b v o r h

/-! ### non-vacuity -/
-- `{"a":[1,2.5e400],"a":7}` decodes (hypothesis of `valueV_tags` / `valueV_no_overflow_useNumber`, UseNumber set)
example : ∃ v o, valueV ⟨true, false, false, false⟩ 40 5 "{\"a\":[1,2.5e400],\"a\":7}".toUTF8.toList = some (v, o, []) :=
  ex_of_map (by decide +kernel)
-- and the two sides of `valueV_erase` are not `none` for it (float64 vs UseInt64)
example : ∃ v o, valueV ⟨false, false, true, false⟩ 40 5 "{\"a\":[1,2.5e400],\"a\":7}".toUTF8.toList = some (v, o, []) :=
  ex_of_map (by decide +kernel)

#print axioms valueV_erase
#print axioms valueV_tags
#print axioms valueV_no_overflow_useNumber

end Enc.Lemmas.JsonDecAnyFlags
