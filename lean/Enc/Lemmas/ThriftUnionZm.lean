import Enc.Lemmas.ThriftUnionWitness
/-!
Thrift unions, part 5: what the loop of `structEncoder.zeroMember` (`zmScan`) computes, in general (C04).

  * `eq_of_tyEq` / `tyEq_iff_eq`   the model's Go type identity `tyEq` IS equality on the universe (hence symmetric, transitive)
  * `zmScan_eq`, `zmScan_characterisation`   `zmScan ut fs vs pos = none` iff some member holds a non-zero value; otherwise it is
        `some (sameTypeMembers ut fs pos)` — the positions of the members whose type is `ut`, in increasing order
  * `zeroMember_ambiguous_iff`     all members zero, the union field designates member `k`:
        `zeroMember = some k` iff NO OTHER member has the designated member's Go type (`otherOfType … = false`);
        `zeroMember_none_iff`: `zeroMember = none` iff another member has it — exactly the recorded finding
        `thriftUnionZeroAmbiguous`
  * `zeroMember_of_distinct`       members of pairwise different Go types (`MembersDistinct`): the designated zero member is found
  * `emittedU_of_distinct`         … and written
  * `zeroMember_ambiguous_witness` two `int32` members, both zero, the union field pointing at the first: `zeroMember = none`
        and `encodeU` writes the empty struct (the stop byte only)
-/
namespace Enc.Lemmas.ThriftUnion
open Enc Enc.Model.Thrift Enc.Lemmas.ThriftPrim Enc.Lemmas.ThriftSkip Enc.Lemmas.ThriftRoundTrip

/-! ## `tyEq` is equality -/
mutual
theorem eq_of_tyEq : (a b : Ty) → tyEq a b = true → a = b
  | .bool, b, h => by cases b <;> simp_all [tyEq]
  | .f32, b, h => by cases b <;> simp_all [tyEq]
  | .f64, b, h => by cases b <;> simp_all [tyEq]
  | .str, b, h => by cases b <;> simp_all [tyEq]
  | .bytes, b, h => by cases b <;> simp_all [tyEq]
  | .any, b, h => by cases b <;> simp_all [tyEq]
  | .int k, b, h => by cases b <;> simp_all [tyEq]
  | .arr n a, b, h => by
    cases b with
    | arr m b' =>
      simp only [tyEq, Bool.and_eq_true, beq_iff_eq] at h
      rw [h.1, eq_of_tyEq a b' h.2]
    | _ => simp [tyEq] at h
  | .ptr a, b, h => by
    cases b with
    | ptr b' => simp only [tyEq] at h; rw [eq_of_tyEq a b' h]
    | _ => simp [tyEq] at h
  | .slice a, b, h => by
    cases b with
    | slice b' => simp only [tyEq] at h; rw [eq_of_tyEq a b' h]
    | _ => simp [tyEq] at h
  | .map k v, b, h => by
    cases b with
    | map k' v' =>
      simp only [tyEq, Bool.and_eq_true] at h
      rw [eq_of_tyEq k k' h.1, eq_of_tyEq v v' h.2]
    | _ => simp [tyEq] at h
  | .struct fs, b, h => by
    cases b with
    | struct gs => simp only [tyEq] at h; rw [eq_of_fieldsEq fs gs h]
    | _ => simp [tyEq] at h
  | .named n a, b, h => by
    cases b with
    | named m b' =>
      simp only [tyEq, Bool.and_eq_true, beq_iff_eq] at h
      rw [h.1, eq_of_tyEq a b' h.2]
    | _ => simp [tyEq] at h
theorem eq_of_fieldsEq : (fs gs : Fields) → fieldsEq fs gs = true → fs = gs
  | .nil, gs, h => by cases gs <;> simp_all [fieldsEq]
  | .cons n tag e t r, gs, h => by
    cases gs with
    | nil => simp [fieldsEq] at h
    | cons n' tag' e' t' r' =>
      simp only [fieldsEq, Bool.and_eq_true, beq_iff_eq] at h
      obtain ⟨⟨⟨⟨h1, h2⟩, h3⟩, h4⟩, h5⟩ := h
      rw [h1, h2, h3, eq_of_tyEq t t' h4, eq_of_fieldsEq r r' h5]
end

/-- Go type identity on the universe is equality of descriptors -/
theorem tyEq_iff_eq (a b : Ty) : tyEq a b = true ↔ a = b :=
  ⟨eq_of_tyEq a b, fun h => h ▸ tyEq_refl a⟩

theorem tyEq_comm (a b : Ty) : tyEq a b = tyEq b a := by
  cases h : tyEq a b with
  | true => rw [eq_of_tyEq a b h, tyEq_refl]
  | false =>
    cases h' : tyEq b a with
    | false => rfl
    | true => rw [eq_of_tyEq b a h', tyEq_refl] at h; cases h

theorem tyEq_trans (a b c : Ty) (h : tyEq a b = true) : tyEq b c = tyEq a c := by
  rw [eq_of_tyEq a b h]

/-! ## the scan -/
/-- the field at (relative) position `n` is a MEMBER: its tag carries an id -/
def isMemberAt : Fields → Nat → Bool
  | .nil, _ => false
  | .cons _ tag _ _ _, 0 => (memberId tag).isSome
  | .cons _ _ _ _ r, n + 1 => isMemberAt r n

/-- some member holds a non-zero value (`!x.IsZero()`) -/
def anyMemberNonZero : Fields → Vals → Bool
  | .cons _ tag _ t rest, .cons x vs => ((memberId tag).isSome && !isZeroAt t x) || anyMemberNonZero rest vs
  | _, _ => false

/-- the positions (`pos` = position of the head) of the members whose Go type is `ut`, in increasing order — written
independently of `zmScan` (no values, no early exit) -/
def sameTypeMembers (ut : Ty) : Fields → Nat → List Nat
  | .nil, _ => []
  | .cons _ tag _ t rest, pos =>
    if (memberId tag).isSome && tyEq t ut then pos :: sameTypeMembers ut rest (pos + 1)
    else sameTypeMembers ut rest (pos + 1)

/-- `anyMemberNonZero` in words: some field carries an id and holds a non-zero value -/
theorem anyMemberNonZero_iff : ∀ (fs : Fields) (vs : Vals),
    anyMemberNonZero fs vs = true ↔
      ∃ i tag t x, fieldAt fs vs i = some (tag, t, x) ∧ (memberId tag).isSome = true ∧ isZeroAt t x = false
  | .nil, vs => by
    constructor
    · intro h; cases vs <;> simp [anyMemberNonZero] at h
    · rintro ⟨i, tag, t, x, h, _⟩; cases vs <;> simp [fieldAt] at h
  | .cons _ _ _ _ _, .nil => by
    constructor
    · intro h; simp [anyMemberNonZero] at h
    · rintro ⟨i, tag, t, x, h, _⟩; simp [fieldAt] at h
  | .cons n tag e t rest, .cons x vs => by
    have ih := anyMemberNonZero_iff rest vs
    constructor
    · intro h
      simp only [anyMemberNonZero, Bool.or_eq_true, Bool.and_eq_true, Bool.not_eq_true'] at h
      rcases h with h | h
      · exact ⟨0, tag, t, x, rfl, h.1, h.2⟩
      · obtain ⟨i, tag', t', x', h1, h2⟩ := ih.1 h
        exact ⟨i + 1, tag', t', x', by simpa [fieldAt] using h1, h2⟩
    · rintro ⟨i, tag', t', x', h1, h2, h3⟩
      simp only [anyMemberNonZero, Bool.or_eq_true, Bool.and_eq_true, Bool.not_eq_true']
      cases i with
      | zero =>
        simp only [fieldAt, Option.some.injEq, Prod.mk.injEq] at h1
        obtain ⟨rfl, rfl, rfl⟩ := h1
        exact Or.inl ⟨h2, h3⟩
      | succ i =>
        simp only [fieldAt] at h1
        exact Or.inr (ih.2 ⟨i, tag', t', x', h1, h2, h3⟩)

/-- **the loop of `zeroMember`, closed form**: `-1` as soon as a member is non-zero, else the members of type `ut` -/
theorem zmScan_eq (ut : Ty) : ∀ (fs : Fields) (vs : Vals) (pos : Nat), fs.length ≤ vs.length →
    zmScan ut fs vs pos = if anyMemberNonZero fs vs then none else some (sameTypeMembers ut fs pos)
  | .nil, vs, pos, _ => by cases vs <;> simp [zmScan, anyMemberNonZero, sameTypeMembers]
  | .cons _ _ _ _ _, .nil, pos, h => by simp [Fields.length, Vals.length] at h
  | .cons n tag e t rest, .cons x vs, pos, h => by
    have ih := zmScan_eq ut rest vs (pos + 1) (by simp only [Fields.length, Vals.length] at h; omega)
    simp only [zmScan, anyMemberNonZero, sameTypeMembers]
    split
    · rename_i hm
      simp only [hm, Option.isSome_none, Bool.false_and, Bool.false_or]; exact ih
    · rename_i id hm
      simp only [hm, Option.isSome_some, Bool.true_and]
      cases hz : isZeroAt t x with
      | false => simp
      | true =>
        simp only [Bool.not_true, Bool.false_or, Bool.false_eq_true, if_false, ih]
        cases anyMemberNonZero rest vs with
        | true => simp
        | false => cases tyEq t ut <;> simp

/-- **zmScan_characterisation.** For a value with (at least) as many field values as the type has fields:
`zmScan = none` exactly when some member (a field with an id) holds a non-zero value; and when every member is zero,
`zmScan` answers the list of the positions of the members whose Go type is `ut`. -/
theorem zmScan_characterisation (ut : Ty) (fs : Fields) (vs : Vals) (pos : Nat) (hlen : fs.length ≤ vs.length) :
    (zmScan ut fs vs pos = none ↔
      ∃ i tag t x, fieldAt fs vs i = some (tag, t, x) ∧ (memberId tag).isSome = true ∧ isZeroAt t x = false) ∧
    ((∀ i tag t x, fieldAt fs vs i = some (tag, t, x) → (memberId tag).isSome = true → isZeroAt t x = true) →
      zmScan ut fs vs pos = some (sameTypeMembers ut fs pos)) := by
  rw [zmScan_eq ut fs vs pos hlen]
  constructor
  · rw [← anyMemberNonZero_iff]
    cases anyMemberNonZero fs vs <;> simp
  · intro hall
    have : anyMemberNonZero fs vs = false := by
      cases h : anyMemberNonZero fs vs with
      | false => rfl
      | true =>
        obtain ⟨i, tag, t, x, h1, h2, h3⟩ := (anyMemberNonZero_iff fs vs).1 h
        rw [hall i tag t x h1 h2] at h3; cases h3
    simp [this]

/-! ## which members have the designated type -/
/-- some member at a position OTHER than `k` has Go type `ut` (`pos` = position of the head) -/
def otherOfType (ut : Ty) (k : Nat) : Fields → Nat → Bool
  | .nil, _ => false
  | .cons _ tag _ t rest, pos => (pos != k && (memberId tag).isSome && tyEq t ut) || otherOfType ut k rest (pos + 1)

theorem otherOfType_iff (ut : Ty) (k : Nat) : ∀ (fs : Fields) (pos : Nat),
    otherOfType ut k fs pos = true ↔
      ∃ j t, pos + j ≠ k ∧ isMemberAt fs j = true ∧ tyAt fs j = some t ∧ tyEq t ut = true
  | .nil, pos => by simp [otherOfType, isMemberAt]
  | .cons n tag e t rest, pos => by
    have ih := otherOfType_iff ut k rest (pos + 1)
    simp only [otherOfType, Bool.or_eq_true, Bool.and_eq_true, bne_iff_ne, ne_eq]
    constructor
    · rintro (⟨⟨h1, h2⟩, h3⟩ | h)
      · exact ⟨0, t, by simpa using h1, h2, rfl, h3⟩
      · obtain ⟨j, t', h1, h2, h3, h4⟩ := ih.1 h
        exact ⟨j + 1, t', by omega, h2, h3, h4⟩
    · rintro ⟨j, t', h1, h2, h3, h4⟩
      cases j with
      | zero =>
        simp only [tyAt, Option.some.injEq] at h3; subst h3
        exact Or.inl ⟨⟨by simpa using h1, h2⟩, h4⟩
      | succ j => exact Or.inr (ih.2 ⟨j, t', by omega, h2, h3, h4⟩)

theorem sameTypeMembers_after (ut : Ty) (k : Nat) : ∀ (fs : Fields) (pos : Nat), k < pos →
    (sameTypeMembers ut fs pos = [] ↔ otherOfType ut k fs pos = false)
  | .nil, pos, _ => by simp [sameTypeMembers, otherOfType]
  | .cons n tag e t rest, pos, h => by
    have ih := sameTypeMembers_after ut k rest (pos + 1) (by omega)
    have hne : (pos != k) = true := by simp; omega
    simp only [sameTypeMembers, otherOfType, hne, Bool.true_and]
    cases (memberId tag).isSome && tyEq t ut with
    | true => simp
    | false => simpa using ih

theorem sameTypeMembers_mem (ut : Ty) (k : Nat) : ∀ (fs : Fields) (pos : Nat), pos ≤ k →
    tyAt fs (k - pos) = some ut → isMemberAt fs (k - pos) = true → k ∈ sameTypeMembers ut fs pos
  | .nil, pos, _, ht, _ => by simp [tyAt] at ht
  | .cons n tag e t rest, pos, hk, ht, hm => by
    simp only [sameTypeMembers]
    by_cases hpk : pos = k
    · subst hpk
      simp only [Nat.sub_self, tyAt, Option.some.injEq, isMemberAt] at ht hm
      subst ht
      simp [hm, tyEq_refl]
    · obtain ⟨m, hm'⟩ : ∃ m, k - pos = m + 1 := ⟨k - pos - 1, by omega⟩
      rw [hm'] at ht hm
      simp only [tyAt, isMemberAt] at ht hm
      have e : k - (pos + 1) = m := by omega
      have ih := sameTypeMembers_mem ut k rest (pos + 1) (by omega) (by rw [e]; exact ht) (by rw [e]; exact hm)
      split
      · exact List.mem_cons_of_mem _ ih
      · exact ih

/-- the designated member `k` (a member, of type `ut`) is the ONLY member of type `ut` iff no other member has that type -/
theorem sameTypeMembers_designated (ut : Ty) (k : Nat) : ∀ (fs : Fields) (pos : Nat), pos ≤ k →
    tyAt fs (k - pos) = some ut → isMemberAt fs (k - pos) = true →
    (sameTypeMembers ut fs pos = [k] ↔ otherOfType ut k fs pos = false)
  | .nil, pos, _, ht, _ => by simp [tyAt] at ht
  | .cons n tag e t rest, pos, hk, ht, hm => by
    simp only [sameTypeMembers, otherOfType]
    by_cases hpk : pos = k
    · subst hpk
      simp only [Nat.sub_self, tyAt, Option.some.injEq, isMemberAt] at ht hm
      subst ht
      have := sameTypeMembers_after t pos rest (pos + 1) (by omega)
      simp [hm, tyEq_refl, this]
    · obtain ⟨m, hm'⟩ : ∃ m, k - pos = m + 1 := ⟨k - pos - 1, by omega⟩
      rw [hm'] at ht hm
      simp only [tyAt, isMemberAt] at ht hm
      have e : k - (pos + 1) = m := by omega
      have ih := sameTypeMembers_designated ut k rest (pos + 1) (by omega) (by rw [e]; exact ht) (by rw [e]; exact hm)
      have hne : (pos != k) = true := by simpa using hpk
      simp only [hne, Bool.true_and]
      cases (memberId tag).isSome && tyEq t ut with
      | true =>
        simp only [if_true, Bool.true_or]
        constructor
        · intro h; simp only [List.cons.injEq] at h; exact absurd h.1 hpk
        · intro h; cases h
      | false => simpa using ih

/-! ## `zeroMember` -/
/-- `zeroMember` once the union field is known to designate position `k` whose type is `ut` and every member is zero -/
theorem zeroMember_eq_scan (fs : Fields) (vs : Vals) (u : Nat) (k : Int) (ut : Ty)
    (hu : unionPos fs 0 = some u) (hF : Vals.get vs u = .ptr (.int k)) (hk : 0 ≤ k)
    (ht : tyAt fs k.toNat = some ut) (hz : anyMemberNonZero fs vs = false) (hlen : fs.length ≤ vs.length) :
    zeroMember fs vs = match sameTypeMembers ut fs 0 with | [m] => some m | _ => none := by
  unfold zeroMember
  have : ¬ k < 0 := by omega
  simp only [hu, hF, this, if_false, ht, zmScan_eq ut fs vs 0 hlen, hz, Bool.false_eq_true]
  split <;> simp_all

/-- **zeroMember_ambiguous_iff (exactness).** The union field designates member `k` (a field WITH an id, of Go type `ut`)
and every member holds its zero value. Then `zeroMember` finds `k` IF AND ONLY IF no other member has Go type `ut`. -/
theorem zeroMember_ambiguous_iff (fs : Fields) (vs : Vals) (u : Nat) (k : Int) (ut : Ty)
    (hu : unionPos fs 0 = some u) (hF : Vals.get vs u = .ptr (.int k)) (hk : 0 ≤ k)
    (ht : tyAt fs k.toNat = some ut) (hm : isMemberAt fs k.toNat = true)
    (hz : anyMemberNonZero fs vs = false) (hlen : fs.length ≤ vs.length) :
    zeroMember fs vs = some k.toNat ↔ otherOfType ut k.toNat fs 0 = false := by
  rw [zeroMember_eq_scan fs vs u k ut hu hF hk ht hz hlen,
    ← sameTypeMembers_designated ut k.toNat fs 0 (by omega) (by simpa using ht) (by simpa using hm)]
  constructor
  · intro h
    split at h
    · simp only [Option.some.injEq] at h; subst h; assumption
    · cases h
  · intro h; rw [h]

/-- … and it answers `-1` (nothing will be written for the designated zero member) IF AND ONLY IF another member shares the
designated member's Go type: the finding `thriftUnionZeroAmbiguous` is exactly the excluded case. -/
theorem zeroMember_none_iff (fs : Fields) (vs : Vals) (u : Nat) (k : Int) (ut : Ty)
    (hu : unionPos fs 0 = some u) (hF : Vals.get vs u = .ptr (.int k)) (hk : 0 ≤ k)
    (ht : tyAt fs k.toNat = some ut) (hm : isMemberAt fs k.toNat = true)
    (hz : anyMemberNonZero fs vs = false) (hlen : fs.length ≤ vs.length) :
    zeroMember fs vs = none ↔ otherOfType ut k.toNat fs 0 = true := by
  have hiff := zeroMember_ambiguous_iff fs vs u k ut hu hF hk ht hm hz hlen
  have hmem := sameTypeMembers_mem ut k.toNat fs 0 (by omega) (by simpa using ht) (by simpa using hm)
  have hsc := zeroMember_eq_scan fs vs u k ut hu hF hk ht hz hlen
  cases ho : otherOfType ut k.toNat fs 0 with
  | false => rw [hiff.2 ho]; simp
  | true =>
    simp only [iff_true]
    cases hzm : zeroMember fs vs with
    | none => rfl
    | some m =>
      exfalso
      rw [hsc] at hzm
      split at hzm
      · rename_i m' hl
        rw [hl, List.mem_singleton] at hmem
        simp only [Option.some.injEq] at hzm
        subst hzm; subst hmem
        rw [hiff.1 (by rw [hsc, hl])] at ho; cases ho
      · cases hzm

/-! ## members of pairwise different Go types -/
/-- no member of `fs` has Go type `t` -/
def noMemberOfType (t : Ty) : Fields → Bool
  | .nil => true
  | .cons _ tag _ t' rest => !((memberId tag).isSome && tyEq t' t) && noMemberOfType t rest

/-- the members (fields with an id) have pairwise `tyEq`-different types -/
def MembersDistinct : Fields → Bool
  | .nil => true
  | .cons _ tag _ t rest => (!(memberId tag).isSome || noMemberOfType t rest) && MembersDistinct rest

theorem noMemberOfType_at (t : Ty) : ∀ (fs : Fields) (i : Nat) (t' : Ty), noMemberOfType t fs = true →
    tyAt fs i = some t' → isMemberAt fs i = true → tyEq t' t = false
  | .nil, _, _, _, h, _ => by simp [tyAt] at h
  | .cons n tag e t₀ rest, 0, t', h, ht, hm => by
    simp only [tyAt, Option.some.injEq, isMemberAt] at ht hm
    subst ht
    simp only [noMemberOfType, hm, Bool.true_and, Bool.and_eq_true, Bool.not_eq_true'] at h
    exact h.1
  | .cons n tag e t₀ rest, i + 1, t', h, ht, hm => by
    simp only [noMemberOfType, Bool.and_eq_true] at h
    exact noMemberOfType_at t rest i t' h.2 ht hm

theorem otherOfType_of_noMember (ut : Ty) (k : Nat) : ∀ (fs : Fields) (pos : Nat), noMemberOfType ut fs = true →
    otherOfType ut k fs pos = false
  | .nil, _, _ => rfl
  | .cons n tag e t rest, pos, h => by
    simp only [noMemberOfType, Bool.and_eq_true, Bool.not_eq_true'] at h
    simp only [otherOfType, otherOfType_of_noMember ut k rest (pos + 1) h.2, Bool.or_false, Bool.and_assoc, h.1,
      Bool.and_false]

theorem otherOfType_of_distinct (ut : Ty) (k : Nat) : ∀ (fs : Fields) (pos : Nat), MembersDistinct fs = true → pos ≤ k →
    tyAt fs (k - pos) = some ut → isMemberAt fs (k - pos) = true → otherOfType ut k fs pos = false
  | .nil, _, _, _, ht, _ => by simp [tyAt] at ht
  | .cons n tag e t rest, pos, hd, hk, ht, hm => by
    simp only [MembersDistinct, Bool.and_eq_true, Bool.or_eq_true, Bool.not_eq_true'] at hd
    simp only [otherOfType]
    by_cases hpk : pos = k
    · subst hpk
      simp only [Nat.sub_self, tyAt, Option.some.injEq, isMemberAt] at ht hm
      subst ht
      have hno : noMemberOfType t rest = true := by
        rcases hd.1 with h | h
        · rw [hm] at h; cases h
        · exact h
      simp [otherOfType_of_noMember t pos rest (pos + 1) hno]
    · obtain ⟨m, hm'⟩ : ∃ m, k - pos = m + 1 := ⟨k - pos - 1, by omega⟩
      rw [hm'] at ht hm
      simp only [tyAt, isMemberAt] at ht hm
      have e : k - (pos + 1) = m := by omega
      rw [otherOfType_of_distinct ut k rest (pos + 1) hd.2 (by omega) (by rw [e]; exact ht) (by rw [e]; exact hm)]
      simp only [Bool.or_false, Bool.and_eq_false_iff]
      cases hmem : (memberId tag).isSome with
      | false => simp
      | true =>
        refine Or.inr ?_
        have hno : noMemberOfType t rest = true := by
          rcases hd.1 with h | h
          · rw [hmem] at h; cases h
          · exact h
        rw [tyEq_comm]
        exact noMemberOfType_at t rest m ut hno ht hm

/-- **zeroMember_of_distinct.** Members of pairwise different Go types: when the union field designates member `k` and every
member holds its zero value, `zeroMember` finds `k`. -/
theorem zeroMember_of_distinct (fs : Fields) (vs : Vals) (u : Nat) (k : Int) (ut : Ty)
    (hu : unionPos fs 0 = some u) (hF : Vals.get vs u = .ptr (.int k)) (hk : 0 ≤ k)
    (ht : tyAt fs k.toNat = some ut) (hm : isMemberAt fs k.toNat = true)
    (hz : anyMemberNonZero fs vs = false) (hlen : fs.length ≤ vs.length) (hd : MembersDistinct fs = true) :
    zeroMember fs vs = some k.toNat :=
  (zeroMember_ambiguous_iff fs vs u k ut hu hF hk ht hm hz hlen).2
    (otherOfType_of_distinct ut k.toNat fs 0 hd (by omega) (by simpa using ht) (by simpa using hm))

/-- the form with a natural-number position (the shape of `zeroMember_designated`) -/
theorem zeroMember_of_distinct_nat (fs : Fields) (vs : Vals) (u k : Nat) (ut : Ty)
    (hu : unionPos fs 0 = some u) (hF : Vals.get vs u = .ptr (.int (k : Nat)))
    (ht : tyAt fs k = some ut) (hm : isMemberAt fs k = true)
    (hz : anyMemberNonZero fs vs = false) (hlen : fs.length ≤ vs.length) (hd : MembersDistinct fs = true) :
    zeroMember fs vs = some k := by
  have := zeroMember_of_distinct fs vs u (k : Nat) ut hu hF (by omega) (by simpa using ht) (by simpa using hm) hz hlen hd
  simpa using this

/-- `union_zero_member_written` WITHOUT the scan hypothesis: members of pairwise different Go types, all zero, the union field
designating member `k` — field `k` is emitted although it is zero (anything but a nil pointer). -/
theorem emittedU_of_distinct (fs : Fields) (vs : Vals) (u k : Nat) (t : Ty) (tag : String) (x : Val) (id : Int)
    (rq en : Bool) (hu : unionPos fs 0 = some u) (hF : Vals.get vs u = .ptr (.int (k : Nat))) (ht : tyAt fs k = some t)
    (hm : isMemberAt fs k = true) (hz : anyMemberNonZero fs vs = false) (hlen : fs.length ≤ vs.length)
    (hd : MembersDistinct fs = true) (hp : parseTag tag = some (id, rq, en)) (hn : isNilPtr t x = false) :
    emittedU (zeroMember fs vs) k tag t x = some (id, en) := by
  rw [zeroMember_of_distinct_nat fs vs u k t hu hF ht hm hz hlen hd]
  exact emittedU_zeroMember k tag t x id rq en hp hn

/-- the natural-number form of the exactness theorem -/
theorem zeroMember_ambiguous_iff_nat (fs : Fields) (vs : Vals) (u k : Nat) (ut : Ty)
    (hu : unionPos fs 0 = some u) (hF : Vals.get vs u = .ptr (.int (k : Nat)))
    (ht : tyAt fs k = some ut) (hm : isMemberAt fs k = true)
    (hz : anyMemberNonZero fs vs = false) (hlen : fs.length ≤ vs.length) :
    (zeroMember fs vs = some k ↔ otherOfType ut k fs 0 = false) ∧
    (zeroMember fs vs = none ↔ otherOfType ut k fs 0 = true) := by
  have h1 := zeroMember_ambiguous_iff fs vs u (k : Nat) ut hu hF (by omega) (by simpa using ht) (by simpa using hm) hz hlen
  have h2 := zeroMember_none_iff fs vs u (k : Nat) ut hu hF (by omega) (by simpa using ht) (by simpa using hm) hz hlen
  simp only [Int.toNat_natCast] at h1 h2
  exact ⟨h1, h2⟩

/-! ## the negative witness: two members of one Go type -/
theorem memberId_of_parseTag (tag : String) (id : Int) (rq en : Bool) (h : parseTag tag = some (id, rq, en)) :
    memberId tag = some id := by
  unfold parseTag at h
  unfold memberId
  cases htv : tagValue tag with
  | none => rw [htv] at h; cases h
  | some v =>
    rw [htv] at h
    simp only at h ⊢
    split at h
    · cases h
    · rename_i hv
      rw [if_neg hv]
      split at h
      · cases h
      · rename_i id' hid
        simp only [Option.some.injEq, Prod.mk.injEq] at h
        rw [hid, h.1]

theorem memberId_none_of_parseTag (tag : String) (h : parseTag tag = none) : memberId tag = none := by
  unfold parseTag at h
  unfold memberId
  cases htv : tagValue tag with
  | none => rfl
  | some v =>
    rw [htv] at h
    simp only at h ⊢
    split at h
    · rename_i hv; rw [if_pos hv]
    · rename_i hv
      rw [if_neg hv]
      split at h
      · assumption
      · cases h

/-- the union `struct { A int32 (1); B int32 (2); F any (union) }` (tags abstract: `String.splitOn` does not reduce in the
kernel; the concrete tags are `#guard`ed below) -/
def ambFields (ta tb tf : String) : Fields :=
  .cons "A" ta false (.int .i32) (.cons "B" tb false (.int .i32) (.cons "F" tf false .any .nil))
/-- `A = 0`, `B = 0`, `F = &A` -/
def ambVals : Vals := .cons (.int 0) (.cons (.int 0) (.cons (.ptr (.int 0)) .nil))

/-- **zeroMember_ambiguous_witness** (the recorded finding `thriftUnionZeroAmbiguous` as a theorem): two `int32` members, both
zero, the union field pointing at the first: `zeroMember` answers `-1`, and `Marshal` writes the EMPTY struct — the stop byte
only — in every protocol (so `Unmarshal(Marshal(u))` has a nil union field: the set-to-zero member is lost). -/
theorem zeroMember_ambiguous_witness (ta tb tf : String)
    (ha : parseTag ta = some (1, false, false)) (hb : parseTag tb = some (2, false, false))
    (hf : parseTag tf = none) (hfu : isUnionTag tf = true) (p : Proto) :
    unionPos (ambFields ta tb tf) 0 = some 2 ∧
    otherOfType (.int .i32) 0 (ambFields ta tb tf) 0 = true ∧
    zeroMember (ambFields ta tb tf) ambVals = none ∧
    encodeU p (.struct (ambFields ta tb tf)) (.struct ambVals) = .ok (wStopField p) := by
  have ma := memberId_of_parseTag ta 1 false false ha
  have mb := memberId_of_parseTag tb 2 false false hb
  have mf := memberId_none_of_parseTag tf hf
  have hu : unionPos (ambFields ta tb tf) 0 = some 2 := by simp [ambFields, unionPos, hfu]
  have ho : otherOfType (.int .i32) 0 (ambFields ta tb tf) 0 = true := by
    simp [ambFields, otherOfType, ma, mb, mf, tyEq]
  have hz : zeroMember (ambFields ta tb tf) ambVals = none :=
    ((zeroMember_ambiguous_iff_nat (ambFields ta tb tf) ambVals 2 0 (.int .i32) hu (by simp [ambVals, Vals.get])
      (by simp [ambFields, tyAt]) (by simp [ambFields, isMemberAt, ma])
      (by simp [ambFields, ambVals, anyMemberNonZero, ma, mb, mf, isZeroAt, isZero])
      (by simp [ambFields, ambVals, Fields.length, Vals.length])).2).2 ho
  refine ⟨hu, ho, hz, ?_⟩
  apply union_no_member
  rw [hz]
  simp [ambFields, ambVals, othersQuiet, emittedU, ha, hb, hf, isNilPtr, isZeroAt, isZero, Fields.length]

/-! ### the ambiguous case in general: NOTHING is written -/
/-- no member carries the `required` option -/
def noRequired : Fields → Bool
  | .nil => true
  | .cons _ tag _ _ rest => (match parseTag tag with | some (_, rq, _) => !rq | none => true) && noRequired rest

theorem memberId_eq_parseTag (tag : String) : memberId tag = (parseTag tag).map (·.1) := by
  cases h : parseTag tag with
  | none => exact memberId_none_of_parseTag tag h
  | some y => obtain ⟨id, rq, en⟩ := y; exact memberId_of_parseTag tag id rq en h

theorem othersQuiet_of_zero (k : Nat) : ∀ (fs : Fields) (vs : Vals) (pos : Nat), anyMemberNonZero fs vs = false →
    noRequired fs = true → othersQuiet none k fs vs pos = true
  | .nil, vs, pos, _, _ => by cases vs <;> simp [othersQuiet]
  | .cons _ _ _ _ _, .nil, pos, _, _ => by simp [othersQuiet]
  | .cons n tag e t rest, .cons x vs, pos, hz, hr => by
    simp only [anyMemberNonZero, Bool.or_eq_false_iff, Bool.and_eq_false_iff, Bool.not_eq_false'] at hz
    simp only [noRequired, Bool.and_eq_true] at hr
    simp only [othersQuiet, othersQuiet_of_zero k rest vs (pos + 1) hz.2 hr.2, Bool.and_true, Bool.or_eq_true]
    refine Or.inr ?_
    unfold emittedU
    cases hp : parseTag tag with
    | none => rfl
    | some y =>
      obtain ⟨id, rq, en⟩ := y
      have hrq : rq = false := by simpa [hp] using hr.1
      have hzx : isZeroAt t x = true := by
        rcases hz.1 with h | h
        · rw [memberId_eq_parseTag, hp] at h; cases h
        · exact h
      subst hrq
      simp [hzx]

/-- **the finding, in general.** The union field designates member `k`, every member holds its zero value, ANOTHER member has
the designated member's Go type, no member is `required`: `Marshal` writes the empty struct — the stop byte only — in every
protocol; the member that was set (to zero) is not on the wire. -/
theorem union_ambiguous_nothing_written (p : Proto) (fs : Fields) (vs : Vals) (u k : Nat) (ut : Ty)
    (hu : unionPos fs 0 = some u) (hF : Vals.get vs u = .ptr (.int (k : Nat)))
    (ht : tyAt fs k = some ut) (hm : isMemberAt fs k = true)
    (hz : anyMemberNonZero fs vs = false) (hlen : fs.length ≤ vs.length)
    (ho : otherOfType ut k fs 0 = true) (hr : noRequired fs = true) :
    zeroMember fs vs = none ∧ encodeU p (.struct fs) (.struct vs) = .ok (wStopField p) := by
  have hzm := (zeroMember_ambiguous_iff_nat fs vs u k ut hu hF ht hm hz hlen).2.2 ho
  refine ⟨hzm, ?_⟩
  apply union_no_member
  rw [hzm]
  exact othersQuiet_of_zero fs.length fs vs 0 hz hr

/-- `MembersDistinct` is sufficient, NOT necessary: `struct { A int32 (1); B int32 (2); C string (3); F any (union) }` is not
`MembersDistinct`, yet `C = ""` designated is found (no other member is a string) — `zeroMember_ambiguous_iff` is the exact
condition. -/
def ambFields3 (ta tb tc tf : String) : Fields :=
  .cons "A" ta false (.int .i32) (.cons "B" tb false (.int .i32) (.cons "C" tc false .str (.cons "F" tf false .any .nil)))
def ambVals3 : Vals := .cons (.int 0) (.cons (.int 0) (.cons (.str []) (.cons (.ptr (.int 2)) .nil)))

theorem ambiguous_iff_example (ta tb tc tf : String)
    (ha : parseTag ta = some (1, false, false)) (hb : parseTag tb = some (2, false, false))
    (hc : parseTag tc = some (3, false, false)) (hf : parseTag tf = none) (hfu : isUnionTag tf = true) :
    MembersDistinct (ambFields3 ta tb tc tf) = false ∧ zeroMember (ambFields3 ta tb tc tf) ambVals3 = some 2 := by
  have ma := memberId_of_parseTag ta 1 false false ha
  have mb := memberId_of_parseTag tb 2 false false hb
  have mc := memberId_of_parseTag tc 3 false false hc
  have mf := memberId_none_of_parseTag tf hf
  have hu : unionPos (ambFields3 ta tb tc tf) 0 = some 3 := by simp [ambFields3, unionPos, hfu]
  refine ⟨by simp [ambFields3, MembersDistinct, noMemberOfType, ma, mb, mc, mf, tyEq], ?_⟩
  exact ((zeroMember_ambiguous_iff_nat (ambFields3 ta tb tc tf) ambVals3 3 2 .str hu (by simp [ambVals3, Vals.get])
      (by simp [ambFields3, tyAt]) (by simp [ambFields3, isMemberAt, mc])
      (by simp [ambFields3, ambVals3, anyMemberNonZero, ma, mb, mc, mf, isZeroAt, isZero])
      (by simp [ambFields3, ambVals3, Fields.length, Vals.length])).1).2
    (by simp [ambFields3, otherOfType, ma, mb, mc, mf, tyEq])

/-! ### the tag hypotheses are satisfiable (evaluated; `Witness.tg s = "thrift:\"" ++ s ++ "\""`) -/
#guard parseTag (Witness.tg "1") == some (1, false, false) && parseTag (Witness.tg "2") == some (2, false, false)
#guard parseTag (Witness.tg ",union") == none && isUnionTag (Witness.tg ",union")
#guard zeroMember (ambFields (Witness.tg "1") (Witness.tg "2") (Witness.tg ",union")) ambVals == none
#guard Witness.hexOf (encodeU .compact (.struct (ambFields (Witness.tg "1") (Witness.tg "2") (Witness.tg ",union")))
  (.struct ambVals)) == "00"
-- the shape predicates on the project's witnesses: V has members of distinct types, U has not (B and D are int32)
#guard MembersDistinct Witness.VF && !MembersDistinct Witness.UF
#guard otherOfType (.int .i32) 1 Witness.UF 0 && !otherOfType .str 2 Witness.UF 0 && !anyMemberNonZero Witness.UF Witness.uB0
#guard sameTypeMembers (.int .i32) Witness.UF 0 == [1, 3] && isMemberAt Witness.UF 1 && !isMemberAt Witness.UF 5

/-! ### non-vacuity of `zeroMember_of_distinct` / `zeroMember_ambiguous_iff` -/
/-- `struct { A bool (1); C string (3); F any (union) }`, `C = ""` designated -/
def distFields (ta tc tf : String) : Fields :=
  .cons "A" ta false .bool (.cons "C" tc false .str (.cons "F" tf false .any .nil))
def distVals : Vals := .cons (.bool false) (.cons (.str []) (.cons (.ptr (.int 1)) .nil))

theorem distinct_example (ta tc tf : String)
    (ha : parseTag ta = some (1, false, false)) (hc : parseTag tc = some (3, false, false))
    (hf : parseTag tf = none) (hfu : isUnionTag tf = true) :
    zeroMember (distFields ta tc tf) distVals = some 1 ∧
      emittedU (zeroMember (distFields ta tc tf) distVals) 1 tc .str (.str []) = some (3, false) := by
  have ma := memberId_of_parseTag ta 1 false false ha
  have mc := memberId_of_parseTag tc 3 false false hc
  have mf := memberId_none_of_parseTag tf hf
  have hu : unionPos (distFields ta tc tf) 0 = some 2 := by simp [distFields, unionPos, hfu]
  have hF : Vals.get distVals 2 = .ptr (.int ((1 : Nat) : Int)) := by simp [distVals, Vals.get]
  have ht : tyAt (distFields ta tc tf) 1 = some .str := by simp [distFields, tyAt]
  have hm : isMemberAt (distFields ta tc tf) 1 = true := by simp [distFields, isMemberAt, mc]
  have hz : anyMemberNonZero (distFields ta tc tf) distVals = false := by
    simp [distFields, distVals, anyMemberNonZero, ma, mc, mf, isZeroAt, isZero]
  have hlen : (distFields ta tc tf).length ≤ distVals.length := by simp [distFields, distVals, Fields.length, Vals.length]
  have hd : MembersDistinct (distFields ta tc tf) = true := by
    simp [distFields, MembersDistinct, noMemberOfType, ma, mc, mf, tyEq]
  exact ⟨zeroMember_of_distinct_nat _ _ 2 1 .str hu hF ht hm hz hlen hd,
    emittedU_of_distinct _ _ 2 1 .str tc (.str []) 3 false false hu hF ht hm hz hlen hd hc (by simp [isNilPtr])⟩

/-- the hypotheses of `zeroMember_of_distinct` / `emittedU_of_distinct` hold on `distFields` / `distVals` (for the Props examples) -/
theorem distinct_example_hyps (ta tc tf : String)
    (ha : parseTag ta = some (1, false, false)) (hc : parseTag tc = some (3, false, false))
    (hf : parseTag tf = none) (hfu : isUnionTag tf = true) :
    unionPos (distFields ta tc tf) 0 = some 2 ∧ Vals.get distVals 2 = .ptr (.int ((1 : Nat) : Int)) ∧
      tyAt (distFields ta tc tf) 1 = some .str ∧ isMemberAt (distFields ta tc tf) 1 = true ∧
      anyMemberNonZero (distFields ta tc tf) distVals = false ∧ (distFields ta tc tf).length ≤ distVals.length ∧
      MembersDistinct (distFields ta tc tf) = true := by
  have ma := memberId_of_parseTag ta 1 false false ha
  have mc := memberId_of_parseTag tc 3 false false hc
  have mf := memberId_none_of_parseTag tf hf
  refine ⟨by simp [distFields, unionPos, hfu], by simp [distVals, Vals.get], by simp [distFields, tyAt],
    by simp [distFields, isMemberAt, mc], by simp [distFields, distVals, anyMemberNonZero, ma, mc, mf, isZeroAt, isZero],
    by simp [distFields, distVals, Fields.length, Vals.length],
    by simp [distFields, MembersDistinct, noMemberOfType, ma, mc, mf, tyEq]⟩

/-- the hypotheses of `zeroMember_ambiguous_iff` / `union_ambiguous_nothing_written` hold on `ambFields` / `ambVals` -/
theorem ambiguous_example_hyps (ta tb tf : String)
    (ha : parseTag ta = some (1, false, false)) (hb : parseTag tb = some (2, false, false))
    (hf : parseTag tf = none) (hfu : isUnionTag tf = true) :
    unionPos (ambFields ta tb tf) 0 = some 2 ∧ Vals.get ambVals 2 = .ptr (.int ((0 : Nat) : Int)) ∧
      tyAt (ambFields ta tb tf) 0 = some (.int .i32) ∧ isMemberAt (ambFields ta tb tf) 0 = true ∧
      anyMemberNonZero (ambFields ta tb tf) ambVals = false ∧ (ambFields ta tb tf).length ≤ ambVals.length ∧
      otherOfType (.int .i32) 0 (ambFields ta tb tf) 0 = true ∧ noRequired (ambFields ta tb tf) = true := by
  have ma := memberId_of_parseTag ta 1 false false ha
  have mb := memberId_of_parseTag tb 2 false false hb
  have mf := memberId_none_of_parseTag tf hf
  refine ⟨by simp [ambFields, unionPos, hfu], by simp [ambVals, Vals.get], by simp [ambFields, tyAt],
    by simp [ambFields, isMemberAt, ma], by simp [ambFields, ambVals, anyMemberNonZero, ma, mb, mf, isZeroAt, isZero],
    by simp [ambFields, ambVals, Fields.length, Vals.length], by simp [ambFields, otherOfType, ma, mb, mf, tyEq],
    by simp [ambFields, noRequired, ha, hb, hf]⟩

end Enc.Lemmas.ThriftUnion

#print axioms Enc.Lemmas.ThriftUnion.eq_of_tyEq
#print axioms Enc.Lemmas.ThriftUnion.zmScan_characterisation
#print axioms Enc.Lemmas.ThriftUnion.zeroMember_ambiguous_iff
#print axioms Enc.Lemmas.ThriftUnion.zeroMember_none_iff
#print axioms Enc.Lemmas.ThriftUnion.zeroMember_of_distinct
#print axioms Enc.Lemmas.ThriftUnion.emittedU_of_distinct
#print axioms Enc.Lemmas.ThriftUnion.zeroMember_ambiguous_witness
#print axioms Enc.Lemmas.ThriftUnion.distinct_example
#print axioms Enc.Lemmas.ThriftUnion.union_ambiguous_nothing_written
#print axioms Enc.Lemmas.ThriftUnion.ambiguous_iff_example
