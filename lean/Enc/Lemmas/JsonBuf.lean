import Enc.Model.Json.Buf
import Enc.Spec.Json.Render
import Enc.Lemmas.JsonEncString
import Enc.Lemmas.JsonEncInt
/-!
# JSON (C15): `json.Append` into a destination slice = destination bytes ++ buffer-free rendering

`append_eq_render`: MAIN. For every growth policy, every well-formed destination slice and every value whose integer
leaves are 64-bit (`JV.Ranged`), the model of `Append` returns `s.data ++ render v` without error when `render v` is
defined, and otherwise returns an error together with bytes that still start with `s.data`.
Corollaries: `append_oblivious` (length/capacity of the destination are irrelevant), `grow_irrelevant`.

Route: data-level lemmas for `Slice.append`, `Slice.truncate`, `encodeBytes`, `moveDown`; the invariant `Post`; one step
lemma per encoder (`wrap_post`, `quote_post`, `elems_step`, `fields_step`) taking the induction hypotheses as arguments;
a three-theorem mutual structural induction `enc_post` / `encElems_post` / `encFields_post` against `renderM` (the
rendering with the model's own `encodeString` / `appendInt`), which needs no range condition; `renderM_eq` bridges to
`Spec.Json.render` with `encodeString_eq` / `appendInt_eq`. Hence `append_oblivious_all` / `grow_irrelevant_all` hold
for every value and do not depend on the SWAR (`bv_decide`) lemmas behind `encodeString_eq`.
-/

/-! ### the range predicate on the value universe (every `.int` leaf is an int64) -/
namespace Enc.Model.Json.Buf

mutual
def JV.ranged : JV → Bool
  | .int i => decide (-2 ^ 63 ≤ i ∧ i < 2 ^ 63)
  | .arr vs => JVs.ranged vs
  | .obj fs => JFs.ranged fs
  | _ => true
def JVs.ranged : JVs → Bool
  | .nil => true
  | .cons v rest => JV.ranged v && JVs.ranged rest
def JFs.ranged : JFs → Bool
  | .nil => true
  | .cons _ _ _ _ v rest => JV.ranged v && JFs.ranged rest
end

/-- every `.int i` leaf satisfies `-2^63 ≤ i < 2^63` -/
def JV.Ranged (v : JV) : Prop := v.ranged = true
def JVs.Ranged (vs : JVs) : Prop := vs.ranged = true
def JFs.Ranged (fs : JFs) : Prop := fs.ranged = true
instance (v : JV) : Decidable v.Ranged := inferInstanceAs (Decidable (_ = true))
instance (vs : JVs) : Decidable vs.Ranged := inferInstanceAs (Decidable (_ = true))
instance (fs : JFs) : Decidable fs.Ranged := inferInstanceAs (Decidable (_ = true))

end Enc.Model.Json.Buf

namespace Enc.Lemmas.JsonBuf
open Enc Enc.Model.Json Enc.Model.Json.Buf Enc.Spec.Json

theorem ranged_int (i : Int) : (JV.int i).Ranged ↔ (-2 ^ 63 ≤ i ∧ i < 2 ^ 63) := by
  simp [JV.Ranged, JV.ranged]
theorem ranged_arr (vs : JVs) : (JV.arr vs).Ranged ↔ vs.Ranged := by simp [JV.Ranged, JVs.Ranged, JV.ranged]
theorem ranged_obj (fs : JFs) : (JV.obj fs).Ranged ↔ fs.Ranged := by simp [JV.Ranged, JFs.Ranged, JV.ranged]
theorem ranged_elems (v : JV) (rest : JVs) : (JVs.cons v rest).Ranged ↔ v.Ranged ∧ rest.Ranged := by
  simp [JV.Ranged, JVs.Ranged, JVs.ranged]
theorem ranged_fields (name : Bytes) (o q rb : Bool) (v : JV) (rest : JFs) :
    (JFs.cons name o q rb v rest).Ranged ↔ v.Ranged ∧ rest.Ranged := by
  simp [JV.Ranged, JFs.Ranged, JFs.ranged]

/-! ### slices -/
theorem data_length (s : Slice) (hs : s.Wf) : s.data.length = s.len := by
  unfold Slice.data Slice.Wf at *
  simp only [List.length_take]; omega

theorem empty_wf : Slice.empty.Wf := by simp [Slice.empty, Slice.Wf]
theorem empty_data : Slice.empty.data = [] := by simp [Slice.empty, Slice.data]

/-- overwriting at offset `i ≤ |arr|` and reslicing to `i + |xs|` -/
theorem writeAt_slice (arr : Bytes) (i : Nat) (xs : Bytes) (hi : i ≤ arr.length) :
    (Slice.mk (writeAt arr i xs) (i + xs.length)).data = arr.take i ++ xs ∧
    (Slice.mk (writeAt arr i xs) (i + xs.length)).Wf := by
  unfold Slice.data Slice.Wf writeAt
  simp only
  constructor
  · have h1 : (arr.take i ++ xs).length = i + xs.length := by
      simp only [List.length_append, List.length_take]; omega
    rw [← h1, List.take_left']
    rfl
  · simp only [List.length_append, List.length_take, List.length_drop]; omega

/-- Go's `append` on a well-formed slice: the contents become `data ++ xs` whatever the capacity and growth policy -/
theorem append_data (grow : Nat → Nat → Nat) (s : Slice) (hs : s.Wf) (xs : Bytes) :
    (s.append grow xs).data = s.data ++ xs ∧ (s.append grow xs).Wf := by
  unfold Slice.append
  simp only
  split
  · exact writeAt_slice s.arr s.len xs hs
  · have hl := data_length s hs
    unfold Slice.data Slice.Wf at *
    simp only
    constructor
    · have h1 : (s.arr.take s.len ++ xs).length = s.len + xs.length := by
        simp only [List.length_append, hl]
      rw [← h1, List.take_left']
      rfl
    · simp only [List.length_append, hl, List.length_replicate]; omega

/-- `b[:n]` where the first `n` bytes are known -/
theorem truncate_data (s' : Slice) (hs' : s'.Wf) (d : Bytes) (h : d <+: s'.data) :
    (s'.truncate d.length).data = d ∧ (s'.truncate d.length).Wf := by
  obtain ⟨t, ht⟩ := h
  have hl := data_length s' hs'
  have hle : d.length ≤ s'.len := by
    rw [← hl, ← ht]; simp
  unfold Slice.truncate Slice.data Slice.Wf at *
  simp only
  constructor
  · have : s'.arr.take d.length = (s'.arr.take s'.len).take d.length := by
      rw [List.take_take]; congr 1; omega
    rw [this, ← ht]; simp
  · omega

/-! ### base64 -/
theorem b64_length (v : Bytes) : (b64 v).length = b64Len v.length := by
  fun_induction b64 v with
  | case1 a b c rest x ih => simp only [List.length_cons, ih, b64Len]; omega
  | case2 a b x => simp [b64Len]
  | case3 a x => simp [b64Len]
  | case4 => simp [b64Len]

theorem encodeBytes_data (s : Slice) (hs : s.Wf) (v : Bytes) :
    (encodeBytes s v).data = s.data ++ ([0x22] ++ b64 v ++ [0x22]) ∧ (encodeBytes s v).Wf := by
  have hq : ([0x22] ++ b64 v ++ [0x22] : Bytes).length = b64Len v.length + 2 := by
    simp [b64_length]
  unfold encodeBytes
  simp only
  split
  · rename_i hlt
    have hl := data_length s hs
    have h := writeAt_slice (s.data ++ List.replicate (s.cap + (b64Len v.length + 2 - (s.cap - s.len)) - s.len) 0)
      s.len ([0x22] ++ b64 v ++ [0x22]) (by simp [hl])
    rw [hq] at h
    refine ⟨?_, h.2⟩
    rw [h.1, ← hl, List.take_left']
    rfl
  · have h := writeAt_slice s.arr s.len ([0x22] ++ b64 v ++ [0x22]) hs
    rw [hq] at h
    exact h

/-- `copy(b[i:], b[j:])`, `b[:i+n]`: the text `q` appended at offset `j` replaces the text `inner` that started at `i` -/
theorem moveDown_data (s : Slice) (hs : s.Wf) (d inner q : Bytes) (h : s.data = d ++ inner ++ q) :
    (moveDown s d.length (d.length + inner.length)).data = d ++ q ∧
    (moveDown s d.length (d.length + inner.length)).Wf := by
  have hl := data_length s hs
  have hdrop : s.data.drop (d.length + inner.length) = q := by
    rw [h, ← List.length_append, List.drop_left']
    rfl
  have hlen : d.length + inner.length + q.length = s.len := by
    rw [← hl, h]; simp only [List.length_append]
  have hi : d.length ≤ s.arr.length := by unfold Slice.Wf at hs; omega
  unfold moveDown
  simp only [hdrop]
  have hw := writeAt_slice s.arr d.length q hi
  refine ⟨?_, hw.2⟩
  rw [hw.1]
  congr 1
  have : s.arr.take d.length = s.data.take d.length := by
    unfold Slice.data; rw [List.take_take]; congr 1; omega
  rw [this, h, List.append_assoc, List.take_left']
  rfl

/-! ### the text of a comma-separated list, with and without its leading comma -/
def commaAll : List Bytes → Bytes
  | [] => []
  | x :: rest => [0x2c] ++ x ++ commaAll rest

/-- what is written for the members `xs` when `first` says whether the next member is the first one -/
def listText (first : Bool) (xs : List Bytes) : Bytes := if first then joinWith 0x2c xs else commaAll xs

theorem joinWith_cons (x : Bytes) (rest : List Bytes) : joinWith 0x2c (x :: rest) = x ++ commaAll rest := by
  induction rest generalizing x with
  | nil => simp [joinWith, commaAll]
  | cons y r ih => simp only [joinWith, commaAll, ih]; simp

theorem listText_nil (first : Bool) : listText first [] = [] := by
  cases first <;> simp [listText, joinWith, commaAll]
theorem listText_true_cons (x : Bytes) (rest : List Bytes) : listText true (x :: rest) = x ++ listText false rest := by
  simp [listText, joinWith_cons]
theorem listText_false_cons (x : Bytes) (rest : List Bytes) :
    listText false (x :: rest) = [0x2c] ++ x ++ listText false rest := by
  simp [listText, commaAll]
theorem listText_cons (first : Bool) (x : Bytes) (rest : List Bytes) :
    listText first (x :: rest) = (if first then [] else [0x2c]) ++ x ++ listText false rest := by
  cases first
  · simp [listText_false_cons]
  · simp [listText_true_cons]

/-! ### the invariant -/
/-- outcome `p` of an encoder started on `s`, against the specification's outcome `r` -/
def Post (s : Slice) (p : Slice × Err) (r : Option Bytes) : Prop :=
  p.1.Wf ∧
    match r with
    | some x => p.2 = .none ∧ p.1.data = s.data ++ x
    | none => p.2 ≠ .none ∧ s.data <+: p.1.data

theorem post_some {s s' : Slice} {e : Err} {x : Bytes} :
    Post s (s', e) (some x) ↔ s'.Wf ∧ e = .none ∧ s'.data = s.data ++ x := Iff.rfl
theorem post_none {s s' : Slice} {e : Err} :
    Post s (s', e) none ↔ s'.Wf ∧ e ≠ .none ∧ s.data <+: s'.data := Iff.rfl

theorem post_ok_inv {s s' : Slice} {r : Option Bytes} (h : Post s (s', .none) r) :
    ∃ x, r = some x ∧ s'.Wf ∧ s'.data = s.data ++ x := by
  cases r with
  | none => exact absurd rfl (post_none.1 h).2.1
  | some x => exact ⟨x, rfl, (post_some.1 h).1, (post_some.1 h).2.2⟩

theorem post_err_inv {s s' : Slice} {e : Err} {r : Option Bytes} (he : e ≠ .none) (h : Post s (s', e) r) :
    r = none ∧ s'.Wf ∧ s.data <+: s'.data := by
  cases r with
  | none => exact ⟨rfl, (post_none.1 h).1, (post_none.1 h).2.2⟩
  | some x => exact absurd (post_some.1 h).2.1 he

theorem post_append (grow : Nat → Nat → Nat) (s : Slice) (hs : s.Wf) (xs : Bytes) :
    Post s (s.append grow xs, .none) (some xs) :=
  post_some.2 ⟨(append_data grow s hs xs).2, rfl, (append_data grow s hs xs).1⟩

/-- an encoder started after `a` has been written -/
theorem post_trans {s s1 : Slice} {a : Bytes} (h1 : s1.data = s.data ++ a) {p : Slice × Err} {r : Option Bytes}
    (h2 : Post s1 p r) : Post s p (r.map (a ++ ·)) := by
  obtain ⟨s', e⟩ := p
  cases r with
  | none =>
    obtain ⟨hw, he, hp⟩ := post_none.1 h2
    exact post_none.2 ⟨hw, he, List.IsPrefix.trans (h1 ▸ List.prefix_append _ _) hp⟩
  | some x =>
    obtain ⟨hw, he, hd⟩ := post_some.1 h2
    exact post_some.2 ⟨hw, he, by rw [hd, h1, List.append_assoc]⟩

theorem post_congr {s t : Slice} (h : t.data = s.data) {p : Slice × Err} {r : Option Bytes} (h2 : Post t p r) :
    Post s p r := by
  unfold Post at *; rw [h] at h2; exact h2

/-! ### the rendering with the model's own scalar writers
`renderM` is `Spec.Json.render` with `encodeString` / `appendInt` (the functions the model calls) in place of
`appendString` / `intString`. The buffer theorem is proved against `renderM` for EVERY value (no range condition, and
without the SWAR lemmas behind `encodeString_eq`); `renderM_eq` then identifies it with `render` on ranged values. -/
mutual
def renderM (html : Bool) : JV → Option Bytes
  | .null => some [0x6e, 0x75, 0x6c, 0x6c]
  | .bool b => some (if b then [0x74, 0x72, 0x75, 0x65] else [0x66, 0x61, 0x6c, 0x73, 0x65])
  | .int i => some (appendInt i)
  | .str s => some (encodeString s html)
  | .bytes none => some [0x6e, 0x75, 0x6c, 0x6c]
  | .bytes (some v) => some ([0x22] ++ b64 v ++ [0x22])
  | .fail _ => none
  | .arr vs => (renderElemsM html vs).map fun xs => [0x5b] ++ joinWith 0x2c xs ++ [0x5d]
  | .obj fs => (renderFieldsM html fs).map fun ms => [0x7b] ++ joinWith 0x2c ms ++ [0x7d]
def renderElemsM (html : Bool) : JVs → Option (List Bytes)
  | .nil => some []
  | .cons v rest =>
    match renderM html v, renderElemsM html rest with
    | some x, some xs => some (x :: xs)
    | _, _ => none
def renderFieldsM (html : Bool) : JFs → Option (List Bytes)
  | .nil => some []
  | .cons name omitempty quoted rb v rest =>
    if (omitempty && v.isEmpty) || rb then renderFieldsM html rest
    else
      match renderM html v, renderFieldsM html rest with
      | some x, some ms => some ((encodeString name html ++ [0x3a] ++ (if quoted then encodeString x html else x)) :: ms)
      | _, _ => none
end

mutual
theorem renderM_eq (html : Bool) (v : JV) (hv : v.Ranged) : renderM html v = render html v := by
  cases v with
  | null => simp only [renderM, render]
  | bool b => cases b <;> simp [renderM, render]
  | int i =>
    have hi := (ranged_int i).1 hv
    simp only [renderM, render]
    rw [Lemmas.JsonEncInt.appendInt_eq i ⟨hi.1, by omega⟩]
  | str x => simp only [renderM, render, Lemmas.JsonEncString.encodeString_eq]
  | bytes ov => cases ov <;> simp only [renderM, render]
  | fail part => simp only [renderM, render]
  | arr vs => simp only [renderM, render, renderElemsM_eq html vs ((ranged_arr vs).1 hv)]
  | obj fs => simp only [renderM, render, renderFieldsM_eq html fs ((ranged_obj fs).1 hv)]
theorem renderElemsM_eq (html : Bool) (vs : JVs) (hv : vs.Ranged) : renderElemsM html vs = renderElems html vs := by
  cases vs with
  | nil => simp only [renderElemsM, renderElems]
  | cons v rest =>
    have hr := (ranged_elems v rest).1 hv
    simp only [renderElemsM, renderElems, renderM_eq html v hr.1, renderElemsM_eq html rest hr.2]
    cases render html v <;> cases renderElems html rest <;> rfl
theorem renderFieldsM_eq (html : Bool) (fs : JFs) (hv : fs.Ranged) : renderFieldsM html fs = renderFields html fs := by
  cases fs with
  | nil => simp only [renderFieldsM, renderFields]
  | cons name o q rb v rest =>
    have hr := (ranged_fields name o q rb v rest).1 hv
    simp only [renderFieldsM, renderFields, renderM_eq html v hr.1, renderFieldsM_eq html rest hr.2,
      Lemmas.JsonEncString.encodeString_eq]
    cases render html v <;> cases renderFields html rest <;> rfl
end

/-! ### the steps of the three encoders, given the induction hypotheses -/

/-- `[` … `]` / `{` … `}` with the truncate-to-start rollback -/
theorem wrap_post (grow : Nat → Nat → Nat) (s : Slice) (hs : s.Wf) (o c : UInt8) (s' : Slice) (e : Err)
    (r : Option (List Bytes)) (h : Post (s.append grow [o]) (s', e) (r.map (listText true))) :
    Post s (if e = .none then (s'.append grow [c], .none) else (s'.truncate s.len, e))
      (r.map fun xs => [o] ++ joinWith 0x2c xs ++ [c]) := by
  have hs1 := append_data grow s hs [o]
  by_cases he : e = .none
  · subst he
    obtain ⟨x, hx, hw, hd⟩ := post_ok_inv h
    cases r with
    | none => simp at hx
    | some xs =>
      simp only [Option.map, Option.some.injEq] at hx
      subst hx
      simp only [if_true, Option.map]
      have ha := append_data grow s' hw [c]
      refine post_some.2 ⟨ha.2, rfl, ?_⟩
      rw [ha.1, hd, hs1.1]; simp [listText]
  · obtain ⟨hr, hw, hp⟩ := post_err_inv he h
    cases r with
    | some xs => simp at hr
    | none =>
      simp only [if_neg he, Option.map]
      have hp' : s.data <+: s'.data := List.IsPrefix.trans (hs1.1 ▸ List.prefix_append _ _) hp
      have ht := truncate_data s' hw s.data hp'
      rw [data_length s hs] at ht
      exact post_none.2 ⟨ht.2, he, by rw [ht.1]; exact List.prefix_refl _⟩

/-- `,string`: encode, quote what was written, move the quoted text down -/
theorem quote_post (grow : Nat → Nat → Nat) (html : Bool) (s1 : Slice) (hs1 : s1.Wf) (s2 : Slice) (x : Bytes)
    (h : Post s1 (s2, .none) (some x)) :
    Post s1 (moveDown (s2.append grow (encodeString (s2.data.drop s1.len) html)) s1.len s2.len, .none)
      (some (encodeString x html)) := by
  obtain ⟨hw, _, hd⟩ := post_some.1 h
  have hl1 := data_length s1 hs1
  have hl2 := data_length s2 hw
  have hx : s2.data.drop s1.len = x := by
    rw [hd, ← hl1, List.drop_left']; rfl
  have hj : s2.len = s1.data.length + x.length := by
    rw [← hl2, hd]; simp
  have h3 := append_data grow s2 hw (encodeString x html)
  rw [hx, ← hl1, hj]
  have hm := moveDown_data (s2.append grow (encodeString x html)) h3.2 s1.data x (encodeString x html)
    (by rw [h3.1, hd])
  exact post_some.2 ⟨hm.2, rfl, hm.1⟩

/-- one array element -/
theorem elems_step (grow : Nat → Nat → Nat) (html : Bool) (s : Slice) (hs : s.Wf) (first : Bool) (v : JV) (rest : JVs)
    (ih1 : ∀ s1 : Slice, s1.Wf → Post s1 (enc grow html s1 v) (renderM html v))
    (ih2 : ∀ s2 : Slice, s2.Wf →
      Post s2 (encElems grow html s2 false rest) ((renderElemsM html rest).map (listText false))) :
    Post s (encElems grow html s first (.cons v rest)) ((renderElemsM html (.cons v rest)).map (listText first)) := by
  simp only [encElems, renderElemsM]
  have hs1 : (if first = true then s else s.append grow [0x2c]).Wf ∧
      (if first = true then s else s.append grow [0x2c]).data = s.data ++ (if first = true then [] else [0x2c]) := by
    cases first <;> simp [hs, append_data grow s hs]
  generalize (if first = true then s else s.append grow [0x2c]) = s1 at hs1
  have h1 := ih1 s1 hs1.1
  generalize enc grow html s1 v = p at h1
  obtain ⟨s2, e⟩ := p
  cases e
  case none =>
    obtain ⟨x, hx, hw, hd⟩ := post_ok_inv h1
    rw [hx]
    simp only []
    have h3 := post_trans hs1.2 (post_trans hd (ih2 s2 hw))
    cases hr : renderElemsM html rest with
    | none => rw [hr] at h3; exact h3
    | some xs =>
      rw [hr] at h3
      simp only [Option.map, listText_cons] at h3 ⊢
      simpa using h3
  all_goals
    obtain ⟨hr, hw, hp⟩ := post_err_inv (by simp) h1
    rw [hr]
    simp only [Option.map]
    exact post_none.2 ⟨hw, by simp, List.IsPrefix.trans (hs1.2 ▸ List.prefix_append _ _) hp⟩

/-- the key fragment actually written: the first member drops the leading comma (`k[1:]`) -/
theorem key_eq (name : Bytes) (html : Bool) (n : Nat) :
    (if (n != 0) = true then keyFragment name html else (keyFragment name html).drop 1) =
      (if (n == 0) = true then [] else [0x2c]) ++ (encodeString name html ++ [0x3a]) := by
  unfold keyFragment
  by_cases hn : n = 0 <;> simp [hn]

/-- one struct field -/
theorem fields_step (grow : Nat → Nat → Nat) (html : Bool) (s : Slice) (hs : s.Wf) (n : Nat)
    (name : Bytes) (o q rb : Bool) (v : JV) (rest : JFs)
    (ih1 : ∀ s1 : Slice, s1.Wf → Post s1 (enc grow html s1 v) (renderM html v))
    (ih2 : ∀ (s2 : Slice) (m : Nat), s2.Wf →
      Post s2 (encFields grow html s2 m rest) ((renderFieldsM html rest).map (listText (m == 0)))) :
    Post s (encFields grow html s n (.cons name o q rb v rest))
      ((renderFieldsM html (.cons name o q rb v rest)).map (listText (n == 0))) := by
  simp only [encFields, renderFieldsM]
  cases hskip : (o && v.isEmpty)
  case true => simp only [Bool.true_or, if_true]; exact ih2 s n hs
  case false =>
    simp only [Bool.false_or, Bool.false_eq_true, if_false]
    rw [key_eq]
    generalize hk : (if (n == 0) = true then [] else [0x2c]) ++ (encodeString name html ++ [0x3a]) = key
    have hs1 := append_data grow s hs key
    cases rb
    case true =>
      simp only [if_true]
      have ht := truncate_data (s.append grow key) hs1.2 s.data (by rw [hs1.1]; exact List.prefix_append _ _)
      rw [data_length s hs] at ht
      exact post_congr ht.1 (ih2 _ n ht.2)
    case false =>
      simp only [Bool.false_eq_true, if_false]
      have h1 := ih1 (s.append grow key) hs1.2
      generalize enc grow html (s.append grow key) v = p at h1
      obtain ⟨s2, e⟩ := p
      cases e
      case none =>
        obtain ⟨x, hx, hw, hd⟩ := post_ok_inv h1
        rw [hx] at h1 ⊢
        -- the value part, quoted or not
        have hval : ∃ s3, (if q = true then
              (moveDown (s2.append grow (encodeString (s2.data.drop (s.append grow key).len) html))
                (s.append grow key).len s2.len, Err.none) else (s2, Err.none)) = (s3, Err.none) ∧
            s3.Wf ∧ s3.data = (s.append grow key).data ++ (if q = true then encodeString x html else x) := by
          cases q
          case false => exact ⟨s2, by simp, hw, by simpa using hd⟩
          case true =>
            have hq := post_some.1 (quote_post grow html _ hs1.2 s2 x h1)
            exact ⟨_, by simp, hq.1, by simpa using hq.2.2⟩
        obtain ⟨s3, h3e, h3w, h3d⟩ := hval
        simp only [] at h3e ⊢
        rw [h3e]
        simp only []
        have h4 := post_trans hs1.1 (post_trans h3d (ih2 s3 (n + 1) h3w))
        cases hr : renderFieldsM html rest with
        | none => rw [hr] at h4; exact h4
        | some ms =>
          rw [hr] at h4
          simp only [Option.map, listText_cons] at h4 ⊢
          rw [← hk] at h4
          have hn1 : (n + 1 == 0) = false := by simp
          rw [hn1] at h4
          simpa [List.append_assoc] using h4
      all_goals
        obtain ⟨hr, hw, hp⟩ := post_err_inv (by simp) h1
        rw [hr]
        have hif : ∀ r : Slice × Err, (if q = true then r else r) = r := by intro r; cases q <;> rfl
        simp only [Option.map, hif]
        exact post_none.2 ⟨hw, by simp, List.IsPrefix.trans (hs1.1 ▸ List.prefix_append _ _) hp⟩

/-! ### the mutual induction -/
mutual
theorem enc_post (grow : Nat → Nat → Nat) (html : Bool) (s : Slice) (hs : s.Wf) (v : JV) :
    Post s (enc grow html s v) (renderM html v) := by
  cases v with
  | null => simp only [enc, renderM]; exact post_append grow s hs _
  | bool b => simp only [enc, renderM]; exact post_append grow s hs _
  | int i => simp only [enc, renderM]; exact post_append grow s hs _
  | str x => simp only [enc, renderM]; exact post_append grow s hs _
  | bytes ov =>
    cases ov with
    | none => simp only [enc, renderM]; exact post_append grow s hs _
    | some b =>
      simp only [enc, renderM]
      exact post_some.2 ⟨(encodeBytes_data s hs b).2, rfl, (encodeBytes_data s hs b).1⟩
  | fail part =>
    simp only [enc, renderM]
    have h := append_data grow s hs part
    exact post_none.2 ⟨h.2, by simp, h.1 ▸ List.prefix_append _ _⟩
  | arr vs =>
    have hs1 := append_data grow s hs [0x5b]
    have ih := encElems_post grow html (s.append grow [0x5b]) hs1.2 true vs
    simp only [enc, renderM]
    generalize encElems grow html (s.append grow [0x5b]) true vs = p at ih
    obtain ⟨s', e⟩ := p
    have h := wrap_post grow s hs 0x5b 0x5d s' e _ ih
    cases e <;> simpa using h
  | obj fs =>
    have hs1 := append_data grow s hs [0x7b]
    have ih := encFields_post grow html (s.append grow [0x7b]) hs1.2 0 fs
    simp only [enc, renderM]
    generalize encFields grow html (s.append grow [0x7b]) 0 fs = p at ih
    obtain ⟨s', e⟩ := p
    have h := wrap_post grow s hs 0x7b 0x7d s' e _ ih
    cases e <;> simpa using h
theorem encElems_post (grow : Nat → Nat → Nat) (html : Bool) (s : Slice) (hs : s.Wf) (first : Bool) (vs : JVs) :
    Post s (encElems grow html s first vs) ((renderElemsM html vs).map (listText first)) := by
  cases vs with
  | nil =>
    simp only [encElems, renderElemsM, Option.map, listText_nil]
    exact post_some.2 ⟨hs, rfl, by simp⟩
  | cons v rest =>
    exact elems_step grow html s hs first v rest
      (fun s1 h1 => enc_post grow html s1 h1 v)
      (fun s2 h2 => encElems_post grow html s2 h2 false rest)
theorem encFields_post (grow : Nat → Nat → Nat) (html : Bool) (s : Slice) (hs : s.Wf) (n : Nat) (fs : JFs) :
    Post s (encFields grow html s n fs) ((renderFieldsM html fs).map (listText (n == 0))) := by
  cases fs with
  | nil =>
    simp only [encFields, renderFieldsM, Option.map, listText_nil]
    exact post_some.2 ⟨hs, rfl, by simp⟩
  | cons name o q rb v rest =>
    exact fields_step grow html s hs n name o q rb v rest
      (fun s1 h1 => enc_post grow html s1 h1 v)
      (fun s2 m h2 => encFields_post grow html s2 h2 m rest)
end

/-! `enc` never reports the `rollback` sentinel (in this model it is consumed inside `encFields`). Not needed for the
theorems below (the invariant only distinguishes `.none` from the rest); recorded for completeness. -/
mutual
theorem enc_ne_rollback (grow : Nat → Nat → Nat) (html : Bool) (s : Slice) (v : JV) :
    (enc grow html s v).2 ≠ .rollback := by
  cases v with
  | arr vs =>
    have ih := encElems_ne_rollback grow html (s.append grow [0x5b]) true vs
    simp only [enc]
    generalize encElems grow html (s.append grow [0x5b]) true vs = p at ih
    obtain ⟨s', e⟩ := p
    cases e <;> simp_all
  | obj fs =>
    have ih := encFields_ne_rollback grow html (s.append grow [0x7b]) 0 fs
    simp only [enc]
    generalize encFields grow html (s.append grow [0x7b]) 0 fs = p at ih
    obtain ⟨s', e⟩ := p
    cases e <;> simp_all
  | bytes ov => cases ov <;> simp [enc]
  | null => simp [enc]
  | bool b => simp [enc]
  | int i => simp [enc]
  | str x => simp [enc]
  | fail part => simp [enc]
theorem encElems_ne_rollback (grow : Nat → Nat → Nat) (html : Bool) (s : Slice) (first : Bool) (vs : JVs) :
    (encElems grow html s first vs).2 ≠ .rollback := by
  cases vs with
  | nil => simp [encElems]
  | cons v rest =>
    simp only [encElems]
    generalize (if first = true then s else s.append grow [0x2c]) = s1
    have ih1 := enc_ne_rollback grow html s1 v
    generalize enc grow html s1 v = p at ih1
    obtain ⟨s2, e⟩ := p
    cases e
    · exact encElems_ne_rollback grow html s2 false rest
    · simp
    · simp at ih1
theorem encFields_ne_rollback (grow : Nat → Nat → Nat) (html : Bool) (s : Slice) (n : Nat) (fs : JFs) :
    (encFields grow html s n fs).2 ≠ .rollback := by
  cases fs with
  | nil => simp [encFields]
  | cons name o q rb v rest =>
    simp only [encFields]
    generalize (if (n != 0) = true then keyFragment name html else List.drop 1 (keyFragment name html)) = key
    split
    · exact encFields_ne_rollback grow html s n rest
    · split
      · exact encFields_ne_rollback grow html _ n rest
      · have ih1 := enc_ne_rollback grow html (s.append grow key) v
        generalize enc grow html (s.append grow key) v = p at ih1
        obtain ⟨s2, e⟩ := p
        cases e
        · cases q
          · exact encFields_ne_rollback grow html s2 (n + 1) rest
          · exact encFields_ne_rollback grow html _ (n + 1) rest
        · cases q <;> simp
        · simp at ih1
end

/-! ### main theorems -/

/-- The buffer theorem against the model-side rendering, for EVERY value (no range condition). -/
theorem append_eq_renderM (grow : Nat → Nat → Nat) (html : Bool) (s : Slice) (hs : s.Wf) (v : JV) :
    match renderM html v with
    | some x => append grow html s v = (s.data ++ x, false)
    | none   => (append grow html s v).2 = true ∧ s.data <+: (append grow html s v).1 := by
  have h := enc_post grow html s hs v
  unfold append
  generalize enc grow html s v = p at h
  obtain ⟨s', e⟩ := p
  cases hr : renderM html v with
  | some x =>
    rw [hr] at h
    obtain ⟨_, he, hd⟩ := post_some.1 h
    simp [he, hd]
  | none =>
    rw [hr] at h
    obtain ⟨_, he, hp⟩ := post_none.1 h
    simp [he, hp]

/-- MAIN: `Append(b, v)` returns `b ++ render v` when the rendering exists; otherwise an error and bytes that still
start with `b`. For every growth policy, every destination length and capacity. -/
theorem append_eq_render (grow : Nat → Nat → Nat) (html : Bool) (s : Slice) (hs : s.Wf) (v : JV) (hv : v.Ranged) :
    match Spec.Json.render html v with
    | some x => append grow html s v = (s.data ++ x, false)
    | none   => (append grow html s v).2 = true ∧ s.data <+: (append grow html s v).1 := by
  rw [← renderM_eq html v hv]
  exact append_eq_renderM grow html s hs v

/-- `append_oblivious` for every value (no range condition, no dependence on `encodeString_eq`) -/
theorem append_oblivious_all (grow : Nat → Nat → Nat) (html : Bool) (s : Slice) (hs : s.Wf) (v : JV) :
    (append grow html s v).2 = (append grow html Slice.empty v).2 ∧
    ((append grow html s v).2 = false → (append grow html s v).1 = s.data ++ (append grow html Slice.empty v).1) ∧
    s.data <+: (append grow html s v).1 := by
  have h1 := append_eq_renderM grow html s hs v
  have h2 := append_eq_renderM grow html Slice.empty empty_wf v
  cases hr : renderM html v with
  | some x =>
    rw [hr] at h1 h2
    simp only [] at h1 h2
    rw [h1, h2, empty_data]
    simp
  | none =>
    rw [hr] at h1 h2
    simp only [] at h1 h2
    rw [h1.1, h2.1]
    exact ⟨rfl, by simp, h1.2⟩

/-- `grow_irrelevant` for every value (no range condition, no dependence on `encodeString_eq`) -/
theorem grow_irrelevant_all (g1 g2 : Nat → Nat → Nat) (html : Bool) (s : Slice) (hs : s.Wf) (v : JV) :
    (append g1 html s v).2 = (append g2 html s v).2 ∧
    ((append g1 html s v).2 = false → (append g1 html s v).1 = (append g2 html s v).1) := by
  have h1 := append_eq_renderM g1 html s hs v
  have h2 := append_eq_renderM g2 html s hs v
  cases hr : renderM html v with
  | some x =>
    rw [hr] at h1 h2
    simp only [] at h1 h2
    rw [h1, h2]
    simp
  | none =>
    rw [hr] at h1 h2
    simp only [] at h1 h2
    rw [h1.1, h2.1]
    exact ⟨rfl, by simp⟩

/-- the error flag never depends on the destination; on success the output is the destination followed by what would
have been written into an empty destination; the destination bytes are always preserved -/
theorem append_oblivious (grow : Nat → Nat → Nat) (html : Bool) (s : Slice) (hs : s.Wf) (v : JV) (_hv : v.Ranged) :
    (append grow html s v).2 = (append grow html Slice.empty v).2 ∧
    ((append grow html s v).2 = false → (append grow html s v).1 = s.data ++ (append grow html Slice.empty v).1) ∧
    s.data <+: (append grow html s v).1 :=
  append_oblivious_all grow html s hs v

/-- the runtime's growth policy is unobservable -/
theorem grow_irrelevant (g1 g2 : Nat → Nat → Nat) (html : Bool) (s : Slice) (hs : s.Wf) (v : JV) (_hv : v.Ranged) :
    (append g1 html s v).2 = (append g2 html s v).2 ∧
    ((append g1 html s v).2 = false → (append g1 html s v).1 = (append g2 html s v).1) :=
  grow_irrelevant_all g1 g2 html s hs v

/-! ### non-vacuity -/

/-- `{"a":"-42","b":"AQIDBA==","n":[null,true,[],"x<y"]}`: an omitempty-empty first field, then a rollback field
(so the first key actually written still takes the `k[1:]` path after a truncate), a `,string` integer, a `[]byte`, and a
nested array -/
def exV : JV :=
  .obj (.cons [0x65] true false false (.str [])
       (.cons [0x72] false false true (.fail [0x21])
       (.cons [0x61] false true false (.int (-42))
       (.cons [0x62] false false false (.bytes (some [1, 2, 3, 4]))
       (.cons [0x6e] false false false
          (.arr (.cons .null (.cons (.bool true) (.cons (.arr .nil) (.cons (.str [0x78, 0x3c, 0x79]) .nil)))))
       .nil)))))

/-- `ABC` in a 5-byte array: 2 bytes of spare capacity, 56 needed -/
def exS : Slice := ⟨[0x41, 0x42, 0x43, 0, 0], 3⟩

def exOut : Bytes :=
  [123, 34, 97, 34, 58, 34, 45, 52, 50, 34, 44, 34, 98, 34, 58, 34, 65, 81, 73, 68, 66, 65, 61, 61, 34, 44, 34, 110,
   34, 58, 91, 110, 117, 108, 108, 44, 116, 114, 117, 101, 44, 91, 93, 44, 34, 120, 92, 117, 48, 48, 51, 99, 121, 34, 93,
   125]

example (grow : Nat → Nat → Nat) : append grow true exS exV = ([0x41, 0x42, 0x43] ++ exOut, false) := by
  have h := append_eq_render grow true exS (by simp [exS, Slice.Wf]) exV (by decide)
  have hr : render true exV = some exOut := by decide
  rw [hr] at h
  exact h

/-- an error deep inside (second element of an array in the second field, after a `,string` field has been written and
moved down): everything is rolled back to the destination bytes -/
def exBad : JV :=
  .obj (.cons [0x61] false true false (.int 7)
       (.cons [0x62] false false false (.arr (.cons (.int 1) (.cons (.fail [0x21, 0x21]) .nil))) .nil))

example (grow : Nat → Nat → Nat) :
    (append grow true exS exBad).2 = true ∧ [0x41, 0x42, 0x43] <+: (append grow true exS exBad).1 := by
  have h := append_eq_render grow true exS (by simp [exS, Slice.Wf]) exBad (by decide)
  have hr : render true exBad = none := by decide
  rw [hr] at h
  exact h

end Enc.Lemmas.JsonBuf
