import Enc.Lemmas.ProtoSpecFuel
import Enc.Lemmas.ProtoTemplateGeneral
import Enc.Lemmas.ProtoTemplateSingle
/-!
# The reference decoder as an instance of the positional fold `foldG`, and the entry lemmas for it

`foldD` (fuel-free reference record loop, `ProtoSpecFuel.lean`) is `foldG fieldD`; scalar leaves, singular message
fields (one LEN record, or several pieces that merge), and repeated scalar fields that append.
-/
namespace Enc.Lemmas.ProtoTemplate
open Enc Enc.Spec.Protobuf Enc.Lemmas.ProtoRewriteSpec Enc.Lemmas.ProtoSpecFuel

/-! ## 1–2. `foldD` is `foldG fieldD` -/

theorem stepD_eq_stepG (fs : Fields) (n : Nat) (w : WireVal) (vs : Vals) :
    stepD fs (n, w) vs = stepG fieldD fs (n, w) vs := by
  rw [stepD_eq]; rfl

theorem foldD_eq_foldG (fs : Fields) : ∀ recs vs, foldD fs recs vs = foldG fieldD fs recs vs
  | [], _ => rfl
  | (n, w) :: rest, vs => by
    simp only [foldD, foldG]
    rw [stepD_eq_stepG]
    cases stepG fieldD fs (n, w) vs with
    | none => rfl
    | some x => simp only [Option.bind_some]; exact foldD_eq_foldG fs rest x

theorem hD_fieldD (fs : Fields) : ∀ b : Bytes, decode (.struct fs) b =
    (parse (b.length + 1) b).bind fun recs => (foldG fieldD fs recs (zeroFields fs)).map Val.struct := by
  intro b
  rw [decode_struct_eq]
  simp only [foldD_eq_foldG]

/-! ## 3–4. scalar leaves -/

theorem fieldD_scalar (t : Ty) (o : FieldOpt) (w : WireVal) (cur : Val) (h : scalarTy t = true) :
    fieldD t o w cur = sdec t o w := by
  obtain ⟨h1, h2, h3, h4, h5⟩ := scalar_plumb t h
  have hm : ∀ k v, unname t ≠ .map k v := by
    intro k v he; rw [h2] at he; subst he; simp [scalarTy] at h
  rw [fieldD_single t o w cur h3 hm, h1, h5]
  have := decodeOne_scalar (2 * wvLen w + 3) t o w cur h
  rw [show 2 * wvLen w + 4 = 2 * wvLen w + 3 + 1 from rfl, this]
  cases sdec t o w with
  | none => rfl
  | some x => simp [h4]

theorem foldG_leaf (fs : Fields) (n i : Nat) (o : FieldOpt) (t : Ty) (w : WireVal) (x : Val)
    (hf : findField fs n = some (i, o, t)) (ht : scalarTy t = true) (hs : sdec t o w = some x) (vs : Vals) :
    foldG fieldD fs [(n, w)] vs = some (valsSet vs i x) := by
  simp only [foldG, stepG, hf, fieldD_scalar _ _ _ _ ht, hs, Option.map_some, Option.bind_some]

/-! ## 5. a singular message field, one LEN record -/

theorem struct_nomap (gs : Fields) : ∀ k v, unname (.struct gs) ≠ .map k v := by
  intro k v h; simp [unname] at h

theorem unwrapPtr_struct (gs : Fields) (x : Val) : unwrapPtr (.struct gs) x = x := by
  cases x <;> simp [unwrapPtr]

theorem wrapPtr_struct (gs : Fields) (x : Val) : wrapPtr (.struct gs) x = x := by
  simp [wrapPtr]

theorem fieldD_struct' (gs : Fields) (o : FieldOpt) (v : Bytes) (cur : Vals) :
    fieldD (.struct gs) o (.len v) (.struct cur)
      = (parse (v.length + 1) v).bind fun recs => (foldD gs recs cur).map Val.struct := by
  rw [fieldD_struct (.struct gs) gs o v _ rfl rfl (struct_nomap gs), unwrapPtr_struct]
  simp only [wrapPtr_struct]

theorem zero_at_struct (fs gs : Fields) (n i : Nat) (o : FieldOpt) (hf : findField fs n = some (i, o, .struct gs)) :
    valsGet (zeroFields fs) i = .struct (zeroFields gs) := by
  obtain ⟨_, _, tag, hat, _⟩ := findField_spec fs n i o _ hf
  rw [valsGet_zeroFields fs i tag _ hat, zeroOf]

theorem foldG_struct_entry (fs gs : Fields) (n i : Nat) (o : FieldOpt) (body : Bytes) (sub' : Vals)
    (hf : findField fs n = some (i, o, .struct gs)) (hb : decode (.struct gs) body = some (.struct sub'))
    (vs : Vals) (hv : valsGet vs i = valsGet (zeroFields fs) i) :
    foldG fieldD fs [(n, .len body)] vs = some (valsSet vs i (.struct sub')) := by
  rw [zero_at_struct fs gs n i o hf] at hv
  rw [decode_struct_eq] at hb
  simp only [foldG, stepG, hf, hv, fieldD_struct']
  cases hp : parse (body.length + 1) body with
  | none => simp [hp] at hb
  | some recs =>
    simp only [hp, Option.bind_some] at hb ⊢
    cases hfo : foldD gs recs (zeroFields gs) with
    | none => simp [hfo] at hb
    | some r =>
      simp only [hfo, Option.map_some, Option.some.injEq, Val.struct.injEq] at hb
      subst hb
      rfl

/-! ## 6. pieces -/

theorem stepG_length (D : Ty → FieldOpt → WireVal → Val → Option Val) (fs : Fields) (r : Nat × WireVal) (vs vs1 : Vals)
    (h : stepG D fs r vs = some vs1) : vs1.length = vs.length := by
  unfold stepG at h
  split at h
  · simp only [Option.some.injEq] at h; subst h; rfl
  · obtain ⟨x, _, rfl⟩ := Option.map_eq_some_iff.mp h
    exact valsSet_length _ _ _

theorem foldG_length (D : Ty → FieldOpt → WireVal → Val → Option Val) (fs : Fields) :
    ∀ (recs : List (Nat × WireVal)) (vs res : Vals), foldG D fs recs vs = some res → res.length = vs.length
  | [], vs, res, h => by simp only [foldG, Option.some.injEq] at h; subst h; rfl
  | r :: rest, vs, res, h => by
    simp only [foldG] at h
    obtain ⟨vs1, hs, hr⟩ := Option.bind_eq_some_iff.mp h
    rw [foldG_length D fs rest vs1 res hr, stepG_length D fs r vs vs1 hs]

theorem laterPieces_cons_ne (n m : Nat) (w : WireVal) (rest : List (Nat × WireVal)) (h : m ≠ n) :
    laterPieces n ((m, w) :: rest) = laterPieces n rest := by
  have hmn : (m == n) = false := by simpa using h
  cases w <;> simp [laterPieces, hmn]

theorem pieces_gen (fs gs : Fields) (n i : Nat) (o : FieldOpt) (hf : findField fs n = some (i, o, .struct gs)) :
    ∀ (recs : List (Nat × WireVal)) (vs cur res : Vals), vs.length = fs.length → valsGet vs i = .struct cur →
      foldG fieldD fs recs vs = some res →
      (∀ w, (n, w) ∈ recs → ∃ v, w = .len v) ∧ ∃ sub, valsGet res i = .struct sub ∧
        (parse ((laterPieces n recs).length + 1) (laterPieces n recs)).bind (fun rp => foldD gs rp cur) = some sub
  | [], vs, cur, res, _, hcur, h => by
    simp only [foldG, Option.some.injEq] at h
    subst h
    refine ⟨fun w hw => by simp at hw, cur, hcur, ?_⟩
    simp [laterPieces, parse, foldD]
  | (m, w) :: rest, vs, cur, res, hlen, hcur, h => by
    obtain ⟨hi, _, _⟩ := findField_spec fs n i o _ hf
    simp only [foldG] at h
    obtain ⟨vs1, hs, hr⟩ := Option.bind_eq_some_iff.mp h
    by_cases hmn : m = n
    · subst hmn
      simp only [stepG, hf, hcur] at hs
      by_cases hw : ∃ v, w = .len v
      · obtain ⟨v, rfl⟩ := hw
        rw [fieldD_struct'] at hs
        obtain ⟨x, hx, rfl⟩ := Option.map_eq_some_iff.mp hs
        obtain ⟨rv, hrv, hx2⟩ := Option.bind_eq_some_iff.mp hx
        obtain ⟨c1, hc1, rfl⟩ := Option.map_eq_some_iff.mp hx2
        have hlen1 : (valsSet vs i (.struct c1)).length = fs.length := by rw [valsSet_length]; exact hlen
        obtain ⟨hall, sub, hsub, hp⟩ := pieces_gen fs gs m i o hf rest _ c1 res hlen1
          (valsGet_set_eq _ _ _ (by rw [hlen]; exact hi)) hr
        obtain ⟨rp, hrp, hfp⟩ := Option.bind_eq_some_iff.mp hp
        refine ⟨?_, sub, hsub, ?_⟩
        · intro w' hw'
          simp only [List.mem_cons, Prod.mk.injEq, true_and] at hw'
          rcases hw' with rfl | hw'
          · exact ⟨v, rfl⟩
          · exact hall w' hw'
        · have hva : Valid (v ++ laterPieces m rest) (rv ++ rp) := valid_append (a := v) (b := laterPieces m rest) hrv hrp
          rw [laterPieces_cons_len]
          simp only [beq_self_eq_true, if_true]
          have hva' : parse ((v ++ laterPieces m rest).length + 1) (v ++ laterPieces m rest) = some (rv ++ rp) := hva
          rw [hva']
          simp only [Option.bind_some]
          rw [foldD_append, hc1]
          exact hfp
      · rw [fieldD_struct_nonlen (.struct gs) gs o w _ rfl rfl (struct_nomap gs)
          (fun v hv => hw ⟨v, hv⟩)] at hs
        simp at hs
    · have hlen1 : vs1.length = fs.length := by rw [stepG_length _ _ _ _ _ hs]; exact hlen
      have hcur1 : valsGet vs1 i = .struct cur := by
        simp only [stepG] at hs
        cases hfm : findField fs m with
        | none => simp only [hfm, Option.some.injEq] at hs; subst hs; exact hcur
        | some p =>
          obtain ⟨j, o', t'⟩ := p
          simp only [hfm] at hs
          obtain ⟨x, _, rfl⟩ := Option.map_eq_some_iff.mp hs
          have hji : j ≠ i := by
            intro he; subst he
            exact hmn (findField_inj fs m n j o' o t' _ hfm hf)
          rw [valsGet_set_ne _ _ _ _ hji]; exact hcur
      obtain ⟨hall, sub, hsub, hp⟩ := pieces_gen fs gs n i o hf rest vs1 cur res hlen1 hcur1 hr
      refine ⟨?_, sub, hsub, ?_⟩
      · intro w' hw'
        simp only [List.mem_cons, Prod.mk.injEq] at hw'
        rcases hw' with ⟨he, _⟩ | hw'
        · exact absurd he.symm hmn
        · exact hall w' hw'
      · rw [laterPieces_cons_ne n m w rest hmn]; exact hp

/-- **pieces**: a singular message field that arrives in several LEN records decodes like the concatenation of the
pieces -/
theorem pieces_value (fs gs : Fields) (n i : Nat) (o : FieldOpt) (hf : findField fs n = some (i, o, .struct gs))
    (recs0 : List (Nat × WireVal)) (res : Vals) (h : foldG fieldD fs recs0 (zeroFields fs) = some res) :
    (∀ w, (n, w) ∈ recs0 → ∃ v, w = .len v) ∧
      ∃ sub, valsGet res i = .struct sub ∧ decode (.struct gs) (laterPieces n recs0) = some (.struct sub) := by
  obtain ⟨hall, sub, hsub, hp⟩ := pieces_gen fs gs n i o hf recs0 (zeroFields fs) (zeroFields gs) res
    (zeroFields_length fs) (zero_at_struct fs gs n i o hf) h
  refine ⟨hall, sub, hsub, ?_⟩
  rw [decode_struct_eq]
  obtain ⟨rp, hrp, hfp⟩ := Option.bind_eq_some_iff.mp hp
  rw [hrp]
  simp only [Option.bind_some, hfp, Option.map_some]

/-! ## 7. a repeated scalar field -/

theorem toList_ofList' : ∀ l : List Val, (Vals.ofList l).toList = l
  | [] => rfl
  | v :: l => by simp [Vals.ofList, Vals.toList, toList_ofList' l]

theorem valsSet_set : ∀ (vs : Vals) (i : Nat) (a b : Val), valsSet (valsSet vs i a) i b = valsSet vs i b
  | .nil, _, _, _ => rfl
  | .cons _ _, 0, _, _ => rfl
  | .cons _ r, i + 1, a, b => by simp [valsSet, valsSet_set r i a b]

theorem fieldD_repeated (t et : Ty) (o : FieldOpt) (w : WireVal) (cur : Val) (hr : isRepeated t = some et)
    (het : scalarTy et = true) :
    fieldD t o w cur = (sdec et o w).map fun e => .list (Vals.ofList (listOf cur ++ [e])) := by
  obtain ⟨h1, _, _, h4, _⟩ := scalar_plumb et het
  unfold fieldD
  rw [hr]
  simp only [h1]
  have := decodeOne_scalar (2 * wvLen w + 3) et o w (zeroOf et) het
  rw [show 2 * wvLen w + 4 = 2 * wvLen w + 3 + 1 from rfl, this]
  cases sdec et o w with
  | none => rfl
  | some x => simp [h4]

/-- pointwise relation of two lists (`List.Forall₂` is not in core Lean / Std) -/
inductive Forall₂ {α β : Type} (R : α → β → Prop) : List α → List β → Prop
  | nil : Forall₂ R [] []
  | cons {a b l₁ l₂} : R a b → Forall₂ R l₁ l₂ → Forall₂ R (a :: l₁) (b :: l₂)

theorem forall₂_of_getElem {α β : Type} (R : α → β → Prop) : ∀ (l₁ : List α) (l₂ : List β) (hl : l₁.length = l₂.length),
    (∀ k (h : k < l₁.length), R l₁[k] (l₂[k]'(hl ▸ h))) → Forall₂ R l₁ l₂
  | [], [], _, _ => .nil
  | [], _ :: _, hl, _ => by simp at hl
  | _ :: _, [], hl, _ => by simp at hl
  | a :: l₁, b :: l₂, hl, h => by
    refine .cons (h 0 (by simp)) (forall₂_of_getElem R l₁ l₂ (by simpa using hl) ?_)
    intro k hk
    exact h (k + 1) (by simp only [List.length_cons]; omega)

/-- **repeated scalar field**: the records of field `n` append their elements to the list at position `i` (a nil slice
counts as the empty list) -/
theorem foldG_repeated_entry (fs : Fields) (n i : Nat) (o : FieldOpt) (t et : Ty)
    (hf : findField fs n = some (i, o, t)) (hr : isRepeated t = some et) (het : scalarTy et = true) :
    ∀ (ws : List WireVal) (xs : List Val), Forall₂ (fun w x => sdec et o w = some x) ws xs →
      ∀ (vs : Vals) (pre : List Val), vs.length = fs.length →
        (valsGet vs i = .list (Vals.ofList pre) ∨ (pre = [] ∧ valsGet vs i = .nil)) →
        foldG fieldD fs (ws.map fun w => (n, w)) vs
          = some (if ws = [] then vs else valsSet vs i (.list (Vals.ofList (pre ++ xs)))) := by
  intro ws xs hfa
  induction hfa with
  | nil => intro vs pre _ _; simp [foldG]
  | @cons w x ws' xs' hwx hrest ih =>
    intro vs pre hlen hcur
    obtain ⟨hi, _, _⟩ := findField_spec fs n i o _ hf
    have hlist : listOf (valsGet vs i) = pre := by
      rcases hcur with hc | ⟨rfl, hc⟩
      · rw [hc]; simp only [listOf]; exact toList_ofList' pre
      · rw [hc]; rfl
    simp only [List.map_cons, foldG, stepG, hf, fieldD_repeated t et o w _ hr het, hwx, Option.map_some,
      Option.bind_some, hlist]
    have hlen1 : (valsSet vs i (.list (Vals.ofList (pre ++ [x])))).length = fs.length := by
      rw [valsSet_length]; exact hlen
    rw [ih _ (pre ++ [x]) hlen1 (Or.inl (valsGet_set_eq _ _ _ (by rw [hlen]; exact hi)))]
    cases hrest with
    | nil => simp
    | cons _ _ => simp [valsSet_set]

/-! ### non-vacuity -/

/-- `exFs` of `ProtoSpecFuel.lean`: field 2 is `*struct`, not covered by the `.struct` statements; a direct message field -/
def exFs2 : Fields := .cons "A" "" false (.int .i32) (.cons "M" "" false (.struct exInner) .nil)

theorem ex2_find2 : findField exFs2 2 = some (1, { number := 2 }, .struct exInner) := by
  simp [findField, findField.go, exFs2, fieldOpt_empty']

theorem ex2_find1 : findField exFs2 1 = some (0, { number := 1 }, .int .i32) := by
  simp [findField, findField.go, exFs2, fieldOpt_empty']

theorem exInner_find1 : findField exInner 1 = some (0, { number := 1 }, .str) := by
  simp [findField, findField.go, exInner, fieldOpt_empty']

theorem ex_sdec_int : sdec (.int .i32) { number := 1 } (.varint 5) = some (.int 5) := by
  simp [sdec, decodeOne, toInt64, IntKind.signed, IntKind.inRange, IntKind.bits]

theorem ex_sdec_str : sdec .str { number := 1 } (.len [0x68, 0x69]) = some (.str [0x68, 0x69]) := by
  simp [sdec, decodeOne]

/-- the inner message `{B: "hi"}` through `hD_fieldD` and `foldG_leaf` -/
theorem ex_inner : decode (.struct exInner) [0x0a, 0x02, 0x68, 0x69] = some (.struct (.cons (.str [0x68, 0x69]) .nil)) := by
  have hp : parse (([0x0a, 0x02, 0x68, 0x69] : Bytes).length + 1) [0x0a, 0x02, 0x68, 0x69] = some [(1, .len [0x68, 0x69])] := by rfl
  rw [hD_fieldD, hp]
  simp only [Option.bind_some]
  rw [foldG_leaf exInner 1 0 _ .str _ _ exInner_find1 rfl ex_sdec_str]
  rfl

/-- `foldG_leaf` then `foldG_struct_entry`: the records `A = 5`, `M = {B: "hi"}` -/
theorem ex2_fold : foldG fieldD exFs2 [(1, .varint 5), (2, .len [0x0a, 0x02, 0x68, 0x69])] (zeroFields exFs2)
    = some (.cons (.int 5) (.cons (.struct (.cons (.str [0x68, 0x69]) .nil)) .nil)) := by
  rw [show [(1, WireVal.varint 5), (2, WireVal.len [0x0a, 0x02, 0x68, 0x69])]
      = [(1, WireVal.varint 5)] ++ [(2, WireVal.len [0x0a, 0x02, 0x68, 0x69])] from rfl, foldG_append,
    foldG_leaf exFs2 1 0 _ _ _ _ ex2_find1 rfl ex_sdec_int]
  simp only [Option.bind_some]
  rw [foldG_struct_entry exFs2 exInner 2 1 _ _ _ ex2_find2 ex_inner _ (valsGet_set_ne _ _ _ _ (by decide))]
  rfl

/-- the hypotheses of `pieces_value` hold on that input; its conclusion for it -/
example : ∃ sub, valsGet (.cons (.int 5) (.cons (.struct (.cons (.str [0x68, 0x69]) .nil)) .nil)) 1 = .struct sub ∧
    decode (.struct exInner) (laterPieces 2 [(1, .varint 5), (2, .len [0x0a, 0x02, 0x68, 0x69])]) = some (.struct sub) :=
  (pieces_value exFs2 exInner 2 1 _ ex2_find2 _ _ ex2_fold).2

/-- `struct { R []int32 (1) }` -/
def exRep : Fields := .cons "R" "" false (.slice (.int .i32)) .nil

theorem exRep_find1 : findField exRep 1 = some (0, { number := 1 }, .slice (.int .i32)) := by
  simp [findField, findField.go, exRep, fieldOpt_empty']

example : foldG fieldD exRep [(1, .varint 5), (1, .varint 5)] (zeroFields exRep)
    = some (valsSet (zeroFields exRep) 0 (.list (Vals.ofList [.int 5, .int 5]))) :=
  foldG_repeated_entry exRep 1 0 _ _ (.int .i32) exRep_find1 rfl rfl [.varint 5, .varint 5] [.int 5, .int 5]
    (.cons ex_sdec_int (.cons ex_sdec_int .nil)) (zeroFields exRep) [] rfl (Or.inr ⟨rfl, rfl⟩)

#print axioms foldD_eq_foldG
#print axioms hD_fieldD
#print axioms foldG_leaf
#print axioms foldG_struct_entry
#print axioms pieces_value
#print axioms foldG_repeated_entry

end Enc.Lemmas.ProtoTemplate
