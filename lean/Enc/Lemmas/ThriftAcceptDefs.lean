import Enc.Lemmas.ThriftAcceptPrim
import Enc.Lemmas.ThriftSpecVal
import Enc.Lemmas.ThriftRoundTripDefs
/-!
C13, second half (compact protocol), level 2: the SET of specification-conformant compact encodings of a Go value.

`Conf ty v bs` — "`bs` is a conformant compact encoding of the value `v` of type `ty`" — extends the canonical encoding
`Spec.Thrift.encode .compact ty v` with every alternative the compact specification leaves to the writer:

  * every varint (integers, lengths, sizes, field ids) in any base-128 representation of at most 10 bytes (`VarU`:
    minimal or padded);
  * list / set headers in the short form (size < 15 only) or in the long form (every size) (`ListHdr`);
  * a bool element / key / value TYPE announced in a list / set / map header as nibble 2 or as nibble 1 (`ElemCode`);
  * field headers in the delta short form (only when `0 < id - previous ≤ 15`) or in the long form (`FieldHdrB`);
  * the fields of a struct in ANY order (`List.Perm` of the record list), each header relative to the id written just
    before it (`Stream`);
  * a non-required field holding a plain default value (`plainDefault`: false / 0 / "" / a struct of such) present or
    absent; a nil pointer is always absent; a non-required nil `[]byte` / slice / map is always absent (writing it would
    transmit an EMPTY collection, which Go distinguishes from nil: not the same content); every other field present;
  * recursively in elements, keys, values, field values, pointees.

What has a single form and is written as the specification says: bool elements (`1` / `0`), bool fields (type nibble
`1` / `2`, no value byte), i8 (one byte), doubles (8 bytes little-endian), the non-bool element-type nibbles, the stop
byte.

`Conf` is a recursive predicate on the type (mutual with `ConfFields`, the possible record lists of a struct in
declaration order). `conf_canonical` (in `ThriftAccept`) shows that the canonical encoding is a member.
-/
namespace Enc.Lemmas.ThriftAccept
open Enc Enc.Lemmas.ThriftSpec
open Enc.Lemmas.ThriftSkip (isNilPtr)

/-- element-wise relation of two lists -/
inductive All2 {α β : Type} (R : α → β → Prop) : List α → List β → Prop
  | nil : All2 R [] []
  | cons {a b as bs} : R a b → All2 R as bs → All2 R (a :: as) (b :: bs)

/-- the elements of a slice value (nil slice: none) -/
def elems : Val → List Val
  | .list vs => vs.toList
  | _ => []

/-- the payload of a `[]byte` / string value (nil: empty) -/
def payload : Val → Bytes
  | .str s => s
  | _ => []

mutual
/-- a PLAIN default value — false, 0, "", or a struct all of whose tagged fields hold plain default values (through
named types) —: written or not, it reads back as the zero value of its type. Excluded on purpose: nil `[]byte` / slices
/ maps (once written they come back EMPTY, not nil) and nil pointers (cannot be written). For a struct the field ids
must fit the wire format (Thrift field ids are i16). -/
def plainDefault : Ty → Val → Bool
  | .bool, v => (match v with | .bool b => !b | _ => false)
  | .int _, v => (match v with | .int i => i == 0 | _ => false)
  | .str, v => (match v with | .str s => s.isEmpty | _ => false)
  | .struct fs, v =>
    (match v with
     | .struct vs => (fieldIds fs).all (fun i => decide (i ≤ 32767)) && plainDefaults fs vs
     | _ => false)
  | .named _ t, v => plainDefault t v
  | _, _ => false
def plainDefaults : Fields → Vals → Bool
  | .nil, vs => (match vs with | .nil => true | _ => false)
  | .cons _ tag _ t fr, vs =>
    (match vs with
     | .cons v vr => ((Spec.Thrift.tagOf tag).isNone || plainDefault t v) && plainDefaults fr vr
     | .nil => false)
end

/-- a struct field that a conformant writer may leave out -/
def mayOmit (req : Bool) (t : Ty) (x : Val) : Bool := isNilPtr t x || (!req && Spec.Thrift.isDefaultAt t x)
/-- a struct field that a conformant writer may write (with the same content) -/
def mayWrite (req : Bool) (t : Ty) (x : Val) : Bool :=
  !isNilPtr t x && (req || !Spec.Thrift.isDefaultAt t x || plainDefault t x)

/-- the field stream of a struct: records in the given order, each header in one of its two forms relative to the id
written before it, bool values in the header, then the stop byte -/
inductive Stream : List Spec.Thrift.FRec → Int → Bytes → Prop
  | stop (last : Int) : Stream [] last [0]
  | field (f : Spec.Thrift.FRec) (rs : List Spec.Thrift.FRec) (last : Int) (hdr bs : Bytes) :
      FieldHdrB (tcode f.t f.isTrue) f.id last hdr → Stream rs f.id bs →
      Stream (f :: rs) last (hdr ++ (if f.t == .bool then [] else f.body) ++ bs)

open Spec.Thrift in
mutual
/-- `bs` is a specification-conformant compact encoding of the value `v` of type `ty` -/
def Conf : Ty → Val → Bytes → Prop
  | .bool, v, bs => ∃ b, v = .bool b ∧ bs = [if b then 1 else 0]
  | .int k, v, bs =>
    ∃ i, v = .int i ∧ (if k.bits = 8 then bs = [UInt8.ofNat (twos i 8)] else VarU (zigzag i) bs)
  | .f32, v, bs | .f64, v, bs => ∃ b, v = .float b ∧ bs = le b 8
  | .str, v, bs => ∃ s, v = .str s ∧ BytesC s bs
  | .bytes, v, bs => BytesC (payload v) bs
  | .slice t, v, bs =>
    if isU8 t then BytesC (payload v) bs
    else ∃ hdr chunks, ListHdr (ttOf t) (elems v).length hdr ∧ All2 (Conf t) (elems v) chunks ∧
      bs = hdr ++ chunks.flatten
  | .map k v, x, bs =>
    if isUnit v then
      ∃ hdr chunks, ListHdr (ttOf k) (sPairsOfVal x).length hdr ∧
        All2 (fun kv c => Conf k kv.1 c) (sPairsOfVal x) chunks ∧ bs = hdr ++ chunks.flatten
    else
      ∃ hdr chunks, MapHdr (ttOf k) (ttOf v) (sPairsOfVal x).length hdr ∧
        All2 (fun kv c => ∃ ck cv, Conf k kv.1 ck ∧ Conf v kv.2 cv ∧ c = ck ++ cv) (sPairsOfVal x) chunks ∧
        bs = hdr ++ chunks.flatten
  | .struct fs, v, bs =>
    ∃ vs, v = .struct vs ∧ ∃ rs order, ConfFields fs vs rs ∧ order.Perm rs ∧ Stream order 0 bs
  | .ptr t, v, bs => (match v with | .ptr x => Conf t x bs | _ => Conf t (zeroOf t) bs)
  | .named _ t, v, bs => Conf t v bs
  | .arr _ _, _, _ | .any, _, _ => False
/-- the record lists (declaration order) a conformant writer may produce for the fields `fs` holding `vs` -/
def ConfFields : Fields → Vals → List FRec → Prop
  | .nil, vs, rs => vs = .nil ∧ rs = []
  | .cons _ tag _ t rest, vs, rs =>
    match vs with
    | .nil => False
    | .cons x vr =>
      match tagOf tag with
      | none => ConfFields rest vr rs
      | some (id, req, en) =>
        (mayOmit req t x = true ∧ ConfFields rest vr rs) ∨
        (mayWrite req t x = true ∧ ∃ body rs',
          (if en then (match derefV x with
                       | .int i => VarU (zigzag i) body
                       | _ => Conf t x body)
           else Conf t x body) ∧
          rs = { id := id, t := if en then .i32 else ttOf t, isTrue := sIsTrue x, body := body } :: rs' ∧
          ConfFields rest vr rs')
end

/-- the value part of a field record: enum-tagged integer fields are written as an i32 -/
def FieldBodyC (en : Bool) (t : Ty) (x : Val) (body : Bytes) : Prop :=
  if en then (match Spec.Thrift.derefV x with
              | .int i => VarU (Spec.Thrift.zigzag i) body
              | _ => Conf t x body)
  else Conf t x body

/-- the three ways a field contributes to the record list -/
theorem confFields_cases {n tag : String} {e : Bool} {t : Ty} {rest : Fields} {x : Val} {vr : Vals}
    {rs : List Spec.Thrift.FRec} (h : ConfFields (.cons n tag e t rest) (.cons x vr) rs) :
    (Spec.Thrift.tagOf tag = none ∧ ConfFields rest vr rs) ∨
    (∃ id req en, Spec.Thrift.tagOf tag = some (id, req, en) ∧ mayOmit req t x = true ∧ ConfFields rest vr rs) ∨
    (∃ id req en body rs', Spec.Thrift.tagOf tag = some (id, req, en) ∧ mayWrite req t x = true ∧
      FieldBodyC en t x body ∧
      rs = { id := id, t := if en then .i32 else Spec.Thrift.ttOf t, isTrue := sIsTrue x, body := body } :: rs' ∧
      ConfFields rest vr rs') := by
  simp only [ConfFields] at h
  cases hp : Spec.Thrift.tagOf tag with
  | none => rw [hp] at h; exact Or.inl ⟨rfl, h⟩
  | some y =>
    obtain ⟨id, req, en⟩ := y
    rw [hp] at h
    simp only at h
    rcases h with ⟨ho, hc⟩ | ⟨hw, body, rs', hb, hrs, hc⟩
    · exact Or.inr (Or.inl ⟨id, req, en, rfl, ho, hc⟩)
    · exact Or.inr (Or.inr ⟨id, req, en, body, rs', rfl, hw, hb, hrs, hc⟩)

/-- the universe of the acceptance theorem: the universe `ok` of the specification comparison (no floats, signed
integer kinds, enum tag on int32 only, positive distinct ids) intersected with the universe `RTS` of the decoder round
trip (sizes ≤ MaxInt32, ids ≤ 32767, required pointers set, map keys distinct after decoding) -/
def U (ty : Ty) (v : Val) : Bool := ok ty v && Enc.Lemmas.ThriftRoundTrip.RTS ty v

end Enc.Lemmas.ThriftAccept
