import Enc.Model.Proto
/-!
PROOF DEVICE, not a model of any Go function: the proto decoder WITHOUT the nesting limit (this is the model of
`proto.Unmarshal` as it stood before commit b70a382, where struct decoders recursed without a bound). The round-trip,
reference-decoder and liberal-decoding developments (`Enc/Lemmas/Proto*.lean`) reason about `decodeU`; the bridge to
the real decoder `Model.Proto.decode` is `Enc/Lemmas/ProtoDepth.lean`:
  * `decode_eq_decodeU`: they agree whenever `d + Codec.nesting c ≤ maxDepth` (always, for the finite type trees of the
    model that are at most 10000 messages high),
  * `decode_eq_or_deep`: on every input `decode` either agrees with `decodeU` or fails with "nestingTooDeep".
The definitions live in the namespace of the model so that the lemma files see them through `open Enc.Model.Proto`.
-/
namespace Enc.Model.Proto
open Enc

mutual
-- go: the `decodeU` functions; returns the new value of the target and the number of bytes consumed
def decodeU : Nat → Codec → Bytes → Val → Flags → Res (Val × Nat)
  | 0, _, _, _, _ => .err "fuel"
  | fuel + 1, c, b, cur, fl =>
    match c with
    | .bool => (decodeVarint b).bind fun (u, n) => .ok (.bool (u != 0#64), n)
    | .int => (decodeVarint b).bind fun (u, n) => .ok (.int (fl.i64 u), n)
    | .int64 => (decodeVarint b).bind fun (u, n) => .ok (.int (fl.i64 u), n)
    | .int32 =>
      -- range check happens before the varint error is looked at
      match decodeVarint b with
      | .ok (u, n) =>
        let v := fl.i64 u
        if v < -2147483648 ∨ v > 2147483647 then .err "overflow" else .ok (.int v, n)
      | .err e => .err e
      | .panic e => .panic e
    | .uint | .uint64 => (decodeVarint b).bind fun (u, n) => .ok (.int u.toNat, n)
    | .uint32 => (decodeVarint b).bind fun (u, n) =>
        if u.toNat > 4294967295 then .err "overflow" else .ok (.int u.toNat, n)
    | .fixed32 => match unLE32 b with
      | some v => .ok (.int v.toNat, 4)
      | none => .err "unexpectedEof"
    | .fixed64 => match unLE64 b with
      | some v => .ok (.int v.toNat, 8)
      | none => .err "unexpectedEof"
    | .sfixed32 => match unLE32 b with
      | some v => .ok (.int v.toInt, 4)
      | none => .err "unexpectedEof"
    | .sfixed64 => match unLE64 b with
      | some v => .ok (.int v.toInt, 8)
      | none => .err "unexpectedEof"
    | .float32 => match unLE32 b with
      | some v => .ok (.float v.toNat, 4)
      | none => .err "unexpectedEof"
    | .float64 => match unLE64 b with
      | some v => .ok (.float v.toNat, 8)
      | none => .err "unexpectedEof"
    | .string => (decodeVarlen b).bind fun (v, n) => .ok (.str v, n)
    | .bytes => (decodeVarlen b).bind fun (v, n) => .ok (.str v, n)
    | .byteArray k => (decodeVarlen b).bind fun (v, n) =>
        if v.length < k then .err "arraySize" else .ok (.str (v.take k), n)   -- copy(...) != n ⇔ len(v) < n
    | .message =>
      if fl.toplevel then .ok (.str b, b.length)
      else (decodeVarlen b).bind fun (v, n) => .ok (.str v, n)
    | .ptr c' =>
      let tgt := match cur with | .ptr v => v | _ => zeroOfCodec c'
      (decodeU fuel c' b tgt fl).bind fun (v, n) => .ok (.ptr v, n)
    | .struct fs =>
      match cur with
      | .struct vs => (decodeStructU fuel fs b b.length vs { fl with toplevel := false } 0).bind fun (vs', n) => .ok (.struct vs', n)
      | _ => .err "modelType"
    | .slice elem _ _ _ =>
      let cur' : Vals := match cur with | .list vs => vs | _ => .nil
      match decodeU fuel elem b (zeroOfCodec elem) {} with
      | .ok (v, n) => .ok (.list (Vals.ofList (cur'.toList ++ [v])), n)
      | .err e => .err e
      | .panic e => .panic e
    | .map _ _ _ _ _ entry =>
      let cur' : Vals := match cur with | .map kvs => kvs | _ => .nil
      if b.isEmpty then .ok (.map cur', 0)
      else
        match decodeU fuel entry b (zeroOfCodec entry) {} with
        | .ok (.struct (.cons k (.cons v .nil)), n) => .ok (.map (mapAssign cur' k v valEqShow), n)
        | .ok _ => .err "modelType"
        | .err e => .err e
        | .panic e => .panic e
    | .unsupported => .panic "unsupportedType"
/-- `decodeStruct` without the nesting counter -/
def decodeStructU : Nat → CFields → Bytes → Nat → Vals → Flags → Nat → Res (Vals × Nat)
  | 0, _, _, _, _, _, _ => .err "fuel"
  | fuel + 1, fs, b, lenB, vs, fl, offset =>
    if b.isEmpty then .ok (vs, offset)
    else
      match decodeVarint b with
      | .err e => .err e
      | .panic e => .panic e
      | .ok (tag, n) =>
        let number := (tag >>> 3).toNat
        let w := (tag &&& 7#64).toNat
        let b1 := b.drop n
        let off1 := offset + n
        match lookupField fs number with
        | none =>
          (skipUnknown w b1 lenB).bind fun skip =>
            decodeStructU fuel fs (b1.drop skip) lenB vs fl (off1 + skip)
        | some (i, emb, zz, c) =>
          if w != c.wire.num then .err "wireType"
          else
            -- carve `data`
            let carve : Res (Bytes × Nat) :=          -- (data, bytes skipped before data)
              if w == 0 then (decodeVarint b1).bind fun (_, k) => .ok (b1.take k, 0)
              else if w == 2 then
                (decodeVarint b1).bind fun (l, k) =>
                  if l.toNat > lenB - (off1 + k) then .err "unexpectedEof"
                  else if emb then .ok ((b1.drop k).take l.toNat, k) else .ok (b1.take (k + l.toNat), 0)
              else if w == 5 then (if b1.length < 4 then .err "unexpectedEof" else .ok (b1.take 4, 0))
              else if w == 1 then (if b1.length < 8 then .err "unexpectedEof" else .ok (b1.take 8, 0))
              else .err "wireTypeUnknown"
            carve.bind fun (data, pre) =>
              (decodeU fuel c data (Vals.get vs i) { fl with zigzag := fl.zigzag || zz }).bind fun (v, m) =>
                decodeStructU fuel fs (b1.drop (pre + m)) lenB (Vals.set vs i v) fl (off1 + pre + m)
end


/-- `unmarshal` without the nesting limit -/
def unmarshalU (t : Ty) (b : Bytes) : Res Val :=
  if b.isEmpty then .ok (zeroOf t)
  else
    match decodeU (2 * b.length + 8 + Codec.height (codecOf t)) (codecOf t) b (zeroOf t) { toplevel := true } with
    | .ok (v, n) => if n < b.length then .err "trailing" else .ok v
    | .err e => .err e
    | .panic e => .panic e

end Enc.Model.Proto
