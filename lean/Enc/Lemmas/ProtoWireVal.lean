import Enc.Lemmas.ProtoWireRec
/-!
# C12, value level: the reference decoder maps the bytes `Marshal` produces back to the value

Universe (`tyOK`): messages whose fields are bool / integer (`int int32 int64 uint uint32 uint64`; plain, zigzag32/64
on signed, fixed32/64 on `uint32/uint64`, sfixed32/64 = fixed32/64 on `int32/int64`) / `float32 float64` / `string` / `[]byte` / nested messages; optional fields
`*T` (`T` a scalar other than `[]byte`, or a message); repeated fields `[]T` (`T` a scalar, `[]byte` or a message).
Main results at the end of the file:

  * `decode_marshal_scalar`            no pointers, no slices: `Spec.Protobuf.decode ty (marshal ty v) = some v` (literally)
  * `decode_marshal_partial`           the whole universe: equality up to `canonical` (the form the harness compares)
  * `decode_marshal_ptrmsg_partial`    the message itself passed by pointer (`Marshal(&msg)`)
-/
set_option linter.unusedSimpArgs false
set_option linter.unusedVariables false
namespace Enc.Lemmas.ProtoWire
open Enc Enc.Model.Proto Enc.Spec.Protobuf

/-! ## `Vals` as lists with a cursor -/

def vapp : Vals → Vals → Vals
  | .nil, r => r
  | .cons v p, r => .cons v (vapp p r)
def vsnoc : Vals → Val → Vals
  | .nil, x => .cons x .nil
  | .cons v p, x => .cons v (vsnoc p x)

theorem vsnoc_length : ∀ (p : Vals) (x : Val), (vsnoc p x).length = p.length + 1
  | .nil, x => rfl
  | .cons v p, x => by simp [vsnoc, Vals.length, vsnoc_length p x]
theorem vapp_vsnoc : ∀ (p : Vals) (x : Val) (r : Vals), vapp (vsnoc p x) r = vapp p (.cons x r)
  | .nil, x, r => rfl
  | .cons v p, x, r => by simp [vsnoc, vapp, vapp_vsnoc p x r]
theorem valsGet_vapp : ∀ (p : Vals) (z : Val) (r : Vals), valsGet (vapp p (.cons z r)) p.length = z
  | .nil, z, r => rfl
  | .cons v p, z, r => by simp [vapp, Vals.length, valsGet, valsGet_vapp p z r]
theorem valsSet_vapp : ∀ (p : Vals) (z x : Val) (r : Vals),
    valsSet (vapp p (.cons z r)) p.length x = vapp p (.cons x r)
  | .nil, z, x, r => rfl
  | .cons v p, z, x, r => by simp [vapp, Vals.length, valsSet, valsSet_vapp p z x r]

theorem toList_ofList : ∀ l : List Val, (Vals.ofList l).toList = l
  | [] => rfl
  | v :: l => by simp [Vals.ofList, Vals.toList, toList_ofList l]

/-! ## two more decidable predicates -/

mutual
/-- no set pointer whose pointee writes nothing even under `wantzero` (known class `protoPtrToEmptyEncoding`:
`&struct{}{}` and the like come back as nil) -/
def noEmptyPtr : Ty → Val → Bool
  | .ptr t', .ptr v => (payload true t' { number := 0 } v).isSome && noEmptyPtr t' v
  | .struct fs, .struct vs => noEmptyPtrs fs vs
  | .slice e, .list vs => noEmptyPtrList e vs
  | _, _ => true
def noEmptyPtrList (e : Ty) : Vals → Bool
  | .nil => true
  | .cons v r => noEmptyPtr e v && noEmptyPtrList e r
def noEmptyPtrs : Fields → Vals → Bool
  | .cons _ _ _ t rest, .cons v vs => noEmptyPtr t v && noEmptyPtrs rest vs
  | _, _ => true
end

mutual
/-- plain types: no optional and no repeated fields anywhere (on these the round trip is literal, not only up to
`canonical`) -/
def plainTy : Ty → Bool
  | .ptr _ => false
  | .slice _ => false
  | .struct fs => plainFields fs
  | _ => true
def plainFields : Fields → Bool
  | .nil => true
  | .cons _ _ _ t rest => plainTy t && plainFields rest
end

mutual
theorem noEmptyPtr_of_plain (t : Ty) (v : Val) (h : plainTy t = true) : noEmptyPtr t v = true := by
  cases t <;> cases v <;> simp only [noEmptyPtr] <;> simp only [plainTy] at h
  · exact absurd h (by decide)
  · exact absurd h (by decide)
  · exact noEmptyPtrs_of_plain _ _ h
theorem noEmptyPtrs_of_plain (fs : Fields) (vs : Vals) (h : plainFields fs = true) : noEmptyPtrs fs vs = true := by
  cases fs <;> cases vs <;> simp only [noEmptyPtrs]
  simp only [plainFields, Bool.and_eq_true] at h
  simp only [Bool.and_eq_true]
  exact ⟨noEmptyPtr_of_plain _ _ h.1, noEmptyPtrs_of_plain _ _ h.2⟩
end

theorem plain_notSlice (t : Ty) (h : plainTy t = true) : isSlice t = false := by
  cases t <;> simp_all [plainTy, isSlice]

/-- whether a field is written does not depend on its options -/
theorem payload_isSome (wz : Bool) (t : Ty) (o o' : FieldOpt) (v : Val) :
    (payload wz t o v).isSome = (payload wz t o' v).isSome := by
  cases t <;> cases v <;> simp only [payload] <;> try rfl
  · split <;> rfl
  · exact payload_isSome true _ o o' _

/-! ## agreement of a decoded value with the original -/

/-- equal in the harness's normal form (`canonical`: nil ≡ empty for byte strings and lists), and literally equal on
plain types when nothing was forced onto the wire (`wz = false`) -/
def Agr (wz : Bool) (t : Ty) (v' v : Val) : Prop :=
  canonical t v' = canonical t v ∧ (wz = false → plainTy t = true → v' = v)
def AgrF (wz : Bool) (fs : Fields) (vs' vs : Vals) : Prop :=
  canonVals (canonTyFields fs vs') = canonVals (canonTyFields fs vs)
    ∧ (wz = false → plainFields fs = true → vs' = vs)

theorem Agr.rfl' (wz : Bool) (t : Ty) (v : Val) : Agr wz t v v := ⟨rfl, fun _ _ => rfl⟩
theorem AgrF.rfl' (wz : Bool) (fs : Fields) (vs : Vals) : AgrF wz fs vs vs := ⟨rfl, fun _ _ => rfl⟩

theorem Agr.mono {wz : Bool} {t : Ty} {a b : Val} (h : Agr false t a b) : Agr wz t a b :=
  ⟨h.1, fun _ hp => h.2 rfl hp⟩
theorem AgrF.mono {wz : Bool} {fs : Fields} {a b : Vals} (h : AgrF false fs a b) : AgrF wz fs a b :=
  ⟨h.1, fun _ hp => h.2 rfl hp⟩

theorem Agr.struct {wz : Bool} {fs : Fields} {vs' vs : Vals} (h : AgrF wz fs vs' vs) :
    Agr wz (.struct fs) (.struct vs') (.struct vs) :=
  ⟨by simp only [canonical, canonTy, canon, h.1], fun hw hp => by rw [h.2 hw (by simpa [plainTy] using hp)]⟩

theorem Agr.ptr {wz wz' : Bool} {t : Ty} {v' v : Val} (h : Agr wz' t v' v) : Agr wz (.ptr t) (.ptr v') (.ptr v) := by
  refine ⟨?_, fun _ hp => by simp [plainTy] at hp⟩
  have := h.1
  simp only [canonical] at this
  simp only [canonical, canonTy, canon, this]

theorem AgrF.cons {wz wz' : Bool} {name tag : String} {emb : Bool} {t : Ty} {rest : Fields} {v' v : Val}
    {vs' vs : Vals} (h1 : Agr wz t v' v) (h2 : AgrF wz' rest vs' vs) (hw : wz = false → wz' = false) :
    AgrF wz (.cons name tag emb t rest) (.cons v' vs') (.cons v vs) := by
  refine ⟨?_, fun h hp => ?_⟩
  · have := h1.1
    simp only [canonical] at this
    simp only [canonTyFields, canonVals, this, h2.1]
  · simp only [plainFields, Bool.and_eq_true] at hp
    rw [h1.2 h hp.1, h2.2 (hw h) hp.2]

/-! ## absent on the wire ⇒ the value agrees with the zero value -/

theorem encRec_ne_nil (r : Nat × WireVal) : encRec r ≠ [] := by
  intro h
  have := encRec_length_pos r
  rw [h] at this; simp at this

theorem encRecs_eq_nil {rs : List (Nat × WireVal)} (h : encRecs rs = []) : rs = [] := by
  cases rs with
  | nil => rfl
  | cons r rs =>
    rw [encRecs_cons] at h
    exact absurd (List.append_eq_nil_iff.mp h).1 (encRec_ne_nil r)

theorem canonical_slice_nil (e : Ty) : canonical (.slice e) .nil = .nil := by
  cases e <;> simp [canonical, canonTy, canon]

theorem canonical_slice_empty (e : Ty) : canonical (.slice e) (.list .nil) = .nil := by
  cases e <;> simp [canonical, canonTy, canon, canonTyList, canonVals]

theorem zeroBytes_eq_replicate : ∀ s : Bytes, isZeroBytes s = true → s = List.replicate s.length 0
  | [], _ => rfl
  | c :: cs, h => by
    simp only [isZeroBytes, List.all_cons, Bool.and_eq_true, beq_iff_eq] at h
    have ih := zeroBytes_eq_replicate cs (by simpa [isZeroBytes] using h.2)
    simp only [List.length_cons, List.replicate_succ, h.1, ← ih]

mutual
theorem absent_agr (t : Ty) (o : FieldOpt) (v : Val) (wz : Bool)
    (hv : hasType t v = true) (hne : noEmptyPtr t v = true) (hns : isSlice t = false)
    (h : payload wz t o v = none) : Agr wz t (Spec.Protobuf.zeroOf t) v := by
  cases t <;> cases v <;> simp only [hasType] at hv <;> try (exact absurd hv (by decide))
  case slice.nil => exact absurd hns (by simp [isSlice])
  case slice.list => exact absurd hns (by simp [isSlice])
  case ptr.nil => simp only [Spec.Protobuf.zeroOf]; exact Agr.rfl' _ _ _
  case ptr.ptr t' v0 =>
    simp only [payload] at h
    simp only [noEmptyPtr, Bool.and_eq_true] at hne
    have := hne.1
    rw [payload_isSome true t' _ o v0, h] at this
    exact absurd this (by decide)
  case bool.bool b =>
    simp only [payload] at h
    split at h
    · cases h
    · rename_i hb; simp only [Bool.or_eq_true, not_or, Bool.not_eq_true] at hb
      simp only [Spec.Protobuf.zeroOf, hb.1]; exact Agr.rfl' _ _ _
  case int.int k i =>
    simp only [payload] at h
    split at h
    · cases h
    · rename_i hb; simp only [Bool.or_eq_true, not_or, Bool.not_eq_true, bne_eq_false_iff_eq] at hb
      simp only [Spec.Protobuf.zeroOf, hb.1]; exact Agr.rfl' _ _ _
  case f32.float b =>
    simp only [payload] at h
    split at h
    · cases h
    · rename_i hb; simp only [Bool.or_eq_true, not_or, Bool.not_eq_true, bne_eq_false_iff_eq] at hb
      simp only [Spec.Protobuf.zeroOf, hb.1]; exact Agr.rfl' _ _ _
  case f64.float b =>
    simp only [payload] at h
    split at h
    · cases h
    · rename_i hb; simp only [Bool.or_eq_true, not_or, Bool.not_eq_true, bne_eq_false_iff_eq] at hb
      simp only [Spec.Protobuf.zeroOf, hb.1]; exact Agr.rfl' _ _ _
  case str.str s =>
    simp only [payload] at h
    split at h
    · cases h
    · rename_i hb; simp only [Bool.or_eq_true, not_or, Bool.not_eq_true, Bool.not_eq_false'] at hb
      have : s = [] := by simpa using hb.1
      simp only [Spec.Protobuf.zeroOf, this]; exact Agr.rfl' _ _ _
  case bytes.str s => simp [payload] at h
  case bytes.nil => simp only [Spec.Protobuf.zeroOf]; exact Agr.rfl' _ _ _
  case arr.str n e s =>
    simp only [Bool.and_eq_true, decide_eq_true_eq] at hv
    have := isByte_eq e hv.1; subst this
    simp only [payload] at h
    split at h
    · cases h
    · rename_i hb; simp only [Bool.or_eq_true, not_or, Bool.not_eq_true, Bool.not_eq_false'] at hb
      have : s = List.replicate n 0 := by rw [← hv.2]; exact zeroBytes_eq_replicate s hb.1
      simp only [Spec.Protobuf.zeroOf, this]; exact Agr.rfl' _ _ _
  case struct.struct fs vs =>
    simp only [payload] at h
    split at h
    · rename_i hb
      have hnil : recordsOf wz 1 fs vs ++ recordsR 1 fs vs = [] := encRecs_eq_nil (by simpa [encRecs] using hb)
      obtain ⟨h1, h2⟩ := List.append_eq_nil_iff.mp hnil
      simp only [Spec.Protobuf.zeroOf]
      simp only [noEmptyPtr] at hne
      exact Agr.struct (absent_agrF fs vs wz 1 hv hne h1 h2)
    · cases h
theorem absent_agrF (fs : Fields) (vs : Vals) (wz : Bool) (pos : Nat)
    (hv : hasTypes fs vs = true) (hne : noEmptyPtrs fs vs = true)
    (h1 : recordsOf wz pos fs vs = []) (h2 : recordsR pos fs vs = []) :
    AgrF wz fs (Spec.Protobuf.zeroFields fs) vs := by
  cases fs with
  | nil => cases vs <;> simp_all [hasTypes, Spec.Protobuf.zeroFields]; exact AgrF.rfl' _ _ _
  | cons name tag emb t rest =>
    cases vs with
    | nil => simp [hasTypes] at hv
    | cons v vs =>
      simp only [hasTypes, Bool.and_eq_true] at hv
      simp only [noEmptyPtrs, Bool.and_eq_true] at hne
      simp only [Spec.Protobuf.zeroFields]
      by_cases hsl : isSlice t = true
      · cases t <;> simp only [isSlice] at hsl <;> try (exact absurd hsl (by decide))
        rename_i e
        rw [recordsOf_slice] at h1
        cases v <;> simp only [hasType] at hv <;> try (exact absurd hv.1 (by decide))
        case nil =>
          rw [recordsR_slice_nil] at h2
          simp only [Spec.Protobuf.zeroOf]
          exact AgrF.cons (Agr.rfl' _ _ _) (absent_agrF rest vs wz (pos + 1) hv.2 hne.2 h1 h2) id
        case list es =>
          simp only [recordsR] at h2
          obtain ⟨h3, h4⟩ := List.append_eq_nil_iff.mp h2
          have hes : es = .nil := by
            cases es with
            | nil => rfl
            | cons => simp [listRecs] at h3
          subst hes
          simp only [Spec.Protobuf.zeroOf]
          refine AgrF.cons ⟨?_, fun _ hp => by simp [plainTy] at hp⟩
            (absent_agrF rest vs wz (pos + 1) hv.2 hne.2 h1 h4) id
          rw [canonical_slice_nil, canonical_slice_empty]
      · have hns : isSlice t = false := by simpa using hsl
        rw [recordsR_notslice _ _ _ _ _ _ _ _ hns] at h2
        simp only [recordsOf] at h1
        cases hp : payload wz t (fieldOpt pos tag) v with
        | none =>
          rw [hp] at h1
          simp only at h1
          exact AgrF.cons (absent_agr t _ v wz hv.1 hne.1 hns hp) (absent_agrF rest vs wz (pos + 1) hv.2 hne.2 h1 h2) id
        | some w => rw [hp] at h1; simp at h1
end

/-! ## the reference decoder, record by record -/

/-- processing one record = some update of the field values, then the remaining records -/
theorem decodeRecs_factor (f : Nat) (fs : Fields) (num : Nat) (w : WireVal) (vs : Vals) :
    ∃ G : Option Vals, ∀ rest, decodeRecs (f + 1) fs ((num, w) :: rest) vs = G.bind (decodeRecs f fs rest) := by
  simp only [decodeRecs]
  cases hff : findField fs num with
  | none => exact ⟨some vs, fun rest => rfl⟩
  | some p =>
    obtain ⟨i, o, t⟩ := p
    simp only
    cases hr : isRepeated t with
    | some et =>
      simp only
      refine ⟨(decodeOne f (deref et) o w (Spec.Protobuf.zeroOf (deref et))).bind fun e => some
        (valsSet vs i (.list (Vals.ofList ((match valsGet vs i with | .list l => l.toList | _ => []) ++ [wrapPtr et e])))),
        fun rest => ?_⟩
      cases decodeOne f (deref et) o w (Spec.Protobuf.zeroOf (deref et)) <;> rfl
    | none =>
      simp only
      split
      · rename_i kt vt eb _
        refine ⟨(decodeMsg f (Fields.cons "Key" "" false kt (.cons "Elem" "" false vt .nil)) eb
          (Spec.Protobuf.zeroFields (Fields.cons "Key" "" false kt (.cons "Elem" "" false vt .nil)))).bind fun evs => some
            (valsSet vs i (.map (mapPut (match valsGet vs i with | .map kvs => kvs | _ => .nil) (valsGet evs 0) (valsGet evs 1)))),
          fun rest => ?_⟩
        cases decodeMsg f (Fields.cons "Key" "" false kt (.cons "Elem" "" false vt .nil)) eb
          (Spec.Protobuf.zeroFields (Fields.cons "Key" "" false kt (.cons "Elem" "" false vt .nil))) <;> rfl
      · exact ⟨none, fun rest => rfl⟩
      · rename_i w1 _ _ _ _
        refine ⟨(decodeOne f (deref t) o w1 (unwrapPtr t (valsGet vs i))).bind fun v => some (valsSet vs i (wrapPtr t v)),
          fun rest => ?_⟩
        cases decodeOne f (deref t) o w1 (unwrapPtr t (valsGet vs i)) <;> rfl

/-- records are processed left to right: a prefix that succeeds hands its result (and the remaining fuel) on -/
theorem decodeRecs_append (fs : Fields) (r2 : List (Nat × WireVal)) :
    ∀ (r1 : List (Nat × WireVal)) (F : Nat) (vs vs1 : Vals), decodeRecs F fs r1 vs = some vs1 →
      decodeRecs F fs (r1 ++ r2) vs = decodeRecs (F - r1.length) fs r2 vs1
  | [], F, vs, vs1, h => by
    cases F with
    | zero => simp [decodeRecs] at h
    | succ f =>
      simp only [decodeRecs, Option.some.injEq] at h
      subst h; simp
  | (num, w) :: r1, F, vs, vs1, h => by
    cases F with
    | zero => simp [decodeRecs] at h
    | succ f =>
      obtain ⟨G, hG⟩ := decodeRecs_factor f fs num w vs
      rw [hG] at h
      rw [List.cons_append, hG]
      cases G with
      | none => simp at h
      | some x =>
        simp only [Option.bind_some] at h ⊢
        rw [decodeRecs_append fs r2 r1 f x vs1 h]
        simp

/-- on the non-pointer types of the universe the pointer plumbing of the reference decoder is the identity -/
theorem base_plumbing (t : Ty) (ht : tyOK t = true) (hnp : isPtr t = false) :
    deref t = t ∧ (∀ x, unwrapPtr t x = x) ∧ (∀ x, wrapPtr t x = x) := by
  cases t <;> simp only [tyOK] at ht <;> try (exact absurd ht (by decide))
  case ptr => exact absurd hnp (by simp [isPtr])
  all_goals exact ⟨by simp [deref], fun x => by cases x <;> simp [unwrapPtr], fun x => by simp [wrapPtr]⟩

theorem ptrTarget_notPtr (t : Ty) (h : ptrTarget t = true) : isPtr t = false := by
  cases t <;> simp_all [ptrTarget, isPtr]
theorem ptrTarget_notSlice (t : Ty) (h : ptrTarget t = true) : isSlice t = false := by
  cases t <;> simp_all [ptrTarget, isSlice]

/-- a record of a non-repeated field -/
theorem decodeRecs_step (fuel : Nat) (fs : Fields) (num : Nat) (w : WireVal) (rest : List (Nat × WireVal))
    (vs : Vals) (i : Nat) (o : FieldOpt) (t : Ty) (hf : findField fs num = some (i, o, t)) (ht : tyOK t = true)
    (hns : isSlice t = false) :
    decodeRecs (fuel + 1) fs ((num, w) :: rest) vs
      = (decodeOne fuel (deref t) o w (unwrapPtr t (valsGet vs i))).bind fun v =>
          decodeRecs fuel fs rest (valsSet vs i (wrapPtr t v)) := by
  simp only [decodeRecs, hf]
  cases t <;> simp only [tyOK] at ht <;> try (exact absurd ht (by decide))
  case slice => exact absurd hns (by simp [isSlice])
  all_goals simp [isRepeated, unname]

/-- a record of a repeated field: one more element -/
theorem decodeRecs_step_rep (fuel : Nat) (fs : Fields) (num : Nat) (w : WireVal) (rest : List (Nat × WireVal))
    (vs : Vals) (i : Nat) (o : FieldOpt) (e : Ty) (hf : findField fs num = some (i, o, .slice e))
    (ht : tyOK (.slice e) = true) :
    decodeRecs (fuel + 1) fs ((num, w) :: rest) vs
      = (decodeOne fuel e o w (Spec.Protobuf.zeroOf e)).bind fun x =>
          decodeRecs fuel fs rest (valsSet vs i (.list (Vals.ofList
            ((match valsGet vs i with | .list l => l.toList | _ => []) ++ [x])))) := by
  simp only [tyOK, elemTy, Bool.and_eq_true, Bool.not_eq_true'] at ht
  obtain ⟨hd, hu, hw⟩ := base_plumbing e ht.2 ht.1.1
  have hrep : isRepeated (.slice e) = some e := by
    cases e <;> simp_all [isRepeated, unname, tyOK]
    rename_i k; cases k <;> simp_all [supportedKind]
  simp only [decodeRecs, hf, hrep, hd, hw]
  rfl

theorem unzigzag_zigzag (i : Int) : unzigzag (zigzag i) = i := by
  unfold zigzag unzigzag
  split <;> split <;> omega

theorem toInt64_ofInt64 (i : Int) (h1 : -(2:Int)^63 ≤ i) (h2 : i < (2:Int)^63) : toInt64 (ofInt64 i) = i := by
  simp only [Int.reducePow] at h1 h2
  unfold toInt64 ofInt64
  split <;> omega

theorem findField_go_cons (num : Nat) (name tag : String) (emb : Bool) (t : Ty) (rest : Fields) (i : Nat) :
    findField.go num (.cons name tag emb t rest) i
      = if (fieldOpt (i + 1) tag).number = num then some (i, fieldOpt (i + 1) tag, t)
        else findField.go num rest (i + 1) := by
  simp only [findField.go]

theorem decodeMsg_of (fs : Fields) (b : Bytes) (recs : List (Nat × WireVal)) (vs0 res : Vals) (fuel : Nat)
    (hp : parse (b.length + 1) b = some recs) (hr : decodeRecs fuel fs recs vs0 = some res) :
    decodeMsg (fuel + 1) fs b vs0 = some res := by
  simp [decodeMsg, hp, hr]

/-- scalar (non-message) field: the reference decoder reads the record back as the value -/
theorem decode_scalar_exact (t : Ty) (o : FieldOpt) (v : Val) (wz : Bool) (cur : Val) (fuel : Nat)
    (hs : isStructTy t = false) (hnp : isPtr t = false) (hns : isSlice t = false) (ht : tyOK t = true) (hv : hasType t v = true) (ho : optOK t o = true)
    (w : WireVal) (hp : payload wz t o v = some w) (hnb : ¬ (t = .bytes ∧ v = .nil)) :
    decodeOne (fuel + 1) t o w cur = some v := by
  cases t <;> simp only [tyOK] at ht <;> try (exact absurd ht (by decide))
  case struct => exact absurd hs (by simp [isStructTy])
  case ptr => exact absurd hnp (by simp [isPtr])
  case slice => exact absurd hns (by simp [isSlice])
  case bool =>
    cases v <;> simp only [hasType] at hv <;> try (exact absurd hv (by decide))
    rename_i b
    simp only [payload] at hp
    split at hp
    · cases hp; cases b <;> simp [decodeOne]
    · cases hp
  case int k =>
    cases v <;> simp only [hasType] at hv <;> try (exact absurd hv (by decide))
    rename_i i
    simp only [payload] at hp
    split at hp
    · cases hp
      cases k <;> simp only [supportedKind] at ht <;> try (exact absurd ht (by decide))
      case int =>
        have hf : o.fixed = false := by simpa [optOK] using ho
        obtain ⟨h1, h2⟩ := inRange_signed _ i (by simp) hv
        simp only [intWire, hf, IntKind.signed, Bool.false_eq_true, if_false, if_true, decodeOne]
        split <;> simp [unzigzag_zigzag, toInt64_ofInt64 i h1 h2, hv]
      case i32 =>
        obtain ⟨h1, h2⟩ := inRange_signed _ i (by simp) hv
        by_cases hf : o.fixed = true
        · have hr := inRange_spec _ i hv
          simp only [IntKind.signed, IntKind.bits, if_true, Nat.reduceSub] at hr
          simp only [intWire, hf, IntKind.bits, if_true]
          exact decodeOne_sfixed32 fuel o hf i hr.1 hr.2 cur
        · simp only [intWire, hf, IntKind.signed, Bool.false_eq_true, if_false, if_true, decodeOne]
          split <;> simp [unzigzag_zigzag, toInt64_ofInt64 i h1 h2, hv]
      case i64 =>
        obtain ⟨h1, h2⟩ := inRange_signed _ i (by simp) hv
        by_cases hf : o.fixed = true
        · simp only [intWire, hf, IntKind.bits, if_true, Nat.reduceEqDiff, if_false]
          exact decodeOne_sfixed64 fuel o hf i h1 h2 cur
        · simp only [intWire, hf, IntKind.signed, Bool.false_eq_true, if_false, if_true, decodeOne]
          split <;> simp [unzigzag_zigzag, toInt64_ofInt64 i h1 h2, hv]
      case uint =>
        have hf : o.fixed = false := by simpa [optOK] using ho
        obtain ⟨h1, h2⟩ := inRange_unsigned _ i (by simp) hv
        have e : ((i.toNat : Nat) : Int) = i := by omega
        simp only [intWire, hf, IntKind.signed, Bool.false_eq_true, if_false, decodeOne, e, hv, if_true]
      case u32 =>
        obtain ⟨h1, h2⟩ := inRange_unsigned _ i (by simp) hv
        obtain ⟨_, h3⟩ := inRange_u32 i hv
        have e : ((i.toNat : Nat) : Int) = i := by omega
        by_cases hf : o.fixed = true
        · simp only [intWire, hf, IntKind.bits, if_true, decodeOne]
          rw [ofInt32_nonneg i h1 h3, leNat_natLE_four _ (by simp only [Int.reducePow] at h3; omega), e]
        · simp only [intWire, hf, IntKind.signed, Bool.false_eq_true, if_false, decodeOne, e, hv, if_true]
      case u64 =>
        obtain ⟨h1, h2⟩ := inRange_unsigned _ i (by simp) hv
        have e : ((i.toNat : Nat) : Int) = i := by omega
        by_cases hf : o.fixed = true
        · simp only [intWire, hf, IntKind.bits, if_true, Nat.reduceEqDiff, if_false, decodeOne]
          rw [ofInt64_nonneg i h1 h2, leNat_natLE_eight _ (by simp only [Int.reducePow] at h2; omega), e]
        · simp only [intWire, hf, IntKind.signed, Bool.false_eq_true, if_false, decodeOne, e, hv, if_true]
    · cases hp
  case f32 =>
    cases v <;> simp only [hasType, decide_eq_true_eq] at hv <;> try (exact absurd hv (by decide))
    simp only [payload] at hp
    split at hp
    · cases hp; simp only [decodeOne]; rw [leNat_natLE_four _ hv]
    · cases hp
  case f64 =>
    cases v <;> simp only [hasType, decide_eq_true_eq] at hv <;> try (exact absurd hv (by decide))
    simp only [payload] at hp
    split at hp
    · cases hp; simp only [decodeOne]; rw [leNat_natLE_eight _ hv]
    · cases hp
  case str =>
    cases v <;> simp only [hasType] at hv <;> try (exact absurd hv (by decide))
    simp only [payload] at hp
    split at hp
    · cases hp; simp only [decodeOne]
    · cases hp
  case bytes =>
    cases v <;> simp only [hasType] at hv <;> try (exact absurd hv (by decide))
    case str s => simp only [payload] at hp; cases hp; simp only [decodeOne]
    case nil =>
      exact absurd ⟨rfl, rfl⟩ hnb
  case arr n e =>
    have := isByte_eq e ht; subst this
    cases v <;> simp only [hasType, Bool.and_eq_true, decide_eq_true_eq] at hv <;> try (exact absurd hv (by decide))
    rename_i s
    simp only [payload] at hp
    split at hp
    · cases hp; simp [decodeOne, hv.2]
    · cases hp

/-- scalar (non-message) field: the reference decoder reads the record back as the value -/
theorem decode_scalar (t : Ty) (o : FieldOpt) (v : Val) (wz : Bool) (cur : Val) (fuel : Nat)
    (hs : isStructTy t = false) (hnp : isPtr t = false) (hns : isSlice t = false) (ht : tyOK t = true) (hv : hasType t v = true) (ho : optOK t o = true)
    (w : WireVal) (hp : payload wz t o v = some w) :
    ∃ v', decodeOne (fuel + 1) t o w cur = some v' ∧ Agr wz t v' v := by
  by_cases hnb : t = .bytes ∧ v = .nil
  · obtain ⟨rfl, rfl⟩ := hnb
    simp only [payload] at hp
    split at hp
    · rename_i hw
      cases hp
      exact ⟨.str [], by simp only [decodeOne], by simp [canonical, canonTy], by simp [hw]⟩
    · cases hp
  · exact ⟨v, decode_scalar_exact t o v wz cur fuel hs hnp hns ht hv ho w hp hnb, Agr.rfl' _ _ _⟩


/-! ## repeated fields: the elements accumulate -/

/-- value of a repeated field after the elements `acc` have been read (nil until the first one arrives) -/
def accVal : List Val → Val
  | [] => .nil
  | a :: l => .list (Vals.ofList (a :: l))

theorem accVal_toList (acc : List Val) :
    (match accVal acc with | .list l => l.toList | _ => []) = acc := by
  cases acc with
  | nil => rfl
  | cons a l => simp only [accVal]; exact toList_ofList _

theorem accVal_snoc (acc : List Val) (x : Val) : Val.list (Vals.ofList (acc ++ [x])) = accVal (acc ++ [x]) := by
  cases acc <;> rfl

/-- element-wise agreement -/
def ListAgr (e : Ty) : List Val → Vals → Prop
  | [], .nil => True
  | d :: ds, .cons v vs => canonical e d = canonical e v ∧ ListAgr e ds vs
  | _, _ => False

theorem canonVals_ofList (e : Ty) : ∀ (ds : List Val) (es : Vals), ListAgr e ds es →
    canonVals (canonTyList e (Vals.ofList ds)) = canonVals (canonTyList e es)
  | [], .nil, _ => rfl
  | [], .cons _ _, h => by simp [ListAgr] at h
  | _ :: _, .nil, h => by simp [ListAgr] at h
  | d :: ds, .cons v vs, h => by
    simp only [ListAgr] at h
    have h1 := h.1
    simp only [canonical] at h1
    simp only [Vals.ofList, canonTyList, canonVals, h1, canonVals_ofList e ds vs h.2]

theorem slice_agr (wz : Bool) (e : Ty) (ds : List Val) (es : Vals) (h : ListAgr e ds es) :
    Agr wz (.slice e) (accVal ds) (.list es) := by
  refine ⟨?_, fun _ hp => by simp [plainTy] at hp⟩
  cases ds with
  | nil =>
    cases es with
    | nil => simp only [accVal]; rw [canonical_slice_nil, canonical_slice_empty]
    | cons => simp [ListAgr] at h
  | cons d ds =>
    have := canonVals_ofList e (d :: ds) es h
    simp only [accVal]
    have e1 : ∀ l, canonical (.slice e) (.list l) = canon (.list (canonTyList e l)) := by
      intro l; cases e <;> simp [canonical, canonTy]
    rw [e1, e1]
    simp only [canon, this]

theorem decode_elems (fsAll : Fields) (e : Ty) (o : FieldOpt) (num : Nat) (W : Val → WireVal) (pre r : Vals)
    (hff : findField fsAll num = some (pre.length, o, .slice e)) (hty : tyOK (.slice e) = true)
    (hstep : ∀ v, hasType e v = true → noEmptyPtr e v = true → ∀ fuel, (encRec (num, W v)).length < 2 ^ 64 →
      2 * (encRec (num, W v)).length ≤ fuel + 1 →
      ∃ v', decodeOne fuel e o (W v) (Spec.Protobuf.zeroOf e) = some v' ∧ canonical e v' = canonical e v) :
    ∀ (es : Vals) (acc : List Val) (fuel : Nat), hasTypeList e es = true → noEmptyPtrList e es = true →
      (encRecs (listRecs (fun v => (num, W v)) es)).length < 2 ^ 64 →
      2 * (encRecs (listRecs (fun v => (num, W v)) es)).length + 1 ≤ fuel →
      ∃ ds, decodeRecs fuel fsAll (listRecs (fun v => (num, W v)) es) (vapp pre (.cons (accVal acc) r))
          = some (vapp pre (.cons (accVal (acc ++ ds)) r)) ∧ ListAgr e ds es
  | .nil, acc, fuel, _, _, _, hfuel => by
    obtain ⟨f, rfl⟩ : ∃ f, fuel = f + 1 := ⟨fuel - 1, by omega⟩
    exact ⟨[], by simp [listRecs, decodeRecs], trivial⟩
  | .cons v es, acc, fuel, hv, hne, hlen, hfuel => by
    simp only [hasTypeList, Bool.and_eq_true] at hv
    simp only [noEmptyPtrList, Bool.and_eq_true] at hne
    simp only [listRecs, encRecs_cons, List.length_append] at hlen hfuel ⊢
    have hr1 := encRec_length_pos (num, W v)
    obtain ⟨f, rfl⟩ : ∃ f, fuel = f + 1 := ⟨fuel - 1, by omega⟩
    obtain ⟨v', hone, hagr⟩ := hstep v hv.1 hne.1 f (by omega) (by omega)
    obtain ⟨ds, hdec, hl⟩ := decode_elems fsAll e o num W pre r hff hty hstep es (acc ++ [v']) f hv.2 hne.2
      (by omega) (by omega)
    refine ⟨v' :: ds, ?_, ⟨hagr, hl⟩⟩
    rw [decodeRecs_step_rep f fsAll num _ _ _ _ o e hff hty, hone]
    simp only [Option.bind_some, valsGet_vapp, valsSet_vapp]
    rw [List.append_assoc] at hdec
    cases acc with
    | nil => simpa only [accVal, List.nil_append, List.cons_append, accVal_snoc] using hdec
    | cons a l => simpa only [accVal, toList_ofList, List.cons_append, List.nil_append, accVal_snoc] using hdec

/-- state after the first pass (non-repeated fields decoded, repeated fields still nil) -/
def Rel1 (wz : Bool) : Fields → Vals → Vals → Prop
  | .nil, .nil, .nil => True
  | .cons _ _ _ t rest, .cons u us, .cons v vs =>
    (if isSlice t = true then u = .nil else Agr wz t u v) ∧ Rel1 wz rest us vs
  | _, _, _ => False

theorem Rel1.mono {wz : Bool} : ∀ {fs : Fields} {us vs : Vals}, Rel1 false fs us vs → Rel1 wz fs us vs
  | .nil, .nil, .nil, _ => trivial
  | .nil, .nil, .cons _ _, h => by simp [Rel1] at h
  | .nil, .cons _ _, _, h => by simp [Rel1] at h
  | .cons _ _ _ _ _, .nil, _, h => by simp [Rel1] at h
  | .cons _ _ _ _ _, .cons _ _, .nil, h => by simp [Rel1] at h
  | .cons _ _ _ t rest, .cons u us, .cons v vs, h => by
    simp only [Rel1] at h ⊢
    refine ⟨?_, Rel1.mono h.2⟩
    split
    · rename_i hs; simpa [hs] using h.1
    · rename_i hs; have := h.1; simp only [hs, if_false] at this; exact Agr.mono this

/-! ## the reference decoder on the records of a value -/

theorem encRec_len_length (num : Nat) (b : Bytes) : b.length + 2 ≤ (encRec (num, .len b)).length := by
  simp only [encRec, List.length_append]
  have := leb128_length_pos (num * 8 + 2); have := leb128_length_pos b.length; omega

theorem allRecords_len (wz : Bool) (fs : Fields) (vs : Vals) :
    (encRecs (allRecords wz fs vs)).length
      = (encRecs (recordsOf wz 1 fs vs)).length + (encRecs (recordsR 1 fs vs)).length := by
  simp [allRecords, encRecs_append]

/-- decoding an empty chunk as a message gives the zero message -/
theorem decodeOne_empty (fs : Fields) (o : FieldOpt) (f : Nat) :
    decodeOne (f + 3) (.struct fs) o (.len []) (Spec.Protobuf.zeroOf (.struct fs))
      = some (.struct (Spec.Protobuf.zeroFields fs)) := by
  simp [decodeOne, Spec.Protobuf.zeroOf, decodeMsg, parse, decodeRecs]

mutual
theorem decode_one (t : Ty) (o : FieldOpt) (v : Val) (wz : Bool) (fuel num : Nat)
    (ht : tyOK t = true) (hns : isSlice t = false) (hv : hasType t v = true) (hne : noEmptyPtr t v = true)
    (ho : optOK t o = true) (w : WireVal) (hp : payload wz t o v = some w)
    (hlen : (encRec (num, w)).length < 2 ^ 64) (hfuel : 2 * (encRec (num, w)).length ≤ fuel + 1) :
    ∃ v', decodeOne fuel (deref t) o w (unwrapPtr t (Spec.Protobuf.zeroOf t)) = some v'
      ∧ Agr wz t (wrapPtr t v') v := by
  by_cases hptr : isPtr t = true
  · cases t <;> simp only [isPtr] at hptr <;> try (exact absurd hptr (by decide))
    rename_i t'
    simp only [tyOK, Bool.and_eq_true] at ht
    have ho' : optOK t' o = true := by
      cases t' <;> simp_all [optOK, ptrTarget]
    obtain ⟨hd, hu, hw⟩ := base_plumbing t' ht.2 (ptrTarget_notPtr t' ht.1)
    cases v <;> simp only [hasType] at hv <;> try (exact absurd hv (by decide))
    case nil => simp [payload] at hp
    case ptr v0 =>
      simp only [payload] at hp
      simp only [noEmptyPtr, Bool.and_eq_true] at hne
      obtain ⟨v', hdec, hagr⟩ := decode_one t' o v0 true fuel num ht.2 (ptrTarget_notSlice t' ht.1) hv hne.2 ho' w hp
        hlen hfuel
      rw [hd, hu] at hdec
      rw [hw] at hagr
      refine ⟨v', ?_, ?_⟩
      · simp only [deref, unwrapPtr, Spec.Protobuf.zeroOf, hd]
        exact hdec
      · simp only [wrapPtr, hw]
        exact Agr.ptr hagr
  have hnp : isPtr t = false := by simpa using hptr
  obtain ⟨hd, hu, hw⟩ := base_plumbing t ht hnp
  rw [hd, hu]
  simp only [hw]
  by_cases hs : isStructTy t = true
  · cases t <;> simp only [isStructTy] at hs <;> try (exact absurd hs (by decide))
    rename_i fs
    cases v <;> simp only [hasType] at hv <;> try (exact absurd hv (by decide))
    rename_i vs
    simp only [tyOK, Bool.and_eq_true, decide_eq_true_eq] at ht
    simp only [noEmptyPtr] at hne
    simp only [payload] at hp
    split at hp
    · cases hp
    · cases hp
      change (encRec (num, .len (encRecs (allRecords wz fs vs)))).length < 2 ^ 64 at hlen
      change 2 * (encRec (num, .len (encRecs (allRecords wz fs vs)))).length ≤ fuel + 1 at hfuel
      change ∃ v', decodeOne fuel (.struct fs) o (.len (encRecs (allRecords wz fs vs))) _ = some v' ∧ _
      have hl := encRec_len_length num (encRecs (allRecords wz fs vs))
      have hal := allRecords_len wz fs vs
      obtain ⟨f, rfl⟩ : ∃ f, fuel = f + 2 := ⟨fuel - 2, by omega⟩
      have hbody : (encRecs (allRecords wz fs vs)).length < 2 ^ 64 := by omega
      obtain ⟨us, hdec1, hrel⟩ := decode_fields fs fs vs wz .nil [] f 1 rfl ht.1 hv hne ht.2 (by simp)
        (by intro n _; rfl) (by omega) (by omega)
      simp only [vapp] at hdec1
      have hr1 := length_le_encRecs (recordsOf wz 1 fs vs)
      obtain ⟨ws, hdec2, hagr⟩ := decode_fieldsR fs fs vs us wz .nil [] (f - (recordsOf wz 1 fs vs).length) 1 rfl
        ht.1 hv hne ht.2 (by simp) (by intro n _; rfl) hrel (by omega) (by omega)
      simp only [vapp] at hdec2
      have hdec : decodeRecs f fs (allRecords wz fs vs) (Spec.Protobuf.zeroFields fs) = some ws := by
        rw [allRecords, decodeRecs_append fs _ _ f _ us hdec1, hdec2]
      refine ⟨.struct ws, ?_, Agr.struct hagr⟩
      simp only [Spec.Protobuf.zeroOf, decodeOne]
      have hparse := parse_encRecs_len _ (allRecords_ok fs vs wz ht.1 hv hbody)
      rw [decodeMsg_of fs _ _ _ ws f hparse hdec]
      rfl
  · have hs' : isStructTy t = false := by simpa using hs
    have := encRec_length_pos (num, w)
    obtain ⟨f, rfl⟩ : ∃ f, fuel = f + 1 := ⟨fuel - 1, by omega⟩
    exact decode_scalar t o v wz _ f hs' hnp hns ht hv ho w hp
/-- first pass: the records of the non-repeated fields -/
theorem decode_fields (fsAll : Fields) (fs : Fields) (vs : Vals) (wz : Bool) (pre : Vals) (seen : List Nat)
    (fuel pos : Nat) (hpos : pos = pre.length + 1)
    (hf : fieldsOK pos fs = true) (hv : hasTypes fs vs = true) (hne : noEmptyPtrs fs vs = true)
    (hnd : (fieldNums pos fs).Nodup) (hseen : ∀ n ∈ fieldNums pos fs, n ∉ seen)
    (hfind : ∀ num, num ∉ seen → findField fsAll num = findField.go num fs pre.length)
    (hlen : (encRecs (recordsOf wz pos fs vs)).length < 2 ^ 64)
    (hfuel : 2 * (encRecs (recordsOf wz pos fs vs)).length + 1 ≤ fuel) :
    ∃ us, decodeRecs fuel fsAll (recordsOf wz pos fs vs) (vapp pre (Spec.Protobuf.zeroFields fs))
        = some (vapp pre us) ∧ Rel1 wz fs us vs := by
  cases fs with
  | nil =>
    cases vs with
    | cons => simp [hasTypes] at hv
    | nil =>
      obtain ⟨f, rfl⟩ : ∃ f, fuel = f + 1 := ⟨fuel - 1, by omega⟩
      exact ⟨.nil, by simp [recordsOf, decodeRecs, Spec.Protobuf.zeroFields], trivial⟩
  | cons name tag emb t rest =>
    cases vs with
    | nil => simp [hasTypes] at hv
    | cons v vs =>
      simp only [fieldsOK, Bool.and_eq_true] at hf
      simp only [hasTypes, Bool.and_eq_true] at hv
      simp only [noEmptyPtrs, Bool.and_eq_true] at hne
      obtain ⟨⟨hta, hty⟩, hrest⟩ := hf
      have hnum := tagAgree_num hta
      have hopt := tagAgree_optOK hta
      simp only [fieldNums, List.nodup_cons] at hnd
      simp only [fieldNums, List.mem_cons, forall_eq_or_imp] at hseen
      have hfind' : ∀ (x : Val) (n : Nat), n ∉ (fieldOpt pos tag).number :: seen →
          findField fsAll n = findField.go n rest (vsnoc pre x).length := by
        intro x n hn
        simp only [List.mem_cons, not_or] at hn
        rw [hfind n hn.2, findField_go_cons, vsnoc_length, ← hpos, if_neg (fun e => hn.1 e.symm)]
      have hseen' : ∀ n ∈ fieldNums (pos + 1) rest, n ∉ (fieldOpt pos tag).number :: seen := by
        intro n hn
        simp only [List.mem_cons, not_or]
        exact ⟨fun e => hnd.1 (e ▸ hn), hseen.2 n hn⟩
      have hpos' : ∀ x : Val, pos + 1 = (vsnoc pre x).length + 1 := by intro x; rw [vsnoc_length, hpos]
      simp only [Spec.Protobuf.zeroFields]
      by_cases hsl : isSlice t = true
      · -- a repeated field: nothing in this pass, the value stays nil
        cases t <;> simp only [isSlice] at hsl <;> try (exact absurd hsl (by decide))
        rename_i e
        rw [recordsOf_slice] at hlen hfuel ⊢
        obtain ⟨us, hdec, hrel⟩ := decode_fields fsAll rest vs wz (vsnoc pre .nil) (_ :: seen) fuel (pos + 1)
          (hpos' _) hrest hv.2 hne.2 hnd.2 hseen' (hfind' _) hlen hfuel
        refine ⟨.cons .nil us, ?_, ?_⟩
        · rw [vapp_vsnoc, vapp_vsnoc] at hdec
          simpa only [Spec.Protobuf.zeroOf] using hdec
        · simp only [Rel1, isSlice, if_true]; exact ⟨trivial, hrel⟩
      have hns : isSlice t = false := by simpa using hsl
      simp only [recordsOf] at hlen hfuel ⊢
      cases hp : payload wz t (fieldOpt pos tag) v with
      | none =>
        rw [hp] at hlen hfuel
        simp only at hlen hfuel ⊢
        have hz := absent_agr t _ v wz hv.1 hne.1 hns hp
        obtain ⟨us, hdec, hrel⟩ := decode_fields fsAll rest vs wz (vsnoc pre (Spec.Protobuf.zeroOf t)) (_ :: seen) fuel
          (pos + 1) (hpos' _) hrest hv.2 hne.2 hnd.2 hseen' (hfind' _) hlen hfuel
        refine ⟨.cons (Spec.Protobuf.zeroOf t) us, ?_, ?_⟩
        · rw [vapp_vsnoc, vapp_vsnoc] at hdec
          exact hdec
        · simp only [Rel1, hns, Bool.false_eq_true, if_false]; exact ⟨hz, hrel⟩
      | some w =>
        rw [hp] at hlen hfuel
        simp only [encRecs_cons, List.length_append] at hlen hfuel ⊢
        have hr1 := encRec_length_pos ((fieldOpt pos tag).number, w)
        obtain ⟨f, rfl⟩ : ∃ f, fuel = f + 1 := ⟨fuel - 1, by omega⟩
        have hff : findField fsAll (fieldOpt pos tag).number = some (pre.length, fieldOpt pos tag, t) := by
          rw [hfind _ hseen.1, findField_go_cons, ← hpos, if_pos rfl]
        obtain ⟨v', hone, hagr1⟩ := decode_one t (fieldOpt pos tag) v wz f (fieldOpt pos tag).number hty hns hv.1 hne.1
          hopt w hp (by omega) (by omega)
        obtain ⟨us, hdec, hrel⟩ := decode_fields fsAll rest vs false (vsnoc pre (wrapPtr t v')) (_ :: seen) f (pos + 1)
          (hpos' _) hrest hv.2 hne.2 hnd.2 hseen' (hfind' _) (by omega) (by omega)
        refine ⟨.cons (wrapPtr t v') us, ?_, ?_⟩
        · rw [decodeRecs_step f fsAll _ w _ _ _ _ t hff hty hns, valsGet_vapp, hone]
          simp only [Option.bind_some, valsSet_vapp]
          rw [vapp_vsnoc, vapp_vsnoc] at hdec
          exact hdec
        · simp only [Rel1, hns, Bool.false_eq_true, if_false]; exact ⟨hagr1, Rel1.mono hrel⟩
/-- second pass: the records of the repeated fields, starting from the state the first pass left -/
theorem decode_fieldsR (fsAll : Fields) (fs : Fields) (vs us : Vals) (wz : Bool) (pre : Vals) (seen : List Nat)
    (fuel pos : Nat) (hpos : pos = pre.length + 1)
    (hf : fieldsOK pos fs = true) (hv : hasTypes fs vs = true) (hne : noEmptyPtrs fs vs = true)
    (hnd : (fieldNums pos fs).Nodup) (hseen : ∀ n ∈ fieldNums pos fs, n ∉ seen)
    (hfind : ∀ num, num ∉ seen → findField fsAll num = findField.go num fs pre.length)
    (hrel : Rel1 wz fs us vs)
    (hlen : (encRecs (recordsR pos fs vs)).length < 2 ^ 64)
    (hfuel : 2 * (encRecs (recordsR pos fs vs)).length + 1 ≤ fuel) :
    ∃ ws, decodeRecs fuel fsAll (recordsR pos fs vs) (vapp pre us) = some (vapp pre ws) ∧ AgrF wz fs ws vs := by
  cases fs with
  | nil =>
    cases vs with
    | cons => simp [hasTypes] at hv
    | nil =>
      cases us with
      | cons => simp [Rel1] at hrel
      | nil =>
        obtain ⟨f, rfl⟩ : ∃ f, fuel = f + 1 := ⟨fuel - 1, by omega⟩
        exact ⟨.nil, by simp [recordsR, decodeRecs], AgrF.rfl' _ _ _⟩
  | cons name tag emb t rest =>
    cases vs with
    | nil => simp [hasTypes] at hv
    | cons v vs =>
      cases us with
      | nil => simp [Rel1] at hrel
      | cons u us =>
      simp only [fieldsOK, Bool.and_eq_true] at hf
      simp only [hasTypes, Bool.and_eq_true] at hv
      simp only [noEmptyPtrs, Bool.and_eq_true] at hne
      simp only [Rel1] at hrel
      obtain ⟨⟨hta, hty⟩, hrest⟩ := hf
      have hnum := tagAgree_num hta
      have hopt := tagAgree_optOK hta
      simp only [fieldNums, List.nodup_cons] at hnd
      simp only [fieldNums, List.mem_cons, forall_eq_or_imp] at hseen
      have hfind' : ∀ (x : Val) (n : Nat), n ∉ (fieldOpt pos tag).number :: seen →
          findField fsAll n = findField.go n rest (vsnoc pre x).length := by
        intro x n hn
        simp only [List.mem_cons, not_or] at hn
        rw [hfind n hn.2, findField_go_cons, vsnoc_length, ← hpos, if_neg (fun e => hn.1 e.symm)]
      have hseen' : ∀ n ∈ fieldNums (pos + 1) rest, n ∉ (fieldOpt pos tag).number :: seen := by
        intro n hn
        simp only [List.mem_cons, not_or]
        exact ⟨fun e => hnd.1 (e ▸ hn), hseen.2 n hn⟩
      have hpos' : ∀ x : Val, pos + 1 = (vsnoc pre x).length + 1 := by intro x; rw [vsnoc_length, hpos]
      by_cases hsl : isSlice t = true
      · cases t <;> simp only [isSlice] at hsl <;> try (exact absurd hsl (by decide))
        rename_i e
        simp only [isSlice, if_true] at hrel
        obtain ⟨hu, hrel⟩ := hrel
        subst hu
        have hty' := hty
        simp only [tyOK, elemTy, Bool.and_eq_true, Bool.not_eq_true'] at hty'
        simp only [optOK, Bool.and_eq_true, Bool.not_eq_true'] at hopt
        obtain ⟨⟨hep, hes⟩, hety⟩ := hty'
        cases v <;> simp only [hasType] at hv <;> try (exact absurd hv.1 (by decide))
        case nil =>
          rw [recordsR_slice_nil] at hlen hfuel ⊢
          obtain ⟨ws, hdec, hagr⟩ := decode_fieldsR fsAll rest vs us wz (vsnoc pre .nil) (_ :: seen) fuel (pos + 1)
            (hpos' _) hrest hv.2 hne.2 hnd.2 hseen' (hfind' _) hrel hlen hfuel
          refine ⟨.cons .nil ws, ?_, AgrF.cons (Agr.rfl' _ _ _) hagr id⟩
          rw [vapp_vsnoc, vapp_vsnoc] at hdec
          exact hdec
        case list es =>
          simp only [noEmptyPtr] at hne
          simp only [recordsR, encRecs_append, List.length_append] at hlen hfuel ⊢
          have hff : findField fsAll (fieldOpt pos tag).number = some (pre.length, fieldOpt pos tag, .slice e) := by
            rw [hfind _ hseen.1, findField_go_cons, ← hpos, if_pos rfl]
          obtain ⟨hd, hun, hwr⟩ := base_plumbing e hety hep
          have hstep : ∀ x, hasType e x = true → noEmptyPtr e x = true → ∀ fuel,
              (encRec ((fieldOpt pos tag).number, (payload true e (fieldOpt pos tag) x).getD (.len []))).length < 2 ^ 64 →
              2 * (encRec ((fieldOpt pos tag).number, (payload true e (fieldOpt pos tag) x).getD (.len []))).length
                ≤ fuel + 1 →
              ∃ x', decodeOne fuel e (fieldOpt pos tag) ((payload true e (fieldOpt pos tag) x).getD (.len []))
                  (Spec.Protobuf.zeroOf e) = some x' ∧ canonical e x' = canonical e x := by
            intro x hx hxne fuel hl1 hl2
            cases hpx : payload true e (fieldOpt pos tag) x with
            | some w =>
              rw [hpx, Option.getD_some] at hl1 hl2
              obtain ⟨x', hone, hagr⟩ := decode_one e (fieldOpt pos tag) x true fuel (fieldOpt pos tag).number hety hes hx
                hxne (optOK_plain e _ hopt.1 hopt.2 hep) w hpx hl1 hl2
              rw [hd, hun] at hone
              rw [hwr] at hagr
              exact ⟨x', by simpa using hone, hagr.1⟩
            | none =>
              rw [hpx, Option.getD_none] at hl1 hl2
              have hz := absent_agr e _ x true hx hxne hes hpx
              have hst : isStructTy e = true := by
                cases hst : isStructTy e with
                | true => rfl
                | false => exact absurd hpx (payload_wz_scalar e _ x hety hx hst hep hes)
              cases e <;> simp only [isStructTy] at hst <;> try (exact absurd hst (by decide))
              rename_i efs
              have hl3 := encRec_len_length (fieldOpt pos tag).number []
              obtain ⟨f, rfl⟩ : ∃ f, fuel = f + 3 := ⟨fuel - 3, by omega⟩
              exact ⟨_, decodeOne_empty efs (fieldOpt pos tag) f, by simpa [Spec.Protobuf.zeroOf] using hz.1⟩
          have hb1 := length_le_encRecs (listRecs (fun x => ((fieldOpt pos tag).number,
            (payload true e (fieldOpt pos tag) x).getD (.len []))) es)
          obtain ⟨ds, hdecE, hlagr⟩ := decode_elems fsAll e (fieldOpt pos tag) (fieldOpt pos tag).number
            (fun x => (payload true e (fieldOpt pos tag) x).getD (.len [])) pre us hff hty hstep es [] fuel hv.1 hne.1
            (by omega) (by omega)
          simp only [accVal, List.nil_append] at hdecE
          obtain ⟨ws, hdec, hagr⟩ := decode_fieldsR fsAll rest vs us wz (vsnoc pre (accVal ds)) (_ :: seen)
            (fuel - (listRecs (fun x => ((fieldOpt pos tag).number,
              (payload true e (fieldOpt pos tag) x).getD (.len []))) es).length) (pos + 1)
            (hpos' _) hrest hv.2 hne.2 hnd.2 hseen' (hfind' _) hrel (by omega) (by omega)
          refine ⟨.cons (accVal ds) ws, ?_, AgrF.cons (slice_agr wz e ds es hlagr) hagr id⟩
          rw [decodeRecs_append fsAll _ _ fuel _ _ hdecE]
          rw [vapp_vsnoc, vapp_vsnoc] at hdec
          exact hdec
      have hns : isSlice t = false := by simpa using hsl
      simp only [hns, Bool.false_eq_true, if_false] at hrel
      rw [recordsR_notslice _ _ _ _ _ _ _ _ hns] at hlen hfuel ⊢
      obtain ⟨ws, hdec, hagr⟩ := decode_fieldsR fsAll rest vs us wz (vsnoc pre u) (_ :: seen) fuel (pos + 1)
        (hpos' _) hrest hv.2 hne.2 hnd.2 hseen' (hfind' _) hrel.2 hlen hfuel
      refine ⟨.cons u ws, ?_, AgrF.cons hrel.1 hagr id⟩
      rw [vapp_vsnoc, vapp_vsnoc] at hdec
      exact hdec
end

/-! ## value level -/

/-- the reference decoder run on the reference encoding of the records of a message value -/
theorem decodeMsg_records (fs : Fields) (vs : Vals) (wz : Bool) (fuel : Nat)
    (hty : tyOK (.struct fs) = true) (hv : hasTypes fs vs = true) (hne : noEmptyPtrs fs vs = true)
    (hlen : (encRecs (allRecords wz fs vs)).length < 2 ^ 64)
    (hfuel : 2 * (encRecs (allRecords wz fs vs)).length + 2 ≤ fuel) :
    ∃ ws, decodeMsg fuel fs (encRecs (allRecords wz fs vs)) (Spec.Protobuf.zeroFields fs) = some ws
      ∧ AgrF wz fs ws vs := by
  simp only [tyOK, Bool.and_eq_true, decide_eq_true_eq] at hty
  have hal := allRecords_len wz fs vs
  obtain ⟨f, rfl⟩ : ∃ f, fuel = f + 1 := ⟨fuel - 1, by omega⟩
  obtain ⟨us, hdec1, hrel⟩ := decode_fields fs fs vs wz .nil [] f 1 rfl hty.1 hv hne hty.2 (by simp)
    (by intro n _; rfl) (by omega) (by omega)
  simp only [vapp] at hdec1
  have hr1 := length_le_encRecs (recordsOf wz 1 fs vs)
  obtain ⟨ws, hdec2, hagr⟩ := decode_fieldsR fs fs vs us wz .nil [] (f - (recordsOf wz 1 fs vs).length) 1 rfl
    hty.1 hv hne hty.2 (by simp) (by intro n _; rfl) hrel (by omega) (by omega)
  simp only [vapp] at hdec2
  have hdec : decodeRecs f fs (allRecords wz fs vs) (Spec.Protobuf.zeroFields fs) = some ws := by
    rw [allRecords, decodeRecs_append fs _ _ f _ us hdec1, hdec2]
  exact ⟨ws, decodeMsg_of fs _ _ _ ws f (parse_encRecs_len _ (allRecords_ok fs vs wz hty.1 hv hlen)) hdec, hagr⟩

theorem marshal_struct (fs : Fields) (v : Val) :
    marshal (.struct fs) v = encode (.struct (fieldsOf 1 fs)) v { toplevel := true, inline := true } := by
  simp only [marshal, codecOf]

/-- **C12, value level, scalar messages** (literal equality).  Universe: message types whose fields are bool /
integer (`int int32 int64 uint uint32 uint64`; plain, zigzag32/64 on signed, fixed32/64 on `uint32/uint64`,
sfixed32/64 = fixed32/64 on `int32/int64`) / `float32 float64` / `string` / `[]byte` / nested messages of the same kind.
The reference decoder maps the bytes
`Marshal` produces back to the very same value.

Hypotheses: `tyOK` (type in the universe; struct tags read alike by both sides; field numbers 1…65535, distinct),
`plainTy` (no optional, no repeated fields), `hasType` (value of that type, integers in range), output shorter than
2^64 bytes. -/
theorem decode_marshal_scalar (fs : Fields) (v : Val)
    (hty : tyOK (.struct fs) = true) (hpl : plainTy (.struct fs) = true) (hv : hasType (.struct fs) v = true)
    (hlen : (marshal (.struct fs) v).length < 2 ^ 64) :
    Spec.Protobuf.decode (.struct fs) (marshal (.struct fs) v) = some v := by
  cases v <;> simp only [hasType] at hv <;> try (exact absurd hv (by decide))
  rename_i vs
  rw [marshal_struct] at hlen ⊢
  have hb := struct_bytes fs vs { toplevel := true, inline := true } hty hv rfl hlen
  rw [hb] at hlen ⊢
  simp only [plainTy] at hpl
  obtain ⟨ws, hdec, hagr⟩ := decodeMsg_records fs vs false
    (4 * (encRecs (allRecords false fs vs)).length + 16) hty hv (noEmptyPtrs_of_plain _ _ hpl) hlen (by omega)
  simp only [Spec.Protobuf.decode, deref, hdec, wrapPtr]
  rw [hagr.2 rfl hpl]
  rfl

/-- the same in the form the harness compares (`canonical` on both sides) -/
theorem decode_marshal_scalar_canonical (fs : Fields) (v : Val)
    (hty : tyOK (.struct fs) = true) (hpl : plainTy (.struct fs) = true) (hv : hasType (.struct fs) v = true)
    (hlen : (marshal (.struct fs) v).length < 2 ^ 64) :
    (Spec.Protobuf.decode (.struct fs) (marshal (.struct fs) v)).map (canonical (.struct fs))
      = some (canonical (.struct fs) v) := by
  rw [decode_marshal_scalar fs v hty hpl hv hlen]; rfl

/-- **C12, value level, with optional and repeated fields** (equality up to `canonical`, as the harness compares).
Universe: as `decode_marshal_scalar`, plus fields `*T` (`T` bool / integer / float / string / message; the tag
options of `T` carry over, incl. fixed32/fixed64 on `*uint32/*uint64/*int32/*int64/*float32/*float64` = `pointersTo`) and `[]T`
(`T` bool / integer / float / string / `[]byte` / message), nested arbitrarily through messages.

`_partial`: still excluded
  * known defects: `noEmptyPtr` (a set pointer whose pointee writes nothing: class protoPtrToEmptyEncoding);
    zigzag/fixed tags on repeated fields (class protoRepeatedZigzagOrFixed, in `optOK`); field numbers ≥ 65536
    (class protoFieldNumberUint16, in `tagAgree`); `[]*T` (class protoNilPtrInCollection, not in `tyOK`);
  * not attempted: maps, byte arrays, `*[]byte`, `*[]T`, `[][]T`, pointers to pointers, named types, `RawMessage`,
    packed repeated scalars (the encoder never packs). -/
theorem decode_marshal_partial (fs : Fields) (v : Val)
    (hty : tyOK (.struct fs) = true) (hv : hasType (.struct fs) v = true) (hne : noEmptyPtr (.struct fs) v = true)
    (hlen : (marshal (.struct fs) v).length < 2 ^ 64) :
    (Spec.Protobuf.decode (.struct fs) (marshal (.struct fs) v)).map (canonical (.struct fs))
      = some (canonical (.struct fs) v) := by
  cases v <;> simp only [hasType] at hv <;> try (exact absurd hv (by decide))
  rename_i vs
  rw [marshal_struct] at hlen ⊢
  have hb := struct_bytes fs vs { toplevel := true, inline := true } hty hv rfl hlen
  rw [hb] at hlen ⊢
  simp only [noEmptyPtr] at hne
  obtain ⟨ws, hdec, hagr⟩ := decodeMsg_records fs vs false
    (4 * (encRecs (allRecords false fs vs)).length + 16) hty hv hne hlen (by omega)
  simp only [Spec.Protobuf.decode, deref, hdec, wrapPtr]
  exact congrArg some (Agr.struct hagr).1

/-- **C12, value level, message passed by pointer** (`proto.Marshal(&msg)`, the usual call): top-level type
`*struct{…}`, value a non-nil pointer.  Same universe and exclusions as `decode_marshal_partial`; here the encoder
runs the struct under `wantzero`, so the first non-repeated field is written even when zero. -/
theorem decode_marshal_ptrmsg_partial (fs : Fields) (v : Val)
    (hty : tyOK (.ptr (.struct fs)) = true) (hv : hasType (.ptr (.struct fs)) (.ptr v) = true)
    (hne : noEmptyPtr (.ptr (.struct fs)) (.ptr v) = true)
    (hlen : (marshal (.ptr (.struct fs)) (.ptr v)).length < 2 ^ 64) :
    (Spec.Protobuf.decode (.ptr (.struct fs)) (marshal (.ptr (.struct fs)) (.ptr v))).map
        (canonical (.ptr (.struct fs)))
      = some (canonical (.ptr (.struct fs)) (.ptr v)) := by
  simp only [tyOK, ptrTarget, Bool.true_and] at hty
  simp only [hasType] at hv
  cases v <;> simp only [hasType] at hv <;> try (exact absurd hv (by decide))
  rename_i vs
  have hm : marshal (.ptr (.struct fs)) (.ptr (.struct vs))
      = encode (.struct (fieldsOf 1 fs)) (.struct vs) { toplevel := true, inline := false, wantzero := true } := by
    simp only [marshal, codecOf, encode]
  rw [hm] at hlen ⊢
  have hb := struct_bytes fs vs { toplevel := true, inline := false, wantzero := true } (by simpa [tyOK] using hty)
    hv rfl hlen
  rw [hb] at hlen ⊢
  simp only [noEmptyPtr, Bool.and_eq_true] at hne
  obtain ⟨ws, hdec, hagr⟩ := decodeMsg_records fs vs true
    (4 * (encRecs (allRecords true fs vs)).length + 16) (by simpa [tyOK] using hty) hv hne.2 hlen (by omega)
  simp only [Spec.Protobuf.decode, deref, hdec, wrapPtr]
  exact congrArg some (Agr.ptr (wz := false) (Agr.struct hagr)).1


/-! ## non-vacuity -/

/-- `decode_marshal_scalar` on the two-level example of `ProtoWireRec` -/
example : Spec.Protobuf.decode (.struct exFields) (marshal (.struct exFields) (.struct exVals)) = some (.struct exVals) := by
  have hm : (lookupProtobuf "").bind parseStructTag = none := modelTag_empty
  have hc : fieldsOf 1 exFields = exCodec := by
    simp [exFields, exInner, exCodec, fieldsOf, hm, fieldCodecOf, codecOf, isStructBase, embBase, baseTy]
  apply decode_marshal_scalar
  · simp [tyOK, fieldsOK, exFields, exInner, tagAgree_empty, fieldNums, fieldOpt_empty, supportedKind]
  · decide
  · decide
  · rw [marshal_struct, hc]; decide

/-- a message with optional and repeated fields: `*int32` set to 0, `*string` nil, `*Inner` set, `[]byte` empty
non-nil, `[]int64{0,-1}`, `[]Inner{{}, {3,"x"}}`, `[]string` empty non-nil -/
def exPFields : Fields :=
  .cons "A" "" false (.ptr (.int .i32)) (.cons "B" "" false (.ptr .str) (.cons "C" "" false (.ptr (.struct exInner))
    (.cons "D" "" false .bytes (.cons "E" "" false (.slice (.int .i64)) (.cons "F" "" false (.slice (.struct exInner))
      (.cons "G" "" false (.slice .str) .nil))))))
def exPVals : Vals :=
  .cons (.ptr (.int 0)) (.cons .nil (.cons (.ptr (.struct (.cons (.int 0) (.cons (.str [104]) .nil))))
    (.cons (.str []) (.cons (.list (.cons (.int 0) (.cons (.int (-1)) .nil)))
      (.cons (.list (.cons (.struct (.cons (.int 0) (.cons (.str []) .nil)))
        (.cons (.struct (.cons (.int 3) (.cons (.str [120]) .nil))) .nil)))
        (.cons (.list .nil) .nil))))))
def exPCodec : CFields :=
  .cons 1 false false false (.ptr .int32) (.cons 2 false false false (.ptr .string)
    (.cons 3 true false false (.ptr (.struct (.cons 1 false false false .int32 (.cons 2 false false false .string .nil))))
      (.cons 4 false false false .bytes
        (.cons 5 false true false (.slice .int64 5 .varint false)
          (.cons 6 true true false
            (.slice (.struct (.cons 1 false false false .int32 (.cons 2 false false false .string .nil))) 6 .varlen true)
            (.cons 7 false true false (.slice .string 7 .varlen false) .nil))))))

/-- `decode_marshal_partial` applies to it -/
example : (Spec.Protobuf.decode (.struct exPFields) (marshal (.struct exPFields) (.struct exPVals))).map
      (canonical (.struct exPFields)) = some (canonical (.struct exPFields) (.struct exPVals)) := by
  have hm : (lookupProtobuf "").bind parseStructTag = none := modelTag_empty
  have hc : fieldsOf 1 exPFields = exPCodec := by
    simp [exPFields, exInner, exPCodec, fieldsOf, hm, fieldCodecOf, codecOf, isStructBase, embBase, baseTy, Codec.wire]
  apply decode_marshal_partial
  · simp [tyOK, fieldsOK, exPFields, exInner, tagAgree_empty, fieldNums, fieldOpt_empty, supportedKind, ptrTarget,
      elemTy, isPtr, isSlice]
  · decide
  · simp [noEmptyPtr, noEmptyPtrs, noEmptyPtrList, exPFields, exPVals, exInner, payload, recordsOf, recordsR,
      fieldOpt_empty, intWire, encRec, IntKind.signed]
  · rw [marshal_struct, hc]; decide

end Enc.Lemmas.ProtoWire
