import Enc.Model.Json.CodecChoiceDec
import Enc.Spec.Json.StdCodecChoiceDec
import Enc.Lemmas.JsonCodecChoiceDecTerm
/-!
# The model's decoder choice against encoding/json's rule (`indirect`, `d.object`, `literalStore`): the local steps,
and the theorem on the fragment without struct kinds and named composite types
-/
set_option linter.unusedSimpArgs false
namespace Enc.Lemmas.JsonCodecChoiceDecStd
open Enc.Model.Json.CodecChoice Enc.Spec.Json.StdCodecChoiceDec

theorem implPtrU_not_struct (env : Env) (m : Meth) (t : TD) (h : ∀ fs, t ≠ .struct fs) :
    implPtrU env m t = implPtr env m t := by
  cases t <;> simp [implPtrU]
  exact absurd rfl (h _)

/-- only defined types (and the special types) have methods -/
theorem implPtr_unnamed (env : Env) (m : Meth) (t : TD) (hr : isRef t = false) (hs : ∀ s, t ≠ .special s) :
    implPtr env m t = false := by
  cases t <;> simp [isRef] at hr <;> (try exact absurd rfl (hs _)) <;>
    cases m <;> simp [implPtr, declared, noMeths, Meths.get]

/-- **Order of the unmarshaler checks.** constructCodec asks `reflect.PointerTo(t)` for UnmarshalJSON, then for
UnmarshalText, whatever `t` is; `indirect` asks the address of a value for Unmarshaler, then TextUnmarshaler — but takes
the address only of a value of a NAMED type (or meets it as the target of a pointer). Same decoder for every type that is
not an unnamed struct (unnamed types of the other kinds have no methods), and for every pointer target. -/
theorem unmarshaler_order_eq_std (env : Env) (t : TD) (v : Bool) (c : DChoice) (ho : isOpaqueD t = false)
    (h : v = true ∨ ∀ fs, t ≠ .struct fs) :
    unmarshalerOverride env t c = (stdUnm env t v).getD c := by
  unfold unmarshalerOverride stdUnm
  simp only [ho]
  by_cases hv : (v || isRef t) = true
  · simp only [hv, if_true]
    cases implPtrU env .uj t <;> cases implPtrU env .ut t <;> simp
  · have hv' : v = false ∧ isRef t = false := by simpa using hv
    have hns : ∀ fs, t ≠ .struct fs := by
      rcases h with h | h
      · simp [hv'.1] at h
      · exact h
    have hsp : ∀ s, t ≠ .special s := by
      intro s hs; subst hs; simp [isOpaqueD] at ho
    rw [implPtrU_not_struct _ _ _ hns, implPtrU_not_struct _ _ _ hns, implPtr_unnamed _ _ _ hv'.2 hsp,
      implPtr_unnamed _ _ _ hv'.2 hsp]
    simp [hv'.1, hv'.2]

theorem firstSwitchD_none_not_opaque (t : TD) (h : firstSwitchD t = none) : isOpaqueD t = false := by
  unfold firstSwitchD at h
  unfold isOpaqueD
  split at h <;> simp_all

/-! ## The fragment without struct kinds and without named slice/array/map/pointer types -/

def SimpleD (env : Env) : TD → Bool
  | .slice e | .array _ e | .ptr e => SimpleD env e
  | .map k v => SimpleD env k && SimpleD env v
  | .struct _ => false
  | .ref id =>
    (match under env (.ref id) with
      | .prim _ | .any _ | .iface .. => true
      | _ => false)
  | _ => true

/-- a key type with BOTH `(*K).UnmarshalJSON` and `(*K).UnmarshalText` is decoded with UnmarshalText by segmentio and
with UnmarshalJSON by encoding/json (finding `jsonDecMapKeyPrefersUnmarshalText`) -/
def keyOKD (env : Env) (k : TD) : Bool := !(implPtrU env .uj k && implPtrU env .ut k)

def KeysOKD (env : Env) : TD → Bool
  | .slice e | .array _ e | .ptr e => KeysOKD env e
  | .map k v => keyOKD env k && KeysOKD env k && KeysOKD env v
  | _ => true

theorem mapKey_sem (env : Env) (k : TD) (hk : keyOKD env k = true) : mapKeyDec env k = stdKeyDec env k := by
  unfold mapKeyDec stdKeyDec
  unfold keyOKD at hk
  simp only
  cases implT env .mt k <;> cases hu : implPtrU env .ut k <;> cases hj : implPtrU env .uj k <;> simp_all

theorem stdDecD_zero (env : Env) (t : TD) (v : Bool) : stdDecD 0 env t v = .cut := by simp [stdDecD]
theorem expandDN_zero (env : Env) (T : DSeen) (c : DChoice) : expandDN 0 env T c = .cut := by simp [expandDN]

theorem stdDecD_succ (env : Env) (d : Nat) (t : TD) (v : Bool) (h : isOpaqueD t = false) :
    stdDecD (d + 1) env t v =
      match stdUnm env t v with
      | some m => m
      | none =>
        match under env t with
        | .prim .chan | .prim .complex => .unsupported
        | .prim k => .prim k
        | .any _ | .iface .. => ifaceLabel t
        | .slice e =>
          if under env e == .prim .uint8 && !implPtr env .uj e && !implPtr env .ut e then .bytes
          else .slice (stdDecD d env e false)
        | .array n e => .array n (stdDecD d env e false)
        | .ptr (.special s) => .ptr (.special s)
        | .ptr e => .ptr (stdDecD d env e true)
        | .map k v =>
          (match stdKeyDec env k with
            | none => .unsupported
            | some kc => .map kc (stdDecD d env v false))
        | .struct fs =>
          .struct (stdFieldsDecWith (fun ft => stdDecD d env ft false) (stdQuotedInner env)
            (stdEmbeddedDec (fun ft => stdDecD d env ft false) (stdQuotedInner env) env d
              (embedFuelD env t) [t]) env d fs)
        | _ => .unsupported := by
  rw [stdDecD]; simp only [h]; rfl

theorem stdUnm_unnamed (env : Env) (t : TD) (v : Bool) (hr : isRef t = false) (hs : ∀ fs, t ≠ .struct fs) :
    stdUnm env t v = none := by
  unfold stdUnm
  by_cases ho : isOpaqueD t = true
  · simp [ho]
  · have hsp : ∀ s, t ≠ .special s := by
      intro s hs'; subst hs'; simp [isOpaqueD] at ho
    rw [implPtrU_not_struct _ _ _ hs, implPtrU_not_struct _ _ _ hs, implPtr_unnamed _ _ _ hr hsp,
      implPtr_unnamed _ _ _ hr hsp]
    simp

/-- the five types of the first switch: the dedicated decoder is what the specification's rule gives -/
theorem firstSwitchD_sem (env : Env) (t : TD) (v : Bool) (c0 : DChoice) (h : firstSwitchD t = some c0) (d : Nat)
    (T : DSeen) : expandDN d env T (normD c0) = stdDecD d env t v := by
  cases d with
  | zero => simp [expandDN, stdDecD]
  | succ d =>
    unfold firstSwitchD at h
    split at h <;> simp at h <;> subst h
    · simp [normD, expandDN, resolveD, stdDecD, isOpaqueD, opaqueD]
    · simp [normD, expandDN, resolveD, stdDecD, isOpaqueD, opaqueD]
    · -- []byte
      rw [stdDecD_succ _ _ _ _ (by simp [isOpaqueD])]
      rw [stdUnm_unnamed _ _ _ (by simp [isRef]) (by intro fs; simp)]
      simp [normD, expandDN, resolveD, under, implPtr, declared, noMeths, Meths.get, isPtrKind, isIfaceKind]
    · -- interface{}
      rw [stdDecD_succ _ _ _ _ (by simp [isOpaqueD])]
      rw [stdUnm_unnamed _ _ _ (by simp [isRef]) (by intro fs; simp)]
      simp [normD, expandDN, resolveD, under, ifaceLabel]
    · simp [normD, expandDN, resolveD, stdDecD, isOpaqueD, opaqueD]

theorem prim_sem (env : Env) (k : Kind) (d : Nat) (T : DSeen) (v : Bool) (h1 : k ≠ .chan) (h2 : k ≠ .complex) :
    expandDN d env T (.prim k) = stdDecD d env (.prim k) v := by
  cases d with
  | zero => simp [expandDN, stdDecD]
  | succ d =>
    rw [stdDecD_succ _ _ _ _ (by simp [isOpaqueD])]
    rw [stdUnm_unnamed _ _ _ (by simp [isRef]) (by intro fs; simp)]
    cases k <;> simp [expandDN, resolveD, under] at h1 h2 ⊢

theorem fast_sem (env : Env) (v : TD) (vc : DChoice) (h : fastMapValueD v = some vc) (d : Nat) (T : DSeen) :
    expandDN d env T (normD vc) = stdDecD d env v false := by
  unfold fastMapValueD at h
  split at h <;> simp at h <;> subst h
  · exact firstSwitchD_sem env _ false .iface (by simp [firstSwitchD]) d T
  · exact firstSwitchD_sem env _ false _ (by simp [firstSwitchD]) d T
  · simpa [normD] using prim_sem env .string d T false (by simp) (by simp)
  · cases d with
    | zero => simp [expandDN, stdDecD]
    | succ d =>
      rw [stdDecD_succ _ _ _ _ (by simp [isOpaqueD])]
      rw [stdUnm_unnamed _ _ _ (by simp [isRef]) (by intro fs; simp)]
      have hin := prim_sem env .string d T false (by simp) (by simp)
      simp [normD, expandDN, resolveD, under, hin]
  · simpa [normD] using prim_sem env .bool d T false (by simp) (by simp)

theorem prim_not_opaque (env : Env) (e : TD) (p : Kind) (hu : under env e = .prim p) : isOpaqueD e = false := by
  cases e <;> simp [under] at hu <;> simp [isOpaqueD]

/-- a type of a kind without structure is a predeclared type or a defined type -/
theorem prim_cases (env : Env) (e : TD) (p : Kind) (hu : under env e = .prim p) : e = .prim p ∨ ∃ id, e = .ref id := by
  cases e <;> simp [under] at hu
  · left; rw [hu]
  · right; exact ⟨_, rfl⟩

/-- the decoder of a value of a kind without structure (methods: only on a defined type) -/
theorem stdDecD_prim (env : Env) (e : TD) (p : Kind) (hu : under env e = .prim p) (d : Nat) (v : Bool) :
    stdDecD (d + 1) env e v =
      (if implPtr env .uj e then DChoice.uj else if implPtr env .ut e then .ut
       else (match p with | .chan | .complex => .unsupported | p => .prim p)) := by
  rw [stdDecD_succ _ _ _ _ (prim_not_opaque env e _ hu)]
  rcases prim_cases env e p hu with rfl | ⟨id, rfl⟩
  · rw [stdUnm_unnamed _ _ _ (by simp [isRef]) (by intro fs; simp)]
    rw [implPtr_unnamed _ _ _ (by simp [isRef]) (by intro s; simp), implPtr_unnamed _ _ _ (by simp [isRef]) (by intro s; simp)]
    simp only [hu]
    cases p <;> simp
  · simp only [stdUnm, isOpaqueD, isRef, Bool.or_true, if_true, Bool.false_eq_true, if_false]
    rw [implPtrU_not_struct _ _ _ (by intro fs; simp), implPtrU_not_struct _ _ _ (by intro fs; simp)]
    simp only [hu]
    cases implPtr env .uj (.ref id) <;> cases implPtr env .ut (.ref id) <;> simp
    cases p <;> simp

/-- `[]E` with `E.Kind() == Uint8`: decodeBytes unless the pointer to the element has an unmarshaling method -/
theorem byteSlice_sem (env : Env) (e : TD) (hu : under env e = .prim .uint8) (d : Nat) (T : DSeen) :
    expandDN (d + 1) env T (normD (byteSliceDec env e)) =
      if under env e == .prim .uint8 && !implPtr env .uj e && !implPtr env .ut e then .bytes
      else .slice (stdDecD d env e false) := by
  unfold byteSliceDec
  simp only [hu, beq_self_eq_true, Bool.true_and]
  cases d with
  | zero =>
    cases implPtr env .uj e <;> cases implPtr env .ut e <;> simp [normD, expandDN, resolveD, stdDecD]
  | succ d' =>
    rw [stdDecD_prim env e _ hu]
    cases implPtr env .uj e <;> cases implPtr env .ut e <;> simp [normD, expandDN, resolveD]

theorem stdUnm_leaf (env : Env) (t : TD) (v : Bool) (m : DChoice) (h : stdUnm env t v = some m) :
    m = .uj ∨ m = .ut := by
  unfold stdUnm at h
  split at h
  · cases h
  · split at h
    · split at h
      · simp at h; simp [← h]
      · split at h
        · simp at h; simp [← h]
        · cases h
    · cases h

/-- only the special types themselves get the decoder of a special type -/
theorem stdDecD_one_not_special (env : Env) (e : TD) (v : Bool) (he : ∀ s, e ≠ .special s) :
    ∀ s, stdDecD 1 env e v ≠ .special s := by
  by_cases ho : isOpaqueD e = true
  · cases e <;> simp [isOpaqueD] at ho
    · simp [stdDecD, isOpaqueD, opaqueD]
    · exact absurd rfl (he _)
    · rename_i x; cases x <;> simp [isOpaqueD] at ho
      simp [stdDecD, isOpaqueD, opaqueD]
  · have ho' : isOpaqueD e = false := by simpa using ho
    rw [stdDecD_succ _ _ _ _ ho']
    cases hm : stdUnm env e v with
    | some m => rcases stdUnm_leaf env e v m hm with rfl | rfl <;> simp
    | none =>
      simp only
      split <;> (try split) <;> (try split) <;> (try unfold ifaceLabel) <;> (try split) <;> simp

theorem expandDN_ptr (env : Env) (T : DSeen) (d : Nat) (x : DChoice) (h1 : ∀ s, x ≠ .special s) :
    expandDN (d + 1) env T (.ptr x) = .ptr (expandDN d env T x) := by
  cases x <;> simp [expandDN, resolveD]
  exact absurd rfl (h1 _)

theorem expandDN_one_special (env : Env) (T : DSeen) (s : Special) : expandDN 1 env T (.special s) = .special s := by
  simp [expandDN, resolveD]

abbrev IH (env : Env) (f : Nat) : Prop :=
  ∀ t a s c s', codecDecF f env t a s = some (c, s') → SimpleD env t = true → KeysOKD env t = true →
    ∀ d T v, expandDN d env T (normD c) = stdDecD d env t v

theorem under_ref_ne (env : Env) (id id' : Nat) : under env (.ref id) ≠ .ref id' := by
  unfold under
  cases hl : env.lookup id with
  | none => simp [hl]
  | some d => cases hd : d.under <;> simp [hl, hd]

theorem not_special_of_firstSwitchD_ptr (e : TD) (h : firstSwitchD (.ptr e) = none) : ∀ s, e ≠ .special s := by
  intro s hs; subst hs; simp [firstSwitchD] at h

theorem normD_key (env : Env) (k : TD) (kc : DChoice) (h : stdKeyDec env k = some kc) : normD kc = kc := by
  unfold stdKeyDec at h
  simp only at h
  split at h
  · split at h <;> simp at h <;> subst h <;> simp [normD]
  · split at h
    · simp at h; subst h; simp [normD]
    · split at h
      · simp at h; subst h; simp [normD]
      · cases h

/-- the kind switch of `constructCodec` (decode half) against the kind rule of encoding/json, children by induction -/
theorem kind_sem (env : Env) (f : Nat) (ih : IH env f) (t : TD) (a : Bool) (s s1 : DSeen) (c1 : DChoice)
    (hfs : firstSwitchD t = none) (hs : SimpleD env t = true) (hk : KeysOKD env t = true) (v : Bool)
    (hm : stdUnm env t v = none)
    (h : kindDecF (codecDecF f env) (structDecF f env) env t (under env t) a s = some (c1, s1)) (d : Nat) (T : DSeen) :
    expandDN (d + 1) env T (normD c1) = stdDecD (d + 1) env t v := by
  rw [stdDecD_succ _ _ _ _ (firstSwitchD_none_not_opaque t hfs)]
  simp only [hm]
  rcases Enc.Lemmas.JsonCodecChoiceTerm.under_cases env t with hu | ⟨id, rfl⟩
  · -- an unnamed type
    cases t with
    | nil => simp [firstSwitchD] at hfs
    | special _ => simp [firstSwitchD] at hfs
    | any _ => simp [firstSwitchD] at hfs
    | ref id => exact absurd hu (under_ref_ne env id id)
    | struct _ => simp [SimpleD] at hs
    | prim k =>
      rw [hu] at h; simp only [hu]
      cases k <;> simp [kindDecF] at h <;> rw [← h.1] <;> simp [normD, expandDN, resolveD]
    | iface _ _ _ =>
      rw [hu] at h; simp only [hu]
      simp [kindDecF] at h; rw [← h.1]; simp [normD, expandDN, resolveD, ifaceLabel]
    | array n e =>
      rw [hu] at h; simp only [hu]
      simp only [SimpleD, KeysOKD] at hs hk
      simp only [kindDecF] at h
      cases hc : codecDecF f env e a s with
      | none => simp [hc] at h
      | some r =>
        obtain ⟨ce, s2⟩ := r
        simp [hc] at h; rw [← h.1]
        simp [normD, expandDN, resolveD, ih e a s ce s2 hc hs hk d T false]
    | ptr e =>
      rw [hu] at h; simp only [hu]
      simp only [SimpleD, KeysOKD] at hs hk
      simp only [kindDecF] at h
      have hne := not_special_of_firstSwitchD_ptr e hfs
      cases hc : codecDecF f env e true s with
      | none => simp [hc] at h
      | some r =>
        obtain ⟨ce, s2⟩ := r
        simp [hc] at h; rw [← h.1]
        have h1 := ih e true s ce s2 hc hs hk 1 T true
        have hns := stdDecD_one_not_special env e true hne
        have hx1 : ∀ s', normD ce ≠ .special s' := by
          intro s' hcs; rw [hcs, expandDN_one_special] at h1; exact hns s' h1.symm
        simp only [normD]
        rw [expandDN_ptr env T d _ hx1, ih e true s ce s2 hc hs hk d T true]
        try (cases e <;> first | rfl | exact absurd rfl (hne _))
    | slice e =>
      rw [hu] at h; simp only [hu]
      simp only [SimpleD, KeysOKD] at hs hk
      simp only [kindDecF] at h
      by_cases hb : (under env e == .prim .uint8) = true
      · simp only [hb, if_true] at h
        simp at h; rw [← h.1]
        have hu8 : under env e = .prim .uint8 := by simpa using hb
        exact byteSlice_sem env e hu8 d T
      · have hb' : (under env e == .prim .uint8) = false := by simpa using hb
        simp only [hb', Bool.false_eq_true, if_false, Bool.false_and] at h ⊢
        cases hc : codecDecF f env e true s with
        | none => simp [hc] at h
        | some r =>
          obtain ⟨ce, s2⟩ := r
          simp [hc] at h; rw [← h.1]
          simp [normD, expandDN, resolveD, ih e true s ce s2 hc hs hk d T false]
    | map k v' =>
      rw [hu] at h; simp only [hu]
      simp only [SimpleD, KeysOKD, Bool.and_eq_true] at hs hk
      simp only [kindDecF] at h
      cases hfast : (if k == .prim .string then fastMapValueD v' else none) with
      | some vc =>
        simp only [hfast] at h
        simp at h; rw [← h.1]
        have hkstr : k = .prim .string := by
          by_cases hk' : (k == .prim .string) = true
          · simpa using hk'
          · simp [hk'] at hfast
        subst hkstr
        have hfv : fastMapValueD v' = some vc := by simpa using hfast
        have hkey : stdKeyDec env (.prim .string) = some (.prim .string) := by
          simp [stdKeyDec, implPtrU, implPtr, declared, noMeths, Meths.get, under, isStringKind]
        simp [normD, expandDN, resolveD, hkey, fast_sem env v' vc hfv d T]
      | none =>
        simp only [hfast] at h
        cases hc : codecDecF f env v' false s with
        | none => simp [hc] at h
        | some r =>
          obtain ⟨vc, s2⟩ := r
          simp only [hc] at h
          rw [← mapKey_sem env k hk.1.1]
          cases hkey : mapKeyDec env k with
          | none =>
            simp [hkey] at h; rw [← h.1]
            simp [normD, expandDN, resolveD]
          | some kc =>
            simp [hkey] at h; rw [← h.1]
            have hkc : normD kc = kc := normD_key env k kc (by rw [← mapKey_sem env k hk.1.1]; exact hkey)
            simp [normD, hkc, expandDN, resolveD, ih v' false s vc s2 hc hs.2 hk.2 d T false]
  · -- a defined type of a kind without structure
    simp only [SimpleD] at hs
    cases hu : under env (.ref id) <;> simp [hu] at hs <;> simp only [hu] at h ⊢
    · rename_i k
      cases k <;> simp [kindDecF] at h <;> rw [← h.1] <;> simp [normD, expandDN, resolveD]
    · simp [kindDecF] at h; rw [← h.1]; simp [normD, expandDN, resolveD, ifaceLabel]
    · simp [kindDecF] at h; rw [← h.1]; simp [normD, expandDN, resolveD, ifaceLabel]

theorem simple_not_named (env : Env) (t : TD) (hs : SimpleD env t = true) :
    (isRef t && isComposite (under env t)) = false := by
  cases t <;> simp [isRef]
  rename_i id
  simp only [SimpleD] at hs
  cases hu : under env (.ref id) <;> simp [hu] at hs <;> simp [isComposite]

theorem simple_not_struct (env : Env) (t : TD) (hs : SimpleD env t = true) : ∀ fs, t ≠ .struct fs := by
  intro fs h; subst h; simp [SimpleD] at hs

theorem simple_sem (env : Env) : ∀ f, IH env f := by
  intro f
  induction f with
  | zero => intro t a s c s' h; simp [codecDecF] at h
  | succ f ih =>
    intro t a s c s' h hs hk d T v
    rw [codecDecF] at h
    cases hfs : firstSwitchD t with
    | some c0 =>
      simp [hfs] at h
      rw [← h.1]
      exact firstSwitchD_sem env t v c0 hfs d T
    | none =>
      simp only [hfs, simple_not_named env t hs, Bool.false_and, Bool.false_eq_true, if_false] at h
      cases hkf : kindDecF (codecDecF f env) (structDecF f env) env t (under env t) a s with
      | none => simp [hkf] at h
      | some r =>
        obtain ⟨c1, s1⟩ := r
        simp [hkf] at h
        rw [← h.1, unmarshaler_order_eq_std env t v c1 (firstSwitchD_none_not_opaque t hfs)
          (Or.inr (simple_not_struct env t hs))]
        cases d with
        | zero => simp [expandDN, stdDecD]
        | succ d =>
          cases hm : stdUnm env t v with
          | some m =>
            rw [stdDecD_succ _ _ _ _ (firstSwitchD_none_not_opaque t hfs)]
            simp only [hm, Option.getD]
            rcases stdUnm_leaf env t v m hm with rfl | rfl <;> simp [normD, expandDN, resolveD]
          | none =>
            simp only [Option.getD]
            exact kind_sem env f ih t a s s1 c1 hfs hs hk v hm hkf d T

/-- **chooseDec_eq_std on the fragment without struct kinds and named composite types** (and without a map key type
that has both unmarshaling methods): every depth, both values of `canAddr`, both ways of reaching the value -/
theorem chooseDec_eq_std_simple (env : Env) (t : TD) (a v : Bool) (hs : SimpleD env t = true)
    (hk : KeysOKD env t = true) (d : Nat) :
    expandDecD d env (chooseDec env t a).2 (chooseDec env t a).1 = stdDecD d env t v := by
  unfold expandDecD
  exact simple_sem env _ t a [] _ _ (Enc.Lemmas.JsonCodecChoiceDecTerm.chooseDec_eq env t a) hs hk d _ v

end Enc.Lemmas.JsonCodecChoiceDecStd

#print axioms Enc.Lemmas.JsonCodecChoiceDecStd.chooseDec_eq_std_simple
#print axioms Enc.Lemmas.JsonCodecChoiceDecStd.unmarshaler_order_eq_std
