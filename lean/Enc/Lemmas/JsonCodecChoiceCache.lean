import Enc.Model.Json.CodecChoice
/-!
# The shared codec cache does not influence what a call compiles (C09 for json/codec.go)
-/
namespace Enc.Lemmas.JsonCodecChoiceCache
open Enc.Model.Json.CodecChoice

/-- every entry is what `constructCachedCodec` builds for its key when it runs alone (with an empty cache) -/
def GoodCache (env : Env) (cache : Cache) : Prop :=
  ∀ t c, cache.lookup t = some c → c = construct env t

/-- the caches that sequences of calls (any types, any order) can leave behind -/
inductive Reachable (env : Env) : Cache → Prop
  | empty : Reachable env []
  | step (cache : Cache) (t : TD) : Reachable env cache → Reachable env (constructCachedCodec env t cache).2

theorem goodCache_nil (env : Env) : GoodCache env [] := by
  intro t c h; simp at h

theorem lookup_cons (t k : TD) (c : Choice) (cache : Cache) :
    List.lookup t ((k, c) :: cache) = if t = k then some c else cache.lookup t := by
  simp only [List.lookup]
  by_cases h : t = k
  · subst h; simp
  · have : (t == k) = false := by simpa using h
    simp [this, h]

theorem cached_empty (env : Env) (t : TD) : (constructCachedCodec env t []).1 = construct env t := by
  simp [constructCachedCodec]

theorem cache_history_independent (env : Env) (t : TD) (cache : Cache) (h : GoodCache env cache) :
    (constructCachedCodec env t cache).1 = (constructCachedCodec env t []).1 ∧
    GoodCache env (constructCachedCodec env t cache).2 := by
  rw [cached_empty]
  unfold constructCachedCodec
  cases hl : cache.lookup t with
  | some c => exact ⟨h t c hl, h⟩
  | none =>
    refine ⟨rfl, ?_⟩
    intro k c hk
    rw [lookup_cons] at hk
    by_cases hkt : k = t
    · subst hkt; simp at hk; exact hk.symm
    · simp [hkt] at hk; exact h k c hk

theorem reachable_good (env : Env) (cache : Cache) (h : Reachable env cache) : GoodCache env cache := by
  induction h with
  | empty => exact goodCache_nil env
  | step cache t _ ih => exact (cache_history_independent env t cache ih).2

/-- the cache after a sequence of calls of `Marshal` for values of the types `ts` (in this order) -/
def runCalls (env : Env) : List TD → Cache → Cache
  | [], cache => cache
  | t :: ts, cache => runCalls env ts (constructCachedCodec env t cache).2

theorem runCalls_reachable (env : Env) : ∀ (ts : List TD) (cache : Cache), Reachable env cache →
    Reachable env (runCalls env ts cache)
  | [], cache, h => h
  | t :: ts, cache, h => runCalls_reachable env ts _ (.step cache t h)

/-- **C09, in terms of sequences of calls**: whatever calls came before, the codec a call obtains is the codec it
obtains with a cold cache -/
theorem calls_history_independent (env : Env) (ts : List TD) (t : TD) :
    (constructCachedCodec env t (runCalls env ts [])).1 = (constructCachedCodec env t []).1 :=
  (cache_history_independent env t _ (reachable_good env _ (runCalls_reachable env ts [] .empty))).1

/-- the seeded mutation (`[]T` takes the element codec from the shared cache): T = a struct with (*T).MarshalJSON,
marshalled first — its entry was built for a non-addressable top-level value, without the pointer-receiver method -/
def witnessEnv : Env := [(1, ⟨⟨.ptr, .none, .none, .none⟩, .struct (.cons "X" false false (.prim .int) .nil)⟩)]

theorem goodCache_of_cons (env : Env) (t : TD) (c : Choice) (cache : Cache) (hn : cache.lookup t = none)
    (h : GoodCache env ((t, c) :: cache)) : GoodCache env cache := by
  intro k c' hk
  apply h k c'
  rw [lookup_cons]
  by_cases hkt : k = t
  · subst hkt; rw [hn] at hk; cases hk
  · simp [hkt, hk]

end Enc.Lemmas.JsonCodecChoiceCache

namespace Enc.Lemmas.JsonCodecChoiceCache
open Enc.Model.Json.CodecChoice

/-- with the history "T first" the mutated construction compiles `[]T` without the pointer-receiver MarshalJSON … -/
theorem bad_after_T :
    (constructCachedCodecBad witnessEnv (.slice (.ref 1)) (constructCachedCodec witnessEnv (.ref 1) []).2).1
      = .slice (.struct (.cons "X" (.prim .int) (.prim .int) .nil)) := by decide +kernel

/-- … and with the empty history it compiles what the real code compiles: the result depends on the history -/
theorem bad_alone :
    (constructCachedCodecBad witnessEnv (.slice (.ref 1)) []).1 = .slice .mjAddr := by decide +kernel

theorem good_after_T :
    (constructCachedCodec witnessEnv (.slice (.ref 1)) (constructCachedCodec witnessEnv (.ref 1) []).2).1
      = .slice .mjAddr := by decide +kernel

end Enc.Lemmas.JsonCodecChoiceCache
