import Enc.Lemmas.ThriftPrim
import Enc.Spec.Thrift
/-!
C13, thrift: message headers after the fixes 6527322 (compact sequence id) and 3d53304 (binary ReadMessage EOF class).

  * `wMessage_compact_tail`     compact `WriteMessage`: everything after the two leading bytes — the sequence id as the
                                varint of its 32-bit two's complement (negative ids take 5 bytes, not 10), the name — is
                                what the specification prescribes; the second byte (type, no version bits) stays the
                                known finding `thrift-message-header`
  * `rMessage_wMessage_compact` `ReadMessage (WriteMessage m) = m` for every int32 sequence id, negative ones included
                                (before the fix a negative id was written sign-extended to 64 bits and rejected by the
                                reader's MaxInt32 bound)
  * `rMessage_compact_seq_bound` a sequence id varint above MaxUint32 is rejected
  * `rMessage_binary_cut_before_seq` binary strict header cut right before the sequence id: unexpected EOF, not EOF
-/
namespace Enc.Lemmas.ThriftMessage
open Enc Enc.Model.Thrift Enc.Lemmas.ThriftPrim

theorem uvarint_eq_leb128 (n : Nat) : uvarint n = Spec.Thrift.leb128 n := by
  induction n using Nat.strongRecOn with
  | _ n ih =>
    unfold uvarint Spec.Thrift.leb128
    split
    · rfl
    · rw [ih (n / 128) (by omega)]

theorem twos_eq_spec (i : Int) (bits : Nat) : twos i bits = Spec.Thrift.twos i bits := rfl

/-- **compact WriteMessage, modulo the known type/version byte**: protocol id 0x82, then one byte, then exactly the
specified rest (varint of the 32-bit two's complement of the sequence id, name length, name) — whatever message type
`k` the specification side is given -/
theorem wMessage_compact_tail (mt k : Nat) (name : Bytes) (seq : Int) :
    wMessage .compact mt name seq =
      0x82 :: UInt8.ofNat (mt % 256) :: (Spec.Thrift.message .compact k name seq).drop 2 := by
  simp [wMessage, Spec.Thrift.message, wBytes, wLength, uvarint_eq_leb128, twos_eq_spec]

/-- the header differs from the specified one exactly in the second byte -/
theorem wMessage_compact_head (mt : Nat) (name : Bytes) (seq : Int) :
    (wMessage .compact mt name seq).take 2 = [0x82, UInt8.ofNat (mt % 256)] ∧
    (Spec.Thrift.message .compact (mt + 1) name seq).take 2 = [0x82, UInt8.ofNat ((mt + 1) * 32 + 1)] := by
  constructor <;> simp [wMessage, Spec.Thrift.message]

theorem twos32_lt (i : Int) : twos i 32 < 2 ^ 32 := twos_lt i 32

/-- **compact round trip of the message header**, negative sequence ids included -/
theorem rMessage_wMessage_compact (mt : Nat) (hmt : mt < 256) (name : Bytes) (hn : name.length ≤ 2147483647)
    (seq : Int) (hs : -2 ^ 31 ≤ seq ∧ seq < 2 ^ 31) (rest : Bytes) :
    rMessage .compact (wMessage .compact mt name seq ++ rest) =
      .ok ({ mtype := mt % 8, name := name, seq := seq }, rest) := by
  have h32 := twos32_lt seq
  have hmod : mt % 256 = mt := Nat.mod_eq_of_lt hmt
  simp only [wMessage, rMessage, List.cons_append, List.nil_append, List.append_assoc, rByte, Res.bind, hmod]
  have e0 : ((130 : UInt8).toNat != 130) = false := by decide
  simp only [e0, Bool.false_eq_true, if_false, dontExpectEOF_ok, toNat_ofNat_lt mt hmt]
  rw [readUvarint_uvarint (twos seq 32) (by omega)]
  have hle : ¬ twos seq 32 > 4294967295 := by omega
  simp only [Res.bind, hle, if_false, dontExpectEOF_ok]
  rw [rBytes_wBytes .compact name hn rest]
  simp only [dontExpectEOF_ok, toSigned_twos32 seq hs]

/-- a sequence id above MaxUint32 is rejected by the compact reader -/
theorem rMessage_compact_seq_bound (b1 : UInt8) (n : Nat) (hn : 4294967295 < n) (hn64 : n < 2 ^ 64) (rest : Bytes) :
    rMessage .compact (0x82 :: b1 :: (uvarint n ++ rest)) = .err "range" := by
  simp only [rMessage, rByte, Res.bind]
  have e0 : ((130 : UInt8).toNat != 130) = false := by decide
  simp only [e0, Bool.false_eq_true, if_false, dontExpectEOF_ok]
  rw [readUvarint_uvarint n hn64]
  have : n > 4294967295 := hn
  simp only [Res.bind, this, if_true]
  rfl

/-- binary strict header cut right before the sequence id (fix 3d53304): an unexpected EOF, never a plain EOF -/
theorem rMessage_binary_cut_before_seq (s : Bool) (mt : Nat) (name : Bytes) (hn : name.length ≤ 2147483647) :
    rMessage (.binary s) ([0x80, 0, 0, UInt8.ofNat (mt % 8)] ++ wBytes (.binary s) name) = .err "unexpectedEof" := by
  have hr : readN ([0x80, 0, 0, UInt8.ofNat (mt % 8)] ++ wBytes (.binary s) name) 4
      = .ok ([0x80, 0, 0, UInt8.ofNat (mt % 8)], wBytes (.binary s) name) := readN_append _ _ 4 rfl
  have hb : rBytes (.binary s) (wBytes (.binary s) name) = .ok (name, []) := by
    have := rBytes_wBytes (.binary s) name hn []
    simpa using this
  simp only [rMessage, hr, Res.bind]
  have : ¬ ([0x80, 0, 0, UInt8.ofNat (mt % 8)] : Bytes).headD 0 < 128 := by simp
  simp only [this, if_false, hb, dontExpectEOF_ok]
  rfl

/-- non-vacuity: seq = -1 round-trips; its header is the 5-byte varint ff ff ff ff 0f -/
example : wMessage .compact 0 [] (-1) = [0x82, 0, 0xff, 0xff, 0xff, 0xff, 0x0f, 0] := by decide +kernel

#print axioms wMessage_compact_tail
#print axioms rMessage_wMessage_compact
#print axioms rMessage_compact_seq_bound
#print axioms rMessage_binary_cut_before_seq

end Enc.Lemmas.ThriftMessage
