import Enc.Lemmas.ProtoTemplateSpecLeaf
import Enc.Lemmas.ProtoTemplateMulti
import Enc.Lemmas.ProtoWireRec
/-!
# The value-level specification of templates (`Spec.ProtoTemplate.tmplVal / tmplField / tmplElems / tmplEntries /
tmplFields / applyTemplate`) made usable POSITIONWISE and FUEL-FREE: unfolding equations, fuel monotonicity, the
positionwise inversion / construction of `tmplFields` and `tmplElems`, `tmplField` by field class, `applyTemplate` on a
plain struct type.
-/
namespace Enc.Lemmas.ProtoTemplate
open Enc Enc.Spec.Protobuf
open Enc.Model.Json (GV GVs GMs ITy)
open Enc.Model.Proto (Rule Rules)
open Enc.Spec.ProtoTemplate

/-! ### unfolding equations (all by `rfl`) -/

theorem tmplFields_zero (pf : PF) fs ms rules vs : tmplFields pf 0 fs ms rules vs = none := by
  cases fs <;> rfl
theorem tmplFields_nil (pf : PF) F ms rules vs : tmplFields pf (F+1) .nil ms rules vs = some .nil := by
  rfl
theorem tmplFields_cons_nil (pf : PF) F name tag e t rest ms rules : tmplFields pf (F+1) (.cons name tag e t rest) ms rules .nil = none := by
  rfl
theorem tmplFields_cons (pf : PF) F name tag e t rest ms rules v vs :
    tmplFields pf (F+1) (.cons name tag e t rest) ms rules (.cons v vs) =
      match (match lookup (fieldName name tag) ms with
        | none => some v
        | some j => tmplField pf F t j (findRule rules (fieldName name tag)) v), tmplFields pf F rest ms rules vs with
      | some a, some b => some (.cons a b)
      | _, _ => none := by
  rfl
theorem tmplElems_zero (pf : PF) et js rule : tmplElems pf 0 et js rule = none := by
  cases js <;> rfl
theorem tmplElems_nil (pf : PF) F et rule : tmplElems pf (F+1) et [] rule = some [] := by
  rfl
theorem tmplElems_cons (pf : PF) F et j js rule : tmplElems pf (F+1) et (j :: js) rule =
    match tmplVal pf F et j rule .nil, tmplElems pf F et js rule with
    | some v, some vs => some (v :: vs)
    | _, _ => none := by
  rfl
theorem tmplEntries_zero (pf : PF) kt vt ms : tmplEntries pf 0 kt vt ms = none := by
  cases ms <;> rfl
theorem tmplEntries_nil (pf : PF) F kt vt : tmplEntries pf (F+1) kt vt .nil = some .nil := by
  rfl
theorem tmplEntries_cons (pf : PF) F kt vt key j rest : tmplEntries pf (F+1) kt vt (.cons key j rest) =
    match keyOf kt key, tmplVal pf F vt j none .nil, tmplEntries pf F kt vt rest with
    | some k, some v, some r => some (.cons k (.cons v r))
    | _, _, _ => none := by
  rfl
theorem tmplField_zero (pf : PF) t j rule cur : tmplField pf 0 t j rule cur = none := by
  rfl
theorem tmplVal_zero (pf : PF) t j rule cur : tmplVal pf 0 t j rule cur = none := by
  rfl
theorem tmplField_succ (pf : PF) F t j rule cur : tmplField pf (F+1) t j rule cur =
    match isRepeated t with
    | some et =>
      (match rule with
       | some (.bitOr _) => none
       | _ =>
         match gvList j with
         | none => none
         | some js => (tmplElems pf F et js rule).map fun es => .list (Vals.ofList es))
    | none =>
      match unname t with
      | .map kt vt =>
        (match gvObj j with
         | none => none
         | some ms => (tmplEntries pf F kt vt ms).map .map)
      | _ => tmplVal pf F t j rule cur := by
  rfl

/-- the body of `tmplVal`, with the recursive call abstracted -/
def valBody (pf : PF) (rec : Fields → GMs → List Rules → Vals → Option Vals) (t : Ty) (j : GV) (rule : Option Rule)
    (cur : Val) : Option Val :=
  match rule with
  | some (.bitOr T) =>
    match deref t with
    | .int k =>
      match intOf (ityKind T) j with
      | none => none
      | some m =>
        let old : Int := match unwrapPtr t cur with | .int i => i | _ => 0
        some (wrapPtr t (.int (orInt k old m)))
    | _ => none
  | _ =>
    match deref t with
    | .bool => (match j with
      | .null => some (wrapPtr t (.bool false))
      | .bool b => some (wrapPtr t (.bool b))
      | _ => none)
    | .int k => (intOf k j).map fun v => wrapPtr t (.int v)
    | .f32 => (match j with
      | .null => some (wrapPtr t (.float 0))
      | .num lit _ => (pf lit 32).map fun b => wrapPtr t (.float b)
      | _ => none)
    | .f64 => (match j with
      | .null => some (wrapPtr t (.float 0))
      | .num lit _ => (pf lit 64).map fun b => wrapPtr t (.float b)
      | _ => none)
    | .str | .bytes | .slice (.int .u8) => (match j with
      | .null => some (wrapPtr t (.str []))
      | .str s => some (wrapPtr t (.str s))
      | _ => none)
    | .struct fs =>
      match gvObj j with
      | some ms =>
        if !allKnown fs ms then none
        else
          let vs : Vals := match unwrapPtr t cur with | .struct vs => vs | _ => zeroFields fs
          let sub : List Rules := match rule with | some (.sub rs) => [rs] | _ => []
          (rec fs ms sub vs).map fun vs' => wrapPtr t (.struct vs')
      | none => none
    | _ => none

theorem tmplVal_succ (pf : PF) F t j rule cur :
    tmplVal pf (F+1) t j rule cur = valBody pf (tmplFields pf F) t j rule cur := by
  rfl

theorem valBody_mono (pf : PF) (rec rec' : Fields → GMs → List Rules → Vals → Option Vals)
    (hrec : ∀ fs ms sub vs w, rec fs ms sub vs = some w → rec' fs ms sub vs = some w) (t : Ty) (j : GV)
    (rule : Option Rule) (cur r : Val) : valBody pf rec t j rule cur = some r → valBody pf rec' t j rule cur = some r := by
  unfold valBody
  repeat' split
  all_goals try exact id
  all_goals
    intro h
    simp only [Option.map_eq_some_iff] at h ⊢
    obtain ⟨w, hw, e⟩ := h
    exact ⟨w, hrec _ _ _ _ _ hw, e⟩

/-! ### 1. fuel monotonicity -/

/-- success with fuel `F` is success with fuel `F + 1` -/
def MonoAt (pf : PF) (F : Nat) : Prop :=
  (∀ t j rule cur r, tmplVal pf F t j rule cur = some r → tmplVal pf (F + 1) t j rule cur = some r) ∧
  (∀ t j rule cur r, tmplField pf F t j rule cur = some r → tmplField pf (F + 1) t j rule cur = some r) ∧
  (∀ et js rule r, tmplElems pf F et js rule = some r → tmplElems pf (F + 1) et js rule = some r) ∧
  (∀ kt vt ms r, tmplEntries pf F kt vt ms = some r → tmplEntries pf (F + 1) kt vt ms = some r) ∧
  (∀ fs ms rules vs r, tmplFields pf F fs ms rules vs = some r → tmplFields pf (F + 1) fs ms rules vs = some r)

theorem map_mono {α β : Type} (f : α → β) (a b : Option α) (r : β) (h : ∀ w, a = some w → b = some w) :
    a.map f = some r → b.map f = some r := by
  intro e
  simp only [Option.map_eq_some_iff] at e ⊢
  obtain ⟨w, hw, e⟩ := e
  exact ⟨w, h w hw, e⟩

theorem mono_step (pf : PF) : ∀ F, MonoAt pf F
  | 0 => by
    refine ⟨?_, ?_, ?_, ?_, ?_⟩
    · intro t j rule cur r h; rw [tmplVal_zero] at h; cases h
    · intro t j rule cur r h; rw [tmplField_zero] at h; cases h
    · intro et js rule r h; rw [tmplElems_zero] at h; cases h
    · intro kt vt ms r h; rw [tmplEntries_zero] at h; cases h
    · intro fs ms rules vs r h; rw [tmplFields_zero] at h; cases h
  | F + 1 => by
    obtain ⟨iV, iF, iE, iM, iFs⟩ := mono_step pf F
    refine ⟨?_, ?_, ?_, ?_, ?_⟩
    · intro t j rule cur r
      rw [tmplVal_succ, tmplVal_succ]
      exact valBody_mono pf _ _ (fun fs ms sub vs w => iFs fs ms sub vs w) t j rule cur r
    · intro t j rule cur r
      rw [tmplField_succ, tmplField_succ]
      repeat' split
      all_goals try exact id
      · exact map_mono _ _ _ _ (fun w => iE _ _ _ w)
      · exact map_mono _ _ _ _ (fun w => iM _ _ _ w)
      · exact iV _ _ _ _ _
    · intro et js rule r
      cases js with
      | nil => exact id
      | cons j js =>
        rw [tmplElems_cons, tmplElems_cons]
        intro h
        split at h
        · rename_i v vs hv hvs
          rw [iV _ _ _ _ _ hv, iE _ _ _ _ hvs]; exact h
        · cases h
    · intro kt vt ms r
      cases ms with
      | nil => exact id
      | cons key j rest =>
        rw [tmplEntries_cons, tmplEntries_cons]
        intro h
        split at h
        · rename_i k v r' hk hv hr
          rw [hk, iV _ _ _ _ _ hv, iM _ _ _ _ hr]; exact h
        · cases h
    · intro fs ms rules vs r
      cases fs with
      | nil => exact id
      | cons name tag e t rest =>
        cases vs with
        | nil => exact id
        | cons v vs =>
          rw [tmplFields_cons, tmplFields_cons]
          intro h
          split at h
          · rename_i a b ha hb
            rw [iFs _ _ _ _ _ hb]
            cases hl : lookup (fieldName name tag) ms with
            | none => rw [hl] at ha; simp only at ha ⊢; cases ha; exact h
            | some jv =>
              rw [hl] at ha; simp only at ha ⊢
              rw [iF _ _ _ _ _ ha]; exact h
          · cases h

theorem tmplVal_mono (pf : PF) {F F' : Nat} (h : F ≤ F') {t j rule cur r} :
    tmplVal pf F t j rule cur = some r → tmplVal pf F' t j rule cur = some r := by
  induction h with
  | refl => exact id
  | step _ ih => exact fun e => (mono_step pf _).1 _ _ _ _ _ (ih e)
theorem tmplField_mono (pf : PF) {F F' : Nat} (h : F ≤ F') {t j rule cur r} :
    tmplField pf F t j rule cur = some r → tmplField pf F' t j rule cur = some r := by
  induction h with
  | refl => exact id
  | step _ ih => exact fun e => (mono_step pf _).2.1 _ _ _ _ _ (ih e)
theorem tmplElems_mono (pf : PF) {F F' : Nat} (h : F ≤ F') {et js rule r} :
    tmplElems pf F et js rule = some r → tmplElems pf F' et js rule = some r := by
  induction h with
  | refl => exact id
  | step _ ih => exact fun e => (mono_step pf _).2.2.1 _ _ _ _ (ih e)
theorem tmplEntries_mono (pf : PF) {F F' : Nat} (h : F ≤ F') {kt vt ms r} :
    tmplEntries pf F kt vt ms = some r → tmplEntries pf F' kt vt ms = some r := by
  induction h with
  | refl => exact id
  | step _ ih => exact fun e => (mono_step pf _).2.2.2.1 _ _ _ _ (ih e)
theorem tmplFields_mono (pf : PF) {F F' : Nat} (h : F ≤ F') {fs ms rules vs r} :
    tmplFields pf F fs ms rules vs = some r → tmplFields pf F' fs ms rules vs = some r := by
  induction h with
  | refl => exact id
  | step _ ih => exact fun e => (mono_step pf _).2.2.2.2 _ _ _ _ _ (ih e)

/-! ### 2. `tmplFields` positionwise (no rules) -/

/-- declared field number `n` (0-based position): Go name, tag, type -/
def fieldAtN : Fields → Nat → Option (String × String × Ty)
  | .nil, _ => none
  | .cons name tag _ t _, 0 => some (name, tag, t)
  | .cons _ _ _ _ rest, n + 1 => fieldAtN rest n

theorem fieldAtN_lt : ∀ (fs : Fields) (i : Nat) x, fieldAtN fs i = some x → i < fs.length
  | .nil, _, _, h => by simp [fieldAtN] at h
  | .cons _ _ _ _ _, 0, _, _ => by simp [Fields.length]
  | .cons _ _ _ _ rest, i + 1, x, h => by
    have := fieldAtN_lt rest i x (by simpa only [fieldAtN] using h)
    simp only [Fields.length]; omega

/-- **inversion**: a successful `tmplFields` determines every position (field number `i` ran with fuel `F - 1 - i`);
`vs` may be longer than `fs` (the extra values are dropped) -/
theorem tmplFields_pos (pf : PF) : ∀ (fs : Fields) (ms : GMs) (vs want : Vals) (F : Nat),
    tmplFields pf F fs ms [] vs = some want →
    want.length = fs.length ∧ fs.length ≤ vs.length ∧ fs.length + 1 ≤ F ∧
    ∀ i name tag t, fieldAtN fs i = some (name, tag, t) → i + 1 ≤ F ∧
      (match lookup (fieldName name tag) ms with
       | none => valsGet want i = valsGet vs i
       | some j => tmplField pf (F - 1 - i) t j none (valsGet vs i) = some (valsGet want i))
  | fs, ms, vs, want, 0, h => by rw [tmplFields_zero] at h; cases h
  | .nil, ms, vs, want, F + 1, h => by
    rw [tmplFields_nil] at h; cases h
    refine ⟨rfl, by simp [Fields.length], by simp [Fields.length], ?_⟩
    intro i name tag t hf; simp [fieldAtN] at hf
  | .cons name tag e t rest, ms, .nil, want, F + 1, h => by rw [tmplFields_cons_nil] at h; cases h
  | .cons name tag e t rest, ms, .cons v vs, want, F + 1, h => by
    rw [tmplFields_cons] at h
    split at h
    · rename_i a b ha hb
      cases h
      obtain ⟨l1, l2, l3, ih⟩ := tmplFields_pos pf rest ms vs b F hb
      refine ⟨by simp [Vals.length, Fields.length, l1], by simp only [Vals.length, Fields.length]; omega,
        by simp only [Fields.length]; omega, ?_⟩
      intro i name' tag' t' hf
      cases i with
      | zero =>
        simp only [fieldAtN, Option.some.injEq, Prod.mk.injEq] at hf
        obtain ⟨rfl, rfl, rfl⟩ := hf
        refine ⟨by omega, ?_⟩
        simp only [valsGet]
        cases hl : lookup (fieldName name tag) ms with
        | none => rw [hl] at ha; simp only at ha ⊢; cases ha; rfl
        | some jv => rw [hl] at ha; simp only at ha ⊢; exact ha
      | succ i =>
        simp only [fieldAtN] at hf
        obtain ⟨hi, hm⟩ := ih i name' tag' t' hf
        refine ⟨by omega, ?_⟩
        simp only [valsGet]
        have e : F + 1 - 1 - (i + 1) = F - 1 - i := by omega
        rw [e]; exact hm
    · cases h

/-- **inversion for the elements of a repeated field** (element `i` ran with fuel `F - 1 - i`) -/
theorem tmplElems_pos (pf : PF) (et : Ty) (rule : Option Rule) : ∀ (js : List GV) (ys : List Val) (F : Nat),
    tmplElems pf F et js rule = some ys →
    ys.length = js.length ∧ js.length + 1 ≤ F ∧
    ∀ i, i < js.length → tmplVal pf (F - 1 - i) et (js.getD i .null) rule .nil = some (ys.getD i .nil)
  | js, ys, 0, h => by rw [tmplElems_zero] at h; cases h
  | [], ys, F + 1, h => by
    rw [tmplElems_nil] at h; cases h
    exact ⟨rfl, by simp, fun i hi => by simp at hi⟩
  | j :: js, ys, F + 1, h => by
    rw [tmplElems_cons] at h
    split at h
    · rename_i v vs hv hvs
      cases h
      obtain ⟨l1, l2, ih⟩ := tmplElems_pos pf et rule js vs F hvs
      refine ⟨by simp [l1], by simp only [List.length_cons]; omega, ?_⟩
      intro i hi
      cases i with
      | zero => simpa using hv
      | succ i =>
        have e : F + 1 - 1 - (i + 1) = F - 1 - i := by omega
        rw [e]
        simpa using ih i (by simpa using hi)
    · cases h

/-- **positionwise construction of the elements** (uses monotonicity) -/
theorem tmplElems_of_all_aux (pf : PF) (et : Ty) (rule : Option Rule) (F0 : Nat) : ∀ (js : List GV) (ys : List Val),
    js.length = ys.length →
    (∀ i, i < js.length → ∃ F, F ≤ F0 ∧ tmplVal pf F et (js.getD i .null) rule .nil = some (ys.getD i .nil)) →
    ∀ F, F0 + js.length + 1 ≤ F → tmplElems pf F et js rule = some ys
  | _, _, _, _, 0, hF => by omega
  | [], [], _, _, F + 1, _ => tmplElems_nil pf F et rule
  | [], _ :: _, hl, _, _, _ => by simp at hl
  | _ :: _, [], hl, _, _, _ => by simp at hl
  | j :: js, y :: ys, hl, h, F + 1, hF => by
    simp only [List.length_cons] at hF
    rw [tmplElems_cons]
    obtain ⟨F1, h1, hv⟩ := h 0 (by simp)
    simp only [List.getD_cons_zero] at hv
    rw [tmplVal_mono pf (by omega : F1 ≤ F) hv,
      tmplElems_of_all_aux pf et rule F0 js ys (by simpa using hl) (fun i hi => by
        have := h (i + 1) (by simpa using hi)
        simpa using this) F (by omega)]

/-- **soundness of a positionwise construction of `tmplFields`** (uses monotonicity) -/
theorem tmplFields_of_pos_aux (pf : PF) (ms : GMs) (F0 : Nat) : ∀ (fs : Fields) (vs want : Vals),
    vs.length = fs.length → want.length = fs.length →
    (∀ i name tag t, fieldAtN fs i = some (name, tag, t) →
      (match lookup (fieldName name tag) ms with
       | none => valsGet want i = valsGet vs i
       | some j => ∃ F, F ≤ F0 ∧ tmplField pf F t j none (valsGet vs i) = some (valsGet want i))) →
    ∀ F, F0 + fs.length + 1 ≤ F → tmplFields pf F fs ms [] vs = some want
  | _, _, _, _, _, _, 0, hF => by omega
  | .nil, _, .nil, _, _, _, F + 1, _ => tmplFields_nil pf F ms [] _
  | .nil, _, .cons _ _, _, hl', _, _, _ => by simp [Vals.length, Fields.length] at hl'
  | .cons .., .nil, _, hl, _, _, _, _ => by simp [Vals.length, Fields.length] at hl
  | .cons .., .cons _ _, .nil, _, hl', _, _, _ => by simp [Vals.length, Fields.length] at hl'
  | .cons name tag e t rest, .cons v vs, .cons w ws, hl, hl', h, F + 1, hF => by
    simp only [Fields.length] at hF
    rw [tmplFields_cons]
    simp only [findRule]
    have h0 := h 0 name tag t rfl
    simp only [valsGet] at h0
    rw [tmplFields_of_pos_aux pf ms F0 rest vs ws (by simpa [Vals.length, Fields.length] using hl)
      (by simpa [Vals.length, Fields.length] using hl')
      (fun i name' tag' t' hf => by
        have := h (i + 1) name' tag' t' (by simpa only [fieldAtN] using hf)
        simpa only [valsGet] using this) F (by omega)]
    cases hlk : lookup (fieldName name tag) ms with
    | none => rw [hlk] at h0; simp only at h0 ⊢; rw [h0]
    | some jv =>
      rw [hlk] at h0; simp only at h0 ⊢
      obtain ⟨F1, h1, hv⟩ := h0
      rw [tmplField_mono pf (by omega : F1 ≤ F) hv]

/-- **soundness of a positionwise construction of `tmplFields`**: field number `i` may be justified with any fuel
`≤ F0`; the conclusion holds for every fuel `≥ F0 + fs.length + 1` -/
theorem tmplFields_of_pos (pf : PF) (fs : Fields) (ms : GMs) (vs want : Vals) (F0 : Nat)
    (hl : vs.length = fs.length) (hl' : want.length = fs.length)
    (h : ∀ i name tag t, fieldAtN fs i = some (name, tag, t) →
      (match lookup (fieldName name tag) ms with
       | none => valsGet want i = valsGet vs i
       | some j => ∃ F, F ≤ F0 ∧ tmplField pf F t j none (valsGet vs i) = some (valsGet want i))) :
    ∀ F, F0 + fs.length + 1 ≤ F → tmplFields pf F fs ms [] vs = some want :=
  tmplFields_of_pos_aux pf ms F0 fs vs want hl hl' h

/-- **positionwise construction of the elements of a repeated field** -/
theorem tmplElems_of_all (pf : PF) (et : Ty) (js : List GV) (ys : List Val) (F0 : Nat) (hl : js.length = ys.length)
    (h : ∀ i, i < js.length → ∃ F, F ≤ F0 ∧ tmplVal pf F et (js.getD i .null) none .nil = some (ys.getD i .nil)) :
    ∀ F, F0 + js.length + 1 ≤ F → tmplElems pf F et js none = some ys :=
  tmplElems_of_all_aux pf et none F0 js ys hl h

/-! #### members of the template and `lookup` -/

theorem lookup_of_gmem : ∀ (ms : GMs), KeysNodup ms → ∀ (k : Bytes) (jv : GV), GMem k jv ms → lookup k ms = some jv
  | .nil, _, _, _, h => by simp [GMem] at h
  | .cons k' v' rest, hnd, k, jv, h => by
    simp only [KeysNodup] at hnd
    simp only [GMem] at h
    simp only [lookup]
    rcases h with ⟨rfl, rfl⟩ | h
    · simp
    · have hne : k ≠ k' := by
        intro e; subst e; exact hnd.1 jv h
      have : (k == k') = false := by simpa using hne
      rw [this]
      simpa using lookup_of_gmem rest hnd.2 k jv h

theorem lookup_none_of_not_gmem : ∀ (ms : GMs) (k : Bytes), (∀ jv, ¬ GMem k jv ms) → lookup k ms = none
  | .nil, _, _ => rfl
  | .cons k' v' rest, k, h => by
    simp only [lookup]
    have hne : k ≠ k' := by
      intro e; subst e; exact h v' (by simp [GMem])
    have : (k == k') = false := by simpa using hne
    rw [this]
    simpa using lookup_none_of_not_gmem rest k (fun jv hm => h jv (by simp [GMem, hm]))

/-- converse: what `lookup` finds is a member (no hypothesis on the keys) -/
theorem gmem_of_lookup : ∀ (ms : GMs) (k : Bytes) (jv : GV), lookup k ms = some jv → GMem k jv ms
  | .nil, _, _, h => by simp [lookup] at h
  | .cons k' v' rest, k, jv, h => by
    simp only [lookup] at h
    simp only [GMem]
    by_cases e : k = k'
    · subst e; simp at h; exact .inl ⟨rfl, h.symm⟩
    · have : (k == k') = false := by simpa using e
      rw [this] at h
      exact .inr (gmem_of_lookup rest k jv (by simpa using h))

/-! ### 3. `tmplField` by field class (no rule) -/

/-- a field that is neither repeated nor a map is a `tmplVal` with one unit of fuel less (any rule) -/
theorem tmplField_single (pf : PF) (F : Nat) (t : Ty) (j : GV) (rule : Option Rule) (cur : Val)
    (hr : isRepeated t = none) (hm : ∀ kt vt, unname t ≠ .map kt vt) :
    tmplField pf (F + 1) t j rule cur = tmplVal pf F t j rule cur := by
  rw [tmplField_succ, hr]
  dsimp only
  split
  · rename_i kt vt he; exact absurd he (hm kt vt)
  · rfl

/-- scalar field -/
theorem tmplField_scalar (pf : PF) (F : Nat) (t : Ty) (j : GV) (rule : Option Rule) (cur : Val)
    (ht : scalarTy t = true) : tmplField pf (F + 1) t j rule cur = tmplVal pf F t j rule cur := by
  obtain ⟨_, h2, h3, _, _⟩ := scalar_plumb t ht
  refine tmplField_single pf F t j rule cur h3 ?_
  intro kt vt he; rw [h2] at he; subst he; simp [scalarTy] at ht

theorem tmplVal_struct (pf : PF) (F : Nat) (gs : Fields) (j : GV) (cur : Val) :
    tmplVal pf (F + 1) (.struct gs) j none cur =
      (match gvObj j with
       | some ms' =>
         if !allKnown gs ms' then none
         else (tmplFields pf F gs ms' [] (match cur with | .struct vs => vs | _ => zeroFields gs)).map Val.struct
       | none => none) := by
  cases cur <;> rfl

/-- singular message field -/
theorem tmplField_struct (pf : PF) (F : Nat) (gs : Fields) (j : GV) (cur : Val) :
    tmplField pf (F + 2) (.struct gs) j none cur =
      (match gvObj j with
       | some ms' =>
         if !allKnown gs ms' then none
         else (tmplFields pf F gs ms' [] (match cur with | .struct vs => vs | _ => zeroFields gs)).map Val.struct
       | none => none) := by
  rw [tmplField_single pf (F + 1) (.struct gs) j none cur (by simp [isRepeated, unname])
    (by intro kt vt h; simp [unname] at h), tmplVal_struct]

/-- singular message field, inversion: everything a success says -/
theorem tmplField_struct_inv (pf : PF) (F : Nat) (gs : Fields) (j : GV) (cur y : Val)
    (h : tmplField pf F (.struct gs) j none cur = some y) :
    2 ≤ F ∧ ∃ ms' w, gvObj j = some ms' ∧ allKnown gs ms' = true ∧
      tmplFields pf (F - 2) gs ms' [] (match cur with | .struct vs => vs | _ => zeroFields gs) = some w ∧ y = .struct w := by
  match F, h with
  | 0, h => rw [tmplField_zero] at h; cases h
  | 1, h =>
    rw [tmplField_single pf 0 (.struct gs) j none cur (by simp [isRepeated, unname])
      (by intro kt vt h; simp [unname] at h), tmplVal_zero] at h
    cases h
  | F + 2, h =>
    rw [tmplField_struct] at h
    refine ⟨by omega, ?_⟩
    cases hg : gvObj j with
    | none => rw [hg] at h; cases h
    | some ms' =>
      rw [hg] at h
      simp only at h
      by_cases hk : allKnown gs ms' = true
      · simp only [hk, Bool.not_true, Bool.false_eq_true, if_false, Option.map_eq_some_iff] at h
        obtain ⟨w, hw, e⟩ := h
        exact ⟨ms', w, rfl, hk, hw, e.symm⟩
      · simp [hk] at h

/-- the `∃ F'` form -/
theorem tmplField_struct_inv' (pf : PF) (F : Nat) (gs : Fields) (j : GV) (cur y : Val)
    (h : tmplField pf F (.struct gs) j none cur = some y) :
    ∃ ms' w F', gvObj j = some ms' ∧ allKnown gs ms' = true ∧
      tmplFields pf F' gs ms' [] (match cur with | .struct vs => vs | _ => zeroFields gs) = some w ∧ y = .struct w := by
  obtain ⟨_, ms', w, a, b, c, d⟩ := tmplField_struct_inv pf F gs j cur y h
  exact ⟨ms', w, F - 2, a, b, c, d⟩

/-- repeated field (`cur` is ignored: the list is replaced) -/
theorem tmplField_repeated (pf : PF) (F : Nat) (t et : Ty) (j : GV) (cur : Val) (hr : isRepeated t = some et) :
    tmplField pf (F + 1) t j none cur =
      (match gvList j with
       | none => none
       | some js => (tmplElems pf F et js none).map fun es => .list (Vals.ofList es)) := by
  rw [tmplField_succ, hr]

/-- repeated field, inversion -/
theorem tmplField_repeated_inv (pf : PF) (F : Nat) (t et : Ty) (j : GV) (cur y : Val) (hr : isRepeated t = some et)
    (h : tmplField pf F t j none cur = some y) :
    1 ≤ F ∧ ∃ js es, gvList j = some js ∧ tmplElems pf (F - 1) et js none = some es ∧ y = .list (Vals.ofList es) := by
  match F, h with
  | 0, h => rw [tmplField_zero] at h; cases h
  | F + 1, h =>
    rw [tmplField_repeated pf F t et j cur hr] at h
    refine ⟨by omega, ?_⟩
    cases hg : gvList j with
    | none => rw [hg] at h; cases h
    | some js =>
      rw [hg] at h
      simp only [Option.map_eq_some_iff] at h
      obtain ⟨es, he, e⟩ := h
      exact ⟨js, es, rfl, he, e.symm⟩

/-! ### 4. `applyTemplate` on a plain struct type -/

theorem applyTemplate_struct (pf : PF) (fs : Fields) (ms : GMs) (rules : List Rules) (vs : Vals) :
    applyTemplate pf (.struct fs) (.obj ms) rules (.struct vs) =
      if !allKnown fs ms then none
      else (tmplFields pf (specFuel (.struct fs) (.obj ms)) fs ms rules vs).map Val.struct := by
  rfl

theorem applyTemplate_struct_inv (pf : PF) (fs : Fields) (ms : GMs) (vs : Vals) (want : Val)
    (h : applyTemplate pf (.struct fs) (.obj ms) [] (.struct vs) = some want) :
    allKnown fs ms = true ∧ ∃ w, want = .struct w ∧
      tmplFields pf (specFuel (.struct fs) (.obj ms)) fs ms [] vs = some w := by
  rw [applyTemplate_struct] at h
  by_cases hk : allKnown fs ms = true
  · simp only [hk, Bool.not_true, Bool.false_eq_true, if_false, Option.map_eq_some_iff] at h
    obtain ⟨w, hw, e⟩ := h
    exact ⟨hk, w, e.symm, hw⟩
  · simp [hk] at h

/-- `applyTemplate` is `tmplFields` with ANY sufficient fuel: a success with some fuel `F ≤ specFuel` is the result -/
theorem applyTemplate_of_fields (pf : PF) (fs : Fields) (ms : GMs) (vs w : Vals) (F : Nat)
    (hk : allKnown fs ms = true) (hF : F ≤ specFuel (.struct fs) (.obj ms))
    (h : tmplFields pf F fs ms [] vs = some w) :
    applyTemplate pf (.struct fs) (.obj ms) [] (.struct vs) = some (.struct w) := by
  rw [applyTemplate_struct, tmplFields_mono pf hF h]
  simp [hk]

/-! ### non-vacuity -/

section Examples
/-- an untagged field is named by its Go name -/
theorem fieldName_untagged (name : String) : fieldName name "" = strBytes name := by
  unfold fieldName tagValue
  rw [Enc.Lemmas.ProtoWire.split_empty _ (by decide)]

/-- `struct { A bool; B string; C []bool; D struct { X bool } }` -/
def sfFs : Fields :=
  .cons "A" "" false .bool (.cons "B" "" false .str (.cons "C" "" false (.slice .bool)
    (.cons "D" "" false (.struct (.cons "X" "" false .bool .nil)) .nil)))
/-- `{"C":[true,null],"A":true,"D":{"X":true}}` -/
def sfMs : GMs :=
  .cons [67] (.arr (.cons (.bool true) (.cons .null .nil)))
    (.cons [65] (.bool true) (.cons [68] (.obj (.cons [88] (.bool true) .nil)) .nil))
def sfVs : Vals := .cons (.bool false) (.cons (.str [104]) (.cons .nil (.cons (.struct (.cons (.bool false) .nil)) .nil)))
def sfWant : Vals :=
  .cons (.bool true) (.cons (.str [104]) (.cons (.list (.cons (.bool true) (.cons (.bool false) .nil)))
    (.cons (.struct (.cons (.bool true) .nil)) .nil)))
def sfPf : PF := fun _ _ => none

theorem sfA : fieldName "A" "" = [65] := by rw [fieldName_untagged]; decide +kernel
theorem sfB : fieldName "B" "" = [66] := by rw [fieldName_untagged]; decide +kernel
theorem sfC : fieldName "C" "" = [67] := by rw [fieldName_untagged]; decide +kernel
theorem sfD : fieldName "D" "" = [68] := by rw [fieldName_untagged]; decide +kernel
theorem sfX : fieldName "X" "" = [88] := by rw [fieldName_untagged]; decide +kernel

example : fieldAtN sfFs 2 = some ("C", "", .slice .bool) := rfl
example : KeysNodup sfMs := by
  refine ⟨?_, ?_, ?_, trivial⟩ <;> intro jv h <;> simp [GMem] at h
example : lookup [68] sfMs = some (.obj (.cons [88] (.bool true) .nil)) :=
  lookup_of_gmem sfMs (by refine ⟨?_, ?_, ?_, trivial⟩ <;> intro jv h <;> simp [GMem] at h) _ _
    (.inr (.inr (.inl ⟨rfl, rfl⟩)))

/-- the inner message `{"X":true}` on `{X:false}`, positionwise -/
theorem sfInner : ∀ F, 4 ≤ F → tmplFields sfPf F (.cons "X" "" false .bool .nil) (.cons [88] (.bool true) .nil) []
    (.cons (.bool false) .nil) = some (.cons (.bool true) .nil) := by
  intro F hF
  refine tmplFields_of_pos sfPf _ _ _ _ 2 rfl rfl ?_ F (by simpa [Fields.length] using hF)
  intro i name tag t hf
  match i, hf with
  | 0, hf =>
    cases hf; rw [sfX]
    exact ⟨2, by omega, rfl⟩
  | _ + 1, hf => simp [fieldAtN] at hf

/-- the hypotheses of `tmplFields_of_pos` hold on the example (a scalar, an untouched field, a repeated field and a
sub-message), with `F0 = 6` -/
theorem sfOuter : ∀ F, 6 + sfFs.length + 1 ≤ F → tmplFields sfPf F sfFs sfMs [] sfVs = some sfWant := by
  refine tmplFields_of_pos sfPf sfFs sfMs sfVs sfWant 6 rfl rfl ?_
  intro i name tag t hf
  match i, hf with
  | 0, hf =>
    cases hf; rw [sfA]
    exact ⟨2, by omega, rfl⟩
  | 1, hf =>
    cases hf; rw [sfB]
    exact (rfl : valsGet sfWant 1 = valsGet sfVs 1)
  | 2, hf =>
    cases hf; rw [sfC]
    refine ⟨5, by omega, ?_⟩
    show tmplField sfPf (4 + 1) (.slice .bool) _ none _ = _
    rw [tmplField_repeated sfPf 4 (.slice .bool) .bool _ _ rfl]
    show Option.map _ (tmplElems sfPf 4 .bool [.bool true, .null] none) = _
    rw [tmplElems_of_all sfPf .bool [.bool true, .null] [.bool true, .bool false] 1 rfl (fun i hi => by
      match i, hi with
      | 0, _ => exact ⟨1, by omega, rfl⟩
      | 1, _ => exact ⟨1, by omega, rfl⟩) 4 (by simp)]
    rfl
  | 3, hf =>
    cases hf; rw [sfD]
    refine ⟨6, by omega, ?_⟩
    show tmplField sfPf (4 + 2) (.struct _) _ none _ = _
    rw [tmplField_struct]
    show (if !allKnown (.cons "X" "" false .bool .nil) (.cons [88] (.bool true) .nil) then none else _) = _
    have hk : allKnown (.cons "X" "" false .bool .nil) (.cons [88] (.bool true) .nil) = true := by
      simp [allKnown, hasName, sfX]
    rw [hk]
    show Option.map Val.struct (tmplFields sfPf 4 _ _ [] (.cons (.bool false) .nil)) = _
    rw [sfInner 4 (by omega)]
    rfl
  | _ + 4, hf => simp [sfFs, fieldAtN] at hf

theorem sfKnown : allKnown sfFs sfMs = true := by
  simp [allKnown, sfMs, sfFs, hasName, sfA, sfB, sfC, sfD]

example : applyTemplate sfPf (.struct sfFs) (.obj sfMs) [] (.struct sfVs) = some (.struct sfWant) :=
  applyTemplate_of_fields sfPf sfFs sfMs sfVs sfWant 11 sfKnown (by simp [specFuel]) (sfOuter 11 (by decide))

/-- and back: the inversion gives every position of the result -/
example : valsGet sfWant 1 = valsGet sfVs 1 := by
  have := (tmplFields_pos sfPf sfFs sfMs sfVs sfWant 11 (sfOuter 11 (by decide))).2.2.2 1 "B" "" .str rfl
  rw [sfB] at this
  exact this.2
end Examples

example : tmplVal sfPf (4 - 1 - 1) .bool ([GV.bool true, .null].getD 1 .null) none .nil = some ([Val.bool true, .bool false].getD 1 .nil) :=
  (tmplElems_pos sfPf .bool none [.bool true, .null] [.bool true, .bool false] 4 rfl).2.2 1 (by simp)
example : ∃ ms' w F', gvObj (.obj (.cons [88] (.bool true) .nil)) = some ms' ∧
    allKnown (.cons "X" "" false .bool .nil) ms' = true ∧
    tmplFields sfPf F' (.cons "X" "" false .bool .nil) ms' [] (.cons (.bool false) .nil) = some w ∧
    Val.struct (.cons (.bool true) .nil) = .struct w := by
  refine tmplField_struct_inv' sfPf 6 _ _ (.struct (.cons (.bool false) .nil)) _ ?_
  rw [show (6 : Nat) = 4 + 2 from rfl, tmplField_struct]
  show (if !allKnown (.cons "X" "" false .bool .nil) (.cons [88] (.bool true) .nil) then none else _) = _
  rw [show allKnown (.cons "X" "" false .bool .nil) (.cons [88] (.bool true) .nil) = true by simp [allKnown, hasName, sfX]]
  show Option.map Val.struct (tmplFields sfPf 4 _ _ [] (.cons (.bool false) .nil)) = _
  rw [sfInner 4 (by omega)]
  rfl

#print axioms mono_step
#print axioms tmplFields_mono
#print axioms tmplFields_pos
#print axioms tmplElems_pos
#print axioms tmplFields_of_pos
#print axioms tmplElems_of_all
#print axioms lookup_of_gmem
#print axioms lookup_none_of_not_gmem
#print axioms tmplField_scalar
#print axioms tmplField_struct
#print axioms tmplField_struct_inv
#print axioms tmplField_repeated
#print axioms tmplField_repeated_inv
#print axioms applyTemplate_struct
#print axioms applyTemplate_struct_inv
#print axioms applyTemplate_of_fields
#print axioms sfOuter

end Enc.Lemmas.ProtoTemplate
