import Enc.Model.Thrift
import Enc.Lemmas.Base
import Enc.Lemmas.ThriftZig
/-!
Round trips of the thrift primitive writers / readers of `Enc.Model.Thrift`, for both protocols, with arbitrary
trailing bytes `rest`:

  * `readUvarint_uvarint`, `rVarint_varint`, `beNat_be`, `be_length`, `rFixed_be`
  * `rBool_wBool rI8_wI8 rI16_wI16 rI32_wI32 rI64_wI64 rDouble_wDouble rLength_wLength rBytes_wBytes`
  * `rList_wList`, `rMap_wMap` (+ `_compact_empty`, `_compact`, `_binary`)
  * `rField_wField_binary`, `rField_wField_compact_stop / _short / _long`, and the counterexamples for the compact
    short form with a non-positive id (`wField` does not look at `Delta`, exactly like compactWriter.WriteField).
-/
namespace Enc.Lemmas.ThriftPrim
open Enc Enc.Model.Thrift

theorem toNat_ofNat_lt (n : Nat) (h : n < 256) : (UInt8.ofNat n).toNat = n := by
  simp [UInt8.toNat_ofNat', Nat.mod_eq_of_lt h]

theorem be_succ (n k : Nat) : be n (k + 1) = UInt8.ofNat (n / 256 ^ k % 256) :: be n k := by
  simp [be, List.range_succ]

theorem be_length (n k : Nat) : (be n k).length = k := by simp [be]

theorem foldl_be (n : Nat) : ∀ (k acc : Nat),
    (be n k).foldl (fun acc c => acc * 256 + c.toNat) acc = acc * 256 ^ k + n % 256 ^ k := by
  intro k
  induction k with
  | zero => intro acc; simp [be, Nat.mod_one]
  | succ k ih =>
    intro acc
    rw [be_succ, List.foldl_cons, ih, toNat_ofNat_lt _ (Nat.mod_lt _ (by omega)), Nat.mod_pow_succ,
      Nat.add_mul, Nat.pow_succ, Nat.mul_assoc, Nat.mul_comm 256, Nat.mul_comm (256 ^ k) (n / 256 ^ k % 256)]
    omega

theorem beNat_be_mod (n k : Nat) : beNat (be n k) = n % 256 ^ k := by
  unfold beNat; rw [foldl_be]; simp

theorem beNat_be (n k : Nat) (h : n < 256 ^ k) : beNat (be n k) = n := by
  rw [beNat_be_mod, Nat.mod_eq_of_lt h]

theorem readN_append (a rest : Bytes) (n : Nat) (h : a.length = n) : readN (a ++ rest) n = .ok (a, rest) := by
  unfold readN
  rw [hasAtLeast_iff]
  have : n ≤ (a ++ rest).length := by simp; omega
  simp only [this, decide_true, if_true]
  subst h
  simp

theorem rFixed_be (n k : Nat) (h : n < 256 ^ k) (rest : Bytes) : rFixed (be n k ++ rest) k = .ok (n, rest) := by
  unfold rFixed
  rw [readN_append _ _ _ (be_length n k)]
  simp [Res.bind, beNat_be n k h]
theorem go_uvarint (rest : Bytes) : ∀ (n i x : Nat), i ≤ 9 → n * 2 ^ (7 * i) < 2 ^ 64 →
    readUvarintGo.go (uvarint n ++ rest) i x (7 * i) = .ok (x + n * 2 ^ (7 * i), rest) := by
  intro n
  induction n using Nat.strongRecOn with
  | _ n ih =>
    intro i x hi hb
    unfold uvarint
    have hP : 0 < 2 ^ (7 * i) := Nat.pow_pos (by omega)
    by_cases hn : n < 128
    · simp only [hn, dite_true, List.cons_append, List.nil_append, readUvarintGo.go]
      have h10 : (i == 10) = false := by simp; omega
      rw [toNat_ofNat_lt n (by omega)]
      simp only [h10, Bool.false_eq_true, if_false, hn, if_true]
      have : ¬ (i = 9 ∧ n > 1) := by
        rintro ⟨rfl, h1⟩
        have : 2 * 2 ^ 63 ≤ n * 2 ^ 63 := Nat.mul_le_mul_right _ h1
        omega
      simp [this]
    · simp only [hn, dite_false, List.cons_append, readUvarintGo.go]
      have h10 : (i == 10) = false := by simp; omega
      rw [toNat_ofNat_lt (n % 128 + 128) (by omega)]
      have hge : ¬ (n % 128 + 128 < 128) := by omega
      simp only [h10, Bool.false_eq_true, if_false, hge]
      have hi8 : i ≤ 8 := by
        apply Classical.byContradiction; intro hc
        have : i = 9 := by omega
        subst this
        have : 128 * 2 ^ 63 ≤ n * 2 ^ 63 := Nat.mul_le_mul_right _ (by omega)
        omega
      have e : 7 * i + 7 = 7 * (i + 1) := by omega
      have e2 : 2 ^ (7 * (i + 1)) = 2 ^ (7 * i) * 128 := by rw [← e, Nat.pow_add]
      have hdm : n / 128 * 128 + n % 128 = n := Nat.div_add_mod' n 128
      have hmul : n / 128 * (2 ^ (7 * i) * 128) + n % 128 * 2 ^ (7 * i) = n * 2 ^ (7 * i) := by
        conv => rhs; rw [← hdm]
        rw [Nat.add_mul, Nat.mul_comm (2 ^ (7*i)) 128, Nat.mul_assoc]
      rw [e, ih (n / 128) (by omega) (i + 1) _ (by omega) (by rw [e2]; omega)]
      rw [e2]
      congr 2
      have : n % 128 + 128 - 128 = n % 128 := by omega
      rw [this]; omega

theorem readUvarint_uvarint (n : Nat) (h : n < 2 ^ 64) (rest : Bytes) :
    readUvarintGo (uvarint n ++ rest) = .ok (n, rest) := by
  have := go_uvarint rest n 0 0 (by omega) (by simpa using h)
  unfold readUvarintGo
  simpa using this

theorem twos_lt (i : Int) (bits : Nat) : twos i bits < 2 ^ bits := by
  unfold twos
  have hp : (0 : Int) < 2 ^ bits := Int.pow_pos (by omega)
  have h1 := Int.emod_lt_of_pos i hp
  have h2 := Int.emod_nonneg i (Int.ne_of_gt hp)
  have : ((i % 2 ^ bits).toNat : Int) < ((2 ^ bits : Nat) : Int) := by
    rw [Int.toNat_of_nonneg h2]; simpa using h1
  exact Int.ofNat_lt.mp this

theorem toSigned_twos8 (i : Int) (h : -2 ^ 7 ≤ i ∧ i < 2 ^ 7) : toSigned (twos i 8) 8 = i := by
  unfold toSigned twos; simp only [Int.reducePow, Nat.reducePow, Nat.reduceSub] at *; split <;> omega
theorem toSigned_twos16 (i : Int) (h : -2 ^ 15 ≤ i ∧ i < 2 ^ 15) : toSigned (twos i 16) 16 = i := by
  unfold toSigned twos; simp only [Int.reducePow, Nat.reducePow, Nat.reduceSub] at *; split <;> omega
theorem toSigned_twos32 (i : Int) (h : -2 ^ 31 ≤ i ∧ i < 2 ^ 31) : toSigned (twos i 32) 32 = i := by
  unfold toSigned twos; simp only [Int.reducePow, Nat.reducePow, Nat.reduceSub] at *; split <;> omega
theorem toSigned_twos64 (i : Int) (h : -2 ^ 63 ≤ i ∧ i < 2 ^ 63) : toSigned (twos i 64) 64 = i := by
  unfold toSigned twos; simp only [Int.reducePow, Nat.reducePow, Nat.reduceSub] at *; split <;> omega

theorem zigzag64_lt (i : Int) (h : -2 ^ 63 ≤ i ∧ i < 2 ^ 63) : zigzag64 i < 2 ^ 64 := by
  unfold zigzag64; simp only [Int.reducePow, Nat.reducePow] at *; split <;> omega

theorem rVarint_varint (i : Int) (bits : Nat) (hb : 1 ≤ bits) (hb2 : bits ≤ 64)
    (h : -2 ^ (bits - 1) ≤ i ∧ i < 2 ^ (bits - 1)) (rest : Bytes) :
    rVarint (varint i ++ rest) bits = .ok (i, rest) := by
  unfold rVarint varint
  have h63 : (2 : Int) ^ (bits - 1) ≤ 2 ^ 63 := by
    have := Nat.pow_le_pow_right (n := 2) (by omega) (show bits - 1 ≤ 63 by omega)
    exact_mod_cast this
  rw [readUvarint_uvarint _ (zigzag64_lt i (by omega)) rest]
  simp only [Res.bind, Enc.Lemmas.ThriftZig.unzigzag_zigzag]
  have : ¬ (i < -(2 ^ (bits - 1) : Int) ∨ i > (2 ^ (bits - 1) : Int) - 1) := by omega
  simp only [this, if_false]

theorem rByte_cons (c : UInt8) (rest : Bytes) : rByte (c :: rest) = .ok (c, rest) := rfl

theorem rBool_wBool (p : Proto) (b : Bool) (rest : Bytes) : rBool p (wBool p b ++ rest) = .ok (b, rest) := by
  cases b <;> simp [rBool, wBool, rByte, Res.bind]

theorem rI8_wI8 (p : Proto) (i : Int) (h : -2 ^ 7 ≤ i ∧ i < 2 ^ 7) (rest : Bytes) :
    rI8 p (wI8 p i ++ rest) = .ok (i, rest) := by
  have := twos_lt i 8
  simp only [rI8, wI8, List.cons_append, List.nil_append, rByte, Res.bind]
  rw [toNat_ofNat_lt _ (by simpa using this), toSigned_twos8 i h]

theorem rI16_wI16 (p : Proto) (i : Int) (h : -2 ^ 15 ≤ i ∧ i < 2 ^ 15) (rest : Bytes) :
    rI16 p (wI16 p i ++ rest) = .ok (i, rest) := by
  cases p with
  | compact => exact rVarint_varint i 16 (by omega) (by omega) h rest
  | binary s =>
    simp only [rI16, wI16]
    rw [rFixed_be _ 2 (twos_lt i 16)]
    simp only [Res.bind, toSigned_twos16 i h]

theorem rI32_wI32 (p : Proto) (i : Int) (h : -2 ^ 31 ≤ i ∧ i < 2 ^ 31) (rest : Bytes) :
    rI32 p (wI32 p i ++ rest) = .ok (i, rest) := by
  cases p with
  | compact => exact rVarint_varint i 32 (by omega) (by omega) h rest
  | binary s =>
    simp only [rI32, wI32]
    rw [rFixed_be _ 4 (twos_lt i 32)]
    simp only [Res.bind, toSigned_twos32 i h]

theorem rI64_wI64 (p : Proto) (i : Int) (h : -2 ^ 63 ≤ i ∧ i < 2 ^ 63) (rest : Bytes) :
    rI64 p (wI64 p i ++ rest) = .ok (i, rest) := by
  cases p with
  | compact => exact rVarint_varint i 64 (by omega) (by omega) h rest
  | binary s =>
    simp only [rI64, wI64]
    rw [rFixed_be _ 8 (twos_lt i 64)]
    simp only [Res.bind, toSigned_twos64 i h]

theorem rDouble_wDouble (p : Proto) (bits : Nat) (h : bits < 2 ^ 64) (rest : Bytes) :
    rDouble p (wDouble p bits ++ rest) = .ok (bits, rest) := by
  unfold rDouble wDouble
  exact rFixed_be bits 8 (by simpa using h) rest

theorem rLength_wLength (p : Proto) (n : Nat) (h : n ≤ 2147483647) (rest : Bytes) :
    rLength p (wLength p n ++ rest) = .ok (n, rest) := by
  have hn : ¬ n > 2147483647 := by omega
  cases p with
  | compact =>
    simp only [rLength, wLength]
    rw [readUvarint_uvarint n (by omega)]
    simp only [Res.bind, hn, if_false]
  | binary s =>
    simp only [rLength, wLength]
    rw [rFixed_be n 4 (by omega)]
    simp only [Res.bind, hn, if_false]

theorem rBytes_wBytes (p : Proto) (b : Bytes) (h : b.length ≤ 2147483647) (rest : Bytes) :
    rBytes p (wBytes p b ++ rest) = .ok (b, rest) := by
  unfold rBytes wBytes
  rw [List.append_assoc, rLength_wLength p _ h]
  simp only [Res.bind]
  by_cases h0 : b.length = 0
  · have : b = [] := List.eq_nil_of_length_eq_zero h0
    subst this; simp
  · have : (b.length == 0) = false := by simpa using h0
    simp only [this, Bool.false_eq_true, if_false]
    rw [readN_append b rest _ rfl]
    rfl

/-! ### containers and field headers -/

/-- a "real" wire type: one of TRUE, BOOL(FALSE), I8 … STRUCT (codes 1 … 12); excludes STOP and unknown codes -/
def isReal : TType → Bool
  | .stop | .unknown _ => false
  | _ => true

theorem ofCode_code (t : TType) (h : isReal t = true) : TType.ofCode t.code = t := by
  cases t <;> first | rfl | simp [isReal] at h

theorem code_range (t : TType) (h : isReal t = true) : 1 ≤ t.code ∧ t.code ≤ 12 := by
  cases t <;> first | (constructor <;> decide) | simp [isReal] at h

theorem ofCode_stop : TType.ofCode 0 = .stop := rfl

theorem dontExpectEOF_ok {α} (x : α × Bytes) : dontExpectEOF (Res.ok x : R α) = .ok x := by
  unfold dontExpectEOF; split <;> simp_all

theorem or_f0 : ∀ c, c < 16 → 0xF0 ||| c = 240 + c := by decide
theorem or_kv : ∀ a, a < 16 → ∀ b, b < 16 → (a * 16 % 256) ||| b = a * 16 + b := by decide

theorem rList_wList (p : Proto) (t : TType) (n : Nat) (ht : isReal t = true) (hn : n ≤ 2147483647) (rest : Bytes) :
    rList p (wList p t n ++ rest) = .ok ((t, n), rest) := by
  obtain ⟨hc1, hc2⟩ := code_range t ht
  have hof := ofCode_code t ht
  cases p with
  | compact =>
    simp only [rList, wList]
    generalize t.code = c at *
    by_cases h14 : n ≤ 14
    · simp only [h14, if_true, List.cons_append, List.nil_append, rByte, Res.bind]
      rw [Nat.mod_eq_of_lt (by omega), toNat_ofNat_lt _ (by omega)]
      have e1 : (n * 16 + c) / 16 = n := by omega
      have e2 : (n * 16 + c) % 16 = c := by omega
      have e3 : (n != 15) = true := by simp; omega
      simp only [e1, e2, e3, if_true, hof]
    · simp only [h14, if_false, List.cons_append, List.nil_append, rByte, Res.bind]
      rw [or_f0 c (by omega), toNat_ofNat_lt _ (by omega)]
      have e1 : (240 + c) / 16 = 15 := by omega
      have e2 : (240 + c) % 16 = c := by omega
      simp only [e1, e2, bne_self_eq_false, Bool.false_eq_true, if_false]
      rw [readUvarint_uvarint n (by omega)]
      have hn' : ¬ n > 2147483647 := by omega
      simp only [hn', if_false, dontExpectEOF_ok, hof]
  | binary s =>
    simp only [rList, wList, rI8, rI32, List.cons_append, List.nil_append, rByte, Res.bind]
    generalize t.code = c at *
    rw [toNat_ofNat_lt _ (by omega), rFixed_be n 4 (by omega)]
    have e1 : toSigned c 8 = c := by unfold toSigned; simp; omega
    have e2 : twos (c : Int) 8 = c := by unfold twos; simp only [Int.reducePow]; omega
    have e3 : toSigned n 32 = n := by unfold toSigned; simp; omega
    simp only [dontExpectEOF_ok, e1, e2, e3, hof]
    have : ¬ ((n : Int) < 0) := by omega
    simp [this]


theorem uvarint_zero : uvarint 0 = [0] := by unfold uvarint; simp

/-- the compact empty map is the single byte 0 and reads back WITHOUT its key/value types -/
theorem rMap_wMap_compact_empty (k v : TType) (rest : Bytes) :
    rMap .compact (wMap .compact k v 0 ++ rest) = .ok ((.stop, .stop, 0), rest) := by
  simp [rMap, wMap, uvarint_zero, readUvarintGo, readUvarintGo.go, Res.bind]

theorem rMap_wMap_compact (k v : TType) (n : Nat) (hk : isReal k = true) (hv : isReal v = true)
    (h0 : 0 < n) (hn : n ≤ 2147483647) (rest : Bytes) :
    rMap .compact (wMap .compact k v n ++ rest) = .ok ((k, v, n), rest) := by
  obtain ⟨hk1, hk2⟩ := code_range k hk
  obtain ⟨hv1, hv2⟩ := code_range v hv
  have hofk := ofCode_code k hk
  have hofv := ofCode_code v hv
  simp only [rMap, wMap]
  generalize k.code = a at *
  generalize v.code = b at *
  have hn0 : (n == 0) = false := by simp; omega
  have hn' : ¬ n > 2147483647 := by omega
  simp only [hn0, Bool.false_eq_true, if_false, List.append_assoc]
  rw [readUvarint_uvarint n (by omega)]
  simp only [Res.bind, hn', if_false, hn0, Bool.false_eq_true, List.cons_append, List.nil_append, rByte,
    dontExpectEOF_ok]
  rw [or_kv a (by omega) b (by omega), toNat_ofNat_lt _ (by omega)]
  have e1 : (a * 16 + b) / 16 = a := by omega
  have e2 : (a * 16 + b) % 16 = b := by omega
  simp only [e1, e2, hofk, hofv]

theorem rMap_wMap_binary (s : Bool) (k v : TType) (n : Nat) (hk : isReal k = true) (hv : isReal v = true)
    (hn : n ≤ 2147483647) (rest : Bytes) :
    rMap (.binary s) (wMap (.binary s) k v n ++ rest) = .ok ((k, v, n), rest) := by
  obtain ⟨hk1, hk2⟩ := code_range k hk
  obtain ⟨hv1, hv2⟩ := code_range v hv
  have hofk := ofCode_code k hk
  have hofv := ofCode_code v hv
  simp only [rMap, wMap, rI32, List.cons_append, List.nil_append, rByte, Res.bind, dontExpectEOF_ok]
  generalize k.code = a at *
  generalize v.code = b at *
  rw [toNat_ofNat_lt _ (by omega), toNat_ofNat_lt _ (by omega), rFixed_be n 4 (by omega)]
  have e3 : toSigned n 32 = n := by unfold toSigned; simp; omega
  have : ¬ ((n : Int) < 0) := by omega
  simp [dontExpectEOF_ok, e3, hofk, hofv, this]

/-- both protocols, all sizes: what `rMap` returns for a written map header -/
theorem rMap_wMap (p : Proto) (k v : TType) (n : Nat) (hk : isReal k = true) (hv : isReal v = true)
    (hn : n ≤ 2147483647) (rest : Bytes) :
    rMap p (wMap p k v n ++ rest) =
      .ok ((if p = .compact ∧ n = 0 then (.stop, .stop, 0) else (k, v, n)), rest) := by
  cases p with
  | binary s => simp [rMap_wMap_binary s k v n hk hv hn rest]
  | compact =>
    by_cases h0 : n = 0
    · subst h0; simp [rMap_wMap_compact_empty]
    · simp [h0, rMap_wMap_compact k v n hk hv (by omega) hn rest]

/-! field headers -/

theorem rField_wField_binary (s : Bool) (t : TType) (id : Int) (dl : Bool) (ht : isReal t = true ∨ t = .stop)
    (hid : -2 ^ 15 ≤ id ∧ id < 2 ^ 15) (rest : Bytes) :
    rField (.binary s) (wField (.binary s) t id dl ++ rest) = .ok ({ t := t, id := id, delta := false }, rest) := by
  have hc : t.code ≤ 12 ∧ TType.ofCode t.code = t := by
    rcases ht with ht | rfl
    · exact ⟨(code_range t ht).2, ofCode_code t ht⟩
    · exact ⟨by decide, rfl⟩
  obtain ⟨hc2, hof⟩ := hc
  simp only [rField, wField, rI8, List.cons_append, List.nil_append, rByte, Res.bind]
  generalize t.code = c at *
  have := rI16_wI16 (.binary s) id hid rest
  simp only [wI16] at this
  rw [toNat_ofNat_lt _ (by omega), this]
  have e1 : toSigned c 8 = c := by unfold toSigned; simp; omega
  have e2 : twos (c : Int) 8 = c := by unfold twos; simp only [Int.reducePow]; omega
  simp only [dontExpectEOF_ok, e1, e2, hof]

theorem rField_wField_compact_stop (id : Int) (dl : Bool) (rest : Bytes) :
    rField .compact (wField .compact .stop id dl ++ rest) = .ok ({ t := .stop, id := 0, delta := false }, rest) := by
  simp [rField, wField, rByte, Res.bind, Gen.c_thrift_STOP]

/-- short form: the id is returned as a DELTA (the reader adds the previous field id) -/
theorem rField_wField_compact_short (t : TType) (id : Int) (ht : isReal t = true)
    (hid : 1 ≤ id ∧ id ≤ 15) (rest : Bytes) :
    rField .compact (wField .compact t id true ++ rest) = .ok ({ t := t, id := id, delta := true }, rest) := by
  obtain ⟨hc1, hc2⟩ := code_range t ht
  have hof := ofCode_code t ht
  have hns : (t == TType.stop) = false := by cases t <;> simp [isReal] at ht ⊢
  have hpos : 0 < id := by omega
  simp only [rField, wField, hns, Bool.false_eq_true, if_false, hid.2, hpos, decide_true, Bool.and_self, if_true,
    List.cons_append, List.nil_append, rByte, Res.bind, Gen.c_thrift_STOP]
  generalize t.code = c at *
  have hm : twos id 16 = id.toNat := by unfold twos; simp only [Int.reducePow]; omega
  have hlt : id.toNat ≤ 15 ∧ 1 ≤ id.toNat := by omega
  rw [hm]
  generalize hd : id.toNat = d at *
  have hid' : id = (d : Int) := by omega
  rw [Nat.mod_eq_of_lt (by omega), toNat_ofNat_lt _ (by omega)]
  have e0 : (d * 16 + c == 0) = false := by simp; omega
  have e1 : (d * 16 + c) / 16 = d := by omega
  have e2 : (d * 16 + c) % 16 = c := by omega
  have e3 : (d != 0) = true := by simp; omega
  have e4 : ((d * 16 + c : Nat) : Int) / 16 = (d : Int) := by omega
  simp only [e0, e1, e2, e3, e4, Bool.false_eq_true, if_false, if_true, hof, hid']

/-- long form: whenever the writer does not choose the short form (no delta, or a delta outside 1..15), the ABSOLUTE id
is read back -/
theorem rField_wField_compact_long_gen (t : TType) (id : Int) (dl : Bool) (ht : isReal t = true)
    (hsel : (dl && decide (0 < id) && decide (id ≤ 15)) = false)
    (hid : -2 ^ 15 ≤ id ∧ id < 2 ^ 15) (rest : Bytes) :
    rField .compact (wField .compact t id dl ++ rest) = .ok ({ t := t, id := id, delta := false }, rest) := by
  obtain ⟨hc1, hc2⟩ := code_range t ht
  have hof := ofCode_code t ht
  have hns : (t == TType.stop) = false := by cases t <;> simp [isReal] at ht ⊢
  simp only [rField, wField, hns, Bool.false_eq_true, if_false, hsel, List.cons_append, List.nil_append,
    rByte, Res.bind, Gen.c_thrift_STOP]
  generalize t.code = c at *
  have := rI16_wI16 .compact id hid rest
  simp only [wI16] at this
  rw [toNat_ofNat_lt _ (by omega), this]
  have e0 : (c == 0) = false := by simp; omega
  have e1 : (c / 16 != 0) = false := by simp; omega
  simp only [e0, e1, Bool.false_eq_true, if_false, dontExpectEOF_ok, hof]

/-- long form -/
theorem rField_wField_compact_long (t : TType) (id : Int) (dl : Bool) (ht : isReal t = true)
    (hid : 15 < id ∧ id < 2 ^ 15) (rest : Bytes) :
    rField .compact (wField .compact t id dl ++ rest) = .ok ({ t := t, id := id, delta := false }, rest) := by
  have hid15 : ¬ id ≤ 15 := by omega
  exact rField_wField_compact_long_gen t id dl ht (by simp [hid15]) ⟨by omega, hid.2⟩ rest

/-! ### repaired: compactWriter.WriteField uses the short form only for `Delta && 0 < ID ≤ 15` -/

/-- an absolute id ≤ 15 (Delta = false) is written in the long form and read back as itself -/
example : rField .compact (wField .compact .i32 7 false ++ [9]) = .ok ({ t := .i32, id := 7, delta := false }, [9]) :=
  rField_wField_compact_long_gen .i32 7 false rfl rfl (by decide) [9]

/-- id 0 and negative ids go to the long form (zig-zag id), whatever `Delta` says -/
example : rField .compact (wField .compact .i32 0 true ++ [9]) = .ok ({ t := .i32, id := 0, delta := false }, [9]) :=
  rField_wField_compact_long_gen .i32 0 true rfl rfl (by decide) [9]
example : rField .compact (wField .compact .i32 (-1) true ++ [9]) = .ok ({ t := .i32, id := -1, delta := false }, [9]) :=
  rField_wField_compact_long_gen .i32 (-1) true rfl rfl (by decide) [9]

end Enc.Lemmas.ThriftPrim
