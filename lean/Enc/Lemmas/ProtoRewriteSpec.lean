import Enc.Lemmas.ProtoRewriteSpecFlat
/-!
# C19 — the proto rewriters against the record-level specification: final statements

Model: `Enc.Model.Proto.rewrite` (Go `MessageRewriter.Rewrite`, `multiRewriter`, `RawMessage.Rewrite`,
`embddedRewriter` with and without `merge` (`mergeOccurrences`), `replacement`, `Parse`, `Append`).
Specification: `Enc.Spec.Protobuf.specRw` over `Enc.Spec.Protobuf.parse`.
All six `Rw` constructors are covered by every theorem below; `rwOK` excludes no constructor.

1. `parseField_spec`, `parseField_encRec`   `Parse` / `Append` versus the reference parser
2. `rewrite_spec`                           main theorem (all six rewriter kinds), up to `Sim (hasEmb r)`
   `merge_sees_all_pieces`                  `mergeOccurrences` on a valid rest = the specification's `laterPieces`
   `rewrite_spec_exact`                     … exact equality `parse out = specRw …` without `embedded`/`embeddedMerge`
   `rewrite_spec_exact_of_canon`            … exact equality with `embedded` when the Go output is deep-canonical
   `rewrite_message_spec`                   message rewriter: + untemplated records are kept, in order, unchanged
   `flat_message_spec` (in `…SpecFlat`)     tables of valid raw templates: EVERY valid input, exact, no side condition
3. `rewrite_fine`, `never_panics`, `driver_fuel_suffices`, `driver_fuel_insufficient`,
   `rewrite_empty_table_canonical`
4. Findings (`finding_*`): concrete evaluations
-/
namespace Enc.Lemmas.ProtoRewriteSpec
open Enc Enc.Model.Proto Enc.Spec.Protobuf

/-! ## 1. `Parse` / `Append` versus the reference parser -/

/-- **`Parse` on a valid message**: on a non-empty input that the reference parser accepts (records `recs`), the Go
`Parse` returns the field number of the first record `(f, w)`, its wire type, its raw payload bytes `v` (`PayBytes`:
the chunk itself, or for VARINT the verbatim varint token, possibly non-minimal) and the rest `m`, which is again a
valid message with the remaining records.  `Append f t v`, in front of anything, is read back by the reference parser
as the same record `(f, w)` — and is byte-for-byte the canonical `encRec (f, w)` when the payload is canonical. -/
theorem parseField_spec {inp : Bytes} {recs : List (Nat × WireVal)} (hv : Valid inp recs) (hne : inp ≠ []) :
    ∃ f w tl t v m pre, recs = (f, w) :: tl ∧ inp = pre ++ m ∧ parseField inp = .ok (f, t, v, m) ∧
      t = wireNum w ∧ PayBytes w v ∧ Valid m tl ∧ m.length + 2 ≤ inp.length ∧
      (∀ fuel rest, parse (fuel + 1) (appendField f t v ++ rest) = (parse fuel rest).map ((f, w) :: ·)) ∧
      (∀ rest rr, Valid rest rr → Valid (appendField f t v ++ rest) ((f, w) :: rr)) ∧
      (v = specPayload w → appendField f t v = encRec (f, w)) := by
  obtain ⟨pre, m, n, w, t, v, tl, e1, e2, hm, tok⟩ := hv.first hne
  refine ⟨n, w, tl, t, v, m, pre, e2, e1, by rw [e1]; exact tok.field_pre m, tok.wt, tok.pay_exact, hm, ?_,
    tok.app_pre, fun rest rr h => tok.valid_app h, tok.app_canon⟩
  have := tok.len_pre
  rw [e1]; simp only [List.length_append]; omega

/-- a canonical record is a record token with the canonical payload -/
theorem rectok_encRec (r : Nat × WireVal) (hr : ProtoWire.RecOK r) :
    RecTok (encRec r) r.1 r.2 (wireNum r.2) (specPayload r.2) := by
  obtain ⟨n, w⟩ := r
  cases w with
  | varint v =>
    obtain ⟨h0, hn, hv⟩ := hr
    have tok := rectok_varint (leb128 (n * 8)) (leb128 v) (n * 8) v (vtok_leb128 _ (by omega)) (vtok_leb128 _ hv)
      (by omega) (by omega)
    have e : n * 8 / 8 = n := by omega
    rw [e] at tok; exact tok
  | i64 b =>
    obtain ⟨h0, hn, hb⟩ := hr
    have tok := rectok_fixed (leb128 (n * 8 + 1)) b (n * 8 + 1) 8 1 (.i64 b) (vtok_leb128 _ (by omega))
      (Or.inr ⟨rfl, rfl, rfl⟩) hb (by omega) (by omega)
    have e : (n * 8 + 1) / 8 = n := by omega
    rw [e] at tok; exact tok
  | len b =>
    obtain ⟨h0, hn, hb⟩ := hr
    have tok := rectok_len (leb128 (n * 8 + 2)) (leb128 b.length) b (n * 8 + 2) (vtok_leb128 _ (by omega))
      (vtok_leb128 _ hb) (by omega) (by omega)
    have e : (n * 8 + 2) / 8 = n := by omega
    rw [e] at tok; exact tok
  | i32 b =>
    obtain ⟨h0, hn, hb⟩ := hr
    have tok := rectok_fixed (leb128 (n * 8 + 5)) b (n * 8 + 5) 4 5 (.i32 b) (vtok_leb128 _ (by omega))
      (Or.inl ⟨rfl, rfl, rfl⟩) hb (by omega) (by omega)
    have e : (n * 8 + 5) / 8 = n := by omega
    rw [e] at tok; exact tok

/-- **byte-for-byte on canonical input**: `Parse` of a canonical record returns the canonical payload, and `Append`
of what `Parse` returned reproduces the record exactly -/
theorem parseField_encRec (r : Nat × WireVal) (hr : ProtoWire.RecOK r) (rest : Bytes) :
    parseField (encRec r ++ rest) = .ok (r.1, wireNum r.2, specPayload r.2, rest) ∧
      appendField r.1 (wireNum r.2) (specPayload r.2) = encRec r :=
  ⟨(rectok_encRec r hr).field_pre rest, (rectok_encRec r hr).app_canon rfl⟩

/-! ## 2. main theorem -/

/-- same wire types, in the same order -/
theorem Sim.types_eq {e : Bool} {a b : List (Nat × WireVal)} (h : Sim e a b) :
    a.map (fun q => wireNum q.2) = b.map (fun q => wireNum q.2) := by
  induction h with
  | nil e => rfl
  | same e r _ ih => simp [ih]
  | emb n x hv hs _ _ ih2 => simp only [List.map_cons, ih2]; rfl

/-- **C19, main theorem.**  For a well-formed rewriter `r` (`rwOK`: table indices inside the table, embedded field
numbers in `1 … 2^61-1`; any nesting of `raw`, `multi`, `message`, `embedded`, `embeddedMerge`, `replacement`), an input
small enough for 64-bit lengths (`sizeM r * (inp.length + 1) < 2^64`) and whenever the specification is defined on `inp`
(for `message` / `embedded` / `embeddedMerge` this says: `inp` is a VALID message, the raw templates that get used are
valid messages, the sub-messages that get rewritten are valid — for a table slot holding an `embeddedMerge`: the
CONCATENATION of all length-delimited occurrences of the field is a valid message) —
the Go rewriter returns `ok out` for every `fuel ≥ inp.length + fuelD r`, `out` is a VALID message, and its records
are the specification's records up to `Sim (hasEmb r)`.  In particular the input that the Go loop hands to an
`embddedRewriter{merge: true}` (`mergeOccurrences`) is the specification's `payload ++ laterPieces n rest`, and a
`replacement` rewrites from the empty input on both sides. -/
theorem rewrite_spec (r : Rw) (inp : Bytes) (sf : Nat) (recs : List (Nat × WireVal)) (hok : rwOK r = true)
    (hsz : sizeM r * (inp.length + 1) < 2 ^ 64) (hs : specRw sf (toSpec r) inp = some recs) :
    ∃ out recs', (∀ fuel, inp.length + fuelD r ≤ fuel → rewrite fuel r inp = .ok out) ∧
      parse (out.length + 1) out = some recs' ∧ Sim (hasEmb r) recs' recs := by
  obtain ⟨out, ⟨recs', hv, hsim⟩, hf⟩ :=
    (all_claims sf sf (Nat.le_refl _)).1 (hasEmb r) r inp inp recs hok (Or.inl rfl) id hsz hs
  exact ⟨out, recs', hf, hv, hsim⟩

/-- the same with the decidable hypothesis "the specification is defined" -/
theorem rewrite_spec' (r : Rw) (inp : Bytes) (sf : Nat) (hok : rwOK r = true)
    (hsz : sizeM r * (inp.length + 1) < 2 ^ 64) (hdef : (specRw sf (toSpec r) inp).isSome = true) :
    ∃ out recs' recs, (∀ fuel, inp.length + fuelD r ≤ fuel → rewrite fuel r inp = .ok out) ∧
      parse (out.length + 1) out = some recs' ∧ specRw sf (toSpec r) inp = some recs ∧ Sim (hasEmb r) recs' recs := by
  cases hs : specRw sf (toSpec r) inp with
  | none => rw [hs] at hdef; simp at hdef
  | some recs =>
    obtain ⟨out, recs', h1, h2, h3⟩ := rewrite_spec r inp sf recs hok hsz hs
    exact ⟨out, recs', recs, h1, h2, rfl, h3⟩

/-- **exact form** (`raw`, `multi`, `message`, `replacement`, nested in any way, no `embedded` / `embeddedMerge`): the
output is a valid message and its records are exactly the specification's -/
theorem rewrite_spec_exact (r : Rw) (inp : Bytes) (sf : Nat) (hok : rwOK r = true) (hne : hasEmb r = false)
    (hsz : sizeM r * (inp.length + 1) < 2 ^ 64) (hdef : (specRw sf (toSpec r) inp).isSome = true) :
    ∃ out, (∀ fuel, inp.length + fuelD r ≤ fuel → rewrite fuel r inp = .ok out) ∧
      parse (out.length + 1) out = specRw sf (toSpec r) inp := by
  obtain ⟨out, recs', recs, h1, h2, h3, h4⟩ := rewrite_spec' r inp sf hok hsz hdef
  rw [hne] at h4
  exact ⟨out, h1, by rw [h2, h3, h4.eq_of_false]⟩

/-- every LEN payload that is a valid message is canonically encoded, hereditarily -/
inductive DeepCanon : List (Nat × WireVal) → Prop
  | nil : DeepCanon []
  | cons (n : Nat) (w : WireVal) (rest : List (Nat × WireVal)) :
      (∀ x rx, w = .len x → Valid x rx → x = ProtoWire.encRecs rx) →
      (∀ x rx, w = .len x → Valid x rx → DeepCanon rx) → DeepCanon rest →
      DeepCanon ((n, w) :: rest)

theorem Sim.eq_of_deepCanon {e : Bool} {a b : List (Nat × WireVal)} (h : Sim e a b) : DeepCanon a → a = b := by
  induction h with
  | nil e => intro _; rfl
  | same e r _ ih =>
    intro hc
    cases hc with
    | cons n w rest _ _ hrest => rw [ih hrest]
  | emb n x hv hs _ ih1 ih2 =>
    intro hc
    cases hc with
    | cons n w rest hx hx' hrest =>
      have ex := hx x _ rfl hv
      have hcx := hx' x _ rfl hv
      rw [← ih1 hcx, ← ex, ih2 hrest]

/-- **exact form with `embedded`**: if the records of the Go output are deep-canonical (the bodies written below
`embedded` rewriters contain no non-minimal varints / lengths), they are exactly the specification's -/
theorem rewrite_spec_exact_of_canon (r : Rw) (inp : Bytes) (sf : Nat) (hok : rwOK r = true)
    (hsz : sizeM r * (inp.length + 1) < 2 ^ 64) (hdef : (specRw sf (toSpec r) inp).isSome = true) :
    ∃ out recs', (∀ fuel, inp.length + fuelD r ≤ fuel → rewrite fuel r inp = .ok out) ∧
      parse (out.length + 1) out = some recs' ∧
      (DeepCanon recs' → parse (out.length + 1) out = specRw sf (toSpec r) inp) := by
  obtain ⟨out, recs', recs, h1, h2, h3, h4⟩ := rewrite_spec' r inp sf hok hsz hdef
  exact ⟨out, recs', h1, h2, fun hc => by rw [h2, h3, h4.eq_of_deepCanon hc]⟩

/-- **`mergeOccurrences` = `laterPieces`**: when the rest `m` of the loop's input is a valid message with records `rest`,
the value handed to an `embddedRewriter{merge: true}` is `v` followed by the payloads of the later length-delimited
records of field `f`, in order -/
theorem merge_sees_all_pieces (f : Nat) (v m : Bytes) (rest : List (Nat × WireVal)) (number len : Nat)
    (rs : List (Nat × Rw)) (hv : parse (m.length + 1) m = some rest) :
    mergeInput (.embeddedMerge number len rs) f 2 v m = v ++ laterPieces f rest := by
  simp only [mergeInput]
  exact mergeOccurrences_valid f m.length m rest v hv (Nat.le_refl _)

/-- **message rewriter** (`MessageRewriter.Rewrite`): on a valid input with records `recs0`, when the specification
is defined, the output is a valid message with records `recs'` such that
  * `Sim e recs' result`: they are the specification's (`e = false`, i.e. equality, without `embedded` /
    `embeddedMerge` entries), and
  * the untemplated input records form a sublist of `recs'`: they are kept, in their original order, with identical
    values (3b). -/
theorem rewrite_message_spec (len : Nat) (rs : List (Nat × Rw)) (inp : Bytes) (recs0 result : List (Nat × WireVal))
    (sf : Nat) (hok : entsOK len rs = true) (hv : parse (inp.length + 1) inp = some recs0)
    (hsz : (20 + sizeMEnts rs) * (inp.length + 1) < 2 ^ 64)
    (hs : specMsg sf (toSpecEnts rs) recs0 [] = some result) :
    ∃ out recs', (∀ fuel, inp.length + 2 + rs.length + fuelDEnts rs ≤ fuel →
        rewrite fuel (.message len rs) inp = .ok out) ∧
      parse (out.length + 1) out = some recs' ∧ Sim (hasEmbEnts rs) recs' result ∧
      (recs0.filter fun q => (getRw rs q.1).isNone).Sublist recs' := by
  obtain ⟨out, recs', h1, h2, h3, h4⟩ :=
    msg_core sf (all_claims sf) (hasEmbEnts rs) len rs inp recs0 result hok hv id hsz hs
  exact ⟨out, recs', h4, h1, h2, h3⟩

/-! ## 3. corollaries -/

/-- (3a) the fuel the driver supplies, `4 * inp.length + 64`, suffices whenever `fuelD r ≤ 3 * inp.length + 64`
(`fuelD` = nesting depth × (2 + table width), roughly): then no panic and no fuel exhaustion, on ANY input -/
theorem driver_fuel_suffices (r : Rw) (inp : Bytes) (h : fuelD r ≤ 3 * inp.length + 64) :
    rewrite (4 * inp.length + 64) r inp ≠ .err "fuel" ∧ ∀ e, rewrite (4 * inp.length + 64) r inp ≠ .panic e :=
  rewrite_fine _ r inp (by omega)

/-- … and on inputs where the specification is defined it returns the `out` of the main theorem -/
theorem driver_fuel_spec (r : Rw) (inp : Bytes) (sf : Nat) (recs : List (Nat × WireVal)) (hok : rwOK r = true)
    (hsz : sizeM r * (inp.length + 1) < 2 ^ 64) (hs : specRw sf (toSpec r) inp = some recs)
    (h : fuelD r ≤ 3 * inp.length + 64) :
    ∃ out recs', rewrite (4 * inp.length + 64) r inp = .ok out ∧
      parse (out.length + 1) out = some recs' ∧ Sim (hasEmb r) recs' recs := by
  obtain ⟨out, recs', h1, h2, h3⟩ := rewrite_spec r inp sf recs hok hsz hs
  exact ⟨out, recs', h1 _ (by omega), h2, h3⟩

/-- a table with `k` raw entries at indices `1 … k` -/
def wide (k : Nat) : Rw := .message (k + 1) ((List.range k).map fun i => (i + 1, .raw [0x08, 0x01]))

/-- nested `embedded` rewriters of depth `d` around one raw template -/
def deep : Nat → Rw
  | 0 => .raw [0x08, 0x01]
  | d + 1 => .embedded 1 2 [(1, deep d)]

set_option maxRecDepth 8000 in
/-- (3a, finding) the driver's fuel does NOT suffice for every rewriter: a table with 63 templated fields and the empty
input needs 65 units (one per absent field + 2), the driver supplies 64; 22 nested `embedded` rewriters likewise.
The needed bound is `inp.length + fuelD r` (`rewrite_fine`). -/
theorem driver_fuel_insufficient :
    rewrite (4 * ([] : Bytes).length + 64) (wide 63) [] = .err "fuel" ∧
    rewrite (4 * ([] : Bytes).length + 64) (deep 22) [] = .err "fuel" ∧
    fuelD (wide 63) = 66 ∧ fuelD (deep 22) = 89 := by
  refine ⟨by decide, by decide, by decide, by decide⟩

/-- (3c) rewriting with an EMPTY table is the identity on canonical inputs (any `len`, any number of records) -/
theorem loop_empty_table (len : Nat) : ∀ (recs : List (Nat × WireVal)), (∀ r ∈ recs, ProtoWire.RecOK r) →
    ∀ (seen : List Nat) (fuel : Nat), recs.length + 1 ≤ fuel →
    rewriteLoop fuel len [] (ProtoWire.encRecs recs) seen = .ok (ProtoWire.encRecs recs, seen) := by
  intro recs
  induction recs with
  | nil =>
    intro _ seen fuel hf
    cases fuel with
    | zero => omega
    | succ f => exact rewriteLoop_nil f len [] seen
  | cons r tl ih =>
    intro hr seen fuel hf
    simp only [List.length_cons] at hf
    cases fuel with
    | zero => omega
    | succ f =>
      have tok := rectok_encRec r (hr r (by simp))
      have hne : ProtoWire.encRecs (r :: tl) ≠ [] := by
        have := ProtoWire.encRec_length_pos r
        intro h0
        have := congrArg List.length h0
        simp only [ProtoWire.encRecs_cons, List.length_append, List.length_nil] at this
        omega
      rw [rewriteLoop_step f len [] _ seen hne r.1 (wireNum r.2) (specPayload r.2) (ProtoWire.encRecs tl)
        (by rw [ProtoWire.encRecs_cons]; exact tok.field_pre _) rfl]
      simp only [getRw_nil]
      rw [ih (fun x hx => hr x (by simp [hx])) seen f (by omega)]
      simp only [Res.bind, tok.app_canon rfl, ProtoWire.encRecs_cons]

theorem rewrite_empty_table_canonical (len : Nat) (recs : List (Nat × WireVal)) (h : ∀ r ∈ recs, ProtoWire.RecOK r)
    (fuel : Nat) (hf : recs.length + 3 ≤ fuel) :
    rewrite fuel (.message len []) (ProtoWire.encRecs recs) = .ok (ProtoWire.encRecs recs) := by
  cases fuel with
  | zero => omega
  | succ f =>
    rw [rewrite_message, loop_empty_table len recs h [] f (by omega)]
    cases f with
    | zero => omega
    | succ f' => simp [Res.bind, rewriteAbsent_nil]

/-! ## 4. non-vacuity and findings (all evaluated by the kernel: `decide` / `rfl`) -/

theorem leb_small (n : Nat) (h : n < 128) : leb128 n = [UInt8.ofNat n] := by
  rw [leb128]; simp [h]

/-- non-vacuity, flat message rewriter: field 2 templated by the raw record `10 07`; input `1:1, 2:2, 3:"A", 2:3` -/
def exR : Rw := .message 3 [(2, .raw [0x10, 0x07])]
def exI : Bytes := [0x08, 0x01, 0x10, 0x02, 0x1a, 0x01, 0x41, 0x10, 0x03]

theorem ex_hyps : rwOK exR = true ∧ hasEmb exR = false ∧ sizeM exR * (exI.length + 1) < 2 ^ 64 ∧
    specRw 12 (toSpec exR) exI = some [(1, .varint 1), (2, .varint 7), (3, .len [0x41])] :=
  ⟨by decide, by decide, by decide, by rfl⟩

/-- … and what the theorem then says, checked directly: first occurrence replaced, second dropped, others kept -/
theorem ex_run : rewrite (exI.length + fuelD exR) exR exI = .ok [0x08, 0x01, 0x10, 0x07, 0x1a, 0x01, 0x41] := by
  decide

/-- the hypotheses of `flat_message_spec` hold for this table (and every valid input) -/
theorem ex_flat_hyps : rawOKEnts [(2, Rw.raw [0x10, 0x07])] = true ∧ (∀ p ∈ [(2, Rw.raw [0x10, 0x07])], p.1 < 3) := by
  refine ⟨by decide, by decide⟩

/-- non-vacuity with `embedded`: field 1 is a sub-message `{2:1}`; the embedded rewriter appends the absent templated
field `1:5` to it and splices `tag, length` in front -/
def exR2 : Rw := .message 2 [(1, .embedded 1 2 [(1, .raw [0x08, 0x05])])]
def exI2 : Bytes := [0x0a, 0x02, 0x10, 0x01]

theorem ex2_hyps : rwOK exR2 = true ∧ sizeM exR2 * (exI2.length + 1) < 2 ^ 64 ∧
    specRw 12 (toSpec exR2) exI2 = some [(1, .len [0x10, 0x01, 0x08, 0x05])] := by
  refine ⟨by decide, by decide, ?_⟩
  have : specRw 12 (toSpec exR2) exI2 = some [(1, .len (ProtoWire.encRecs [(2, .varint 1), (1, .varint 5)]))] := by
    rfl
  rw [this]
  simp [ProtoWire.encRecs, encRec, leb_small]

theorem ex2_run : rewrite (exI2.length + fuelD exR2) exR2 exI2 = .ok [0x0a, 0x04, 0x10, 0x01, 0x08, 0x05] := by
  decide

/-- non-vacuity with `embeddedMerge` (`embddedRewriter{merge: true}`) and `replacement`: field 1 is a singular message
field that arrives in TWO pieces `{1:1}` … `{2:2, 3:3}` with field 2 in between; its rewriter (template `2:7`) sees the
merged message `{1:1, 2:2, 3:3}`, keeps `1:1` and `3:3`, replaces `2:2`; the second piece is dropped from the outer message.  Field 2 is rewritten by a `replacement`
(new value `2:9`, independent of the old one). -/
def exR3 : Rw :=
  .message 3 [(1, .embeddedMerge 1 3 [(2, .raw [0x10, 0x07])]), (2, .replacement (.raw [0x10, 0x09]))]
def exI3 : Bytes := [0x0a, 0x02, 0x08, 0x01, 0x10, 0x05, 0x0a, 0x04, 0x10, 0x02, 0x18, 0x03]

theorem ex3_hyps : rwOK exR3 = true ∧ sizeM exR3 * (exI3.length + 1) < 2 ^ 64 ∧
    specRw 12 (toSpec exR3) exI3 = some [(1, .len [0x08, 0x01, 0x10, 0x07, 0x18, 0x03]), (2, .varint 9)] := by
  refine ⟨by decide, by decide, ?_⟩
  have : specRw 12 (toSpec exR3) exI3 =
      some [(1, .len (ProtoWire.encRecs [(1, .varint 1), (2, .varint 7), (3, .varint 3)])), (2, .varint 9)] := by
    rfl
  rw [this]
  simp [ProtoWire.encRecs, encRec, leb_small]

/-- the merged input the Go loop computes for this case, and the run: model and specification agree -/
theorem ex3_merge : mergeInput (.embeddedMerge 1 3 [(2, .raw [0x10, 0x07])]) 1 2 [0x08, 0x01]
    [0x10, 0x05, 0x0a, 0x04, 0x10, 0x02, 0x18, 0x03] = [0x08, 0x01, 0x10, 0x02, 0x18, 0x03] := by decide

theorem ex3_run : rewrite (exI3.length + fuelD exR3) exR3 exI3 =
    .ok [0x0a, 0x06, 0x08, 0x01, 0x10, 0x07, 0x18, 0x03, 0x10, 0x09] := by
  decide

/-- the same table with a plain `embedded` (no merge) rewrites the first piece only and drops the second: `3:3` is LOST
(and the template's `2:7` is appended as an absent field) — the behaviour before commit c0f6ba5 -/
theorem ex3_nomerge :
    rewrite 30 (.message 3 [(1, .embedded 1 3 [(2, .raw [0x10, 0x07])]), (2, .replacement (.raw [0x10, 0x09]))]) exI3 =
    .ok [0x0a, 0x04, 0x08, 0x01, 0x10, 0x07, 0x10, 0x09] := by
  decide

/-- **finding 1** (statement "records of the output = `specRw`" is FALSE below `embedded`): the sub-message
`08 81 00` (field 1 = 1, non-minimal varint) goes through an embedded rewriter with an empty table.  Go copies the
payload verbatim: the output record is `1: LEN 08 81 00`.  `specRw` re-encodes the body records canonically:
`1: LEN 08 01`.  Both are the same message (`Sim true`), not the same records. -/
def f1R : Rw := .message 2 [(1, .embedded 1 0 [])]
def f1I : Bytes := [0x0a, 0x03, 0x08, 0x81, 0x00]

theorem finding_embedded_noncanonical :
    rewrite 10 f1R f1I = .ok [0x0a, 0x03, 0x08, 0x81, 0x00] ∧
    parse 6 [0x0a, 0x03, 0x08, 0x81, 0x00] = some [(1, .len [0x08, 0x81, 0x00])] ∧
    specRw 10 (toSpec f1R) f1I = some [(1, .len [0x08, 0x01])] := by
  refine ⟨by decide, by rfl, ?_⟩
  have : specRw 10 (toSpec f1R) f1I = some [(1, .len (ProtoWire.encRecs [(1, .varint 1)]))] := by rfl
  rw [this]
  simp [ProtoWire.encRecs, encRec, leb_small]

/-- **finding 2**: the identity (3c) needs canonical TAGS and LENGTHS too — `Append` re-encodes them minimally while
the payload is copied verbatim: `88 00 01` (tag 8 in two bytes) becomes `08 01`; `0a 81 00 41` (length 1 in two bytes)
becomes `0a 01 41`; `08 81 00` (non-minimal payload) is unchanged. -/
theorem finding_append_canonicalises :
    rewrite 10 (.message 0 []) [0x88, 0x00, 0x01] = .ok [0x08, 0x01] ∧
    rewrite 10 (.message 0 []) [0x0a, 0x81, 0x00, 0x41] = .ok [0x0a, 0x01, 0x41] ∧
    rewrite 10 (.message 0 []) [0x08, 0x81, 0x00] = .ok [0x08, 0x81, 0x00] := by
  refine ⟨by decide, by decide, by decide⟩

/-- **finding 3**: the rewriter is more liberal than the reference parser — it copies a record with field number 0
(`00 01`), which is not a valid message (`parse` = none, `specRw` = none).  Outside the scope of C19 ("any VALID
encoded message"); recorded because the output is then not a valid message either. -/
theorem finding_field_zero :
    rewrite 10 (.message 0 []) [0x00, 0x01] = .ok [0x00, 0x01] ∧ parse 3 [0x00, 0x01] = none ∧
    specRw 10 (toSpec (.message 0 [])) [0x00, 0x01] = none := by
  refine ⟨by decide, by rfl, by rfl⟩

end Enc.Lemmas.ProtoRewriteSpec
