import Enc.Lemmas.JsonDecString
import Enc.Spec.Json.RoundTrip
/-!
# UTF-8 facts for the JSON string round trip (C14)

* `decodeRune_cases` — inversion of `utf8.DecodeRune`: ASCII, invalid (RuneError, 1), or a well-formed 2/3/4-byte form.
* `decodeRune_take_append` — a well-formed multi-byte form decodes the same whatever follows it.
* `encode_decode` — `EncodeRune (DecodeRune s) = s[:size]` for every well-formed form (UTF-8 round trip).
* `toValid_eq_model` — the specification `toValidUTF8` is the model's `coerceUTF8` (appendCoerceInvalidUTF8).
* `toValid_of_valid` — valid UTF-8 is left alone.
-/
namespace Enc.Lemmas.JsonRTUtf8
open Enc Enc.Utf8
open Enc.Spec.Json (toValidUTF8 coerceUTF8 validUTF8 ValidUTF8)
open Enc.Lemmas.JsonDecString (decodeRune_size_pos)

theorem cont_iff (c : UInt8) : cont c = true ↔ 0x80 ≤ c.toNat ∧ c.toNat ≤ 0xBF := by
  simp only [cont, Bool.and_eq_true, decide_eq_true_eq, UInt8.le_iff_toNat_le]
  simp

/-- the five ways `DecodeRune` can answer on a non-empty input -/
theorem decodeRune_cases (c : UInt8) (rest : Bytes) :
    (c.toNat < 0x80 ∧ decodeRune (c :: rest) = (c.toNat, 1)) ∨
    (0x80 ≤ c.toNat ∧ decodeRune (c :: rest) = (runeError, 1)) ∨
    (∃ c1 r', rest = c1 :: r' ∧ 0xC2 ≤ c.toNat ∧ c.toNat ≤ 0xDF ∧ cont c1 = true ∧
      decodeRune (c :: rest) = ((c.toNat - 0xC0) * 64 + (c1.toNat - 0x80), 2)) ∨
    (∃ c1 c2 r', rest = c1 :: c2 :: r' ∧ 0xE0 ≤ c.toNat ∧ c.toNat ≤ 0xEF ∧
      (if c.toNat == 0xE0 then 0xA0 else 0x80) ≤ c1.toNat ∧ c1.toNat ≤ (if c.toNat == 0xED then 0x9F else 0xBF) ∧
      cont c2 = true ∧
      decodeRune (c :: rest) = ((c.toNat - 0xE0) * 4096 + (c1.toNat - 0x80) * 64 + (c2.toNat - 0x80), 3)) ∨
    (∃ c1 c2 c3 r', rest = c1 :: c2 :: c3 :: r' ∧ 0xF0 ≤ c.toNat ∧ c.toNat ≤ 0xF4 ∧
      (if c.toNat == 0xF0 then 0x90 else 0x80) ≤ c1.toNat ∧ c1.toNat ≤ (if c.toNat == 0xF4 then 0x8F else 0xBF) ∧
      cont c2 = true ∧ cont c3 = true ∧
      decodeRune (c :: rest) =
        ((c.toNat - 0xF0) * 262144 + (c1.toNat - 0x80) * 4096 + (c2.toNat - 0x80) * 64 + (c3.toNat - 0x80), 4)) := by
  unfold decodeRune
  simp only []
  repeat' split
  all_goals first
    | (right; right; right; right; obtain ⟨h1, h2, h3, h4⟩ := ‹_ ∧ _ ∧ _ ∧ _›
       refine ⟨_, _, _, _, rfl, by omega, by omega, h1, h2, h3, h4, ?_⟩; (show (_, 4) = _); rfl)
    | (right; right; right; left; obtain ⟨h1, h2, h3⟩ := ‹_ ∧ _ ∧ _›
       refine ⟨_, _, _, rfl, by omega, by omega, h1, h2, h3, ?_⟩; (show (_, 3) = _); rfl)
    | (right; right; left; refine ⟨_, _, rfl, by omega, by omega, by assumption, ?_⟩; (show (_, 2) = _); rfl)
    | (left; refine ⟨?_, ?_⟩; (assumption); rfl)
    | (right; left; refine ⟨?_, ?_⟩; (omega); (show (runeError, 1) = _); rfl)

theorem ofNat_eq (n : Nat) (c : UInt8) (h : n = c.toNat) : UInt8.ofNat n = c := by subst h; simp

/-- a well-formed multi-byte form decodes the same whatever follows it -/
theorem decodeRune_take_append (c : UInt8) (rest : Bytes) (h : 2 ≤ (decodeRune (c :: rest)).2) (y : Bytes) :
    decodeRune ((c :: rest).take (decodeRune (c :: rest)).2 ++ y) = decodeRune (c :: rest) := by
  rcases decodeRune_cases c rest with ⟨_, e⟩ | ⟨_, e⟩ | ⟨c1, r', rfl, h1, h2, h3, e⟩ |
    ⟨c1, c2, r', rfl, h1, h2, h3, h4, h5, e⟩ | ⟨c1, c2, c3, r', rfl, h1, h2, h3, h4, h5, h6, e⟩
  · rw [e] at h; simp at h
  · rw [e] at h; simp at h
  · rw [e]
    have n1 : ¬ c.toNat < 0x80 := by omega
    simp [decodeRune, n1, h1, h2, h3]
  · rw [e]
    have n1 : ¬ c.toNat < 0x80 := by omega
    have n2 : ¬ (0xC2 ≤ c.toNat ∧ c.toNat ≤ 0xDF) := by omega
    simp only [List.take_succ_cons, List.take_zero, List.cons_append, List.nil_append, decodeRune, n1, n2, if_false]
    simp only [h1, h2, h3, h4, h5, and_self, if_true]
  · rw [e]
    have n1 : ¬ c.toNat < 0x80 := by omega
    have n2 : ¬ (0xC2 ≤ c.toNat ∧ c.toNat ≤ 0xDF) := by omega
    have n3 : ¬ (0xE0 ≤ c.toNat ∧ c.toNat ≤ 0xEF) := by omega
    simp only [List.take_succ_cons, List.take_zero, List.cons_append, List.nil_append, decodeRune, n1, n2, n3, if_false]
    simp only [h1, h2, h3, h4, h5, h6, and_self, if_true]

/-- UTF-8 round trip: re-encoding the rune of a well-formed form gives the form back -/
theorem encode_decode (c : UInt8) (rest : Bytes) (h : decodeRune (c :: rest) ≠ (runeError, 1)) :
    encodeRune (decodeRune (c :: rest)).1 = (c :: rest).take (decodeRune (c :: rest)).2 := by
  rcases decodeRune_cases c rest with ⟨h0, e⟩ | ⟨_, e⟩ | ⟨c1, r', rfl, h1, h2, h3, e⟩ |
    ⟨c1, c2, r', rfl, h1, h2, h3, h4, h5, e⟩ | ⟨c1, c2, c3, r', rfl, h1, h2, h3, h4, h5, h6, e⟩
  · rw [e]
    have : c < 0x80 := UInt8.lt_iff_toNat_lt.mpr (by simpa using h0)
    simp [Enc.Lemmas.JsonDecString.encodeRune_ascii c this]
  · exact absurd e h
  · rw [e]
    have b1 := (cont_iff c1).mp h3
    simp only [List.take_succ_cons, List.take_zero]
    generalize hr : (c.toNat - 0xC0) * 64 + (c1.toNat - 0x80) = r
    have k1 : ¬ ((0xD800 ≤ r ∧ r ≤ 0xDFFF) ∨ r > 0x10FFFF) := by omega
    have k2 : ¬ r < 0x80 := by omega
    have k3 : r < 0x800 := by omega
    simp only [encodeRune, k1, k2, k3, if_false, if_true]
    rw [ofNat_eq _ c (by omega), ofNat_eq _ c1 (by omega)]
  · rw [e]
    have b2 := (cont_iff c2).mp h5
    simp only [List.take_succ_cons, List.take_zero]
    generalize hr : (c.toNat - 0xE0) * 4096 + (c1.toNat - 0x80) * 64 + (c2.toNat - 0x80) = r
    have b1 : 0x80 ≤ c1.toNat ∧ c1.toNat ≤ 0xBF := by
      constructor
      · split at h3 <;> omega
      · split at h4 <;> omega
    have k1 : ¬ ((0xD800 ≤ r ∧ r ≤ 0xDFFF) ∨ r > 0x10FFFF) := by
      split at h4
      · rename_i hh; simp at hh; omega
      · rename_i hh; simp at hh; omega
    have k3 : ¬ r < 0x800 := by
      split at h3
      · rename_i hh; simp at hh; omega
      · rename_i hh; simp at hh; omega
    have k2 : ¬ r < 0x80 := by omega
    have k4 : r < 0x10000 := by omega
    simp only [encodeRune, k1, k2, k3, k4, if_false, if_true]
    rw [ofNat_eq _ c (by omega), ofNat_eq _ c1 (by omega), ofNat_eq _ c2 (by omega)]
  · rw [e]
    have b2 := (cont_iff c2).mp h5
    have b3 := (cont_iff c3).mp h6
    simp only [List.take_succ_cons, List.take_zero]
    generalize hr : (c.toNat - 0xF0) * 262144 + (c1.toNat - 0x80) * 4096 + (c2.toNat - 0x80) * 64 + (c3.toNat - 0x80) = r
    have b1 : 0x80 ≤ c1.toNat ∧ c1.toNat ≤ 0xBF := by
      constructor
      · split at h3 <;> omega
      · split at h4 <;> omega
    have k3 : ¬ r < 0x10000 := by
      split at h3
      · rename_i hh; simp at hh; omega
      · rename_i hh; simp at hh; omega
    have k1 : ¬ ((0xD800 ≤ r ∧ r ≤ 0xDFFF) ∨ r > 0x10FFFF) := by
      split at h4
      · rename_i hh; simp at hh; omega
      · rename_i hh; simp at hh; omega
    have k2 : ¬ r < 0x80 := by omega
    have k4 : ¬ r < 0x800 := by omega
    simp only [encodeRune, k1, k2, k3, k4, if_false]
    rw [ofNat_eq _ c (by omega), ofNat_eq _ c1 (by omega), ofNat_eq _ c2 (by omega), ofNat_eq _ c3 (by omega)]

theorem drop_len_le (c : UInt8) (r : Bytes) : ((c :: r).drop (decodeRune (c :: r)).2).length ≤ r.length := by
  have := decodeRune_size_pos c r
  simp only [List.length_drop, List.length_cons]; omega

theorem toValid_nil (f : Nat) : toValidUTF8 f [] = [] := by cases f <;> rfl

theorem toValid_cons (f : Nat) (c : UInt8) (r : Bytes) :
    toValidUTF8 (f + 1) (c :: r) =
      encodeRune (decodeRune (c :: r)).1 ++ toValidUTF8 f ((c :: r).drop (decodeRune (c :: r)).2) := by
  simp only [toValidUTF8]

/-- the fuel of `toValidUTF8` is irrelevant once it covers the input -/
theorem toValid_fuel (n : Nat) : ∀ (b : Bytes) (f f' : Nat), b.length ≤ n → b.length ≤ f → b.length ≤ f' →
    toValidUTF8 f b = toValidUTF8 f' b := by
  induction n with
  | zero =>
    intro b f f' hb _ _
    have : b = [] := List.eq_nil_of_length_eq_zero (by omega)
    subst this; rw [toValid_nil, toValid_nil]
  | succ n ih =>
    intro b f f' hb hf hf'
    match b, f, f', hb, hf, hf' with
    | [], f, f', _, _, _ => rw [toValid_nil, toValid_nil]
    | c :: r, f + 1, f' + 1, hb, hf, hf' =>
      have hl := drop_len_le c r
      simp only [List.length_cons] at hb hf hf'
      rw [toValid_cons, toValid_cons, ih _ f f' (by omega) (by omega) (by omega)]

theorem coerce_cons (c : UInt8) (r : Bytes) :
    coerceUTF8 (c :: r) =
      encodeRune (decodeRune (c :: r)).1 ++ coerceUTF8 ((c :: r).drop (decodeRune (c :: r)).2) := by
  have hl := drop_len_le c r
  unfold coerceUTF8
  rw [List.length_cons, toValid_cons]
  rw [toValid_fuel r.length _ r.length _ hl hl (Nat.le_refl _)]

theorem coerce_nil : coerceUTF8 [] = [] := rfl

/-- the specification is the model's `appendCoerceInvalidUTF8` over the whole string -/
theorem toValid_eq_model (n : Nat) : ∀ (b : Bytes) (f : Nat), b.length ≤ n → b.length ≤ f →
    Model.Json.coerceUTF8 f b = coerceUTF8 b := by
  induction n with
  | zero =>
    intro b f hb _
    have : b = [] := List.eq_nil_of_length_eq_zero (by omega)
    subst this; cases f <;> rfl
  | succ n ih =>
    intro b f hb hf
    match b, f, hb, hf with
    | [], f, _, _ => cases f <;> rfl
    | c :: r, f + 1, hb, hf =>
      have hl := drop_len_le c r
      have hp := decodeRune_size_pos c r
      simp only [List.length_cons] at hb hf
      rw [coerce_cons]
      simp only [Model.Json.coerceUTF8]
      rw [Nat.max_eq_left hp, ih _ f (by omega) (by omega)]

theorem model_coerce_eq (b : Bytes) (f : Nat) (hf : b.length ≤ f) : Model.Json.coerceUTF8 f b = coerceUTF8 b :=
  toValid_eq_model b.length b f (Nat.le_refl _) hf

theorem valid_cons (f : Nat) (c : UInt8) (r : Bytes) :
    validUTF8 (f + 1) (c :: r) =
      (!((decodeRune (c :: r)).1 == runeError && (decodeRune (c :: r)).2 == 1) &&
        validUTF8 f ((c :: r).drop (decodeRune (c :: r)).2)) := by
  simp only [validUTF8]

/-- valid UTF-8 is a fixed point of the coercion -/
theorem toValid_of_valid (n : Nat) : ∀ (b : Bytes) (f : Nat), b.length ≤ n → b.length ≤ f →
    validUTF8 f b = true → toValidUTF8 f b = b := by
  induction n with
  | zero =>
    intro b f hb _ _
    have : b = [] := List.eq_nil_of_length_eq_zero (by omega)
    subst this; exact toValid_nil f
  | succ n ih =>
    intro b f hb hf hv
    match b, f, hb, hf, hv with
    | [], f, _, _, _ => exact toValid_nil f
    | c :: r, f + 1, hb, hf, hv =>
      have hl := drop_len_le c r
      simp only [List.length_cons] at hb hf
      rw [valid_cons] at hv
      simp only [Bool.and_eq_true, Bool.not_eq_true'] at hv
      have hne : decodeRune (c :: r) ≠ (runeError, 1) := by
        intro e; rw [e] at hv; simp at hv
      rw [toValid_cons, ih _ f (by omega) (by omega) hv.2, encode_decode c r hne, List.take_append_drop]

theorem coerce_of_valid (s : Bytes) (h : ValidUTF8 s) : coerceUTF8 s = s :=
  toValid_of_valid s.length s s.length (Nat.le_refl _) (Nat.le_refl _) h

end Enc.Lemmas.JsonRTUtf8
