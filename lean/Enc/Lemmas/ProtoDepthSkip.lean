import Enc.Lemmas.ProtoDepth
/-!
# Unknown fields are skipped by the decoder WITH the nesting limit (`decode` / `decodeStruct` / `unmarshal`)

`Enc/Lemmas/ProtoDecode.lean` proves totality, the consumption bound and "an undeclared complete record is ignored" for the
decoder without the depth counter (`decodeU`). This file re-establishes them for the decoder as coded, with NO hypothesis
on the nesting of the type:

  * cheap consequences of the dichotomy `decode_eq_or_deep` (the extra outcome `.err "nestingTooDeep"` is neither a panic,
    nor the fuel error, nor a success): `decode_ne_panic`, `unmarshal_ne_panic`, `decode_ne_fuel`, `unmarshal_ne_fuel`,
    `decode_bound`, `decodeStruct_consumes_all`;
  * the loop lemmas, ported (they only look at the loop; the field decode calls are the same term on both sides):
    `decodeStruct_skip_unknown`, `decodeStruct_shift`, `decode_mono`, `decodeStruct_append`, `decodeStruct_skip_anywhere`;
  * `unmarshal_skip_front`, `unmarshal_skip_anywhere`.

All decoder-independent lemmas (`skipUnknown_*`, `carve_*`, `IsRecord`, `shift`, `shiftV`, `bind_*`) are those of ProtoDecode.
-/
namespace Enc.Lemmas.ProtoDepth
open Enc Enc.Model.Proto Enc.Lemmas.ProtoDecode

/-! ## consequences of the dichotomy -/

/-- **(A)** a codec tree without `unsupported` never panics, whatever the fuel, depth, bytes, target value and flags -/
theorem decode_ne_panic (fuel d : Nat) (c : Codec) (b : Bytes) (cur : Val) (fl : Flags) (e : String)
    (hc : Codec.Supported c = true) : decode fuel d c b cur fl ≠ .panic e := by
  rcases decode_eq_or_deep fuel d c b cur fl with h | h
  · rw [h]; exact ProtoDecode.decode_ne_panic fuel c b cur fl e hc
  · rw [h]; simp

theorem decodeStruct_ne_panic (fuel d : Nat) (fs : CFields) (b : Bytes) (lenB : Nat) (vs : Vals) (fl : Flags)
    (off : Nat) (e : String) (hfs : CFields.Supported fs = true) :
    decodeStruct fuel d fs b lenB vs fl off ≠ .panic e := by
  rcases decodeStruct_eq_or_deep fuel d fs b lenB vs fl off with h | h
  · rw [h]; exact ProtoDecode.decodeStruct_ne_panic fuel fs b lenB vs fl off e hfs
  · rw [h]; simp

/-- **(A)** at the entry point -/
theorem unmarshal_ne_panic (t : Ty) (b : Bytes) (e : String) (h : Codec.Supported (codecOf t) = true) :
    unmarshal t b ≠ .panic e := by
  rcases unmarshal_eq_or_deep t b with h' | h'
  · rw [h']; exact ProtoDecode.unmarshal_ne_panic t b e h
  · rw [h']; simp

/-- **(D)** fuel `len(b) + height(c)` is never exhausted -/
theorem decode_ne_fuel (fuel d : Nat) (c : Codec) (b : Bytes) (cur : Val) (fl : Flags)
    (h : b.length + Codec.height c ≤ fuel) : decode fuel d c b cur fl ≠ .err "fuel" := by
  rcases decode_eq_or_deep fuel d c b cur fl with h' | h'
  · rw [h']; exact ProtoDecode.decode_ne_fuel fuel c b cur fl h
  · rw [h']; simp

theorem decodeStruct_ne_fuel (fuel d : Nat) (fs : CFields) (b : Bytes) (lenB : Nat) (vs : Vals) (fl : Flags)
    (off : Nat) (h : b.length + CFields.height fs + 1 ≤ fuel) :
    decodeStruct fuel d fs b lenB vs fl off ≠ .err "fuel" := by
  rcases decodeStruct_eq_or_deep fuel d fs b lenB vs fl off with h' | h'
  · rw [h']; exact ProtoDecode.decodeStruct_ne_fuel fuel fs b lenB vs fl off h
  · rw [h']; simp

/-- `Unmarshal` never reports the model's fuel error -/
theorem unmarshal_ne_fuel (t : Ty) (b : Bytes) : unmarshal t b ≠ .err "fuel" := by
  rcases unmarshal_eq_or_deep t b with h' | h'
  · rw [h']; exact ProtoDecode.unmarshal_ne_fuel t b
  · rw [h']; simp

/-- **(B)** a successful decode never claims more bytes than it was given -/
theorem decode_bound (fuel d : Nat) (c : Codec) (b : Bytes) (cur : Val) (fl : Flags) (v : Val) (n : Nat)
    (h : decode fuel d c b cur fl = .ok (v, n)) : n ≤ b.length := by
  rcases decode_eq_or_deep fuel d c b cur fl with h' | h'
  · rw [h'] at h; exact ProtoDecode.decode_bound fuel c b cur fl v n h
  · rw [h'] at h; simp at h

/-- **(B)** the struct loop only ends successfully at the end of its buffer -/
theorem decodeStruct_consumes_all (fuel d : Nat) (fs : CFields) (b : Bytes) (lenB : Nat) (vs : Vals) (fl : Flags)
    (off : Nat) (vs' : Vals) (n : Nat) (h : decodeStruct fuel d fs b lenB vs fl off = .ok (vs', n)) :
    n = off + b.length := by
  rcases decodeStruct_eq_or_deep fuel d fs b lenB vs fl off with h' | h'
  · rw [h'] at h; exact ProtoDecode.decodeStruct_consumes_all fuel fs b lenB vs fl off vs' n h
  · rw [h'] at h; simp at h

/-! ## the loop -/

/-- one unfolding of the struct loop, with the carve step named -/
theorem decodeStruct_succ (fuel d : Nat) (fs : CFields) (b : Bytes) (lenB : Nat) (vs : Vals) (fl : Flags)
    (offset : Nat) :
    decodeStruct (fuel + 1) d fs b lenB vs fl offset =
      if b.isEmpty then .ok (vs, offset)
      else
        match decodeVarint b with
        | .err e => .err e
        | .panic e => .panic e
        | .ok (tag, n) =>
          match lookupField fs (tag >>> 3).toNat with
          | none =>
            (skipUnknown (tag &&& 7#64).toNat (b.drop n) lenB).bind fun skip =>
              decodeStruct fuel d fs ((b.drop n).drop skip) lenB vs fl (offset + n + skip)
          | some (i, emb, zz, c) =>
            if (tag &&& 7#64).toNat != c.wire.num then .err "wireType"
            else
              (carve (tag &&& 7#64).toNat (b.drop n) lenB (offset + n) emb).bind fun (data, pre) =>
                (decode fuel d c data (Vals.get vs i) { fl with zigzag := fl.zigzag || zz }).bind fun (v, m) =>
                  decodeStruct fuel d fs ((b.drop n).drop (pre + m)) lenB (Vals.set vs i v) fl
                    (offset + n + pre + m) := by
  rw [decodeStruct]; rfl

/-- **(C)** a complete record whose field number is not declared is skipped: one loop iteration, values untouched,
offset advanced by the record length. -/
theorem decodeStruct_skip_unknown (fuel d : Nat) (fs : CFields) (number : Nat) (rec rest : Bytes) (lenB : Nat)
    (vs : Vals) (fl : Flags) (off : Nat) (hlk : lookupField fs number = none) (hrec : IsRecord number rec)
    (hlen : rec.length ≤ lenB) :
    decodeStruct (fuel + 1) d fs (rec ++ rest) lenB vs fl off
      = decodeStruct fuel d fs rest lenB vs fl (off + rec.length) := by
  obtain ⟨t, p, tag, ht, hnum, hp⟩ := hrec
  have hne : (t ++ p ++ rest).isEmpty = false := by
    have := ht.pos
    cases t with
    | nil => simp at this
    | cons x xs => rfl
  have htag : decodeVarint (t ++ p ++ rest) = .ok (tag, t.length) := by
    rw [List.append_assoc]; exact ht.append _
  have hdrop : (t ++ p ++ rest).drop t.length = p ++ rest := by
    rw [List.append_assoc]; simp
  simp only [List.length_append] at hlen
  rw [decodeStruct_succ]
  simp only [hne, htag, hnum, hlk, hdrop, Bool.false_eq_true, if_false]
  rw [skipUnknown_payload _ p rest lenB hp (by omega)]
  simp [Res.bind, Nat.add_assoc]

/-- translating the window (see `ProtoDecode.decodeStruct_shift`) -/
theorem decodeStruct_shift (fuel : Nat) : ∀ (d : Nat) (fs : CFields) (b : Bytes) (lenB : Nat) (vs : Vals) (fl : Flags)
    (off k : Nat), off + b.length ≤ lenB →
    decodeStruct fuel d fs b (lenB + k) vs fl (off + k) = shift k (decodeStruct fuel d fs b lenB vs fl off) := by
  induction fuel with
  | zero => intros; simp [decodeStruct, shift]
  | succ fuel ih =>
    intro d fs b lenB vs fl off k hinv
    rw [decodeStruct_succ, decodeStruct_succ]
    by_cases hb : b.isEmpty = true
    · simp [hb, shift]
    · simp only [hb, Bool.false_eq_true, ↓reduceIte]
      cases hd : decodeVarint b with
      | err e => simp [shift]
      | panic e => simp [shift]
      | ok a =>
        obtain ⟨tag, n⟩ := a
        have hn := decodeVarint_consumes b tag n hd
        simp only []
        cases hlk : lookupField fs (tag >>> 3).toNat with
        | none =>
          simp only []
          rw [skipUnknown_lenB _ _ (lenB + k) lenB (by simp; omega) (by simp; omega)]
          cases hs : skipUnknown (tag &&& 7#64).toNat (b.drop n) lenB with
          | err e => simp [Res.bind, shift]
          | panic e => simp [Res.bind, shift]
          | ok skip =>
            have := skipUnknown_bound _ _ _ _ hs
            simp only [Res.bind]
            have e : off + k + n + skip = (off + n + skip) + k := by omega
            rw [e]
            exact ih _ _ _ _ _ _ _ _ (by simp at this ⊢; omega)
        | some r =>
          obtain ⟨i, emb, zz, c⟩ := r
          simp only []
          by_cases hw : ((tag &&& 7#64).toNat != c.wire.num) = true
          · simp only [hw, ↓reduceIte, shift]
          · simp only [hw, Bool.false_eq_true, ↓reduceIte]
            rw [carve_shift]
            cases hc : carve (tag &&& 7#64).toNat (b.drop n) lenB (off + n) emb with
            | err e => simp [Res.bind, shift]
            | panic e => simp [Res.bind, shift]
            | ok a =>
              obtain ⟨data, pre⟩ := a
              have hcb := carve_bound _ _ _ _ _ _ _ hc
              simp only [Res.bind]
              cases hdec : decode fuel d c data (Vals.get vs i) { fl with zigzag := fl.zigzag || zz } with
              | err e => simp [shift]
              | panic e => simp [shift]
              | ok a =>
                obtain ⟨v, m⟩ := a
                have hm := ProtoDepth.decode_bound _ _ _ _ _ _ _ _ hdec
                simp only []
                have e : off + k + n + pre + m = (off + n + pre + m) + k := by omega
                rw [e]
                exact ih _ _ _ _ _ _ _ _ (by simp at hcb ⊢; omega)

/-- **(C), struct level**: an undeclared complete record in FRONT of a struct body changes neither the decoded
value nor the error (in particular not the "nestingTooDeep" verdict, which is taken before a byte is read). -/
theorem decode_struct_skip_front (fuel d : Nat) (fs : CFields) (number : Nat) (rec body : Bytes) (cur : Val)
    (fl : Flags) (hlk : lookupField fs number = none) (hrec : IsRecord number rec) :
    decode (fuel + 2) d (.struct fs) (rec ++ body) cur fl
      = shiftV rec.length (decode (fuel + 1) d (.struct fs) body cur fl) := by
  simp only [decode]
  split
  · rfl
  · cases cur with
    | struct vs =>
      simp only []
      rw [decodeStruct_skip_unknown fuel (d + 1) fs number rec body _ vs _ 0 hlk hrec (by simp)]
      have e : (rec ++ body).length = body.length + rec.length := by simp; omega
      rw [e, decodeStruct_shift fuel (d + 1) fs body body.length vs _ 0 rec.length (by simp)]
      cases decodeStruct fuel (d + 1) fs body body.length vs { fl with toplevel := false } 0 with
      | ok a => obtain ⟨vs', n⟩ := a; rfl
      | err e => rfl
      | panic e => rfl
    | _ => rfl

/-! ## fuel -/

theorem decode_mono_aux (fuel : Nat) :
    (∀ fuel' d c b cur fl, fuel ≤ fuel' → decode fuel d c b cur fl ≠ .err "fuel" →
      decode fuel' d c b cur fl = decode fuel d c b cur fl) ∧
    (∀ fuel' d fs b lenB vs fl off, fuel ≤ fuel' → decodeStruct fuel d fs b lenB vs fl off ≠ .err "fuel" →
      decodeStruct fuel' d fs b lenB vs fl off = decodeStruct fuel d fs b lenB vs fl off) := by
  induction fuel with
  | zero => simp [decode, decodeStruct]
  | succ fuel ih =>
    obtain ⟨ihd, ihs⟩ := ih
    constructor
    · intro fuel' d c b cur fl hle h
      cases fuel' with
      | zero => omega
      | succ k =>
        cases c <;> simp only [decode] at h ⊢
        case ptr c' =>
          exact bind_mono _ _ _ _ (fun hne => ihd k d c' b _ fl (by omega) hne) (fun a _ _ => rfl) h
        case struct fs =>
          by_cases hd : d + 1 > Gen.c_proto_maxDepth
          · rw [if_pos hd, if_pos hd]
          · rw [if_neg hd] at h ⊢
            rw [if_neg hd]
            cases cur with
            | struct vs =>
              exact bind_mono _ _ _ _ (fun hne => ihs k (d + 1) fs b _ vs _ 0 (by omega) hne) (fun a _ _ => rfl) h
            | _ => rfl
        case slice elem number wire emb =>
          have hne : decode fuel d elem b (zeroOfCodec elem) {} ≠ .err "fuel" := by
            intro hc; rw [hc] at h; exact h rfl
          rw [ihd k d elem _ _ _ (by omega) hne]
        case map number kc vc kEmb vEmb entry =>
          by_cases hb : b.isEmpty = true
          · simp only [hb, if_true]
          · simp only [hb, Bool.false_eq_true, ↓reduceIte] at h ⊢
            have hne : decode fuel d entry b (zeroOfCodec entry) {} ≠ .err "fuel" := by
              intro hc; rw [hc] at h; exact h rfl
            rw [ihd k d entry _ _ _ (by omega) hne]
    · intro fuel' d fs b lenB vs fl off hle h
      cases fuel' with
      | zero => omega
      | succ k =>
        rw [decodeStruct_succ] at h
        rw [decodeStruct_succ, decodeStruct_succ]
        by_cases hb : b.isEmpty = true
        · simp only [hb, if_true]
        · simp only [hb, Bool.false_eq_true, ↓reduceIte] at h ⊢
          cases hd : decodeVarint b with
          | err e => rfl
          | panic e => rfl
          | ok a =>
            obtain ⟨tag, n⟩ := a
            rw [hd] at h
            simp only [] at h ⊢
            cases hlk : lookupField fs (tag >>> 3).toNat with
            | none =>
              simp only [hlk] at h ⊢
              refine bind_mono _ _ _ _ (fun _ => rfl) ?_ h
              intro skip _ h2
              exact ihs k _ _ _ _ _ _ _ (by omega) h2
            | some r =>
              obtain ⟨i, emb, zz, c⟩ := r
              simp only [hlk] at h ⊢
              by_cases hw : ((tag &&& 7#64).toNat != c.wire.num) = true
              · simp only [hw, ↓reduceIte]
              · simp only [hw, Bool.false_eq_true, ↓reduceIte] at h ⊢
                refine bind_mono _ _ _ _ (fun _ => rfl) ?_ h
                intro ⟨data, pre⟩ _ h2
                refine bind_mono _ _ _ _ (fun hne => ihd k d c _ _ _ (by omega) hne) ?_ h2
                intro ⟨v, m⟩ _ h3
                exact ihs k _ _ _ _ _ _ _ (by omega) h3

/-- a result that is not the fuel error is stable under adding fuel -/
theorem decode_mono (fuel fuel' d : Nat) (c : Codec) (b : Bytes) (cur : Val) (fl : Flags) (hle : fuel ≤ fuel')
    (h : decode fuel d c b cur fl ≠ .err "fuel") : decode fuel' d c b cur fl = decode fuel d c b cur fl :=
  (decode_mono_aux fuel).1 fuel' d c b cur fl hle h

theorem decodeStruct_mono (fuel fuel' d : Nat) (fs : CFields) (b : Bytes) (lenB : Nat) (vs : Vals) (fl : Flags)
    (off : Nat) (hle : fuel ≤ fuel') (h : decodeStruct fuel d fs b lenB vs fl off ≠ .err "fuel") :
    decodeStruct fuel' d fs b lenB vs fl off = decodeStruct fuel d fs b lenB vs fl off :=
  (decode_mono_aux fuel).2 fuel' d fs b lenB vs fl off hle h

/-- any two sufficient amounts of fuel give the same result -/
theorem decode_fuel_irrelevant (f1 f2 d : Nat) (c : Codec) (b : Bytes) (cur : Val) (fl : Flags)
    (h1 : b.length + Codec.height c ≤ f1) (h2 : b.length + Codec.height c ≤ f2) :
    decode f1 d c b cur fl = decode f2 d c b cur fl := by
  rw [decode_mono _ f1 d c b cur fl h1 (ProtoDepth.decode_ne_fuel _ d c b cur fl (Nat.le_refl _)),
    decode_mono _ f2 d c b cur fl h2 (ProtoDepth.decode_ne_fuel _ d c b cur fl (Nat.le_refl _))]

/-- with enough fuel, the result equals the result at any fuel that did not run out -/
theorem decode_fuel_eq (fa F d : Nat) (c : Codec) (b : Bytes) (cur : Val) (fl : Flags)
    (ha : decode fa d c b cur fl ≠ .err "fuel") (hF : b.length + Codec.height c ≤ F) :
    decode F d c b cur fl = decode fa d c b cur fl := by
  rw [← decode_mono fa (max fa F) d c b cur fl (Nat.le_max_left _ _) ha,
    decode_mono F (max fa F) d c b cur fl (Nat.le_max_right _ _) (ProtoDepth.decode_ne_fuel F d c b cur fl hF)]

/-! ## `unmarshal` level, record in front -/

theorem depth0_ok : ¬ (0 + 1 > Gen.c_proto_maxDepth) := by decide

theorem decode_struct_succ (f d : Nat) (fs : CFields) (b : Bytes) (vs : Vals) (fl : Flags)
    (hd : ¬ (d + 1 > Gen.c_proto_maxDepth)) :
    decode (f + 1) d (.struct fs) b (.struct vs) fl
      = (decodeStruct f (d + 1) fs b b.length vs { fl with toplevel := false } 0).bind
          fun (x : Vals × Nat) => .ok (.struct x.1, x.2) := by
  simp only [decode]
  rw [if_neg hd]

theorem decode_struct_empty (fuel d : Nat) (fs : CFields) (vs : Vals) (fl : Flags)
    (hd : ¬ (d + 1 > Gen.c_proto_maxDepth)) :
    decode (fuel + 2) d (.struct fs) [] (.struct vs) fl = .ok (.struct vs, 0) := by
  rw [decode_struct_succ _ _ _ _ _ _ hd]
  simp [decodeStruct, Res.bind]

/-- **(C), `Unmarshal` level**: for a struct type, prepending a complete record with an undeclared field number to
the input does not change the result of `unmarshal` (value or error). -/
theorem unmarshal_skip_front_gen (t : Ty) (fs : CFields) (vs : Vals) (number : Nat) (rec body : Bytes)
    (hc : codecOf t = .struct fs) (hz : zeroOf t = .struct vs)
    (hlk : lookupField fs number = none) (hrec : IsRecord number rec) :
    unmarshal t (rec ++ body) = unmarshal t body := by
  obtain ⟨tb, p, tag, ht, _, _⟩ := id hrec
  have hpos : 0 < (tb ++ p).length := by have := ht.pos; simp; omega
  generalize tb ++ p = rec at *
  have hne : (rec ++ body).isEmpty = false := by
    cases rec with
    | nil => simp at hpos
    | cons x xs => rfl
  unfold unmarshal
  rw [hc, hz]
  simp only [hne, Bool.false_eq_true, ↓reduceIte]
  have hF : 2 * (rec ++ body).length + 8 + Codec.height (.struct fs)
      = (Codec.height (.struct fs) + 2 * rec.length + 2 * body.length + 6) + 2 := by
    simp only [List.length_append]; omega
  rw [hF, decode_struct_skip_front _ 0 fs number rec body _ _ hlk hrec]
  by_cases hb : body = []
  · subst hb
    rw [decode_struct_empty _ _ _ _ _ depth0_ok]
    simp [shiftV]
  · have hbe : body.isEmpty = false := by simpa using hb
    simp only [hbe, Bool.false_eq_true, ↓reduceIte]
    rw [decode_fuel_irrelevant (Codec.height (.struct fs) + 2 * rec.length + 2 * body.length + 6 + 1)
      (2 * body.length + 8 + Codec.height (.struct fs)) 0 (.struct fs) body
      (.struct vs) _ (by omega) (by omega)]
    cases decode (2 * body.length + 8 + Codec.height (.struct fs)) 0 (.struct fs) body (.struct vs)
        { toplevel := true } with
    | ok a =>
      obtain ⟨v, n⟩ := a
      simp only [shiftV, List.length_append]
      by_cases hn : n < body.length
      · have : n + rec.length < rec.length + body.length := by omega
        simp [hn, this]
      · have : ¬ n + rec.length < rec.length + body.length := by omega
        simp [hn, this]
    | err e => rfl
    | panic e => rfl

/-- **(C)** `proto.Unmarshal` into a struct type ignores a complete record with an undeclared field number placed in
front of the input — whatever the nesting of the type (no hypothesis relating it to `maxDepth`). -/
theorem unmarshal_skip_front (Fs : Fields) (number : Nat) (rec body : Bytes)
    (hlk : lookupField (fieldsOf 1 Fs) number = none) (hrec : IsRecord number rec) :
    unmarshal (.struct Fs) (rec ++ body) = unmarshal (.struct Fs) body :=
  unmarshal_skip_front_gen (.struct Fs) (fieldsOf 1 Fs) (zeroFields Fs) number rec body
    (by simp [codecOf]) (by simp [zeroOf]) hlk hrec

/-! ## concatenation (split) theorem and insertion anywhere -/

/-- **split theorem** for the struct loop of the depth-limited decoder (see `ProtoDecode.decodeStruct_append`) -/
theorem decodeStruct_append (f1 : Nat) : ∀ (d : Nat) (fs : CFields) (pre rest : Bytes) (L : Nat) (vs : Vals) (fl : Flags)
    (off : Nat) (vs1 : Vals) (n1 f2 : Nat) (r : Res (Vals × Nat)),
    L = off + pre.length →
    decodeStruct f1 d fs pre L vs fl off = .ok (vs1, n1) →
    decodeStruct f2 d fs rest (L + rest.length) vs1 fl L = r →
    r ≠ .err "fuel" →
    decodeStruct (f1 + f2) d fs (pre ++ rest) (L + rest.length) vs fl off = r := by
  induction f1 with
  | zero => intros; simp_all [decodeStruct]
  | succ f1 ih =>
    intro d fs pre rest L vs fl off vs1 n1 f2 r hL h hr hne
    rw [decodeStruct_succ] at h
    by_cases hb : pre.isEmpty = true
    · simp only [hb, if_true, Res.ok.injEq, Prod.mk.injEq] at h
      have hpre : pre = [] := by simpa using hb
      subst hpre
      obtain ⟨rfl, _⟩ := h
      simp only [List.length_nil, Nat.add_zero] at hL
      subst hL
      rw [List.nil_append, ← hr]
      exact decodeStruct_mono f2 _ _ _ _ _ _ _ _ (by omega) (by rw [hr]; exact hne)
    · simp only [hb, Bool.false_eq_true, ↓reduceIte] at h
      have hne' : (pre ++ rest).isEmpty = false := by
        cases pre with
        | nil => simp at hb
        | cons x xs => rfl
      cases hd : decodeVarint pre with
      | err e => rw [hd] at h; simp at h
      | panic e => rw [hd] at h; simp at h
      | ok a =>
        obtain ⟨tag, n⟩ := a
        rw [hd] at h
        simp only [] at h
        have hn := decodeVarint_consumes pre tag n hd
        have e : f1 + 1 + f2 = (f1 + f2) + 1 := by omega
        rw [e, decodeStruct_succ]
        simp only [hne', Bool.false_eq_true, ↓reduceIte, decodeVarint_append pre rest tag n hd,
          List.drop_append_of_le_length hn.2]
        cases hlk : lookupField fs (tag >>> 3).toNat with
        | none =>
          rw [hlk] at h
          simp only [] at h ⊢
          obtain ⟨skip, h1, h2⟩ := bind_ok _ _ _ h
          have hsb := skipUnknown_bound _ _ _ _ h1
          rw [skipUnknown_append _ _ rest L (L + rest.length) skip h1
            (by simp only [List.length_drop] at hsb ⊢; omega)]
          simp only [Res.bind, List.drop_append_of_le_length hsb]
          exact ih d fs _ rest L vs fl _ vs1 n1 f2 r (by simp only [List.length_drop] at hsb ⊢; omega) h2 hr hne
        | some x =>
          obtain ⟨i, emb, zz, c⟩ := x
          rw [hlk] at h
          simp only [] at h ⊢
          by_cases hw : ((tag &&& 7#64).toNat != c.wire.num) = true
          · simp only [hw, ↓reduceIte] at h
            cases h
          · simp only [hw, Bool.false_eq_true, ↓reduceIte] at h ⊢
            obtain ⟨⟨data, pr⟩, h1, h2⟩ := bind_ok _ _ _ h
            obtain ⟨⟨v, m⟩, h3, h4⟩ := bind_ok _ _ _ h2
            have hcb := carve_bound _ _ _ _ _ _ _ h1
            have hm : m ≤ data.length := ProtoDepth.decode_bound _ _ _ _ _ _ _ _ h3
            rw [carve_append _ _ rest L _ emb data pr h1 (by simp only [List.length_drop]; omega)]
            simp only [Res.bind]
            rw [decode_mono f1 (f1 + f2) d c data _ _ (by omega) (by rw [h3]; simp), h3]
            simp only []
            rw [List.drop_append_of_le_length (by omega)]
            exact ih d fs _ rest L _ fl _ vs1 n1 f2 r (by simp only [List.length_drop] at hcb ⊢; omega) h4 hr hne

/-- **(C), anywhere, loop level** -/
theorem decodeStruct_skip_anywhere (f1 f2 d : Nat) (fs : CFields) (number : Nat) (pre rec rest : Bytes)
    (vs vs1 : Vals) (fl : Flags) (n1 : Nat)
    (hlk : lookupField fs number = none) (hrec : IsRecord number rec)
    (hpre : decodeStruct f1 d fs pre pre.length vs fl 0 = .ok (vs1, n1))
    (hfuel : decodeStruct f2 d fs rest (pre.length + rest.length) vs1 fl pre.length ≠ .err "fuel") :
    decodeStruct (f1 + (f2 + 1)) d fs (pre ++ (rec ++ rest)) (pre.length + (rec ++ rest).length) vs fl 0
      = shift rec.length (decodeStruct (f1 + f2) d fs (pre ++ rest) (pre.length + rest.length) vs fl 0) := by
  have hR := decodeStruct_append f1 d fs pre rest pre.length vs fl 0 vs1 n1 f2 _ (by omega) hpre rfl hfuel
  rw [hR]
  have h1 : decodeStruct (f2 + 1) d fs (rec ++ rest) (pre.length + (rec ++ rest).length) vs1 fl pre.length
      = shift rec.length (decodeStruct f2 d fs rest (pre.length + rest.length) vs1 fl pre.length) := by
    rw [decodeStruct_skip_unknown f2 d fs number rec rest _ vs1 fl _ hlk hrec
      (by simp only [List.length_append]; omega)]
    have e : pre.length + (rec ++ rest).length = (pre.length + rest.length) + rec.length := by
      simp only [List.length_append]; omega
    rw [e]
    exact decodeStruct_shift f2 d fs rest _ vs1 fl pre.length rec.length (Nat.le_refl _)
  exact decodeStruct_append f1 d fs pre (rec ++ rest) pre.length vs fl 0 vs1 n1 (f2 + 1) _ (by omega) hpre h1
    (shift_ne_fuel _ _ hfuel)

/-- **(C), anywhere, message level**: `pre` decodes successfully on its own at depth `d`, `rec` is a complete record with
an undeclared number; then `pre ++ rec ++ rest` decodes exactly like `pre ++ rest` (same value, same error — including
"nestingTooDeep" raised further down in `rest`), the consumed count being `len(rec)` larger. -/
theorem decode_struct_skip_anywhere (F F0 d : Nat) (fs : CFields) (number : Nat) (pre rec rest : Bytes)
    (cur : Val) (fl : Flags) (v1 : Val) (n1 : Nat)
    (hlk : lookupField fs number = none) (hrec : IsRecord number rec)
    (hpre : decode F0 d (.struct fs) pre cur fl = .ok (v1, n1))
    (hF : (pre ++ (rec ++ rest)).length + Codec.height (.struct fs) ≤ F) :
    decode F d (.struct fs) (pre ++ (rec ++ rest)) cur fl
      = shiftV rec.length (decode F d (.struct fs) (pre ++ rest) cur fl) := by
  cases F0 with
  | zero => simp [decode] at hpre
  | succ f1 =>
    have hd : ¬ (d + 1 > Gen.c_proto_maxDepth) := by
      intro hd
      simp only [decode] at hpre
      rw [if_pos hd] at hpre
      simp at hpre
    cases cur with
    | struct vs =>
      rw [decode_struct_succ _ _ _ _ _ _ hd] at hpre
      obtain ⟨⟨vs1, k⟩, hp, _⟩ := bind_ok _ _ _ hpre
      let fl' : Flags := { fl with toplevel := false }
      have hfuel := ProtoDepth.decodeStruct_ne_fuel (rest.length + CFields.height fs + 1) (d + 1) fs rest
        (pre.length + rest.length) vs1 fl' pre.length (Nat.le_refl _)
      have hR := decodeStruct_append f1 (d + 1) fs pre rest pre.length vs fl' 0 vs1 k _ _ (by omega) hp rfl hfuel
      have key := decodeStruct_skip_anywhere f1 _ (d + 1) fs number pre rec rest vs vs1 fl' k hlk hrec hp hfuel
      -- the two sides at convenient fuel
      have hA : decode (f1 + (rest.length + CFields.height fs + 1) + 1) d (.struct fs) (pre ++ rest) (.struct vs) fl
          ≠ .err "fuel" := by
        rw [decode_struct_succ _ _ _ _ _ _ hd, List.length_append, hR]
        exact bind_ne_fuel _ _ hfuel (by intro a _; simp)
      have hB : decode (f1 + (rest.length + CFields.height fs + 1 + 1) + 1) d (.struct fs) (pre ++ (rec ++ rest))
            (.struct vs) fl
          = shiftV rec.length
              (decode (f1 + (rest.length + CFields.height fs + 1) + 1) d (.struct fs) (pre ++ rest) (.struct vs) fl) := by
        rw [decode_struct_succ _ _ _ _ _ _ hd, decode_struct_succ _ _ _ _ _ _ hd, shiftV_bind,
          List.length_append (as := pre) (bs := rec ++ rest),
          List.length_append (as := pre) (bs := rest), key]
      have hBne : decode (f1 + (rest.length + CFields.height fs + 1 + 1) + 1) d (.struct fs) (pre ++ (rec ++ rest))
            (.struct vs) fl ≠ .err "fuel" := by
        rw [hB]
        revert hA
        cases decode (f1 + (rest.length + CFields.height fs + 1) + 1) d (.struct fs) (pre ++ rest) (.struct vs) fl with
        | ok a => obtain ⟨v, n⟩ := a; simp [shiftV]
        | err e => simp [shiftV]
        | panic e => simp [shiftV]
      rw [decode_fuel_eq _ F d _ _ _ _ hBne hF, hB,
        decode_fuel_eq _ F d _ _ _ _ hA (by simp only [List.length_append] at hF ⊢; omega)]
    | _ =>
      simp only [decode] at hpre
      rw [if_neg hd] at hpre
      simp at hpre

/-- **(C), anywhere, `Unmarshal` level** -/
theorem unmarshal_skip_anywhere_gen (t : Ty) (fs : CFields) (vs : Vals) (number : Nat) (pre rec rest : Bytes)
    (v1 : Val) (hc : codecOf t = .struct fs) (hz : zeroOf t = .struct vs)
    (hlk : lookupField fs number = none) (hrec : IsRecord number rec)
    (hpre : unmarshal t pre = .ok v1) :
    unmarshal t (pre ++ (rec ++ rest)) = unmarshal t (pre ++ rest) := by
  -- `pre` decodes successfully at some fuel
  have hpre' : ∃ F0 v n, decode F0 0 (.struct fs) pre (.struct vs) { toplevel := true } = .ok (v, n) := by
    unfold unmarshal at hpre
    rw [hc, hz] at hpre
    by_cases hb : pre.isEmpty = true
    · have : pre = [] := by simpa using hb
      subst this
      exact ⟨2, _, _, decode_struct_empty 0 0 fs vs _ depth0_ok⟩
    · simp only [hb, Bool.false_eq_true, ↓reduceIte] at hpre
      cases hd : decode (2 * pre.length + 8 + Codec.height (.struct fs)) 0 (.struct fs) pre (.struct vs)
          { toplevel := true } with
      | ok a => exact ⟨_, a.1, a.2, hd⟩
      | err e => rw [hd] at hpre; simp at hpre
      | panic e => rw [hd] at hpre; simp at hpre
  obtain ⟨F0, v0, n0, hp⟩ := hpre'
  have hrpos : 0 < rec.length := by
    obtain ⟨tb, p, tag, ht, _, _⟩ := hrec
    have := ht.pos; simp only [List.length_append]; omega
  have hne : (pre ++ (rec ++ rest)).isEmpty = false := by
    cases pre with
    | nil =>
      cases rec with
      | nil => simp at hrpos
      | cons x xs => rfl
    | cons x xs => rfl
  unfold unmarshal
  rw [hc, hz]
  simp only [hne, Bool.false_eq_true, ↓reduceIte]
  have hlenB : (pre ++ (rec ++ rest)).length = (pre ++ rest).length + rec.length := by
    simp only [List.length_append]; omega
  rw [decode_struct_skip_anywhere _ F0 0 fs number pre rec rest _ _ v0 n0 hlk hrec hp (by omega)]
  by_cases hb : pre ++ rest = []
  · have hF : 2 * (pre ++ (rec ++ rest)).length + 8 + Codec.height (.struct fs)
        = (Codec.height (.struct fs) + 2 * (pre ++ (rec ++ rest)).length + 6) + 2 := by omega
    rw [hF, hb, decode_struct_empty _ _ _ _ _ depth0_ok]
    simp [shiftV, hlenB, hb]
  · have hbe : (pre ++ rest).isEmpty = false := by simpa using hb
    simp only [hbe, Bool.false_eq_true, ↓reduceIte]
    rw [decode_fuel_irrelevant (2 * (pre ++ (rec ++ rest)).length + 8 + Codec.height (.struct fs))
      (2 * (pre ++ rest).length + 8 + Codec.height (.struct fs)) 0 (.struct fs)
      (pre ++ rest) (.struct vs) _ (by omega) (by omega)]
    cases decode (2 * (pre ++ rest).length + 8 + Codec.height (.struct fs)) 0 (.struct fs) (pre ++ rest) (.struct vs)
        { toplevel := true } with
    | ok a =>
      obtain ⟨v, n⟩ := a
      simp only [shiftV, hlenB, Nat.add_lt_add_iff_right]
    | err e => rfl
    | panic e => rfl

/-- **(C)** `proto.Unmarshal` into a struct type: if `pre` alone unmarshals successfully (it is a sequence of complete
fields), inserting an undeclared complete record after it does not change the result — whatever the nesting of the
type (no hypothesis relating it to `maxDepth`). -/
theorem unmarshal_skip_anywhere (Fs : Fields) (number : Nat) (pre rec rest : Bytes) (v1 : Val)
    (hlk : lookupField (fieldsOf 1 Fs) number = none) (hrec : IsRecord number rec)
    (hpre : unmarshal (.struct Fs) pre = .ok v1) :
    unmarshal (.struct Fs) (pre ++ (rec ++ rest)) = unmarshal (.struct Fs) (pre ++ rest) :=
  unmarshal_skip_anywhere_gen (.struct Fs) (fieldsOf 1 Fs) (zeroFields Fs) number pre rec rest v1
    (by simp [codecOf]) (by simp [zeroOf]) hlk hrec hpre

/-! ## non-vacuity: `struct{ A bool }`, the undeclared record `10 01` (field 2, varint 1) -/

private theorem split_empty' (sep : String) (h : (sep == "") = false) : "".splitOn sep = [""] := by
  unfold String.splitOn
  simp only [h]
  rw [String.splitOnAux]
  have h1 : String.Pos.Raw.atEnd "" 0 = true := by decide
  have h2 : String.Pos.Raw.extract "" 0 0 = "" := by decide
  simp [h1, h2]

private theorem tag_empty : (lookupProtobuf "").bind parseStructTag = none := by
  unfold lookupProtobuf
  rw [split_empty' _ (by decide)]; rfl

/-- `struct{ A bool }` -/
def exSkipFs : Fields := .cons "A" "" false .bool .nil

theorem exSkip_codec : fieldsOf 1 exSkipFs = .cons 1 false false false .bool .nil := by
  simp [exSkipFs, fieldsOf, tag_empty, fieldCodecOf, codecOf, isStructBase, embBase, baseTy]

theorem exSkip_lookup : lookupField (fieldsOf 1 exSkipFs) 2 = none := by rw [exSkip_codec]; rfl
theorem exSkip_record : IsRecord 2 [0x10, 0x01] :=
  IsRecord.mk [0x10] [0x01] 0x10#64 (by rfl) (by decide) (IsPayload.varint [0x01] 1#64 (by rfl))
theorem exSkip_pre : unmarshal (.struct exSkipFs) [0x08, 0x01] = .ok (.struct (.cons (.bool true) .nil)) := by
  unfold unmarshal
  simp only [codecOf, exSkip_codec]
  rfl

/-- the hypotheses of `unmarshal_skip_front` hold on a concrete input -/
example : unmarshal (.struct exSkipFs) ([0x10, 0x01] ++ [0x08, 0x01]) = unmarshal (.struct exSkipFs) [0x08, 0x01] :=
  unmarshal_skip_front exSkipFs 2 _ _ exSkip_lookup exSkip_record
/-- the hypotheses of `unmarshal_skip_anywhere` hold on a concrete input -/
example : unmarshal (.struct exSkipFs) ([0x08, 0x01] ++ ([0x10, 0x01] ++ [0x08, 0x00]))
    = unmarshal (.struct exSkipFs) ([0x08, 0x01] ++ [0x08, 0x00]) :=
  unmarshal_skip_anywhere exSkipFs 2 _ _ _ _ exSkip_lookup exSkip_record exSkip_pre

#print axioms unmarshal_skip_front
#print axioms unmarshal_skip_anywhere
#print axioms decode_ne_panic
#print axioms decode_bound
#print axioms decodeStruct_consumes_all
#print axioms unmarshal_ne_fuel
#print axioms unmarshal_ne_panic

end Enc.Lemmas.ProtoDepth
